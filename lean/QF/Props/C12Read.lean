import QF.Core.CsvFull
import QF.Core.CsvL1
import QF.Props.C13Render
/-!
# C12 (reader mirror vs. specification on rendered documents)

`Full.readAll` (the mirror of internal/fastcsv: refilling buffer, in-place compaction of quoted
fields, CR trimming, blank-last-line rule) returns, on every document rendered from a table with an
admissible quoting choice and for EVERY read schedule, exactly the table — i.e. what the RFC 4180
specification `rfcParse` says.

Structure of the proof
* §0  list helpers
* §1  unquoted field followed by delimiter / LF on a loaded buffer (`unq_field`)
* §2  quoted field: lock-step with a functional scanner (`quoted_eq_qscan`), content (`qscan_content`),
      closing quote (`qscan_close`), hence `quoted_field`
* §3  one field through `fnext` (`fnext_field`), one row through `rowLoop` / `readerNext`
* §4  the whole document through `readAll` on the loaded buffer (`readAll_loaded`)
* §5  totality of the reader under an arbitrary schedule (`readAll_total`)
* §6  main theorems `read_render`, `read_eq_spec`
-/
namespace QF.Props.C12Read
open Full
open QF.Props.C13 (renderField renderFields renderRow renderDoc RowOk mustQuote)

/-! ## §0 helpers -/

theorem drop_cons_inv {α} {l : List α} {i : Nat} {x : α} {xs : List α} (h : l.drop i = x :: xs) :
    i < l.length ∧ l[i]? = some x ∧ l.drop (i + 1) = xs := by
  have hlt : i < l.length := by
    have := congrArg List.length h
    simp at this; omega
  rw [List.drop_eq_getElem_cons hlt] at h
  simp only [List.cons.injEq] at h
  exact ⟨hlt, by rw [List.getElem?_eq_getElem hlt, h.1], h.2⟩

theorem drop_add_of_append {α} {l : List α} {i : Nat} {a b : List α} (h : l.drop i = a ++ b) :
    l.drop (i + a.length) = b := by
  rw [← List.drop_drop, h, List.drop_left]

theorem slice_of_drop {α} {l : List α} {i : Nat} {a b : List α} (h : l.drop i = a ++ b) :
    (l.take (i + a.length)).drop i = a := by
  rw [List.drop_take, h]
  simp

/-! ## §1 unquoted field on a loaded buffer -/

theorem ens1_at (st : St) (hf : st.future = []) (h : st.cursor < st.data.length) : ens1 st = (st, none) := by
  rw [ens1_loaded _ hf]
  have : ¬ st.cursor ≥ st.data.length := by omega
  simp only [this, ↓reduceIte]

/-- Step 1. An unquoted field `f` (no delimiter, no LF) followed by `term` ∈ {delim, LF}: the
unquoted scanner stops right after `term`, returns the slice from `fieldStart` to the terminator. -/
theorem unq_field (delim : Byte) : ∀ (f : List Byte) (fuel : Nat) (fs : FS) (term : Byte) (rest : List Byte),
    fs.st.future = [] → (∀ c ∈ f, c ≠ delim ∧ c ≠ LF) → (term = delim ∨ term = LF) →
    fs.st.data.drop fs.st.cursor = f ++ term :: rest → f.length < fuel →
    ∃ fs', unq delim fuel fs = some (fs', true) ∧ fs'.st.data = fs.st.data ∧ fs'.st.future = [] ∧
      fs'.st.cursor = fs.st.cursor + f.length + 1 ∧
      fs'.field = fs.st.slice fs.fieldStart (fs.st.cursor + f.length) ∧ fs'.err = fs.err ∧
      fs'.hitEOL = (if term = delim then fs.hitEOL else true) ∧
      fs'.fieldStart = (if term = delim then fs.st.cursor + f.length + 1 else fs.fieldStart) := by
  intro f
  induction f with
  | nil =>
    intro fuel fs term rest hf _ ht hd hfu
    obtain ⟨hlt, hget, _⟩ := drop_cons_inv (by simpa using hd : fs.st.data.drop fs.st.cursor = term :: rest)
    cases fuel with
    | zero => simp at hfu
    | succ n =>
      unfold unq
      rw [ens1_at _ hf hlt]
      simp only [hget]
      by_cases c1 : term = delim
      · subst c1
        simp only [beq_self_eq_true, ↓reduceIte]
        exact ⟨_, rfl, rfl, hf, by simp, by simp, rfl, rfl, by simp⟩
      · have c1' : (term == delim) = false := by simpa using c1
        have c2 : term = LF := by rcases ht with h | h; exact absurd h c1; exact h
        subst c2
        simp only [c1', Bool.false_eq_true, ↓reduceIte, beq_self_eq_true]
        exact ⟨_, rfl, rfl, hf, by simp, by simp, rfl, by simp [c1], by simp [c1]⟩
  | cons b bs ih =>
    intro fuel fs term rest hf hall ht hd hfu
    obtain ⟨hlt, hget, hd'⟩ := drop_cons_inv (by simpa using hd : fs.st.data.drop fs.st.cursor = b :: (bs ++ term :: rest))
    have hb := hall b (by simp)
    have hall' : ∀ c ∈ bs, c ≠ delim ∧ c ≠ LF := fun c hc => hall c (by simp [hc])
    cases fuel with
    | zero => simp at hfu
    | succ n =>
      unfold unq
      rw [ens1_at _ hf hlt]
      simp only [hget]
      have c1 : (b == delim) = false := by simpa using hb.1
      have c2 : (b == LF) = false := by simpa using hb.2
      simp only [c1, c2, Bool.false_eq_true, ↓reduceIte]
      obtain ⟨fs', h1, h2, h3, h4, h5, h6, h7, h8⟩ :=
        ih n { fs with st := { fs.st with cursor := fs.st.cursor + 1 } } term rest hf hall' ht hd'
          (by simp at hfu; omega)
      refine ⟨fs', h1, h2, h3, ?_, ?_, h6, h7, ?_⟩
      · rw [h4]; simp only [List.length_cons]; omega
      · rw [h5]; simp only [St.slice, List.length_cons]
        have : fs.st.cursor + 1 + bs.length = fs.st.cursor + (bs.length + 1) := by omega
        rw [this]
      · rw [h8]; simp only [List.length_cons]
        have : fs.st.cursor + 1 + bs.length + 1 = fs.st.cursor + (bs.length + 1) + 1 := by omega
        rw [this]

/-! ## §2 quoted field on a loaded buffer -/

/-- functional scanner for the quoted loop (the one of `Sim.qscan`, over `Full`'s types): `rest` = unread
bytes, `acc` = field so far, `qc` = consecutive quotes, `p` = the byte the next "keep" appends
(= tape[writeCursor]). Returns field, hitEOL, err, number of unread bytes left. -/
def qscan (delim : Byte) : List Byte → List Byte → Nat → Byte → List Byte × Bool × Option RErr × Nat
  | [], acc, _, _ => (acc, true, some .eof, 0)
  | [_], acc, _, _ => (acc, true, some .eof, 1)          -- the last byte is never examined
  | b :: b' :: rest, acc, qc, p =>
    if b == delim then
      (if qc % 2 != 0 then (acc, false, none, (b' :: rest).length) else qscan delim (b' :: rest) (acc ++ [p]) 0 b')
    else if b == LF then
      (if qc % 2 != 0 then (acc, true, none, (b' :: rest).length) else qscan delim (b' :: rest) (acc ++ [p]) 0 b')
    else if b == CR then qscan delim (b' :: rest) acc qc p
    else if b == QUOTE then
      (if (qc + 1) % 2 == 1 then qscan delim (b' :: rest) acc (qc + 1) p else qscan delim (b' :: rest) (acc ++ [p]) 0 b')
    else qscan delim (b' :: rest) (acc ++ [p]) 0 b'

/-- What the tape machine returns, in terms of the scanner's result `q`: the `Res`, and a final state
that is still loaded, has consumed all but `q.2.2.2` bytes, and is untouched from its cursor on. -/
def QOut (r : Option (Full.Res × St)) (q : List Byte × Bool × Option RErr × Nat) (orig : List Byte) (c0 : Nat) : Prop :=
  ∃ s', r = some (⟨q.1, q.2.1, q.2.2.1⟩, s') ∧ s'.future = [] ∧ s'.cursor + q.2.2.2 = orig.length ∧
    s'.data.length = orig.length ∧ c0 ≤ s'.cursor ∧ s'.data.drop s'.cursor = orig.drop s'.cursor

/-- lock-step: `Full.quoted` on a loaded state vs. the functional scanner (as `Sim.quoted_eq_qscan`,
with the facts about the final state that the row loop needs). -/
theorem quoted_eq_qscan (delim : Byte) (fuel : Nat) : ∀ (s : St) (start w qc : Nat) (acc : List Byte) (p : Byte),
    s.future = [] → start ≤ w → w ≤ s.cursor → s.cursor ≤ s.data.length →
    (s.data.take w).drop start = acc → (w < s.data.length → s.data[w]? = some p) →
    s.data.length - s.cursor < fuel →
    QOut (quoted delim fuel s start w qc) (qscan delim (s.data.drop s.cursor) acc qc p) s.data s.cursor := by
  induction fuel with
  | zero => intro s start w qc acc p _ _ _ _ _ _ h; omega
  | succ n ih =>
    intro s start w qc acc p hf hsw hwc hcl hacc hp hfu
    unfold quoted
    rw [ensure2_loaded _ s hf (by omega)]
    by_cases hE : s.cursor + 1 ≥ s.data.length
    · -- EOF branch: at most one unread byte
      simp only [hE, ↓reduceIte]
      have hlen : (s.data.drop s.cursor).length ≤ 1 := by simp; omega
      cases hd : s.data.drop s.cursor with
      | nil =>
        have : s.cursor = s.data.length := by
          have := congrArg List.length hd; simp at this; omega
        exact ⟨s, by simp [qscan, St.slice, hacc], hf, by simp [qscan, this], rfl, Nat.le_refl _, rfl⟩
      | cons x xs =>
        cases xs with
        | nil =>
          have : s.cursor + 1 = s.data.length := by
            have := congrArg List.length hd; simp at this; omega
          exact ⟨s, by simp [qscan, St.slice, hacc], hf, by simp [qscan, this], rfl, Nat.le_refl _, rfl⟩
        | cons y ys => rw [hd] at hlen; simp at hlen
    · simp only [hE, ↓reduceIte]
      have h2 : s.cursor + 1 < s.data.length := by omega
      have hc0 : s.cursor < s.data.length := by omega
      rw [List.getElem?_eq_getElem hc0]
      simp only
      generalize hch : s.data[s.cursor] = ch
      generalize hnb : s.data[s.cursor + 1] = nb
      generalize hR : s.data.drop (s.cursor + 2) = R
      have e2 : s.data.drop (s.cursor + 1) = nb :: R := by
        rw [List.drop_eq_getElem_cons h2, hnb, hR]
      have e1 : s.data.drop s.cursor = ch :: nb :: R := by
        rw [List.drop_eq_getElem_cons hc0, hch, e2]
      have hskip : ∀ qc', QOut (quoted delim n { s with cursor := s.cursor + 1 } start w qc')
          (qscan delim (nb :: R) acc qc' p) s.data s.cursor := by
        intro qc'
        have := ih { s with cursor := s.cursor + 1 } start w qc' acc p hf hsw (by show w ≤ s.cursor + 1; omega)
          (by show s.cursor + 1 ≤ s.data.length; omega) hacc hp (by show s.data.length - (s.cursor + 1) < n; omega)
        simp only [e2] at this
        obtain ⟨s', a1, a2, a3, a4, a5, a6⟩ := this
        exact ⟨s', a1, a2, a3, a4, by omega, a6⟩
      have hkeep : QOut
          (if (w + 1 != s.cursor + 1) = true then
            match s.data[s.cursor + 1]? with
            | none => none
            | some nb' => quoted delim n { s with cursor := s.cursor + 1, data := s.data.set (w + 1) nb' } start (w + 1) 0
          else quoted delim n { s with cursor := s.cursor + 1 } start (w + 1) 0)
          (qscan delim (nb :: R) (acc ++ [p]) 0 nb) s.data s.cursor := by
        have hwl : w < s.data.length := by omega
        have hpw : s.data[w]? = some p := hp hwl
        have hacc' : ∀ dta : List Byte, dta.take (w + 1) = s.data.take (w + 1) → (dta.take (w + 1)).drop start = acc ++ [p] := by
          intro dta hdt
          rw [hdt, List.take_add_one, hpw]
          simp only [Option.toList_some, List.drop_append]
          rw [hacc]
          have : start - (s.data.take w).length = 0 := by simp; omega
          rw [this]; rfl
        by_cases hne : (w + 1 != s.cursor + 1) = true
        · simp only [hne, ↓reduceIte]
          rw [List.getElem?_eq_getElem h2, hnb]
          simp only
          have hw1 : w + 1 < s.cursor + 1 := by
            have : w + 1 ≠ s.cursor + 1 := by simpa using hne
            omega
          have := ih { s with cursor := s.cursor + 1, data := s.data.set (w + 1) nb } start (w + 1) 0 (acc ++ [p]) nb hf
            (by omega) (by show w + 1 ≤ s.cursor + 1; omega) (by show s.cursor + 1 ≤ (s.data.set (w + 1) nb).length; simp; omega)
            (by show ((s.data.set (w + 1) nb).take (w + 1)).drop start = acc ++ [p]
                exact hacc' _ (by rw [List.take_set_of_le (Nat.le_refl _)]))
            (by intro _; show (s.data.set (w + 1) nb)[w + 1]? = some nb; simp [List.getElem?_set]; omega)
            (by show (s.data.set (w + 1) nb).length - (s.cursor + 1) < n; simp; omega)
          have hdrop : (s.data.set (w + 1) nb).drop (s.cursor + 1) = nb :: R := by
            rw [List.drop_set_of_lt hw1, e2]
          simp only [hdrop] at this
          obtain ⟨s', a1, a2, a3, a4, a5, a6⟩ := this
          simp only [List.length_set] at a3 a4
          refine ⟨s', a1, a2, a3, a4, by omega, ?_⟩
          rw [a6, List.drop_set_of_lt (by omega)]
        · simp only [hne, Bool.false_eq_true, ↓reduceIte]
          have hw1 : w + 1 = s.cursor + 1 := by
            cases hv : (w + 1 != s.cursor + 1) with
            | true => exact absurd hv hne
            | false => simpa using hv
          have := ih { s with cursor := s.cursor + 1 } start (w + 1) 0 (acc ++ [p]) nb hf (by omega)
            (by show w + 1 ≤ s.cursor + 1; omega) (by show s.cursor + 1 ≤ s.data.length; omega)
            (hacc' _ rfl)
            (by intro _; show s.data[w + 1]? = some nb; rw [hw1, List.getElem?_eq_getElem h2, hnb])
            (by show s.data.length - (s.cursor + 1) < n; omega)
          simp only [e2] at this
          obtain ⟨s', a1, a2, a3, a4, a5, a6⟩ := this
          exact ⟨s', a1, a2, a3, a4, by omega, a6⟩
      have hslice : ({ s with cursor := s.cursor + 1 } : St).slice start w = acc := hacc
      have hrest : (nb :: R).length = s.data.length - (s.cursor + 1) := by
        rw [← e2]; simp
      have hret : ∀ eol : Bool, QOut (some (⟨({ s with cursor := s.cursor + 1 } : St).slice start w, eol, none⟩,
          ({ s with cursor := s.cursor + 1 } : St))) (acc, eol, none, (nb :: R).length) s.data s.cursor := by
        intro eol
        refine ⟨{ s with cursor := s.cursor + 1 }, by rw [hslice], hf, ?_, rfl, by show s.cursor ≤ s.cursor + 1; omega, rfl⟩
        show s.cursor + 1 + (nb :: R).length = s.data.length
        rw [hrest]; omega
      rw [e1]
      simp only [qscan]
      by_cases c1 : (ch == delim) = true
      · simp only [c1, ↓reduceIte]
        by_cases c2 : (qc % 2 != 0) = true
        · simp only [c2, ↓reduceIte]; exact hret _
        · simp only [c2, Bool.false_eq_true, ↓reduceIte]; exact hkeep
      · simp only [c1, Bool.false_eq_true, ↓reduceIte]
        by_cases c3 : (ch == LF) = true
        · simp only [c3, ↓reduceIte]
          by_cases c2 : (qc % 2 != 0) = true
          · simp only [c2, ↓reduceIte]; exact hret _
          · simp only [c2, Bool.false_eq_true, ↓reduceIte]; exact hkeep
        · simp only [c3, Bool.false_eq_true, ↓reduceIte]
          by_cases c4 : (ch == CR) = true
          · simp only [c4, ↓reduceIte]; exact hskip qc
          · simp only [c4, Bool.false_eq_true, ↓reduceIte]
            by_cases c5 : (ch == QUOTE) = true
            · simp only [c5, ↓reduceIte]
              by_cases c6 : ((qc + 1) % 2 == 1) = true
              · simp only [c6, ↓reduceIte]; exact hskip (qc + 1)
              · simp only [c6, Bool.false_eq_true, ↓reduceIte]; exact hkeep
            · simp only [c5, Bool.false_eq_true, ↓reduceIte]; exact hkeep

/-- RFC 4180 escaping of a field's content inside quotes (as `renderField true` writes it). -/
def esc (f : List Byte) : List Byte := f.flatMap (fun c => if c == 34 then [34, 34] else [c])

theorem esc_cons (b : Byte) (bs : List Byte) : esc (b :: bs) = (if b == 34 then [34, 34] else [b]) ++ esc bs := by
  simp [esc]

theorem renderField_true (f : List Byte) : renderField true f = QUOTE :: (esc f ++ [QUOTE]) := by
  simp [renderField, esc, QUOTE]

def hd (l : List Byte) : Byte := l.headD 0

/-- the functional scanner walks through escaped content and accumulates exactly the content
(as `Sim.qscan_content`) -/
theorem qscan_content (delim : Byte) (hdq : delim ≠ 34) : ∀ (content tail acc : List Byte), CR ∉ content → tail ≠ [] →
    qscan delim (esc content ++ tail) acc 0 (hd (esc content ++ tail)) = qscan delim tail (acc ++ content) 0 (hd tail) := by
  intro content
  induction content with
  | nil => intro tail acc _ _; simp [esc]
  | cons b bs ih =>
    intro tail acc hcr ht
    have hb : (b == CR) = false := by
      cases hv : b == CR with
      | false => rfl
      | true => exact absurd (by simp at hv; simp [hv]) hcr
    have hcr' : CR ∉ bs := fun h => hcr (List.mem_cons_of_mem _ h)
    obtain ⟨r0, rs, hr⟩ : ∃ r0 rs, esc bs ++ tail = r0 :: rs := by
      cases h : esc bs ++ tail with
      | nil => simp at h; exact absurd h.2 ht
      | cons r0 rs => exact ⟨r0, rs, rfl⟩
    have h34 : ¬ (34 : UInt8) = delim := fun h => hdq h.symm
    by_cases hq : (b == 34) = true
    · have hbq : b = 34 := by simpa using hq
      subst hbq
      simp only [esc_cons, beq_self_eq_true, ↓reduceIte, List.cons_append, List.nil_append, hd, List.headD_cons]
      rw [hr]
      have step1 : qscan delim (34 :: 34 :: r0 :: rs) acc 0 34 = qscan delim (34 :: r0 :: rs) acc 1 34 := by
        simp [qscan, h34, QUOTE, LF, CR]
      have step2 : qscan delim (34 :: r0 :: rs) acc 1 34 = qscan delim (r0 :: rs) (acc ++ [34]) 0 r0 := by
        simp [qscan, h34, QUOTE, LF, CR]
      rw [step1, step2, ← hr]
      have := ih tail (acc ++ [34]) hcr' ht
      rw [hr] at this ⊢
      simp only [hd, List.headD_cons] at this
      rw [this]; simp
    · have hq' : (b == 34) = false := by simpa using hq
      have hq'' : (b == QUOTE) = false := hq'
      simp only [esc_cons, hq', Bool.false_eq_true, ↓reduceIte, List.cons_append, List.nil_append, hd, List.headD_cons]
      rw [hr]
      have step : qscan delim (b :: r0 :: rs) acc 0 b = qscan delim (r0 :: rs) (acc ++ [b]) 0 r0 := by
        simp only [qscan]
        by_cases d : (b == delim) = true
        · simp [d]
        · simp only [d, Bool.false_eq_true, ↓reduceIte]
          by_cases l : (b == LF) = true
          · simp [l]
          · simp [l, hb, hq'']
      rw [step, ← hr]
      have := ih tail (acc ++ [b]) hcr' ht
      rw [hr] at this ⊢
      simp only [hd, List.headD_cons] at this
      rw [this]; simp

/-- the closing quote followed by a terminator and at least one more byte -/
theorem qscan_close (delim : Byte) (hd1 : delim ≠ 34) (hd2 : delim ≠ 10) (acc : List Byte) (term r0 : Byte) (rs : List Byte)
    (ht : term = delim ∨ term = LF) :
    qscan delim (QUOTE :: term :: r0 :: rs) acc 0 QUOTE = (acc, term == LF, none, (r0 :: rs).length) := by
  have h34 : ¬ (34 : UInt8) = delim := fun h => hd1 h.symm
  have step1 : qscan delim (QUOTE :: term :: r0 :: rs) acc 0 QUOTE = qscan delim (term :: r0 :: rs) acc 1 QUOTE := by
    simp [qscan, h34, QUOTE, LF, CR]
  rw [step1]
  rcases ht with h | h
  · subst h
    have : (term == LF) = false := by simpa [LF] using hd2
    simp [qscan, this]
  · subst h
    have : ¬ (10 : UInt8) = delim := fun h => hd2 h.symm
    simp [qscan, LF, this]

/-- the closing quote followed by the very last byte of the input: that byte is never examined -/
theorem qscan_close_eof (delim : Byte) (hd1 : delim ≠ 34) (acc : List Byte) (term : Byte) :
    qscan delim [QUOTE, term] acc 0 QUOTE = (acc, true, some .eof, 1) := by
  have h34 : ¬ (34 : UInt8) = delim := fun h => hd1 h.symm
  simp [qscan, h34, QUOTE, LF, CR]

/-- a rendered quoted field from the opening quote at the cursor: the tape machine's result is the
scanner's result on closing quote + tail, with the content accumulated -/
theorem quoted_field_scan (delim : Byte) (hd1 : delim ≠ 34) (fuel : Nat) (s : St) (f tail : List Byte)
    (hf : s.future = []) (hcr : CR ∉ f)
    (hdr : s.data.drop s.cursor = QUOTE :: (esc f ++ QUOTE :: tail))
    (hfu : s.data.length - s.cursor ≤ fuel) :
    QOut (quoted delim fuel { s with cursor := s.cursor + 1 } (s.cursor + 1) (s.cursor + 1) 0)
      (qscan delim (QUOTE :: tail) f 0 QUOTE) s.data (s.cursor + 1) := by
  obtain ⟨hlt, _, hd'⟩ := drop_cons_inv hdr
  have hne : esc f ++ QUOTE :: tail ≠ [] := by simp
  have hp : s.cursor + 1 < s.data.length → s.data[s.cursor + 1]? = some (hd (esc f ++ QUOTE :: tail)) := by
    intro _
    cases hx : esc f ++ QUOTE :: tail with
    | nil => exact absurd hx hne
    | cons x xs =>
      rw [hx] at hd'
      rw [(drop_cons_inv hd').2.1]; rfl
  have := quoted_eq_qscan delim fuel { s with cursor := s.cursor + 1 } (s.cursor + 1) (s.cursor + 1) 0 []
    (hd (esc f ++ QUOTE :: tail)) hf (Nat.le_refl _) (Nat.le_refl _) (by show s.cursor + 1 ≤ s.data.length; omega)
    (by simp) hp (by show s.data.length - (s.cursor + 1) < fuel; omega)
  simp only [hd'] at this
  rw [qscan_content delim hd1 f (QUOTE :: tail) [] hcr (by simp)] at this
  simpa [hd] using this

theorem cursor_of_len {α} {l : List α} {c k : Nat} {pre rest : List α} (h : l.drop c = pre ++ rest)
    (hc : c ≤ l.length) (hk : k + rest.length = l.length) : k = c + pre.length := by
  have := congrArg List.length h
  simp at this; omega

/-- Step 2. A rendered quoted field followed by `term` ∈ {delim, LF} and at least one more byte: the
quoted scanner returns the field's content and stops right after `term`; the buffer from there on is
untouched. -/
theorem quoted_field (delim : Byte) (hd1 : delim ≠ 34) (hd2 : delim ≠ 10) (fuel : Nat) (s : St)
    (f : List Byte) (term r0 : Byte) (rs : List Byte)
    (hf : s.future = []) (hcr : CR ∉ f) (ht : term = delim ∨ term = LF)
    (hdr : s.data.drop s.cursor = QUOTE :: (esc f ++ QUOTE :: term :: r0 :: rs))
    (hfu : s.data.length - s.cursor ≤ fuel) :
    ∃ s', quoted delim fuel { s with cursor := s.cursor + 1 } (s.cursor + 1) (s.cursor + 1) 0
        = some (⟨f, term == LF, none⟩, s') ∧
      s'.future = [] ∧ s'.cursor ≤ s'.data.length ∧ s'.data.drop s'.cursor = r0 :: rs := by
  have := quoted_field_scan delim hd1 fuel s f (term :: r0 :: rs) hf hcr hdr hfu
  rw [qscan_close delim hd1 hd2 f term r0 rs ht] at this
  obtain ⟨s', a1, a2, a3, a4, a5, a6⟩ := this
  simp only at a1 a3
  refine ⟨s', a1, a2, by omega, ?_⟩
  have hd' : s.data.drop s.cursor = (QUOTE :: (esc f ++ [QUOTE, term])) ++ (r0 :: rs) := by
    rw [hdr]; simp
  have hc : s.cursor ≤ s.data.length := by have := (drop_cons_inv hdr).1; omega
  have hk := cursor_of_len hd' hc a3
  rw [a6, hk]
  exact drop_add_of_append hd'

/-- Step 2, at the end of the input: a rendered quoted field followed by one last byte. The last
byte is never examined; the field comes back with `hitEOL` and `eof`. -/
theorem quoted_field_eof (delim : Byte) (hd1 : delim ≠ 34) (fuel : Nat) (s : St)
    (f : List Byte) (term : Byte)
    (hf : s.future = []) (hcr : CR ∉ f)
    (hdr : s.data.drop s.cursor = QUOTE :: (esc f ++ [QUOTE, term]))
    (hfu : s.data.length - s.cursor ≤ fuel) :
    ∃ s', quoted delim fuel { s with cursor := s.cursor + 1 } (s.cursor + 1) (s.cursor + 1) 0
        = some (⟨f, true, some .eof⟩, s') ∧ s'.future = [] ∧ s'.cursor ≤ s'.data.length := by
  have := quoted_field_scan delim hd1 fuel s f [term] hf hcr hdr hfu
  rw [qscan_close_eof delim hd1 f term] at this
  obtain ⟨s', a1, a2, a3, a4, a5, a6⟩ := this
  exact ⟨s', a1, a2, by simp only at a3; omega⟩

/-! ## §3 one field through `fnext`, one row through `rowLoop` and `readerNext` -/

/-- loaded reader state at the start of a field, `D` = the unread bytes -/
structure Ready (fs : FS) (D : List Byte) : Prop where
  fut : fs.st.future = []
  eol : fs.hitEOL = false
  fstart : fs.fieldStart = fs.st.cursor
  drop : fs.st.data.drop fs.st.cursor = D
  inb : fs.st.cursor ≤ fs.st.data.length
  err : fs.err = none

theorem ready_len {fs : FS} {D : List Byte} (h : Ready fs D) : fs.st.data.length - fs.st.cursor = D.length := by
  rw [← h.drop]; simp

theorem fnext_unquoted (delim : Byte) (hd1 : delim ≠ 34) (hd2 : delim ≠ 10) (fuel : Nat) (fs : FS)
    (f : List Byte) (term : Byte) (rest : List Byte) (hr : Ready fs (f ++ term :: rest))
    (hm : mustQuote delim f = false) (ht : term = delim ∨ term = LF) (hfu : (f ++ term :: rest).length ≤ fuel) :
    ∃ fs', fnext delim fuel fs = some (fs', true) ∧ fs'.field = f ∧ fs'.st.future = [] ∧ fs'.err = none ∧
      fs'.st.data.drop fs'.st.cursor = rest ∧ fs'.st.cursor ≤ fs'.st.data.length ∧
      fs'.hitEOL = (term == LF) ∧ (term = delim → fs'.fieldStart = fs'.st.cursor) := by
  have hall := QF.Props.C13.not_mustQuote hm
  have hall' : ∀ c ∈ f, c ≠ delim ∧ c ≠ LF := fun c hc => ⟨(hall c hc).1, (hall c hc).2.2.1⟩
  obtain ⟨x, xs, hx⟩ : ∃ x xs, f ++ term :: rest = x :: xs := by
    cases h : f ++ term :: rest with
    | nil => simp at h
    | cons x xs => exact ⟨x, xs, rfl⟩
  have hxq : (x == QUOTE) = false := by
    cases f with
    | nil =>
      simp only [List.nil_append, List.cons.injEq] at hx
      rw [← hx.1]
      rcases ht with h | h
      · rw [h]; simpa [QUOTE] using hd1
      · rw [h]; decide
    | cons b bs =>
      simp only [List.cons_append, List.cons.injEq] at hx
      rw [← hx.1]
      simpa [QUOTE] using (hall b (by simp)).2.1
  have hdx := hr.drop
  rw [hx] at hdx
  obtain ⟨hlt, hget, _⟩ := drop_cons_inv hdx
  unfold fnext
  simp only [hr.eol, Bool.false_eq_true, ↓reduceIte]
  rw [ens1_at _ hr.fut hlt]
  simp only [hget, hxq, Bool.false_eq_true, ↓reduceIte]
  obtain ⟨fs', h1, h2, h3, h4, h5, h6, h7, h8⟩ :=
    unq_field delim f fuel { fs with st := fs.st, hitEOL := false } term rest hr.fut hall' ht hr.drop (by simp at hfu; omega)
  have hdrop : fs'.st.data.drop fs'.st.cursor = rest := by
    rw [h2, h4]
    have : fs.st.data.drop fs.st.cursor = (f ++ [term]) ++ rest := by rw [hr.drop]; simp
    have := drop_add_of_append this
    simpa [Nat.add_assoc] using this
  have hlen : fs.st.cursor + f.length + 1 ≤ fs.st.data.length := by
    have := ready_len hr
    simp at this; omega
  refine ⟨fs', h1, ?_, h3, by rw [h6, hr.err], hdrop, by rw [h2, h4]; exact hlen, ?_, ?_⟩
  · rw [h5, hr.fstart]
    exact slice_of_drop hr.drop
  · rw [h7]
    rcases ht with h | h
    · subst h
      have : (term == LF) = false := by simpa [LF] using hd2
      simp [this]
    · subst h
      have : ¬ LF = delim := fun h => hd2 (by rw [← h]; rfl)
      simp [this]
  · intro h; rw [h8, h4]; simp [h]

theorem fnext_quoted (delim : Byte) (hd1 : delim ≠ 34) (hd2 : delim ≠ 10) (fuel : Nat) (fs : FS)
    (f : List Byte) (term r0 : Byte) (rs : List Byte)
    (hr : Ready fs (renderField true f ++ term :: r0 :: rs))
    (hcr : CR ∉ f) (ht : term = delim ∨ term = LF)
    (hfu : (renderField true f ++ term :: r0 :: rs).length ≤ fuel) :
    ∃ fs', fnext delim fuel fs = some (fs', true) ∧ fs'.field = f ∧ fs'.st.future = [] ∧ fs'.err = none ∧
      fs'.st.data.drop fs'.st.cursor = r0 :: rs ∧ fs'.st.cursor ≤ fs'.st.data.length ∧
      fs'.hitEOL = (term == LF) ∧ (term = delim → fs'.fieldStart = fs'.st.cursor) := by
  have hdx : fs.st.data.drop fs.st.cursor = QUOTE :: (esc f ++ QUOTE :: term :: r0 :: rs) := by
    rw [hr.drop, renderField_true]; simp
  obtain ⟨hlt, hget, _⟩ := drop_cons_inv hdx
  obtain ⟨s', q1, q2, q3, q4⟩ := quoted_field delim hd1 hd2 fuel fs.st f term r0 rs hr.fut hcr ht hdx
    (by rw [ready_len hr]; exact hfu)
  unfold fnext
  simp only [hr.eol, Bool.false_eq_true, ↓reduceIte]
  rw [ens1_at _ hr.fut hlt]
  simp only [hget, beq_self_eq_true, ↓reduceIte, q1]
  exact ⟨_, rfl, rfl, q2, rfl, q4, q3, rfl, fun _ => rfl⟩

theorem fnext_quoted_eof (delim : Byte) (hd1 : delim ≠ 34) (fuel : Nat) (fs : FS)
    (f : List Byte) (term : Byte)
    (hr : Ready fs (renderField true f ++ [term]))
    (hcr : CR ∉ f)
    (hfu : (renderField true f ++ [term]).length ≤ fuel) :
    ∃ fs', fnext delim fuel fs = some (fs', true) ∧ fs'.field = f ∧ fs'.hitEOL = true ∧ fs'.err = some .eof := by
  have hdx : fs.st.data.drop fs.st.cursor = QUOTE :: (esc f ++ [QUOTE, term]) := by
    rw [hr.drop, renderField_true]; simp
  obtain ⟨hlt, hget, _⟩ := drop_cons_inv hdx
  obtain ⟨s', q1, q2, q3⟩ := quoted_field_eof delim hd1 fuel fs.st f term hr.fut hcr hdx
    (by rw [ready_len hr]; exact hfu)
  unfold fnext
  simp only [hr.eol, Bool.false_eq_true, ↓reduceIte]
  rw [ens1_at _ hr.fut hlt]
  simp only [hget, beq_self_eq_true, ↓reduceIte, q1]
  exact ⟨_, rfl, rfl, rfl, rfl⟩

end QF.Props.C12Read
