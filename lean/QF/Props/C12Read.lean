import QF.Core.CsvFull
import QF.Core.CsvL1
import QF.Props.C13Render
/-!
# C12 (reader mirror vs. specification on rendered documents)

`Full.readAll` (the mirror of the REPAIRED internal/fastcsv: refilling buffer, in-place compaction of
quoted fields, CR skipped only after a closing quote, empty last field after a trailing delimiter, CR
trimming, blank-last-line rule) returns, on every document rendered from a table with an admissible
quoting choice and for EVERY read schedule, exactly the table — i.e. what the RFC 4180 specification
`rfcParse` says. Quoted fields may contain line breaks, CR LF included (`RowOk'`); the last row may come
without its line break and may end with a delimiter (`read_render_no_final_newline`,
`read_render_trailing_delim`).

Structure of the proof
* §0  list helpers
* §1  unquoted field followed by delimiter / LF on a loaded buffer (`unq_field`)
* §2  quoted field: lock-step with a functional scanner (`quoted_eq_qscan`), content (`qscan_content`, any
      content), closing quote (`qscan_close*`), hence `quoted_field`, `quoted_field_eof`,
      `quoted_field_delim_eof`, `quoted_field_end`
* §3  one field through `fnext` (`fnext_field_delim`, `fnext_field_last`, `fnext_field_end`), one row through
      `rowLoop` / `readerNext` (`rowLoop_row`, `readerNext_row`; without line break: `rowLoop_fields`,
      `readerNext_fields`)
* §4  the whole document through `readAll` on the loaded buffer (`readAll_prefix`, `readAll_loaded`,
      `readAll_loaded_nfn`)
* §5  totality of the reader under an arbitrary schedule (`readAll_total`)
* §6  main theorems `read_render'`, `read_eq_spec'`, `read_render_no_final_newline`,
      `read_render_trailing_delim`, … and, as corollaries, the theorems stated before the repair
      (`read_render`, `read_eq_spec`, … with `RowOk`, which forbids CR in every field)
-/
namespace QF.Props.C12Read
open Full
open QF.Props.C13 (renderField renderFields renderRow renderDoc RowOk mustQuote)

/-! ## §0 helpers -/

theorem drop_cons_inv {α} {l : List α} {i : Nat} {x : α} {xs : List α} (h : l.drop i = x :: xs) :
    i < l.length ∧ l[i]? = some x ∧ l.drop (i + 1) = xs := by
  have hlt : i < l.length := by
    have := congrArg List.length h
    simp at this; omega
  rw [List.drop_eq_getElem_cons hlt] at h
  simp only [List.cons.injEq] at h
  exact ⟨hlt, by rw [List.getElem?_eq_getElem hlt, h.1], h.2⟩

theorem drop_add_of_append {α} {l : List α} {i : Nat} {a b : List α} (h : l.drop i = a ++ b) :
    l.drop (i + a.length) = b := by
  rw [← List.drop_drop, h, List.drop_left]

theorem slice_of_drop {α} {l : List α} {i : Nat} {a b : List α} (h : l.drop i = a ++ b) :
    (l.take (i + a.length)).drop i = a := by
  rw [List.drop_take, h]
  simp

/-! ## §1 unquoted field on a loaded buffer -/

theorem ens1_at (st : St) (hf : st.future = []) (h : st.cursor < st.data.length) : ens1 st = (st, none) := by
  rw [ens1_loaded _ hf]
  have : ¬ st.cursor ≥ st.data.length := by omega
  simp only [this, ↓reduceIte]

/-- Step 1. An unquoted field `f` (no delimiter, no LF) followed by `term` ∈ {delim, LF}: the
unquoted scanner stops right after `term`, returns the slice from `fieldStart` to the terminator. -/
theorem unq_field (delim : Byte) : ∀ (f : List Byte) (fuel : Nat) (fs : FS) (term : Byte) (rest : List Byte),
    fs.st.future = [] → (∀ c ∈ f, c ≠ delim ∧ c ≠ LF) → (term = delim ∨ term = LF) →
    fs.st.data.drop fs.st.cursor = f ++ term :: rest → f.length < fuel →
    ∃ fs', unq delim fuel fs = some (fs', true) ∧ fs'.st.data = fs.st.data ∧ fs'.st.future = [] ∧
      fs'.st.cursor = fs.st.cursor + f.length + 1 ∧
      fs'.field = fs.st.slice fs.fieldStart (fs.st.cursor + f.length) ∧ fs'.err = fs.err ∧
      fs'.hitEOL = (if term = delim then fs.hitEOL else true) ∧
      fs'.fieldStart = (if term = delim then fs.st.cursor + f.length + 1 else fs.fieldStart) := by
  intro f
  induction f with
  | nil =>
    intro fuel fs term rest hf _ ht hd hfu
    obtain ⟨hlt, hget, _⟩ := drop_cons_inv (by simpa using hd : fs.st.data.drop fs.st.cursor = term :: rest)
    cases fuel with
    | zero => simp at hfu
    | succ n =>
      unfold unq
      rw [ens1_at _ hf hlt]
      simp only [hget]
      by_cases c1 : term = delim
      · subst c1
        simp only [beq_self_eq_true, ↓reduceIte]
        exact ⟨_, rfl, rfl, hf, by simp, by simp, rfl, rfl, by simp⟩
      · have c1' : (term == delim) = false := by simpa using c1
        have c2 : term = LF := by rcases ht with h | h; exact absurd h c1; exact h
        subst c2
        simp only [c1', Bool.false_eq_true, ↓reduceIte, beq_self_eq_true]
        exact ⟨_, rfl, rfl, hf, by simp, by simp, rfl, by simp [c1], by simp [c1]⟩
  | cons b bs ih =>
    intro fuel fs term rest hf hall ht hd hfu
    obtain ⟨hlt, hget, hd'⟩ := drop_cons_inv (by simpa using hd : fs.st.data.drop fs.st.cursor = b :: (bs ++ term :: rest))
    have hb := hall b (by simp)
    have hall' : ∀ c ∈ bs, c ≠ delim ∧ c ≠ LF := fun c hc => hall c (by simp [hc])
    cases fuel with
    | zero => simp at hfu
    | succ n =>
      unfold unq
      rw [ens1_at _ hf hlt]
      simp only [hget]
      have c1 : (b == delim) = false := by simpa using hb.1
      have c2 : (b == LF) = false := by simpa using hb.2
      simp only [c1, c2, Bool.false_eq_true, ↓reduceIte]
      obtain ⟨fs', h1, h2, h3, h4, h5, h6, h7, h8⟩ :=
        ih n { fs with st := { fs.st with cursor := fs.st.cursor + 1 } } term rest hf hall' ht hd'
          (by simp at hfu; omega)
      refine ⟨fs', h1, h2, h3, ?_, ?_, h6, h7, ?_⟩
      · rw [h4]; simp only [List.length_cons]; omega
      · rw [h5]; simp only [St.slice, List.length_cons]
        have : fs.st.cursor + 1 + bs.length = fs.st.cursor + (bs.length + 1) := by omega
        rw [this]
      · rw [h8]; simp only [List.length_cons]
        have : fs.st.cursor + 1 + bs.length + 1 = fs.st.cursor + (bs.length + 1) + 1 := by omega
        rw [this]

/-! ## §2 quoted field on a loaded buffer -/

/-- functional scanner for the quoted loop (the one of `Sim.qscan`, over `Full`'s types): `rest` = unread
bytes, `acc` = field so far, `qc` = consecutive quotes, `p` = the byte the next "keep" appends
(= tape[writeCursor]). Returns field, hitEOL, err, number of unread bytes left. -/
def qscan (delim : Byte) : List Byte → List Byte → Nat → Byte → List Byte × Bool × Option RErr × Nat
  | [], acc, _, _ => (acc, true, some .eof, 0)
  | [b], acc, qc, _ =>          -- the last byte is examined only for "delimiter after the closing quote"
    if qc % 2 != 0 && b == delim then (acc, false, none, 0) else (acc, true, some .eof, 1)
  | b :: b' :: rest, acc, qc, p =>
    if b == delim then
      (if qc % 2 != 0 then (acc, false, none, (b' :: rest).length) else qscan delim (b' :: rest) (acc ++ [p]) 0 b')
    else if b == LF then
      (if qc % 2 != 0 then (acc, true, none, (b' :: rest).length) else qscan delim (b' :: rest) (acc ++ [p]) 0 b')
    else if b == CR then   -- skipped after a closing quote (CRLF row end), content inside the quotes
      (if qc % 2 != 0 then qscan delim (b' :: rest) acc qc p else qscan delim (b' :: rest) (acc ++ [p]) 0 b')
    else if b == QUOTE then
      (if (qc + 1) % 2 == 1 then qscan delim (b' :: rest) acc (qc + 1) p else qscan delim (b' :: rest) (acc ++ [p]) 0 b')
    else qscan delim (b' :: rest) (acc ++ [p]) 0 b'

/-- What the tape machine returns, in terms of the scanner's result `q`: the `Res`, and a final state
that is still loaded, has consumed all but `q.2.2.2` bytes, and is untouched from its cursor on. -/
def QOut (r : Option (Full.Res × St)) (q : List Byte × Bool × Option RErr × Nat) (orig : List Byte) (c0 : Nat) : Prop :=
  ∃ s', r = some (⟨q.1, q.2.1, q.2.2.1⟩, s') ∧ s'.future = [] ∧ s'.cursor + q.2.2.2 = orig.length ∧
    s'.data.length = orig.length ∧ c0 ≤ s'.cursor ∧ s'.data.drop s'.cursor = orig.drop s'.cursor

/-- lock-step: `Full.quoted` on a loaded state vs. the functional scanner (as `Sim.quoted_eq_qscan`,
with the facts about the final state that the row loop needs). -/
theorem quoted_eq_qscan (delim : Byte) (fuel : Nat) : ∀ (s : St) (start w qc : Nat) (acc : List Byte) (p : Byte),
    s.future = [] → start ≤ w → w ≤ s.cursor → s.cursor ≤ s.data.length →
    (s.data.take w).drop start = acc → (w < s.data.length → s.data[w]? = some p) →
    s.data.length - s.cursor < fuel →
    QOut (quoted delim fuel s start w qc) (qscan delim (s.data.drop s.cursor) acc qc p) s.data s.cursor := by
  induction fuel with
  | zero => intro s start w qc acc p _ _ _ _ _ _ h; omega
  | succ n ih =>
    intro s start w qc acc p hf hsw hwc hcl hacc hp hfu
    unfold quoted
    rw [ensure2_loaded _ s hf (by omega)]
    by_cases hE : s.cursor + 1 ≥ s.data.length
    · -- EOF branch: at most one unread byte
      simp only [hE, ↓reduceIte]
      have hlen : (s.data.drop s.cursor).length ≤ 1 := by simp; omega
      cases hd : s.data.drop s.cursor with
      | nil =>
        have : s.cursor = s.data.length := by
          have := congrArg List.length hd; simp at this; omega
        have hc' : ¬ (qc % 2 != 0 && decide (s.cursor < s.data.length) && s.data[s.cursor]? == some delim) = true := by
          intro h
          simp only [Bool.and_eq_true, decide_eq_true_eq] at h
          omega
        simp only [hc', Bool.false_eq_true, ↓reduceIte]
        exact ⟨s, by simp [qscan, St.slice, hacc], hf, by simp [qscan, this], rfl, Nat.le_refl _, rfl⟩
      | cons x xs =>
        cases xs with
        | nil =>
          have hl1 : s.cursor + 1 = s.data.length := by
            have := congrArg List.length hd; simp at this; omega
          have hlt : s.cursor < s.data.length := by omega
          have hx : s.data[s.cursor]? = some x := by
            have := congrArg (·[0]?) hd; simpa using this
          by_cases hc : (qc % 2 != 0 && x == delim) = true
          · have hc' : (qc % 2 != 0 && decide (s.cursor < s.data.length) && s.data[s.cursor]? == some delim) = true := by
              simp only [Bool.and_eq_true, decide_eq_true_eq] at hc ⊢
              exact ⟨⟨hc.1, hlt⟩, by rw [hx]; simpa using hc.2⟩
            simp only [hc', ↓reduceIte]
            refine ⟨{ s with cursor := s.cursor + 1 }, by simp only [qscan, hc, ↓reduceIte, St.slice, hacc], hf, ?_, rfl,
              by show s.cursor ≤ s.cursor + 1; omega, rfl⟩
            simp only [qscan, hc, ↓reduceIte]
            show s.cursor + 1 + 0 = s.data.length
            omega
          · have hc' : ¬ (qc % 2 != 0 && decide (s.cursor < s.data.length) && s.data[s.cursor]? == some delim) = true := by
              intro h
              simp only [Bool.and_eq_true, decide_eq_true_eq] at hc h
              exact hc ⟨h.1.1, by have := h.2; rw [hx] at this; simpa using this⟩
            simp only [hc', Bool.false_eq_true, ↓reduceIte]
            refine ⟨s, by simp only [qscan, hc, Bool.false_eq_true, ↓reduceIte, St.slice, hacc], hf, ?_, rfl, Nat.le_refl _, rfl⟩
            simp only [qscan, hc, Bool.false_eq_true, ↓reduceIte]
            omega
        | cons y ys => rw [hd] at hlen; simp at hlen
    · simp only [hE, ↓reduceIte]
      have h2 : s.cursor + 1 < s.data.length := by omega
      have hc0 : s.cursor < s.data.length := by omega
      rw [List.getElem?_eq_getElem hc0]
      simp only
      generalize hch : s.data[s.cursor] = ch
      generalize hnb : s.data[s.cursor + 1] = nb
      generalize hR : s.data.drop (s.cursor + 2) = R
      have e2 : s.data.drop (s.cursor + 1) = nb :: R := by
        rw [List.drop_eq_getElem_cons h2, hnb, hR]
      have e1 : s.data.drop s.cursor = ch :: nb :: R := by
        rw [List.drop_eq_getElem_cons hc0, hch, e2]
      have hskip : ∀ qc', QOut (quoted delim n { s with cursor := s.cursor + 1 } start w qc')
          (qscan delim (nb :: R) acc qc' p) s.data s.cursor := by
        intro qc'
        have := ih { s with cursor := s.cursor + 1 } start w qc' acc p hf hsw (by show w ≤ s.cursor + 1; omega)
          (by show s.cursor + 1 ≤ s.data.length; omega) hacc hp (by show s.data.length - (s.cursor + 1) < n; omega)
        simp only [e2] at this
        obtain ⟨s', a1, a2, a3, a4, a5, a6⟩ := this
        exact ⟨s', a1, a2, a3, a4, by omega, a6⟩
      have hkeep : QOut
          (if (w + 1 != s.cursor + 1) = true then
            match s.data[s.cursor + 1]? with
            | none => none
            | some nb' => quoted delim n { s with cursor := s.cursor + 1, data := s.data.set (w + 1) nb' } start (w + 1) 0
          else quoted delim n { s with cursor := s.cursor + 1 } start (w + 1) 0)
          (qscan delim (nb :: R) (acc ++ [p]) 0 nb) s.data s.cursor := by
        have hwl : w < s.data.length := by omega
        have hpw : s.data[w]? = some p := hp hwl
        have hacc' : ∀ dta : List Byte, dta.take (w + 1) = s.data.take (w + 1) → (dta.take (w + 1)).drop start = acc ++ [p] := by
          intro dta hdt
          rw [hdt, List.take_add_one, hpw]
          simp only [Option.toList_some, List.drop_append]
          rw [hacc]
          have : start - (s.data.take w).length = 0 := by simp; omega
          rw [this]; rfl
        by_cases hne : (w + 1 != s.cursor + 1) = true
        · simp only [hne, ↓reduceIte]
          rw [List.getElem?_eq_getElem h2, hnb]
          simp only
          have hw1 : w + 1 < s.cursor + 1 := by
            have : w + 1 ≠ s.cursor + 1 := by simpa using hne
            omega
          have := ih { s with cursor := s.cursor + 1, data := s.data.set (w + 1) nb } start (w + 1) 0 (acc ++ [p]) nb hf
            (by omega) (by show w + 1 ≤ s.cursor + 1; omega) (by show s.cursor + 1 ≤ (s.data.set (w + 1) nb).length; simp; omega)
            (by show ((s.data.set (w + 1) nb).take (w + 1)).drop start = acc ++ [p]
                exact hacc' _ (by rw [List.take_set_of_le (Nat.le_refl _)]))
            (by intro _; show (s.data.set (w + 1) nb)[w + 1]? = some nb; simp [List.getElem?_set]; omega)
            (by show (s.data.set (w + 1) nb).length - (s.cursor + 1) < n; simp; omega)
          have hdrop : (s.data.set (w + 1) nb).drop (s.cursor + 1) = nb :: R := by
            rw [List.drop_set_of_lt hw1, e2]
          simp only [hdrop] at this
          obtain ⟨s', a1, a2, a3, a4, a5, a6⟩ := this
          simp only [List.length_set] at a3 a4
          refine ⟨s', a1, a2, a3, a4, by omega, ?_⟩
          rw [a6, List.drop_set_of_lt (by omega)]
        · simp only [hne, Bool.false_eq_true, ↓reduceIte]
          have hw1 : w + 1 = s.cursor + 1 := by
            cases hv : (w + 1 != s.cursor + 1) with
            | true => exact absurd hv hne
            | false => simpa using hv
          have := ih { s with cursor := s.cursor + 1 } start (w + 1) 0 (acc ++ [p]) nb hf (by omega)
            (by show w + 1 ≤ s.cursor + 1; omega) (by show s.cursor + 1 ≤ s.data.length; omega)
            (hacc' _ rfl)
            (by intro _; show s.data[w + 1]? = some nb; rw [hw1, List.getElem?_eq_getElem h2, hnb])
            (by show s.data.length - (s.cursor + 1) < n; omega)
          simp only [e2] at this
          obtain ⟨s', a1, a2, a3, a4, a5, a6⟩ := this
          exact ⟨s', a1, a2, a3, a4, by omega, a6⟩
      have hslice : ({ s with cursor := s.cursor + 1 } : St).slice start w = acc := hacc
      have hrest : (nb :: R).length = s.data.length - (s.cursor + 1) := by
        rw [← e2]; simp
      have hret : ∀ eol : Bool, QOut (some (⟨({ s with cursor := s.cursor + 1 } : St).slice start w, eol, none⟩,
          ({ s with cursor := s.cursor + 1 } : St))) (acc, eol, none, (nb :: R).length) s.data s.cursor := by
        intro eol
        refine ⟨{ s with cursor := s.cursor + 1 }, by rw [hslice], hf, ?_, rfl, by show s.cursor ≤ s.cursor + 1; omega, rfl⟩
        show s.cursor + 1 + (nb :: R).length = s.data.length
        rw [hrest]; omega
      rw [e1]
      simp only [qscan]
      by_cases c1 : (ch == delim) = true
      · simp only [c1, ↓reduceIte]
        by_cases c2 : (qc % 2 != 0) = true
        · simp only [c2, ↓reduceIte]; exact hret _
        · simp only [c2, Bool.false_eq_true, ↓reduceIte]; exact hkeep
      · simp only [c1, Bool.false_eq_true, ↓reduceIte]
        by_cases c3 : (ch == LF) = true
        · simp only [c3, ↓reduceIte]
          by_cases c2 : (qc % 2 != 0) = true
          · simp only [c2, ↓reduceIte]; exact hret _
          · simp only [c2, Bool.false_eq_true, ↓reduceIte]; exact hkeep
        · simp only [c3, Bool.false_eq_true, ↓reduceIte]
          by_cases c4 : (ch == CR) = true
          · simp only [c4, ↓reduceIte]
            by_cases c2 : (qc % 2 != 0) = true
            · simp only [c2, ↓reduceIte]; exact hskip qc
            · simp only [c2, Bool.false_eq_true, ↓reduceIte]; exact hkeep
          · simp only [c4, Bool.false_eq_true, ↓reduceIte]
            by_cases c5 : (ch == QUOTE) = true
            · simp only [c5, ↓reduceIte]
              by_cases c6 : ((qc + 1) % 2 == 1) = true
              · simp only [c6, ↓reduceIte]; exact hskip (qc + 1)
              · simp only [c6, Bool.false_eq_true, ↓reduceIte]; exact hkeep
            · simp only [c5, Bool.false_eq_true, ↓reduceIte]; exact hkeep

/-- RFC 4180 escaping of a field's content inside quotes (as `renderField true` writes it). -/
def esc (f : List Byte) : List Byte := f.flatMap (fun c => if c == 34 then [34, 34] else [c])

theorem esc_cons (b : Byte) (bs : List Byte) : esc (b :: bs) = (if b == 34 then [34, 34] else [b]) ++ esc bs := by
  simp [esc]

theorem renderField_true (f : List Byte) : renderField true f = QUOTE :: (esc f ++ [QUOTE]) := by
  simp [renderField, esc, QUOTE]

def hd (l : List Byte) : Byte := l.headD 0

/-- the functional scanner walks through escaped content and accumulates exactly the content
(as `Sim.qscan_content`) — whatever the content: delimiters, line feeds, quotes and, since the repair of
`nextQuotedField`, carriage returns -/
theorem qscan_content (delim : Byte) (hdq : delim ≠ 34) : ∀ (content tail acc : List Byte), tail ≠ [] →
    qscan delim (esc content ++ tail) acc 0 (hd (esc content ++ tail)) = qscan delim tail (acc ++ content) 0 (hd tail) := by
  intro content
  induction content with
  | nil => intro tail acc _; simp [esc]
  | cons b bs ih =>
    intro tail acc ht
    obtain ⟨r0, rs, hr⟩ : ∃ r0 rs, esc bs ++ tail = r0 :: rs := by
      cases h : esc bs ++ tail with
      | nil => simp at h; exact absurd h.2 ht
      | cons r0 rs => exact ⟨r0, rs, rfl⟩
    have h34 : ¬ (34 : UInt8) = delim := fun h => hdq h.symm
    by_cases hq : (b == 34) = true
    · have hbq : b = 34 := by simpa using hq
      subst hbq
      simp only [esc_cons, beq_self_eq_true, ↓reduceIte, List.cons_append, List.nil_append, hd, List.headD_cons]
      rw [hr]
      have step1 : qscan delim (34 :: 34 :: r0 :: rs) acc 0 34 = qscan delim (34 :: r0 :: rs) acc 1 34 := by
        simp [qscan, h34, QUOTE, LF, CR]
      have step2 : qscan delim (34 :: r0 :: rs) acc 1 34 = qscan delim (r0 :: rs) (acc ++ [34]) 0 r0 := by
        simp [qscan, h34, QUOTE, LF, CR]
      rw [step1, step2, ← hr]
      have := ih tail (acc ++ [34]) ht
      rw [hr] at this ⊢
      simp only [hd, List.headD_cons] at this
      rw [this]; simp
    · have hq' : (b == 34) = false := by simpa using hq
      have hq'' : (b == QUOTE) = false := hq'
      simp only [esc_cons, hq', Bool.false_eq_true, ↓reduceIte, List.cons_append, List.nil_append, hd, List.headD_cons]
      rw [hr]
      have step : qscan delim (b :: r0 :: rs) acc 0 b = qscan delim (r0 :: rs) (acc ++ [b]) 0 r0 := by
        simp only [qscan]
        by_cases d : (b == delim) = true
        · simp [d]
        · simp only [d, Bool.false_eq_true, ↓reduceIte]
          by_cases l : (b == LF) = true
          · simp [l]
          · simp only [l, Bool.false_eq_true, ↓reduceIte]
            by_cases c : (b == CR) = true
            · simp [c]
            · simp [c, hq'']
      rw [step, ← hr]
      have := ih tail (acc ++ [b]) ht
      rw [hr] at this ⊢
      simp only [hd, List.headD_cons] at this
      rw [this]; simp

/-- the closing quote followed by a terminator and at least one more byte -/
theorem qscan_close (delim : Byte) (hd1 : delim ≠ 34) (hd2 : delim ≠ 10) (acc : List Byte) (term r0 : Byte) (rs : List Byte)
    (ht : term = delim ∨ term = LF) :
    qscan delim (QUOTE :: term :: r0 :: rs) acc 0 QUOTE = (acc, term == LF, none, (r0 :: rs).length) := by
  have h34 : ¬ (34 : UInt8) = delim := fun h => hd1 h.symm
  have step1 : qscan delim (QUOTE :: term :: r0 :: rs) acc 0 QUOTE = qscan delim (term :: r0 :: rs) acc 1 QUOTE := by
    simp [qscan, h34, QUOTE, LF, CR]
  rw [step1]
  rcases ht with h | h
  · subst h
    have : (term == LF) = false := by simpa [LF] using hd2
    simp [qscan, this]
  · subst h
    have : ¬ (10 : UInt8) = delim := fun h => hd2 h.symm
    simp [qscan, LF, this]

/-- the closing quote followed by the very last byte of the input, which is not the delimiter: that
byte is never examined -/
theorem qscan_close_eof (delim : Byte) (hd1 : delim ≠ 34) (acc : List Byte) (term : Byte) (ht : term ≠ delim) :
    qscan delim [QUOTE, term] acc 0 QUOTE = (acc, true, some .eof, 1) := by
  have h34 : ¬ (34 : UInt8) = delim := fun h => hd1 h.symm
  simp [qscan, h34, QUOTE, LF, CR, ht]

/-- the closing quote followed by the delimiter as the very last byte of the input (repaired code): the
delimiter is consumed, the row goes on -/
theorem qscan_close_delim_eof (delim : Byte) (hd1 : delim ≠ 34) (acc : List Byte) :
    qscan delim [QUOTE, delim] acc 0 QUOTE = (acc, false, none, 0) := by
  have h34 : ¬ (34 : UInt8) = delim := fun h => hd1 h.symm
  simp [qscan, h34, QUOTE, LF, CR]

/-- the closing quote is the very last byte of the input -/
theorem qscan_close_end (delim : Byte) (acc : List Byte) :
    qscan delim [QUOTE] acc 0 QUOTE = (acc, true, some .eof, 1) := by
  simp [qscan]

/-- a rendered quoted field from the opening quote at the cursor: the tape machine's result is the
scanner's result on closing quote + tail, with the content accumulated (any content, CR included) -/
theorem quoted_field_scan (delim : Byte) (hd1 : delim ≠ 34) (fuel : Nat) (s : St) (f tail : List Byte)
    (hf : s.future = [])
    (hdr : s.data.drop s.cursor = QUOTE :: (esc f ++ QUOTE :: tail))
    (hfu : s.data.length - s.cursor ≤ fuel) :
    QOut (quoted delim fuel { s with cursor := s.cursor + 1 } (s.cursor + 1) (s.cursor + 1) 0)
      (qscan delim (QUOTE :: tail) f 0 QUOTE) s.data (s.cursor + 1) := by
  obtain ⟨hlt, _, hd'⟩ := drop_cons_inv hdr
  have hne : esc f ++ QUOTE :: tail ≠ [] := by simp
  have hp : s.cursor + 1 < s.data.length → s.data[s.cursor + 1]? = some (hd (esc f ++ QUOTE :: tail)) := by
    intro _
    cases hx : esc f ++ QUOTE :: tail with
    | nil => exact absurd hx hne
    | cons x xs =>
      rw [hx] at hd'
      rw [(drop_cons_inv hd').2.1]; rfl
  have := quoted_eq_qscan delim fuel { s with cursor := s.cursor + 1 } (s.cursor + 1) (s.cursor + 1) 0 []
    (hd (esc f ++ QUOTE :: tail)) hf (Nat.le_refl _) (Nat.le_refl _) (by show s.cursor + 1 ≤ s.data.length; omega)
    (by simp) hp (by show s.data.length - (s.cursor + 1) < fuel; omega)
  simp only [hd'] at this
  rw [qscan_content delim hd1 f (QUOTE :: tail) [] (by simp)] at this
  simpa [hd] using this

theorem cursor_of_len {α} {l : List α} {c k : Nat} {pre rest : List α} (h : l.drop c = pre ++ rest)
    (hc : c ≤ l.length) (hk : k + rest.length = l.length) : k = c + pre.length := by
  have := congrArg List.length h
  simp at this; omega

/-- Step 2. A rendered quoted field (any content) followed by `term` ∈ {delim, LF} and at least one more
byte: the quoted scanner returns the field's content and stops right after `term`; the buffer from
there on is untouched. -/
theorem quoted_field (delim : Byte) (hd1 : delim ≠ 34) (hd2 : delim ≠ 10) (fuel : Nat) (s : St)
    (f : List Byte) (term r0 : Byte) (rs : List Byte)
    (hf : s.future = []) (ht : term = delim ∨ term = LF)
    (hdr : s.data.drop s.cursor = QUOTE :: (esc f ++ QUOTE :: term :: r0 :: rs))
    (hfu : s.data.length - s.cursor ≤ fuel) :
    ∃ s', quoted delim fuel { s with cursor := s.cursor + 1 } (s.cursor + 1) (s.cursor + 1) 0
        = some (⟨f, term == LF, none⟩, s') ∧
      s'.future = [] ∧ s'.cursor ≤ s'.data.length ∧ s'.data.drop s'.cursor = r0 :: rs ∧ s.cursor < s'.cursor := by
  have := quoted_field_scan delim hd1 fuel s f (term :: r0 :: rs) hf hdr hfu
  rw [qscan_close delim hd1 hd2 f term r0 rs ht] at this
  obtain ⟨s', a1, a2, a3, a4, a5, a6⟩ := this
  simp only at a1 a3
  refine ⟨s', a1, a2, by omega, ?_, by omega⟩
  have hd' : s.data.drop s.cursor = (QUOTE :: (esc f ++ [QUOTE, term])) ++ (r0 :: rs) := by
    rw [hdr]; simp
  have hc : s.cursor ≤ s.data.length := by have := (drop_cons_inv hdr).1; omega
  have hk := cursor_of_len hd' hc a3
  rw [a6, hk]
  exact drop_add_of_append hd'

/-- Step 2, at the end of the input: a rendered quoted field followed by one last byte other than the
delimiter. The last byte is never examined; the field comes back with `hitEOL` and `eof`. -/
theorem quoted_field_eof (delim : Byte) (hd1 : delim ≠ 34) (fuel : Nat) (s : St)
    (f : List Byte) (term : Byte)
    (hf : s.future = []) (ht : term ≠ delim)
    (hdr : s.data.drop s.cursor = QUOTE :: (esc f ++ [QUOTE, term]))
    (hfu : s.data.length - s.cursor ≤ fuel) :
    ∃ s', quoted delim fuel { s with cursor := s.cursor + 1 } (s.cursor + 1) (s.cursor + 1) 0
        = some (⟨f, true, some .eof⟩, s') ∧ s'.future = [] ∧ s'.cursor ≤ s'.data.length := by
  have := quoted_field_scan delim hd1 fuel s f [term] hf hdr hfu
  rw [qscan_close_eof delim hd1 f term ht] at this
  obtain ⟨s', a1, a2, a3, a4, a5, a6⟩ := this
  exact ⟨s', a1, a2, by simp only at a3; omega⟩

/-- Step 2, at the end of the input (repaired code): a rendered quoted field followed by the delimiter
as the last byte. The field comes back, the delimiter is consumed, the row is not finished. -/
theorem quoted_field_delim_eof (delim : Byte) (hd1 : delim ≠ 34) (fuel : Nat) (s : St) (f : List Byte)
    (hf : s.future = [])
    (hdr : s.data.drop s.cursor = QUOTE :: (esc f ++ [QUOTE, delim]))
    (hfu : s.data.length - s.cursor ≤ fuel) :
    ∃ s', quoted delim fuel { s with cursor := s.cursor + 1 } (s.cursor + 1) (s.cursor + 1) 0
        = some (⟨f, false, none⟩, s') ∧ s'.future = [] ∧ s'.cursor = s'.data.length ∧ 0 < s'.cursor := by
  have := quoted_field_scan delim hd1 fuel s f [delim] hf hdr hfu
  rw [qscan_close_delim_eof delim hd1 f] at this
  obtain ⟨s', a1, a2, a3, a4, a5, a6⟩ := this
  exact ⟨s', a1, a2, by simp only at a3; omega, by omega⟩

/-- Step 2, at the end of the input: a rendered quoted field whose closing quote is the last byte. -/
theorem quoted_field_end (delim : Byte) (hd1 : delim ≠ 34) (fuel : Nat) (s : St) (f : List Byte)
    (hf : s.future = [])
    (hdr : s.data.drop s.cursor = QUOTE :: (esc f ++ [QUOTE]))
    (hfu : s.data.length - s.cursor ≤ fuel) :
    ∃ s', quoted delim fuel { s with cursor := s.cursor + 1 } (s.cursor + 1) (s.cursor + 1) 0
        = some (⟨f, true, some .eof⟩, s') ∧ s'.future = [] ∧ s'.cursor ≤ s'.data.length := by
  have := quoted_field_scan delim hd1 fuel s f [] hf hdr hfu
  rw [qscan_close_end delim f] at this
  obtain ⟨s', a1, a2, a3, a4, a5, a6⟩ := this
  exact ⟨s', a1, a2, by simp only at a3; omega⟩

/-! ## §3 one field through `fnext`, one row through `rowLoop` and `readerNext` -/

/-- loaded reader state at the start of a field, `D` = the unread bytes -/
structure Ready (fs : FS) (D : List Byte) : Prop where
  fut : fs.st.future = []
  eol : fs.hitEOL = false
  fstart : fs.fieldStart = fs.st.cursor
  drop : fs.st.data.drop fs.st.cursor = D
  inb : fs.st.cursor ≤ fs.st.data.length
  err : fs.err = none

theorem ready_len {fs : FS} {D : List Byte} (h : Ready fs D) : fs.st.data.length - fs.st.cursor = D.length := by
  rw [← h.drop]; simp

theorem fnext_unquoted (delim : Byte) (hd1 : delim ≠ 34) (hd2 : delim ≠ 10) (fuel : Nat) (fs : FS)
    (f : List Byte) (term : Byte) (rest : List Byte) (hr : Ready fs (f ++ term :: rest))
    (hm : mustQuote delim f = false) (ht : term = delim ∨ term = LF) (hfu : (f ++ term :: rest).length ≤ fuel) :
    ∃ fs', fnext delim fuel fs = some (fs', true) ∧ fs'.field = f ∧ fs'.st.future = [] ∧ fs'.err = none ∧
      fs'.st.data.drop fs'.st.cursor = rest ∧ fs'.st.cursor ≤ fs'.st.data.length ∧
      fs'.hitEOL = (term == LF) ∧ (term = delim → fs'.fieldStart = fs'.st.cursor) ∧ fs.st.cursor < fs'.st.cursor := by
  have hall := QF.Props.C13.not_mustQuote hm
  have hall' : ∀ c ∈ f, c ≠ delim ∧ c ≠ LF := fun c hc => ⟨(hall c hc).1, (hall c hc).2.2.1⟩
  obtain ⟨x, xs, hx⟩ : ∃ x xs, f ++ term :: rest = x :: xs := by
    cases h : f ++ term :: rest with
    | nil => simp at h
    | cons x xs => exact ⟨x, xs, rfl⟩
  have hxq : (x == QUOTE) = false := by
    cases f with
    | nil =>
      simp only [List.nil_append, List.cons.injEq] at hx
      rw [← hx.1]
      rcases ht with h | h
      · rw [h]; simpa [QUOTE] using hd1
      · rw [h]; decide
    | cons b bs =>
      simp only [List.cons_append, List.cons.injEq] at hx
      rw [← hx.1]
      simpa [QUOTE] using (hall b (by simp)).2.1
  have hdx := hr.drop
  rw [hx] at hdx
  obtain ⟨hlt, hget, _⟩ := drop_cons_inv hdx
  unfold fnext
  simp only [hr.eol, Bool.false_eq_true, ↓reduceIte]
  rw [ens1_at _ hr.fut hlt]
  simp only [hget, hxq, Bool.false_eq_true, ↓reduceIte]
  obtain ⟨fs', h1, h2, h3, h4, h5, h6, h7, h8⟩ :=
    unq_field delim f fuel { fs with st := fs.st, hitEOL := false } term rest hr.fut hall' ht hr.drop (by simp at hfu; omega)
  have hdrop : fs'.st.data.drop fs'.st.cursor = rest := by
    rw [h2, h4]
    have : fs.st.data.drop fs.st.cursor = (f ++ [term]) ++ rest := by rw [hr.drop]; simp
    have := drop_add_of_append this
    simpa [Nat.add_assoc] using this
  have hlen : fs.st.cursor + f.length + 1 ≤ fs.st.data.length := by
    have := ready_len hr
    simp at this; omega
  refine ⟨fs', h1, ?_, h3, by rw [h6, hr.err], hdrop, by rw [h2, h4]; exact hlen, ?_, ?_,
    by rw [h4]; show fs.st.cursor < fs.st.cursor + f.length + 1; omega⟩
  · rw [h5, hr.fstart]
    exact slice_of_drop hr.drop
  · rw [h7]
    rcases ht with h | h
    · subst h
      have : (term == LF) = false := by simpa [LF] using hd2
      simp [this]
    · subst h
      have : ¬ LF = delim := fun h => hd2 (by rw [← h]; rfl)
      simp [this]
  · intro h; rw [h8, h4]; simp [h]

theorem fnext_quoted (delim : Byte) (hd1 : delim ≠ 34) (hd2 : delim ≠ 10) (fuel : Nat) (fs : FS)
    (f : List Byte) (term r0 : Byte) (rs : List Byte)
    (hr : Ready fs (renderField true f ++ term :: r0 :: rs))
    (ht : term = delim ∨ term = LF)
    (hfu : (renderField true f ++ term :: r0 :: rs).length ≤ fuel) :
    ∃ fs', fnext delim fuel fs = some (fs', true) ∧ fs'.field = f ∧ fs'.st.future = [] ∧ fs'.err = none ∧
      fs'.st.data.drop fs'.st.cursor = r0 :: rs ∧ fs'.st.cursor ≤ fs'.st.data.length ∧
      fs'.hitEOL = (term == LF) ∧ (term = delim → fs'.fieldStart = fs'.st.cursor) ∧ fs.st.cursor < fs'.st.cursor := by
  have hdx : fs.st.data.drop fs.st.cursor = QUOTE :: (esc f ++ QUOTE :: term :: r0 :: rs) := by
    rw [hr.drop, renderField_true]; simp
  obtain ⟨hlt, hget, _⟩ := drop_cons_inv hdx
  obtain ⟨s', q1, q2, q3, q4, q5⟩ := quoted_field delim hd1 hd2 fuel fs.st f term r0 rs hr.fut ht hdx
    (by rw [ready_len hr]; exact hfu)
  unfold fnext
  simp only [hr.eol, Bool.false_eq_true, ↓reduceIte]
  rw [ens1_at _ hr.fut hlt]
  simp only [hget, beq_self_eq_true, ↓reduceIte, q1]
  exact ⟨_, rfl, rfl, q2, rfl, q4, q3, rfl, fun _ => rfl, q5⟩

theorem fnext_quoted_eof (delim : Byte) (hd1 : delim ≠ 34) (fuel : Nat) (fs : FS)
    (f : List Byte) (term : Byte)
    (hr : Ready fs (renderField true f ++ [term])) (ht : term ≠ delim)
    (hfu : (renderField true f ++ [term]).length ≤ fuel) :
    ∃ fs', fnext delim fuel fs = some (fs', true) ∧ fs'.field = f ∧ fs'.hitEOL = true ∧ fs'.err = some .eof := by
  have hdx : fs.st.data.drop fs.st.cursor = QUOTE :: (esc f ++ [QUOTE, term]) := by
    rw [hr.drop, renderField_true]; simp
  obtain ⟨hlt, hget, _⟩ := drop_cons_inv hdx
  obtain ⟨s', q1, q2, q3⟩ := quoted_field_eof delim hd1 fuel fs.st f term hr.fut ht hdx
    (by rw [ready_len hr]; exact hfu)
  unfold fnext
  simp only [hr.eol, Bool.false_eq_true, ↓reduceIte]
  rw [ens1_at _ hr.fut hlt]
  simp only [hget, beq_self_eq_true, ↓reduceIte, q1]
  exact ⟨_, rfl, rfl, rfl, rfl⟩

/-- repaired code: a quoted field followed by the delimiter as the last byte of the input -/
theorem fnext_quoted_delim_eof (delim : Byte) (hd1 : delim ≠ 34) (fuel : Nat) (fs : FS) (f : List Byte)
    (hr : Ready fs (renderField true f ++ [delim]))
    (hfu : (renderField true f ++ [delim]).length ≤ fuel) :
    ∃ fs', fnext delim fuel fs = some (fs', true) ∧ fs'.field = f ∧ Ready fs' [] ∧ 0 < fs'.st.cursor := by
  have hdx : fs.st.data.drop fs.st.cursor = QUOTE :: (esc f ++ [QUOTE, delim]) := by
    rw [hr.drop, renderField_true]; simp
  obtain ⟨hlt, hget, _⟩ := drop_cons_inv hdx
  obtain ⟨s', q1, q2, q3, q4⟩ := quoted_field_delim_eof delim hd1 fuel fs.st f hr.fut hdx
    (by rw [ready_len hr]; exact hfu)
  unfold fnext
  simp only [hr.eol, Bool.false_eq_true, ↓reduceIte]
  rw [ens1_at _ hr.fut hlt]
  simp only [hget, beq_self_eq_true, ↓reduceIte, q1]
  exact ⟨_, rfl, rfl, ⟨q2, rfl, rfl, List.drop_eq_nil_of_le (by show s'.data.length ≤ s'.cursor; omega),
    by show s'.cursor ≤ s'.data.length; omega, rfl⟩, q4⟩

/-- a quoted field whose closing quote is the last byte of the input -/
theorem fnext_quoted_end (delim : Byte) (hd1 : delim ≠ 34) (fuel : Nat) (fs : FS) (f : List Byte)
    (hr : Ready fs (renderField true f))
    (hfu : (renderField true f).length ≤ fuel) :
    ∃ fs', fnext delim fuel fs = some (fs', true) ∧ fs'.field = f ∧ fs'.hitEOL = true ∧ fs'.err = some .eof := by
  have hdx : fs.st.data.drop fs.st.cursor = QUOTE :: (esc f ++ [QUOTE]) := by
    rw [hr.drop, renderField_true]
  obtain ⟨hlt, hget, _⟩ := drop_cons_inv hdx
  obtain ⟨s', q1, q2, q3⟩ := quoted_field_end delim hd1 fuel fs.st f hr.fut hdx
    (by rw [ready_len hr]; exact hfu)
  unfold fnext
  simp only [hr.eol, Bool.false_eq_true, ↓reduceIte]
  rw [ens1_at _ hr.fut hlt]
  simp only [hget, beq_self_eq_true, ↓reduceIte, q1]
  exact ⟨_, rfl, rfl, rfl, rfl⟩

/-- An unquoted field `f` (no delimiter, no LF) up to the end of the input: the unquoted scanner
returns the slice from `fieldStart` to the end, with `hitEOL` and `eof`. -/
theorem unq_field_eof (delim : Byte) : ∀ (f : List Byte) (fuel : Nat) (fs : FS),
    fs.st.future = [] → (∀ c ∈ f, c ≠ delim ∧ c ≠ LF) →
    fs.st.data.drop fs.st.cursor = f → f.length < fuel →
    ∃ fs', unq delim fuel fs = some (fs', true) ∧
      fs'.field = fs.st.slice fs.fieldStart (fs.st.cursor + f.length) ∧ fs'.hitEOL = true ∧ fs'.err = some .eof := by
  intro f
  induction f with
  | nil =>
    intro fuel fs hf _ hd hfu
    have hge : fs.st.cursor ≥ fs.st.data.length := List.drop_eq_nil_iff.mp hd
    cases fuel with
    | zero => simp at hfu
    | succ n =>
      unfold unq
      rw [ens1_loaded _ hf]
      simp only [hge, ↓reduceIte]
      exact ⟨_, rfl, rfl, rfl, rfl⟩
  | cons b bs ih =>
    intro fuel fs hf hall hd hfu
    obtain ⟨hlt, hget, hd'⟩ := drop_cons_inv hd
    have hb := hall b (by simp)
    have hall' : ∀ c ∈ bs, c ≠ delim ∧ c ≠ LF := fun c hc => hall c (by simp [hc])
    cases fuel with
    | zero => simp at hfu
    | succ n =>
      unfold unq
      rw [ens1_at _ hf hlt]
      simp only [hget]
      have c1 : (b == delim) = false := by simpa using hb.1
      have c2 : (b == LF) = false := by simpa using hb.2
      simp only [c1, c2, Bool.false_eq_true, ↓reduceIte]
      obtain ⟨fs', h1, h2, h3, h4⟩ :=
        ih n { fs with st := { fs.st with cursor := fs.st.cursor + 1 } } hf hall' hd' (by simp at hfu; omega)
      refine ⟨fs', h1, ?_, h3, h4⟩
      rw [h2]; simp only [St.slice, List.length_cons]
      have : fs.st.cursor + 1 + bs.length = fs.st.cursor + (bs.length + 1) := by omega
      rw [this]

/-- a non-empty unquoted field up to the end of the input -/
theorem fnext_unquoted_end (delim : Byte) (fuel : Nat) (fs : FS) (f : List Byte)
    (hr : Ready fs f) (hne : f ≠ []) (hm : mustQuote delim f = false) (hfu : f.length < fuel) :
    ∃ fs', fnext delim fuel fs = some (fs', true) ∧ fs'.field = f ∧ fs'.hitEOL = true ∧ fs'.err = some .eof := by
  have hall := QF.Props.C13.not_mustQuote hm
  have hall' : ∀ c ∈ f, c ≠ delim ∧ c ≠ LF := fun c hc => ⟨(hall c hc).1, (hall c hc).2.2.1⟩
  obtain ⟨x, xs, hx⟩ : ∃ x xs, f = x :: xs := by
    cases f with
    | nil => exact absurd rfl hne
    | cons x xs => exact ⟨x, xs, rfl⟩
  have hxq : (x == QUOTE) = false := by
    have := (hall x (by rw [hx]; simp)).2.1
    simpa [QUOTE] using this
  have hdx := hr.drop
  rw [hx] at hdx
  obtain ⟨hlt, hget, _⟩ := drop_cons_inv hdx
  unfold fnext
  simp only [hr.eol, Bool.false_eq_true, ↓reduceIte]
  rw [ens1_at _ hr.fut hlt]
  simp only [hget, hxq, Bool.false_eq_true, ↓reduceIte]
  obtain ⟨fs', h1, h2, h3, h4⟩ :=
    unq_field_eof delim f fuel { fs with st := fs.st, hitEOL := false } hr.fut hall' hr.drop hfu
  refine ⟨fs', h1, ?_, h3, h4⟩
  rw [h2, hr.fstart]
  have hd0 : fs.st.data.drop fs.st.cursor = f ++ [] := by rw [hr.drop]; simp
  exact slice_of_drop hd0

/-- repaired code: the input ends right after a delimiter of this row — one more, empty, field -/
theorem fnext_empty_end (delim : Byte) (fuel : Nat) (fs : FS) (hr : Ready fs []) (hpos : 0 < fs.st.cursor) :
    ∃ fs', fnext delim fuel fs = some (fs', true) ∧ fs'.field = [] ∧ fs'.hitEOL = true ∧ fs'.err = some .eof := by
  have hge : fs.st.cursor ≥ fs.st.data.length := List.drop_eq_nil_iff.mp hr.drop
  have hfs : fs.fieldStart > 0 := by rw [hr.fstart]; exact hpos
  unfold fnext
  simp only [hr.eol, Bool.false_eq_true, ↓reduceIte]
  rw [ens1_loaded _ hr.fut]
  simp only [hge, hfs, ↓reduceIte]
  refine ⟨_, rfl, ?_, rfl, rfl⟩
  show fs.st.slice fs.fieldStart fs.fieldStart = []
  simp [St.slice]

/-- what the proof needs of a field: it is quoted if it must be (so an unquoted field contains no
delimiter, quote, LF, CR). A quoted field may contain anything, CR included. -/
def FieldOk' (delim : Byte) (p : Bool × List Byte) : Prop :=
  mustQuote delim p.2 = true → p.1 = true

/-- the hypothesis of the theorems before the repair of `nextQuotedField`: moreover no CR inside -/
def FieldOk (delim : Byte) (p : Bool × List Byte) : Prop :=
  (mustQuote delim p.2 = true → p.1 = true) ∧ CR ∉ p.2

instance (delim : Byte) (p : Bool × List Byte) : Decidable (FieldOk' delim p) := by
  unfold FieldOk'; infer_instance

instance (delim : Byte) (p : Bool × List Byte) : Decidable (FieldOk delim p) := by
  unfold FieldOk; infer_instance

theorem FieldOk.weaken {delim : Byte} {p : Bool × List Byte} (h : FieldOk delim p) : FieldOk' delim p := h.1

/-- `Reader.Next` drops one trailing CR of the last field of a row (CRLF support), so that field must
not end with CR. (For an unquoted field this follows from `FieldOk'`.) -/
def LastNoCR (r : List (Bool × List Byte)) : Prop :=
  ∀ p, r.getLast? = some p → p.2.getLast? ≠ some CR

instance (r : List (Bool × List Byte)) : Decidable (LastNoCR r) :=
  match h : r.getLast? with
  | none => isTrue (fun p hp => by rw [h] at hp; cases hp)
  | some q =>
    if hq : q.2.getLast? = some CR then isFalse (fun hh => hh q h hq)
    else isTrue (fun p hp => by rw [h] at hp; cases hp; exact hq)

theorem lastNoCR_of_noCR {r : List (Bool × List Byte)} (h : ∀ p ∈ r, CR ∉ p.2) : LastNoCR r := by
  intro p hp hl
  exact h p (List.mem_of_getLast? hp) (List.mem_of_getLast? hl)

/-- loaded reader state between two rows, `D` = the unread bytes: either no error so far, or the
input is exhausted and `eof` has already been recorded (by the quoted scanner's look-ahead) -/
def AtRow (fs : FS) (D : List Byte) : Prop :=
  (fs.err = none ∧ fs.st.future = [] ∧ fs.st.data.drop fs.st.cursor = D ∧ fs.st.cursor ≤ fs.st.data.length) ∨
  (D = [] ∧ fs.err = some .eof)

/-- loaded reader state after the last field of a row -/
def Done (fs : FS) (D : List Byte) : Prop := fs.hitEOL = true ∧ AtRow fs D

theorem mustQuote_false_of {delim : Byte} {p : Bool × List Byte} (h : FieldOk' delim p) (hq : p.1 = false) :
    mustQuote delim p.2 = false := by
  cases hm : mustQuote delim p.2 with
  | false => rfl
  | true => rw [h hm] at hq; exact absurd hq (by simp)

/-- Step 3a. A rendered field followed by the delimiter, whatever follows — more bytes or (repaired
code) the end of the input. -/
theorem fnext_field_delim (delim : Byte) (hd1 : delim ≠ 34) (hd2 : delim ≠ 10) (fuel : Nat) (fs : FS)
    (p : Bool × List Byte) (rest : List Byte) (hp : FieldOk' delim p)
    (hr : Ready fs (renderField p.1 p.2 ++ delim :: rest))
    (hfu : (renderField p.1 p.2 ++ delim :: rest).length ≤ fuel) :
    ∃ fs', fnext delim fuel fs = some (fs', true) ∧ fs'.field = p.2 ∧ Ready fs' rest ∧ 0 < fs'.st.cursor := by
  have hne : (delim == LF) = false := by simpa [LF] using hd2
  obtain ⟨q, f⟩ := p
  cases q with
  | true =>
    cases rest with
    | nil => exact fnext_quoted_delim_eof delim hd1 fuel fs f hr hfu
    | cons r0 rs =>
      obtain ⟨fs', a1, a2, a3, a4, a5, a6, a7, a8, a9⟩ :=
        fnext_quoted delim hd1 hd2 fuel fs f delim r0 rs hr (Or.inl rfl) hfu
      exact ⟨fs', a1, a2, ⟨a3, by rw [a7, hne], a8 rfl, a5, a6, a4⟩, by omega⟩
  | false =>
    have hm := mustQuote_false_of hp rfl
    simp only [renderField, Bool.false_eq_true, ↓reduceIte] at hr hfu
    obtain ⟨fs', a1, a2, a3, a4, a5, a6, a7, a8, a9⟩ :=
      fnext_unquoted delim hd1 hd2 fuel fs f delim rest hr hm (Or.inl rfl) hfu
    exact ⟨fs', a1, a2, ⟨a3, by rw [a7, hne], a8 rfl, a5, a6, a4⟩, by omega⟩

/-- Step 3a as it was stated before the repair: a rendered field followed by the delimiter and more bytes. -/
theorem fnext_field_mid (delim : Byte) (hd1 : delim ≠ 34) (hd2 : delim ≠ 10) (fuel : Nat) (fs : FS)
    (p : Bool × List Byte) (r0 : Byte) (rs : List Byte) (hp : FieldOk' delim p)
    (hr : Ready fs (renderField p.1 p.2 ++ delim :: r0 :: rs))
    (hfu : (renderField p.1 p.2 ++ delim :: r0 :: rs).length ≤ fuel) :
    ∃ fs', fnext delim fuel fs = some (fs', true) ∧ fs'.field = p.2 ∧ Ready fs' (r0 :: rs) := by
  obtain ⟨fs', a1, a2, a3, _⟩ := fnext_field_delim delim hd1 hd2 fuel fs p (r0 :: rs) hp hr hfu
  exact ⟨fs', a1, a2, a3⟩

/-- Step 3b. A rendered field followed by LF (end of the row), whatever follows. -/
theorem fnext_field_last (delim : Byte) (hd1 : delim ≠ 34) (hd2 : delim ≠ 10) (fuel : Nat) (fs : FS)
    (p : Bool × List Byte) (rest : List Byte) (hp : FieldOk' delim p)
    (hr : Ready fs (renderField p.1 p.2 ++ LF :: rest))
    (hfu : (renderField p.1 p.2 ++ LF :: rest).length ≤ fuel) :
    ∃ fs', fnext delim fuel fs = some (fs', true) ∧ fs'.field = p.2 ∧ Done fs' rest := by
  obtain ⟨q, f⟩ := p
  cases q with
  | true =>
    cases rest with
    | nil =>
      have hlf : LF ≠ delim := fun h => hd2 (by rw [← h]; rfl)
      obtain ⟨fs', a1, a2, a3, a4⟩ := fnext_quoted_eof delim hd1 fuel fs f LF hr hlf hfu
      exact ⟨fs', a1, a2, a3, Or.inr ⟨rfl, a4⟩⟩
    | cons r0 rs =>
      obtain ⟨fs', a1, a2, a3, a4, a5, a6, a7, a8, _⟩ :=
        fnext_quoted delim hd1 hd2 fuel fs f LF r0 rs hr (Or.inr rfl) hfu
      exact ⟨fs', a1, a2, by rw [a7]; rfl, Or.inl ⟨a4, a3, a5, a6⟩⟩
  | false =>
    have hm := mustQuote_false_of hp rfl
    simp only [renderField, Bool.false_eq_true, ↓reduceIte] at hr hfu
    obtain ⟨fs', a1, a2, a3, a4, a5, a6, a7, a8, _⟩ :=
      fnext_unquoted delim hd1 hd2 fuel fs f LF rest hr hm (Or.inr rfl) hfu
    exact ⟨fs', a1, a2, by rw [a7]; rfl, Or.inl ⟨a4, a3, a5, a6⟩⟩

/-- Step 3b'. A rendered field up to the end of the input (last field of a last row without line break):
quoted; or unquoted and non-empty; or (repaired code) unquoted, empty and preceded by a delimiter. -/
theorem fnext_field_end (delim : Byte) (hd1 : delim ≠ 34) (fuel : Nat) (fs : FS)
    (p : Bool × List Byte) (hp : FieldOk' delim p)
    (hr : Ready fs (renderField p.1 p.2)) (hpos : p = (false, []) → 0 < fs.st.cursor)
    (hfu : (renderField p.1 p.2).length < fuel) :
    ∃ fs', fnext delim fuel fs = some (fs', true) ∧ fs'.field = p.2 ∧ fs'.hitEOL = true ∧ fs'.err = some .eof := by
  obtain ⟨q, f⟩ := p
  cases q with
  | true => exact fnext_quoted_end delim hd1 fuel fs f hr (Nat.le_of_lt hfu)
  | false =>
    have hm := mustQuote_false_of hp rfl
    simp only [renderField, Bool.false_eq_true, ↓reduceIte] at hr hfu
    by_cases hf : f = []
    · subst hf
      exact fnext_empty_end delim fuel fs hr (hpos rfl)
    · exact fnext_unquoted_end delim fuel fs f hr hf hm hfu

theorem renderRow_cons2 (delim : Byte) (p q : Bool × List Byte) (xs : List (Bool × List Byte)) (rest : List Byte) :
    renderRow delim (p :: q :: xs) ++ rest = renderField p.1 p.2 ++ delim :: (renderRow delim (q :: xs) ++ rest) := by
  simp [renderRow, renderFields]

theorem renderRow_single (delim : Byte) (p : Bool × List Byte) (rest : List Byte) :
    renderRow delim [p] ++ rest = renderField p.1 p.2 ++ LF :: rest := by
  simp [renderRow, renderFields, LF]

theorem renderFields_cons2 (delim : Byte) (p q : Bool × List Byte) (xs : List (Bool × List Byte)) :
    renderFields delim (p :: q :: xs) = renderField p.1 p.2 ++ delim :: renderFields delim (q :: xs) := by
  simp [renderFields]

theorem renderFields_single (delim : Byte) (p : Bool × List Byte) :
    renderFields delim [p] = renderField p.1 p.2 := rfl

theorem renderRow_ne_nil (delim : Byte) (r : List (Bool × List Byte)) : renderRow delim r ≠ [] := by
  simp [renderRow]

theorem length_le_renderRow (delim : Byte) : ∀ r : List (Bool × List Byte), r.length ≤ (renderRow delim r).length
  | [] => by simp
  | [p] => by simp [renderRow]
  | p :: q :: xs => by
    have := length_le_renderRow delim (q :: xs)
    have e := renderRow_cons2 delim p q xs []
    simp only [List.append_nil] at e
    rw [e]
    simp only [List.length_append, List.length_cons] at this ⊢
    omega

theorem length_le_renderFields (delim : Byte) : ∀ r : List (Bool × List Byte), r.length ≤ (renderFields delim r).length + 1
  | [] => by simp
  | [p] => by simp
  | p :: q :: xs => by
    have := length_le_renderFields delim (q :: xs)
    rw [renderFields_cons2]
    simp only [List.length_append, List.length_cons] at this ⊢
    omega

/-- an unquoted empty field at the end of a row with at least two fields is rendered as a trailing delimiter -/
theorem renderFields_trailing (delim : Byte) : ∀ (xs : List (Bool × List Byte)), xs ≠ [] →
    renderFields delim (xs ++ [(false, [])]) = renderFields delim xs ++ [delim]
  | [], h => absurd rfl h
  | [p], _ => by simp [renderFields, renderField]
  | p :: q :: ys, _ => by
    have := renderFields_trailing delim (q :: ys) (by simp)
    simp only [List.cons_append] at this ⊢
    rw [renderFields_cons2, this, renderFields_cons2]
    simp

/-- Step 3c. One rendered row through the row loop. -/
theorem rowLoop_row (delim : Byte) (hd1 : delim ≠ 34) (hd2 : delim ≠ 10) (fuel : Nat) :
    ∀ (r : List (Bool × List Byte)) (n : Nat) (fs : FS) (acc : List (List Byte)) (rest : List Byte),
    r ≠ [] → (∀ p ∈ r, FieldOk' delim p) → Ready fs (renderRow delim r ++ rest) →
    (renderRow delim r ++ rest).length ≤ fuel → r.length < n →
    ∃ fs', rowLoop delim fuel n fs acc = some (fs', acc ++ r.map (·.2)) ∧ Done fs' rest := by
  intro r
  induction r with
  | nil => intro n fs acc rest h; exact absurd rfl h
  | cons p xs ih =>
    intro n fs acc rest _ hok hr hfu hn
    have hp := hok p (by simp)
    cases xs with
    | nil =>
      rw [renderRow_single] at hr hfu
      obtain ⟨fs1, a1, a2, a3⟩ := fnext_field_last delim hd1 hd2 fuel fs p rest hp hr hfu
      obtain ⟨m, rfl⟩ : ∃ m, n = m + 2 := ⟨n - 2, by simp at hn; omega⟩
      refine ⟨fs1, ?_, a3⟩
      have hstop : fnext delim fuel fs1 = some (fs1, false) := by
        unfold fnext; simp [a3.1]
      simp only [rowLoop, a1, hstop, a2]
      simp
    | cons q ys =>
      rw [renderRow_cons2] at hr hfu
      obtain ⟨fs1, a1, a2, a3, _⟩ := fnext_field_delim delim hd1 hd2 fuel fs p _ hp hr hfu
      obtain ⟨m, rfl⟩ : ∃ m, n = m + 1 := ⟨n - 1, by simp at hn; omega⟩
      obtain ⟨fs', b1, b2⟩ := ih m fs1 (acc ++ [p.2]) rest (by simp)
        (fun p' hp' => hok p' (List.mem_cons_of_mem _ hp')) a3
        (by simp at hfu ⊢; omega) (by simp at hn ⊢; omega)
      refine ⟨fs', ?_, b2⟩
      simp only [rowLoop, a1, a2, b1]
      simp

/-- Step 3c'. The last row, rendered without line break, through the row loop: the fields come back,
the reader has recorded `eof`. If the row is the single bare empty field (which renders to nothing),
a delimiter must have been consumed before. -/
theorem rowLoop_fields (delim : Byte) (hd1 : delim ≠ 34) (hd2 : delim ≠ 10) (fuel : Nat) :
    ∀ (r : List (Bool × List Byte)) (n : Nat) (fs : FS) (acc : List (List Byte)),
    r ≠ [] → (∀ p ∈ r, FieldOk' delim p) → Ready fs (renderFields delim r) →
    (r = [(false, [])] → 0 < fs.st.cursor) →
    (renderFields delim r).length < fuel → r.length < n →
    ∃ fs', rowLoop delim fuel n fs acc = some (fs', acc ++ r.map (·.2)) ∧ fs'.hitEOL = true ∧ fs'.err = some .eof := by
  intro r
  induction r with
  | nil => intro n fs acc h; exact absurd rfl h
  | cons p xs ih =>
    intro n fs acc _ hok hr hpos hfu hn
    have hp := hok p (by simp)
    cases xs with
    | nil =>
      rw [renderFields_single] at hr hfu
      obtain ⟨fs1, a1, a2, a3, a4⟩ := fnext_field_end delim hd1 fuel fs p hp hr
        (fun h => hpos (by rw [h])) hfu
      obtain ⟨m, rfl⟩ : ∃ m, n = m + 2 := ⟨n - 2, by simp at hn; omega⟩
      refine ⟨fs1, ?_, a3, a4⟩
      have hstop : fnext delim fuel fs1 = some (fs1, false) := by
        unfold fnext; simp [a3]
      simp only [rowLoop, a1, hstop, a2]
      simp
    | cons q ys =>
      rw [renderFields_cons2] at hr hfu
      obtain ⟨fs1, a1, a2, a3, a4⟩ := fnext_field_delim delim hd1 hd2 fuel fs p _ hp hr (by omega)
      obtain ⟨m, rfl⟩ : ∃ m, n = m + 1 := ⟨n - 1, by simp at hn; omega⟩
      obtain ⟨fs', b1, b2⟩ := ih m fs1 (acc ++ [p.2]) (by simp)
        (fun p' hp' => hok p' (List.mem_cons_of_mem _ hp')) a3 (fun _ => a4)
        (by simp at hfu ⊢; omega) (by simp at hn ⊢; omega)
      refine ⟨fs', ?_, b2⟩
      simp only [rowLoop, a1, a2, b1]
      simp

/-- `Reader.Next`'s CR trimming does nothing when the last field does not end with CR -/
theorem trimCR_last (row : List (List Byte)) (h : ∀ f, row.getLast? = some f → f.getLast? ≠ some CR) :
    trimCR row = row := by
  unfold trimCR
  cases hl : row.getLast? with
  | none => rfl
  | some last =>
    have : (last.getLast? == some CR) = false := by
      cases hc : last.getLast? == some CR with
      | false => rfl
      | true => exact absurd (by simpa using hc) (h last hl)
    simp [this]

theorem trimCR_id (row : List (List Byte)) (h : ∀ f ∈ row, CR ∉ f) : trimCR row = row :=
  trimCR_last row (fun f hf hl => h f (List.mem_of_getLast? hf) (List.mem_of_getLast? hl))

theorem trimCR_map {r : List (Bool × List Byte)} (h : LastNoCR r) : trimCR (r.map (·.2)) = r.map (·.2) := by
  apply trimCR_last
  intro f hf
  rw [List.getLast?_map] at hf
  cases hl : r.getLast? with
  | none => rw [hl] at hf; simp at hf
  | some p =>
    rw [hl] at hf
    simp only [Option.map_some, Option.some.injEq] at hf
    rw [← hf]
    exact h p hl

/-- Step 3d. One rendered row through `readerNext`. -/
theorem readerNext_row (delim : Byte) (hd1 : delim ≠ 34) (hd2 : delim ≠ 10) (fuel : Nat)
    (r : List (Bool × List Byte)) (fs : FS) (rest : List Byte)
    (hne : r ≠ []) (hok : ∀ p ∈ r, FieldOk' delim p) (hcr : LastNoCR r)
    (he : fs.err = none) (hf : fs.st.future = []) (hdr : fs.st.data.drop fs.st.cursor = renderRow delim r ++ rest)
    (hfu : (renderRow delim r ++ rest).length < fuel) :
    ∃ fs', readerNext delim fuel fs = some (fs', r.map (·.2), true) ∧ AtRow fs' rest := by
  have hready : Ready { fs with st := fs.st.reset, field := [], fieldStart := 0, hitEOL := false }
      (renderRow delim r ++ rest) :=
    ⟨hf, rfl, rfl, by simpa [St.reset] using hdr, Nat.zero_le _, he⟩
  obtain ⟨fs', a1, a2⟩ := rowLoop_row delim hd1 hd2 fuel r fuel _ [] rest hne hok hready (by omega)
    (by have := length_le_renderRow delim r; simp at hfu; omega)
  have htrim := trimCR_map hcr
  have hnemp : (r.map (·.2)).isEmpty = false := by
    cases r with
    | nil => exact absurd rfl hne
    | cons _ _ => rfl
  refine ⟨fs', ?_, a2.2⟩
  have hsome : fs.err.isSome = false := by rw [he]; rfl
  unfold readerNext
  simp only [hsome, Bool.false_eq_true, ↓reduceIte]
  simp only [List.nil_append] at a1
  rw [a1]
  simp only [htrim, hnemp, Bool.false_eq_true, ↓reduceIte]

/-- Step 3d'. The last row, rendered without line break, through `readerNext`. -/
theorem readerNext_fields (delim : Byte) (hd1 : delim ≠ 34) (hd2 : delim ≠ 10) (fuel : Nat)
    (r : List (Bool × List Byte)) (fs : FS)
    (hne : r ≠ []) (hok : ∀ p ∈ r, FieldOk' delim p) (hcr : LastNoCR r) (hl : r ≠ [(false, [])])
    (he : fs.err = none) (hf : fs.st.future = []) (hdr : fs.st.data.drop fs.st.cursor = renderFields delim r)
    (hfu : (renderFields delim r).length + 1 < fuel) :
    ∃ fs', readerNext delim fuel fs = some (fs', r.map (·.2), true) ∧ fs'.err = some .eof := by
  have hready : Ready { fs with st := fs.st.reset, field := [], fieldStart := 0, hitEOL := false }
      (renderFields delim r) :=
    ⟨hf, rfl, rfl, by simpa [St.reset] using hdr, Nat.zero_le _, he⟩
  obtain ⟨fs', a1, a2, a3⟩ := rowLoop_fields delim hd1 hd2 fuel r fuel _ [] hne hok hready
    (fun h => absurd h hl) (by omega)
    (by have := length_le_renderFields delim r; omega)
  have htrim := trimCR_map hcr
  have hnemp : (r.map (·.2)).isEmpty = false := by
    cases r with
    | nil => exact absurd rfl hne
    | cons _ _ => rfl
  refine ⟨fs', ?_, a3⟩
  have hsome : fs.err.isSome = false := by rw [he]; rfl
  unfold readerNext
  simp only [hsome, Bool.false_eq_true, ↓reduceIte]
  simp only [List.nil_append] at a1
  rw [a1]
  simp only [htrim, hnemp, Bool.false_eq_true, ↓reduceIte]

/-! ## §4 the whole document on the loaded buffer -/

theorem renderDoc_cons (delim : Byte) (r : List (Bool × List Byte)) (rs : List (List (Bool × List Byte))) :
    renderDoc delim (r :: rs) = renderRow delim r ++ renderDoc delim rs := by
  simp [renderDoc]

theorem renderDoc_eq_nil (delim : Byte) (rows : List (List (Bool × List Byte))) (h : renderDoc delim rows = []) :
    rows = [] := by
  cases rows with
  | nil => rfl
  | cons r rs =>
    rw [renderDoc_cons] at h
    simp at h
    exact absurd h.1 (renderRow_ne_nil _ _)

/-- Admissible row for the repaired reader — what the proof needs of a row: it has a field, every
field that must be quoted is quoted (a quoted field may contain anything, CR and CR LF included), and
the last field does not end with CR (`Reader.Next` would trim it). -/
structure RowOk' (delim : Byte) (r : List (Bool × List Byte)) : Prop where
  /-- at least one field -/
  nonempty : r ≠ []
  /-- every field that `mustQuote` is quoted -/
  quoted : ∀ p ∈ r, FieldOk' delim p
  /-- the last field does not end with CR -/
  lastNoCR : LastNoCR r

/-- end of input: the reader reports `eof` and no further row -/
theorem readAll_end (delim : Byte) (fuel n : Nat) (fs : FS) (acc : List (List (List Byte)))
    (h : AtRow fs []) (hfu : 0 < fuel) (hn : 0 < n) :
    readAll delim fuel n fs acc = some (acc, some .eof) := by
  obtain ⟨n, rfl⟩ : ∃ m, n = m + 1 := ⟨n - 1, by omega⟩
  obtain ⟨k, rfl⟩ : ∃ m, fuel = m + 1 := ⟨fuel - 1, by omega⟩
  rcases h with ⟨he, hf, hdr, hin⟩ | ⟨_, he⟩
  · have hlen : fs.st.data.length - fs.st.cursor = 0 := by
      have := congrArg List.length hdr; simpa using this
    have hens : ens1 fs.st.reset = (fs.st.reset, some .eof) := by
      rw [ens1_loaded _ (by simpa [St.reset] using hf)]
      simp [St.reset]; omega
    have hfn : fnext delim (k + 1) { fs with st := fs.st.reset, field := [], fieldStart := 0, hitEOL := false }
        = some ({ fs with st := fs.st.reset, field := [], fieldStart := 0, hitEOL := false, err := some .eof }, false) := by
      unfold fnext
      simp only [Bool.false_eq_true, ↓reduceIte, hens, Nat.lt_irrefl, gt_iff_lt]
    have hrd : readerNext delim (k + 1) fs
        = some ({ fs with st := fs.st.reset, field := [], fieldStart := 0, hitEOL := false, err := some .eof }, [], false) := by
      have hsome : fs.err.isSome = false := by rw [he]; rfl
      unfold readerNext
      simp only [hsome, Bool.false_eq_true, ↓reduceIte]
      simp [rowLoop, hfn, trimCR]
    simp [readAll, hrd]
  · have hrd : readerNext delim (k + 1) fs = some (fs, [], false) := by
      unfold readerNext; simp [he]
    simp [readAll, hrd, he]

theorem readAll_step (delim : Byte) (fuel n : Nat) (fs fs' : FS) (row : List (List Byte)) (acc : List (List (List Byte)))
    (h : readerNext delim fuel fs = some (fs', row, true)) :
    readAll delim fuel (n + 1) fs acc = readAll delim fuel n fs' (acc ++ [row]) := by
  simp only [readAll, h]

/-- Step 4 (loaded buffer), compositional form. From a state between two rows whose unread bytes are a
rendered table followed by `tail`, `readAll` reads the table's rows and goes on from a state between
two rows whose unread bytes are `tail`. -/
theorem readAll_prefix (delim : Byte) (hd1 : delim ≠ 34) (hd2 : delim ≠ 10) (fuel : Nat) (tail : List Byte) :
    ∀ (rows : List (List (Bool × List Byte))) (fs : FS) (acc : List (List (List Byte))),
    (∀ r ∈ rows, RowOk' delim r) →
    fs.err = none → fs.st.future = [] → fs.st.data.drop fs.st.cursor = renderDoc delim rows ++ tail →
    fs.st.cursor ≤ fs.st.data.length →
    (renderDoc delim rows ++ tail).length < fuel →
    ∃ fs', AtRow fs' tail ∧ ∀ m, readAll delim fuel (rows.length + m) fs acc
      = readAll delim fuel m fs' (acc ++ rows.map (·.map (·.2))) := by
  intro rows
  induction rows with
  | nil =>
    intro fs acc _ he hf hdr hin _
    exact ⟨fs, Or.inl ⟨he, hf, by simpa [renderDoc] using hdr, hin⟩, fun m => by simp⟩
  | cons r rs ih =>
    intro fs acc hok he hf hdr hin hfu
    rw [renderDoc_cons, List.append_assoc] at hdr hfu
    obtain ⟨hne, hfo, hcr⟩ := hok r (by simp)
    obtain ⟨fs1, a1, a2⟩ := readerNext_row delim hd1 hd2 fuel r fs (renderDoc delim rs ++ tail) hne hfo hcr he hf hdr hfu
    have hok' : ∀ r' ∈ rs, RowOk' delim r' := fun r' hr' => hok r' (List.mem_cons_of_mem _ hr')
    have hstep : ∀ m, readAll delim fuel ((r :: rs).length + m) fs acc
        = readAll delim fuel (rs.length + m) fs1 (acc ++ [r.map (·.2)]) := by
      intro m
      have : (r :: rs).length + m = (rs.length + m) + 1 := by simp; omega
      rw [this]
      simp only [readAll, a1]
    rcases a2 with ⟨he1, hf1, hdr1, hin1⟩ | ⟨hnil, he1⟩
    · obtain ⟨fs', b1, b2⟩ := ih fs1 (acc ++ [r.map (·.2)]) hok' he1 hf1 hdr1 hin1 (by simp at hfu ⊢; omega)
      refine ⟨fs', b1, fun m => ?_⟩
      rw [hstep, b2]
      simp
    · -- the input is exhausted: no rows left, no tail
      have hrs : rs = [] := by
        apply renderDoc_eq_nil delim
        cases hx : renderDoc delim rs with
        | nil => rfl
        | cons _ _ => rw [hx] at hnil; simp at hnil
      have htl : tail = [] := by
        cases tail with
        | nil => rfl
        | cons _ _ => simp at hnil
      subst hrs; subst htl
      refine ⟨fs1, Or.inr ⟨rfl, he1⟩, fun m => ?_⟩
      rw [hstep]
      simp

/-- Step 4 (loaded buffer). From a state between two rows whose unread bytes are a rendered table,
`readAll` appends the table's rows and ends with `eof`. -/
theorem readAll_rows (delim : Byte) (hd1 : delim ≠ 34) (hd2 : delim ≠ 10) (fuel : Nat)
    (rows : List (List (Bool × List Byte))) (n : Nat) (fs : FS) (acc : List (List (List Byte)))
    (hok : ∀ r ∈ rows, RowOk' delim r) (h : AtRow fs (renderDoc delim rows))
    (hfu : (renderDoc delim rows).length < fuel) (hn : rows.length < n) :
    readAll delim fuel n fs acc = some (acc ++ rows.map (·.map (·.2)), some .eof) := by
  rcases h with ⟨he, hf, hdr, hin⟩ | ⟨hnil, he⟩
  · obtain ⟨fs', a1, a2⟩ := readAll_prefix delim hd1 hd2 fuel [] rows fs acc hok he hf (by simpa using hdr) hin
      (by simpa using hfu)
    have : n = rows.length + (n - rows.length) := by omega
    rw [this, a2]
    exact readAll_end delim fuel _ fs' _ a1 (by omega) (by omega)
  · have : rows = [] := renderDoc_eq_nil delim rows hnil
    subst this
    simpa using readAll_end delim fuel n fs acc (Or.inr ⟨rfl, he⟩) (by omega) (by omega)

theorem readAll_loaded (delim : Byte) (hd1 : delim ≠ 34) (hd2 : delim ≠ 10)
    (rows : List (List (Bool × List Byte))) (hok : ∀ r ∈ rows, RowOk' delim r)
    (fuel n : Nat) (hfu : (renderDoc delim rows).length < fuel) (hn : rows.length < n) :
    readAll delim fuel n (loadedFS (renderDoc delim rows)) [] = some (rows.map (·.map (·.2)), some .eof) := by
  have := readAll_rows delim hd1 hd2 fuel rows n (loadedFS (renderDoc delim rows)) [] hok
    (Or.inl ⟨rfl, rfl, rfl, Nat.zero_le _⟩) hfu hn
  simpa using this

/-- Step 4' (loaded buffer): a rendered table followed by a last row without line break. The last row
must not be the single bare empty field (it renders to nothing). -/
theorem readAll_loaded_nfn (delim : Byte) (hd1 : delim ≠ 34) (hd2 : delim ≠ 10)
    (rows : List (List (Bool × List Byte))) (last : List (Bool × List Byte))
    (hok : ∀ r ∈ rows ++ [last], RowOk' delim r) (hl : last ≠ [(false, [])])
    (fuel n : Nat) (hfu : (renderDoc delim rows ++ renderFields delim last).length + 1 < fuel)
    (hn : rows.length + 1 < n) :
    readAll delim fuel n (loadedFS (renderDoc delim rows ++ renderFields delim last)) []
      = some ((rows ++ [last]).map (·.map (·.2)), some .eof) := by
  have hrows : ∀ r ∈ rows, RowOk' delim r := fun r hr => hok r (by simp [hr])
  obtain ⟨hne, hfo, hcr⟩ := hok last (by simp)
  obtain ⟨fs1, a1, a2⟩ := readAll_prefix delim hd1 hd2 fuel (renderFields delim last) rows
    (loadedFS (renderDoc delim rows ++ renderFields delim last)) [] hrows rfl rfl rfl (Nat.zero_le _) (by omega)
  obtain ⟨m, rfl⟩ : ∃ m, n = rows.length + (m + 2) := ⟨n - rows.length - 2, by omega⟩
  rw [a2]
  rcases a1 with ⟨he, hf, hdr, hin⟩ | ⟨hnil, he⟩
  · obtain ⟨fs2, b1, b2⟩ := readerNext_fields delim hd1 hd2 fuel last fs1 hne hfo hcr hl he hf hdr
      (by simp at hfu ⊢; omega)
    rw [readAll_step delim fuel (m + 1) fs1 fs2 _ _ b1,
      readAll_end delim fuel (m + 1) fs2 _ (Or.inr ⟨rfl, b2⟩) (by omega) (by omega)]
    simp
  · -- `renderFields last = []` only for the single bare empty field
    exfalso
    cases last with
    | nil => exact hne rfl
    | cons p xs =>
      cases xs with
      | nil =>
        obtain ⟨q, f⟩ := p
        cases q with
        | true => simp [renderFields, renderField] at hnil
        | false =>
          simp only [renderFields, renderField, Bool.false_eq_true, ↓reduceIte] at hnil
          subst hnil
          exact hl rfl
      | cons q ys => rw [renderFields_cons2] at hnil; simp at hnil


/-! ## §5 totality under an arbitrary read schedule

With enough fuel every loop of the reader mirror returns, whatever the schedule; the measure is the
number of bytes not yet consumed, `data.length + future.length - cursor`.

Since the repair of `fields.next` one call of `next` may return a field without consuming a byte: the
empty field at the end of the input after a delimiter. The row loop therefore needs one more turn than
there are unread bytes (`k = 1` below) — unless the input does not end with the delimiter (`k = 0`),
which is the case of every document rendered with its final line break. To know that, the chain below
carries two facts along: the last byte of the input (`lastByte`, untouched by refills, `reset` and the
in-place compaction) and "the byte before the cursor is the delimiter" after a field that did not end
its row (`AfterDelim`). -/

def total (s : St) : Nat := s.data.length + s.future.length

/-- the last byte of the whole input, loaded or not yet delivered -/
def lastByte (s : St) : Option Byte := (s.data ++ s.future).getLast?

/-- the byte before the cursor is the delimiter -/
def AfterDelim (delim : Byte) (s : St) : Prop := 0 < s.cursor ∧ s.data[s.cursor - 1]? = some delim

/-- a delimiter has been consumed in this row (`fieldStart > 0`) and the row goes on: then the byte
before the cursor is that delimiter -/
def J2 (delim : Byte) (fs : FS) : Prop := fs.hitEOL = false → 0 < fs.fieldStart → AfterDelim delim fs.st

theorem total_len {a b c d : List Byte} (h : a ++ b = c ++ d) : a.length + b.length = c.length + d.length := by
  have := congrArg List.length h; simpa using this

theorem lastByte_congr {s t : St} (h : s.data ++ s.future = t.data ++ t.future) : lastByte s = lastByte t := by
  unfold lastByte; rw [h]

/-- overwriting a byte that is not the last one does not change the last byte -/
theorem getLast?_set_append (l m : List Byte) (i : Nat) (x : Byte) (h : i + 1 < l.length) :
    (l.set i x ++ m).getLast? = (l ++ m).getLast? := by
  have : (l.set i x).getLast? = l.getLast? := by
    rw [List.getLast?_eq_getElem?, List.getLast?_eq_getElem?, List.length_set,
      List.getElem?_set_ne (by omega)]
  rw [List.getLast?_append, List.getLast?_append, this]

/-- `reset` keeps the last byte, or leaves nothing -/
theorem lastByte_reset (s : St) (hcl : s.cursor ≤ s.data.length) :
    lastByte s.reset = lastByte s ∨ lastByte s.reset = none := by
  unfold lastByte St.reset
  have : s.data.drop s.cursor ++ s.future = (s.data ++ s.future).drop s.cursor := by
    rw [List.drop_append_of_le_length hcl]
  simp only
  rw [this, List.getLast?_drop]
  split
  · exact Or.inr rfl
  · exact Or.inl rfl

/-- at the end of the input, right after a delimiter: the input ends with the delimiter -/
theorem lastByte_of_afterDelim {delim : Byte} {s : St} (h : AfterDelim delim s) (hcl : s.cursor ≤ s.data.length)
    (hf : s.future = []) (he : s.data.length ≤ s.cursor) : lastByte s = some delim := by
  obtain ⟨h0, hg⟩ := h
  unfold lastByte
  rw [hf, List.append_nil, List.getLast?_eq_getElem?]
  have : s.data.length = s.cursor := by omega
  rw [this]; exact hg

def TQ (delim : Byte) (x : Option (Full.Res × St)) (T c : Nat) (L : Option Byte) : Prop :=
  ∃ r s', x = some (r, s') ∧ s'.data.length + s'.future.length = T ∧ c ≤ s'.cursor ∧ s'.cursor ≤ s'.data.length ∧
    lastByte s' = L ∧ (r.hitEOL = false → AfterDelim delim s')

theorem quoted_total (delim : Byte) (fuel : Nat) : ∀ (s : St) (start w qc : Nat), s.cursor ≤ s.data.length →
    w ≤ s.cursor → s.data.length + s.future.length - s.cursor < fuel →
    TQ delim (quoted delim fuel s start w qc) (s.data.length + s.future.length) s.cursor (lastByte s) := by
  induction fuel with
  | zero => intro s start w qc _ _ h; omega
  | succ n ih =>
    intro s start w qc hcl hw hfu
    unfold quoted
    obtain ⟨a1, a2, a3, a4, a5⟩ := ensure2_spec (s.future.length + 1) s (by omega)
    generalize ensure2 (s.future.length + 1) s = rs at a1 a2 a3 a4 a5
    obtain ⟨s1, e1⟩ := rs
    simp only at a1 a2 a3 a4 a5
    have hT := total_len a1
    have hL : lastByte s1 = lastByte s := lastByte_congr a1
    rcases a5 with he | he
    · subst he
      have f0 := (a3 rfl).1
      have hl : s1.cursor ≤ s1.data.length := by rw [f0] at hT; simp at hT; omega
      simp only
      by_cases hcd : (qc % 2 != 0 && decide (s1.cursor < s1.data.length) && s1.data[s1.cursor]? == some delim) = true
      · simp only [hcd, ↓reduceIte]
        simp only [Bool.and_eq_true, decide_eq_true_eq, beq_iff_eq] at hcd
        exact ⟨_, _, rfl, hT, by show s.cursor ≤ s1.cursor + 1; omega, by show s1.cursor + 1 ≤ s1.data.length; omega,
          hL, fun _ => ⟨Nat.succ_pos _, hcd.2⟩⟩
      · simp only [hcd, Bool.false_eq_true, ↓reduceIte]
        exact ⟨_, s1, rfl, hT, by omega, hl, hL, fun h => by simp at h⟩
    · subst he
      have g1 := a4 rfl
      have hc0 : s1.cursor < s1.data.length := by omega
      simp only
      rw [List.getElem?_eq_getElem hc0]
      simp only
      have hget : s1.data[s1.cursor]? = some s1.data[s1.cursor] := List.getElem?_eq_getElem hc0
      generalize s1.data[s1.cursor] = ch at hget
      have hkeep : TQ delim
          (if (w + 1 != s1.cursor + 1) = true then
            match s1.data[s1.cursor + 1]? with
            | none => none
            | some nb => quoted delim n { s1 with cursor := s1.cursor + 1, data := s1.data.set (w + 1) nb } start (w + 1) 0
          else quoted delim n { s1 with cursor := s1.cursor + 1 } start (w + 1) 0)
          (s.data.length + s.future.length) s.cursor (lastByte s) := by
        split
        · rename_i hne
          have hne' : w + 1 ≠ s1.cursor + 1 := by simpa using hne
          rw [List.getElem?_eq_getElem g1]
          simp only
          obtain ⟨r, s', b1, b2, b3, b4, b5, b6⟩ := ih { s1 with cursor := s1.cursor + 1, data := s1.data.set (w + 1) s1.data[s1.cursor + 1] }
            start (w + 1) 0 (by show s1.cursor + 1 ≤ (s1.data.set _ _).length; simp; omega)
            (by show w + 1 ≤ s1.cursor + 1; omega)
            (by show (s1.data.set _ _).length + s1.future.length - (s1.cursor + 1) < n; simp; omega)
          refine ⟨r, s', b1, ?_, ?_, b4, ?_, b6⟩
          · rw [b2]; show (s1.data.set _ _).length + s1.future.length = _; simp; omega
          · simp only at b3; omega
          · rw [b5, ← hL]
            exact getLast?_set_append s1.data s1.future (w + 1) _ (by omega)
        · obtain ⟨r, s', b1, b2, b3, b4, b5, b6⟩ := ih { s1 with cursor := s1.cursor + 1 } start (w + 1) 0
            (by show s1.cursor + 1 ≤ s1.data.length; omega)
            (by show w + 1 ≤ s1.cursor + 1; omega)
            (by show s1.data.length + s1.future.length - (s1.cursor + 1) < n; omega)
          exact ⟨r, s', b1, by rw [b2]; exact hT, by simp only at b3; omega, b4, by rw [b5]; exact hL, b6⟩
      have hrec : ∀ qc', TQ delim (quoted delim n { s1 with cursor := s1.cursor + 1 } start w qc')
          (s.data.length + s.future.length) s.cursor (lastByte s) := by
        intro qc'
        obtain ⟨r, s', b1, b2, b3, b4, b5, b6⟩ := ih { s1 with cursor := s1.cursor + 1 } start w qc'
          (by show s1.cursor + 1 ≤ s1.data.length; omega)
          (by show w ≤ s1.cursor + 1; omega)
          (by show s1.data.length + s1.future.length - (s1.cursor + 1) < n; omega)
        exact ⟨r, s', b1, by rw [b2]; exact hT, by simp only at b3; omega, b4, by rw [b5]; exact hL, b6⟩
      have hret : ∀ eol : Bool, (eol = false → ch = delim) →
          TQ delim (some (⟨({ s1 with cursor := s1.cursor + 1 } : St).slice start w, eol, none⟩,
          ({ s1 with cursor := s1.cursor + 1 } : St))) (s.data.length + s.future.length) s.cursor (lastByte s) :=
        fun eol hd => ⟨_, _, rfl, hT, by show s.cursor ≤ s1.cursor + 1; omega, by show s1.cursor + 1 ≤ s1.data.length; omega,
          hL, fun h => ⟨Nat.succ_pos _, by show s1.data[s1.cursor + 1 - 1]? = some delim; rw [← hd h]; exact hget⟩⟩
      by_cases c1 : (ch == delim) = true
      · simp only [c1, ↓reduceIte]
        by_cases c2 : (qc % 2 != 0) = true
        · simp only [c2, ↓reduceIte]; exact hret _ (fun _ => by simpa using c1)
        · simp only [c2, Bool.false_eq_true, ↓reduceIte]; exact hkeep
      · simp only [c1, Bool.false_eq_true, ↓reduceIte]
        by_cases c3 : (ch == LF) = true
        · simp only [c3, ↓reduceIte]
          by_cases c2 : (qc % 2 != 0) = true
          · simp only [c2, ↓reduceIte]; exact hret _ (fun h => by simp at h)
          · simp only [c2, Bool.false_eq_true, ↓reduceIte]; exact hkeep
        · simp only [c3, Bool.false_eq_true, ↓reduceIte]
          by_cases c4 : (ch == CR) = true
          · simp only [c4, ↓reduceIte]
            by_cases c2 : (qc % 2 != 0) = true
            · simp only [c2, ↓reduceIte]; exact hrec qc
            · simp only [c2, Bool.false_eq_true, ↓reduceIte]; exact hkeep
          · simp only [c4, Bool.false_eq_true, ↓reduceIte]
            by_cases c5 : (ch == QUOTE) = true
            · simp only [c5, ↓reduceIte]
              by_cases c6 : ((qc + 1) % 2 == 1) = true
              · simp only [c6, ↓reduceIte]; exact hrec (qc + 1)
              · simp only [c6, Bool.false_eq_true, ↓reduceIte]; exact hkeep
            · simp only [c5, Bool.false_eq_true, ↓reduceIte]; exact hkeep

theorem unq_total (delim : Byte) (fuel : Nat) : ∀ (fs : FS), fs.st.cursor ≤ fs.st.data.length →
    total fs.st - fs.st.cursor < fuel →
    ∃ fs', unq delim fuel fs = some (fs', true) ∧ total fs'.st = total fs.st ∧ fs.st.cursor ≤ fs'.st.cursor ∧
      fs'.st.cursor ≤ fs'.st.data.length ∧ (fs.st.cursor < fs.st.data.length → fs.st.cursor < fs'.st.cursor) ∧
      lastByte fs'.st = lastByte fs.st ∧ J2 delim fs' := by
  induction fuel with
  | zero => intro fs _ h; omega
  | succ n ih =>
    intro fs hcl hfu
    unfold total at hfu ⊢
    unfold unq
    obtain ⟨a1, a2, a3, a4, a5⟩ := ens1_spec fs.st hcl
    generalize ens1 fs.st = rs at a1 a2 a3 a4 a5
    obtain ⟨s1, e1⟩ := rs
    simp only at a1 a2 a3 a4 a5
    have hT := total_len a1
    have hL : lastByte s1 = lastByte fs.st := lastByte_congr a1
    rcases a5 with he | he
    · subst he
      obtain ⟨f0, f1⟩ := a3 rfl
      have hl : s1.data.length = fs.st.data.length + fs.st.future.length := by rw [f0] at hT; simpa using hT
      refine ⟨_, rfl, hT, by show fs.st.cursor ≤ s1.cursor; omega, by show s1.cursor ≤ s1.data.length; omega, ?_,
        hL, fun h => by simp at h⟩
      intro h; omega
    · subst he
      have g1 := a4 rfl
      simp only
      rw [List.getElem?_eq_getElem g1]
      simp only
      have hget : s1.data[s1.cursor]? = some s1.data[s1.cursor] := List.getElem?_eq_getElem g1
      generalize s1.data[s1.cursor] = ch at hget
      by_cases c1 : (ch == delim) = true
      · simp only [c1, ↓reduceIte]
        have hcd : ch = delim := by simpa using c1
        exact ⟨_, rfl, hT, by show fs.st.cursor ≤ s1.cursor + 1; omega, by show s1.cursor + 1 ≤ s1.data.length; omega,
          fun _ => by show fs.st.cursor < s1.cursor + 1; omega, hL,
          fun _ _ => ⟨Nat.succ_pos _, by show s1.data[s1.cursor + 1 - 1]? = some delim; rw [← hcd]; exact hget⟩⟩
      · simp only [c1, Bool.false_eq_true, ↓reduceIte]
        by_cases c2 : (ch == LF) = true
        · simp only [c2, ↓reduceIte]
          exact ⟨_, rfl, hT, by show fs.st.cursor ≤ s1.cursor + 1; omega, by show s1.cursor + 1 ≤ s1.data.length; omega,
            fun _ => by show fs.st.cursor < s1.cursor + 1; omega, hL, fun h => by simp at h⟩
        · simp only [c2, Bool.false_eq_true, ↓reduceIte]
          obtain ⟨fs', b1, b2, b3, b4, b5, b6, b7⟩ := ih { fs with st := { s1 with cursor := s1.cursor + 1 } }
            (by show s1.cursor + 1 ≤ s1.data.length; omega)
            (by show s1.data.length + s1.future.length - (s1.cursor + 1) < n; omega)
          unfold total at b2
          simp only at b2 b3
          exact ⟨fs', b1, by rw [b2]; exact hT, by omega, b4, fun _ => by omega, by rw [b6]; exact hL, b7⟩

/-- one call of `fields.next`: it returns; when it reports a field, it has consumed at least one byte —
or it is the empty field at the end of the input after a delimiter (repaired code) -/
theorem fnext_total (delim : Byte) (fuel : Nat) (fs : FS) (hcl : fs.st.cursor ≤ fs.st.data.length)
    (hfu : total fs.st - fs.st.cursor < fuel) :
    ∃ fs' ok, fnext delim fuel fs = some (fs', ok) ∧ total fs'.st = total fs.st ∧ fs.st.cursor ≤ fs'.st.cursor ∧
      fs'.st.cursor ≤ fs'.st.data.length ∧ lastByte fs'.st = lastByte fs.st ∧ J2 delim fs' ∧
      (ok = true → fs.st.cursor < fs'.st.cursor ∨
        (0 < fs.fieldStart ∧ fs.hitEOL = false ∧ fs'.hitEOL = true ∧ fs'.st.future = [] ∧
          fs'.st.data.length ≤ fs'.st.cursor ∧ fs'.st.data = fs.st.data ++ fs.st.future ∧ fs'.st.cursor = fs.st.cursor)) := by
  unfold fnext
  by_cases hE : fs.hitEOL = true
  · simp only [hE, ↓reduceIte]
    exact ⟨fs, false, rfl, rfl, Nat.le_refl _, hcl, rfl, fun h => by rw [hE] at h; simp at h, by simp⟩
  · have hE' : fs.hitEOL = false := by simpa using hE
    simp only [hE', Bool.false_eq_true, ↓reduceIte]
    obtain ⟨a1, a2, a3, a4, a5⟩ := ens1_spec fs.st hcl
    have hun := unq_total delim fuel
    generalize ens1 fs.st = rs at a1 a2 a3 a4 a5
    obtain ⟨s1, e1⟩ := rs
    simp only at a1 a2 a3 a4 a5
    have hT := total_len a1
    have hL : lastByte s1 = lastByte fs.st := lastByte_congr a1
    unfold total at hfu ⊢
    rcases a5 with he | he
    · subst he
      obtain ⟨f0, f1⟩ := a3 rfl
      have hl : s1.data.length = fs.st.data.length + fs.st.future.length := by rw [f0] at hT; simpa using hT
      simp only
      by_cases hfs0 : fs.fieldStart > 0
      · rw [if_pos hfs0]
        exact ⟨_, true, rfl, hT, by show fs.st.cursor ≤ s1.cursor; omega, by show s1.cursor ≤ s1.data.length; omega,
          hL, fun h => by simp at h,
          fun _ => Or.inr ⟨hfs0, trivial, rfl, f0, f1, by rw [← a1, f0, List.append_nil], a2⟩⟩
      · rw [if_neg hfs0]
        exact ⟨_, false, rfl, hT, by show fs.st.cursor ≤ s1.cursor; omega, by show s1.cursor ≤ s1.data.length; omega,
          hL, fun _ h => absurd h hfs0, by simp⟩
    · subst he
      have g1 := a4 rfl
      simp only
      rw [List.getElem?_eq_getElem g1]
      simp only
      generalize s1.data[s1.cursor] = first
      by_cases cq : (first == QUOTE) = true
      · simp only [cq, ↓reduceIte]
        obtain ⟨r, s', b1, b2, b3, b4, b5, b6⟩ := quoted_total delim fuel { s1 with cursor := s1.cursor + 1 } (s1.cursor + 1) (s1.cursor + 1) 0
          (by show s1.cursor + 1 ≤ s1.data.length; omega) (Nat.le_refl _)
          (by show s1.data.length + s1.future.length - (s1.cursor + 1) < fuel; omega)
        rw [b1]
        simp only at b2 b3
        exact ⟨_, true, rfl, by show s'.data.length + s'.future.length = _; rw [b2]; exact hT,
          by show fs.st.cursor ≤ s'.cursor; omega, b4, by show lastByte s' = _; rw [b5]; exact hL,
          fun h _ => b6 h, fun _ => Or.inl (by show fs.st.cursor < s'.cursor; omega)⟩
      · simp only [cq, Bool.false_eq_true, ↓reduceIte]
        obtain ⟨fs', b1, b2, b3, b4, b5, b6, b7⟩ := hun { fs with st := s1, hitEOL := false } (by show s1.cursor ≤ s1.data.length; omega)
          (by show total s1 - s1.cursor < fuel; unfold total; omega)
        unfold total at b2
        simp only at b2 b3 b5 b6
        exact ⟨fs', true, b1, by rw [b2]; exact hT, by omega, b4, by rw [b6]; exact hL, b7,
          fun _ => Or.inl (by have := b5 g1; omega)⟩

theorem rowLoop_eol (delim : Byte) (fuel n : Nat) (fs : FS) (acc : List (List Byte)) (h : fs.hitEOL = true) :
    rowLoop delim fuel (n + 1) fs acc = some (fs, acc) := by
  simp [rowLoop, fnext, h]

/-- `k = 1`: any input; `k = 0`: the input does not end with the delimiter -/
def Slack (delim : Byte) (s : St) (k : Nat) : Prop := k = 1 ∨ lastByte s ≠ some delim

/-- the row loop returns when `n` exceeds the number of unread bytes by `k + 1`: every field consumes at
least one byte, except (repaired code) the empty field at the end of the input after a delimiter. -/
theorem rowLoop_total (delim : Byte) (fuel k : Nat) : ∀ (n : Nat) (fs : FS) (acc : List (List Byte)),
    fs.st.cursor ≤ fs.st.data.length → Slack delim fs.st k → J2 delim fs →
    total fs.st - fs.st.cursor < fuel → total fs.st - fs.st.cursor + k < n →
    ∃ fs' row, rowLoop delim fuel n fs acc = some (fs', row) ∧ total fs'.st = total fs.st ∧
      fs.st.cursor ≤ fs'.st.cursor ∧ fs'.st.cursor ≤ fs'.st.data.length ∧ lastByte fs'.st = lastByte fs.st ∧
      (fs.fieldStart = 0 → row = acc ∨ fs.st.cursor < fs'.st.cursor) := by
  intro n
  induction n with
  | zero => intro fs acc _ _ _ _ h; omega
  | succ n ih =>
    intro fs acc hcl hk hj hfu hn
    obtain ⟨fs1, ok, a1, a2, a3, a4, aL, aJ, a5⟩ := fnext_total delim fuel fs hcl hfu
    unfold rowLoop
    rw [a1]
    cases ok with
    | false => exact ⟨fs1, acc, rfl, a2, a3, a4, aL, fun _ => Or.inl rfl⟩
    | true =>
      have hle : fs1.st.cursor ≤ total fs1.st := by unfold total; omega
      have hk1 : Slack delim fs1.st k := by
        rcases hk with h | h
        · exact Or.inl h
        · exact Or.inr (by rw [aL]; exact h)
      rcases a5 rfl with hlt | ⟨hpos, heol0, heol, hfut, hend, hdat, hcur⟩
      · obtain ⟨fs', row, b1, b2, b3, b4, b5, b6⟩ := ih fs1 (acc ++ [fs1.field]) a4 hk1 aJ (by omega) (by omega)
        exact ⟨fs', row, b1, by rw [b2, a2], by omega, b4, by rw [b5, aL], fun _ => Or.inr (by omega)⟩
      · rcases hk with h | h
        · obtain ⟨m, rfl⟩ : ∃ m, n = m + 1 := ⟨n - 1, by omega⟩
          exact ⟨fs1, acc ++ [fs1.field], rowLoop_eol delim fuel m fs1 _ heol, a2, a3, a4, aL, fun h0 => by omega⟩
        · -- the input ends with the delimiter: excluded
          exfalso
          obtain ⟨h0, hg⟩ := hj heol0 hpos
          have hlt : fs.st.cursor - 1 < fs.st.data.length := by omega
          have hg1 : fs1.st.data[fs1.st.cursor - 1]? = some delim := by
            rw [hdat, hcur, List.getElem?_append_left hlt]; exact hg
          have := lastByte_of_afterDelim (delim := delim) (s := fs1.st) ⟨by omega, hg1⟩ a4 hfut hend
          rw [aL] at this
          exact h this

theorem trimCR_nil : trimCR [] = [] := rfl

theorem readerNext_total (delim : Byte) (fuel k : Nat) (fs : FS) (hcl : fs.st.cursor ≤ fs.st.data.length)
    (hk : Slack delim fs.st k) (hfu : total fs.st - fs.st.cursor + k < fuel) :
    ∃ fs' row ok, readerNext delim fuel fs = some (fs', row, ok) ∧ fs'.st.cursor ≤ fs'.st.data.length ∧
      Slack delim fs'.st k ∧
      total fs'.st - fs'.st.cursor ≤ total fs.st - fs.st.cursor ∧
      (ok = true → total fs'.st - fs'.st.cursor < total fs.st - fs.st.cursor) := by
  unfold readerNext
  by_cases he : fs.err.isSome = true
  · simp only [he, ↓reduceIte]
    exact ⟨fs, [], false, rfl, hcl, hk, Nat.le_refl _, by simp⟩
  · simp only [he, Bool.false_eq_true, ↓reduceIte]
    have hreset : total fs.st.reset - fs.st.reset.cursor = total fs.st - fs.st.cursor := by
      simp [total, St.reset]; omega
    have hkr : Slack delim fs.st.reset k := by
      rcases hk with h | h
      · exact Or.inl h
      · rcases lastByte_reset fs.st hcl with h' | h'
        · exact Or.inr (by rw [h']; exact h)
        · exact Or.inr (by rw [h']; simp)
    obtain ⟨fs1, row, a1, a2, a3, a4, aL, a5⟩ := rowLoop_total delim fuel k fuel
      { fs with st := fs.st.reset, field := [], fieldStart := 0, hitEOL := false } []
      (Nat.zero_le _) hkr (fun _ h => absurd h (Nat.lt_irrefl 0))
      (by show total fs.st.reset - fs.st.reset.cursor < fuel; omega)
      (by show total fs.st.reset - fs.st.reset.cursor + k < fuel; omega)
    rw [a1]
    simp only at a2 a3 a5 aL hreset
    have hc0 : fs.st.reset.cursor = 0 := rfl
    have hk1 : Slack delim fs1.st k := by
      rcases hkr with h | h
      · exact Or.inl h
      · exact Or.inr (by rw [aL]; exact h)
    by_cases hemp : (trimCR row).isEmpty = true
    · simp only [hemp, ↓reduceIte]
      exact ⟨_, [], false, rfl, a4, hk1, by show total fs1.st - fs1.st.cursor ≤ _; omega, by simp⟩
    · simp only [hemp, Bool.false_eq_true, ↓reduceIte]
      refine ⟨fs1, trimCR row, true, rfl, a4, hk1, by omega, fun _ => ?_⟩
      rcases a5 trivial with h | h
      · subst h; exact absurd rfl hemp
      · have : fs1.st.cursor ≤ total fs1.st := by unfold total; omega
        omega

/-- the reader returns, whatever the schedule: with `fuel` above the number of unread bytes when the
input does not end with the delimiter (`k = 0`), one more in general (`k = 1`) -/
theorem readAll_total (delim : Byte) (fuel k : Nat) : ∀ (n : Nat) (fs : FS) (acc : List (List (List Byte))),
    fs.st.cursor ≤ fs.st.data.length → Slack delim fs.st k →
    total fs.st - fs.st.cursor + k < fuel → total fs.st - fs.st.cursor < n →
    ∃ res, readAll delim fuel n fs acc = some res := by
  intro n
  induction n with
  | zero => intro fs acc _ _ _ h; omega
  | succ n ih =>
    intro fs acc hcl hk hfu hn
    obtain ⟨fs1, row, ok, a1, a2, ak, a3, a4⟩ := readerNext_total delim fuel k fs hcl hk hfu
    unfold readAll
    rw [a1]
    cases ok with
    | false => exact ⟨_, rfl⟩
    | true =>
      have := a4 rfl
      exact ih fs1 _ a2 ak (by omega) (by omega)

/-- a document rendered with its final line break ends with LF (or is empty) -/
theorem renderDoc_last (delim : Byte) : ∀ rows : List (List (Bool × List Byte)),
    renderDoc delim rows = [] ∨ ∃ pre, renderDoc delim rows = pre ++ [10]
  | [] => Or.inl rfl
  | r :: rs => by
    rw [renderDoc_cons]
    rcases renderDoc_last delim rs with h | ⟨pre, h⟩
    · exact Or.inr ⟨renderFields delim r, by rw [h]; simp [renderRow]⟩
    · exact Or.inr ⟨renderRow delim r ++ pre, by rw [h]; simp⟩

theorem slack_renderDoc (delim : Byte) (hd2 : delim ≠ 10) (rows : List (List (Bool × List Byte))) (sched : List Nat) :
    Slack delim (initFS (renderDoc delim rows) sched).st 0 := by
  refine Or.inr ?_
  show ([] ++ renderDoc delim rows).getLast? ≠ some delim
  rcases renderDoc_last delim rows with h | ⟨pre, h⟩
  · rw [h]; simp
  · rw [h]; simp only [List.nil_append, List.getLast?_concat, ne_eq, Option.some.injEq]
    exact fun h => hd2 h.symm

/-! ## §6 main theorems -/

theorem RowOk'.core {delim : Byte} {r : List (Bool × List Byte)} (h : RowOk' delim r) :
    QF.Props.C13.RowOkCore delim r := ⟨h.nonempty, h.quoted⟩

/-- `RowOk` of C13 (which forbids CR in every field) is a special case of `RowOk'` -/
theorem _root_.QF.Props.C13.RowOk.toOk' {delim : Byte} {r : List (Bool × List Byte)} (h : RowOk delim r) : RowOk' delim r :=
  ⟨h.nonempty, h.quoted, lastNoCR_of_noCR h.noCR⟩

theorem rowOk_fields {delim : Byte} {r : List (Bool × List Byte)} (h : RowOk delim r) :
    r ≠ [] ∧ ∀ p ∈ r, FieldOk delim p :=
  ⟨h.nonempty, fun p hp => ⟨h.quoted p hp, h.noCR p hp⟩⟩

/-- the hypotheses of `read_render_core` as stated before the repair are a special case of `RowOk'` -/
theorem rowOk'_of_fields {delim : Byte} {r : List (Bool × List Byte)} (h : r ≠ [] ∧ ∀ p ∈ r, FieldOk delim p) :
    RowOk' delim r :=
  ⟨h.1, fun p hp => (h.2 p hp).1, lastNoCR_of_noCR (fun p hp => (h.2 p hp).2)⟩

/-- Step 4, any schedule, explicit fuel, minimal hypotheses (`RowOk'`: every row has a field, every field
that must be quoted is quoted — quoted fields may contain CR —, the last field of a row does not end
with CR): with `fuel` and `n` larger than the document, the reader mirror returns exactly the table and
then `eof` — whatever the sizes of the reads. -/
theorem read_render_core' (delim : Byte) (hd : delim ≠ 34 ∧ delim ≠ 10 ∧ delim ≠ 13)
    (rows : List (List (Bool × List Byte))) (h : ∀ r ∈ rows, RowOk' delim r)
    (sched : List Nat) (fuel n : Nat)
    (hfu : (renderDoc delim rows).length < fuel) (hn : (renderDoc delim rows).length < n) (hn' : rows.length < n) :
    readAll delim fuel n (initFS (renderDoc delim rows) sched) [] = some (rows.map (·.map (·.2)), some .eof) := by
  obtain ⟨res, hres⟩ := readAll_total delim fuel 0 n (initFS (renderDoc delim rows) sched) []
    (Nat.zero_le _) (slack_renderDoc delim hd.2.1 rows sched)
    (by simpa [total, initFS] using hfu) (by simpa [total, initFS] using hn)
  have h1 := read_schedule_independent delim fuel n _ sched res hres
  have h2 := readAll_loaded delim hd.1 hd.2.1 rows h fuel n hfu hn'
  rw [h1] at h2
  rw [hres, h2]

/-- `read_render_core'` under the hypotheses used before the repair (no field contains CR) -/
theorem read_render_core (delim : Byte) (hd : delim ≠ 34 ∧ delim ≠ 10 ∧ delim ≠ 13)
    (rows : List (List (Bool × List Byte))) (h : ∀ r ∈ rows, r ≠ [] ∧ ∀ p ∈ r, FieldOk delim p)
    (sched : List Nat) (fuel n : Nat)
    (hfu : (renderDoc delim rows).length < fuel) (hn : (renderDoc delim rows).length < n) (hn' : rows.length < n) :
    readAll delim fuel n (initFS (renderDoc delim rows) sched) [] = some (rows.map (·.map (·.2)), some .eof) :=
  read_render_core' delim hd rows (fun r hr => rowOk'_of_fields (h r hr)) sched fuel n hfu hn hn'

/-- **C12 on rendered documents (repaired reader).** For every table rendered with an admissible quoting
choice — quoted fields may contain line breaks, CR LF included; only the last field of a row must not
END with CR, because `Reader.Next` trims it — the reader mirror returns the table and then `eof`, for
every read schedule. -/
theorem read_render' (delim : Byte) (hd : delim ≠ 34 ∧ delim ≠ 10 ∧ delim ≠ 13)
    (rows : List (List (Bool × List Byte))) (h : ∀ r ∈ rows, RowOk' delim r) (sched : List Nat) :
    ∃ fuel n, readAll delim fuel n (initFS (renderDoc delim rows) sched) []
      = some (rows.map (·.map (·.2)), some .eof) :=
  ⟨(renderDoc delim rows).length + 1, (renderDoc delim rows).length + rows.length + 1,
    read_render_core' delim hd rows h sched _ _ (by omega) (by omega) (by omega)⟩

/-- **C12 on rendered documents** as stated before the repair (`RowOk` includes "no field contains CR"). -/
theorem read_render (delim : Byte) (hd : delim ≠ 34 ∧ delim ≠ 10 ∧ delim ≠ 13)
    (rows : List (List (Bool × List Byte))) (h : ∀ r ∈ rows, RowOk delim r) (sched : List Nat) :
    ∃ fuel n, readAll delim fuel n (initFS (renderDoc delim rows) sched) []
      = some (rows.map (·.map (·.2)), some .eof) :=
  read_render' delim hd rows (fun r hr => (h r hr).toOk') sched

/-- the same with the bounds spelled out: any `fuel`, `n` above the document's size will do -/
theorem read_render_fuel' (delim : Byte) (hd : delim ≠ 34 ∧ delim ≠ 10 ∧ delim ≠ 13)
    (rows : List (List (Bool × List Byte))) (h : ∀ r ∈ rows, RowOk' delim r) (sched : List Nat) (fuel n : Nat)
    (hfu : (renderDoc delim rows).length < fuel) (hn : (renderDoc delim rows).length + rows.length < n) :
    readAll delim fuel n (initFS (renderDoc delim rows) sched) [] = some (rows.map (·.map (·.2)), some .eof) :=
  read_render_core' delim hd rows h sched fuel n hfu (by omega) (by omega)

theorem read_render_fuel (delim : Byte) (hd : delim ≠ 34 ∧ delim ≠ 10 ∧ delim ≠ 13)
    (rows : List (List (Bool × List Byte))) (h : ∀ r ∈ rows, RowOk delim r) (sched : List Nat) (fuel n : Nat)
    (hfu : (renderDoc delim rows).length < fuel) (hn : (renderDoc delim rows).length + rows.length < n) :
    readAll delim fuel n (initFS (renderDoc delim rows) sched) [] = some (rows.map (·.map (·.2)), some .eof) :=
  read_render_fuel' delim hd rows (fun r hr => (h r hr).toOk') sched fuel n hfu hn

/-- **Reader mirror = specification** on rendered documents (repaired reader): the rows the reader mirror
returns are `rfcParse` of the document, for every read schedule — line breaks inside quotes included. -/
theorem read_eq_spec' (delim : Byte) (hd : delim ≠ 34 ∧ delim ≠ 10 ∧ delim ≠ 13)
    (rows : List (List (Bool × List Byte))) (h : ∀ r ∈ rows, RowOk' delim r) (sched : List Nat) :
    ∃ fuel n, readAll delim fuel n (initFS (renderDoc delim rows) sched) []
      = some (rfcParse delim (renderDoc delim rows), some .eof) := by
  rw [QF.Props.C13.parse_render_core delim hd rows (fun r hr => (h r hr).core)]
  exact read_render' delim hd rows h sched

theorem read_eq_spec (delim : Byte) (hd : delim ≠ 34 ∧ delim ≠ 10 ∧ delim ≠ 13)
    (rows : List (List (Bool × List Byte))) (h : ∀ r ∈ rows, RowOk delim r) (sched : List Nat) :
    ∃ fuel n, readAll delim fuel n (initFS (renderDoc delim rows) sched) []
      = some (rfcParse delim (renderDoc delim rows), some .eof) :=
  read_eq_spec' delim hd rows (fun r hr => (h r hr).toOk') sched

/-- and whenever the reader mirror returns at all (any fuel, any schedule), it returns the specification's rows -/
theorem read_eq_spec_of_some' (delim : Byte) (hd : delim ≠ 34 ∧ delim ≠ 10 ∧ delim ≠ 13)
    (rows : List (List (Bool × List Byte))) (h : ∀ r ∈ rows, RowOk' delim r) (sched : List Nat) (fuel n : Nat)
    (hfu : (renderDoc delim rows).length < fuel) (hn : rows.length < n)
    (res : List (List (List Byte)) × Option RErr)
    (hres : readAll delim fuel n (initFS (renderDoc delim rows) sched) [] = some res) :
    res = (rfcParse delim (renderDoc delim rows), some .eof) := by
  have h1 := read_schedule_independent delim fuel n _ sched res hres
  have h2 := readAll_loaded delim hd.1 hd.2.1 rows h fuel n hfu hn
  rw [h1] at h2
  rw [QF.Props.C13.parse_render_core delim hd rows (fun r hr => (h r hr).core)]
  exact Option.some.inj h2

theorem read_eq_spec_of_some (delim : Byte) (hd : delim ≠ 34 ∧ delim ≠ 10 ∧ delim ≠ 13)
    (rows : List (List (Bool × List Byte))) (h : ∀ r ∈ rows, RowOk delim r) (sched : List Nat) (fuel n : Nat)
    (hfu : (renderDoc delim rows).length < fuel) (hn : rows.length < n)
    (res : List (List (List Byte)) × Option RErr)
    (hres : readAll delim fuel n (initFS (renderDoc delim rows) sched) [] = some res) :
    res = (rfcParse delim (renderDoc delim rows), some .eof) :=
  read_eq_spec_of_some' delim hd rows (fun r hr => (h r hr).toOk') sched fuel n hfu hn res hres

/-! ### The last row without line break; the trailing delimiter (repaired `fields.next`) -/

/-- Explicit fuel: a rendered table followed by a last row WITHOUT line break. The last row may end with
a quoted field, a non-empty unquoted field, or (repaired code) an empty unquoted field after a delimiter;
it must not be the single bare empty field, which renders to nothing. -/
theorem read_render_nfn_core (delim : Byte) (hd : delim ≠ 34 ∧ delim ≠ 10 ∧ delim ≠ 13)
    (rows : List (List (Bool × List Byte))) (last : List (Bool × List Byte))
    (h : ∀ r ∈ rows ++ [last], RowOk' delim r) (hl : last ≠ [(false, [])])
    (sched : List Nat) (fuel n : Nat)
    (hfu : (renderDoc delim rows ++ renderFields delim last).length + 1 < fuel)
    (hn : (renderDoc delim rows ++ renderFields delim last).length < n) (hn' : rows.length + 1 < n) :
    readAll delim fuel n (initFS (renderDoc delim rows ++ renderFields delim last) sched) []
      = some ((rows ++ [last]).map (·.map (·.2)), some .eof) := by
  obtain ⟨res, hres⟩ := readAll_total delim fuel 1 n (initFS (renderDoc delim rows ++ renderFields delim last) sched) []
    (Nat.zero_le _) (Or.inl rfl) (by simpa [total, initFS] using hfu) (by simpa [total, initFS] using hn)
  have h1 := read_schedule_independent delim fuel n _ sched res hres
  have h2 := readAll_loaded_nfn delim hd.1 hd.2.1 rows last h hl fuel n hfu hn'
  rw [h1] at h2
  rw [hres, h2]

/-- **C12, last row without line break.** The reader mirror returns the table, last row included, for
every read schedule. -/
theorem read_render_no_final_newline (delim : Byte) (hd : delim ≠ 34 ∧ delim ≠ 10 ∧ delim ≠ 13)
    (rows : List (List (Bool × List Byte))) (last : List (Bool × List Byte))
    (h : ∀ r ∈ rows ++ [last], RowOk' delim r) (hl : last ≠ [(false, [])]) (sched : List Nat) :
    ∃ fuel n, readAll delim fuel n (initFS (renderDoc delim rows ++ renderFields delim last) sched) []
      = some ((rows ++ [last]).map (·.map (·.2)), some .eof) :=
  ⟨(renderDoc delim rows ++ renderFields delim last).length + 2,
    (renderDoc delim rows ++ renderFields delim last).length + rows.length + 2,
    read_render_nfn_core delim hd rows last h hl sched _ _ (by omega) (by omega) (by omega)⟩

/-- … and this is what the specification says. -/
theorem read_eq_spec_no_final_newline (delim : Byte) (hd : delim ≠ 34 ∧ delim ≠ 10 ∧ delim ≠ 13)
    (rows : List (List (Bool × List Byte))) (last : List (Bool × List Byte))
    (h : ∀ r ∈ rows ++ [last], RowOk' delim r) (hl : last ≠ [(false, [])]) (sched : List Nat) :
    ∃ fuel n, readAll delim fuel n (initFS (renderDoc delim rows ++ renderFields delim last) sched) []
      = some (rfcParse delim (renderDoc delim rows ++ renderFields delim last), some .eof) := by
  rw [QF.Props.C13.parse_render_no_final_newline_core delim hd rows last (fun r hr => (h r hr).core) hl]
  exact read_render_no_final_newline delim hd rows last h hl sched

/-- **C12, trailing delimiter (repaired `fields.next` / `nextQuotedField`).** A document whose last row
has no line break and ends with a delimiter — after an unquoted or after a quoted field — is read back
with the final empty field, for every read schedule. `init` are the fields before the final empty one. -/
theorem read_render_trailing_delim (delim : Byte) (hd : delim ≠ 34 ∧ delim ≠ 10 ∧ delim ≠ 13)
    (rows : List (List (Bool × List Byte))) (init : List (Bool × List Byte))
    (h : ∀ r ∈ rows, RowOk' delim r) (hne : init ≠ []) (hq : ∀ p ∈ init, FieldOk' delim p) (sched : List Nat) :
    ∃ fuel n, readAll delim fuel n (initFS (renderDoc delim rows ++ (renderFields delim init ++ [delim])) sched) []
      = some (rows.map (·.map (·.2)) ++ [init.map (·.2) ++ [[]]], some .eof) := by
  have hlast : RowOk' delim (init ++ [(false, [])]) := by
    refine ⟨by simp, ?_, ?_⟩
    · intro p hp
      rcases List.mem_append.mp hp with hp | hp
      · exact hq p hp
      · simp only [List.mem_singleton] at hp
        subst hp
        intro hm
        simp [mustQuote] at hm
    · intro p hp
      simp only [List.getLast?_append, List.getLast?_singleton, Option.some_or, Option.some.injEq] at hp
      subst hp
      simp
  have hl : init ++ [(false, [])] ≠ [(false, [])] := by
    cases init with
    | nil => exact absurd rfl hne
    | cons x xs => cases xs <;> simp
  have := read_render_no_final_newline delim hd rows (init ++ [(false, [])])
    (by
      intro r hr
      rcases List.mem_append.mp hr with hr | hr
      · exact h r hr
      · simp only [List.mem_singleton] at hr
        subst hr
        exact hlast) hl sched
  rw [renderFields_trailing delim init hne] at this
  simpa using this

/-- … and this is what the specification says: the reader returns `rfcParse` of the document. -/
theorem read_eq_spec_trailing_delim (delim : Byte) (hd : delim ≠ 34 ∧ delim ≠ 10 ∧ delim ≠ 13)
    (rows : List (List (Bool × List Byte))) (init : List (Bool × List Byte))
    (h : ∀ r ∈ rows, RowOk' delim r) (hne : init ≠ []) (hq : ∀ p ∈ init, FieldOk' delim p) (sched : List Nat) :
    ∃ fuel n, readAll delim fuel n (initFS (renderDoc delim rows ++ (renderFields delim init ++ [delim])) sched) []
      = some (rfcParse delim (renderDoc delim rows ++ (renderFields delim init ++ [delim])), some .eof) := by
  have hl : init ++ [(false, [])] ≠ [(false, [])] := by
    cases init with
    | nil => exact absurd rfl hne
    | cons x xs => cases xs <;> simp
  have hp := QF.Props.C13.parse_render_no_final_newline_core delim hd rows (init ++ [(false, [])])
    (by
      intro r hr
      rcases List.mem_append.mp hr with hr | hr
      · exact (h r hr).core
      · simp only [List.mem_singleton] at hr
        subst hr
        refine ⟨by simp, ?_⟩
        intro p hp
        rcases List.mem_append.mp hp with hp | hp
        · exact hq p hp
        · simp only [List.mem_singleton] at hp
          subst hp
          intro hm
          simp [mustQuote] at hm) hl
  rw [renderFields_trailing delim init hne] at hp
  rw [hp]
  simpa using read_render_trailing_delim delim hd rows init h hne hq sched

/-! ## The hypotheses are satisfiable; the model agrees on the instance -/

open QF.Props.C13 (demo demo_ok) in
/-- `ab,"c,""d⏎",⏎""⏎,"x",y!⏎` read one byte, then two, then three … at a time -/
example : ∃ fuel n, readAll 44 fuel n (initFS (renderDoc 44 demo) [1, 2, 3, 1, 1, 5]) []
    = some (demo.map (·.map (·.2)), some .eof) :=
  read_render 44 (by decide) demo demo_ok [1, 2, 3, 1, 1, 5]

open QF.Props.C13 (demo demo_ok) in
example : ∃ fuel n, readAll 44 fuel n (initFS (renderDoc 44 demo) (List.replicate 100 1)) []
    = some (rfcParse 44 (renderDoc 44 demo), some .eof) :=
  read_eq_spec 44 (by decide) demo demo_ok _

#eval (readAll 44 30 30 (initFS (renderDoc 44 QF.Props.C13.demo) [1, 2, 3, 1, 1, 5]) []).map
  (fun r => (decide (r.1 = QF.Props.C13.demo.map (·.map (·.2))), r.2))

/-- a table with CR LF and a bare CR inside quoted fields -/
def demoCR : List (List (Bool × List Byte)) :=
  [ [(true, [97, 13, 10, 98]), (false, [99])],
    [(true, [13, 120]), (true, [13, 10])] ]

theorem demoCR_ok : ∀ r ∈ demoCR, RowOk' 44 r := by
  intro r hr
  simp only [demoCR, List.mem_cons, List.not_mem_nil, or_false] at hr
  rcases hr with rfl | rfl
  · exact ⟨by decide, by decide, by decide⟩
  · exact ⟨by decide, by decide, by decide⟩

/-- No longer needed (repaired `nextQuotedField`): CR inside a quoted field comes back from the reader
mirror, as `rfcParse` says — `"a␍⏎b",c⏎"␍x","␍⏎"⏎` read in pieces. -/
example : ∃ fuel n, readAll 44 fuel n (initFS (renderDoc 44 demoCR) [3, 1, 2, 1]) []
    = some (rfcParse 44 (renderDoc 44 demoCR), some .eof) :=
  read_eq_spec' 44 (by decide) demoCR demoCR_ok _

#eval (readAll 44 30 30 (initFS (renderDoc 44 demoCR) [3, 1, 2, 1]) []).map
  (fun r => (decide (r.1 = demoCR.map (·.map (·.2))), r.2))

/-- Needed (`RowOk'.lastNoCR`): `Reader.Next` drops a CR at the end of the last field of a row even when
the field was quoted, while `rfcParse` keeps it. -/
example : (readAll 44 20 5 (initFS (renderDoc 44 [[(false, [99]), (true, [97, 13])]]) []) []).map (·.1)
    ≠ some (rfcParse 44 (renderDoc 44 [[(false, [99]), (true, [97, 13])]])) := by decide

/-- Repaired `fields.next` / `nextQuotedField`: `a,⏎"b",` — the last row has no line break and ends with
a delimiter after a quoted field; it has two fields. -/
example : ∃ fuel n, readAll 44 fuel n (initFS (renderDoc 44 [[(false, [97]), (false, [])]] ++
      (renderFields 44 [(true, [98])] ++ [44])) [1, 1, 2]) []
    = some ([[[97], []]] ++ [[[98]] ++ [[]]], some .eof) :=
  read_render_trailing_delim 44 (by decide) [[(false, [97]), (false, [])]] [(true, [98])]
    (by
      intro r hr
      simp only [List.mem_cons, List.not_mem_nil, or_false] at hr
      subst hr
      exact ⟨by decide, by decide, by decide⟩)
    (by decide) (by decide) _

#eval (readAll 44 30 30 (initFS (renderDoc 44 [[(false, [97]), (false, [])]] ++
      (renderFields 44 [(true, [98])] ++ [44])) [1, 1, 2]) [])

/-- Not needed (`read_render_core`): `RowOk.single` and `RowOk.noLeadQuote`. A bare empty line is read
as the row of one empty field, by the reader as by the specification. -/
example : ∃ fuel n, readAll 44 fuel n (initFS (renderDoc 44 [[(false, [])], [(true, [34, 10])]]) [2, 1]) []
    = some ([[[]], [[34, 10]]], some .eof) :=
  ⟨_, _, read_render_core 44 (by decide) _ (by
    intro r hr
    simp only [List.mem_cons, List.not_mem_nil, or_false] at hr
    rcases hr with rfl | rfl <;> exact ⟨by decide, by decide⟩) [2, 1] 20 20 (by decide) (by decide) (by decide)⟩

#print axioms unq_field
#print axioms quoted_eq_qscan
#print axioms qscan_content
#print axioms quoted_field
#print axioms quoted_field_delim_eof
#print axioms rowLoop_row
#print axioms rowLoop_fields
#print axioms readerNext_row
#print axioms readerNext_fields
#print axioms readAll_loaded
#print axioms readAll_loaded_nfn
#print axioms readAll_total
#print axioms read_render_core'
#print axioms read_render_core
#print axioms read_render'
#print axioms read_render
#print axioms read_render_fuel'
#print axioms read_render_fuel
#print axioms read_eq_spec'
#print axioms read_eq_spec
#print axioms read_eq_spec_of_some'
#print axioms read_eq_spec_of_some
#print axioms read_render_nfn_core
#print axioms read_render_no_final_newline
#print axioms read_eq_spec_no_final_newline
#print axioms read_render_trailing_delim
#print axioms read_eq_spec_trailing_delim

end QF.Props.C12Read
