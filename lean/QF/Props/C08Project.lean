import QF.Core.Frame
/-!
# C08 — projections: Slice / Select / Drop / Copy

Mirrors of `QFrame.Slice`, `QFrame.Select`, `QFrame.Drop`, `QFrame.Copy` (qframe.go) on the frame
mirror `Fr.Frame`, with

* preservation of well-formedness `Fr.WF` (error results included),
* the logical effect as an equation on `Fr.Frame.abs`,
* the error cases.

Conventions.  `err` is `Option Err`; "err = true" of the task text is `err = some _`.  Every Go
function starts with `if qf.Err != nil { return qf }`; the mirrors do the same (`*_of_err`), and the
`*_abs` theorems are stated for `f.err = none`.  `withErr` keeps columns, name map and index.

`WF` does not force column names to be pairwise different (`Select("a","a")` really builds such a
frame), and `Drop` goes through the *name map*; so the clean statement of `drop_abs` ("the remaining
columns, in the original order") carries the hypothesis `UniqueNames f`.  `drop_abs_general` is the
statement without it.  `UniqueNames` is preserved by all four operations (for `select` under
`names.Nodup`) and by `setColumn`.  No `names.Nodup` hypothesis is needed for `select_wf`/`select_abs`.
-/
namespace QF.Props.C08
open Fr

abbrev Entry := String × Ty × List (Option Val)

/-- the `abs` entry of a column read through the row index `ix` -/
def entry (ix : List Nat) (c : NCol) : Entry := (c.name, c.col.ty, ix.map fun p => c.col.data[p]?)

theorem abs_eq (f : Frame) : f.abs = f.cols.map (entry f.index) := rfl

/-- the `abs` entry of the column stored under name `n` in the name map -/
def lookup (f : Frame) (n : String) : Option Entry := (f.byName n).map (entry f.index)

/-- Go `withErr`: columns, map and index kept -/
def withErr (f : Frame) (e : Err) : Frame := { f with err := some e }

/-- Go `checkColumns` -/
def checkColumns (f : Frame) (names : List String) : Bool := names.all fun n => (f.byName n).isSome

/-- column names pairwise different -/
def UniqueNames (f : Frame) : Prop := (f.cols.map (·.name)).Nodup

/-! ## generic facts -/

theorem wf_congr {f g : Frame} {L : Nat} (wf : WF f L) (hc : g.cols = f.cols) (hm : g.byName = f.byName)
    (hi : g.index = f.index) : WF g L := by
  constructor
  · rw [hc]; exact wf.pos
  · rw [hc, hm]; exact wf.mapOk
  · rw [hc, hm]; exact wf.mapTotal
  · rw [hc]; exact wf.len
  · rw [hi]; exact wf.ixLt
  · rw [hi]; exact wf.ixNodup

theorem withErr_wf {f : Frame} {L : Nat} (wf : WF f L) (e : Err) : WF (withErr f e) L :=
  wf_congr wf rfl rfl rfl

theorem withErr_abs (f : Frame) (e : Err) : (withErr f e).abs = f.abs := rfl

theorem byName_mem {f : Frame} {L : Nat} (wf : WF f L) {n : String} {c : NCol} (h : f.byName n = some c) :
    c ∈ f.cols := List.mem_of_getElem? (wf.mapOk n c h).1

/-- with unique names, every column is the one the name map returns for its name -/
theorem byName_of_mem {f : Frame} {L : Nat} (wf : WF f L) (u : UniqueNames f) {c : NCol} (hc : c ∈ f.cols) :
    f.byName c.name = some c := by
  have ht := wf.mapTotal c hc
  cases hx : f.byName c.name with
  | none => rw [hx] at ht; cases ht
  | some x =>
    obtain ⟨hx1, hx2⟩ := wf.mapOk _ _ hx
    obtain ⟨i, hi⟩ := List.mem_iff_getElem?.mp hc
    have hil : i < f.cols.length := by
      rcases Nat.lt_or_ge i f.cols.length with h | h
      · exact h
      · rw [List.getElem?_eq_none h] at hi; cases hi
    have hxl : x.pos < f.cols.length := by
      rcases Nat.lt_or_ge x.pos f.cols.length with h | h
      · exact h
      · rw [List.getElem?_eq_none h] at hx1; cases hx1
    have e1 : f.cols[i] = c := by
      rw [List.getElem?_eq_getElem hil] at hi; exact Option.some.inj hi
    have e2 : f.cols[x.pos] = x := by
      rw [List.getElem?_eq_getElem hxl] at hx1; exact Option.some.inj hx1
    have hij : i = x.pos := by
      rcases Nat.lt_trichotomy i x.pos with h | h | h
      · exfalso
        have := (List.pairwise_iff_getElem.mp u) i x.pos (by simpa using hil) (by simpa using hxl) h
        simp [e1, e2, hx2] at this
      · exact h
      · exfalso
        have := (List.pairwise_iff_getElem.mp u) x.pos i (by simpa using hxl) (by simpa using hil) h
        simp [e1, e2, hx2] at this
    subst hij
    rw [e1] at e2; rw [e2]

theorem lookup_of_mem {f : Frame} {L : Nat} (wf : WF f L) (u : UniqueNames f) {c : NCol} (hc : c ∈ f.cols) :
    lookup f c.name = some (entry f.index c) := by
  simp [lookup, byName_of_mem wf u hc]

/-- the entry found under name `n` carries name `n` -/
theorem lookup_name {f : Frame} {L : Nat} (wf : WF f L) {n : String} {e : Entry} (h : lookup f n = some e) :
    e.1 = n := by
  unfold lookup at h
  cases hb : f.byName n with
  | none => rw [hb] at h; cases h
  | some c =>
    rw [hb] at h
    simp only [Option.map_some, Option.some.injEq] at h
    subst h
    exact (wf.mapOk n c hb).2

/-! ## Slice -/

/-- qframe.go `Slice` -/
def slice (f : Frame) (a b : Int) : Frame :=
  if f.err.isSome then f
  else if a < 0 then withErr f .badSlice
  else if a > b then withErr f .badSlice
  else if b > (f.index.length : Int) then withErr f .badSlice
  else { f with index := (f.index.drop a.toNat).take (b.toNat - a.toNat) }

/-- rows `a .. b-1` of every column; names and types unchanged -/
def absSlice (l : List Entry) (a b : Nat) : List Entry :=
  l.map fun e => (e.1, e.2.1, (e.2.2.drop a).take (b - a))

theorem slice_of_err (f : Frame) (a b : Int) (he : f.err.isSome = true) : slice f a b = f := by
  simp [slice, he]

theorem slice_wf (f : Frame) (L : Nat) (wf : WF f L) (a b : Int) : WF (slice f a b) L := by
  unfold slice
  split
  · exact wf
  split
  · exact withErr_wf wf _
  split
  · exact withErr_wf wf _
  split
  · exact withErr_wf wf _
  · have hsub : ((f.index.drop a.toNat).take (b.toNat - a.toNat)).Sublist f.index :=
      (List.take_sublist _ _).trans (List.drop_sublist _ _)
    constructor
    · exact wf.pos
    · exact wf.mapOk
    · exact wf.mapTotal
    · exact wf.len
    · intro p hp; exact wf.ixLt p (hsub.subset hp)
    · exact hsub.nodup wf.ixNodup

theorem slice_abs (f : Frame) (a b : Int) (he : f.err = none)
    (h0 : 0 ≤ a) (hab : a ≤ b) (hb : b ≤ (f.index.length : Int)) :
    (slice f a b).abs = absSlice f.abs a.toNat b.toNat ∧
    (slice f a b).index = (f.index.drop a.toNat).take (b.toNat - a.toNat) ∧
    (slice f a b).err = none := by
  have h1 : ¬ a < 0 := by omega
  have h2 : ¬ a > b := by omega
  have h3 : ¬ b > (f.index.length : Int) := by omega
  have hs : slice f a b = { f with index := (f.index.drop a.toNat).take (b.toNat - a.toNat) } := by
    simp only [slice, he, Option.isSome_none, Bool.false_eq_true, ↓reduceIte, h1, h2, h3]
  rw [hs]
  refine ⟨?_, rfl, he⟩
  simp only [Frame.abs, absSlice, List.map_map]
  apply List.map_congr_left
  intro c _
  simp [List.map_take, List.map_drop]

/-- outside `0 ≤ a ≤ b ≤ Len()`: error, nothing else changes -/
theorem slice_err (f : Frame) (a b : Int) (he : f.err = none)
    (h : ¬ (0 ≤ a ∧ a ≤ b ∧ b ≤ (f.index.length : Int))) :
    (slice f a b).err = some .badSlice ∧ (slice f a b).abs = f.abs ∧ (slice f a b).index = f.index := by
  simp only [slice, he, Option.isSome_none, Bool.false_eq_true, ↓reduceIte]
  split
  · simp [withErr, Frame.abs]
  split
  · simp [withErr, Frame.abs]
  split
  · simp [withErr, Frame.abs]
  · exfalso; apply h; omega

/-- the number of rows after a legal Slice is `b - a` -/
theorem slice_len (f : Frame) (a b : Int) (he : f.err = none)
    (h0 : 0 ≤ a) (hab : a ≤ b) (hb : b ≤ (f.index.length : Int)) :
    ((slice f a b).index.length : Int) = b - a := by
  rw [(slice_abs f a b he h0 hab hb).2.1]
  simp only [List.length_take, List.length_drop]
  omega

theorem slice_unique (f : Frame) (a b : Int) (u : UniqueNames f) : UniqueNames (slice f a b) := by
  unfold slice
  split
  · exact u
  split
  · exact u
  split
  · exact u
  split
  · exact u
  · exact u

/-! ## Select -/

def setPos (i : Nat) (c : NCol) : NCol := { c with pos := i }

/-- the new column slice of `Select`: `s := columnsByName[col]; s.pos = i; newColumns[i] = s`.
    (The `none` branch cannot be reached after `checkColumns`; it skips the name.) -/
def selectCols (f : Frame) : List String → Nat → List NCol
  | [], _ => []
  | n :: ns, i =>
    match f.byName n with
    | some c => setPos i c :: selectCols f ns (i + 1)
    | none => selectCols f ns i

/-- the new name map of `Select`: `newColumnsByName[col] = s`, in loop order (later wins) -/
def selectMap (f : Frame) : List String → Nat → (String → Option NCol) → (String → Option NCol)
  | [], _, m => m
  | n :: ns, i, m =>
    match f.byName n with
    | some c => selectMap f ns (i + 1) (fun k => if k = n then some (setPos i c) else m k)
    | none => selectMap f ns i m

/-- Go `QFrame{}` -/
def emptyFrame : Frame := { cols := [], byName := fun _ => none, index := [], err := none }

/-- qframe.go `Select` -/
def select (f : Frame) (names : List String) : Frame :=
  if f.err.isSome then f
  else if !checkColumns f names then withErr f .unknownCol
  else if names.isEmpty then emptyFrame
  else { cols := selectCols f names 0, byName := selectMap f names 0 (fun _ => none),
         index := f.index, err := none }

/-- closed form of the map built by the loop: the last occurrence of the key -/
def selectLast (f : Frame) : List String → Nat → String → Option NCol
  | [], _, _ => none
  | n :: ns, i, k =>
    match f.byName n with
    | some c => (selectLast f ns (i + 1) k).or (if k = n then some (setPos i c) else none)
    | none => selectLast f ns i k

theorem selectMap_eq (f : Frame) (ns : List String) (i : Nat) (m : String → Option NCol) (k : String) :
    selectMap f ns i m k = (selectLast f ns i k).or (m k) := by
  induction ns generalizing i m with
  | nil => simp [selectMap, selectLast]
  | cons n ns ih =>
    simp only [selectMap, selectLast]
    cases f.byName n with
    | none => exact ih i m
    | some c =>
      simp only
      rw [ih]
      cases selectLast f ns (i + 1) k with
      | some x => simp
      | none =>
        by_cases hk : k = n
        · simp [hk]
        · simp [hk]

theorem selectCols_pos (f : Frame) (ns : List String) (i j : Nat) (c : NCol)
    (h : (selectCols f ns i)[j]? = some c) : c.pos = i + j := by
  induction ns generalizing i j with
  | nil => simp [selectCols] at h
  | cons n ns ih =>
    simp only [selectCols] at h
    cases hb : f.byName n with
    | none => rw [hb] at h; exact ih i j h
    | some c0 =>
      rw [hb] at h
      cases j with
      | zero => simp at h; subst h; rfl
      | succ j =>
        simp only [List.getElem?_cons_succ] at h
        have := ih (i + 1) j h
        omega

theorem selectLast_ok (f : Frame) (L : Nat) (wf : WF f L) (ns : List String) (i : Nat) (k : String) (c : NCol)
    (h : selectLast f ns i k = some c) :
    i ≤ c.pos ∧ (selectCols f ns i)[c.pos - i]? = some c ∧ c.name = k := by
  induction ns generalizing i with
  | nil => simp [selectLast] at h
  | cons n ns ih =>
    simp only [selectLast] at h
    simp only [selectCols]
    cases hb : f.byName n with
    | none => rw [hb] at h; exact ih i h
    | some c0 =>
      rw [hb] at h
      cases ht : selectLast f ns (i + 1) k with
      | some x =>
        rw [ht] at h
        have h : x = c := by simpa using h
        subst h
        obtain ⟨h1, h2, h3⟩ := ih (i + 1) ht
        refine ⟨by omega, ?_, h3⟩
        have : x.pos - i = (x.pos - (i + 1)) + 1 := by omega
        rw [this, List.getElem?_cons_succ]; exact h2
      | none =>
        rw [ht] at h
        by_cases hk : k = n
        · simp only [hk, ↓reduceIte, Option.none_or, Option.some.injEq] at h
          subst h
          refine ⟨Nat.le_refl _, ?_, ?_⟩
          · simp [setPos]
          · simp only [setPos]; rw [hk]; exact (wf.mapOk n c0 hb).2
        · simp [hk] at h

theorem selectLast_total (f : Frame) (L : Nat) (wf : WF f L) (ns : List String) (i : Nat) (c : NCol)
    (h : c ∈ selectCols f ns i) : (selectLast f ns i c.name).isSome = true := by
  induction ns generalizing i with
  | nil => simp [selectCols] at h
  | cons n ns ih =>
    simp only [selectCols] at h
    simp only [selectLast]
    cases hb : f.byName n with
    | none => rw [hb] at h; exact ih i h
    | some c0 =>
      rw [hb] at h
      simp only
      rcases List.mem_cons.mp h with h | h
      · have hn : c.name = n := by rw [h]; exact (wf.mapOk n c0 hb).2
        cases selectLast f ns (i + 1) c.name with
        | some x => simp
        | none => simp [hn]
      · have := ih (i + 1) h
        cases ht : selectLast f ns (i + 1) c.name with
        | some x => simp
        | none => rw [ht] at this; cases this

theorem selectCols_mem (f : Frame) (ns : List String) (i : Nat) (c : NCol) (h : c ∈ selectCols f ns i) :
    ∃ n c0, n ∈ ns ∧ f.byName n = some c0 ∧ c.col = c0.col ∧ c.name = c0.name := by
  induction ns generalizing i with
  | nil => simp [selectCols] at h
  | cons n ns ih =>
    simp only [selectCols] at h
    cases hb : f.byName n with
    | none =>
      rw [hb] at h
      obtain ⟨n', c0, h1, h2⟩ := ih i h
      exact ⟨n', c0, List.mem_cons_of_mem _ h1, h2⟩
    | some c0 =>
      rw [hb] at h
      rcases List.mem_cons.mp h with h | h
      · exact ⟨n, c0, List.mem_cons_self, hb, by rw [h]; rfl, by rw [h]; rfl⟩
      · obtain ⟨n', c1, h1, h2⟩ := ih (i + 1) h
        exact ⟨n', c1, List.mem_cons_of_mem _ h1, h2⟩

theorem emptyFrame_wf (L : Nat) : WF emptyFrame L := by
  constructor <;> simp [emptyFrame]

theorem select_of_err (f : Frame) (names : List String) (he : f.err.isSome = true) : select f names = f := by
  simp [select, he]

theorem select_wf (f : Frame) (L : Nat) (wf : WF f L) (names : List String) : WF (select f names) L := by
  unfold select
  split
  · exact wf
  split
  · exact withErr_wf wf _
  split
  · exact emptyFrame_wf L
  · constructor
    · intro i c hc
      have := selectCols_pos f names 0 i c hc
      omega
    · intro n c hc
      simp only [selectMap_eq, Option.or_none] at hc
      obtain ⟨_, h2, h3⟩ := selectLast_ok f L wf names 0 n c hc
      exact ⟨by simpa using h2, h3⟩
    · intro c hc
      simp only [selectMap_eq, Option.or_none]
      exact selectLast_total f L wf names 0 c hc
    · intro c hc
      obtain ⟨n, c0, _, hb, h1, _⟩ := selectCols_mem f names 0 c hc
      rw [h1]; exact wf.len c0 (byName_mem wf hb)
    · exact wf.ixLt
    · exact wf.ixNodup

/-- the selected columns, in the order of `names` (a list-level form that needs no side condition) -/
theorem selectCols_entries (f : Frame) (ix : List Nat) (ns : List String) (i : Nat) :
    (selectCols f ns i).map (entry ix) = ns.filterMap fun n => (f.byName n).map (entry ix) := by
  induction ns generalizing i with
  | nil => rfl
  | cons n ns ih =>
    simp only [selectCols, List.filterMap_cons]
    cases f.byName n with
    | none => exact ih i
    | some c => simp only [Option.map_some, List.map_cons, ih]; rfl

theorem checkColumns_iff (f : Frame) (ns : List String) :
    checkColumns f ns = true ↔ ∀ n, n ∈ ns → (f.byName n).isSome = true := by
  simp [checkColumns]

theorem filterMap_total {α β : Type} (g : α → Option β) (l : List α) (h : ∀ a, a ∈ l → (g a).isSome = true) :
    (l.filterMap g).map some = l.map g := by
  induction l with
  | nil => rfl
  | cons a l ih =>
    have ha := h a List.mem_cons_self
    cases hg : g a with
    | none => rw [hg] at ha; cases ha
    | some b =>
      simp only [List.filterMap_cons, hg, List.map_cons]
      rw [ih fun x hx => h x (List.mem_cons_of_mem _ hx)]

/-- `Select`: all names exist ⇒ no error; the content is, for every given name in the given order, the
    entry of the column stored under that name (one entry per name: `.map some` form), the same as a
    plain equation on `abs` (`filterMap` form); the row index is the old one (Go returns `QFrame{}`,
    whose index is empty, for zero names). -/
theorem select_abs (f : Frame) (names : List String) (he : f.err = none) (hc : checkColumns f names = true) :
    (select f names).abs.map some = names.map (lookup f) ∧
    (select f names).abs = names.filterMap (lookup f) ∧
    (select f names).index = (if names.isEmpty then [] else f.index) ∧
    (select f names).err = none := by
  have key : (select f names).abs = names.filterMap (lookup f) ∧
      (select f names).index = (if names.isEmpty then [] else f.index) ∧ (select f names).err = none := by
    simp only [select, he, Option.isSome_none, Bool.false_eq_true, ↓reduceIte, hc, Bool.not_true]
    by_cases hn : names.isEmpty = true
    · simp only [hn, ↓reduceIte]
      have : names = [] := by simpa using hn
      subst this
      exact ⟨rfl, rfl, rfl⟩
    · simp only [hn, Bool.false_eq_true, ↓reduceIte]
      refine ⟨?_, trivial, trivial⟩
      simp only [Frame.abs]
      exact selectCols_entries f f.index names 0
  refine ⟨?_, key⟩
  rw [key.1]
  apply filterMap_total
  intro n hn
  have := (checkColumns_iff f names).mp hc n hn
  simp [lookup, this]

/-- every entry of the result carries the requested name -/
theorem select_names (f : Frame) (L : Nat) (wf : WF f L) (names : List String) (he : f.err = none)
    (hc : checkColumns f names = true) : (select f names).abs.map (·.1) = names := by
  have h := (select_abs f names he hc).1
  have h2 : ∀ (l : List Entry) (ns : List String), l.map some = ns.map (lookup f) → l.map (·.1) = ns := by
    intro l
    induction l with
    | nil => intro ns h; cases ns with
      | nil => rfl
      | cons => simp at h
    | cons e l ih =>
      intro ns h
      cases ns with
      | nil => simp at h
      | cons n ns =>
        simp only [List.map_cons, List.cons.injEq] at h ⊢
        exact ⟨lookup_name wf h.1.symm, ih ns h.2⟩
  exact h2 _ _ h

/-- an unknown name: error, nothing else changes -/
theorem select_err (f : Frame) (names : List String) (he : f.err = none) (hc : checkColumns f names = false) :
    (select f names).err = some .unknownCol ∧ (select f names).abs = f.abs ∧
    (select f names).index = f.index := by
  simp only [select, he, Option.isSome_none, Bool.false_eq_true, ↓reduceIte, hc, Bool.not_false]
  exact ⟨rfl, rfl, rfl⟩

theorem selectCols_names (f : Frame) (L : Nat) (wf : WF f L) (ns : List String) (i : Nat) :
    (selectCols f ns i).map (·.name) = ns.filter fun n => (f.byName n).isSome := by
  induction ns generalizing i with
  | nil => rfl
  | cons n ns ih =>
    simp only [selectCols, List.filter_cons]
    cases hb : f.byName n with
    | none => simp only [Option.isSome_none, Bool.false_eq_true, ↓reduceIte]; exact ih i
    | some c =>
      simp only [Option.isSome_some, ↓reduceIte, List.map_cons, ih, setPos]
      rw [(wf.mapOk n c hb).2]

theorem select_unique (f : Frame) (L : Nat) (wf : WF f L) (u : UniqueNames f) (names : List String)
    (hd : names.Nodup) : UniqueNames (select f names) := by
  unfold select
  split
  · exact u
  split
  · exact u
  split
  · simp [UniqueNames, emptyFrame]
  · simp only [UniqueNames]
    rw [selectCols_names f L wf]
    exact List.filter_sublist.nodup hd

/-! ## Drop -/

/-- qframe.go `Drop` -/
def drop (f : Frame) (names : List String) : Frame :=
  if f.err.isSome || names.isEmpty then f
  else if !checkColumns f names then withErr f .unknownCol
  else select f ((f.cols.filter fun c => !names.contains c.name).map (·.name))

/-- the entries whose name is not in `names`, original order -/
def absDrop (l : List Entry) (names : List String) : List Entry := l.filter fun e => !names.contains e.1

theorem drop_of_err (f : Frame) (names : List String) (he : f.err.isSome = true) : drop f names = f := by
  simp [drop, he]

theorem drop_nil (f : Frame) : drop f [] = f := by
  simp [drop]

theorem drop_wf (f : Frame) (L : Nat) (wf : WF f L) (names : List String) : WF (drop f names) L := by
  unfold drop
  split
  · exact wf
  split
  · exact withErr_wf wf _
  · exact select_wf f L wf _

theorem remaining_exist (f : Frame) (L : Nat) (wf : WF f L) (names : List String) :
    checkColumns f ((f.cols.filter fun c => !names.contains c.name).map (·.name)) = true := by
  rw [checkColumns_iff]
  intro n hn
  obtain ⟨c, hc, rfl⟩ := List.mem_map.mp hn
  exact wf.mapTotal c (List.mem_filter.mp hc).1

/-- `Drop` of at least one name, without any assumption on the names of `f`: the remaining names, in
    column order, each looked up in the name map.  (`Drop()` is the identity, see `drop_nil`.) -/
theorem drop_abs_general (f : Frame) (L : Nat) (wf : WF f L) (names : List String) (he : f.err = none)
    (hne : names ≠ []) (hc : checkColumns f names = true) :
    (drop f names).abs =
      ((f.cols.filter fun c => !names.contains c.name).map (·.name)).filterMap (lookup f) ∧
    (drop f names).index =
      (if (f.cols.filter fun c => !names.contains c.name).isEmpty then [] else f.index) ∧
    (drop f names).err = none := by
  have hn : names.isEmpty = false := by cases names with
    | nil => exact absurd rfl hne
    | cons => rfl
  have hd : drop f names = select f ((f.cols.filter fun c => !names.contains c.name).map (·.name)) := by
    simp [drop, he, hn, hc]
  rw [hd]
  obtain ⟨_, h2, h3, h4⟩ := select_abs f _ he (remaining_exist f L wf names)
  refine ⟨h2, ?_, h4⟩
  rw [h3]; simp

/-- `Drop`: all names exist ⇒ no error, and the content is the remaining columns in the original order.
    Needs `UniqueNames f`, because the remaining columns are fetched again through the name map. -/
theorem drop_abs (f : Frame) (L : Nat) (wf : WF f L) (u : UniqueNames f) (names : List String)
    (he : f.err = none) (hc : checkColumns f names = true) :
    (drop f names).abs = absDrop f.abs names ∧
    (drop f names).index =
      (if names.isEmpty then f.index else if (absDrop f.abs names).isEmpty then [] else f.index) ∧
    (drop f names).err = none := by
  have hfm : ∀ l : List NCol, (∀ c, c ∈ l → c ∈ f.cols) →
      (l.map (·.name)).filterMap (lookup f) = l.map (entry f.index) := by
    intro l
    induction l with
    | nil => intro _; rfl
    | cons c l ih =>
      intro h
      simp only [List.map_cons, List.filterMap_cons, lookup_of_mem wf u (h c List.mem_cons_self)]
      rw [ih fun x hx => h x (List.mem_cons_of_mem _ hx)]
  have habs : absDrop f.abs names = (f.cols.filter fun c => !names.contains c.name).map (entry f.index) := by
    simp only [absDrop, Frame.abs, List.filter_map]
    rfl
  by_cases hne : names = []
  · subst hne
    rw [drop_nil]
    have : absDrop f.abs [] = f.abs := by simp [absDrop]
    rw [this]
    exact ⟨rfl, by simp, he⟩
  · obtain ⟨h1, h2, h3⟩ := drop_abs_general f L wf names he hne hc
    refine ⟨?_, ?_, h3⟩
    · rw [h1, habs]; exact hfm _ fun c hc => (List.mem_filter.mp hc).1
    · have hn : names.isEmpty = false := by cases names with
        | nil => exact absurd rfl hne
        | cons => rfl
      rw [h2, habs, hn]; simp

/-! ## Copy -/

/-- qframe.go `Copy` -/
def copy (f : Frame) (dst src : String) : Frame :=
  if f.err.isSome then f
  else match f.byName src with
    | none => withErr f .unknownCol
    | some c => if dst = src then f else setColumn f dst c.col

theorem setColumn_badName (f : Frame) (name : String) (c : Col) (h : checkName name = false) :
    setColumn f name c = withErr f .badName := by
  simp [setColumn, h, withErr]

theorem copy_of_err (f : Frame) (dst src : String) (he : f.err.isSome = true) : copy f dst src = f := by
  simp [copy, he]

theorem copy_wf (f : Frame) (L : Nat) (wf : WF f L) (dst src : String) : WF (copy f dst src) L := by
  unfold copy
  split
  · exact wf
  split
  · exact withErr_wf wf _
  · rename_i c hs
    split
    · exact wf
    · cases hn : checkName dst with
      | true => exact setColumn_wf f L wf dst c.col (wf.len c (byName_mem wf hs)) hn
      | false => rw [setColumn_badName f dst c.col hn]; exact withErr_wf wf _

/-- `Copy(dst, src)` with `dst ≠ src`, `src` present, `dst` a legal name: as `setColumn_abs`, with the
    type and the cells of the source column (i.e. the entry `(dst, (entry f.index c).2)`). -/
theorem copy_abs (f : Frame) (L : Nat) (wf : WF f L) (dst src : String) (c : NCol) (he : f.err = none)
    (hs : f.byName src = some c) (hne : dst ≠ src) (hn : checkName dst = true) :
    (copy f dst src).abs =
      absSet f.abs ((f.byName dst).map (·.pos)) (dst, c.col.ty, f.index.map fun p => c.col.data[p]?) ∧
    (copy f dst src).index = f.index ∧ (copy f dst src).err = none := by
  have hcp : copy f dst src = setColumn f dst c.col := by
    simp [copy, he, hs, hne]
  rw [hcp]
  obtain ⟨h1, h2, h3⟩ := setColumn_abs f L wf dst c.col hn
  exact ⟨h1, h2, h3.trans he⟩

/-- the same, with the source given by its `abs` entry -/
theorem copy_abs_lookup (f : Frame) (L : Nat) (wf : WF f L) (dst src : String) (e : Entry) (he : f.err = none)
    (hs : lookup f src = some e) (hne : dst ≠ src) (hn : checkName dst = true) :
    (copy f dst src).abs = absSet f.abs ((f.byName dst).map (·.pos)) (dst, e.2) ∧
    (copy f dst src).index = f.index ∧ (copy f dst src).err = none := by
  unfold lookup at hs
  cases hb : f.byName src with
  | none => rw [hb] at hs; cases hs
  | some c =>
    rw [hb] at hs
    simp only [Option.map_some, Option.some.injEq] at hs
    subst hs
    exact copy_abs f L wf dst src c he hb hne hn

/-- afterwards the destination name holds the source's type and cells -/
theorem copy_lookup (f : Frame) (dst src : String) (c : NCol) (he : f.err = none)
    (hs : f.byName src = some c) (hne : dst ≠ src) (hn : checkName dst = true) :
    lookup (copy f dst src) dst = some (dst, (entry f.index c).2) := by
  have hcp : copy f dst src = setColumn f dst c.col := by
    simp [copy, he, hs, hne]
  rw [hcp]
  unfold setColumn lookup
  simp only [hn, Bool.not_true, Bool.false_eq_true, ↓reduceIte]
  cases f.byName dst with
  | none => simp [entry]
  | some ex => simp [entry]

/-- `Copy(x, x)` of an existing column is the identity -/
theorem copy_self (f : Frame) (src : String) (hs : (f.byName src).isSome = true) : copy f src src = f := by
  unfold copy
  split
  · rfl
  · cases hb : f.byName src with
    | none => rw [hb] at hs; cases hs
    | some c => simp

/-- unknown source: error, nothing else changes (also when `dst = src`) -/
theorem copy_unknown (f : Frame) (dst src : String) (he : f.err = none) (hs : f.byName src = none) :
    (copy f dst src).err = some .unknownCol ∧ (copy f dst src).abs = f.abs ∧
    (copy f dst src).index = f.index := by
  have : copy f dst src = withErr f .unknownCol := by simp [copy, he, hs]
  rw [this]; exact ⟨rfl, rfl, rfl⟩

/-- illegal destination name: error, nothing else changes -/
theorem copy_badName (f : Frame) (dst src : String) (c : NCol) (he : f.err = none)
    (hs : f.byName src = some c) (hne : dst ≠ src) (hn : checkName dst = false) :
    (copy f dst src).err = some .badName ∧ (copy f dst src).abs = f.abs ∧
    (copy f dst src).index = f.index := by
  have : copy f dst src = withErr f .badName := by
    simp [copy, he, hs, hne, setColumn_badName f dst c.col hn]
  rw [this]; exact ⟨rfl, rfl, rfl⟩

/-! ## `UniqueNames` is an invariant -/

theorem set_self {α : Type} (l : List α) (i : Nat) (a : α) (h : l[i]? = some a) : l.set i a = l := by
  induction l generalizing i with
  | nil => rfl
  | cons x l ih =>
    cases i with
    | zero => simp at h; simp [h]
    | succ i => simp at h; simp [ih i h]

theorem setColumn_unique (f : Frame) (L : Nat) (wf : WF f L) (u : UniqueNames f) (name : String) (c : Col) :
    UniqueNames (setColumn f name c) := by
  unfold setColumn
  split
  · exact u
  · cases hb : f.byName name with
    | none =>
      simp only [UniqueNames, List.map_append, List.map_cons, List.map_nil]
      rw [List.nodup_append]
      refine ⟨u, by simp, ?_⟩
      intro a ha b hb'
      simp only [List.mem_singleton] at hb'
      subst hb'
      obtain ⟨x, hx, rfl⟩ := List.mem_map.mp ha
      intro hxe
      have := wf.mapTotal x hx
      rw [hxe, hb] at this; cases this
    | some ex =>
      simp only [UniqueNames, List.map_set]
      obtain ⟨h1, h2⟩ := wf.mapOk name ex hb
      rw [set_self]
      · exact u
      · rw [List.getElem?_map, h1]; simp [h2]

theorem drop_unique (f : Frame) (L : Nat) (wf : WF f L) (u : UniqueNames f) (names : List String) :
    UniqueNames (drop f names) := by
  unfold drop
  split
  · exact u
  split
  · exact u
  · apply select_unique f L wf u
    exact (List.filter_sublist.map _).nodup u

theorem copy_unique (f : Frame) (L : Nat) (wf : WF f L) (u : UniqueNames f) (dst src : String) :
    UniqueNames (copy f dst src) := by
  unfold copy
  split
  · exact u
  split
  · exact u
  · split
    · exact u
    · exact setColumn_unique f L wf u dst _

/-! ## statements on the `abs` list alone (frames with unique names) -/

/-- first entry with the given name -/
def absLookup (l : List Entry) (n : String) : Option Entry := l.find? (·.1 == n)

def absSelect (l : List Entry) (names : List String) : List Entry := names.filterMap (absLookup l)

def absCopy (l : List Entry) (dst src : String) : List Entry :=
  match absLookup l src with
  | none => l
  | some e => absSet l (l.findIdx? (·.1 == dst)) (dst, e.2)

theorem find_of_mem (l : List NCol) (hd : (l.map (·.name)).Nodup) (c : NCol) (hc : c ∈ l) :
    l.find? (·.name == c.name) = some c := by
  induction l with
  | nil => cases hc
  | cons a l ih =>
    simp only [List.map_cons, List.nodup_cons] at hd
    rcases List.mem_cons.mp hc with h | h
    · subst h; simp
    · have hne : a.name ≠ c.name := by
        intro he
        apply hd.1
        rw [he]; exact List.mem_map.mpr ⟨c, h, rfl⟩
      simp only [List.find?_cons]
      have : (a.name == c.name) = false := by simpa using hne
      rw [this]
      exact ih hd.2 h

theorem lookup_eq_absLookup (f : Frame) (L : Nat) (wf : WF f L) (u : UniqueNames f) (n : String) :
    lookup f n = absLookup f.abs n := by
  unfold lookup absLookup
  rw [abs_eq, List.find?_map]
  cases hb : f.byName n with
  | some c =>
    obtain ⟨_, h2⟩ := wf.mapOk n c hb
    have := find_of_mem f.cols u c (byName_mem wf hb)
    rw [h2] at this
    have hfun : ((fun e : Entry => e.1 == n) ∘ entry f.index) = fun c : NCol => c.name == n := rfl
    rw [hfun, this]
  | none =>
    have : List.find? ((fun e : Entry => e.1 == n) ∘ entry f.index) f.cols = none := by
      rw [List.find?_eq_none]
      intro x hx hxe
      have hn : x.name = n := by simpa [entry] using hxe
      have := wf.mapTotal x hx
      rw [hn, hb] at this; cases this
    rw [this]

theorem select_abs_pure (f : Frame) (L : Nat) (wf : WF f L) (u : UniqueNames f) (names : List String)
    (he : f.err = none) (hc : checkColumns f names = true) :
    (select f names).abs = absSelect f.abs names := by
  rw [(select_abs f names he hc).2.1]
  unfold absSelect
  congr 1
  funext n
  exact lookup_eq_absLookup f L wf u n

theorem pos_eq_findIdx (f : Frame) (L : Nat) (wf : WF f L) (u : UniqueNames f) (n : String) :
    (f.byName n).map (·.pos) = f.abs.findIdx? (·.1 == n) := by
  rw [abs_eq, List.findIdx?_map]
  have hfun : ((fun e : Entry => e.1 == n) ∘ entry f.index) = fun c : NCol => c.name == n := rfl
  rw [hfun]
  cases hb : f.byName n with
  | some x =>
    obtain ⟨h1, h2⟩ := wf.mapOk n x hb
    have hxl : x.pos < f.cols.length := by
      rcases Nat.lt_or_ge x.pos f.cols.length with h | h
      · exact h
      · rw [List.getElem?_eq_none h] at h1; cases h1
    have e2 : f.cols[x.pos] = x := by
      rw [List.getElem?_eq_getElem hxl] at h1; exact Option.some.inj h1
    symm
    simp only [Option.map_some]
    rw [List.findIdx?_eq_some_iff_getElem]
    refine ⟨hxl, by simp [e2, h2], ?_⟩
    intro j hj hp
    have hjl : j < f.cols.length := by omega
    have hmem : f.cols[j] ∈ f.cols := List.getElem_mem hjl
    have hbn := byName_of_mem wf u hmem
    have hnm : f.cols[j].name = n := by simpa using hp
    rw [hnm, hb] at hbn
    have hx : x = f.cols[j] := Option.some.inj hbn
    have := wf.pos j x (by rw [List.getElem?_eq_getElem hjl, hx])
    omega
  | none =>
    symm
    simp only [Option.map_none]
    rw [List.findIdx?_eq_none_iff]
    intro x hx
    cases hxe : (x.name == n) with
    | false => rfl
    | true =>
      have hn : x.name = n := by simpa using hxe
      have := wf.mapTotal x hx
      rw [hn, hb] at this; cases this

/-- `Copy` on the `abs` list alone: the first entry named `src` is written under `dst` at the place of
    the first entry named `dst`, or appended -/
theorem copy_abs_pure (f : Frame) (L : Nat) (wf : WF f L) (u : UniqueNames f) (dst src : String)
    (he : f.err = none) (hs : (f.byName src).isSome = true) (hne : dst ≠ src) (hn : checkName dst = true) :
    (copy f dst src).abs = absCopy f.abs dst src := by
  cases hb : f.byName src with
  | none => rw [hb] at hs; cases hs
  | some c =>
    have hl : lookup f src = some (entry f.index c) := by simp [lookup, hb]
    rw [(copy_abs_lookup f L wf dst src _ he hl hne hn).1]
    unfold absCopy
    rw [← lookup_eq_absLookup f L wf u src, hl, pos_eq_findIdx f L wf u dst]

/-! ## a concrete instance: the hypotheses are satisfiable, the operations compute -/

def exA : NCol := ⟨"a", 0, ⟨.int, [.int 10, .int 11, .int 12]⟩⟩
def exB : NCol := ⟨"b", 1, ⟨.bool, [.bool true, .bool false, .bool true]⟩⟩
/-- two columns of physical length 3, rows in the order 2,0,1 -/
def exF : Frame :=
  { cols := [exA, exB]
    byName := fun n => if n = "a" then some exA else if n = "b" then some exB else none
    index := [2, 0, 1] }

theorem exF_wf : WF exF 3 := by
  constructor
  · intro i c h
    match i with
    | 0 => simp [exF] at h; subst h; rfl
    | 1 => simp [exF] at h; subst h; rfl
    | i + 2 => simp [exF] at h
  · intro n c h
    simp only [exF] at h
    split at h
    · cases h; rename_i hn; subst hn; exact ⟨rfl, rfl⟩
    · split at h
      · cases h; rename_i hn; subst hn; exact ⟨rfl, rfl⟩
      · cases h
  · intro c hc
    simp only [exF, List.mem_cons, List.not_mem_nil, or_false] at hc
    rcases hc with h | h <;> subst h <;> decide +kernel
  · intro c hc
    simp only [exF, List.mem_cons, List.not_mem_nil, or_false] at hc
    rcases hc with h | h <;> subst h <;> rfl
  · intro p hp
    simp only [exF, List.mem_cons, List.not_mem_nil, or_false] at hp
    omega
  · decide

theorem exF_unique : UniqueNames exF := by
  show (exF.cols.map (·.name)).Nodup
  decide +kernel

/-- hypotheses of `slice_wf`, `slice_abs` -/
example : WF exF 3 ∧ exF.err = none ∧ (0 : Int) ≤ 1 ∧ (1 : Int) ≤ 3 ∧ (3 : Int) ≤ (exF.index.length : Int) :=
  ⟨exF_wf, rfl, by decide, by decide, by decide⟩
example : (slice exF 1 3).abs =
    [("a", .int, [some (.int 10), some (.int 11)]), ("b", .bool, [some (.bool true), some (.bool false)])] := by
  decide +kernel
/-- hypothesis of `slice_err` -/
example : exF.err = none ∧ ¬ ((0 : Int) ≤ 2 ∧ (2 : Int) ≤ 4 ∧ (4 : Int) ≤ (exF.index.length : Int)) :=
  ⟨rfl, by decide⟩
example : (slice exF 2 4).err = some .badSlice := by decide +kernel

/-- hypotheses of `select_wf`, `select_abs`, `select_names`, `select_unique`, `select_abs_pure` -/
example : WF exF 3 ∧ UniqueNames exF ∧ exF.err = none ∧ checkColumns exF ["b", "a"] = true ∧ ["b", "a"].Nodup :=
  ⟨exF_wf, exF_unique, rfl, by decide +kernel, by decide +kernel⟩
example : (select exF ["b", "a"]).abs =
    [("b", .bool, [some (.bool true), some (.bool true), some (.bool false)]),
     ("a", .int, [some (.int 12), some (.int 10), some (.int 11)])] := by
  decide +kernel
example : (select exF ["b", "a"]).cols.map (·.pos) = [0, 1] := by decide +kernel
/-- duplicates are allowed in `select_wf` / `select_abs` -/
example : (select exF ["a", "a"]).abs.map (·.1) = ["a", "a"] := by decide +kernel
/-- hypothesis of `select_err` -/
example : exF.err = none ∧ checkColumns exF ["a", "zzz"] = false := ⟨rfl, by decide +kernel⟩

/-- hypotheses of `drop_wf`, `drop_abs`, `drop_abs_general`, `drop_unique` -/
example : WF exF 3 ∧ UniqueNames exF ∧ exF.err = none ∧ ["a"] ≠ [] ∧ checkColumns exF ["a"] = true :=
  ⟨exF_wf, exF_unique, rfl, by decide +kernel, by decide +kernel⟩
example : (drop exF ["a"]).abs = [("b", .bool, [some (.bool true), some (.bool true), some (.bool false)])] := by
  decide +kernel
example : (drop exF ["zzz"]).err = some .unknownCol := by decide +kernel

/-- hypotheses of `copy_wf`, `copy_abs`, `copy_abs_lookup`, `copy_lookup`, `copy_abs_pure`, `copy_unique` -/
example : WF exF 3 ∧ UniqueNames exF ∧ exF.err = none ∧ exF.byName "a" = some exA ∧ "c" ≠ "a" ∧
    checkName "c" = true :=
  ⟨exF_wf, exF_unique, rfl, by decide +kernel, by decide +kernel, by decide +kernel⟩
example : (copy exF "c" "a").abs =
    [("a", .int, [some (.int 12), some (.int 10), some (.int 11)]),
     ("b", .bool, [some (.bool true), some (.bool true), some (.bool false)]),
     ("c", .int, [some (.int 12), some (.int 10), some (.int 11)])] := by
  decide +kernel
/-- overwriting an existing destination keeps its place -/
example : (copy exF "a" "b").abs.map (fun e => (e.1, e.2.1)) = [("a", .bool), ("b", .bool)] := by
  decide +kernel
/-- hypotheses of `copy_self`, `copy_unknown`, `copy_badName` -/
example : (exF.byName "a").isSome = true := by decide +kernel
example : exF.err = none ∧ exF.byName "zzz" = none := ⟨rfl, by decide +kernel⟩
example : exF.err = none ∧ exF.byName "a" = some exA ∧ "$c" ≠ "a" ∧ checkName "$c" = false :=
  ⟨rfl, by decide +kernel, by decide +kernel, by decide +kernel⟩
example : (copy exF "$c" "a").err = some .badName := by decide +kernel

#print axioms slice_wf
#print axioms slice_abs
#print axioms slice_err
#print axioms slice_len
#print axioms select_wf
#print axioms select_abs
#print axioms select_names
#print axioms select_err
#print axioms select_abs_pure
#print axioms drop_wf
#print axioms drop_abs
#print axioms drop_abs_general
#print axioms copy_wf
#print axioms copy_abs
#print axioms copy_abs_lookup
#print axioms copy_lookup
#print axioms copy_self
#print axioms copy_unknown
#print axioms copy_badName
#print axioms copy_abs_pure
#print axioms slice_unique
#print axioms select_unique
#print axioms drop_unique
#print axioms copy_unique
#print axioms setColumn_unique
#print axioms exF_wf

end QF.Props.C08
