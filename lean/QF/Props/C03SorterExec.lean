import QF.Props.C03SorterCanon
import QF.Core.SorterSorted
/-!
# C03 — symbolic execution of `QF.SL` terms in the limit semantics

The equations of the statement forms (`x_*`, from `SL.execLim_eq`: no fuel anywhere), of expressions (`ev_*`), of calls
(`callLim_eq`) and of the operators on values, and the `simp` set `sl_simp` that runs straight-line code and expressions
with them (loops and calls stay folded). The continuations of the interpreter's `bind`s have names (`defK`, `iteK`,
`binK`, …: the same functions as in `SL.step` / `SL.E.eval`, every equation here is `rfl`) and an equation only for a
VALUE as argument, so that `simp` evaluates in the order of the interpreter and never looks at a branch that is not
taken.
-/
namespace QF.Props.C03SorterGen
open QF QF.SL
set_option linter.unusedSimpArgs false

/-! ## Continuations of expression evaluation -/
section evalK
variable (call : Call) (cols : Cols) (σ : Store)

def unK (op : UOp) : Val × Ix → R (Val × Ix) := fun r => (op.apply r.2 r.1).bind fun v => .ok (v, r.2)
def binK2 (op : BOp) (vx : Val) : Val × Ix → R (Val × Ix) := fun s => (op.apply s.2 vx s.1).bind fun v => .ok (v, s.2)
def binK (op : BOp) (y : E) : Val × Ix → R (Val × Ix) := fun r =>
  (y.eval call cols σ r.2).bind fun s => (op.apply s.2 r.1 s.1).bind fun v => .ok (v, s.2)
def boolK : Val × Ix → R (Val × Ix) := fun s => match s.1 with | .bool b => .ok (.bool b, s.2) | _ => .stuck
def andK (y : E) : Val × Ix → R (Val × Ix) := fun r =>
  match r.1 with
  | .bool false => .ok (.bool false, r.2)
  | .bool true => (y.eval call cols σ r.2).bind fun s => (match s.1 with | .bool b => .ok (.bool b, s.2) | _ => .stuck)
  | _ => .stuck
def orK (y : E) : Val × Ix → R (Val × Ix) := fun r =>
  match r.1 with
  | .bool true => .ok (.bool true, r.2)
  | .bool false => (y.eval call cols σ r.2).bind fun s => (match s.1 with | .bool b => .ok (.bool b, s.2) | _ => .stuck)
  | _ => .stuck
def call1K (f : Nat) : Val × Ix → R (Val × Ix) := fun r => call f [r.1] r.2
def call2K2 (f : Nat) (v1 : Val) : Val × Ix → R (Val × Ix) := fun s => call f [v1, s.1] s.2
def call2K (f : Nat) (y : E) : Val × Ix → R (Val × Ix) := fun r => (y.eval call cols σ r.2).bind fun s => call f [r.1, s.1] s.2
def call3K3 (f : Nat) (v1 v2 : Val) : Val × Ix → R (Val × Ix) := fun t => call f [v1, v2, t.1] t.2
def call3K2 (f : Nat) (z : E) (v1 : Val) : Val × Ix → R (Val × Ix) := fun s =>
  (z.eval call cols σ s.2).bind fun t => call f [v1, s.1, t.1] t.2
def call3K (f : Nat) (y z : E) : Val × Ix → R (Val × Ix) := fun r =>
  (y.eval call cols σ r.2).bind fun s => (z.eval call cols σ s.2).bind fun t => call f [r.1, s.1, t.1] t.2
def call4K4 (f : Nat) (v1 v2 v3 : Val) : Val × Ix → R (Val × Ix) := fun u => call f [v1, v2, v3, u.1] u.2
def call4K3 (f : Nat) (w : E) (v1 v2 : Val) : Val × Ix → R (Val × Ix) := fun t =>
  (w.eval call cols σ t.2).bind fun u => call f [v1, v2, t.1, u.1] u.2
def call4K2 (f : Nat) (z w : E) (v1 : Val) : Val × Ix → R (Val × Ix) := fun s =>
  (z.eval call cols σ s.2).bind fun t => (w.eval call cols σ t.2).bind fun u => call f [v1, s.1, t.1, u.1] u.2
def call4K (f : Nat) (y z w : E) : Val × Ix → R (Val × Ix) := fun r =>
  (y.eval call cols σ r.2).bind fun s => (z.eval call cols σ s.2).bind fun t =>
    (w.eval call cols σ t.2).bind fun u => call f [r.1, s.1, t.1, u.1] u.2

variable (a : Ix)
theorem ev_var (v : Var) : (E.var v).eval call cols σ a = (match σ[v]? with | some x => .ok (x, a) | none => .stuck) := rfl
theorem ev_int (n : Int) : (E.int n).eval call cols σ a = .ok (.int n, a) := rfl
theorem ev_bool (b : Bool) : (E.bool b).eval call cols σ a = .ok (.bool b, a) := rfl
theorem ev_un (op : UOp) (x : E) : (E.un op x).eval call cols σ a = (x.eval call cols σ a).bind (unK op) := rfl
theorem ev_bin (op : BOp) (x y : E) :
    (E.bin op x y).eval call cols σ a = (x.eval call cols σ a).bind (binK call cols σ op y) := rfl
theorem ev_and (x y : E) : (E.and x y).eval call cols σ a = (x.eval call cols σ a).bind (andK call cols σ y) := rfl
theorem ev_or (x y : E) : (E.or x y).eval call cols σ a = (x.eval call cols σ a).bind (orK call cols σ y) := rfl
theorem ev_call0 (f : Nat) : (E.call0 f).eval call cols σ a = call f [] a := rfl
theorem ev_call1 (f : Nat) (x : E) : (E.call1 f x).eval call cols σ a = (x.eval call cols σ a).bind (call1K call f) := rfl
theorem ev_call2 (f : Nat) (x y : E) :
    (E.call2 f x y).eval call cols σ a = (x.eval call cols σ a).bind (call2K call cols σ f y) := rfl
theorem ev_call3 (f : Nat) (x y z : E) :
    (E.call3 f x y z).eval call cols σ a = (x.eval call cols σ a).bind (call3K call cols σ f y z) := rfl
theorem ev_call4 (f : Nat) (x y z w : E) :
    (E.call4 f x y z w).eval call cols σ a = (x.eval call cols σ a).bind (call4K call cols σ f y z w) := rfl
theorem ev_compare (c x y : E) : (E.compare c x y).eval call cols σ a =
    (c.eval call cols σ a).bind fun rc => (x.eval call cols σ rc.2).bind fun rx => (y.eval call cols σ rx.2).bind fun ry =>
      match rc.1, rx.1, ry.1 with
      | .col k, .row i, .row j =>
        (match cols[k]? with
         | some f => (match f i j with | some r => .ok (.res r, ry.2) | none => .stuck)
         | none => .stuck)
      | _, _, _ => .stuck := rfl

theorem unK_eq (op : UOp) (x : Val) : unK op (x, a) = (op.apply a x).bind fun v => .ok (v, a) := rfl
theorem binK_eq (op : BOp) (y : E) (x : Val) : binK call cols σ op y (x, a) = (y.eval call cols σ a).bind (binK2 op x) := rfl
theorem binK2_eq (op : BOp) (x y : Val) : binK2 op x (y, a) = (op.apply a x y).bind fun v => .ok (v, a) := rfl
theorem boolK_eq (b : Bool) : boolK (.bool b, a) = .ok (.bool b, a) := rfl
theorem andK_false (y : E) : andK call cols σ y (.bool false, a) = .ok (.bool false, a) := rfl
theorem andK_true (y : E) : andK call cols σ y (.bool true, a) = (y.eval call cols σ a).bind boolK := rfl
theorem orK_true (y : E) : orK call cols σ y (.bool true, a) = .ok (.bool true, a) := rfl
theorem orK_false (y : E) : orK call cols σ y (.bool false, a) = (y.eval call cols σ a).bind boolK := rfl
theorem call1K_eq (f : Nat) (x : Val) : call1K call f (x, a) = call f [x] a := rfl
theorem call2K_eq (f : Nat) (y : E) (x : Val) :
    call2K call cols σ f y (x, a) = (y.eval call cols σ a).bind (call2K2 call f x) := rfl
theorem call2K2_eq (f : Nat) (x y : Val) : call2K2 call f x (y, a) = call f [x, y] a := rfl
theorem call3K_eq (f : Nat) (y z : E) (x : Val) :
    call3K call cols σ f y z (x, a) = (y.eval call cols σ a).bind (call3K2 call cols σ f z x) := rfl
theorem call3K2_eq (f : Nat) (z : E) (x y : Val) :
    call3K2 call cols σ f z x (y, a) = (z.eval call cols σ a).bind (call3K3 call f x y) := rfl
theorem call3K3_eq (f : Nat) (x y z : Val) : call3K3 call f x y (z, a) = call f [x, y, z] a := rfl
theorem call4K_eq (f : Nat) (y z w : E) (x : Val) :
    call4K call cols σ f y z w (x, a) = (y.eval call cols σ a).bind (call4K2 call cols σ f z w x) := rfl
theorem call4K2_eq (f : Nat) (z w : E) (x y : Val) :
    call4K2 call cols σ f z w x (y, a) = (z.eval call cols σ a).bind (call4K3 call cols σ f w x y) := rfl
theorem call4K3_eq (f : Nat) (w : E) (x y z : Val) :
    call4K3 call cols σ f w x y (z, a) = (w.eval call cols σ a).bind (call4K4 call f x y z) := rfl
theorem call4K4_eq (f : Nat) (x y z w : Val) : call4K4 call f x y z (w, a) = call f [x, y, z, w] a := rfl
end evalK

/-! ## Continuations of statements -/
section stmtK
variable (rec : S → St → R Ctl) (σ : Store)

def defK (v : Var) : Val × Ix → R Ctl := fun r => .ok (.next (σ.set v r.1, r.2))
def def2K (v w : Var) : Val × Ix → R Ctl := fun r =>
  match r.1 with
  | .pair x y => .ok (.next ((σ.set v (.int x)).set w (.int y), r.2))
  | _ => .stuck
def exprK : Val × Ix → R Ctl := fun r => .ok (.next (σ, r.2))
def iteK (t e : S) : Val × Ix → R Ctl := fun r =>
  match r.1 with
  | .bool true => rec t (σ, r.2)
  | .bool false => rec e (σ, r.2)
  | _ => .stuck
def loopK (l post body : S) : Val × Ix → R Ctl := fun r =>
  match r.1 with
  | .bool true => (rec body (σ, r.2)).bind (bodyK rec l post)
  | .bool false => .ok (.next (σ, r.2))
  | _ => .stuck
def retSK : Val × Ix → R Ctl := fun r => .ok (.ret r.1 r.2)
def ret2K2 (vx : Val) : Val × Ix → R Ctl := fun s =>
  match vx, s.1 with
  | .int p, .int q => .ok (.ret (.pair p q) s.2)
  | _, _ => .stuck
def ret2K (call : Call) (cols : Cols) (y : E) : Val × Ix → R Ctl := fun r =>
  (y.eval call cols σ r.2).bind fun s =>
    match r.1, s.1 with
    | .int p, .int q => .ok (.ret (.pair p q) s.2)
    | _, _ => .stuck

variable (a : Ix)
theorem defK_eq (v : Var) (x : Val) : defK σ v (x, a) = .ok (.next (σ.set v x, a)) := rfl
theorem def2K_eq (v w : Var) (x y : Int) : def2K σ v w (.pair x y, a) = .ok (.next ((σ.set v (.int x)).set w (.int y), a)) := rfl
theorem exprK_eq (x : Val) : exprK σ (x, a) = .ok (.next (σ, a)) := rfl
theorem iteK_true (t e : S) : iteK rec σ t e (.bool true, a) = rec t (σ, a) := rfl
theorem iteK_false (t e : S) : iteK rec σ t e (.bool false, a) = rec e (σ, a) := rfl
theorem loopK_true (l post body : S) :
    loopK rec σ l post body (.bool true, a) = (rec body (σ, a)).bind (bodyK rec l post) := rfl
theorem loopK_false (l post body : S) : loopK rec σ l post body (.bool false, a) = .ok (.next (σ, a)) := rfl
theorem retSK_eq (x : Val) : retSK (x, a) = .ok (.ret x a) := rfl
theorem ret2K_eq (call : Call) (cols : Cols) (y : E) (x : Val) :
    ret2K σ call cols y (x, a) = (y.eval call cols σ a).bind (ret2K2 x) := rfl
theorem ret2K2_eq (p q : Int) : ret2K2 (.int p) (.int q, a) = .ok (.ret (.pair p q) a) := rfl
end stmtK

/-! ## The equations of the statement forms in the limit semantics (no fuel) -/
section equations
variable (P : Prog) (cols : Cols) (σ : Store) (a : Ix)

theorem x_skip : execLim P cols .skip (σ, a) = .ok (.next (σ, a)) := by rw [execLim_eq]; rfl
theorem x_block_nil : execLim P cols (S.block []) (σ, a) = .ok (.next (σ, a)) := by rw [S.block, execLim_eq]; rfl
theorem x_seq (s b : S) :
    execLim P cols (.seq s b) (σ, a) = (execLim P cols s (σ, a)).bind (seqK (execLim P cols) b) := by rw [execLim_eq]; rfl
theorem x_block_cons (s : S) (ss : List S) :
    execLim P cols (S.block (s :: ss)) (σ, a) = (execLim P cols s (σ, a)).bind (seqK (execLim P cols) (S.block ss)) := by
  rw [S.block, x_seq]
theorem x_define (v : Var) (e : E) : execLim P cols (.define v e) (σ, a) =
    (e.eval (callLim P cols) cols σ a).bind (defK σ v) := by rw [execLim_eq]; rfl
theorem x_assign (v : Var) (e : E) : execLim P cols (.assign v e) (σ, a) =
    (e.eval (callLim P cols) cols σ a).bind (defK σ v) := by rw [execLim_eq]; rfl
theorem x_incr (v : Var) : execLim P cols (.incr v) (σ, a) =
    (match σ[v]? with | some (.int n) => .ok (.next (σ.set v (.int (n + 1)), a)) | _ => .stuck) := by
  rw [execLim_eq]; rfl
theorem x_decr (v : Var) : execLim P cols (.decr v) (σ, a) =
    (match σ[v]? with | some (.int n) => .ok (.next (σ.set v (.int (n - 1)), a)) | _ => .stuck) := by
  rw [execLim_eq]; rfl
theorem x_define2 (v w : Var) (e : E) : execLim P cols (.define2 v w e) (σ, a) =
    (e.eval (callLim P cols) cols σ a).bind (def2K σ v w) := by rw [execLim_eq]; rfl
theorem x_expr (e : E) : execLim P cols (.expr e) (σ, a) = (e.eval (callLim P cols) cols σ a).bind (exprK σ) := by
  rw [execLim_eq]; rfl
theorem x_ite (c : E) (t e : S) : execLim P cols (.ite c t e) (σ, a) =
    (c.eval (callLim P cols) cols σ a).bind (iteK (execLim P cols) σ t e) := by rw [execLim_eq]; rfl
theorem x_loop (c : E) (post body : S) : execLim P cols (.loop c post body) (σ, a) =
    (c.eval (callLim P cols) cols σ a).bind (loopK (execLim P cols) σ (.loop c post body) post body) := by
  rw [execLim_eq]; rfl
theorem x_rangeCols (recv : E) (v : Var) (body : S) : execLim P cols (.rangeCols recv v body) (σ, a) =
    (recv.eval (callLim P cols) cols σ a).bind fun r =>
      match r.1 with
      | .sorter => colLoop (fun k st' => execLim P cols body (st'.1.set v (.col k), st'.2)) (List.range cols.length) (σ, r.2)
      | _ => .stuck := by rw [execLim_eq]; rfl
theorem x_brk : execLim P cols .brk (σ, a) = .ok (.brk (σ, a)) := by rw [execLim_eq]; rfl
theorem x_cont : execLim P cols .cont (σ, a) = .ok (.cont (σ, a)) := by rw [execLim_eq]; rfl
theorem x_ret0 : execLim P cols .ret0 (σ, a) = .ok (.ret .unit a) := by rw [execLim_eq]; rfl
theorem x_ret (e : E) : execLim P cols (.ret e) (σ, a) = (e.eval (callLim P cols) cols σ a).bind retSK := by
  rw [execLim_eq]; rfl
theorem x_ret2 (x y : E) : execLim P cols (.ret2 x y) (σ, a) =
    (x.eval (callLim P cols) cols σ a).bind (ret2K σ (callLim P cols) cols y) := by rw [execLim_eq]; rfl
theorem x_setIx2 (recv i j x y : E) : execLim P cols (.setIx2 recv i j x y) (σ, a) =
    (recv.eval (callLim P cols) cols σ a).bind fun r0 => (i.eval (callLim P cols) cols σ r0.2).bind fun r1 =>
    (j.eval (callLim P cols) cols σ r1.2).bind fun r2 => (x.eval (callLim P cols) cols σ r2.2).bind fun r3 =>
    (y.eval (callLim P cols) cols σ r3.2).bind fun r4 =>
      match r0.1, r1.1, r2.1, r3.1, r4.1 with
      | .sorter, .int i, .int j, .row x, .row y =>
        if 0 ≤ i ∧ i < (r4.2.size : Int) ∧ 0 ≤ j ∧ j < (r4.2.size : Int) then
          .ok (.next (σ, (r4.2.setIfInBounds i.toNat x).setIfInBounds j.toNat y))
        else .stuck
      | _, _, _, _, _ => .stuck := by rw [execLim_eq]; rfl

/-- a call runs the body on the arguments -/
theorem callLim_eq (f : Nat) (fn : Fn) (h : P[f]? = some fn) (args : List Val) (hl : args.length = fn.params)
    (σ' : Store) (hσ : args ++ List.replicate (fn.vars - fn.params) .unit = σ') :
    callLim P cols f args a = (execLim P cols fn.body (σ', a)).bind wrapRet := by
  simp only [callLim, callOf, h, hl, ↓reduceIte, hσ]

end equations

theorem bind_ok {α β : Type} (x : α) (k : α → R β) : (R.ok x).bind k = k x := rfl
theorem bind_stuck {α β : Type} (k : α → R β) : (R.stuck : R α).bind k = .stuck := rfl
theorem bind_timeout {α β : Type} (k : α → R β) : (R.timeout : R α).bind k = .timeout := rfl

/-! the operators on values -/
section ops
variable (a : Ix)
theorem uop_not (b : Bool) : UOp.apply a .not (.bool b) = .ok (.bool (!b)) := rfl
theorem uop_toUint (n : Int) : UOp.apply a .toUint (.int n) = if 0 ≤ n then .ok (.int n) else .stuck := rfl
theorem uop_toInt (n : Int) : UOp.apply a .toInt (.int n) = .ok (.int n) := rfl
theorem uop_lenIx : UOp.apply a .lenIx .sorter = .ok (.int a.size) := rfl
theorem uop_resIs (c r : CRes) : UOp.apply a (.resIs c) (.res r) = .ok (.bool (r == c)) := rfl
theorem bop_add (x y : Int) : BOp.apply a .add (.int x) (.int y) = .ok (.int (x + y)) := rfl
theorem bop_sub (x y : Int) : BOp.apply a .sub (.int x) (.int y) = .ok (.int (x - y)) := rfl
theorem bop_mul (x y : Int) : BOp.apply a .mul (.int x) (.int y) = .ok (.int (x * y)) := rfl
theorem bop_div (x y : Int) : BOp.apply a .div (.int x) (.int y) = if y = 0 then .stuck else .ok (.int (x.tdiv y)) := rfl
theorem bop_shr (x k : Int) : BOp.apply a .shr (.int x) (.int k) = if k < 0 then .stuck else .ok (.int (x / 2 ^ k.toNat)) := rfl
theorem bop_lt (x y : Int) : BOp.apply a (.cmp .lt) (.int x) (.int y) = .ok (.bool (decide (x < y))) := rfl
theorem bop_le (x y : Int) : BOp.apply a (.cmp .le) (.int x) (.int y) = .ok (.bool (decide (x ≤ y))) := rfl
theorem bop_gt (x y : Int) : BOp.apply a (.cmp .gt) (.int x) (.int y) = .ok (.bool (decide (x > y))) := rfl
theorem bop_ge (x y : Int) : BOp.apply a (.cmp .ge) (.int x) (.int y) = .ok (.bool (decide (x ≥ y))) := rfl
theorem bop_eq (x y : Int) : BOp.apply a (.cmp .eq) (.int x) (.int y) = .ok (.bool (x == y)) := rfl
theorem bop_ne (x y : Int) : BOp.apply a (.cmp .ne) (.int x) (.int y) = .ok (.bool (x != y)) := rfl
/-- an index within the array -/
theorem bop_ixAt (i : Int) (h : 0 ≤ i ∧ i < a.size) : BOp.apply a .ixAt .sorter (.int i) = .ok (.row a[i.toNat]!) := by
  have h1 : ¬ i < 0 := by omega
  have h2 : i.toNat < a.size := by omega
  rw [getElem!_pos a _ h2]
  simp only [BOp.apply, h1, ↓reduceIte, Array.getElem?_eq_getElem h2]
end ops

theorem seqK_next (rec : S → St → R Ctl) (b : S) (st : St) : seqK rec b (.next st) = rec b st := rfl
theorem seqK_brk (rec : S → St → R Ctl) (b : S) (st : St) : seqK rec b (.brk st) = .ok (.brk st) := rfl
theorem seqK_cont (rec : S → St → R Ctl) (b : S) (st : St) : seqK rec b (.cont st) = .ok (.cont st) := rfl
theorem seqK_ret (rec : S → St → R Ctl) (b : S) (v : Val) (a : Ix) : seqK rec b (.ret v a) = .ok (.ret v a) := rfl
theorem postK_next (rec : S → St → R Ctl) (l : S) (st : St) : postK rec l (.next st) = rec l st := rfl
theorem bodyK_next (rec : S → St → R Ctl) (l post : S) (st : St) :
    bodyK rec l post (.next st) = (rec post st).bind (postK rec l) := rfl
theorem bodyK_cont (rec : S → St → R Ctl) (l post : S) (st : St) :
    bodyK rec l post (.cont st) = (rec post st).bind (postK rec l) := rfl
theorem bodyK_brk (rec : S → St → R Ctl) (l post : S) (st : St) : bodyK rec l post (.brk st) = .ok (.next st) := rfl
theorem bodyK_ret (rec : S → St → R Ctl) (l post : S) (v : Val) (a : Ix) :
    bodyK rec l post (.ret v a) = .ok (.ret v a) := rfl
theorem wrapRet_next (st : St) : wrapRet (.next st) = .ok (.unit, st.2) := rfl
theorem wrapRet_ret (v : Val) (a : Ix) : wrapRet (.ret v a) = .ok (v, a) := rfl

/-- side conditions of the call lemmas: an index within the array, `0 ≤ x ∧ x < a.size` (fails at once on anything else) -/
macro "sl_disch" : tactic =>
  `(tactic| (apply And.intro; (try simp only [Sorter.sw_size]); omega; (try simp only [Sorter.sw_size]); omega))

/-- symbolic execution of straight-line code and of expressions (loops and calls stay folded) -/
macro "sl_simp" " [" ts:Lean.Parser.Tactic.simpLemma,* "]" : tactic =>
  `(tactic| simp (disch := sl_disch) only [↓x_skip, ↓x_block_nil, ↓x_seq, ↓x_block_cons, ↓x_define, ↓x_assign, ↓x_incr, ↓x_decr, ↓x_define2,
      ↓x_expr, ↓x_ite, ↓x_brk, ↓x_cont, ↓x_ret0, ↓x_ret, ↓x_ret2, ↓seqK_next, ↓seqK_brk, ↓seqK_cont, ↓seqK_ret, ↓postK_next,
      ↓bodyK_next, ↓bodyK_cont, ↓bodyK_brk, ↓bodyK_ret, ↓wrapRet_next, ↓wrapRet_ret, ↓bind_ok, ↓bind_stuck, ↓bind_timeout,
      ↓ev_var, ↓ev_int, ↓ev_bool, ↓ev_un, ↓ev_bin, ↓ev_and, ↓ev_or, ↓ev_call0, ↓ev_call1, ↓ev_call2, ↓ev_call3, ↓ev_call4,
      ↓unK_eq, ↓binK_eq, ↓binK2_eq, ↓boolK_eq, ↓andK_false, ↓andK_true, ↓orK_true, ↓orK_false, ↓call1K_eq, ↓call2K_eq, ↓call2K2_eq,
      ↓call3K_eq, ↓call3K2_eq, ↓call3K3_eq, ↓call4K_eq, ↓call4K2_eq, ↓call4K3_eq, ↓call4K4_eq,
      ↓defK_eq, ↓def2K_eq, ↓exprK_eq, ↓iteK_true, ↓iteK_false, ↓loopK_true, ↓loopK_false, ↓retSK_eq, ↓ret2K_eq, ↓ret2K2_eq,
      uop_not, uop_toUint, uop_toInt, uop_lenIx, uop_resIs, bop_add, bop_sub, bop_mul, bop_div, bop_shr, bop_lt, bop_le, bop_gt,
      bop_ge, bop_eq, bop_ne, bop_ixAt,
      Store.set, List.getElem?_cons_zero, List.getElem?_cons_succ, List.length_cons, List.length_nil, Int.reduceLT, Int.reduceLE, Int.reduceGT,
      Int.reduceGE, Int.reduceToNat, Int.reducePow, Int.reduceNeg, Int.reduceEq, Int.reduceNe, ↓reduceIte, $ts,*])

/-- the canonical program in the limit semantics: statements and calls -/
scoped notation "X" => execLim canonFns
scoped notation "C" => callLim canonFns

end QF.Props.C03SorterGen
