import QF.Props.C04LoopsGen
import QF.Gen.FApply
/-!
# C06 / C01 — the two built-in `toUpper` of today's source, on the stored representation (tie T1, by semantics)

Part of `QF.Props.C06FApplyGen` (which states the results): the canonical terms of the functions `Column.Apply1` of the
string and enum column packages hand the string `"ToUpper"` to (`QF.Gen.supperTable`, `QF.Gen.eupperTable`, regenerated on
every run by go/cmd/extract/faast.go), and the once-and-for-all meaning of those canonical terms.
-/
namespace QF.Props.C06FApplyGen
open QF QF.Props.C04LoopsGen

/-! ## Canonical terms -/

/-- `upper := ToUpper(&strBuf, str)` with a scratch buffer of the function's own -/
def upperOfCell : SUStr := .upper .fresh .cell

/-- scolumn: `if len(source.pointers) == 0 { return source }; pointers := make([]Pointer, len(source.pointers));
data := make([]byte, 0, _); for _, i := range ix { str, isNull := source.stringAt(i); upper := ToUpper(&buf, str);
pointers[i] = NewPointer(len(data), len(upper), isNull); data = append(data, upper...) }; return NewBytes(pointers, data)` -/
def canonSUpper : SUFn :=
  { emptyReturnsSource := true, ptrInit := .fresh .srcPtrs, dataInit := .empty, cellAt := .row,
    body := [.setPtr .row .dataLen (.strLen upperOfCell) .cellNull, .appendStr upperOfCell],
    ret := .col .new .new }

/-- ecolumn, first loop: `upper := strings.ToUpper(v); e, ok := valToEnum[upper]; if !ok { e = enumVal(len(newValues));
valToEnum[upper] = e; newValues = append(newValues, upper) }; mapping[i] = e` -/
def canonELoop1 : List EUStm := [
  .do (.bindStr (.upper .elem)),
  .do (.lookup .loc),
  .when .notFound [.setReg .valsLen, .mapPut .loc .reg, .pushVal .loc],
  .do (.storeMapping .reg)]

/-- second loop: `if !e.isNull() { e = mapping[e] }; newData[i] = e` -/
def canonELoop2 : List EUStm := [
  .when .regNotNull [.setReg (.mappingAt .reg)],
  .do (.storeData .reg)]

def canonEUpper : EUFn :=
  { ixUsed := false, valsInit := .empty, mapFresh := true, mappingLen := .srcVals, loop1 := canonELoop1,
    fast := .ifSameLen (.col .source .new .unset), dataInit := .fresh .srcData, loop2 := canonELoop2,
    ret := .col .new .new .unset }

/-! ## The string column -/

/-- what `source.stringAt(r)` returns -/
def cellStr (B : BCol) (r : Nat) : Bytes × Bool :=
  match B.ptrs[r]? with
  | some p => if p.null then ([], true) else ((B.data.drop p.off).take p.len, false)
  | none => ([], true)

theorem stringAt_ok (B : BCol) (hv : BValid B.ptrs B.data) (r : Nat) (hr : r < B.ptrs.length) :
    B.stringAt r = .ok (cellStr B r) := by
  unfold BCol.stringAt cellStr
  rw [List.getElem?_eq_getElem hr]
  simp only
  cases hn : (B.ptrs[r]).null with
  | true => simp
  | false =>
    have := hv _ (List.getElem_mem hr) hn
    simp [this]

/-- the loop of the canonical term, closed form: (pointers, data) after the rows -/
def supLoop (up : Bytes → Bytes) (B : BCol) : List Nat → List BPtr → Bytes → List BPtr × Bytes
  | [], ps, d => (ps, d)
  | r :: rs, ps, d => supLoop up B rs (ps.set r ⟨d.length, (up (cellStr B r).1).length, (cellStr B r).2⟩) (d ++ up (cellStr B r).1)

theorem su_loop (up : Bytes → Bytes) (B : BCol) (hv : BValid B.ptrs B.data) :
    ∀ (rows : List Nat) (pos : Nat) (ps : List BPtr) (d : Bytes), (∀ r ∈ rows, r < B.ptrs.length) → ps.length = B.ptrs.length →
      suRunLoop up canonSUpper pos rows { src := B, ptrs := some ps, data := .own d, writes := 0 } =
        .ok { src := B, ptrs := some (supLoop up B rows ps d).1, data := .own (supLoop up B rows ps d).2, writes := 0 } := by
  intro rows
  induction rows with
  | nil => intro pos ps d _ _; rfl
  | cons r rs ih =>
    intro pos ps d hr hl
    have hrl : r < B.ptrs.length := hr r List.mem_cons_self
    have hps : r < ps.length := by omega
    unfold suRunLoop
    have e : canonSUpper.cellAt.of pos r = r := rfl
    rw [e, stringAt_ok B hv r hrl]
    simp only [canonSUpper, upperOfCell, suRunBody, SUAct.run, SUInt.eval, SUStr.eval, SUFlag.eval, SUData.len, LIdx.of,
      Option.map_some, hps, ↓reduceIte]
    exact ih (pos + 1) _ _ (fun x hx => hr x (List.mem_cons_of_mem _ hx)) (by simpa using hl)

theorem supLoop_spec (up : Bytes → Bytes) (B : BCol) :
    ∀ (rows : List Nat) (ps : List BPtr) (d : Bytes), (∀ r ∈ rows, r < B.ptrs.length) → ps.length = B.ptrs.length →
      BValid ps d →
      (supLoop up B rows ps d).1.length = B.ptrs.length ∧ BValid (supLoop up B rows ps d).1 (supLoop up B rows ps d).2 ∧
      (∃ more, (supLoop up B rows ps d).2 = d ++ more) ∧
      (∀ r ∈ rows, ((supLoop up B rows ps d).1[r]?).map (ptrCell (supLoop up B rows ps d).2) = (B.cell r).map (Option.map up)) ∧
      (∀ j, j ∉ rows → (supLoop up B rows ps d).1[j]? = ps[j]?) := by
  intro rows
  induction rows with
  | nil =>
    intro ps d _ hl hb
    exact ⟨hl, hb, ⟨[], by simp [supLoop]⟩, fun r hr => absurd hr List.not_mem_nil, fun j _ => rfl⟩
  | cons r rs ih =>
    intro ps d hr hl hb
    have hrl : r < B.ptrs.length := hr r List.mem_cons_self
    have hps : r < ps.length := by omega
    let q : BPtr := ⟨d.length, (up (cellStr B r).1).length, (cellStr B r).2⟩
    have hq : BValid (ps.set r q) (d ++ up (cellStr B r).1) := by
      intro p hp hn
      rcases List.mem_or_eq_of_mem_set hp with hp | rfl
      · have := hb p hp hn
        simp only [List.length_append]; omega
      · simp [q]
    obtain ⟨i1, i2, ⟨more, i3⟩, i4, i5⟩ := ih (ps.set r q) (d ++ up (cellStr B r).1)
      (fun x hx => hr x (List.mem_cons_of_mem _ hx)) (by simpa using hl) hq
    refine ⟨i1, i2, ⟨up (cellStr B r).1 ++ more, by simp only [supLoop]; rw [i3]; simp⟩, ?_, ?_⟩
    · intro x hx
      by_cases hxr : x ∈ rs
      · exact i4 x hxr
      · have hxe : x = r := by
          rcases List.mem_cons.mp hx with h | h
          · exact h
          · exact absurd h hxr
        subst hxe
        simp only [supLoop]
        rw [i5 x hxr, i3, List.getElem?_set_self hps, Option.map_some]
        have hv' : q.null = false → q.off + q.len ≤ (d ++ up (cellStr B x).1).length := by
          intro _; simp [q]
        rw [ptrCell_append _ more q hv']
        simp only [BCol.cell, List.getElem?_eq_getElem hrl, Option.map_some, Option.some.injEq]
        have hcs : cellStr B x = if (B.ptrs[x]).null then ([], true) else ((B.data.drop (B.ptrs[x]).off).take (B.ptrs[x]).len, false) := by
          simp [cellStr, List.getElem?_eq_getElem hrl]
        unfold ptrCell
        simp only [q, hcs]
        cases hn : (B.ptrs[x]).null with
        | true => simp
        | false => simp
    · intro j hj
      have hjr : j ≠ r := fun e => hj (e ▸ List.mem_cons_self)
      have hjs : j ∉ rs := fun h => hj (List.mem_cons_of_mem _ h)
      simp only [supLoop]
      rw [i5 j hjs, List.getElem?_set_ne (fun e => hjr e.symm)]

theorem bvalid_replicate (n : Nat) : BValid (List.replicate n (⟨0, 0, false⟩ : BPtr)) [] := by
  intro p hp _
  rw [(List.mem_replicate.mp hp).2]
  simp

/-- **The string `toUpper`, canonical term, on every stored column and every index** -/
theorem canonSUpper_run (up : Bytes → Bytes) (B : BCol) (ix : List Nat) (hv : BValid B.ptrs B.data)
    (hix : ∀ r ∈ ix, r < B.ptrs.length) :
    ∃ R, canonSUpper.run up B ix = .ok R ∧ R.src = B ∧ R.writes = 0 ∧
      (B.ptrs = [] → R.shared = true ∧ R.res = B) ∧
      (B.ptrs ≠ [] → R.shared = false ∧ R.ptrsFresh = true ∧ R.dataFresh = true) ∧
      R.res.ptrs.length = B.ptrs.length ∧ BValid R.res.ptrs R.res.data ∧
      (∀ r ∈ ix, R.res.cell r = (B.cell r).map (Option.map up)) ∧
      (∀ r, r < B.ptrs.length → r ∉ ix → R.res.ptrs[r]? = some ⟨0, 0, false⟩) := by
  by_cases he : B.ptrs = []
  · refine ⟨{ res := B, shared := true, ptrsFresh := false, dataFresh := false, src := B, writes := 0 }, ?_, rfl, rfl,
      fun _ => ⟨rfl, rfl⟩, fun h => absurd he h, rfl, hv, ?_, ?_⟩
    · simp [SUFn.run, canonSUpper, he]
    · intro r hr; have := hix r hr; simp [he] at this
    · intro r hr; simp [he] at hr
  · have hne : B.ptrs.isEmpty = false := by simpa using he
    obtain ⟨i1, i2, _, i4, i5⟩ := supLoop_spec up B ix (List.replicate B.ptrs.length ⟨0, 0, false⟩) [] hix (by simp)
      (bvalid_replicate _)
    have hrun := su_loop up B hv ix 0 (List.replicate B.ptrs.length ⟨0, 0, false⟩) [] hix (by simp)
    let P := supLoop up B ix (List.replicate B.ptrs.length ⟨0, 0, false⟩) []
    refine ⟨{ res := ⟨P.1, P.2⟩, shared := false, ptrsFresh := true, dataFresh := true, src := B, writes := 0 },
      ?_, rfl, rfl, fun h => absurd h he, fun _ => ⟨rfl, rfl, rfl⟩, i1, i2, ?_, ?_⟩
    · simp only [SUFn.run, hne, Bool.and_false, Bool.false_eq_true, ↓reduceIte]
      have e1 : canonSUpper.ptrInit = .fresh .srcPtrs := rfl
      have e2 : canonSUpper.dataInit = .empty := rfl
      have e3 : canonSUpper.ret = .col .new .new := rfl
      simp only [e1, e2, e3, SULen.eval, Option.map_some, hrun]
      rfl
    · intro r hr
      exact i4 r hr
    · intro r hr hn
      rw [i5 r hn]
      simp [hr]

/-! ## The enum column -/

/-- position of a string in a list (first occurrence) -/
def posOf (l : List Bytes) (s : Bytes) : Option Nat := l.findIdx? (· == s)

/-- the value table after the first loop: the upper-cased values without repetition, in order of first appearance -/
def upVals (up : Bytes → Bytes) (vals : List Bytes) : List Bytes := dedup (vals.map up)

/-- the first loop, closed form on (new values, map, mapping) -/
structure E1 where
  vals : List Bytes
  map : List (Bytes × Nat)
  mapping : List Nat

def e1Step (up : Bytes → Bytes) (key : Nat) (v : Bytes) (s : E1) : E1 :=
  match s.map.lookup (up v) with
  | some c => { s with mapping := s.mapping.set key c }
  | none => { vals := s.vals ++ [up v], map := (up v, s.vals.length) :: s.map, mapping := s.mapping.set key s.vals.length }

def e1Loop (up : Bytes → Bytes) : Nat → List Bytes → E1 → E1
  | _, [], s => s
  | key, v :: vs, s => e1Loop up (key + 1) vs (e1Step up key v s)

theorem eu_body1 (up : Bytes → Bytes) (key : Nat) (v : Bytes) (st : EUSt) (hk : key < st.mapping.length) :
    ∃ st', euRunBody up key v canonELoop1 st = .ok st' ∧ st'.src = st.src ∧ st'.nd = st.nd ∧ st'.writes = st.writes ∧
      (⟨st'.vals, st'.map, st'.mapping⟩ : E1) = e1Step up key v ⟨st.vals, st.map, st.mapping⟩ := by
  unfold e1Step
  cases hl : st.map.lookup (up v) with
  | some c =>
    refine ⟨{ st with str := up v, reg := c, ok := true, mapping := st.mapping.set key c }, ?_, rfl, rfl, rfl, rfl⟩
    simp [canonELoop1, euRunBody, EUAct.run, EUStr.eval, EUCond.eval, EUCode.eval, hl, hk]
  | none =>
    refine ⟨{ st with str := up v, reg := st.vals.length, ok := false, vals := st.vals ++ [up v], map := (up v, st.vals.length) :: st.map, mapping := st.mapping.set key st.vals.length },
      ?_, rfl, rfl, rfl, rfl⟩
    simp [canonELoop1, euRunBody, euRunActs, EUAct.run, EUStr.eval, EUCond.eval, EUCode.eval, hl, hk]

theorem eu_loop1 (up : Bytes → Bytes) :
    ∀ (vs : List Bytes) (key : Nat) (st : EUSt), key + vs.length ≤ st.mapping.length →
      ∃ st', euLoop1 up canonELoop1 key vs st = .ok st' ∧ st'.src = st.src ∧ st'.nd = st.nd ∧ st'.writes = st.writes ∧
        (⟨st'.vals, st'.map, st'.mapping⟩ : E1) = e1Loop up key vs ⟨st.vals, st.map, st.mapping⟩ := by
  intro vs
  induction vs with
  | nil => intro key st _; exact ⟨st, rfl, rfl, rfl, rfl, rfl⟩
  | cons v vs ih =>
    intro key st hl
    simp only [List.length_cons] at hl
    obtain ⟨s1, r1, a1, b1, c1, d1⟩ := eu_body1 up key v st (by omega)
    have hm : s1.mapping.length = st.mapping.length := by
      have := congrArg (fun e : E1 => e.mapping.length) d1
      simp only [e1Step] at this
      split at this <;> simpa using this
    obtain ⟨s2, r2, a2, b2, c2, d2⟩ := ih (key + 1) s1 (by omega)
    refine ⟨s2, ?_, a2.trans a1, b2.trans b1, c2.trans c1, ?_⟩
    · unfold euLoop1; rw [r1]; exact r2
    · rw [d2, d1]; rfl

/-- The invariant of the first loop: the map holds exactly the positions of the values; the values have no repetition;
the first `key` entries of the mapping are the positions of the upper-cased source values. -/
structure E1Inv (up : Bytes → Bytes) (src : List Bytes) (key : Nat) (s : E1) : Prop where
  vals : s.vals = upVals up (src.take key)
  map : ∀ b, s.map.lookup b = posOf s.vals b
  mapping : ∀ i, i < key → s.mapping[i]? = (src[i]?).bind (fun v => posOf s.vals (up v))
  len : s.vals.length ≤ key
  /-- as long as no two values merged, the mapping is the identity -/
  ident : s.vals.length = key → ∀ i, i < key → s.mapping[i]? = some i

theorem dedup_snoc (l : List Bytes) (x : Bytes) :
    dedup (l ++ [x]) = if (dedup l).contains x then dedup l else dedup l ++ [x] := by
  unfold dedup
  rw [List.foldl_append]
  rfl

theorem dd_mono (l : List Bytes) : ∀ (acc : List Bytes) (x : Bytes), acc.contains x = true →
    (l.foldl (fun acc x => if acc.contains x then acc else acc ++ [x]) acc).contains x = true := by
  induction l with
  | nil => intro acc x h; exact h
  | cons y ys ih =>
    intro acc x h
    rw [List.foldl_cons]
    apply ih
    split
    · exact h
    · simp only [List.contains_iff_mem] at h ⊢
      exact List.mem_append_left _ h

theorem dedup_contains (l : List Bytes) (x : Bytes) (h : x ∈ l) : (dedup l).contains x = true := by
  unfold dedup
  suffices ∀ acc : List Bytes, (l.foldl (fun acc x => if acc.contains x then acc else acc ++ [x]) acc).contains x = true from this []
  induction l with
  | nil => cases h
  | cons y ys ih =>
    intro acc
    rw [List.foldl_cons]
    rcases List.mem_cons.mp h with rfl | h
    · apply dd_mono
      split
      · assumption
      · simp
    · exact ih h _

theorem posOf_append_of_some {l : List Bytes} {b : Bytes} {i : Nat} (h : posOf l b = some i) (m : List Bytes) :
    posOf (l ++ m) b = some i := by
  unfold posOf at *
  rw [List.findIdx?_append, h]
  rfl

theorem posOf_none_iff (l : List Bytes) (b : Bytes) : posOf l b = none ↔ l.contains b = false := by
  unfold posOf
  rw [List.findIdx?_eq_none_iff]
  constructor
  · intro h
    rw [Bool.eq_false_iff]
    intro hc
    have hm := List.contains_iff_mem.mp hc
    have := h b hm
    simp at this
  · intro h x hx
    rw [Bool.eq_false_iff] at h
    by_cases e : x = b
    · subst e; exact absurd (List.contains_iff_mem.mpr hx) h
    · simpa using e

theorem posOf_snoc_self (l : List Bytes) (b : Bytes) (h : l.contains b = false) : posOf (l ++ [b]) b = some l.length := by
  unfold posOf
  have e : List.findIdx? (fun x => x == b) l = none := (posOf_none_iff l b).2 h
  rw [List.findIdx?_append, e]
  simp

theorem e1Step_inv (up : Bytes → Bytes) (src : List Bytes) (key : Nat) (hk : key < src.length) (s : E1)
    (hm : key < s.mapping.length) (inv : E1Inv up src key s) : E1Inv up src (key + 1) (e1Step up key src[key] s) := by
  have htake : src.take (key + 1) = src.take key ++ [src[key]] := by
    rw [List.take_add_one, List.getElem?_eq_getElem hk]; rfl
  unfold e1Step
  cases hl : s.map.lookup (up src[key]) with
  | some c =>
    have hp : posOf s.vals (up src[key]) = some c := by rw [← inv.map]; exact hl
    have hc : s.vals.contains (up src[key]) = true := by
      cases h : s.vals.contains (up src[key]) with
      | true => rfl
      | false => rw [(posOf_none_iff _ _).2 h] at hp; cases hp
    refine ⟨?_, inv.map, ?_, Nat.le_succ_of_le inv.len, fun h => absurd (show s.vals.length = key + 1 from h) (by have := inv.len; omega)⟩
    · show s.vals = _
      unfold upVals
      rw [htake, List.map_append, List.map_singleton, dedup_snoc]
      have : dedup (List.map up (List.take key src)) = s.vals := inv.vals.symm
      rw [this, hc]; rfl
    · intro i hi
      show (s.mapping.set key c)[i]? = _
      by_cases e : i = key
      · subst e
        rw [List.getElem?_set_self hm, List.getElem?_eq_getElem hk]
        exact hp.symm
      · rw [List.getElem?_set_ne (fun h => e h.symm)]
        exact inv.mapping i (by omega)
  | none =>
    have hp : posOf s.vals (up src[key]) = none := by rw [← inv.map]; exact hl
    have hc : s.vals.contains (up src[key]) = false := (posOf_none_iff _ _).1 hp
    refine ⟨?_, ?_, ?_, by show (s.vals ++ [up src[key]]).length ≤ key + 1; (have := inv.len; simp; omega), ?_⟩
    rotate_right
    · intro h i hi
      have hlen : s.vals.length = key := by
        have : (s.vals ++ [up src[key]]).length = key + 1 := h
        simpa using this
      show (s.mapping.set key s.vals.length)[i]? = some i
      by_cases e : i = key
      · subst e; rw [List.getElem?_set_self hm, hlen]
      · rw [List.getElem?_set_ne (fun h => e h.symm)]; exact inv.ident hlen i (by omega)
    · show s.vals ++ [up src[key]] = _
      unfold upVals
      rw [htake, List.map_append, List.map_singleton, dedup_snoc]
      have : dedup (List.map up (List.take key src)) = s.vals := inv.vals.symm
      rw [this, hc]; rfl
    · intro b
      show ((up src[key], s.vals.length) :: s.map).lookup b = posOf (s.vals ++ [up src[key]]) b
      rw [List.lookup_cons]
      by_cases e : b = up src[key]
      · subst e
        simp only [BEq.rfl]
        exact (posOf_snoc_self _ _ hc).symm
      · have : (b == up src[key]) = false := by simpa using e
        rw [this, inv.map b]
        unfold posOf
        rw [List.findIdx?_append]
        cases h : List.findIdx? (fun x => x == b) s.vals with
        | some i => rfl
        | none =>
          have : (up src[key] == b) = false := by simpa using fun h => e h.symm
          simp [List.findIdx?_cons, this]
    · intro i hi
      show (s.mapping.set key s.vals.length)[i]? = _
      by_cases e : i = key
      · subst e
        rw [List.getElem?_set_self hm, List.getElem?_eq_getElem hk]
        exact (posOf_snoc_self _ _ hc).symm
      · rw [List.getElem?_set_ne (fun h => e h.symm), inv.mapping i (by omega)]
        have hil : i < src.length := by omega
        rw [List.getElem?_eq_getElem hil]
        simp only [Option.bind_some]
        have hmem : (src[i]) ∈ src.take key := by
          rw [List.mem_take_iff_getElem]
          exact ⟨i, by omega, rfl⟩
        -- the value is already in the table
        have hin : (upVals up (src.take key)).contains (up src[i]) = true := by
          unfold upVals
          exact dedup_contains _ _ (List.mem_map_of_mem hmem)
        rw [← inv.vals] at hin
        cases hq : posOf s.vals (up src[i]) with
        | none => rw [(posOf_none_iff _ _).1 hq] at hin; cases hin
        | some j => exact (posOf_append_of_some hq _).symm

theorem e1Step_mlen (up : Bytes → Bytes) (key : Nat) (v : Bytes) (s : E1) :
    (e1Step up key v s).mapping.length = s.mapping.length := by
  unfold e1Step
  split <;> simp

theorem e1Loop_inv (up : Bytes → Bytes) (src : List Bytes) :
    ∀ (n key : Nat) (s : E1), key + n = src.length → src.length ≤ s.mapping.length → E1Inv up src key s →
      E1Inv up src src.length (e1Loop up key (src.drop key) s) ∧ (e1Loop up key (src.drop key) s).mapping.length = s.mapping.length := by
  intro n
  induction n with
  | zero =>
    intro key s hk _ inv
    have : key = src.length := by omega
    subst this
    rw [List.drop_length]
    exact ⟨inv, rfl⟩
  | succ n ih =>
    intro key s hk hm inv
    have hkl : key < src.length := by omega
    rw [List.drop_eq_getElem_cons hkl]
    simp only [e1Loop]
    obtain ⟨a, b⟩ := ih (key + 1) (e1Step up key src[key] s) (by omega) (by rw [e1Step_mlen]; exact hm)
      (e1Step_inv up src key hkl s (by omega) inv)
    exact ⟨a, by rw [b, e1Step_mlen]⟩

theorem e1Inv_init (up : Bytes → Bytes) (src : List Bytes) (m : List Nat) : E1Inv up src 0 ⟨[], [], m⟩ :=
  ⟨rfl, fun _ => rfl, fun _ hi => absurd hi (Nat.not_lt_zero _), Nat.le_refl _, fun _ _ hi => absurd hi (Nat.not_lt_zero _)⟩

/-- the code a stored code becomes: null stays null; else the position of its upper-cased value in the new table -/
def remapCode (up : Bytes → Bytes) (vals : List Bytes) (c : Nat) : Nat :=
  if c = euNull then euNull else ((vals[c]?).bind (fun v => posOf (upVals up vals) (up v))).getD 0

/-- one round of the second loop -/
theorem eu_body2 (up : Bytes → Bytes) (key c : Nat) (st : EUSt) (d : List Nat) (hnd : st.nd = .own d) (hk : key < d.length)
    (hc : c = euNull ∨ c < st.mapping.length) :
    ∃ st', euRunBody up key [] canonELoop2 { st with reg := c } = .ok st' ∧ st'.src = st.src ∧ st'.writes = st.writes ∧
      st'.vals = st.vals ∧ st'.mapping = st.mapping ∧
      st'.nd = .own (d.set key (if c = euNull then euNull else st.mapping[c]!)) := by
  by_cases hn : c = euNull
  · subst hn
    refine ⟨{ st with reg := euNull, nd := .own (d.set key euNull) }, ?_, rfl, rfl, rfl, rfl, by simp⟩
    simp [canonELoop2, euRunBody, EUAct.run, EUCond.eval, EUCode.eval, hnd, hk]
  · have hlt : c < st.mapping.length := by rcases hc with h | h; exact absurd h hn; exact h
    refine ⟨{ st with reg := st.mapping[c], nd := .own (d.set key st.mapping[c]) }, ?_, rfl, rfl, rfl, rfl, by simp [hn, hlt]⟩
    have hb : (c != euNull) = true := by simpa using hn
    simp [canonELoop2, euRunBody, euRunActs, EUAct.run, EUCond.eval, EUCode.eval, hnd, hk, hb, hlt]

theorem eu_loop2 (up : Bytes → Bytes) (E : ECol) (f : Nat → Nat) :
    ∀ (n key : Nat) (st : EUSt) (d : List Nat), st.nd = .own d → d.length = E.data.length → st.src = E →
      key + n = E.data.length → d.take key = (E.data.take key).map f →
      (∀ c ∈ E.data, c = euNull ∨ c < st.mapping.length) →
      (∀ c ∈ E.data, f c = if c = euNull then euNull else st.mapping[c]!) →
      ∃ st', euLoop2 up canonELoop2 key n st = .ok st' ∧ st'.src = E ∧ st'.writes = st.writes ∧ st'.vals = st.vals ∧
        st'.nd = .own (E.data.map f) := by
  intro n
  induction n with
  | zero =>
    intro key st d hnd hl hs hk ht _ _
    have hke : key = E.data.length := by omega
    refine ⟨st, rfl, hs, rfl, rfl, ?_⟩
    rw [hnd]
    congr 1
    have h1 : d.take key = d := by rw [hke, ← hl]; exact List.take_length
    have h2 : E.data.take key = E.data := by rw [hke]; exact List.take_length
    rw [← h1, ht, h2]
  | succ n ih =>
    intro key st d hnd hl hs hk ht hc hf
    have hkl : key < E.data.length := by omega
    obtain ⟨s1, r1, a1, b1, c1, m1, d1⟩ := eu_body2 up key E.data[key] st d hnd (by omega) (hc _ (List.getElem_mem hkl))
    have hd' : (d.set key (if E.data[key] = euNull then euNull else st.mapping[E.data[key]]!)).take (key + 1) =
        (E.data.take (key + 1)).map f := by
      rw [List.take_add_one, List.take_add_one, List.getElem?_eq_getElem hkl, List.map_append]
      rw [List.take_set_of_le (Nat.le_refl _), ht, List.getElem?_set_self (by omega)]
      simp only [Option.toList_some, List.map_cons, List.map_nil]
      rw [hf _ (List.getElem_mem hkl)]
    obtain ⟨s2, r2, a2, b2, c2, d2⟩ := ih (key + 1) s1 _ d1 (by simpa using hl) (a1.trans hs) (by omega) hd'
      (by rw [m1]; exact hc) (by rw [m1]; exact hf)
    refine ⟨s2, ?_, a2, b2.trans b1, c2.trans c1, d2⟩
    unfold euLoop2
    rw [hs, List.getElem?_eq_getElem hkl]
    rw [hs] at r1
    simp only
    rw [r1]
    exact r2

/-- **The enum `toUpper`, canonical term, on every stored column** whose codes are null or point into its value table -/
theorem canonEUpper_run (up : Bytes → Bytes) (E : ECol) (hc : ∀ c ∈ E.data, c = euNull ∨ c < E.values.length) :
    ∃ R, canonEUpper.run up E = .ok R ∧ R.src = E ∧ R.writes = 0 ∧ R.values = upVals up E.values ∧ R.strict = false ∧
      R.data = E.data.map (remapCode up E.values) ∧
      (R.dataShared = true ↔ (upVals up E.values).length = E.values.length) ∧
      (R.dataShared = true → R.data = E.data) := by
  -- the first loop
  obtain ⟨s1, r1, a1, b1, c1, d1⟩ := eu_loop1 up E.values 0
    { src := E, mapping := List.replicate E.values.length 0 } (by simp)
  obtain ⟨inv, hml⟩ := e1Loop_inv up E.values E.values.length 0 ⟨[], [], List.replicate E.values.length 0⟩ (by simp) (by simp)
    (e1Inv_init up E.values _)
  rw [List.drop_zero] at inv hml
  have hd1 : (⟨s1.vals, s1.map, s1.mapping⟩ : E1) = e1Loop up 0 E.values ⟨[], [], List.replicate E.values.length 0⟩ := d1
  rw [← hd1] at inv hml
  have hvals : s1.vals = upVals up E.values := by have := inv.vals; rwa [List.take_length] at this
  have hmlen : s1.mapping.length = E.values.length := by simpa using hml
  have hmap : ∀ c, c < E.values.length → s1.mapping[c]! = ((E.values[c]?).bind (fun v => posOf (upVals up E.values) (up v))).getD 0 := by
    intro c hcl
    have := inv.mapping c hcl
    simp only at this
    rw [hvals] at this
    rw [getElem!_pos s1.mapping c (by omega)]
    have h2 : s1.mapping[c]? = some s1.mapping[c] := List.getElem?_eq_getElem (by omega)
    rw [h2] at this
    rw [← this]; rfl
  have hf : ∀ c ∈ E.data, remapCode up E.values c = if c = euNull then euNull else s1.mapping[c]! := by
    intro c hcm
    unfold remapCode
    split
    · rfl
    · rename_i hn
      rcases hc c hcm with h | h
      · exact absurd h hn
      · rw [hmap c h]
  by_cases hsame : s1.vals.length = E.values.length
  · -- the fast path: the source's data is shared
    have hb : (s1.vals.length == E.values.length) = true := by simpa using hsame
    refine ⟨{ data := E.data, values := s1.vals, strict := false, dataShared := true, src := E, writes := 0 },
      ?_, rfl, rfl, hvals, rfl, ?_, ?_, fun _ => rfl⟩
    · simp [EUFn.run, canonEUpper, EULen.eval, r1, hb, EURet.eval, a1, c1]
    · show E.data = _
      have hid : ∀ c ∈ E.data, remapCode up E.values c = c := by
        intro c hcm
        rw [hf c hcm]
        split
        · rename_i h; exact h.symm
        · rename_i hn
          rcases hc c hcm with h | h
          · exact absurd h hn
          · have := inv.ident hsame c h
            rw [getElem!_pos s1.mapping c (by omega)]
            have h2 : s1.mapping[c]? = some s1.mapping[c] := List.getElem?_eq_getElem (by omega)
            rw [h2] at this
            exact Option.some.inj this
      conv => lhs; rw [← List.map_id E.data]
      exact List.map_congr_left (fun c hcm => (hid c hcm).symm)
    · rw [← hvals]; simp [hsame]
  · have hb : (s1.vals.length == E.values.length) = false := by simpa using hsame
    obtain ⟨s2, r2, a2, b2, c2, d2⟩ := eu_loop2 up E (remapCode up E.values) E.data.length 0
      { s1 with nd := .own (List.replicate E.data.length 0) } (List.replicate E.data.length 0) rfl (by simp) a1 (by simp) (by simp)
      (by intro c hcm; rcases hc c hcm with h | h; exact .inl h; exact .inr (by show c < s1.mapping.length; omega)) hf
    refine ⟨{ data := E.data.map (remapCode up E.values), values := s1.vals, strict := false, dataShared := false, src := E, writes := 0 },
      ?_, rfl, rfl, hvals, rfl, rfl, ?_, fun h => by cases h⟩
    · simp only [EUFn.run, canonEUpper, EULen.eval, r1, hb, Option.map_some, Bool.false_eq_true, ↓reduceIte]
      rw [r2]
      simp [EURet.eval, d2, a2, b2, c2, c1]
    · rw [← hvals]
      constructor
      · intro h; cases h
      · intro h; exact absurd h hsame

end QF.Props.C06FApplyGen
