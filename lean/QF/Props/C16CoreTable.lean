import QF.Props.C16CoreFlags
import QF.Props.C16Tables
/-!
# C16 — the Ryu core: the hypothesis of `ryu_shortest_partial` without machine arithmetic

`shape_check*` (kernel-checked for all 2048 exponent fields): the shift passed to `mulShift64` is in `[64, 128)`, the halves
of the multiplier are 64-bit, and the multiplier is below `2^(shift+7)`. Hence (`mulShift64_table`) every `mulShift64` call
of step 3 returns `⌊m · multiplier / 2^shift⌋` exactly, and the hypothesis of `ryu_shortest_partial` becomes a statement
about the table entries only (`ryu_shortest_of_table_precision`). `table_index_in_range`, `mulVal_pos`, `mulVal_neg` say which
numbers these entries are (`C16Tables`).
-/
namespace QF.Props.C16Core
open QF.Ryu64

/-! ## the hypothesis of `ryu_shortest_partial` without machine arithmetic -/

/-- the 128-bit multiplier as a number -/
def mulVal (exp : Nat) : Nat := (mulOf exp).2 * 2 ^ 64 + (mulOf exp).1

def shapeOf (mul : Nat × Nat) (sh : Int) : Bool :=
  match mul, sh with
  | (lo, hi), .ofNat s => decide (64 ≤ s) && decide (s < 128) && decide (lo < 2 ^ 64) && decide (hi < 2 ^ 64) &&
      decide (hi * 2 ^ 64 + lo < 2 ^ (s + 7))
  | _, _ => false

/-- shape of the multiplier and the shift for one exponent field: the shift is in the range `shiftRight128` supports, the two
halves are 64-bit, and the multiplier is below `2^(shift+7)` (so that products with a 56-bit factor fit into 64 bits after the shift) -/
def shapeOk (exp : Nat) : Bool := shapeOf (mulOf exp) (shiftOf exp)

theorem shape_check0 : ((List.range 256).map (fun i => i + 0)).all shapeOk = true := by decide +kernel
theorem shape_check1 : ((List.range 256).map (fun i => i + 256)).all shapeOk = true := by decide +kernel
theorem shape_check2 : ((List.range 256).map (fun i => i + 512)).all shapeOk = true := by decide +kernel
theorem shape_check3 : ((List.range 256).map (fun i => i + 768)).all shapeOk = true := by decide +kernel
theorem shape_check4 : ((List.range 256).map (fun i => i + 1024)).all shapeOk = true := by decide +kernel
theorem shape_check5 : ((List.range 256).map (fun i => i + 1280)).all shapeOk = true := by decide +kernel
theorem shape_check6 : ((List.range 256).map (fun i => i + 1536)).all shapeOk = true := by decide +kernel
theorem shape_check7 : ((List.range 256).map (fun i => i + 1792)).all shapeOk = true := by decide +kernel

theorem chunk_lift {p : Nat → Bool} {c : Nat} (h : ((List.range 256).map (fun i => i + c)).all p = true) (e : Nat)
    (h1 : c ≤ e) (h2 : e < c + 256) : p e = true :=
  List.all_eq_true.mp h e (List.mem_map.mpr ⟨e - c, List.mem_range.mpr (by omega), by omega⟩)

theorem shape_of_exp (exp : Nat) (he : exp < 2048) : shapeOk exp = true := by
  by_cases h0 : exp < 256
  · exact chunk_lift shape_check0 exp (by omega) (by omega)
  by_cases h1 : exp < 512
  · exact chunk_lift shape_check1 exp (by omega) (by omega)
  by_cases h2 : exp < 768
  · exact chunk_lift shape_check2 exp (by omega) (by omega)
  by_cases h3 : exp < 1024
  · exact chunk_lift shape_check3 exp (by omega) (by omega)
  by_cases h4 : exp < 1280
  · exact chunk_lift shape_check4 exp (by omega) (by omega)
  by_cases h5 : exp < 1536
  · exact chunk_lift shape_check5 exp (by omega) (by omega)
  by_cases h6 : exp < 1792
  · exact chunk_lift shape_check6 exp (by omega) (by omega)
  · exact chunk_lift shape_check7 exp (by omega) (by omega)

/-- With the multipliers and shifts the code uses, `mulShift64` is the exact floor `⌊m · multiplier / 2^shift⌋` for every
factor `m < 2^56` (all of `mv`, `mp`, `mm`): `mulShift64_exact` applies for every exponent field. -/
theorem mulShift64_table (exp m : Nat) (he : exp < 2048) (hm : m < 2 ^ 56) :
    mulShift64 m (mulOf exp) (shiftOf exp) = m * mulVal exp / 2 ^ (shiftOf exp).toNat := by
  have hs := shape_of_exp exp he
  unfold shapeOk shapeOf at hs
  unfold mulVal
  rcases hmul : mulOf exp with ⟨lo, hi⟩
  rw [hmul] at hs
  cases hsh : shiftOf exp with
  | negSucc n => rw [hsh] at hs; simp at hs
  | ofNat s =>
    rw [hsh] at hs
    simp only [Bool.and_eq_true, decide_eq_true_eq] at hs
    obtain ⟨⟨⟨⟨a, b⟩, c⟩, d⟩, e⟩ := hs
    show mulShift64 m (lo, hi) ((s : Nat) : Int) = m * (hi * 2 ^ 64 + lo) / 2 ^ s
    apply mulShift64_exact m lo hi s (Nat.lt_trans hm (by decide)) c d a b
    rw [Nat.div_lt_iff_lt_mul (Nat.two_pow_pos s)]
    by_cases hm0 : m = 0
    · subst hm0; rw [Nat.zero_mul]; exact Nat.mul_pos (by decide) (Nat.two_pow_pos s)
    · have h1 : m * (hi * 2 ^ 64 + lo) < 2 ^ 56 * 2 ^ (s + 7) :=
        Nat.mul_lt_mul_of_lt_of_le hm (Nat.le_of_lt e) (Nat.two_pow_pos _)
      have h2 : (2 : Nat) ^ 56 * 2 ^ (s + 7) ≤ 2 ^ 64 * 2 ^ s := by
        rw [← Nat.pow_add, ← Nat.pow_add]; exact Nat.pow_le_pow_right (by decide) (by omega)
      exact Nat.lt_of_lt_of_le h1 h2

/-- The hypothesis of `ryu_shortest_partial` reduced to pure arithmetic about the table entries: it suffices that for the three
factors `m ∈ {mv, mp, mm}` of the float, `⌊m · multiplier / 2^shift⌋ = ⌊m · N / D⌋` (no 64-bit arithmetic left). -/
theorem ryu_shortest_of_table_precision (mant exp : Nat) (hm : mant < 2 ^ 52) (he : exp < 2047) (hnz : mant ≠ 0 ∨ exp ≠ 0)
    (P : ∀ m, (m = mvOf (decodeM2 mant exp) ∨ m = mpOf (decodeM2 mant exp) ∨
          m = mmOf (decodeM2 mant exp) (mmShiftOf mant exp)) →
        m * mulVal exp / 2 ^ (shiftOf exp).toNat = m * scaleNum exp / scaleDen exp) :
    ∃ k : Nat, (float64ToDecimal mant exp).e = e10Of exp + (k : Int) ∧
      Spec (mmOf (decodeM2 mant exp) (mmShiftOf mant exp) * scaleNum exp) (mvOf (decodeM2 mant exp) * scaleNum exp)
        (mpOf (decodeM2 mant exp) * scaleNum exp) (scaleDen exp) (acceptBoundsOf mant exp)
        (float64ToDecimal mant exp).m k := by
  obtain ⟨hm1, hm2⟩ := decodeM2_range mant exp hm hnz
  have hs := mmShiftOf_le mant exp
  have emv := (mv_mp_eq _ hm2).1
  have emp := (mv_mp_eq _ hm2).2
  have emm := mm_eq _ _ (by omega) hm2 hs
  have he' : exp < 2048 := by omega
  apply ryu_shortest_partial mant exp hm he hnz
  · rw [mulShift64_table exp _ he' (by rw [emv]; omega)]; exact P _ (Or.inl rfl)
  · rw [mulShift64_table exp _ he' (by rw [emp]; omega)]; exact P _ (Or.inr (Or.inl rfl))
  · rw [mulShift64_table exp _ he' (by rw [emm]; omega)]; exact P _ (Or.inr (Or.inr rfl))


set_option exponentiation.threshold 1100 in
/-- the table look-ups of step 3 are inside the tables for every exponent field: `q < 292` for `e2 ≥ 0`, `i = −e2 − q < 326` for `e2 < 0` -/
theorem table_index_in_range (exp : Nat) (he : exp < 2047) :
    (decodeE2 exp ≥ 0 → qOf exp < 292) ∧ (¬ decodeE2 exp ≥ 0 → (-decodeE2 exp - (qOf exp : Int)).toNat < 326) := by
  constructor
  · intro h
    have hexp : 1077 ≤ exp := by
      apply Nat.le_of_not_lt; intro hlt
      rw [decodeE2_neg exp hlt] at h; split at h <;> omega
    have he2 := decodeE2_pos exp hexp
    obtain ⟨a, _, _⟩ := posScale (exp - 1077) (by omega)
    have hq : qOf exp = subU32 (log10Pow2 ((exp - 1077 : Nat) : Int)) (boolToNat (decide (((exp - 1077 : Nat) : Int) > 3))) := by
      unfold qOf; rw [if_pos h, he2]
    rw [← hq] at a
    apply Nat.lt_of_not_le; intro hge
    have h1 : 10 ^ 292 ≤ 10 ^ qOf exp := Nat.pow_le_pow_right (by decide) hge
    have h2 : 2 ^ (exp - 1077) ≤ 2 ^ 969 := Nat.pow_le_pow_right (by decide) (by omega)
    have h3 : (2 : Nat) ^ 969 < 10 ^ 292 := by decide +kernel
    exact absurd (Nat.le_trans h1 (Nat.le_trans a h2)) (Nat.not_le_of_lt h3)
  · intro h
    have hexp : exp < 1077 := by
      apply Nat.lt_of_not_le; intro hge
      rw [decodeE2_pos exp hge] at h; omega
    have he2 := decodeE2_neg exp hexp
    have hn1 : 1 ≤ (if exp = 0 then 1076 else 1077 - exp) := by split <;> omega
    have hn2 : (if exp = 0 then 1076 else 1077 - exp) ≤ 1076 := by split <;> omega
    have hq : qOf exp = subU32 (log10Pow5 (((if exp = 0 then 1076 else 1077 - exp : Nat)) : Int))
        (boolToNat (decide ((((if exp = 0 then 1076 else 1077 - exp : Nat)) : Int) > 1))) := by
      unfold qOf; rw [if_neg h, he2, Int.neg_neg]
    rw [he2, Int.neg_neg]
    generalize (if exp = 0 then 1076 else 1077 - exp) = n at *
    obtain ⟨a, _, c, _⟩ := negScale n hn1 (by omega)
    rw [← hq] at a c
    generalize qOf exp = q at *
    have hi : ((n : Int) - (q : Int)).toNat = n - q := by omega
    rw [hi]
    apply Nat.lt_of_not_le; intro hge
    -- 10^(n-q) = 5^(n-q) · 2^(n-q) < 100 · 2^q · 2^(n-q) = 100 · 2^n ≤ 100 · 2^1076 < 10^326
    have h1 : 10 ^ 326 ≤ 10 ^ (n - q) := Nat.pow_le_pow_right (by decide) hge
    have h2 : (10 : Nat) ^ (n - q) = 5 ^ (n - q) * 2 ^ (n - q) := by rw [← Nat.mul_pow]
    have h3 : 5 ^ (n - q) * 2 ^ (n - q) < 100 * 2 ^ q * 2 ^ (n - q) :=
      Nat.mul_lt_mul_of_lt_of_le c (Nat.le_refl _) (Nat.two_pow_pos _)
    have h4 : 100 * 2 ^ q * 2 ^ (n - q) = 100 * 2 ^ n := by
      rw [Nat.mul_assoc, ← Nat.pow_add]; congr 2; omega
    have h5 : 2 ^ n ≤ 2 ^ 1076 := Nat.pow_le_pow_right (by decide) hn2
    have h6 : 100 * (2 : Nat) ^ 1076 < 10 ^ 326 := by decide +kernel
    have h7 : 100 * 2 ^ n ≤ 100 * 2 ^ 1076 := Nat.mul_le_mul_left 100 h5
    rw [h2] at h1
    rw [h4] at h3
    exact absurd (Nat.lt_of_le_of_lt h1 (Nat.lt_of_lt_of_le h3 h7)) (Nat.lt_asymm h6)

/-- what the multiplier is (from `C16Tables`): for `e2 ≥ 0` it is `⌊2^(bitlen(5^q) − 1 + 122) / 5^q⌋ + 1` with `q = qOf exp` -/
theorem mulVal_pos (exp : Nat) (h : decodeE2 exp ≥ 0) (hq : qOf exp < 292) :
    mulVal exp = 2 ^ (QF.Props.C16.bitlen (5 ^ qOf exp) - 1 + 122) / 5 ^ qOf exp + 1 := by
  have hc := all_range_lift QF.Props.C16.pow5InvSplit64_correct (qOf exp) hq
  unfold QF.Props.C16.invOk QF.Props.C16.val at hc
  rw [beq_iff_eq, Array.getElem!_eq_getD] at hc
  unfold mulVal mulOf
  rw [if_pos h, ← hc, Nat.add_comm]
  rfl

/-- for `e2 < 0` it is `⌊5^i · 2^121 / 2^bitlen(5^i)⌋` with `i = −e2 − q` -/
theorem mulVal_neg (exp : Nat) (h : ¬ decodeE2 exp ≥ 0) (hi : (-decodeE2 exp - (qOf exp : Int)).toNat < 326) :
    mulVal exp = 5 ^ (-decodeE2 exp - (qOf exp : Int)).toNat * 2 ^ 121 /
      2 ^ QF.Props.C16.bitlen (5 ^ (-decodeE2 exp - (qOf exp : Int)).toNat) := by
  have hc := all_range_lift QF.Props.C16.pow5Split64_correct _ hi
  unfold QF.Props.C16.splitOk QF.Props.C16.val at hc
  rw [beq_iff_eq, Array.getElem!_eq_getD] at hc
  unfold mulVal mulOf
  rw [if_neg h, ← hc, Nat.add_comm]
  rfl

end QF.Props.C16Core
