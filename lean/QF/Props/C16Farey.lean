/-!
# C16 — the arithmetic behind Ryu's precision lemma

Pure number theory, no tables.

* `farey_lo` / `farey_hi`: let `k1/m1 ≤ a/b < k2/m2` be neighbours in the Stern–Brocot tree (`k2·m1 − k1·m2 = 1`) with residues
  `d1 = m1·a − k1·b ≥ 0` and `d2 = k2·b − m2·a > 0`. Then for EVERY multiplier `1 ≤ m < m1 + m2` the residue `m·a mod b` is
  `x·d1 + y·d2` with `x ≥ 1`, `y ≥ 0`, `x·m1 = m + y·m2`, and its complement `b − m·a mod b` is `x·d1 + y·d2` with `y ≥ 1`, `x ≥ 0`,
  `y·m2 = m + x·m1`. In particular `d1 ≤ m·a mod b ≤ b − d2` (the bounds Ulf Adams' `minmax_euclid` computes), and the
  multipliers whose residue is within a small multiple of the bound are explicitly known (`m1, 2·m1, …` resp. `m2, 2·m2, …`).
  A pair `(m1, k1, m2, k2)` is a certificate that is checked with four multiplications; how it was found is irrelevant.
* `floor_up` / `floor_down`: `⌊m·μ/P⌋ = ⌊m·N/D⌋` if `μ/P` approximates `N/D` from above (below) and the accumulated error
  `m·|μ·D − N·P|` is smaller than the distance of `m·N` to the next (previous) multiple of `D`, times `P`.
* `certOk` / `certOk_sound`: the check of one certificate for one scale `N/D`, multiplier `μ`, `P = 2^shift` and all `m < 2^55`:
  either the error bound alone suffices, or the only multipliers that can violate it are the first three multiples of `m1`
  (`m2`), which are then tested directly or are listed exceptions.
-/
namespace QF.Props.C16Core

/-! ## neighbours in the Stern–Brocot tree bound the residues `m·a mod b` -/

theorem farey_core_lo (a b m1 k1 m2 k2 m k r d1 d2 : Int)
    (hdet : k2 * m1 - k1 * m2 = 1) (hm1 : 0 ≤ m1) (hm2 : 0 ≤ m2)
    (e1 : m1 * a = k1 * b + d1) (e2 : k2 * b = m2 * a + d2)
    (hd2 : 0 < d2) (hb : 0 < b)
    (hr : m * a = b * k + r) (hr0 : 0 ≤ r) (hm : 1 ≤ m) (hlt : m < m1 + m2) :
    ∃ x y : Int, 1 ≤ x ∧ 0 ≤ y ∧ x * m1 = m + y * m2 ∧ r = x * d1 + y * d2 := by
  have hx : 1 ≤ k2 * m - m2 * k := by
    have h1 : b * (k2 * m - m2 * k) = m * d2 + m2 * r := by grind
    have h2 : 0 < m * d2 := Int.mul_pos (by omega) hd2
    have h3 : 0 ≤ m2 * r := Int.mul_nonneg hm2 hr0
    apply Classical.byContradiction; intro hx
    have h4 : b * (k2 * m - m2 * k) ≤ 0 := Int.mul_nonpos_of_nonneg_of_nonpos (by omega) (by omega)
    omega
  refine ⟨k2 * m - m2 * k, k1 * m - m1 * k, hx, ?_, by grind, by grind⟩
  apply Classical.byContradiction; intro hy
  have h1 : m = (k2 * m - m2 * k) * m1 + (m1 * k - k1 * m) * m2 := by grind
  have h2 : 0 ≤ (k2 * m - m2 * k - 1) * m1 := Int.mul_nonneg (by omega) hm1
  have h3 : 0 ≤ (m1 * k - k1 * m - 1) * m2 := Int.mul_nonneg (by omega) hm2
  have h4 : (k2 * m - m2 * k - 1) * m1 = (k2 * m - m2 * k) * m1 - m1 := by grind
  have h5 : (m1 * k - k1 * m - 1) * m2 = (m1 * k - k1 * m) * m2 - m2 := by grind
  omega

theorem farey_core_hi (a b m1 k1 m2 k2 m k r' d1 d2 : Int)
    (hdet : k2 * m1 - k1 * m2 = 1) (hm1 : 0 < m1) (hm2 : 0 ≤ m2)
    (e1 : m1 * a = k1 * b + d1) (e2 : k2 * b = m2 * a + d2)
    (hd1 : 0 ≤ d1) (hb : 0 < b)
    (hr : m * a + r' = b * k) (hr0 : 0 < r') (hm : 1 ≤ m) (hlt : m < m1 + m2) :
    ∃ x y : Int, 0 ≤ x ∧ 1 ≤ y ∧ y * m2 = m + x * m1 ∧ r' = x * d1 + y * d2 := by
  have hy : 1 ≤ m1 * k - k1 * m := by
    have h1 : b * (m1 * k - k1 * m) = m * d1 + m1 * r' := by grind
    have h2 : 0 ≤ m * d1 := Int.mul_nonneg (by omega) hd1
    have h3 : 0 < m1 * r' := Int.mul_pos hm1 hr0
    apply Classical.byContradiction; intro hx
    have h4 : b * (m1 * k - k1 * m) ≤ 0 := Int.mul_nonpos_of_nonneg_of_nonpos (by omega) (by omega)
    omega
  refine ⟨m2 * k - k2 * m, m1 * k - k1 * m, ?_, hy, by grind, by grind⟩
  apply Classical.byContradiction; intro hx
  have h1 : m = (k2 * m - m2 * k) * m1 + (m1 * k - k1 * m) * m2 := by grind
  have h2 : 0 ≤ (k2 * m - m2 * k - 1) * m1 := Int.mul_nonneg (by omega) (by omega)
  have h3 : 0 ≤ (m1 * k - k1 * m - 1) * m2 := Int.mul_nonneg (by omega) hm2
  have h4 : (k2 * m - m2 * k - 1) * m1 = (k2 * m - m2 * k) * m1 - m1 := by grind
  have h5 : (m1 * k - k1 * m - 1) * m2 = (m1 * k - k1 * m) * m2 - m2 := by grind
  omega

/-- Residues from below: with `k1/m1 ≤ a/b < k2/m2`, `k2·m1 = k1·m2 + 1`, `d1 = m1·a − k1·b`, `d2 = k2·b − m2·a > 0`, every
`1 ≤ m < m1 + m2` has `m·a mod b = x·d1 + y·d2` with `x ≥ 1` and `x·m1 = m + y·m2` (so `m·a mod b ≥ d1`). -/
theorem farey_lo (a b m1 k1 m2 k2 d1 d2 m : Nat)
    (hdet : k2 * m1 = k1 * m2 + 1) (e1 : m1 * a = k1 * b + d1) (e2 : k2 * b = m2 * a + d2)
    (hd2 : 0 < d2) (hb : 0 < b) (hm : 1 ≤ m) (hlt : m < m1 + m2) :
    ∃ x y : Nat, 1 ≤ x ∧ x * m1 = m + y * m2 ∧ m * a % b = x * d1 + y * d2 := by
  have hr := Nat.div_add_mod (m * a) b
  obtain ⟨x, y, hx, hy, h1, h2⟩ := farey_core_lo (a : Int) b m1 k1 m2 k2 m ((m * a / b : Nat) : Int)
    ((m * a % b : Nat) : Int) d1 d2
    (by have := congrArg (Int.ofNat) hdet; simp only [Int.ofNat_eq_natCast] at this; push_cast at this; omega)
    (by omega) (by omega) (by exact_mod_cast e1) (by exact_mod_cast e2) (by omega) (by omega)
    (by exact_mod_cast hr.symm) (by omega) (by omega) (by omega)
  obtain ⟨x', rfl⟩ := Int.eq_ofNat_of_zero_le (by omega : 0 ≤ x)
  obtain ⟨y', rfl⟩ := Int.eq_ofNat_of_zero_le hy
  exact ⟨x', y', by omega, by exact_mod_cast h1, by exact_mod_cast h2⟩

/-- Residues from above: under the same hypotheses (`d2 = 0` allowed) every `1 ≤ m < m1 + m2` has
`b − m·a mod b = x·d1 + y·d2` with `y ≥ 1` and `y·m2 = m + x·m1` (so `m·a mod b ≤ b − d2`). -/
theorem farey_hi (a b m1 k1 m2 k2 d1 d2 m : Nat)
    (hdet : k2 * m1 = k1 * m2 + 1) (e1 : m1 * a = k1 * b + d1) (e2 : k2 * b = m2 * a + d2)
    (hb : 0 < b) (hm : 1 ≤ m) (hlt : m < m1 + m2) :
    ∃ x y : Nat, 1 ≤ y ∧ y * m2 = m + x * m1 ∧ m * a % b + (x * d1 + y * d2) = b := by
  have hr := Nat.div_add_mod (m * a) b
  have hlt' := Nat.mod_lt (m * a) hb
  have hm1 : 0 < m1 := by
    apply Nat.pos_of_ne_zero; intro h; subst h; simp at hdet
  obtain ⟨x, y, hx, hy, h1, h2⟩ := farey_core_hi (a : Int) b m1 k1 m2 k2 m ((m * a / b + 1 : Nat) : Int)
    ((b - m * a % b : Nat) : Int) d1 d2
    (by have := congrArg (Int.ofNat) hdet; simp only [Int.ofNat_eq_natCast] at this; push_cast at this; omega)
    (by omega) (by omega) (by exact_mod_cast e1) (by exact_mod_cast e2) (by omega) (by omega)
    (by
      have : m * a + (b - m * a % b) = b * (m * a / b + 1) := by rw [Nat.mul_add, Nat.mul_one]; omega
      exact_mod_cast this)
    (by omega) (by omega) (by omega)
  obtain ⟨x', rfl⟩ := Int.eq_ofNat_of_zero_le hx
  obtain ⟨y', rfl⟩ := Int.eq_ofNat_of_zero_le (by omega : 0 ≤ y)
  refine ⟨x', y', by omega, by exact_mod_cast h1, ?_⟩
  have : b - m * a % b = x' * d1 + y' * d2 := by exact_mod_cast h2
  omega

/-- the classical bounds (what `minmax_euclid` of the Ryu sources computes): `d1 ≤ m·a mod b ≤ b − d2` for `1 ≤ m < m1 + m2` -/
theorem farey_bounds (a b m1 k1 m2 k2 d1 d2 m : Nat)
    (hdet : k2 * m1 = k1 * m2 + 1) (e1 : m1 * a = k1 * b + d1) (e2 : k2 * b = m2 * a + d2)
    (hd2 : 0 < d2) (hb : 0 < b) (hm : 1 ≤ m) (hlt : m < m1 + m2) :
    d1 ≤ m * a % b ∧ m * a % b + d2 ≤ b := by
  obtain ⟨x, y, hx, _, h⟩ := farey_lo a b m1 k1 m2 k2 d1 d2 m hdet e1 e2 hd2 hb hm hlt
  obtain ⟨x', y', hy', _, h'⟩ := farey_hi a b m1 k1 m2 k2 d1 d2 m hdet e1 e2 hb hm hlt
  have h1 : d1 ≤ x * d1 := Nat.le_mul_of_pos_left d1 hx
  have h2 : d2 ≤ y' * d2 := Nat.le_mul_of_pos_left d2 hy'
  omega

/-! ## two floors agree when the accumulated error is below the distance to the next multiple -/

/-- approximation from above: `μ/P ≥ N/D`, error `δ = μ·D − N·P`; the floors agree if `m·δ < (D − m·N mod D)·P` -/
theorem floor_up (m μ P N D δ ρ' : Nat) (hD : 0 < D)
    (hδ : μ * D = N * P + δ) (hρ : m * N % D + ρ' = D) (herr : m * δ < ρ' * P) :
    m * μ / P = m * N / D := by
  have hdm := Nat.div_add_mod (m * N) D
  generalize m * N / D = K at *
  generalize m * N % D = ρ at *
  apply Nat.div_eq_of_lt_le
  · apply Nat.le_of_mul_le_mul_right _ hD
    have h1 : K * P * D = (D * K) * P := by grind
    have h2 : m * μ * D = m * N * P + m * δ := by grind
    have h3 : (D * K) * P ≤ m * N * P := Nat.mul_le_mul_right P (by omega)
    omega
  · apply Nat.lt_of_mul_lt_mul_right (a := D)
    have h2 : m * μ * D = m * N * P + m * δ := by grind
    have h3 : m * N * P = (D * K) * P + ρ * P := by rw [← hdm]; grind
    have h4 : (K + 1) * P * D = (D * K) * P + ρ * P + ρ' * P := by rw [← hρ]; grind
    omega

/-- approximation from below: `μ/P ≤ N/D`, error `δ = N·P − μ·D`; the floors agree if `m·δ ≤ (m·N mod D)·P` -/
theorem floor_down (m μ P N D δ : Nat) (hD : 0 < D) (hP : 0 < P)
    (hδ : μ * D + δ = N * P) (herr : m * δ ≤ (m * N % D) * P) :
    m * μ / P = m * N / D := by
  have hdm := Nat.div_add_mod (m * N) D
  have hlt := Nat.mod_lt (m * N) hD
  generalize m * N / D = K at *
  generalize m * N % D = ρ at *
  apply Nat.div_eq_of_lt_le
  · apply Nat.le_of_mul_le_mul_right _ hD
    have h1 : K * P * D = (D * K) * P := by grind
    have h2 : m * μ * D + m * δ = m * N * P := by grind
    have h3 : m * N * P = (D * K) * P + ρ * P := by rw [← hdm]; grind
    omega
  · apply Nat.lt_of_mul_lt_mul_right (a := D)
    have h2 : m * μ * D + m * δ = m * N * P := by grind
    have h3 : m * N * P = (D * K) * P + ρ * P := by rw [← hdm]; grind
    have h4 : (K + 1) * P * D = (D * K) * P + D * P := by grind
    have h5 : ρ * P < D * P := Nat.mul_lt_mul_of_pos_right hlt hP
    omega

/-! ## the certificate check for one exponent -/

/-- a candidate multiplier is harmless: out of range, a listed exception, or the two floors agree at it -/
def candOk (N D μ P : Nat) (exc : Nat → Bool) (c : Nat) : Bool :=
  decide (2 ^ 55 ≤ c) || exc c || (c * μ / P == c * N / D)

/-- Check of the certificate `(m1, k1, m2, k2)` for the scale `N/D`, the multiplier `μ`, `P = 2^shift` and all `m < 2^55`.
The pair must be Stern–Brocot neighbours around `N/D` with `m1 + m2 ≥ 2^55`. With `T = (2^55 − 1)·|μ·D − N·P|` (the largest
accumulated error): approximation from above needs `T < d2·P`, from below `T ≤ d1·P`. If that fails, the weaker
`T < (d1 + d2)·P` and `T < 4·d2·P` (resp. `4·d1·P`) leave only `m2, 2·m2, 3·m2` (resp. multiples of `m1`) as possible
violations, and these are tested one by one (`candOk`). -/
def certOk (N D μ P : Nat) (exc : Nat → Bool) (m1 k1 m2 k2 : Nat) : Bool :=
  let d1 := m1 * N - k1 * D
  let d2 := k2 * D - m2 * N
  k2 * m1 == k1 * m2 + 1 && decide (k1 * D ≤ m1 * N) && decide (m2 * N < k2 * D) && decide (2 ^ 55 ≤ m1 + m2) &&
  decide (0 < D) && decide (0 < P) &&
  (if N * P ≤ μ * D then
     let T := (2 ^ 55 - 1) * (μ * D - N * P)
     decide (T < d2 * P) ||
     (decide (T < (d1 + d2) * P) && decide (T < 4 * d2 * P) &&
       candOk N D μ P exc m2 && candOk N D μ P exc (2 * m2) && candOk N D μ P exc (3 * m2))
   else
     let T := (2 ^ 55 - 1) * (N * P - μ * D)
     decide (T ≤ d1 * P) ||
     (decide (T < (d1 + d2) * P) && decide (T < 4 * d1 * P) &&
       candOk N D μ P exc m1 && candOk N D μ P exc (2 * m1) && candOk N D μ P exc (3 * m1)))

theorem candOk_use {N D μ P : Nat} {exc : Nat → Bool} {c : Nat} (h : candOk N D μ P exc c = true)
    (hc : c < 2 ^ 55) (hx : exc c = false) : c * μ / P = c * N / D := by
  unfold candOk at h
  simp only [Bool.or_eq_true, decide_eq_true_eq, beq_iff_eq] at h
  rcases h with (h | h) | h
  · omega
  · rw [hx] at h; cases h
  · exact h

/-- A certificate that passes `certOk` proves the floor identity for every `m < 2^55` that is not a listed exception. -/
theorem certOk_sound (N D μ P : Nat) (exc : Nat → Bool) (m1 k1 m2 k2 : Nat)
    (h : certOk N D μ P exc m1 k1 m2 k2 = true) (m : Nat) (hm : m < 2 ^ 55) (hx : exc m = false) :
    m * μ / P = m * N / D := by
  by_cases hm0 : m = 0
  · subst hm0; simp
  unfold certOk at h
  simp only [Bool.and_eq_true, beq_iff_eq, decide_eq_true_eq] at h
  obtain ⟨⟨⟨⟨⟨⟨hdet, h1⟩, h2⟩, hM⟩, hD⟩, hP⟩, hcase⟩ := h
  have e1 : m1 * N = k1 * D + (m1 * N - k1 * D) := by omega
  have e2 : k2 * D = m2 * N + (k2 * D - m2 * N) := by omega
  have hd2 : 0 < k2 * D - m2 * N := by omega
  generalize m1 * N - k1 * D = d1 at *
  generalize k2 * D - m2 * N = d2 at *
  have hmT : ∀ δ, m * δ ≤ (2 ^ 55 - 1) * δ := fun δ => Nat.mul_le_mul_right δ (by omega)
  split at hcase
  · -- approximation from above
    rename_i hge
    have hδ : μ * D = N * P + (μ * D - N * P) := by omega
    generalize μ * D - N * P = δ at *
    obtain ⟨x, y, hy, hxy, hρ⟩ := farey_hi N D m1 k1 m2 k2 d1 d2 m hdet e1 e2 hD (by omega) (by omega)
    by_cases herr : m * δ < (x * d1 + y * d2) * P
    · exact floor_up m μ P N D δ _ hD hδ hρ herr
    · have hT := hmT δ
      have hyd : d2 ≤ y * d2 := Nat.le_mul_of_pos_left d2 hy
      have hge2 : d2 * P ≤ (x * d1 + y * d2) * P := Nat.mul_le_mul_right P (by omega)
      simp only [Bool.or_eq_true, Bool.and_eq_true, decide_eq_true_eq] at hcase
      rcases hcase with hc | ⟨⟨⟨⟨c1, c2⟩, c3⟩, c4⟩, c5⟩
      · omega
      · -- x = 0
        have hx0 : x = 0 := by
          apply Classical.byContradiction; intro hx0
          have : d1 ≤ x * d1 := Nat.le_mul_of_pos_left d1 (by omega)
          have : (d1 + d2) * P ≤ (x * d1 + y * d2) * P := Nat.mul_le_mul_right P (by omega)
          omega
        subst hx0
        -- y ≤ 3
        have hy3 : y < 4 := by
          apply Nat.lt_of_not_le; intro hy4
          have h4 : 4 * d2 ≤ y * d2 := Nat.mul_le_mul_right d2 hy4
          have : 4 * d2 * P ≤ (0 * d1 + y * d2) * P := Nat.mul_le_mul_right P (by omega)
          omega
        have hmy : m = y * m2 := by omega
        have : y = 1 ∨ y = 2 ∨ y = 3 := by omega
        rcases this with rfl | rfl | rfl
        · rw [Nat.one_mul] at hmy; subst hmy; exact candOk_use c3 hm hx
        · subst hmy; exact candOk_use c4 hm hx
        · subst hmy; exact candOk_use c5 hm hx
  · -- approximation from below
    rename_i hlt
    have hδ : μ * D + (N * P - μ * D) = N * P := by omega
    generalize N * P - μ * D = δ at *
    obtain ⟨x, y, hx1, hxy, hρ⟩ := farey_lo N D m1 k1 m2 k2 d1 d2 m hdet e1 e2 hd2 hD (by omega) (by omega)
    by_cases herr : m * δ ≤ (m * N % D) * P
    · exact floor_down m μ P N D δ hD hP hδ herr
    · rw [hρ] at herr
      have hT := hmT δ
      have hxd : d1 ≤ x * d1 := Nat.le_mul_of_pos_left d1 hx1
      have hge2 : d1 * P ≤ (x * d1 + y * d2) * P := Nat.mul_le_mul_right P (by omega)
      simp only [Bool.or_eq_true, Bool.and_eq_true, decide_eq_true_eq] at hcase
      rcases hcase with hc | ⟨⟨⟨⟨c1, c2⟩, c3⟩, c4⟩, c5⟩
      · omega
      · have hy0 : y = 0 := by
          apply Classical.byContradiction; intro hy0
          have : d2 ≤ y * d2 := Nat.le_mul_of_pos_left d2 (by omega)
          have : (d1 + d2) * P ≤ (x * d1 + y * d2) * P := Nat.mul_le_mul_right P (by omega)
          omega
        subst hy0
        have hx3 : x < 4 := by
          apply Nat.lt_of_not_le; intro hx4
          have h4 : 4 * d1 ≤ x * d1 := Nat.mul_le_mul_right d1 hx4
          have : 4 * d1 * P ≤ (x * d1 + 0 * d2) * P := Nat.mul_le_mul_right P (by omega)
          omega
        have hmx : m = x * m1 := by omega
        have : x = 1 ∨ x = 2 ∨ x = 3 := by omega
        rcases this with rfl | rfl | rfl
        · rw [Nat.one_mul] at hmx; subst hmx; exact candOk_use c3 hm hx
        · subst hmx; exact candOk_use c4 hm hx
        · subst hmx; exact candOk_use c5 hm hx

end QF.Props.C16Core
