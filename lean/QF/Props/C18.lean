import QF.Core.Upper
/-!
# C18 — ilike's upper-casing

`toUpper_partial`: the custom `ToUpper` (first loop to the first changed rune, copying loop
with the single-byte shortcut and buffer growth) returns `map up s` for every string, every
case mapping `up` and every buffer size, **provided no rune's upper case is U+0080** — the
exclusion forced by `r <= utf8.RuneSelf`.
-/
namespace QF.Props.C18

theorem toUpper_partial (up : Char → Char) (bufLen : Nat) (s : List Char)
    (h : ∀ c, c ∈ s → (up c).val ≠ 128) : U.toUpper up bufLen s = U.spec up s :=
  U.toUpper_spec' up bufLen s h

end QF.Props.C18
