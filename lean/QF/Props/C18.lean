import QF.Props.Tie
import QF.Core.Upper
/-!
# C18 — ilike's upper-casing

`toUpper_spec`: the custom `ToUpper` (first loop to the first changed rune, copying loop with the single-byte
shortcut and buffer growth) returns `encode (map up s)` for every string, every case mapping `up` and every
buffer size. The mirror follows the code after the repair `r < utf8.RuneSelf`; with the original `<=` the theorem
needed the hypothesis that no rune's upper case is U+0080 (that was the defect).
-/
namespace QF.Props.C18

theorem toUpper_spec (up : Char → Char) (bufLen : Nat) (s : List Char) : U.toUpper up bufLen s = U.spec up s :=
  U.toUpper_spec' up bufLen s

/-- T1: the functions this property's mirror model follows have today the source text the model was written against.
`strings.NewMatcher` (and the `Matches` methods) are no longer compared as text: their meaning is regenerated as
`Gen.newMatcher` and proved equal to the mirror in `QF.Props.C18Matcher.gen_newmatcher_semantics`. -/
-- Tie audit (bin/selftest-ties): the following functions are not compared as text any more; every behaviour-changing edit of
-- them makes a `gen_*_canon` theorem of this property's modules fail, renaming their locals or reformatting them changes nothing:
-- `scolumn.regexFilter`, `ecolumn.filterLike`: `Gen.kernelAst` (kast.go), `C02Kernels.gen_like_canon` + `gen_kernel_semantics_like_string` / `gen_kernel_semantics_like_enum`.
-- (`strings.ToUpper` stays: `Gen.matcherUpper` is itself a hash of its text.)
-- ToUpper is regenerated in `Gen.stringsFns` (C18UpperGen.gen_toUpper_semantics); nothing of C18 is compared as text any more.
theorem tie : Tie.sameAll [] = true := by decide

end QF.Props.C18
