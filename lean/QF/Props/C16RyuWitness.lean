import QF.Props.C16RyuGen
/-!
# C16 — the regenerated Ryu core: witnesses

Plausible mutations of /repo/internal/ryu/ryu64.go, as the terms the translator produces for them (`mut…`; bin/selftest-ryu
makes the edits in a clone of the repository and checks that the translator indeed emits a different term and that the
theorems of C16RyuCanon / C16RyuGen fail). For each: the canonical-term check `Gen.ryuFns = canonFns` would fail
(`mut… ≠ canonFns`, and `gen_ryu_canon` says today's extraction is `canonFns`), and — where a float was found — a concrete
float64 on which the interpreted result differs from the mirror's, i.e. `gen_ryu_semantics` is false for the mutant.
-/
namespace QF.Props.C16RyuGen
open QF QF.RY

/-- `float64ToDecimal` with another step 3 and step 4 -/
def toDecimalWith (s3 s4 : S) : Fn := { params := 2, body := S.block (step12 ++ [s3] ++ step4Decls ++ [s4, retStmt]) }
def fnsWith (s3 s4 : S) : List (FnId × Fn) := (canonFns.take 1) ++ [(fToDecimal, toDecimalWith s3 s4)] ++ canonFns.drop 2

/-- the common case with other loops -/
def commonWith (c10 : E) (b10 : S) : S := S.scope (S.block [
  S.define 17 (E.bool false), common100, S.for (S.block []) c10 (S.block []) b10,
  S.assign 16 (E.bin AOp.add (E.var 8) (E.call1 fBoolToUint64 (E.or (E.cmp COp.eq (E.var 8) (E.var 10)) (E.var 17))))])
def generalWith (b1 : S) (fin : List S) : S := S.scope (S.block ([
  S.for (S.block []) (E.bool true) (S.block []) b1,
  S.ite (E.var 12) (S.scope (S.block [general2])) (S.scope (S.block []))] ++ fin))
def step4With (g c : S) : S := S.ite (E.or (E.var 12) (E.var 13)) g c

/-- `roundUp = vr%10 >= 5` → `> 5` -/
def mutRound := fnsWith step3Stmt (step4With generalPart (commonWith common10Cond (S.scope (S.block [
  S.assign 17 (E.cmp COp.gt (E.bin AOp.mod (E.var 8) (E.u 64 10)) (E.u 64 5)),
  S.assign 8 (E.bin AOp.div (E.var 8) (E.u 64 10)),
  S.assign 9 (E.bin AOp.div (E.var 9) (E.u 64 10)),
  S.assign 10 (E.bin AOp.div (E.var 10) (E.u 64 10)),
  S.assign 14 (E.bin AOp.add (E.var 14) (E.i 32 1))]))))
/-- `for vp/10 > vm/10` → `>=` -/
def mutLoop := fnsWith step3Stmt (step4With generalPart
  (commonWith (E.cmp COp.ge (E.bin AOp.div (E.var 9) (E.u 64 10)) (E.bin AOp.div (E.var 10) (E.u 64 10))) common10Body))
/-- `lastRemovedDigit >= 5` → `> 5` in the final decision of the general case -/
def mutLast := fnsWith step3Stmt (step4With (generalWith general1Body [
  S.ite (E.and (E.and (E.var 13) (E.cmp COp.eq (E.var 15) (E.u 8 5))) (E.cmp COp.eq (E.bin AOp.mod (E.var 8) (E.u 64 2)) (E.u 64 0)))
    (S.scope (S.block [S.assign 15 (E.u 8 4)])) (S.scope (S.block [])),
  S.assign 16 (E.var 8),
  S.ite (E.or (E.and (E.cmp COp.eq (E.var 8) (E.var 10)) (E.or (E.not (E.var 5)) (E.not (E.var 12)))) (E.cmp COp.gt (E.var 15) (E.u 8 5)))
    (S.scope (S.block [S.assign 16 (E.bin AOp.add (E.var 16) (E.u 64 1))])) (S.scope (S.block []))]) commonPart)
/-- the update of vmIsTrailingZeros in the first loop of the general case dropped -/
def mutDrop := fnsWith step3Stmt (step4With (generalWith (S.scope (S.block [
  S.define 17 (E.bin AOp.div (E.var 9) (E.u 64 10)),
  S.define 18 (E.bin AOp.div (E.var 10) (E.u 64 10)),
  S.ite (E.cmp COp.le (E.var 17) (E.var 18)) (S.scope (S.block [S.brk])) (S.scope (S.block [])),
  S.define 19 (E.bin AOp.mod (E.var 10) (E.u 64 10)),
  S.define 20 (E.bin AOp.div (E.var 8) (E.u 64 10)),
  S.define 21 (E.bin AOp.mod (E.var 8) (E.u 64 10)),
  S.assign 13 (E.and (E.var 13) (E.cmp COp.eq (E.var 15) (E.u 8 0))),
  S.assign 15 (E.toU 8 (E.var 21)),
  S.assign 8 (E.var 20),
  S.assign 9 (E.var 17),
  S.assign 10 (E.var 18),
  S.assign 14 (E.bin AOp.add (E.var 14) (E.i 32 1))])) generalFinish) commonPart)

/-- step 3 with other flags in the branch `e2 < 0` / another table index in the branch `e2 >= 0` -/
def negWith (fl : S) : S := S.scope (S.block [
  S.define 14 (E.bin AOp.sub (E.call1 fLog10Pow5 (E.neg (E.var 2))) (E.call1 fBoolToUint32 (E.cmp COp.gt (E.neg (E.var 2)) (E.i 32 1)))),
  S.assign 11 (E.bin AOp.add (E.toI 32 (E.var 14)) (E.var 2)),
  S.define 15 (E.bin AOp.sub (E.neg (E.var 2)) (E.toI 32 (E.var 14))),
  S.define 16 (E.bin AOp.sub (E.call1 fPow5Bits (E.var 15)) (E.i 32 121)),
  S.define 17 (E.bin AOp.sub (E.toI 32 (E.var 14)) (E.var 16)),
  S.define 18 (E.tbl Tbl.pow5Split (E.var 15)),
  S.assign 8 (E.call3 fMulShift eMv (E.var 18) (E.var 17)),
  S.assign 9 (E.call3 fMulShift eMp (E.var 18) (E.var 17)),
  S.assign 10 (E.call3 fMulShift eMm (E.var 18) (E.var 17)),
  fl])
def posWith (ix : E) : S := S.scope (S.block [
  S.define 14 (E.bin AOp.sub (E.call1 fLog10Pow2 (E.var 2)) (E.call1 fBoolToUint32 (E.cmp COp.gt (E.var 2) (E.i 32 3)))),
  S.assign 11 (E.toI 32 (E.var 14)),
  S.define 15 (E.bin AOp.sub (E.bin AOp.add (E.i 32 122) (E.call1 fPow5Bits (E.toI 32 (E.var 14)))) (E.i 32 1)),
  S.define 16 (E.bin AOp.add (E.bin AOp.add (E.neg (E.var 2)) (E.toI 32 (E.var 14))) (E.var 15)),
  S.define 17 (E.tbl Tbl.pow5InvSplit ix),
  S.assign 8 (E.call3 fMulShift eMv (E.var 17) (E.var 16)),
  S.assign 9 (E.call3 fMulShift eMp (E.var 17) (E.var 16)),
  S.assign 10 (E.call3 fMulShift eMm (E.var 17) (E.var 16)),
  posFlags])
def step3With (p n : S) : S := S.ite (E.cmp COp.ge (E.var 2) (E.i 32 0)) p n
/-- `multipleOfPowerOfTwo64(mv, q-1)` → `(mv, q)` -/
def mutQ := fnsWith (step3With posPart (negWith (
  S.ite (E.cmp COp.le (E.var 14) (E.u 32 1))
    (S.scope (S.block [
      S.assign 13 (E.bool true),
      S.ite (E.var 5)
        (S.scope (S.block [S.assign 12 (E.cmp COp.eq (E.var 7) (E.u 64 1))]))
        (S.scope (S.block [S.assign 9 (E.bin AOp.sub (E.var 9) (E.u 64 1))]))]))
    (S.scope (S.block [
      S.ite (E.cmp COp.lt (E.var 14) (E.u 32 63))
        (S.scope (S.block [S.assign 13 (E.call2 fMultipleOf2 (E.var 6) (E.var 14))]))
        (S.scope (S.block []))]))))) step4Stmt
/-- `pow5InvSplit64[q]` → `pow5InvSplit64[q-1]` -/
def mutIdx := fnsWith (step3With (posWith (E.bin AOp.sub (E.var 14) (E.u 32 1))) negPart) step4Stmt

/-- the reassembly with today's parts is today's program (the mutants below differ from it in one place each) -/
example : fnsWith step3Stmt step4Stmt = canonFns := by decide

/-! ## the canonical-term check fails for every mutant -/

example : mutRound ≠ canonFns := by decide
example : mutLoop ≠ canonFns := by decide
example : mutLast ≠ canonFns := by decide
example : mutDrop ≠ canonFns := by decide
example : mutQ ≠ canonFns := by decide
example : mutIdx ≠ canonFns := by decide

/-! ## concrete floats: the interpreted mutant and the mirror disagree (fields `mant`, `exp` of a finite non-zero float64) -/

/-- `vr%10 >= 5` → `> 5` (`mant = 2502704619872173`, `exp = 643`) -/
example : interpToDecimal mutRound T 64 2502704619872173 643 ≠ some ((Ryu64.float64ToDecimal 2502704619872173 643).m, (Ryu64.float64ToDecimal 2502704619872173 643).e) := by
  decide +kernel
/-- `vp/10 > vm/10` → `>=` -/
example : interpToDecimal mutLoop T 64 3062797560162830 610 ≠ some ((Ryu64.float64ToDecimal 3062797560162830 610).m, (Ryu64.float64ToDecimal 3062797560162830 610).e) := by
  decide +kernel
/-- `lastRemovedDigit >= 5` → `> 5` -/
example : interpToDecimal mutLast T 64 699536398209912 1069 ≠ some ((Ryu64.float64ToDecimal 699536398209912 1069).m, (Ryu64.float64ToDecimal 699536398209912 1069).e) := by
  decide +kernel
/-- the dropped `vmIsTrailingZeros` update -/
example : interpToDecimal mutDrop T 64 2850706605355368 1083 ≠ some ((Ryu64.float64ToDecimal 2850706605355368 1083).m, (Ryu64.float64ToDecimal 2850706605355368 1083).e) := by
  decide +kernel
/-- the table index `q` → `q-1` -/
example : interpToDecimal mutIdx T 64 693468515117552 1213 ≠ some ((Ryu64.float64ToDecimal 693468515117552 1213).m, (Ryu64.float64ToDecimal 693468515117552 1213).e) := by
  decide +kernel
/-- and today's program agrees with the mirror on these floats (instances of `gen_ryu_semantics`) -/
example : interpToDecimal canonFns T 64 2502704619872173 643 = some ((Ryu64.float64ToDecimal 2502704619872173 643).m, (Ryu64.float64ToDecimal 2502704619872173 643).e) := by
  decide +kernel

/-! ## the digit layout -/

/-- the list with another function in place `i` -/
def fnsAt (i : Nat) (fn : Fn) : List (FnId × Fn) := canonFns.take i ++ [(i, fn)] ++ canonFns.drop (i + 1)

/-- `sizeSlice`: `b[:len(b)+bufLen]` → `b[:len(b)+bufLen+1]` (one stale byte too many becomes visible) -/
def mutSize := fnsAt 17 { params := 2, body := S.block [
  S.ite (E.cmp COp.ge (E.bin AOp.sub (E.cap (E.var 0)) (E.len (E.var 0))) (E.var 1))
    (S.scope (S.block [S.ret (E.sliceTo (E.var 0) (E.bin AOp.add (E.bin AOp.add (E.len (E.var 0)) (E.var 1)) (E.i 64 1)))])) (S.scope (S.block [])),
  S.ret (E.appendS 7 (E.var 0) (E.makeBytes (E.var 1)))] }

/-- `appendF`, layout `XYZ000`: the zero fill writes `'1'` -/
def mutZero := fnsAt 14 { params := 3, body := S.block ([
  S.ite (E.var 2) (S.scope (S.block [S.assign 1 (E.append1 5 (E.var 1) (E.u 8 45))])) (S.scope (S.block [])),
  S.define 3 (E.field (E.var 0) 0),
  S.define 4 (E.call1 fDecimalLen (E.var 3)),
  S.define 5 (E.toI 64 (E.field (E.var 0) 1)),
  S.ite (E.cmp COp.ge (E.var 5) (E.i 64 0)) (S.scope (S.block [
    S.define 6 (E.len (E.var 1)),
    S.assign 1 (E.call2 fSizeSlice (E.var 1) (E.bin AOp.add (E.var 5) (E.var 4))),
    S.for (S.block [S.define 7 (E.var 6)]) (E.cmp COp.lt (E.var 7) (E.bin AOp.add (E.var 5) (E.var 6)))
      (S.block [S.assign 7 (E.bin AOp.add (E.var 7) (E.i 64 1))])
      (S.scope (S.block [S.setIndex 1 (E.bin AOp.add (E.var 4) (E.var 7)) (E.u 8 49)])),
    S.for (S.block [S.define 7 (E.bin AOp.sub (E.bin AOp.add (E.var 6) (E.var 4)) (E.i 64 1))]) (E.cmp COp.ge (E.var 7) (E.var 6))
      (S.block [S.assign 7 (E.bin AOp.sub (E.var 7) (E.i 64 1))])
      (S.scope (S.block (digitStmts 1 7))),
    S.ret (E.var 1)])) (S.scope (S.block [])),
  S.define 6 (E.neg (E.var 5)),
  S.ite (E.cmp COp.ge (E.var 6) (E.var 4)) layoutFracPart (S.scope (S.block []))] ++ layoutMixedPart) }

example : fnsAt 17 fnSizeSlice = canonFns := by decide
example : fnsAt 14 fnAppendF = canonFns := by decide
example : mutSize ≠ canonFns := by decide
example : mutZero ≠ canonFns := by decide

/-- 3.0 into an empty buffer with two stale bytes of spare capacity: `"3"`; the mutant's result shows a stale byte -/
example : interpAppendFloat canonFns T 4000 (fun _ => []) [] [9, 9] 0x4008000000000000 = some ([51], [9]) := by decide +kernel
example : interpAppendFloat mutSize T 4000 (fun _ => []) [] [9, 9] 0x4008000000000000 = some ([51, 9], []) := by decide +kernel
/-- 100.0: `"100"`, the mutant writes `"111"` -/
example : interpAppendFloat canonFns T 4000 (fun _ => []) [] [] 0x4059000000000000 = some ([49, 48, 48], []) := by decide +kernel
example : interpAppendFloat mutZero T 4000 (fun _ => []) [] [] 0x4059000000000000 = some ([49, 49, 49], []) := by decide +kernel

end QF.Props.C16RyuGen
