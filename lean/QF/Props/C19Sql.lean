import QF.Spec.Sql
/-!
# C19 — ToSQL / ReadSQL: the `Column.Scan` state machine, the round trip, the statement text

Core Lean only.  Four parts.

## 1. Mirror of `internal/io/sql/column.go`
`Col` has the fields of the Go struct (`kind`, `nulls`, `ptr`, the four typed slices); `Col.null`, `Col.int`,
`Col.float`, `Col.string`, `Col.bool` follow the Go methods statement by statement; `scanPlain` is the type switch of
`Column.Scan`, `coerceInt64ToBool` / `coerceStringToFloat` are the closures of coerce.go (HEAD b0cd862: `StringToFloat`
forwards NULL to `c.Null()`, `Int64ToBool` rejects NULL), `scan` dispatches on `c.coerce`.  `Col.toLCol` is `Data()`
followed by `qframe.New`'s `createColumn` (`nil` data, i.e. `ptr == nil`, is the "unknown column data type" error).
Driver `string` and `[]uint8` are both `SqlVal.text`; `int(v)` of an `int64` is the identity on 64-bit Go;
`math.NaN()` is `F64.canonNaN = 0x7ff8000000000001`; `float.Fixed` and `strconv.ParseFloat` are parameters.

What the Go code does today with values "of another kind": **it does not report them.**  `Int/Float/String/Bool`
append to *their own* slice whatever `kind` is; only `ptr` decides which slice `Data()` returns.  So a value whose kind
differs from the column's is silently dropped from the column (`scan_other_kind_ignored`,
`scan_mixed_counterexample`), NULLs counted before the first value of an int/bool column are silently dropped
(`scan_leading_nulls_dropped`), a NULL *after* the first value of an int/bool column is the error
"non-nullable type" (`scan_null_nonnullable`), a column of NULLs only has `ptr == nil` (`scan_all_null`).

## 2. Refinement `scan_refines_spec`
For `Int64ToBool` (non-empty list) and `StringToFloat` (any list) mirror and spec agree unconditionally, results and
errors.  Without coercion they agree iff the column is *typed* (`homogeneous`: every value is NULL or has the kind of
the first non-NULL value — true of every result set of a typed store, and of everything the harness generates) and no
NULL precedes the first value of an int/bool column (`noLeadingNullUnlessTextOrFloat`, implied by C19's
"NULLs occur in text or float columns", `nullsInTextOrFloat`).  The typedness hypothesis cannot be dropped:
`scan_mixed_counterexample`.  `run` is the closed form of the mirror that all of this is derived from.

## 3. Round trip `readback`, `readback_frame`
`ToSQL` passes `ItemAt(i)` of every column: `int`, `float64` (a NaN is passed *as the float64 NaN*, not as NULL),
`bool`, `*string` (nil → NULL), enum cells as `*string`.  `argsToVals` is a store that returns what was written.
Reading the stored rows back with `sqlColumn` (no coercion, no precision) reproduces every column cell by cell —
floats bit for bit, NaN payload included — with enum columns as string columns.  Variant `cellToValNanNull` (a store
that keeps NaN as NULL, e.g. SQLite): NaNs come back as the canonical NaN (`readback_cells_nanNull`), and a float
column of NaNs only cannot be read back — the spec (and the code) report an untyped column
(`readback_allNaN_unreadable`).

## 4. Statement text
`insertText_shape`, `placeholders_spec`, `placeholder_bytes` (`$k` is byte 36 followed by the decimal digits of k),
`escapeIdent_none/_wrap`, `intercalateB_split`, `columnList_split`, `placeholders_split`, `toSqlS_getElem`.
-/
namespace QF.Props.C19Sql
open QF

/-- `reflect.Kind` as far as `Column` uses it: `Invalid` (zero value), `Int`, `Float64`, `Bool`, `String`. -/
inductive Kind where
  | invalid | int | float | bool | string
  deriving DecidableEq, Repr, Inhabited

/-- `Column.coerce`: nil, or the closure built by `Int64ToBool` / `StringToFloat` (coerce.go). -/
inductive Coerce where
  | none | int64ToBool | stringToFloat
  deriving DecidableEq, Repr, Inhabited

/-- The encoding of the coercion in the spec (`sqlColumn`'s `coerce` argument). -/
def Coerce.toNat : Coerce → Nat
  | .none => 0 | .int64ToBool => 1 | .stringToFloat => 2

/-- What `ReadSQL` configures per column: the coercion, `conf.Precision`, and the two library functions the code
calls, as parameters: `fixedFn p f = float.Fixed(f, p)`, `pfloat s = strconv.ParseFloat(s, 64)` (`none` = error). -/
structure Cfg where
  coerce : Coerce
  precision : Nat
  fixedFn : Nat → UInt64 → UInt64
  pfloat : Bytes → Option UInt64

/-- `if c.precision > 0 { f = float.Fixed(f, c.precision) }` as a function: the spec's `fixed`. -/
def Cfg.fixed (cfg : Cfg) : UInt64 → UInt64 :=
  fun b => if cfg.precision > 0 then cfg.fixedFn cfg.precision b else b

/-- `sql.Column`.  `ptr` records which of the four slices `c.ptr` points to (`none` = nil pointer). -/
structure Col where
  kind : Kind := .invalid
  nulls : Nat := 0
  ptr : Option Kind := none
  ints : List Int := []
  floats : List UInt64 := []
  bools : List Bool := []
  strings : List (Option Bytes) := []
  deriving Repr, Inhabited

namespace Col

/-- `func (c *Column) Null() error` -/
def null (c : Col) : Option Col :=
  if c.kind = .invalid then some { c with nulls := c.nulls + 1 }
  else match c.kind with
    | .float => some { c with floats := c.floats ++ [F64.canonNaN] }
    | .string => some { c with strings := c.strings ++ [none] }
    | _ => none

/-- `func (c *Column) Int(i int)` -/
def int (c : Col) (i : Int) : Col :=
  let c := if c.ptr = none then { c with kind := .int, ptr := some .int } else c
  { c with ints := c.ints ++ [i] }

/-- `func (c *Column) Float(f float64)`; the back-fill loop appends `c.nulls` NaNs. -/
def float (cfg : Cfg) (c : Col) (f : UInt64) : Col :=
  let c := if c.ptr = none then
      let c := { c with kind := .float, ptr := some .float }
      if c.nulls > 0 then { c with floats := c.floats ++ List.replicate c.nulls F64.canonNaN, nulls := 0 } else c
    else c
  let f := if cfg.precision > 0 then cfg.fixedFn cfg.precision f else f
  { c with floats := c.floats ++ [f] }

/-- `func (c *Column) String(s string)`; the back-fill loop appends `c.nulls` nil pointers. -/
def string (c : Col) (s : Bytes) : Col :=
  let c := if c.ptr = none then
      let c := { c with kind := .string, ptr := some .string }
      if c.nulls > 0 then { c with strings := c.strings ++ List.replicate c.nulls none, nulls := 0 } else c
    else c
  { c with strings := c.strings ++ [some s] }

/-- `func (c *Column) Bool(b bool)` -/
def bool (c : Col) (b : Bool) : Col :=
  let c := if c.ptr = none then { c with kind := .bool, ptr := some .bool } else c
  { c with bools := c.bools ++ [b] }

end Col

/-- `Int64ToBool(c)`: anything but an int64 (NULL included) is an error. -/
def coerceInt64ToBool (c : Col) : SqlVal → Option Col
  | .int x => some (c.bool (x != 0))
  | _ => none

/-- `StringToFloat(c)`: NULL → `c.Null()`, a string is parsed and passed to `c.Float`, anything else is an error. -/
def coerceStringToFloat (cfg : Cfg) (c : Col) : SqlVal → Option Col
  | .null => c.null
  | .text s =>
    match cfg.pfloat s with
    | some f => some (c.float cfg f)
    | none => none
  | _ => none

/-- The type switch of `Column.Scan` (`string` and `[]uint8` are both `.text`); only `Null()` can fail. -/
def scanPlain (cfg : Cfg) (c : Col) : SqlVal → Option Col
  | .bool b => some (c.bool b)
  | .text s => some (c.string s)
  | .int i => some (c.int i)
  | .float f => some (c.float cfg f)
  | .null => c.null

/-- `func (c *Column) Scan(t interface{}) error`; `none` = an error is returned (ReadSQL stops). -/
def scan (cfg : Cfg) (c : Col) (v : SqlVal) : Option Col :=
  match cfg.coerce with
  | .int64ToBool => coerceInt64ToBool c v
  | .stringToFloat => coerceStringToFloat cfg c v
  | .none => scanPlain cfg c v

abbrev ScanResult := Option Col

/-- `rows.Scan` for every row of the result set, on a zero `Column`. -/
def scanAll (cfg : Cfg) (vals : List SqlVal) : ScanResult := vals.foldlM (scan cfg) {}

def Kind.ty : Kind → CType
  | .int => .int | .float => .float | .bool => .bool | .string => .string | .invalid => .undef

/-- The typed slice `k` as cells. -/
def Col.cellsOf (c : Col) : Kind → List Cell
  | .int => c.ints.map Cell.int
  | .float => c.floats.map Cell.float
  | .bool => c.bools.map Cell.bool
  | .string => c.strings.map Cell.str
  | .invalid => []

def mkCol (name : Bytes) (k : Kind) (cs : List Cell) : LCol := { name := name, ty := k.ty, cells := cs.toArray }

/-- `Data()` and then `createColumn`: the slice `ptr` points to; nil data is an error of `qframe.New`. -/
def Col.toLCol (c : Col) (name : Bytes) : Option LCol :=
  match c.ptr with
  | none => none
  | some k => some (mkCol name k (c.cellsOf k))

def ScanResult.toLCol (r : ScanResult) (name : Bytes) : Option LCol := r.bind (·.toLCol name)

/-- The kind a driver value gives to a fresh column. -/
def kindOf : SqlVal → Kind
  | .int _ => .int | .float _ => .float | .bool _ => .bool | .text _ => .string | .null => .invalid

/-- What the spec (`sqlColumn`, no coercion) makes of a value in a column of kind `k`. -/
def specCell (fixed : UInt64 → UInt64) : Kind → SqlVal → Option Cell
  | .int, .int x => some (.int x)
  | .bool, .bool b => some (.bool b)
  | .float, .float b => some (.float (fixed b))
  | .float, .null => some (.float F64.canonNaN)
  | .string, .text s => some (.str (some s))
  | .string, .null => some (.str none)
  | _, _ => none

/-- The per-value function of the spec for the configured coercion. -/
def cellM (cfg : Cfg) (k : Kind) (v : SqlVal) : Option Cell :=
  match cfg.coerce with
  | .none => specCell cfg.fixed k v
  | .int64ToBool => match v with | .int x => some (Cell.bool (x != 0)) | _ => none
  | .stringToFloat => match v with
    | .text s => (cfg.pfloat s).map (fun b => Cell.float (cfg.fixed b))
    | .null => some (Cell.float F64.canonNaN)
    | _ => none

def compat : Coerce → Kind → Prop
  | .none, k => k ≠ .invalid
  | .int64ToBool, k => k = .bool
  | .stringToFloat, k => k = .float

def okVal : Coerce → Kind → SqlVal → Prop
  | .none, k, v => kindOf v = k ∨ v = .null
  | _, _, _ => True

def StepRel (c : Col) (k : Kind) (r : Option Col) (s : Option Cell) : Prop :=
  (r = none ∧ s = none) ∨
  ∃ c' cell, r = some c' ∧ s = some cell ∧ c'.kind = k ∧ c'.ptr = some k ∧ c'.cellsOf k = c.cellsOf k ++ [cell]

/-- One `Scan` on a column whose kind is already known agrees with the spec's per-value function (value of the
column's kind, or NULL). -/
theorem scan_typed (cfg : Cfg) (c : Col) (k : Kind) (v : SqlVal) (hk : c.kind = k) (hp : c.ptr = some k)
    (hc : compat cfg.coerce k) (hv : okVal cfg.coerce k v) :
    StepRel c k (scan cfg c v) (cellM cfg k v) := by
  unfold StepRel
  rcases hcc : cfg.coerce with _ | _ | _
  · rw [hcc] at hc hv
    simp only [compat, okVal] at hc hv
    cases k <;> cases v <;> simp_all [scan, scanPlain, cellM, specCell, kindOf, Col.null, Col.int, Col.float, Col.string, Col.bool, Col.cellsOf, Cfg.fixed]
  · rw [hcc] at hc
    simp only [compat] at hc
    subst hc
    cases v <;> simp_all [scan, coerceInt64ToBool, cellM, Col.bool, Col.cellsOf]
  · rw [hcc] at hc
    simp only [compat] at hc
    subst hc
    cases v <;> simp_all [scan, coerceStringToFloat, cellM, Col.null, Col.float, Col.cellsOf, Cfg.fixed]
    rename_i s
    cases hpf : cfg.pfloat s <;> simp


/-- The rest of the result set, after the first value. -/
theorem fold_typed (cfg : Cfg) (k : Kind) (hc : compat cfg.coerce k) :
    ∀ (vs : List SqlVal) (c : Col), c.kind = k → c.ptr = some k → (∀ v ∈ vs, okVal cfg.coerce k v) →
    (vs.foldlM (scan cfg) c = none ∧ vs.mapM (cellM cfg k) = none) ∨
    ∃ c' cs, vs.foldlM (scan cfg) c = some c' ∧ vs.mapM (cellM cfg k) = some cs ∧
      c'.kind = k ∧ c'.ptr = some k ∧ c'.cellsOf k = c.cellsOf k ++ cs := by
  intro vs
  induction vs with
  | nil => intro c hk hp _; exact .inr ⟨c, [], by simp, by simp, hk, hp, by simp⟩
  | cons v vs ih =>
    intro c hk hp hall
    have hv := hall v (by simp)
    have hall' : ∀ w ∈ vs, okVal cfg.coerce k w := fun w h => hall w (by simp [h])
    rcases scan_typed cfg c k v hk hp hc hv with ⟨h1, h2⟩ | ⟨c1, cell, h1, h2, hk1, hp1, e1⟩
    · left; simp [List.foldlM_cons, h1, h2]
    · rcases ih c1 hk1 hp1 hall' with ⟨h3, h4⟩ | ⟨c', cs, h3, h4, hk', hp', e'⟩
      · left; simp [h1, h2, h3, h4]
      · right; exact ⟨c', cell :: cs, by simp [h1, h3], by simp [h2, h4], hk', hp', by simp [e', e1]⟩

/-- the state before the first non-NULL value: nothing but the NULL counter -/
def fresh (n : Nat) : Col := { nulls := n }

theorem nulls_phase (cfg : Cfg) (hc : cfg.coerce ≠ .int64ToBool) : ∀ (m n : Nat),
    (List.replicate m SqlVal.null).foldlM (scan cfg) (fresh n) = some (fresh (n + m)) := by
  intro m
  induction m with
  | zero => intro n; simp
  | succ m ih =>
    intro n
    have h1 : scan cfg (fresh n) .null = some (fresh (n + 1)) := by
      rcases hcc : cfg.coerce with _ | _ | _
      · simp [scan, hcc, scanPlain, Col.null, fresh]
      · exact absurd hcc hc
      · simp [scan, hcc, coerceStringToFloat, Col.null, fresh]
    rw [List.replicate_succ, List.foldlM_cons, h1]
    simp only [Option.bind_eq_bind, Option.bind_some]
    rw [ih (n + 1)]
    congr 2; omega

def nullCell : Kind → Cell
  | .float => .float F64.canonNaN
  | _ => .str none

/-- the cells `Float`/`String` back-fill for the NULLs counted so far; `Int`/`Bool` back-fill nothing -/
def backfill (k : Kind) (n : Nat) : List Cell :=
  if k = .float ∨ k = .string then List.replicate n (nullCell k) else []

def targetKind (co : Coerce) (v : SqlVal) : Kind :=
  match co with
  | .none => kindOf v
  | .int64ToBool => .bool
  | .stringToFloat => .float

theorem first_step (cfg : Cfg) (n : Nat) (v : SqlVal) (hv : cfg.coerce = .int64ToBool ∨ v ≠ .null) :
    let k := targetKind cfg.coerce v
    (scan cfg (fresh n) v = none ∧ cellM cfg k v = none) ∨
    ∃ c1 cell, scan cfg (fresh n) v = some c1 ∧ cellM cfg k v = some cell ∧ c1.kind = k ∧ c1.ptr = some k ∧
      c1.cellsOf k = backfill k n ++ [cell] ∧ compat cfg.coerce k := by
  intro k
  rcases hcc : cfg.coerce with _ | _ | _
  · have hk : k = kindOf v := by simp [k, targetKind, hcc]
    rw [hk]
    rw [hcc] at hv
    cases v with
    | null => simp at hv
    | int x => right; simp [scan, hcc, scanPlain, Col.int, fresh, cellM, specCell, kindOf, Col.cellsOf, backfill, compat]
    | bool x => right; simp [scan, hcc, scanPlain, Col.bool, fresh, cellM, specCell, kindOf, Col.cellsOf, backfill, compat]
    | float x =>
      right
      cases n <;> simp [scan, hcc, scanPlain, Col.float, fresh, cellM, specCell, kindOf, Col.cellsOf, backfill, compat, nullCell, Cfg.fixed]
    | text x =>
      right
      cases n <;> simp [scan, hcc, scanPlain, Col.string, fresh, cellM, specCell, kindOf, Col.cellsOf, backfill, compat, nullCell]
  · have hk : k = .bool := by simp [k, targetKind, hcc]
    rw [hk]
    cases v <;> simp [scan, hcc, coerceInt64ToBool, Col.bool, fresh, cellM, Col.cellsOf, backfill, compat]
    exact Decidable.em _
  · have hk : k = .float := by simp [k, targetKind, hcc]
    rw [hk]
    rw [hcc] at hv
    cases v with
    | null => simp at hv
    | int x => left; simp [scan, hcc, coerceStringToFloat, cellM]
    | bool x => left; simp [scan, hcc, coerceStringToFloat, cellM]
    | float x => left; simp [scan, hcc, coerceStringToFloat, cellM]
    | text s =>
      cases hpf : cfg.pfloat s with
      | none => left; simp [scan, hcc, coerceStringToFloat, cellM, hpf]
      | some f =>
        right
        cases n <;> simp [scan, hcc, coerceStringToFloat, Col.float, fresh, cellM, hpf, Col.cellsOf, backfill, compat, nullCell, Cfg.fixed]


theorem split_nulls : ∀ (vals : List SqlVal), ∃ m tail, vals = List.replicate m SqlVal.null ++ tail ∧
    (tail = [] ∨ ∃ v rest, tail = v :: rest ∧ v ≠ SqlVal.null) := by
  intro vals
  induction vals with
  | nil => exact ⟨0, [], by simp, .inl rfl⟩
  | cons w ws ih =>
    by_cases hw : w = .null
    · obtain ⟨m, tail, e, h⟩ := ih
      exact ⟨m + 1, tail, by rw [e, hw, List.replicate_succ]; simp, h⟩
    · exact ⟨0, w :: ws, by simp, .inr ⟨w, ws, rfl, hw⟩⟩

theorem find_nulls_none (m : Nat) : (List.replicate m SqlVal.null).find? (· != .null) = none := by
  simp

theorem find_first (m : Nat) (v : SqlVal) (rest : List SqlVal) (hv : v ≠ .null) :
    (List.replicate m SqlVal.null ++ v :: rest).find? (· != .null) = some v := by
  induction m with
  | zero => simp [hv]
  | succ m ih => simp [List.replicate_succ, ih]

/-- **Closed form of the mirror** on `m` leading NULLs, a first value `v` and a typed rest: the first value fixes the kind,
the leading NULLs are back-filled (text/float) or dropped (int/bool), the rest is mapped value by value; the first
error of the code is the first `none` of the spec's per-value function. -/
theorem run (cfg : Cfg) (m : Nat) (v : SqlVal) (rest : List SqlVal)
    (hv : cfg.coerce = .int64ToBool ∨ v ≠ .null) (hc : cfg.coerce ≠ .int64ToBool ∨ m = 0)
    (hall : ∀ w ∈ rest, okVal cfg.coerce (targetKind cfg.coerce v) w) (name : Bytes) :
    (scanAll cfg (List.replicate m .null ++ v :: rest)).toLCol name =
      ((v :: rest).mapM (cellM cfg (targetKind cfg.coerce v))).map
        (fun cs => mkCol name (targetKind cfg.coerce v) (backfill (targetKind cfg.coerce v) m ++ cs)) := by
  have hpre : scanAll cfg (List.replicate m .null ++ v :: rest) = (v :: rest).foldlM (scan cfg) (fresh m) := by
    unfold scanAll
    rcases hc with hc | hc
    · rw [List.foldlM_append]
      have := nulls_phase cfg hc m 0
      simp only [fresh, Nat.zero_add] at this
      rw [this]; rfl
    · subst hc; rfl
  rw [hpre, List.foldlM_cons, List.mapM_cons]
  rcases first_step cfg m v hv with ⟨h1, h2⟩ | ⟨c1, cell, h1, h2, hk1, hp1, e1, hcompat⟩
  · simp [h1, h2, ScanResult.toLCol]
  · rcases fold_typed cfg _ hcompat rest c1 hk1 hp1 hall with ⟨h3, h4⟩ | ⟨c', cs, h3, h4, hk', hp', e'⟩
    · simp [h1, h2, h3, h4, ScanResult.toLCol]
    · simp [h1, h2, h3, h4, ScanResult.toLCol, Col.toLCol, hp', e', e1]


theorem specCell_int (fixed : UInt64 → UInt64) :
    (fun (v : SqlVal) => match v with | .int x => some (Cell.int x) | _ => none) = specCell fixed .int := by
  funext v; cases v <;> rfl
theorem specCell_bool (fixed : UInt64 → UInt64) :
    (fun (v : SqlVal) => match v with | .bool x => some (Cell.bool x) | _ => none) = specCell fixed .bool := by
  funext v; cases v <;> rfl
theorem specCell_float (fixed : UInt64 → UInt64) :
    (fun (v : SqlVal) => match v with
      | .float b => some (Cell.float (fixed b)) | .null => some (Cell.float F64.canonNaN) | _ => none) = specCell fixed .float := by
  funext v; cases v <;> rfl
theorem specCell_string (fixed : UInt64 → UInt64) :
    (fun (v : SqlVal) => match v with
      | .text s => some (Cell.str (some s)) | .null => some (Cell.str none) | _ => none) = specCell fixed .string := by
  funext v; cases v <;> rfl

theorem sqlColumn_plain_none (name : Bytes) (fixed : UInt64 → UInt64) (pfloat : Bytes → Option UInt64) (vals : List SqlVal)
    (h : vals.find? (· != .null) = none) : sqlColumn name 0 fixed pfloat vals = none := by
  unfold sqlColumn
  simp only [h]

theorem sqlColumn_plain (name : Bytes) (fixed : UInt64 → UInt64) (pfloat : Bytes → Option UInt64) (vals : List SqlVal)
    (v : SqlVal) (h : vals.find? (· != .null) = some v) (hv : v ≠ .null) :
    sqlColumn name 0 fixed pfloat vals = (vals.mapM (specCell fixed (kindOf v))).map (mkCol name (kindOf v)) := by
  unfold sqlColumn
  simp only [h]
  cases v with
  | int x =>
    show _ = Option.map (mkCol name .int) (List.mapM (specCell fixed .int) vals)
    rw [← specCell_int fixed]; rfl
  | bool x =>
    show _ = Option.map (mkCol name .bool) (List.mapM (specCell fixed .bool) vals)
    rw [← specCell_bool fixed]; rfl
  | float x =>
    show _ = Option.map (mkCol name .float) (List.mapM (specCell fixed .float) vals)
    rw [← specCell_float fixed]; rfl
  | text x =>
    show _ = Option.map (mkCol name .string) (List.mapM (specCell fixed .string) vals)
    rw [← specCell_string fixed]; rfl
  | null => exact absurd rfl hv


theorem mapM_nulls (f : SqlVal → Option Cell) (c : Cell) (hf : f .null = some c) (m : Nat) :
    (List.replicate m SqlVal.null).mapM f = some (List.replicate m c) := by
  induction m with
  | zero => simp
  | succ m ih => simp [List.replicate_succ, List.mapM_cons, hf, ih]

theorem specCell_nulls (fixed : UInt64 → UInt64) (k : Kind) (m : Nat) (h : m = 0 ∨ k = .float ∨ k = .string) :
    (List.replicate m SqlVal.null).mapM (specCell fixed k) = some (backfill k m) := by
  rcases h with h | h | h
  · subst h; simp [backfill]
  · subst h; rw [mapM_nulls _ (nullCell .float) rfl]; simp [backfill]
  · subst h; rw [mapM_nulls _ (nullCell .string) rfl]; simp [backfill]

def firstVal (vals : List SqlVal) : Option SqlVal := vals.find? (· != .null)

/-- The column is typed: every value is NULL or of the kind of the first non-NULL value. -/
def homogeneous (vals : List SqlVal) : Bool :=
  match firstVal vals with
  | none => true
  | some v => vals.all (fun w => w == .null || kindOf w == kindOf v)

def firstIsTextOrFloat (vals : List SqlVal) : Bool :=
  match firstVal vals with
  | some (.text _) => true
  | some (.float _) => true
  | _ => false

/-- C19's quantifier: NULLs occur only in text or float columns. -/
def nullsInTextOrFloat (vals : List SqlVal) : Bool := firstIsTextOrFloat vals || !vals.contains .null

/-- The weaker condition that suffices: no NULL *before the first value* of an int/bool column. -/
def noLeadingNullUnlessTextOrFloat (vals : List SqlVal) : Bool := firstIsTextOrFloat vals || vals.head? != some .null

theorem cellM_plain (cfg : Cfg) (hc : cfg.coerce = .none) (k : Kind) : cellM cfg k = specCell cfg.fixed k := by
  funext v; simp [cellM, hc]

theorem scanAll_nulls (cfg : Cfg) (hc : cfg.coerce ≠ .int64ToBool) (m : Nat) (name : Bytes) :
    (scanAll cfg (List.replicate m .null)).toLCol name = none := by
  have := nulls_phase cfg hc m 0
  simp only [fresh, Nat.zero_add] at this
  unfold scanAll
  rw [this]
  rfl

/-- No coercion: typed column, no NULL before the first value of an int/bool column.  A NULL *after* the first value
of an int/bool column is inside this precondition: both sides report an error. -/
theorem scan_refines_spec_plain (cfg : Cfg) (hc : cfg.coerce = .none) (name : Bytes) (vals : List SqlVal)
    (hh : homogeneous vals = true) (hn : noLeadingNullUnlessTextOrFloat vals = true) :
    (scanAll cfg vals).toLCol name = sqlColumn name 0 cfg.fixed cfg.pfloat vals := by
  obtain ⟨m, tail, e, h⟩ := split_nulls vals
  subst e
  rcases h with rfl | ⟨v, rest, rfl, hv⟩
  · rw [List.append_nil, scanAll_nulls cfg (by simp [hc]) m name, sqlColumn_plain_none _ _ _ _ (find_nulls_none m)]
  · have hfind := find_first m v rest hv
    have hrest : ∀ w ∈ rest, okVal cfg.coerce (targetKind cfg.coerce v) w := by
      intro w hw
      simp only [homogeneous, firstVal, hfind, List.all_eq_true] at hh
      have := hh w (by simp [hw])
      simp only [hc, okVal, targetKind]
      simp at this
      rcases this with h | h
      · exact .inr h
      · exact .inl h
    have hm : m = 0 ∨ kindOf v = .float ∨ kindOf v = .string := by
      simp only [noLeadingNullUnlessTextOrFloat, firstIsTextOrFloat, firstVal, hfind, Bool.or_eq_true] at hn
      rcases hn with h | h
      · cases v <;> simp_all [kindOf]
      · left
        cases m with
        | zero => rfl
        | succ m => simp [List.replicate_succ] at h
    rw [run cfg m v rest (.inr hv) (.inl (by simp [hc])) hrest name, sqlColumn_plain _ _ _ _ v hfind hv]
    have hk : targetKind cfg.coerce v = kindOf v := by simp [targetKind, hc]
    rw [hk, cellM_plain cfg hc, List.mapM_append, specCell_nulls _ _ _ hm]
    cases hmm : List.mapM (specCell cfg.fixed (kindOf v)) (v :: rest) <;> simp


theorem sqlColumn_i2b (cfg : Cfg) (hc : cfg.coerce = .int64ToBool) (name : Bytes) (fixed : UInt64 → UInt64)
    (pfloat : Bytes → Option UInt64) (vals : List SqlVal) :
    sqlColumn name 1 fixed pfloat vals = (vals.mapM (cellM cfg .bool)).map (mkCol name .bool) := by
  have : cellM cfg .bool = (fun (v : SqlVal) => match v with | .int x => some (Cell.bool (x != 0)) | _ => none) := by
    funext v; cases v <;> simp [cellM, hc]
  rw [this]; rfl

theorem sqlColumn_s2f (cfg : Cfg) (hc : cfg.coerce = .stringToFloat) (name : Bytes) (vals : List SqlVal) :
    sqlColumn name 2 cfg.fixed cfg.pfloat vals =
      if vals.all (· == .null) then none else (vals.mapM (cellM cfg .float)).map (mkCol name .float) := by
  have : cellM cfg .float = (fun (v : SqlVal) => match v with
      | .text s => (cfg.pfloat s).map (fun b => Cell.float (cfg.fixed b))
      | .null => some (Cell.float F64.canonNaN) | _ => none) := by
    funext v; cases v <;> simp [cellM, hc]
  rw [this]; rfl

/-- `Int64ToBool`: unconditional for a result set with at least one row. -/
theorem scan_refines_spec_i2b (cfg : Cfg) (hc : cfg.coerce = .int64ToBool) (name : Bytes) (vals : List SqlVal)
    (hne : vals ≠ []) :
    (scanAll cfg vals).toLCol name = sqlColumn name 1 cfg.fixed cfg.pfloat vals := by
  cases vals with
  | nil => exact absurd rfl hne
  | cons v rest =>
    have hrest : ∀ w ∈ rest, okVal cfg.coerce (targetKind cfg.coerce v) w := by
      intro w _; simp [hc, okVal]
    have := run cfg 0 v rest (.inl hc) (.inr rfl) hrest name
    simp only [List.replicate_zero, List.nil_append] at this
    rw [this, sqlColumn_i2b cfg hc]
    have hk : targetKind cfg.coerce v = .bool := by simp [targetKind, hc]
    rw [hk]
    simp [backfill]

/-- `StringToFloat`: unconditional (an all-NULL column is untyped on both sides). -/
theorem scan_refines_spec_s2f (cfg : Cfg) (hc : cfg.coerce = .stringToFloat) (name : Bytes) (vals : List SqlVal) :
    (scanAll cfg vals).toLCol name = sqlColumn name 2 cfg.fixed cfg.pfloat vals := by
  obtain ⟨m, tail, e, h⟩ := split_nulls vals
  subst e
  rw [sqlColumn_s2f cfg hc]
  rcases h with rfl | ⟨v, rest, rfl, hv⟩
  · rw [List.append_nil, scanAll_nulls cfg (by simp [hc]) m name]
    simp
  · have hrest : ∀ w ∈ rest, okVal cfg.coerce (targetKind cfg.coerce v) w := by
      intro w _; simp [hc, okVal]
    rw [run cfg m v rest (.inr hv) (.inl (by simp [hc])) hrest name]
    have hk : targetKind cfg.coerce v = .float := by simp [targetKind, hc]
    have hall : (List.replicate m SqlVal.null ++ v :: rest).all (· == .null) = false := by
      simp [hv]
    rw [hk, hall, List.mapM_append, mapM_nulls _ (nullCell .float) (by simp [cellM, hc, nullCell])]
    cases hmm : List.mapM (cellM cfg .float) (v :: rest) <;> simp [backfill]


/-- The decidable precondition of `scan_refines_spec`. -/
def inScope (co : Coerce) (vals : List SqlVal) : Bool :=
  match co with
  | .none => homogeneous vals && noLeadingNullUnlessTextOrFloat vals
  | .int64ToBool => !vals.isEmpty
  | .stringToFloat => true

/-- **Refinement.** In scope, mirror and spec agree — results *and* errors. -/
theorem scan_refines_spec (cfg : Cfg) (name : Bytes) (vals : List SqlVal) (h : inScope cfg.coerce vals = true) :
    (scanAll cfg vals).toLCol name = sqlColumn name cfg.coerce.toNat cfg.fixed cfg.pfloat vals := by
  rcases hc : cfg.coerce with _ | _ | _
  · rw [hc] at h
    simp only [inScope, Bool.and_eq_true] at h
    exact scan_refines_spec_plain cfg hc name vals h.1 h.2
  · rw [hc] at h
    simp only [inScope] at h
    exact scan_refines_spec_i2b cfg hc name vals (by intro e; simp [e] at h)
  · exact scan_refines_spec_s2f cfg hc name vals

theorem nullsInTextOrFloat_noLeading (vals : List SqlVal) (h : nullsInTextOrFloat vals = true) :
    noLeadingNullUnlessTextOrFloat vals = true := by
  simp only [nullsInTextOrFloat, noLeadingNullUnlessTextOrFloat, Bool.or_eq_true] at *
  rcases h with h | h
  · exact .inl h
  · right
    cases vals with
    | nil => simp
    | cons w ws =>
      cases w <;> simp_all

/-- The statement in the form of the task: typed column, NULLs only in text / float columns. -/
theorem scan_refines_spec_C19 (cfg : Cfg) (hc : cfg.coerce = .none) (name : Bytes) (vals : List SqlVal)
    (hh : homogeneous vals = true) (hn : nullsInTextOrFloat vals = true) :
    (scanAll cfg vals).toLCol name = sqlColumn name 0 cfg.fixed cfg.pfloat vals :=
  scan_refines_spec_plain cfg hc name vals hh (nullsInTextOrFloat_noLeading vals hn)

/-- The task's statement (`nullsInTextOrFloat` alone, no coercion) is **false** for the code as it is — see
`scan_mixed_counterexample` — so this is the `_partial` form: the added hypothesis is `homogeneous vals` (the column is
typed: all non-NULL values have the kind of the first one), because `Column.Scan` does not report a value of another
kind, it drops it.  `scan_refines_spec` above is the same theorem with a weaker NULL condition and all coercions. -/
theorem scan_refines_spec_partial (cfg : Cfg) (hc : cfg.coerce = .none) (name : Bytes) (vals : List SqlVal)
    (hn : nullsInTextOrFloat vals = true) (hh : homogeneous vals = true) :
    (scanAll cfg vals).toLCol name = sqlColumn name 0 cfg.fixed cfg.pfloat vals :=
  scan_refines_spec_C19 cfg hc name vals hh hn

/-! ### outside the precondition -/

/-- Outside: a column of NULLs only is untyped — `Data()` is nil, `qframe.New` fails; the spec says error too. -/
theorem scan_all_null (cfg : Cfg) (hc : cfg.coerce ≠ .int64ToBool) (m : Nat) (name : Bytes) :
    (scanAll cfg (List.replicate m .null)).toLCol name = none ∧
    sqlColumn name cfg.coerce.toNat cfg.fixed cfg.pfloat (List.replicate m .null) = none := by
  refine ⟨scanAll_nulls cfg hc m name, ?_⟩
  rcases hcc : cfg.coerce with _ | _ | _
  · exact sqlColumn_plain_none _ _ _ _ (find_nulls_none m)
  · exact absurd hcc hc
  · show sqlColumn name 2 cfg.fixed cfg.pfloat _ = none
    rw [sqlColumn_s2f cfg hcc]; simp

/-- Outside: zero rows under `Int64ToBool`.  The column is untyped in the code; `sqlColumn` alone would give an empty
bool column — `readSqlS` never asks, it returns the empty frame for zero rows before looking at columns. -/
theorem scan_empty_i2b (cfg : Cfg) (name : Bytes) :
    (scanAll cfg []).toLCol name = none ∧
    sqlColumn name 1 cfg.fixed cfg.pfloat [] = some (mkCol name .bool []) := by
  constructor
  · rfl
  · rfl

/-- Outside: NULL in an int/bool column after its first value is the error "non-nullable type". -/
theorem scan_null_nonnullable (cfg : Cfg) (hc : cfg.coerce = .none) (c : Col)
    (hk : c.kind = .int ∨ c.kind = .bool) : scan cfg c .null = none := by
  rcases hk with hk | hk <;> simp [scan, hc, scanPlain, Col.null, hk]

/-- Outside: a value of another kind than the column's is appended to its own slice, which `Data()` does not return:
the column silently loses the row.  No error. -/
theorem scan_other_kind_ignored (cfg : Cfg) (hc : cfg.coerce = .none) (c : Col) (k : Kind) (v : SqlVal)
    (hk : c.kind = k) (hp : c.ptr = some k) (hv : v ≠ .null) (hkv : kindOf v ≠ k) :
    ∃ c', scan cfg c v = some c' ∧ c'.kind = k ∧ c'.ptr = some k ∧ c'.cellsOf k = c.cellsOf k := by
  cases v <;> cases k <;>
    simp_all [scan, scanPlain, kindOf, Col.int, Col.float, Col.string, Col.bool, Col.cellsOf]

/-- Outside: NULLs before the first value of an int/bool column are counted and never back-filled: the code returns a
column that is `m` rows short, without error; the spec says error.  (DESIGN.md §0.4, outside C19's quantifier.) -/
theorem scan_leading_nulls_dropped (cfg : Cfg) (hc : cfg.coerce = .none) (name : Bytes) (m : Nat) (v : SqlVal)
    (rest : List SqlVal) (hm : 0 < m) (hk : kindOf v = .int ∨ kindOf v = .bool)
    (hrest : ∀ w ∈ rest, kindOf w = kindOf v) :
    ∃ cs, (scanAll cfg (List.replicate m .null ++ v :: rest)).toLCol name = some (mkCol name (kindOf v) cs) ∧
      cs.length = rest.length + 1 ∧
      sqlColumn name 0 cfg.fixed cfg.pfloat (List.replicate m .null ++ v :: rest) = none := by
  have hv : v ≠ .null := by rintro rfl; simp [kindOf] at hk
  have hok : ∀ w ∈ rest, okVal cfg.coerce (targetKind cfg.coerce v) w := by
    intro w hw; simp only [hc, okVal, targetKind]; exact .inl (hrest w hw)
  have hk' : targetKind cfg.coerce v = kindOf v := by simp [targetKind, hc]
  have hmap : ∀ (l : List SqlVal), (∀ w ∈ l, kindOf w = kindOf v) →
      ∃ cs, l.mapM (specCell cfg.fixed (kindOf v)) = some cs ∧ cs.length = l.length := by
    intro l
    induction l with
    | nil => intro _; exact ⟨[], by simp, rfl⟩
    | cons w ws ih =>
      intro h
      obtain ⟨cs, e, hl⟩ := ih (fun x hx => h x (by simp [hx]))
      have hw := h w (by simp)
      have : ∃ cell, specCell cfg.fixed (kindOf v) w = some cell := by
        rcases hk with hk | hk <;> rw [hk] at hw ⊢ <;> cases w <;> simp_all [kindOf, specCell]
      obtain ⟨cell, hcell⟩ := this
      exact ⟨cell :: cs, by simp [List.mapM_cons, hcell, e], by simp [hl]⟩
  obtain ⟨cs, e, hl⟩ := hmap (v :: rest) (by intro w hw; rcases List.mem_cons.1 hw with rfl | h; rfl; exact hrest w h)
  refine ⟨cs, ?_, by simpa using hl, ?_⟩
  · rw [run cfg m v rest (.inr hv) (.inl (by simp [hc])) hok name, hk', cellM_plain cfg hc, e]
    have : backfill (kindOf v) m = [] := by rcases hk with hk | hk <;> simp [backfill, hk]
    simp [this]
  · rw [sqlColumn_plain _ _ _ _ v (find_first m v rest hv) hv]
    obtain ⟨m', rfl⟩ : ∃ m', m = m' + 1 := ⟨m - 1, by omega⟩
    have : specCell cfg.fixed (kindOf v) .null = none := by rcases hk with hk | hk <;> simp [hk, specCell]
    simp [List.replicate_succ, List.mapM_cons, this]


/-! ## 3. round trip -/

/-- What a store returns for a written argument: int → int, float → the same float64 (NaN included, payload kept),
bool → bool, string → text, nil `*string` → NULL.  Enum cells are written as their strings. -/
def cellToVal : Cell → SqlVal
  | .int v => .int v
  | .float b => .float b
  | .bool b => .bool b
  | .str (some s) => .text s
  | .str none => .null

/-- The stored row of an `Exec` argument list. -/
def argsToVals (args : List Cell) : List SqlVal := args.map cellToVal

def cellHasTy : CType → Cell → Bool
  | .int, .int _ => true
  | .float, .float _ => true
  | .bool, .bool _ => true
  | .string, .str _ => true
  | .enum, .str _ => true
  | _, _ => false

def tyKind : CType → Kind
  | .int => .int | .float => .float | .bool => .bool | .string => .string | .enum => .string | .undef => .invalid

theorem mapM_cells (ty : CType) : ∀ (cells : List Cell), (∀ c ∈ cells, cellHasTy ty c = true) →
    (cells.map cellToVal).mapM (specCell id (tyKind ty)) = some cells := by
  intro cells
  induction cells with
  | nil => intro _; simp
  | cons c cs ih =>
    intro h
    have hc := h c (by simp)
    have ih' := ih (fun x hx => h x (by simp [hx]))
    have : specCell id (tyKind ty) (cellToVal c) = some c := by
      cases ty <;> cases c <;> simp_all [cellHasTy, tyKind, cellToVal, specCell] <;>
        (rename_i s; cases s <;> simp)
    simp [List.mapM_cons, this, ih']


theorem kind_of_cell (ty : CType) (c : Cell) (h : cellHasTy ty c = true) (hn : cellToVal c ≠ .null) :
    kindOf (cellToVal c) = tyKind ty := by
  cases ty <;> cases c <;> simp_all [cellHasTy, tyKind, cellToVal, kindOf] <;>
    (rename_i s; cases s <;> simp_all)

def isStrTy (ty : CType) : Bool := ty == .string || ty == .enum

theorem first_of_cells (ty : CType) (cells : List Cell) (hty : ∀ c ∈ cells, cellHasTy ty c = true)
    (hne : cells ≠ []) (hu : ty ≠ .undef) (hnn : isStrTy ty = true → ∃ c ∈ cells, c ≠ Cell.str none) :
    ∃ v, (cells.map cellToVal).find? (· != .null) = some v ∧ v ≠ .null ∧ kindOf v = tyKind ty := by
  have hex : ∃ c ∈ cells, cellToVal c ≠ .null := by
    by_cases hs : isStrTy ty = true
    · obtain ⟨c, hc, hcn⟩ := hnn hs
      refine ⟨c, hc, ?_⟩
      have := hty c hc
      cases c with
      | str s => cases s <;> simp_all [cellToVal]
      | _ => simp [cellToVal]
    · cases cells with
      | nil => exact absurd rfl hne
      | cons c cs =>
        refine ⟨c, by simp, ?_⟩
        have := hty c (by simp)
        cases ty <;> cases c <;> simp_all [cellHasTy, cellToVal, isStrTy]
  cases hf : (cells.map cellToVal).find? (· != .null) with
  | none =>
    exfalso
    obtain ⟨c, hc, hcn⟩ := hex
    rw [List.find?_eq_none] at hf
    have := hf (cellToVal c) (List.mem_map_of_mem hc)
    simp at this
    exact hcn this
  | some v =>
    have hv : v ≠ .null := by
      have := List.find?_some hf
      simpa using this
    have hmem := List.mem_of_find?_eq_some hf
    obtain ⟨c, hc, rfl⟩ := List.mem_map.1 hmem
    exact ⟨_, rfl, hv, kind_of_cell ty c (hty c hc) hv⟩

def readTy (ty : CType) : CType := if ty = .enum then .string else ty

theorem tyKind_ty (ty : CType) (hu : ty ≠ .undef) : (tyKind ty).ty = readTy ty := by
  cases ty <;> simp_all [tyKind, Kind.ty, readTy]

theorem readback_cells (name : Bytes) (pfloat : Bytes → Option UInt64) (ty : CType) (cells : List Cell)
    (hty : ∀ c ∈ cells, cellHasTy ty c = true) (hne : cells ≠ []) (hu : ty ≠ .undef)
    (hnn : isStrTy ty = true → ∃ c ∈ cells, c ≠ Cell.str none) :
    sqlColumn name 0 id pfloat (argsToVals cells) =
      some { name := name, ty := readTy ty, cells := cells.toArray } := by
  obtain ⟨v, hf, hv, hk⟩ := first_of_cells ty cells hty hne hu hnn
  unfold argsToVals
  rw [sqlColumn_plain name id pfloat _ v hf hv, hk, mapM_cells ty cells hty]
  simp [mkCol, tyKind_ty ty hu]


/-- A column of `n` cells of its type; a string/enum column is not entirely null. -/
def ColWF (n : Nat) (c : LCol) : Prop :=
  c.ty ≠ .undef ∧ c.cells.size = n ∧ (∀ x ∈ c.cells.toList, cellHasTy c.ty x = true) ∧
    (isStrTy c.ty = true → ∃ x ∈ c.cells.toList, x ≠ Cell.str none)

/-- C19's quantifier on frames: at least one row, well-formed columns. -/
def FrameWF (f : LFrame) : Prop := 1 ≤ f.n ∧ ∀ c ∈ f.cols, ColWF f.n c

/-- The table after `ToSQL`: one stored row per executed statement, in execution order. -/
def storedRows (cfg : SqlCfg) (f : LFrame) : List (List SqlVal) := ((toSqlS cfg f).map (·.2)).map argsToVals

/-- Column `j` of a result set, as `readSqlS` extracts it. -/
def resultColumn (rows : List (List SqlVal)) (j : Nat) : List SqlVal := rows.map (fun r => r[j]!)

/-- What comes back: the same cells; an enum column as a plain string column (no value table, not strict). -/
def readCol (c : LCol) : LCol := { name := c.name, ty := readTy c.ty, cells := c.cells }

theorem range_map_get (a : Array Cell) : (List.range a.size).map (fun r => a[r]!) = a.toList := by
  apply List.ext_getElem
  · simp
  · intro i h1 h2
    simp at h1
    simp [h1]

theorem resultColumn_stored (cfg : SqlCfg) (f : LFrame) (j : Nat) (hj : j < f.cols.length)
    (hsz : (f.cols[j]).cells.size = f.n) :
    resultColumn (storedRows cfg f) j = argsToVals (f.cols[j]).cells.toList := by
  unfold resultColumn storedRows toSqlS argsToVals
  rw [← range_map_get, hsz]
  simp only [List.map_map]
  apply List.map_congr_left
  intro r _
  simp [LFrame.row, hj]


/-- **Round trip, per column.** -/
theorem readback (cfg : SqlCfg) (f : LFrame) (hwf : FrameWF f) (pfloat : Bytes → Option UInt64)
    (j : Nat) (hj : j < f.cols.length) :
    sqlColumn (f.names[j]!) 0 id pfloat (resultColumn (storedRows cfg f) j) = some (readCol f.cols[j]) := by
  obtain ⟨hn, hcols⟩ := hwf
  obtain ⟨hu, hsz, hty, hnn⟩ := hcols f.cols[j] (List.getElem_mem hj)
  rw [resultColumn_stored cfg f j hj hsz]
  have hne : (f.cols[j]).cells.toList ≠ [] := by
    intro h
    have : (f.cols[j]).cells.toList.length = 0 := by rw [h]; rfl
    rw [Array.length_toList] at this
    omega
  rw [readback_cells _ pfloat (f.cols[j]).ty _ hty hne hu hnn]
  simp [readCol, LFrame.names, hj]

theorem range_map_getElem {α : Type} [Inhabited α] (l : List α) : (List.range l.length).map (fun j => l[j]!) = l := by
  apply List.ext_getElem
  · simp
  · intro i h1 h2
    simp at h1
    simp [h1]

theorem storedRows_length (cfg : SqlCfg) (f : LFrame) : (storedRows cfg f).length = f.n := by
  simp [storedRows, toSqlS]

/-- **Round trip, whole frame** through `readSqlS` (names legal and distinct, as in every frame). -/
theorem readback_frame (cfg : SqlCfg) (f : LFrame) (hwf : FrameWF f) (pfloat : Bytes → Option UInt64)
    (hlegal : f.names.all legalName = true) (hdistinct : f.names.eraseDups.length = f.names.length) :
    readSqlS f.names (List.replicate f.cols.length 0) id pfloat (storedRows cfg f) =
      .ok { cols := f.cols.map readCol, n := f.n } := by
  have hlen := storedRows_length cfg f
  have hne : (storedRows cfg f).isEmpty = false := by
    cases h : storedRows cfg f with
    | nil => rw [h] at hlen; have := hwf.1; simp at hlen; omega
    | cons _ _ => rfl
  have hcols : (List.range f.names.length).map (fun j =>
      sqlColumn f.names[j]! ((List.replicate f.cols.length 0)[j]!) id pfloat ((storedRows cfg f).map (fun r => r[j]!))) =
      (f.cols.map readCol).map some := by
    have hnl : f.names.length = f.cols.length := by simp [LFrame.names]
    rw [hnl]
    conv => rhs; rw [← range_map_getElem f.cols]
    simp only [List.map_map]
    apply List.map_congr_left
    intro j hj
    have hj' : j < f.cols.length := by simpa using hj
    have h0 : (List.replicate f.cols.length 0)[j]! = 0 := by simp [hj']
    rw [h0]
    have := readback cfg f hwf pfloat j hj'
    simp only [resultColumn] at this
    rw [this]
    simp [hj']
  unfold readSqlS
  simp only [hne, hcols, hlegal, hdistinct, hlen]
  simp


/-! ### variant: a store that keeps NaN as NULL -/

def cellToValNanNull : Cell → SqlVal
  | .float b => if F64.isNaN b then .null else .float b
  | c => cellToVal c

def canonCell : Cell → Cell
  | .float b => if F64.isNaN b then .float F64.canonNaN else .float b
  | c => c

def isFloatCell : Cell → Bool
  | .float _ => true
  | _ => false

def isNaNCell : Cell → Bool
  | .float b => F64.isNaN b
  | _ => false

theorem mapM_cells_nanNull : ∀ (cells : List Cell), (∀ c ∈ cells, isFloatCell c = true) →
    (cells.map cellToValNanNull).mapM (specCell id .float) = some (cells.map canonCell) := by
  intro cells
  induction cells with
  | nil => intro _; simp
  | cons c cs ih =>
    intro h
    have hc := h c (by simp)
    have ih' := ih (fun x hx => h x (by simp [hx]))
    have : specCell id .float (cellToValNanNull c) = some (canonCell c) := by
      cases c with
      | float b => by_cases hb : F64.isNaN b = true <;> simp [cellToValNanNull, canonCell, specCell, hb]
      | _ => simp [isFloatCell] at hc
    simp [List.mapM_cons, this, ih']

/-- A store that keeps NaN as NULL: a float column with at least one non-NaN value comes back with its NaNs canonical. -/
theorem readback_cells_nanNull (name : Bytes) (pfloat : Bytes → Option UInt64) (cells : List Cell)
    (hty : ∀ c ∈ cells, isFloatCell c = true) (hex : ∃ c ∈ cells, isNaNCell c = false) :
    sqlColumn name 0 id pfloat (cells.map cellToValNanNull) =
      some { name := name, ty := .float, cells := (cells.map canonCell).toArray } := by
  have hval : ∀ c ∈ cells, cellToValNanNull c ≠ .null → kindOf (cellToValNanNull c) = .float := by
    intro c hc hn
    have := hty c hc
    cases c with
    | float b => by_cases hb : F64.isNaN b = true <;> simp_all [cellToValNanNull, kindOf]
    | _ => simp [isFloatCell] at this
  cases hf : (cells.map cellToValNanNull).find? (· != .null) with
  | none =>
    exfalso
    obtain ⟨c, hc, hcn⟩ := hex
    rw [List.find?_eq_none] at hf
    have h1 := hf (cellToValNanNull c) (List.mem_map_of_mem hc)
    have h2 := hty c hc
    cases c with
    | float b => simp_all [cellToValNanNull, isNaNCell]
    | _ => simp [isFloatCell] at h2
  | some v =>
    have hv : v ≠ .null := by
      have := List.find?_some hf
      simpa using this
    obtain ⟨c, hc, rfl⟩ := List.mem_map.1 (List.mem_of_find?_eq_some hf)
    rw [sqlColumn_plain name id pfloat _ _ hf hv, hval c hc hv, mapM_cells_nanNull cells hty]
    rfl

/-- A store that keeps NaN as NULL: a float column of NaNs only comes back as an untyped column — an error. -/
theorem readback_allNaN_unreadable (name : Bytes) (pfloat : Bytes → Option UInt64) (cells : List Cell)
    (hnan : ∀ c ∈ cells, isNaNCell c = true) :
    sqlColumn name 0 id pfloat (cells.map cellToValNanNull) = none := by
  apply sqlColumn_plain_none
  rw [List.find?_eq_none]
  intro v hv
  obtain ⟨c, hc, rfl⟩ := List.mem_map.1 hv
  have := hnan c hc
  cases c with
  | float b => simp_all [cellToValNanNull, isNaNCell]
  | _ => simp [isNaNCell] at this


/-! ## 4. shape of the statement text -/

/-! ### `strBytes` of `"$" ++ toString k` -/

theorem toList_loop (bs : ByteArray) : ∀ (k i : Nat) (r : List UInt8), bs.size - i = k → i ≤ bs.size →
    ByteArray.toList.loop bs i r = r.reverse ++ bs.data.toList.drop i := by
  have hsz : bs.data.toList.length = bs.size := by simp
  intro k
  induction k with
  | zero =>
    intro i r hk hi
    rw [ByteArray.toList.loop.eq_1]
    have : ¬ i < bs.size := by omega
    have hd : bs.data.toList.drop i = [] := by
      apply List.drop_eq_nil_of_le
      omega
    simp [this, hd]
  | succ k ih =>
    intro i r hk hi
    rw [ByteArray.toList.loop.eq_1]
    have hlt : i < bs.size := by omega
    rw [if_pos hlt, ih (i + 1) _ (by omega) (by omega)]
    have hlt' : i < bs.data.toList.length := by omega
    rw [List.drop_eq_getElem_cons hlt']
    have : bs.get! i = bs.data.toList[i] := by
      have hlt2 : i < bs.data.size := by simpa using hlt'
      simp only [ByteArray.get!]
      exact getElem!_pos bs.data i hlt2
    simp [this]

theorem byteArray_toList (bs : ByteArray) : bs.toList = bs.data.toList := by
  unfold ByteArray.toList
  rw [toList_loop bs bs.size 0 [] (by omega) (by omega)]
  simp

theorem strBytes_append (s t : String) : strBytes (s ++ t) = strBytes s ++ strBytes t := by
  simp [strBytes, String.toUTF8, byteArray_toList, String.toByteArray_append]

theorem strBytes_ofList (l : List Char) : strBytes (String.ofList l) = l.flatMap String.utf8EncodeChar := by
  simp [strBytes, String.toUTF8, byteArray_toList, String.toByteArray_ofList, List.utf8Encode]

theorem digit_bytes : ∀ (l : List Char), (∀ c ∈ l, c.isDigit = true) →
    l.flatMap String.utf8EncodeChar = l.map (fun c => UInt8.ofNat c.toNat) ∧ (44 : UInt8) ∉ l.map (fun c => UInt8.ofNat c.toNat) := by
  intro l
  induction l with
  | nil => intro _; simp
  | cons c cs ih =>
    intro h
    have hc := h c (by simp)
    obtain ⟨e, hn⟩ := ih (fun x hx => h x (by simp [hx]))
    simp only [Char.isDigit, Bool.and_eq_true, decide_eq_true_eq] at hc
    have h0 : ('0' : Char).val.toNat = 48 := by decide
    have h9 : ('9' : Char).val.toNat = 57 := by decide
    have hv : 48 ≤ c.toNat ∧ c.toNat ≤ 57 := by
      show 48 ≤ c.val.toNat ∧ c.val.toNat ≤ 57
      rw [← h0, ← h9]; exact ⟨UInt32.le_iff_toNat_le.1 hc.1, UInt32.le_iff_toNat_le.1 hc.2⟩
    have henc : String.utf8EncodeChar c = [UInt8.ofNat c.toNat] := by
      simp [String.utf8EncodeChar, show c.toNat ≤ 127 by omega]
    have hne : (44 : UInt8) ≠ UInt8.ofNat c.toNat := by
      intro h
      have := congrArg UInt8.toNat h
      simp at this
      omega
    constructor
    · simp [List.flatMap_cons, henc, e]
    · simp only [List.map_cons, List.mem_cons, not_or]
      exact ⟨hne, hn⟩

theorem dollar_bytes (k : Nat) :
    strBytes ("$" ++ toString k) = 36 :: (Nat.toDigits 10 k).map (fun c => UInt8.ofNat c.toNat) ∧
    (44 : UInt8) ∉ strBytes ("$" ++ toString k) := by
  have hd := digit_bytes (Nat.toDigits 10 k) (fun c hc => Nat.isDigit_of_mem_toDigits (by decide) (by decide) hc)
  have h1 : strBytes "$" = [36] := by decide +kernel
  have h2 : strBytes (toString k) = (Nat.toDigits 10 k).map (fun c => UInt8.ofNat c.toNat) := by
    show strBytes (String.ofList (Nat.toDigits 10 k)) = _
    rw [strBytes_ofList, hd.1]
  rw [strBytes_append, h1, h2]
  refine ⟨rfl, ?_⟩
  simp only [List.singleton_append, List.mem_cons, not_or]
  exact ⟨by decide, hd.2⟩

/-- The parameter markers of `Insert`. -/
def placeholders (cfg : SqlCfg) (n : Nat) : List Bytes :=
  (List.range n).map (fun i => if cfg.incrementing then strBytes ("$" ++ toString (i + 1)) else [63])

/-- `INSERT INTO <table> (<escaped names, comma separated>) VALUES (<placeholders, comma separated>);` -/
theorem insertText_shape (cfg : SqlCfg) (names : List Bytes) :
    insertText cfg names =
      strBytes "INSERT INTO " ++ escapeIdent cfg cfg.table ++ strBytes " (" ++
      intercalateB [44] (names.map (escapeIdent cfg)) ++ strBytes ") VALUES (" ++
      intercalateB [44] (placeholders cfg names.length) ++ strBytes ");" := rfl

theorem placeholders_length (cfg : SqlCfg) (n : Nat) : (placeholders cfg n).length = n := by
  simp [placeholders]

theorem placeholders_spec (cfg : SqlCfg) (n i : Nat) (h : i < n) :
    (placeholders cfg n)[i]'(by rw [placeholders_length]; exact h) =
      if cfg.incrementing then strBytes ("$" ++ toString (i + 1)) else [63] := by
  simp [placeholders]

theorem placeholders_question (cfg : SqlCfg) (hi : cfg.incrementing = false) (n : Nat) :
    placeholders cfg n = List.replicate n [63] := by
  apply List.ext_getElem
  · simp [placeholders]
  · intro i h1 h2
    simp [placeholders, hi]

theorem escapeIdent_none (cfg : SqlCfg) (h : cfg.escape = 0) (s : Bytes) : escapeIdent cfg s = s := by
  simp [escapeIdent, h]

theorem escapeIdent_wrap (cfg : SqlCfg) (h : cfg.escape ≠ 0) (s : Bytes) :
    escapeIdent cfg s = Json.encodeRune cfg.escape ++ s ++ Json.encodeRune cfg.escape := by
  simp [escapeIdent, h]

theorem intercalateB_nil (sep : Bytes) : intercalateB sep [] = [] := rfl
theorem intercalateB_singleton (sep x : Bytes) : intercalateB sep [x] = x := rfl
theorem intercalateB_cons_cons (sep x y : Bytes) (ys : List Bytes) :
    intercalateB sep (x :: y :: ys) = x ++ sep ++ intercalateB sep (y :: ys) := rfl

/-- splitting at a separator byte (`bytes.Split`) -/
def splitB (sep : UInt8) : Bytes → List Bytes
  | [] => [[]]
  | b :: bs =>
    if b = sep then [] :: splitB sep bs
    else match splitB sep bs with
      | [] => [[b]]
      | x :: xs => (b :: x) :: xs

theorem splitB_noSep (sep : UInt8) : ∀ (x : Bytes), sep ∉ x → splitB sep x = [x] := by
  intro x
  induction x with
  | nil => intro _; rfl
  | cons b bs ih =>
    intro h
    have hb : b ≠ sep := by intro e; exact h (by simp [e])
    have hbs : sep ∉ bs := by intro e; exact h (by simp [e])
    simp [splitB, hb, ih hbs]

theorem splitB_append (sep : UInt8) (rest : Bytes) : ∀ (x : Bytes), sep ∉ x →
    splitB sep (x ++ sep :: rest) = x :: splitB sep rest := by
  intro x
  induction x with
  | nil => intro _; simp [splitB]
  | cons b bs ih =>
    intro h
    have hb : b ≠ sep := by intro e; exact h (by simp [e])
    have hbs : sep ∉ bs := by intro e; exact h (by simp [e])
    simp [splitB, hb, ih hbs]

/-- Joining with commas loses nothing: splitting at the commas returns the names, in order. -/
theorem intercalateB_split (sep : UInt8) : ∀ (names : List Bytes), names ≠ [] → (∀ n ∈ names, sep ∉ n) →
    splitB sep (intercalateB [sep] names) = names := by
  intro names
  induction names with
  | nil => intro h; exact absurd rfl h
  | cons x xs ih =>
    intro _ hall
    cases xs with
    | nil => simpa [intercalateB] using splitB_noSep sep x (hall x (by simp))
    | cons y ys =>
      rw [intercalateB_cons_cons]
      have := ih (by simp) (fun n hn => hall n (by simp [hn]))
      rw [List.append_assoc, List.singleton_append, splitB_append sep _ x (hall x (by simp)), this]

/-- The column list of the statement is exactly the escaped names in frame order. -/
theorem columnList_split (cfg : SqlCfg) (names : List Bytes) (hne : names ≠ [])
    (hesc : 44 ∉ Json.encodeRune cfg.escape) (hall : ∀ n ∈ names, (44 : UInt8) ∉ n) :
    splitB 44 (intercalateB [44] (names.map (escapeIdent cfg))) = names.map (escapeIdent cfg) := by
  apply intercalateB_split
  · simpa using hne
  · intro n hn
    obtain ⟨m, hm, rfl⟩ := List.mem_map.1 hn
    have := hall m hm
    unfold escapeIdent
    by_cases h0 : cfg.escape = 0 <;> simp [h0, this, hesc]

theorem toSqlS_length (cfg : SqlCfg) (f : LFrame) : (toSqlS cfg f).length = f.n := by
  simp [toSqlS]

/-- Statement `r` is the INSERT text with row `r` of the frame as arguments. -/
theorem toSqlS_getElem (cfg : SqlCfg) (f : LFrame) (r : Nat) (h : r < f.n) :
    (toSqlS cfg f)[r]'(by rw [toSqlS_length]; exact h) = (insertText cfg f.names, f.row r) := by
  simp [toSqlS]

theorem row_getElem (f : LFrame) (r j : Nat) (hj : j < f.cols.length) :
    (f.row r)[j]'(by simpa [LFrame.row] using hj) = (f.cols[j]).cells[r]! := by
  simp [LFrame.row]


/-! ## examples -/

def exCfg : Cfg := { coerce := .none, precision := 2, fixedFn := fun _ b => b + 1, pfloat := fun _ => none }
def exText : List SqlVal := [.null, .text [97], .null, .text [98]]
def exFloat : List SqlVal := [.null, .null, .float 5, .null]

example : inScope exCfg.coerce exText = true := by decide
example : inScope exCfg.coerce exFloat = true := by decide
example : homogeneous exText = true ∧ nullsInTextOrFloat exText = true := by decide
example : (scanAll exCfg exText).toLCol [120] =
    some { name := [120], ty := .string, cells := #[.str none, .str (some [97]), .str none, .str (some [98])] } := by rfl
example : (scanAll exCfg exFloat).toLCol [120] =
    some { name := [120], ty := .float,
           cells := #[.float F64.canonNaN, .float F64.canonNaN, .float 6, .float F64.canonNaN] } := by rfl
example : sqlColumn [120] 0 exCfg.fixed exCfg.pfloat exFloat =
    some { name := [120], ty := .float,
           cells := #[.float F64.canonNaN, .float F64.canonNaN, .float 6, .float F64.canonNaN] } := by rfl

/-- The typedness hypothesis of `scan_refines_spec` cannot be dropped: `[1, "a"]` satisfies C19's NULL condition,
the code returns the int column `[1]`, the spec an error. -/
theorem scan_mixed_counterexample :
    nullsInTextOrFloat [.int 1, .text [97]] = true ∧
    (scanAll exCfg [.int 1, .text [97]]).toLCol [120] = some (mkCol [120] .int [.int 1]) ∧
    sqlColumn [120] 0 exCfg.fixed exCfg.pfloat [.int 1, .text [97]] = none := by
  refine ⟨by decide, rfl, rfl⟩

theorem scan_leading_null_int_counterexample :
    (scanAll exCfg [.null, .int 7]).toLCol [120] = some (mkCol [120] .int [.int 7]) ∧
    sqlColumn [120] 0 exCfg.fixed exCfg.pfloat [.null, .int 7] = none := by
  refine ⟨rfl, rfl⟩

def exFrame : LFrame := { n := 2, cols := [
  { name := [105], ty := .int, cells := #[.int 1, .int (-2)] },
  { name := [102], ty := .float, cells := #[.float F64.canonNaN, .float 0x3ff0000000000000] },
  { name := [115], ty := .string, cells := #[.str none, .str (some [97])] },
  { name := [101], ty := .enum, vals := [[97], [98]], strict := true, cells := #[.str (some [98]), .str none] },
  { name := [98], ty := .bool, cells := #[.bool true, .bool false] } ] }

theorem exFrame_wf : FrameWF exFrame := by
  unfold FrameWF ColWF
  decide

example : exFrame.names.all legalName = true ∧ exFrame.names.eraseDups.length = exFrame.names.length := by decide

/-- the round trip theorem instantiated on the example frame -/
example : readSqlS exFrame.names (List.replicate exFrame.cols.length 0) id (fun _ => none)
    (storedRows ⟨34, true, [116]⟩ exFrame) = .ok { cols := exFrame.cols.map readCol, n := exFrame.n } :=
  readback_frame ⟨34, true, [116]⟩ exFrame exFrame_wf (fun _ => none) (by decide) (by decide)

example : inScope .int64ToBool [.int 1, .int 0] = true ∧ inScope .stringToFloat [.null, .text [49]] = true := by decide

example : storedRows ⟨34, true, [116]⟩ exFrame =
    [[.int 1, .float F64.canonNaN, .null, .text [98], .bool true],
     [.int (-2), .float 0x3ff0000000000000, .text [97], .null, .bool false]] := by decide


/-- the k-th placeholder: `?`, or `$` followed by the decimal digits of k+1 -/
theorem placeholder_bytes (cfg : SqlCfg) (n i : Nat) (h : i < n) :
    (placeholders cfg n)[i]'(by rw [placeholders_length]; exact h) =
      if cfg.incrementing then 36 :: (Nat.toDigits 10 (i + 1)).map (fun c => UInt8.ofNat c.toNat) else [63] := by
  rw [placeholders_spec cfg n i h, (dollar_bytes (i + 1)).1]

/-- the placeholder list splits back at the commas: exactly `n` placeholders, in order -/
theorem placeholders_split (cfg : SqlCfg) (n : Nat) (hn : 0 < n) :
    splitB 44 (intercalateB [44] (placeholders cfg n)) = placeholders cfg n := by
  apply intercalateB_split
  · intro h
    have := placeholders_length cfg n
    rw [h] at this
    simp at this
    omega
  · intro p hp
    simp only [placeholders, List.mem_map, List.mem_range] at hp
    obtain ⟨i, _, rfl⟩ := hp
    by_cases hi : cfg.incrementing = true
    · simp only [hi, if_true]; exact (dollar_bytes (i + 1)).2
    · simp [hi]

example : placeholders ⟨34, true, [116]⟩ 3 = [[36, 49], [36, 50], [36, 51]] := by decide +kernel
example : placeholders ⟨34, false, [116]⟩ 3 = [[63], [63], [63]] := by decide
example : insertText ⟨34, true, [116]⟩ [[97], [98]] = strBytes "INSERT INTO \"t\" (\"a\",\"b\") VALUES ($1,$2);" := by
  decide +kernel
example : insertText ⟨0, false, [116]⟩ [[97], [98]] = strBytes "INSERT INTO t (a,b) VALUES (?,?);" := by
  decide +kernel

#print axioms scan_refines_spec
#print axioms scan_refines_spec_C19
#print axioms scan_refines_spec_partial
#print axioms run
#print axioms scan_all_null
#print axioms scan_leading_nulls_dropped
#print axioms scan_other_kind_ignored
#print axioms scan_mixed_counterexample
#print axioms readback
#print axioms readback_frame
#print axioms readback_cells_nanNull
#print axioms readback_allNaN_unreadable
#print axioms insertText_shape
#print axioms placeholders_spec
#print axioms placeholder_bytes
#print axioms placeholders_split
#print axioms escapeIdent_wrap
#print axioms intercalateB_split
#print axioms columnList_split
#print axioms toSqlS_getElem

end QF.Props.C19Sql
