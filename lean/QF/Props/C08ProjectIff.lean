import QF.Props.C08ProjectGen
/-!
# C08 — `Slice` / `Select` / `Drop` / `Copy` of today's source, end to end (tie T1, composition)

`C08Guards.gen_guards_semantics` says which requests the regenerated guard chains reject, `C08ProjectGen.gen_project_semantics`
what the regenerated work does with a request the guards let through (the spec's logical frame, a well-formed physical
frame), `C08ProjectGen.gen_project_total` puts chain and work together for the logical frame. Here the three are composed
into ONE statement per operation, for ALL arguments:

* `gen_project_end_to_end` — on every heap, for every well-formed physical frame without error and with pairwise different
  column names, and every `Slice(a, b)` / `Select(names…)` / `Drop(names…)` / `Copy(dst, src)` (valid or not): the whole
  operation as regenerated (guard chain, then the work) has a value; the frame it returns carries an error EXACTLY when the
  spec function (`sliceS` / `selectS` / `dropS` / `copyS` on the logical frame of the receiver) returns `.err` — then it is
  the receiver itself with the error set, on the same heap, with no write at all —; otherwise its logical frame is the
  spec's; and in every case it is again well-formed (`PWF`) with pairwise different names (`Select`: if the requested
  names are pairwise different — `Select("a", "a")` builds a frame with two columns `a`, in the code and in the spec).
* `gen_project_err_iff`    — … read as "rejects iff", spelled out: `Slice` iff `a < 0 ∨ a > b ∨ b > n`, `Select` / `Drop` iff a
  requested name is not a column, `Copy` iff `src` is not a column or `dst ≠ src` is not a legal name.
No hypothesis restricts the requests; `PWF`, `UniqueNames` and `f.err = false` describe the receiver and are preserved
(so the statement applies again to the result; a receiver WITH an error comes back as it is: `gen_project_sticky`).
-/
namespace QF.Props.C08ProjectIff
open QF QF.Props.C08Guards QF.Props.C08ProjectGen

/-- The result `o` of a whole operation on the receiver `f` against the spec's result `spec`: there is one; it is
well-formed (and has pairwise different names if `uniq`); it carries an error exactly when the spec rejects, and then it is
the receiver with the error set, the heap as it was and nothing written; otherwise its logical frame is the spec's. -/
def EndToEnd (h : Heap) (f : PFrame) (L : Nat) (uniq : Prop) (spec : Res) (o : Option POut) : Prop :=
  ∃ f' h' w, o = some (.frame f', h', w) ∧ PWF h' f' L ∧ (uniq → UniqueNames h' f') ∧
    (spec = .err ↔ f'.err = true) ∧
    match spec with
    | .ok l => f'.err = false ∧ f'.abs h' = l
    | .err => f' = { f with err := true } ∧ h' = h ∧ w = []

theorem genFull_cases (op : String) (q : GReq) (E : PIn) (h : Heap) (g : GOut) :
    genGuards op q = some g →
    genFull op q E h =
      match g with
      | .returnSelf => some (.frame E.f, h, [])
      | .err => some (.frame { E.f with err := true }, h, [])
      | .ok => (genOp op).run E h
      | _ => none := by
  intro hg
  unfold genFull
  rw [hg]
  cases g <;> first | exact helper_err E h | rfl

theorem pwf_err {h : Heap} {f : PFrame} {L : Nat} (wf : PWF h f L) : PWF h { f with err := true } L :=
  ⟨wf.ixValid, wf.colsIn, wf.mapIn, wf.pos, wf.mapOk, wf.mapTotal, wf.hasCol, wf.ixLt⟩

theorem ok_err_iff (l : LFrame) {b : Bool} (hb : b = false) : (Res.ok l = Res.err) ↔ b = true :=
  ⟨(fun x => by cases x), (fun x => by rw [hb] at x; cases x)⟩

/-- guard chain and work put together -/
theorem assemble (h : Heap) (f : PFrame) (L : Nat) (wf : PWF h f L) (u : UniqueNames h f) (he : f.err = false)
    (uniq : Prop) (spec : Res) (g : GOut) (run o : Option POut)
    (ho : o = match g with
      | .returnSelf => some (.frame f, h, [])
      | .err => some (.frame { f with err := true }, h, [])
      | .ok => run
      | _ => none)
    (T : Agrees h f spec o)
    (hok : g = .ok → ∃ f' h' w, run = some (.frame f', h', w) ∧ spec = .ok (f'.abs h') ∧ PWF h' f' L ∧
      (uniq → UniqueNames h' f')) :
    EndToEnd h f L uniq spec o := by
  obtain ⟨f', h', w, e, hm⟩ := T
  cases g with
  | returnSelf =>
    rw [ho] at e
    simp only [Option.some.injEq, Prod.mk.injEq, PRes.frame.injEq] at e
    obtain ⟨rfl, rfl, rfl⟩ := e
    cases spec with
    | ok l => exact ⟨f, h, [], ho, wf, fun _ => u, ok_err_iff l he, hm⟩
    | err => rw [he] at hm; cases hm.1
  | err =>
    rw [ho] at e
    simp only [Option.some.injEq, Prod.mk.injEq, PRes.frame.injEq] at e
    obtain ⟨rfl, rfl, rfl⟩ := e
    cases spec with
    | ok l => cases hm.1
    | err => exact ⟨_, h, [], ho, pwf_err wf, fun _ => u, ⟨fun _ => rfl, fun _ => rfl⟩, rfl, rfl, rfl⟩
  | ok =>
    obtain ⟨f2, h2, w2, e2, hs, hw, hu⟩ := hok rfl
    rw [ho] at e
    simp only at e
    rw [e2] at e
    simp only [Option.some.injEq, Prod.mk.injEq, PRes.frame.injEq] at e
    obtain ⟨rfl, rfl, rfl⟩ := e
    subst hs
    exact ⟨f2, h2, w2, by rw [ho]; exact e2, hw, hu, ok_err_iff _ hm.1, hm⟩
  | _ => rw [ho] at e; cases e


theorem not_any_known {h : Heap} {f : PFrame} {names : List Bytes}
    (hb : ¬ names.any (fun n => !(f.lookup h n).isSome) = true) : ∀ x, x ∈ names → (f.lookup h x).isSome = true := by
  intro x hx
  cases hv : (f.lookup h x).isSome with
  | true => rfl
  | false => exact absurd (List.any_eq_true.mpr ⟨x, hx, by simp [hv]⟩) hb

theorem slice_end_to_end (X : Ext) (h : Heap) (f : PFrame) (L : Nat) (wf : PWF h f L) (u : UniqueNames h f)
    (he : f.err = false) (a b : Int) :
    EndToEnd h f L True (sliceS (f.abs h) a b)
      (genFull "Slice" { physReq h f with start := a, stop := b } { genEnv X f with start := a, stop := b } h) := by
  have T := (gen_project_total X h f L wf u he).1 a b
  refine assemble h f L wf u he True _ _ _ _ (genFull_cases _ _ _ _ _ (gen_slice_outcome _)) T (fun hg => ?_)
  have hnb : ¬ (a < 0 ∨ b < a ∨ (f.index.len : Int) < b) := by
    intro hbad
    have e : sliceOutcome { physReq h f with start := a, stop := b } = .err := by
      simp only [sliceOutcome, physReq, he, Bool.false_eq_true, if_false]
      rw [if_pos hbad]
    rw [e] at hg; cases hg
  obtain ⟨f', h', w, e1, e2, e3, e4⟩ := (gen_project_semantics X h f L wf u).1 a b (by omega) (by omega) (by omega)
  exact ⟨f', h', w, e1, e2, e3, fun _ => e4⟩

theorem select_end_to_end (X : Ext) (h : Heap) (f : PFrame) (L : Nat) (wf : PWF h f L) (u : UniqueNames h f)
    (he : f.err = false) (names : List Bytes) :
    EndToEnd h f L names.Nodup (selectS (f.abs h) names)
      (genFull "Select" { physReq h f with columns := names } { genEnv X f with names := names } h) := by
  have T := (gen_project_total X h f L wf u he).2.1 names
  refine assemble h f L wf u he _ _ _ _ _ (genFull_cases _ _ _ _ _ (gen_select_outcome _)) T (fun hg => ?_)
  have hnb : ¬ names.any (fun n => !(f.lookup h n).isSome) = true := by
    intro hbad
    have e : selectOutcome { physReq h f with columns := names } = .err := by
      simp only [selectOutcome, physReq, he, Bool.false_eq_true, if_false]
      rw [if_pos hbad]
    rw [e] at hg; cases hg
  obtain ⟨f', h', w, e1, e2, e3, e4⟩ := (gen_project_semantics X h f L wf u).2.1 names (not_any_known hnb)
  exact ⟨f', h', w, e1, e2, e3, e4⟩

theorem drop_end_to_end (X : Ext) (h : Heap) (f : PFrame) (L : Nat) (wf : PWF h f L) (u : UniqueNames h f)
    (he : f.err = false) (names : List Bytes) :
    EndToEnd h f L True (dropS (f.abs h) names)
      (genFull "Drop" { physReq h f with columns := names } { genEnv X f with names := names } h) := by
  have T := (gen_project_total X h f L wf u he).2.2.1 names
  refine assemble h f L wf u he True _ _ _ _ (genFull_cases _ _ _ _ _ (gen_drop_outcome _)) T (fun hg => ?_)
  have hne : names ≠ [] := by
    intro hemp
    subst hemp
    have e : dropOutcome { physReq h f with columns := [] } = .returnSelf := by
      simp only [dropOutcome, List.isEmpty_nil, Bool.or_true, if_true]
    rw [e] at hg; cases hg
  have hemp : names.isEmpty = false := by cases names with | nil => exact absurd rfl hne | cons _ _ => rfl
  have hnb : ¬ names.any (fun n => !(f.lookup h n).isSome) = true := by
    intro hbad
    have e : dropOutcome { physReq h f with columns := names } = .err := by
      simp only [dropOutcome, physReq, he, hemp, Bool.or_false, Bool.false_eq_true, if_false]
      rw [if_pos hbad]
    rw [e] at hg; cases hg
  obtain ⟨f', h', w, e1, e2, e3, e4⟩ := (gen_project_semantics X h f L wf u).2.2.1 he names hne (not_any_known hnb)
  exact ⟨f', h', w, e1, e2, e3, fun _ => e4⟩

theorem copy_end_to_end (X : Ext) (h : Heap) (f : PFrame) (L : Nat) (wf : PWF h f L) (u : UniqueNames h f)
    (he : f.err = false) (dst src : Bytes) :
    EndToEnd h f L True (copyS (f.abs h) dst src)
      (genFull "Copy" { physReq h f with dst := dst, src := src } { genEnv X f with dst := dst, src := src } h) := by
  have T := (gen_project_total X h f L wf u he).2.2.2 dst src
  refine assemble h f L wf u he True _ _ _ _ (genFull_cases _ _ _ _ _ (gen_copy_outcome _)) T (fun hg => ?_)
  have hout : copyOutcome { physReq h f with dst := dst, src := src } =
      if !(f.lookup h src).isSome then GOut.err else if dst == src then GOut.returnSelf
      else if !legalName dst then GOut.err else GOut.ok := by
    simp only [copyOutcome, physReq, he, Bool.false_eq_true, if_false]
  rw [hout] at hg
  have h1 : (f.lookup h src).isSome = true := by
    cases hv : (f.lookup h src).isSome with
    | true => rfl
    | false => rw [hv] at hg; cases hg
  have h2 : dst ≠ src := by
    intro e
    rw [h1, e] at hg
    simp at hg
  have h2b : (dst == src) = false := beq_false_of_ne h2
  have h3 : legalName dst = true := by
    cases hv : legalName dst with
    | true => rfl
    | false => rw [h1, h2b, hv] at hg; cases hg
  obtain ⟨f', h', w, e1, e2, e3, e4⟩ := (gen_project_semantics X h f L wf u).2.2.2 dst src h1 h2 h3
  exact ⟨f', h', w, e1, e2, e3, fun _ => e4⟩


/-- **`Slice`, `Select`, `Drop`, `Copy` of today's source, end to end.** For every heap `h`, every physical frame `f` on it
that is well-formed (`PWF`), has pairwise different column names and carries no error, and ALL arguments (valid or not): the
whole operation as regenerated — the guard chain `QF.Gen.guardAst` (`C08Guards`), then the work `QF.Gen.projectAst`
(`C08ProjectGen`; `Drop` ends in today's whole `Select`) — returns a frame (`EndToEnd`)
* that carries an error EXACTLY when `sliceS` / `selectS` / `dropS` / `copyS` of the logical frame `f.abs h` is `.err`, and is
  then the receiver itself with the error set, on the unchanged heap, with no write;
* whose logical frame is otherwise exactly the spec's (`Slice`: rows `a … b-1` of every column in the index's order;
  `Select`: the requested columns in the requested order; `Drop`: the remaining columns in the original order; `Copy`: the
  source's cells under the new name, replacing the column of that name in its place or appended last);
* and that is in every case well-formed again, with pairwise different names (`Select`: if the requested names are
  pairwise different).
Nothing is excluded: the hypotheses describe the receiver only, every operation re-establishes them, `New`'s frames have
them, and a receiver that carries an error comes back as it is (`C08ProjectGen.gen_project_sticky`). (Go's `int` is 64 bit,
`a`, `b` here are unbounded: that only restricts the requests.) -/
theorem gen_project_end_to_end (X : Ext) (h : Heap) (f : PFrame) (L : Nat) (wf : PWF h f L) (u : UniqueNames h f)
    (he : f.err = false) :
    (∀ a b : Int, EndToEnd h f L True (sliceS (f.abs h) a b)
      (genFull "Slice" { physReq h f with start := a, stop := b } { genEnv X f with start := a, stop := b } h)) ∧
    (∀ names : List Bytes, EndToEnd h f L names.Nodup (selectS (f.abs h) names)
      (genFull "Select" { physReq h f with columns := names } { genEnv X f with names := names } h)) ∧
    (∀ names : List Bytes, EndToEnd h f L True (dropS (f.abs h) names)
      (genFull "Drop" { physReq h f with columns := names } { genEnv X f with names := names } h)) ∧
    (∀ dst src : Bytes, EndToEnd h f L True (copyS (f.abs h) dst src)
      (genFull "Copy" { physReq h f with dst := dst, src := src } { genEnv X f with dst := dst, src := src } h)) :=
  ⟨slice_end_to_end X h f L wf u he, select_end_to_end X h f L wf u he, drop_end_to_end X h f L wf u he,
   copy_end_to_end X h f L wf u he⟩

/-- does the result of an operation carry an error? (`none`: no result) -/
def errOf : Option POut → Option Bool
  | some (.frame f', _, _) => some f'.err
  | _ => none

theorem errOf_of {h : Heap} {f : PFrame} {L : Nat} {uniq : Prop} {spec : Res} {o : Option POut}
    (e : EndToEnd h f L uniq spec o) : ∃ b, errOf o = some b ∧ (b = true ↔ spec = .err) := by
  obtain ⟨f', h', w, ho, _, _, hi, _⟩ := e
  exact ⟨f'.err, by rw [ho]; rfl, hi.symm⟩

/-- **… read as "rejects iff"**, with the conditions spelled out (`C10Sticky`): the whole regenerated operation returns a
frame, and the frame carries an error iff — `Slice(a, b)`: `a < 0 ∨ a > b ∨ b > n`; `Select` / `Drop`: a requested name is
not a column (`Drop()` of nothing never); `Copy(dst, src)`: `src` is not a column, or `dst ≠ src` and `dst` is not a legal
name. -/
theorem gen_project_err_iff (X : Ext) (h : Heap) (f : PFrame) (L : Nat) (wf : PWF h f L) (u : UniqueNames h f)
    (he : f.err = false) :
    (∀ a b : Int, ∃ e, errOf (genFull "Slice" { physReq h f with start := a, stop := b }
        { genEnv X f with start := a, stop := b } h) = some e ∧
      (e = true ↔ a < 0 ∨ a > b ∨ b > (f.abs h).n)) ∧
    (∀ names : List Bytes, ∃ e, errOf (genFull "Select" { physReq h f with columns := names }
        { genEnv X f with names := names } h) = some e ∧
      (e = true ↔ ∃ n ∈ names, (f.abs h).has n = false)) ∧
    (∀ names : List Bytes, ∃ e, errOf (genFull "Drop" { physReq h f with columns := names }
        { genEnv X f with names := names } h) = some e ∧
      (e = true ↔ ∃ n ∈ names, (f.abs h).has n = false)) ∧
    (∀ dst src : Bytes, ∃ e, errOf (genFull "Copy" { physReq h f with dst := dst, src := src }
        { genEnv X f with dst := dst, src := src } h) = some e ∧
      (e = true ↔ (f.abs h).has src = false ∨ (dst ≠ src ∧ legalName dst = false))) := by
  obtain ⟨t1, t2, t3, t4⟩ := gen_project_end_to_end X h f L wf u he
  refine ⟨fun a b => ?_, fun names => ?_, fun names => ?_, fun dst src => ?_⟩
  · obtain ⟨e, h1, h2⟩ := errOf_of (t1 a b)
    exact ⟨e, h1, h2.trans (C10Sticky.sliceS_err_iff _ a b)⟩
  · obtain ⟨e, h1, h2⟩ := errOf_of (t2 names)
    exact ⟨e, h1, h2.trans (C10Sticky.selectS_err_iff _ names)⟩
  · obtain ⟨e, h1, h2⟩ := errOf_of (t3 names)
    exact ⟨e, h1, h2.trans (C10Sticky.dropS_err_iff _ names)⟩
  · obtain ⟨e, h1, h2⟩ := errOf_of (t4 dst src)
    exact ⟨e, h1, h2.trans (C10Sticky.copyS_err_iff _ dst src)⟩

/-! ## A concrete instance -/

section Example

/-- the frame of `C08ProjectGen` (columns `a: int`, `b: bool`, physical length 3, rows in the order 2, 0, 1) meets the
hypotheses … -/
example : PWF exH exF 3 ∧ UniqueNames exH exF ∧ exF.err = false := ⟨exF_wf, exF_unique, rfl⟩

/-- … and the whole operations compute on it: valid requests give the spec's cells, invalid ones (`Slice(2, 4)` on three
rows, `Select("z")`, `Drop("z")`, `Copy("$x", "a")`, `Copy("c", "z")`) give an error. -/
example :
    shown (genFull "Slice" { physReq exH exF with start := 1, stop := 3 } { genEnv exX exF with start := 1, stop := 3 } exH) =
      some [([97], [.int 10, .int 11]), ([98], [.bool true, .bool false])] ∧
    errOf (genFull "Slice" { physReq exH exF with start := 2, stop := 4 } { genEnv exX exF with start := 2, stop := 4 } exH) =
      some true ∧
    errOf (genFull "Select" { physReq exH exF with columns := [[122]] } { genEnv exX exF with names := [[122]] } exH) =
      some true ∧
    shown (genFull "Drop" { physReq exH exF with columns := [[97]] } { genEnv exX exF with names := [[97]] } exH) =
      some [([98], [.bool true, .bool true, .bool false])] ∧
    errOf (genFull "Drop" { physReq exH exF with columns := [[122]] } { genEnv exX exF with names := [[122]] } exH) =
      some true ∧
    errOf (genFull "Copy" { physReq exH exF with dst := [36, 120], src := [97] }
      { genEnv exX exF with dst := [36, 120], src := [97] } exH) = some true ∧
    errOf (genFull "Copy" { physReq exH exF with dst := [99], src := [122] }
      { genEnv exX exF with dst := [99], src := [122] } exH) = some true ∧
    errOf (genFull "Copy" { physReq exH exF with dst := [99], src := [97] }
      { genEnv exX exF with dst := [99], src := [97] } exH) = some false := by
  refine ⟨?_, ?_, ?_, ?_, ?_, ?_, ?_, ?_⟩ <;> decide +kernel

end Example

end QF.Props.C08ProjectIff

#print axioms QF.Props.C08ProjectIff.gen_project_end_to_end
#print axioms QF.Props.C08ProjectIff.gen_project_err_iff
