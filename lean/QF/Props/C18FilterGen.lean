import QF.Gen.StringsFns
import QF.Core.STExec
import QF.Core.Small
/-!
# C18 / C17 — how a like / ilike filter applies the matcher, in today's source (tie T1)

`QF.Gen.stringsFns` (regenerated on every run by go/cmd/extract/strast.go) holds, as terms of the language `QF.ST`
(QF/Core/STExpr.lean), the bodies of

* the function `(index.Int, Column, string, index.Bool, bool) error` of /repo/internal/scolumn (today `regexFilter`; `like` and
  `ilike` of the string column forward to it): `NewMatcher`, the error wrapped by `qerrors.Propagate`, the loop over `bIndex`
  with the guard `if !x`, the cell access `s.stringAt(index[i])`, `if !isNull { bIndex[i] = matcher.Matches(s) }`;
* the function `(string, []string, bool) (*bitset, error)` of /repo/internal/ecolumn (today `filterLike`): `NewMatcher`, the
  loop over the enum's value table with `if matcher.Matches(v) { bset.set(enumVal(i)) }`.

`NewMatcher` itself is regenerated and proved in C18Matcher; here it is the environment's `newMatcher` (any function). The cell
access `stringAt` is recognised by its body (pointer, null bit, slice of the data) and means "the cell"; `bitset.set` is the
hand mirror `Small.bsSet`.

* `gen_likefilter_no_opaque`, `gen_likefilter_canon` — today's extraction is complete and equal to the canonical terms.
* `gen_likefilter_semantics` — string column: the call returns nil and leaves in `bIndex`, at every position `i`,
  `bIndex[i] || (cell index[i] is not null and the matcher accepts its string)`: a row that was already kept stays kept
  (the accumulate-only-if-false rule), a row that was not is kept iff it is non-null and matches (`gen_like_row_kept`); a
  pattern `NewMatcher` rejects gives the wrapped error and leaves `bIndex` alone. Enum column: the call returns a bitset in
  which code `w < 256` is set iff `w` is the position of a value of the table that the matcher accepts, for tables of at most
  256 values — the function `bsetOf` that C02Kernels' `gen_kernel_semantics_like_enum` assumes of the bitset.
* witnesses: `!x` dropped, `!isNull` dropped, `enumVal(i+1)` are different terms and give other results on concrete inputs.
-/
set_option linter.unusedSimpArgs false
namespace QF.Props.C18FilterGen
open QF QF.ST

/-! ## The canonical terms -/

/-- string column, variables 0 `index`, 1 `s`, 2 `comparatee`, 3 `bIndex`, 4 `caseSensitive`, 5 `matcher`, 6 `err`, 7 `i`, 8 `x`,
9 `s` (the cell), 10 `isNull`: `if !x { s, isNull := s.stringAt(index[i]); if !isNull { bIndex[i] = matcher.Matches(s) } }` -/
abbrev sBody : S := S.block [
  S.ite (E.not (E.var 8))
    (S.block [
      S.stringAt (L.var 9) (L.var 10) (E.var 1) (E.at (E.var 0) (E.var 7)),
      S.ite (E.not (E.var 10)) (S.block [S.setAt 3 (E.var 7) (E.matches (E.var 5) (E.var 9))]) (S.block [])])
    (S.block [])]

def fnLikeS : ST.Fn := { params := 5, body := S.block [
  S.newMatcher (L.var 5) (L.var 6) (E.var 2) (E.var 4),
  S.ite (E.not (E.isNil (E.var 6))) (S.block [S.ret [E.propagate "Regex filter" (E.var 6)]]) (S.block []),
  S.rangeVar (L.var 7) (L.var 8) 3 sBody,
  S.ret [E.nilErr]] }

/-- enum column, variables 0 `comp`, 1 `values`, 2 `caseSensitive`, 3 `matcher`, 4 `err`, 5 `bset`, 6 `i`, 7 `v`:
`if matcher.Matches(v) { bset.set(enumVal(i)) }` -/
abbrev eBody : S := S.block [
  S.ite (E.matches (E.var 3) (E.var 7)) (S.block [S.bsSet 5 (E.conv NK.byte (E.var 6))]) (S.block [])]

def fnLikeE : ST.Fn := { params := 3, body := S.block [
  S.newMatcher (L.var 3) (L.var 4) (E.var 0) (E.var 2),
  S.ite (E.not (E.isNil (E.var 4))) (S.block [S.ret [E.nilBitset, E.propagate "enum like" (E.var 4)]]) (S.block []),
  S.assign (L.var 5) E.newBitset,
  S.rangeVar (L.var 6) (L.var 7) 1 eBody,
  S.ret [E.var 5, E.nilErr]] }

theorem gen_likefilter_no_opaque :
    ∀ f ∈ [FnId.likeStrings, FnId.likeEnum], ∃ fn, Gen.stringsFns.lookup f = some fn ∧ fn.body.hasOpaque = false := by decide

theorem gen_likefilter_canon :
    Gen.stringsFns.lookup .likeStrings = some fnLikeS ∧ Gen.stringsFns.lookup .likeEnum = some fnLikeE := by decide

/-! ## The string column -/

/-- the cell is not null and the matcher accepts its string -/
def keep (f : Bytes → Bool) (col : Col) (r : Nat) : Bool :=
  match col[r]! with
  | some t => f t
  | none => false

/-- what the loop leaves in `bIndex`: positions from `k` on accumulate `keep` -/
def upd (f : Bytes → Bool) (col : Col) (index : List Nat) (k : Nat) (l : List Bool) : List Bool :=
  l.mapIdx fun i x => if k ≤ i then x || keep f col index[i]! else x

/-- the variables of the loop -/
structure LS (σ : Store) (index : List Nat) (col : Col) (f : Bytes → Bool) (l : List Bool) : Prop where
  h0 : σ 0 = some (.rows index)
  h1 : σ 1 = some (.col col)
  h5 : σ 5 = some (.matcher f)
  h3 : σ 3 = some (.bools l)

theorem set_getElem!_self (l : List Bool) (k : Nat) (h : k < l.length) : l.set k l[k]! = l := by
  rw [getElem!_pos l k h]; exact List.set_getElem_self h

/-- One round of the loop at position `k`: `bIndex[k]` becomes `bIndex[k] || keep …`, nothing else changes. -/
theorem s_step (Γ : Env) (σ : Store) (index : List Nat) (col : Col) (f : Bytes → Bool) (l : List Bool) (k : Nat)
    (hs : LS σ index col f l) (hk : k < l.length) (hki : k < index.length) (hc : index[k]! < col.length) :
    ∃ σ', stepOf Γ sBody ((σ.set 7 (.int k)).set 8 (.bool l[k]!)) = .next σ' ∧
      LS σ' index col f (l.set k (l[k]! || keep f col index[k]!)) := by
  obtain ⟨h0, h1, h5, h3⟩ := hs
  unfold stepOf keep
  cases hx : l[k]!
  · -- not yet kept: look at the cell
    cases hcell : col[index[k]!]! with
    | none =>
      refine ⟨_, by st_simp [h0, h1, h5, h3, hcell]; rfl, ?_⟩
      have : l.set k false = l := by rw [← hx]; exact set_getElem!_self l k hk
      simp only [Bool.false_or, this]
      exact ⟨by simp [set_apply, h0], by simp [set_apply, h1], by simp [set_apply, h5], by simp [set_apply, h3]⟩
    | some t =>
      refine ⟨_, by st_simp [h0, h1, h5, h3, hcell]; rfl, ?_⟩
      simp only [Bool.false_or]
      exact ⟨by simp [set_apply, h0], by simp [set_apply, h1], by simp [set_apply, h5], by simp [set_apply]⟩
  · -- already kept: nothing happens
    refine ⟨_, by st_simp [h0, h1, h5, h3]; rfl, ?_⟩
    have : l.set k true = l := by rw [← hx]; exact set_getElem!_self l k hk
    simp only [Bool.true_or, this]
    exact ⟨by simp [set_apply, h0], by simp [set_apply, h1], by simp [set_apply, h5], by simp [set_apply, h3]⟩

theorem upd_end (f : Bytes → Bool) (col : Col) (index : List Nat) (l : List Bool) : upd f col index l.length l = l := by
  apply List.ext_getElem
  · simp [upd]
  · intro i h1 h2
    have : ¬ l.length ≤ i := by omega
    simp [upd, this]

theorem upd_step (f : Bytes → Bool) (col : Col) (index : List Nat) (l : List Bool) (k : Nat) (hk : k < l.length) :
    upd f col index (k + 1) (l.set k (l[k]! || keep f col index[k]!)) = upd f col index k l := by
  apply List.ext_getElem
  · simp [upd]
  · intro i h1 h2
    have hi : i < l.length := by simpa [upd] using h2
    simp only [upd, List.getElem_mapIdx, List.getElem_set]
    by_cases e : k = i
    · subst e
      have : ¬ k + 1 ≤ k := by omega
      simp [this, getElem!_pos l k hk]
    · have : (k + 1 ≤ i) = (k ≤ i) := by simp; omega
      simp [e, this]

/-- the loop from position `k` on -/
theorem s_loop (Γ : Env) (index : List Nat) (col : Col) (f : Bytes → Bool) (len : Nat) : ∀ (n k : Nat) (σ : Store) (l : List Bool),
    LS σ index col f l → k + n = l.length → l.length ≤ index.length → (∀ j, j < l.length → index[j]! < col.length) →
    ∃ σ', iterVar (.var 7) (.var 8) 3 (stepOf Γ sBody) len n k σ = .next σ' ∧ LS σ' index col f (upd f col index k l) := by
  intro n
  induction n with
  | zero =>
    intro k σ l hs hk _ _
    have : k = l.length := by omega
    subst this
    exact ⟨σ, rfl, by rw [upd_end]; exact hs⟩
  | succ n ih =>
    intro k σ l hs hk hli hcol
    have hkl : k < l.length := by omega
    obtain ⟨σ1, hstep, hs1⟩ := s_step Γ σ index col f l k hs hkl (by omega) (hcol k hkl)
    obtain ⟨σ', hit, hs'⟩ := ih (k + 1) σ1 _ hs1 (by simp; omega) (by simpa using hli) (by simpa using hcol)
    refine ⟨σ', ?_, by rw [← upd_step f col index l k hkl]; exact hs'⟩
    rw [iterVar, hs.h3]
    simp only [Val.index]
    rw [if_pos (by omega)]
    simp only [Int.toNat_natCast, assignL]
    rw [hstep]
    exact hit

/-- what the filter leaves in `bIndex` -/
def likeRows (f : Bytes → Bool) (col : Col) (index : List Nat) (bIndex : List Bool) : List Bool :=
  bIndex.mapIdx fun i x => x || keep f col index[i]!

theorem upd_zero (f : Bytes → Bool) (col : Col) (index : List Nat) (l : List Bool) : upd f col index 0 l = likeRows f col index l := by
  simp [upd, likeRows]

/-- the string-column filter with a pattern `NewMatcher` accepts -/
theorem likeS_ok (Γ : Env) (pat : Bytes) (cs : Bool) (f : Bytes → Bool) (hm : Γ.newMatcher pat cs = .ok f)
    (index : List Nat) (col : Col) (bIndex : List Bool) (hlen : bIndex.length ≤ index.length)
    (hcol : ∀ j, j < bIndex.length → index[j]! < col.length) :
    ∃ σ', runFn Γ fnLikeS [.rows index, .col col, .str pat, .bools bIndex, .bool cs] = .ret σ' [.err none] ∧
      σ' 3 = some (.bools (likeRows f col index bIndex)) := by
  obtain ⟨σ', hit, hs'⟩ := s_loop Γ index col f bIndex.length bIndex.length 0
    (((((((Store.empty.set 0 (.rows index)).set 1 (.col col)).set 2 (.str pat)).set 3 (.bools bIndex)).set 4 (.bool cs)).set 5 (.matcher f)).set 6 (.err none))
    bIndex ⟨rfl, rfl, rfl, rfl⟩ (by omega) hlen hcol
  rw [upd_zero] at hs'
  refine ⟨σ', ?_, hs'.h3⟩
  unfold runFn fnLikeS
  st_simp [hm, hit]

/-- … and with a pattern it rejects: the error, wrapped; `bIndex` is not touched -/
theorem likeS_err (Γ : Env) (pat : Bytes) (cs : Bool) (e : Err) (hm : Γ.newMatcher pat cs = .error e)
    (index : List Nat) (col : Col) (bIndex : List Bool) :
    ∃ σ', runFn Γ fnLikeS [.rows index, .col col, .str pat, .bools bIndex, .bool cs] = .ret σ' [.err (some (.propagated "Regex filter" e))] ∧
      σ' 3 = some (.bools bIndex) := by
  refine ⟨_, by unfold runFn fnLikeS; st_simp [hm]; rfl, rfl⟩

/-! ## The enum column -/

/-- the variables of the loop -/
structure LE (σ : Store) (values : List Bytes) (f : Bytes → Bool) (b : Small.BitSet) : Prop where
  h1 : σ 1 = some (.strs values)
  h3 : σ 3 = some (.matcher f)
  h5 : σ 5 = some (.bitset (some b))

/-- code `w` is set iff `w` is a position below `k` of a value the matcher accepts -/
def BitsUpTo (values : List Bytes) (f : Bytes → Bool) (k : Nat) (b : Small.BitSet) : Prop :=
  ∀ w, w < 256 → Small.bsIsSet b w = (decide (w < k) && match values[w]? with | some v => f v | none => false)

theorem word_zero (k : Nat) : Small.word (0, 0, 0, 0) k = 0 := by
  unfold Small.word; split <;> rfl

theorem bits_empty (values : List Bytes) (f : Bytes → Bool) : BitsUpTo values f 0 (0, 0, 0, 0) := by
  intro w _
  simp [Small.bsIsSet, word_zero]

theorem e_step (Γ : Env) (σ : Store) (values : List Bytes) (f : Bytes → Bool) (b : Small.BitSet) (k : Nat)
    (hs : LE σ values f b) (hk : k < values.length) (h256 : k < 256) (hb : BitsUpTo values f k b) :
    ∃ σ' b', stepOf Γ eBody ((σ.set 6 (.int k)).set 7 (.str values[k]!)) = .next σ' ∧ LE σ' values f b' ∧
      BitsUpTo values f (k + 1) b' := by
  obtain ⟨h1, h3, h5⟩ := hs
  have hget : values[k]? = some values[k]! := by rw [getElem!_pos values k hk]; exact List.getElem?_eq_getElem hk
  have hbyte : (UInt8.ofNat (((k : Int) % 256).toNat)).toNat = k := by
    have : ((k : Int) % 256).toNat = k := by omega
    rw [this]; simp; omega
  unfold stepOf
  generalize values[k]! = v at hget
  cases hm : f v
  · refine ⟨_, b, by st_simp [h1, h3, h5, hm]; rfl,
      ⟨by simp [set_apply, h1], by simp [set_apply, h3], by simp [set_apply, h5]⟩, ?_⟩
    intro w hw
    rw [hb w hw]
    by_cases e : w = k
    · subst e; simp [hget, hm]
    · have : (w < k + 1) = (w < k) := by simp; omega
      simp [this]
  · refine ⟨_, Small.bsSet b k, by st_simp [h1, h3, h5, hm, hbyte]; rfl,
      ⟨by simp [set_apply, h1], by simp [set_apply, h3], by simp [set_apply]⟩, ?_⟩
    intro w hw
    rw [Small.bitset_spec b k w h256 hw, hb w hw]
    by_cases e : w = k
    · subst e; simp [hget, hm]
    · have : (w < k + 1) = (w < k) := by simp; omega
      simp [e, this]

theorem e_loop (Γ : Env) (values : List Bytes) (f : Bytes → Bool) (len : Nat) (h256 : values.length ≤ 256) : ∀ (n k : Nat) (σ : Store) (b : Small.BitSet),
    LE σ values f b → k + n = values.length → BitsUpTo values f k b →
    ∃ σ' b', iterVar (.var 6) (.var 7) 1 (stepOf Γ eBody) len n k σ = .next σ' ∧ LE σ' values f b' ∧
      BitsUpTo values f values.length b' := by
  intro n
  induction n with
  | zero =>
    intro k σ b hs hk hb
    have : k = values.length := by omega
    subst this
    exact ⟨σ, b, rfl, hs, hb⟩
  | succ n ih =>
    intro k σ b hs hk hb
    have hkl : k < values.length := by omega
    obtain ⟨σ1, b1, hstep, hs1, hb1⟩ := e_step Γ σ values f b k hs hkl (by omega) hb
    obtain ⟨σ', b', hit, hs', hb'⟩ := ih (k + 1) σ1 b1 hs1 (by omega) hb1
    refine ⟨σ', b', ?_, hs', hb'⟩
    rw [iterVar, hs.h1]
    simp only [Val.index]
    rw [if_pos (by omega)]
    simp only [Int.toNat_natCast, assignL]
    rw [hstep]
    exact hit

/-- the bitset of an enum-column like filter: code `w` is set iff value `w` of the table is accepted -/
def LikeBits (values : List Bytes) (f : Bytes → Bool) (b : Small.BitSet) : Prop :=
  ∀ w, w < 256 → Small.bsIsSet b w = (match values[w]? with | some v => f v | none => false)

theorem likeE_ok (Γ : Env) (pat : Bytes) (cs : Bool) (f : Bytes → Bool) (hm : Γ.newMatcher pat cs = .ok f)
    (values : List Bytes) (h256 : values.length ≤ 256) :
    ∃ σ' b, runFn Γ fnLikeE [.str pat, .strs values, .bool cs] = .ret σ' [.bitset (some b), .err none] ∧ LikeBits values f b := by
  obtain ⟨σ', b', hit, hs', hb'⟩ := e_loop Γ values f values.length h256 values.length 0
    ((((((Store.empty.set 0 (.str pat)).set 1 (.strs values)).set 2 (.bool cs)).set 3 (.matcher f)).set 4 (.err none)).set 5 (.bitset (some (0, 0, 0, 0))))
    (0, 0, 0, 0) ⟨rfl, rfl, rfl⟩ (by omega) (bits_empty values f)
  refine ⟨σ', b', ?_, ?_⟩
  · unfold runFn fnLikeE
    st_simp [hm, hit, hs'.h5]
  · intro w hw
    rw [hb' w hw]
    cases hv : values[w]? with
    | none => simp
    | some v =>
      have : w < values.length := by
        by_cases h : w < values.length
        · exact h
        · rw [List.getElem?_eq_none (by omega)] at hv; cases hv
      simp [this]

theorem likeE_err (Γ : Env) (pat : Bytes) (cs : Bool) (e : Err) (hm : Γ.newMatcher pat cs = .error e) (values : List Bytes) :
    ∃ σ', runFn Γ fnLikeE [.str pat, .strs values, .bool cs] = .ret σ' [.bitset none, .err (some (.propagated "enum like" e))] := by
  refine ⟨_, by unfold runFn fnLikeE; st_simp [hm]; rfl⟩

/-! ## Today's code -/

/-- today's like / ilike filter functions by the regenerated terms -/
def genLike (Γ : Env) (f : FnId) (args : List ST.Val) : Run := run Γ Gen.stringsFns f args

/-- C18 (and C17 for the enum side) for today's code. For every pattern, case flag and matcher function `NewMatcher` returns:
(1) on a string column with `len(bIndex) ≤ len(index)` and every `index[j]` a row of the column, the filter returns nil and
`bIndex` holds `bIndex[i] || (row index[i] is not null and the matcher accepts its string)` at every `i`;
(2) a pattern `NewMatcher` rejects gives the error wrapped with "Regex filter" / "enum like", `bIndex` untouched / a nil bitset;
(3) on an enum column with a value table of at most 256 strings the filter returns a bitset in which code `w` is set iff
value `w` of the table is accepted by the matcher. -/
theorem gen_likefilter_semantics (Γ : Env) (pat : Bytes) (cs : Bool) :
    (∀ f, Γ.newMatcher pat cs = .ok f →
      (∀ (index : List Nat) (col : Col) (bIndex : List Bool), bIndex.length ≤ index.length →
        (∀ j, j < bIndex.length → index[j]! < col.length) →
        ∃ σ', genLike Γ .likeStrings [.rows index, .col col, .str pat, .bools bIndex, .bool cs] = .ret σ' [.err none] ∧
          σ' 3 = some (.bools (likeRows f col index bIndex))) ∧
      (∀ values : List Bytes, values.length ≤ 256 →
        ∃ σ' b, genLike Γ .likeEnum [.str pat, .strs values, .bool cs] = .ret σ' [.bitset (some b), .err none] ∧
          LikeBits values f b)) ∧
    (∀ e, Γ.newMatcher pat cs = .error e →
      (∀ (index : List Nat) (col : Col) (bIndex : List Bool),
        ∃ σ', genLike Γ .likeStrings [.rows index, .col col, .str pat, .bools bIndex, .bool cs] =
            .ret σ' [.err (some (.propagated "Regex filter" e))] ∧ σ' 3 = some (.bools bIndex)) ∧
      (∀ values : List Bytes,
        ∃ σ', genLike Γ .likeEnum [.str pat, .strs values, .bool cs] =
            .ret σ' [.bitset none, .err (some (.propagated "enum like" e))])) := by
  obtain ⟨c1, c2⟩ := gen_likefilter_canon
  refine ⟨fun f hm => ⟨?_, ?_⟩, fun e hm => ⟨?_, ?_⟩⟩
  · intro index col bIndex hlen hcol
    simp only [genLike, run, c1]; exact likeS_ok Γ pat cs f hm index col bIndex hlen hcol
  · intro values h256
    simp only [genLike, run, c2]; exact likeE_ok Γ pat cs f hm values h256
  · intro index col bIndex
    simp only [genLike, run, c1]; exact likeS_err Γ pat cs e hm index col bIndex
  · intro values
    simp only [genLike, run, c2]; exact likeE_err Γ pat cs e hm values

/-- the rows of the result, one by one: a row that was kept stays kept; a row that was not is kept iff its cell is not null
and the matcher accepts its string -/
theorem gen_like_row_kept (f : Bytes → Bool) (col : Col) (index : List Nat) (bIndex : List Bool) (i : Nat) (hi : i < bIndex.length) :
    (likeRows f col index bIndex)[i]! = (bIndex[i]! || keep f col index[i]!) ∧
    (bIndex[i]! = false → ((likeRows f col index bIndex)[i]! = true ↔ ∃ t, col[index[i]!]! = some t ∧ f t = true)) := by
  have hl : i < (likeRows f col index bIndex).length := by simpa [likeRows] using hi
  have h1 : (likeRows f col index bIndex)[i]! = (bIndex[i]! || keep f col index[i]!) := by
    rw [getElem!_pos _ i hl, getElem!_pos bIndex i hi]
    simp [likeRows]
  refine ⟨h1, fun hb => ?_⟩
  rw [h1, hb, Bool.false_or, keep]
  cases col[index[i]!]! with
  | none => simp
  | some t => simp

/-! ## Witnesses: plausible mutations are different terms and give other results -/

/-- an environment for evaluation: the matcher accepts exactly the strings that start with `a` (97) -/
def wEnv : Env :=
  { fuel := 0, decode := fun _ => (0, 0), encode := fun _ => [], runeLen := fun _ => 0, toUpper := id,
    newMatcher := fun _ _ => .ok fun t => t.head? == some 97 }

def mkLikeS (body : S) : ST.Fn := { params := 5, body := S.block [
  S.newMatcher (L.var 5) (L.var 6) (E.var 2) (E.var 4),
  S.ite (E.not (E.isNil (E.var 6))) (S.block [S.ret [E.propagate "Regex filter" (E.var 6)]]) (S.block []),
  S.rangeVar (L.var 7) (L.var 8) 3 body,
  S.ret [E.nilErr]] }

example : mkLikeS sBody = fnLikeS := rfl

/-- `bIndex` after the call -/
def rowsOf (fn : ST.Fn) (index : List Nat) (col : Col) (bIndex : List Bool) : Option (List Bool) :=
  match runFn wEnv fn [.rows index, .col col, .str [], .bools bIndex, .bool true] with
  | .ret σ _ => (match σ 3 with | some (.bools l) => some l | _ => none)
  | _ => none

-- today's term: rows "ab", null, "b", "a" through the index [3, 2, 1, 0]; the second position was already kept
example : rowsOf fnLikeS [3, 2, 1, 0] [some [97, 98], none, some [98], some [97]] [false, true, false, false]
    = some [true, true, false, true] := by decide

/-- `if !x` dropped: a row that an earlier clause of an Or kept and that does not match is lost -/
def sBodyNoGuard : S := S.block [
  S.stringAt (L.var 9) (L.var 10) (E.var 1) (E.at (E.var 0) (E.var 7)),
  S.ite (E.not (E.var 10)) (S.block [S.setAt 3 (E.var 7) (E.matches (E.var 5) (E.var 9))]) (S.block [])]
example : mkLikeS sBodyNoGuard ≠ fnLikeS := by decide
example : rowsOf (mkLikeS sBodyNoGuard) [3, 2, 1, 0] [some [97, 98], none, some [98], some [97]] [false, true, false, false]
    = some [true, false, false, true] := by decide

/-- `if !isNull` dropped: a null cell is matched as the empty string -/
def sBodyNoNull : S := S.block [
  S.ite (E.not (E.var 8))
    (S.block [
      S.stringAt (L.var 9) (L.var 10) (E.var 1) (E.at (E.var 0) (E.var 7)),
      S.setAt 3 (E.var 7) (E.matches (E.var 5) (E.var 9))])
    (S.block [])]
def wEnvAll : Env := { wEnv with newMatcher := fun _ _ => .ok fun _ => true }
example : mkLikeS sBodyNoNull ≠ fnLikeS := by decide
example : (match runFn wEnvAll (mkLikeS sBodyNoNull) [.rows [0, 1], .col [none, some [98]], .str [], .bools [false, false], .bool true] with
    | .ret σ _ => (match σ 3 with | some (.bools l) => some l | _ => none) | _ => none) = some [true, true] := by decide
example : (match runFn wEnvAll fnLikeS [.rows [0, 1], .col [none, some [98]], .str [], .bools [false, false], .bool true] with
    | .ret σ _ => (match σ 3 with | some (.bools l) => some l | _ => none) | _ => none) = some [false, true] := by decide

/-- the row itself instead of `index[i]`: the wrong cells are looked at when the frame has been reordered -/
def sBodyNoIndex : S := S.block [
  S.ite (E.not (E.var 8))
    (S.block [
      S.stringAt (L.var 9) (L.var 10) (E.var 1) (E.var 7),
      S.ite (E.not (E.var 10)) (S.block [S.setAt 3 (E.var 7) (E.matches (E.var 5) (E.var 9))]) (S.block [])])
    (S.block [])]
example : rowsOf (mkLikeS sBodyNoIndex) [1, 0] [some [97], some [98]] [false, false] = some [true, false] := by decide
example : rowsOf fnLikeS [1, 0] [some [97], some [98]] [false, false] = some [false, true] := by decide

def mkLikeE (body : S) : ST.Fn := { params := 3, body := S.block [
  S.newMatcher (L.var 3) (L.var 4) (E.var 0) (E.var 2),
  S.ite (E.not (E.isNil (E.var 4))) (S.block [S.ret [E.nilBitset, E.propagate "enum like" (E.var 4)]]) (S.block []),
  S.assign (L.var 5) E.newBitset,
  S.rangeVar (L.var 6) (L.var 7) 1 body,
  S.ret [E.var 5, E.nilErr]] }

example : mkLikeE eBody = fnLikeE := rfl

/-- which of the codes 0..3 are set in the bitset returned for a value table -/
def bitsOf (fn : ST.Fn) (values : List Bytes) : Option (List Bool) :=
  match runFn wEnv fn [.str [], .strs values, .bool true] with
  | .ret _ [.bitset (some b), _] => some ([0, 1, 2, 3].map (Small.bsIsSet b))
  | _ => none

example : bitsOf fnLikeE [[97], [98], [97, 99]] = some [true, false, true, false] := by decide

/-- `enumVal(i+1)`: the bits are those of the neighbours -/
def eBodyOff : S := S.block [
  S.ite (E.matches (E.var 3) (E.var 7)) (S.block [S.bsSet 5 (E.conv NK.byte (E.add (E.var 6) (E.int 1)))]) (S.block [])]
example : mkLikeE eBodyOff ≠ fnLikeE := by decide
example : bitsOf (mkLikeE eBodyOff) [[97], [98], [97, 99]] = some [false, true, false, true] := by decide

/-- the condition negated: the complement within the table -/
def eBodyNeg : S := S.block [
  S.ite (E.not (E.matches (E.var 3) (E.var 7))) (S.block [S.bsSet 5 (E.conv NK.byte (E.var 6))]) (S.block [])]
example : bitsOf (mkLikeE eBodyNeg) [[97], [98], [97, 99]] = some [false, true, false, false] := by decide

end QF.Props.C18FilterGen

#print axioms QF.Props.C18FilterGen.gen_likefilter_no_opaque
#print axioms QF.Props.C18FilterGen.gen_likefilter_canon
#print axioms QF.Props.C18FilterGen.gen_likefilter_semantics
#print axioms QF.Props.C18FilterGen.gen_like_row_kept
