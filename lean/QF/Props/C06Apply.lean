import QF.Core.Frame
/-!
# C06 (continued) — apply0 / apply2 / WithRowNums / FilteredApply on an arbitrary physical index

Mirrors of `qframe.go` `apply0`, `apply1`, `apply2`, `WithRowNums`, `FilteredApply` and of
`internal/*column*/Apply1`, `Apply2`, written as the loops they are:

```go
result := make([]T, len(c.data))          // physical length, filled with the zero value
for _, i := range ix { result[i] = ... }   // written at the positions listed in the index
```

* `writeLoop`   — the loop with a pure right-hand side (`Apply1`, `Apply2`);
* `fillLoop`    — the loop whose right-hand side is a *stateful* zero-argument closure (`apply0` with
                  `func() T`): the closure is a state `σ` with `next : σ → Val × σ`, called once per
                  index entry, in index order;
* `applyFn2`, `applyFn0`, `applyIx1` — the result columns; `withRowNums`, `filteredApply1` — frames.

All theorems hold for every well-formed frame, whatever its physical index (`Fr.WF` contains
`ixLt` and `ixNodup`; `Nodup` is needed exactly for the stateful loop: "written at `index[k]`, read back
at `index[k]`").  An out-of-range `src.data[i]` / `result[i]` panics in Go; under `WF` it cannot happen,
and the mirrors (like `Fr.applyFn1`) give the fill value / leave the array alone there.
-/
namespace QF.Props.C06
open Fr

/-! ## The pure write loop -/

/-- `for _, i := range ix { res[i] = g i }` -/
def writeLoop (g : Nat → Val) : List Nat → List Val → List Val
  | [], res => res
  | i :: ix, res => writeLoop g ix (res.set i (g i))

theorem writeLoop_length (g : Nat → Val) (ix : List Nat) (res : List Val) :
    (writeLoop g ix res).length = res.length := by
  induction ix generalizing res with
  | nil => rfl
  | cons i ix ih => simp only [writeLoop, ih, List.length_set]

/-- closed form of the loop: positions listed in `ix` hold `g p`, the others are untouched
    (no `Nodup` needed: the right-hand side depends on the position only). -/
theorem writeLoop_getElem? (g : Nat → Val) (ix : List Nat) (res : List Val) (p : Nat) :
    (writeLoop g ix res)[p]? =
      if p ∈ ix then (if p < res.length then some (g p) else none) else res[p]? := by
  induction ix generalizing res with
  | nil => simp [writeLoop]
  | cons i ix ih =>
    simp only [writeLoop, ih, List.length_set, List.mem_cons]
    by_cases h1 : p ∈ ix
    · simp [h1]
    · by_cases h2 : p = i
      · subst h2
        simp only [h1, ↓reduceIte, List.getElem?_set_self', or_false]
        by_cases h3 : p < res.length
        · simp [h3]
        · simp [h3]
      · have h2' : i ≠ p := fun e => h2 e.symm
        simp [h1, h2, List.getElem?_set_ne h2']

/-! ## 1. apply2 -/

/-- right-hand side of `result[i] = t(c.data[i], ss2.data[i])` -/
def cell2 (fn : Val → Val → Val) (zero : Val) (a b : List Val) (p : Nat) : Val :=
  match a[p]?, b[p]? with
  | some x, some y => fn x y
  | _, _ => zero

/-- `fn` on two cells that both exist -/
def opt2 (fn : Val → Val → Val) : Option Val → Option Val → Option Val
  | some x, some y => some (fn x y)
  | _, _ => none

/-- `Column.Apply2`: result allocated at physical length `L`, written at the index positions. -/
def applyFn2 (f : Frame) (L : Nat) (fn : Val → Val → Val) (rty : Ty) (src1 src2 : Col) : Col :=
  { ty := rty,
    data := writeLoop (cell2 fn rty.zero src1.data src2.data) f.index (List.replicate L rty.zero) }

theorem applyFn2_length (f : Frame) (L : Nat) (fn : Val → Val → Val) (rty : Ty) (src1 src2 : Col) :
    (applyFn2 f L fn rty src1 src2).data.length = L := by
  simp [applyFn2, writeLoop_length]

/-- every physical cell of the result -/
theorem applyFn2_cell (f : Frame) (L : Nat) (fn : Val → Val → Val) (rty : Ty) (src1 src2 : Col)
    (h1 : src1.data.length = L) (h2 : src2.data.length = L) (p : Nat) (hp : p < L) :
    (applyFn2 f L fn rty src1 src2).data[p]? =
      if p ∈ f.index then opt2 fn src1.data[p]? src2.data[p]? else some rty.zero := by
  simp only [applyFn2, writeLoop_getElem?, List.length_replicate, hp, ↓reduceIte]
  have a : p < src1.data.length := by omega
  have b : p < src2.data.length := by omega
  by_cases hm : p ∈ f.index
  · simp [hm, cell2, opt2, List.getElem?_eq_getElem a, List.getElem?_eq_getElem b]
  · simp [hm, hp]

/-- **apply2 is row-wise**: read back through the index, the result is `fn` applied row by row to
    the two sources. -/
theorem applyFn2_rowwise (f : Frame) (L : Nat) (wf : WF f L) (fn : Val → Val → Val) (rty : Ty)
    (src1 src2 : Col) (h1 : src1.data.length = L) (h2 : src2.data.length = L) :
    (f.index.map fun p => (applyFn2 f L fn rty src1 src2).data[p]?) =
      f.index.map fun p => opt2 fn src1.data[p]? src2.data[p]? := by
  apply List.map_congr_left
  intro p hp
  have hlt := wf.ixLt p hp
  rw [applyFn2_cell f L fn rty src1 src2 h1 h2 p hlt]
  simp [hp]

/-- the same, with the cells known to exist: row `k` of the result is `fn (src1 row k) (src2 row k)` -/
theorem applyFn2_rowwise_get (f : Frame) (L : Nat) (wf : WF f L) (fn : Val → Val → Val) (rty : Ty)
    (src1 src2 : Col) (h1 : src1.data.length = L) (h2 : src2.data.length = L)
    (p : Nat) (hp : p ∈ f.index) :
    ∃ x y, src1.data[p]? = some x ∧ src2.data[p]? = some y ∧
      (applyFn2 f L fn rty src1 src2).data[p]? = some (fn x y) := by
  have hlt := wf.ixLt p hp
  have a : p < src1.data.length := by omega
  have b : p < src2.data.length := by omega
  refine ⟨src1.data[p], src2.data[p], List.getElem?_eq_getElem a, List.getElem?_eq_getElem b, ?_⟩
  rw [applyFn2_cell f L fn rty src1 src2 h1 h2 p hlt]
  simp [hp, opt2, List.getElem?_eq_getElem a, List.getElem?_eq_getElem b]

theorem applyFn2_wf (f : Frame) (L : Nat) (wf : WF f L) (fn : Val → Val → Val) (rty : Ty)
    (src1 src2 : Col) (dst : String) (hn : checkName dst = true) :
    WF (setColumn f dst (applyFn2 f L fn rty src1 src2)) L :=
  Fr.setColumn_wf f L wf dst _ (applyFn2_length f L fn rty src1 src2) hn

/-! ## 2. apply0 with a stateful generator -/

section stateful
variable {σ : Type}

/-- `for _, i := range ix { res[i] = t() }` where the closure `t` has state `σ`:
    returns the array and the closure state after the loop. -/
def fillLoop (next : σ → Val × σ) : σ → List Nat → List Val → List Val × σ
  | s, [], res => (res, s)
  | s, i :: ix, res => fillLoop next (next s).2 ix (res.set i (next s).1)

/-- the first `n` values the closure produces from state `s` -/
def unfoldValues (next : σ → Val × σ) : σ → Nat → List Val
  | _, 0 => []
  | s, n + 1 => (next s).1 :: unfoldValues next (next s).2 n

/-- the closure state after `n` calls -/
def unfoldState (next : σ → Val × σ) : σ → Nat → σ
  | s, 0 => s
  | s, n + 1 => unfoldState next (next s).2 n

theorem unfoldValues_length (next : σ → Val × σ) (s : σ) (n : Nat) :
    (unfoldValues next s n).length = n := by
  induction n generalizing s with
  | zero => rfl
  | succ n ih => simp [unfoldValues, ih]

theorem fillLoop_length (next : σ → Val × σ) (s : σ) (ix : List Nat) (res : List Val) :
    (fillLoop next s ix res).1.length = res.length := by
  induction ix generalizing s res with
  | nil => rfl
  | cons i ix ih => simp only [fillLoop, ih, List.length_set]

/-- the closure is called exactly once per index entry -/
theorem fillLoop_state (next : σ → Val × σ) (s : σ) (ix : List Nat) (res : List Val) :
    (fillLoop next s ix res).2 = unfoldState next s ix.length := by
  induction ix generalizing s res with
  | nil => rfl
  | cons i ix ih => simp only [fillLoop, ih, List.length_cons, unfoldState]

/-- positions not listed in the index keep what the allocation put there -/
theorem fillLoop_not_mem (next : σ → Val × σ) (s : σ) (ix : List Nat) (res : List Val) (p : Nat)
    (hp : p ∉ ix) : (fillLoop next s ix res).1[p]? = res[p]? := by
  induction ix generalizing s res with
  | nil => rfl
  | cons i ix ih =>
    simp only [List.mem_cons, not_or] at hp
    simp only [fillLoop]
    rw [ih _ _ hp.2]
    exact List.getElem?_set_ne (fun e => hp.1 e.symm)

/-- the k-th produced value is written at `ix[k]` and stays there (needs `Nodup`) -/
theorem fillLoop_read (next : σ → Val × σ) (s : σ) (ix : List Nat) (res : List Val)
    (nd : ix.Nodup) (lt : ∀ p, p ∈ ix → p < res.length) :
    (ix.map fun p => (fillLoop next s ix res).1[p]?) = (unfoldValues next s ix.length).map some := by
  induction ix generalizing s res with
  | nil => rfl
  | cons i ix ih =>
    have ndc := List.nodup_cons.mp nd
    simp only [List.map_cons, fillLoop, List.length_cons, unfoldValues]
    congr 1
    · rw [fillLoop_not_mem next _ ix _ i ndc.1]
      have : i < res.length := lt i (List.mem_cons_self)
      simp [this]
    · apply ih
      · exact ndc.2
      · intro p hp
        rw [List.length_set]
        exact lt p (List.mem_cons_of_mem _ hp)

/-- `apply0` with `fn : func() T`: allocated at physical length `L`, the k-th value produced by the
    closure written at physical position `index[k]`. -/
def applyFn0 (f : Frame) (L : Nat) (next : σ → Val × σ) (s0 : σ) (rty : Ty) : Col :=
  { ty := rty, data := (fillLoop next s0 f.index (List.replicate L rty.zero)).1 }

theorem applyFn0_length (f : Frame) (L : Nat) (next : σ → Val × σ) (s0 : σ) (rty : Ty) :
    (applyFn0 f L next s0 rty).data.length = L := by
  simp [applyFn0, fillLoop_length]

/-- **apply0 is row-wise, in row order**: read back through the index, the new column is exactly the
    sequence of values the closure produced. -/
theorem applyFn0_rowwise (f : Frame) (L : Nat) (wf : WF f L) (next : σ → Val × σ) (s0 : σ) (rty : Ty) :
    (f.index.map fun p => (applyFn0 f L next s0 rty).data[p]?) =
      (unfoldValues next s0 f.index.length).map some := by
  simp only [applyFn0]
  apply fillLoop_read next s0 f.index _ wf.ixNodup
  intro p hp
  rw [List.length_replicate]
  exact wf.ixLt p hp

/-- cells outside the index hold the zero value of the result type -/
theorem applyFn0_outside (f : Frame) (L : Nat) (next : σ → Val × σ) (s0 : σ) (rty : Ty)
    (p : Nat) (hp : p ∉ f.index) (hl : p < L) :
    (applyFn0 f L next s0 rty).data[p]? = some rty.zero := by
  simp only [applyFn0]
  rw [fillLoop_not_mem next s0 f.index _ p hp]
  simp [hl]

theorem applyFn0_wf (f : Frame) (L : Nat) (wf : WF f L) (next : σ → Val × σ) (s0 : σ) (rty : Ty)
    (dst : String) (hn : checkName dst = true) :
    WF (setColumn f dst (applyFn0 f L next s0 rty)) L :=
  Fr.setColumn_wf f L wf dst _ (applyFn0_length f L next s0 rty) hn

end stateful

/-- `apply0` takes the physical length from the first column (`qf.columns[0].Len()`, 0 without columns) -/
def colLen (f : Frame) : Nat :=
  match f.cols with
  | [] => 0
  | c :: _ => c.col.data.length

theorem colLen_eq (f : Frame) (L : Nat) (wf : WF f L) (hne : f.cols ≠ []) : colLen f = L := by
  unfold colLen
  cases hc : f.cols with
  | nil => exact absurd hc hne
  | cons c cs => exact wf.len c (by rw [hc]; exact List.mem_cons_self)

/-- a frame without columns and without rows (`QFrame{}`, the only column-less frame the code builds)
    is well-formed at physical length 0 = `colLen` -/
theorem wf_zero_of_empty (f : Frame) (L : Nat) (wf : WF f L) (hc : f.cols = []) (hi : f.index = []) :
    WF f 0 ∧ colLen f = 0 := by
  refine ⟨⟨wf.pos, wf.mapOk, wf.mapTotal, ?_, ?_, wf.ixNodup⟩, ?_⟩
  · intro c h; rw [hc] at h; cases h
  · intro p h; rw [hi] at h; cases h
  · simp [colLen, hc]

/-! ## 3. WithRowNums -/

/-- `i := -1; func() int { i++; return i }` -/
def rowNumNext (i : Int) : Val × Int := (.int (i + 1), i + 1)

theorem unfoldValues_rowNum (s : Int) (n : Nat) :
    unfoldValues rowNumNext s n = (List.range n).map fun (k : Nat) => Val.int (s + 1 + (k : Int)) := by
  induction n generalizing s with
  | zero => rfl
  | succ n ih =>
    rw [List.range_succ_eq_map]
    simp only [unfoldValues, rowNumNext, ih, List.map_cons, List.map_map]
    congr 1
    · simp
    · apply List.map_congr_left
      intro k _
      simp only [Function.comp]
      congr 1
      omega

/-- `QFrame.WithRowNums`: `Apply` of one zero-argument instruction with the counting closure. -/
def withRowNums (f : Frame) (name : String) : Frame :=
  if f.err.isSome then f else
  setColumn f name (applyFn0 f (colLen f) rowNumNext (-1) .int)

/-- column level: read through the index the new column is `0, 1, …, n-1` -/
theorem withRowNums_col (f : Frame) (L : Nat) (wf : WF f L) :
    (f.index.map fun p => (applyFn0 f L rowNumNext (-1) .int).data[p]?) =
      (List.range f.index.length).map fun (k : Nat) => some (Val.int (k : Int)) := by
  rw [applyFn0_rowwise f L wf, unfoldValues_rowNum, List.map_map]
  apply List.map_congr_left
  intro k _
  simp only [Function.comp]
  congr 2
  omega

/-- **WithRowNums**: the frame gets (replaced in place, or appended last) an int column whose values
    in row order are `[0, 1, …, n-1]`; every other column, the index and `Err` are untouched; the
    result is well-formed. (`hL`: the frame has a column — `colLen_eq` — or is `QFrame{}` —
    `wf_zero_of_empty`.) -/
theorem withRowNums_spec (f : Frame) (L : Nat) (wf : WF f L) (hL : colLen f = L) (he : f.err = none)
    (name : String) (hn : checkName name = true) :
    (withRowNums f name).abs =
        absSet f.abs ((f.byName name).map (·.pos))
          (name, .int, (List.range f.index.length).map fun (k : Nat) => some (Val.int (k : Int))) ∧
      (withRowNums f name).index = f.index ∧ (withRowNums f name).err = f.err ∧
      WF (withRowNums f name) L := by
  simp only [withRowNums, he, Option.isSome_none, Bool.false_eq_true, ↓reduceIte, hL]
  obtain ⟨a, b, c⟩ := Fr.setColumn_abs f L wf name (applyFn0 f L rowNumNext (-1) .int) hn
  refine ⟨?_, b, by rw [c, he], applyFn0_wf f L wf rowNumNext (-1) .int name hn⟩
  rw [a, withRowNums_col f L wf]
  rfl

theorem withRowNums_err (f : Frame) (name : String) (he : f.err ≠ none) : withRowNums f name = f := by
  cases h : f.err with
  | none => exact absurd h he
  | some e => simp [withRowNums, h]

/-! ## 4. FilteredApply (one single-argument instruction) -/

/-- right-hand side of `result[i] = t(c.data[i])` -/
def cell1 (fn : Val → Val) (zero : Val) (a : List Val) (p : Nat) : Val :=
  match a[p]? with
  | some v => fn v
  | none => zero

/-- `Column.Apply1(fn, ix)` for an arbitrary index `ix`; `zero` is the fill value of the freshly
    allocated array. -/
def applyIx1 (ix : List Nat) (L : Nat) (fn : Val → Val) (zero : Val) (rty : Ty) (src : Col) : Col :=
  { ty := rty, data := writeLoop (cell1 fn zero src.data) ix (List.replicate L zero) }

theorem applyIx1_length (ix : List Nat) (L : Nat) (fn : Val → Val) (zero : Val) (rty : Ty) (src : Col) :
    (applyIx1 ix L fn zero rty src).data.length = L := by
  simp [applyIx1, writeLoop_length]

theorem applyIx1_cell (ix : List Nat) (L : Nat) (fn : Val → Val) (zero : Val) (rty : Ty) (src : Col)
    (hs : src.data.length = L) (p : Nat) (hp : p < L) :
    (applyIx1 ix L fn zero rty src).data[p]? =
      if p ∈ ix then (src.data[p]?).map fn else some zero := by
  simp only [applyIx1, writeLoop_getElem?, List.length_replicate, hp, ↓reduceIte]
  have a : p < src.data.length := by omega
  by_cases hm : p ∈ ix
  · simp [hm, cell1, List.getElem?_eq_getElem a]
  · simp [hm, hp]

/-- the loop mirror run with the frame's own index is the closed-form mirror `Fr.applyFn1` -/
theorem applyIx1_eq_applyFn1 (f : Frame) (L : Nat) (fn : Val → Val) (rty : Ty) (src : Col) :
    applyIx1 f.index L fn rty.zero rty src = applyFn1 f L fn rty src := by
  simp only [applyIx1, applyFn1, Col.mk.injEq, true_and]
  apply List.ext_getElem?
  intro p
  rw [writeLoop_getElem?, List.getElem?_map, List.length_replicate]
  by_cases hp : p < L
  · rw [List.getElem?_range hp]
    by_cases hm : p ∈ f.index
    · simp only [hm, hp, ↓reduceIte, Option.map_some, cell1]
      rfl
    · simp [hm, hp]
  · rw [List.getElem?_eq_none (by simp; omega : (List.range L).length ≤ p)]
    simp [hp]

/-- `FilteredApply(clause, Instruction{Fn, DstCol: dst, SrcCol1: src})`:
    `newQf := qf; newQf.index = ix'; newQf = newQf.apply1(...); newQf.index = qf.index`. -/
def filteredApply1 (f : Frame) (ix' : List Nat) (L : Nat) (fn : Val → Val) (zero : Val) (rty : Ty)
    (src : Col) (dst : String) : Frame :=
  let g : Frame := { f with index := ix' }
  let r : Frame := if g.err.isSome then g else setColumn g dst (applyIx1 g.index L fn zero rty src)
  { r with index := f.index }

/-- **FilteredApply is row-wise on the selected rows and zero elsewhere**: reading the result column
    through the ORIGINAL index, rows that are in the sub-index hold `fn (src cell)`, the others hold
    the zero value of the allocation. -/
theorem filteredApply1_rowwise (f : Frame) (L : Nat) (wf : WF f L) (ix' : List Nat)
    (_hsub : ix'.Sublist f.index) (fn : Val → Val) (zero : Val) (rty : Ty) (src : Col)
    (hs : src.data.length = L) :
    (f.index.map fun p => (applyIx1 ix' L fn zero rty src).data[p]?) =
      f.index.map fun p => if p ∈ ix' then (src.data[p]?).map fn else some zero := by
  apply List.map_congr_left
  intro p hp
  exact applyIx1_cell ix' L fn zero rty src hs p (wf.ixLt p hp)

/-- the filter form: `ix' = index.filter keep` -/
theorem filteredApply1_rowwise_filter (f : Frame) (L : Nat) (wf : WF f L) (keep : Nat → Bool)
    (fn : Val → Val) (zero : Val) (rty : Ty) (src : Col) (hs : src.data.length = L) :
    (f.index.map fun p => (applyIx1 (f.index.filter keep) L fn zero rty src).data[p]?) =
      f.index.map fun p => if keep p then (src.data[p]?).map fn else some zero := by
  rw [filteredApply1_rowwise f L wf _ List.filter_sublist fn zero rty src hs]
  apply List.map_congr_left
  intro p hp
  simp [List.mem_filter, hp]

/-- replacing the index by any duplicate-free in-range index keeps well-formedness -/
theorem wf_withIndex (g : Frame) (L : Nat) (wf : WF g L) (ix : List Nat)
    (lt : ∀ p, p ∈ ix → p < L) (nd : ix.Nodup) : WF { g with index := ix } L :=
  ⟨wf.pos, wf.mapOk, wf.mapTotal, wf.len, lt, nd⟩

theorem wf_sub (f : Frame) (L : Nat) (wf : WF f L) (ix' : List Nat) (hsub : ix'.Sublist f.index) :
    WF { f with index := ix' } L :=
  wf_withIndex f L wf ix' (fun p hp => wf.ixLt p (hsub.subset hp)) (hsub.nodup wf.ixNodup)

/-- **FilteredApply, frame level**: the destination column is replaced in place / appended last with
    the row-wise-or-zero column; all other columns, the (original) index and `Err` are unchanged; the
    result is well-formed. -/
theorem filteredApply1_spec (f : Frame) (L : Nat) (wf : WF f L) (he : f.err = none) (ix' : List Nat)
    (hsub : ix'.Sublist f.index) (fn : Val → Val) (zero : Val) (rty : Ty) (src : Col)
    (hs : src.data.length = L) (dst : String) (hn : checkName dst = true) :
    (filteredApply1 f ix' L fn zero rty src dst).abs =
        absSet f.abs ((f.byName dst).map (·.pos))
          (dst, rty, f.index.map fun p => if p ∈ ix' then (src.data[p]?).map fn else some zero) ∧
      (filteredApply1 f ix' L fn zero rty src dst).index = f.index ∧
      (filteredApply1 f ix' L fn zero rty src dst).err = f.err ∧
      WF (filteredApply1 f ix' L fn zero rty src dst) L := by
  have wg := wf_sub f L wf ix' hsub
  have hw := Fr.setColumn_wf _ L wg dst _ (applyIx1_length ix' L fn zero rty src) hn
  have hrow := filteredApply1_rowwise f L wf ix' hsub fn zero rty src hs
  have hg : ({ f with index := ix' } : Frame).err.isSome = false := by
    show f.err.isSome = false
    rw [he]; rfl
  simp only [filteredApply1, hg, Bool.false_eq_true, ↓reduceIte]
  refine ⟨?_, trivial, ?_, ?_⟩
  · rw [← hrow]
    unfold setColumn
    simp only [hn, Bool.not_true, Bool.false_eq_true, ↓reduceIte]
    cases hb : f.byName dst with
    | none => simp [Frame.abs, absSet, applyIx1]
    | some ex => simp [Frame.abs, absSet, List.map_set, applyIx1]
  · have := (Fr.setColumn_abs _ L wg dst (applyIx1 ix' L fn zero rty src) hn).2.2
    exact this
  · exact wf_withIndex _ L hw f.index wf.ixLt wf.ixNodup

/-! ## Concrete instances (hypotheses are satisfiable on a frame with a non-identity index) -/

namespace Demo

def colA : NCol := ⟨"a", 0, ⟨.int, [.int 10, .int 20, .int 30, .int 40]⟩⟩
def colB : NCol := ⟨"b", 1, ⟨.int, [.int 1, .int 2, .int 3, .int 4]⟩⟩

/-- two int columns, physical length 4, index `[3, 1, 0]` (a sorted / filtered view) -/
def fr : Frame :=
  { cols := [colA, colB],
    byName := fun n => if n = "a" then some colA else if n = "b" then some colB else none,
    index := [3, 1, 0] }

theorem fr_wf : WF fr 4 := by
  refine ⟨?_, ?_, ?_, ?_, ?_, by decide⟩
  · intro i c h
    match i with
    | 0 => simp [fr] at h; subst h; rfl
    | 1 => simp [fr] at h; subst h; rfl
    | i + 2 => simp [fr] at h
  · intro n c h
    simp only [fr] at h ⊢
    by_cases ha : n = "a"
    · simp [ha] at h; subst h; exact ⟨rfl, ha.symm⟩
    · by_cases hb : n = "b"
      · subst hb; simp at h; subst h; exact ⟨rfl, rfl⟩
      · simp [ha, hb] at h
  · intro c h
    simp [fr] at h
    rcases h with h | h <;> subst h <;> simp [fr, colA, colB]
  · intro c h
    simp [fr] at h
    rcases h with h | h <;> subst h <;> rfl
  · intro p h
    simp [fr] at h
    omega

def addV : Val → Val → Val
  | .int a, .int b => .int (a + b)
  | _, _ => .int 0

def negV : Val → Val
  | .int a => .int (-a)
  | v => v

theorem nameOk : checkName "r" = true := by simp [checkName]

-- apply2
example : (fr.index.map fun p => (applyFn2 fr 4 addV .int colA.col colB.col).data[p]?) =
    [some (.int 44), some (.int 22), some (.int 11)] := by decide
example : WF (setColumn fr "r" (applyFn2 fr 4 addV .int colA.col colB.col)) 4 :=
  applyFn2_wf fr 4 fr_wf addV .int colA.col colB.col "r" nameOk
example := applyFn2_rowwise fr 4 fr_wf addV .int colA.col colB.col rfl rfl

-- apply0 / WithRowNums: physical layout [2, 1, 0, 0] — row numbers follow the index, not the storage
example : (applyFn0 fr 4 rowNumNext (-1) .int).data = [.int 2, .int 1, .int 0, .int 0] := by decide
example : (fr.index.map fun p => (applyFn0 fr 4 rowNumNext (-1) .int).data[p]?) =
    [some (.int 0), some (.int 1), some (.int 2)] := by decide
example := withRowNums_spec fr 4 fr_wf rfl rfl "r" nameOk

-- FilteredApply with sub-index [3, 0] of [3, 1, 0]
example : (fr.index.map fun p => (applyIx1 [3, 0] 4 negV (.int 0) .int colA.col).data[p]?) =
    [some (.int (-40)), some (.int 0), some (.int (-10))] := by decide
example := filteredApply1_spec fr 4 fr_wf rfl [3, 0] (by decide) negV (.int 0) .int colA.col rfl "r" nameOk

end Demo

#print axioms applyFn2_rowwise
#print axioms applyFn2_wf
#print axioms applyFn0_rowwise
#print axioms applyFn0_wf
#print axioms fillLoop_state
#print axioms withRowNums_spec
#print axioms filteredApply1_rowwise
#print axioms filteredApply1_rowwise_filter
#print axioms filteredApply1_spec
#print axioms applyIx1_eq_applyFn1

end QF.Props.C06
