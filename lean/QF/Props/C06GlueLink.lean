import QF.Props.C06FApplyGen
import QF.Props.C03SortGlueGen
/-!
# C06 — `helperX` IS the regenerated glue `apply1` / `apply2` (tie T1, seam of `gen_apply_end_to_end`)

`C06FApplyGen.helperX` (one helper call of `Apply` on physical columns) reads the frame methods `apply1` / `apply2` by hand:
`findX cols src`, the column's `Apply1` / `Apply2`, the type switch, `setX cols dst`. `C03SortGlueGen.gen_apply12_semantics` has
these two methods regenerated statement by statement (`Gen.sortGlue…`), for ANY meaning of the callees (`SG.APrims`). Here the
callees are instantiated with what `helperX` uses —

* `Column.Apply1` / `Apply2` = today's loop terms of the column's package (`apply1Of` / `apply2Of`, C06LoopsGen) run on the stored
  column, the built-in of a string / enum column = `upperX`; an error of the loop = an error; a `[]T` = the slice value of that
  element type, a column = the column;
* `<pkg>.New(slice)` = the column of that type with those cells; `setColumn(dst, col)` = `setX` under the name `dst`, an error
  for an illegal name —

and **`helperX_eq_genApply12`** shows: whenever `helperX` has a meaning (`some r`: a frame or an error; `none` = a panic or an
untranslated part, which the glue term cannot express), the regenerated `apply1` / `apply2` on the frame `(cols, ix)` return
exactly that result. So which column receives `Apply1` / `Apply2`, the index passed, the order receiver / argument, the type
switch and the destination of `setColumn` in `helperX` are the ones of today's source.
-/
set_option linter.unusedVariables false
set_option linter.unusedSimpArgs false
namespace QF.Props.C06GlueLink
open QF QF.Props.C06FApplyGen QF.Props.C06LoopsGen QF.Props.C03SortGlueGen

/-- the function argument of a helper: the function value and the initial state of a closure -/
abbrev FnArg := LVal Int × Int

/-- a stored column as a column value of the glue's frame, and back -/
def toL (c : XCol) : LCol := { name := c.name, ty := c.col.ty, vals := c.col.vals, strict := c.strict, cells := c.col.cells.toArray }
def ofL (l : LCol) : XCol := { name := l.name, col := { ty := l.ty, vals := l.vals, cells := l.cells.toList }, strict := l.strict }

theorem ofL_toL (c : XCol) : ofL (toL c) = c := rfl
theorem toL_ofL (l : LCol) : toL (ofL l) = l := rfl

theorem map_ofL_toL (cols : List XCol) : (cols.map toL).map ofL = cols := by
  rw [List.map_map]; exact List.map_id'' (fun c => rfl) _

/-- the receiver of the helper: the stored columns, the index, no error -/
def frameOf (cols : List XCol) (ix : List Nat) : GG.Frame := { cols := cols.map toL, index := ix, err := false }

/-- the result of `helperX` as a frame value: the new columns, or the receiver with an error (`withErr`) -/
def frameRes (cols : List XCol) (ix : List Nat) : Option (List XCol) → GG.Frame
  | some c => { cols := c.map toL, index := ix, err := false }
  | none => { cols := cols.map toL, index := ix, err := true }

/-- the slice `Apply1` returns, by its element type -/
def sliceVal (ty : CType) (cells : List Cell) : SG.AVal :=
  match ty with
  | .int => .ints cells
  | .float => .floats cells
  | .bool => .bools cells
  | .string => .strs cells
  | _ => .other

def cellsOf : SG.AVal → List Cell
  | .ints l | .floats l | .bools l | .strs l => l
  | .col c => c.cells.toList
  | .other => []

/-- an unnamed column value -/
def colVal (ty : CType) (cells : List Cell) : LCol := toL { name := [], col := { ty := ty, cells := cells } }

/-- what `Apply1` hands back to `apply1`, by the outcome of the column's loop term -/
def a1Val (R : Reps) (up : UpperOracle) (P : PCol) (fn : LVal Int) (ix : List Nat) : LOutcome Int → Option SG.AVal
  | .err => none
  | .arr .slice ty cells _ => some (sliceVal ty cells)
  | .arr .ownCol _ cells _ => some (.col (colVal P.ty cells))
  | .arr .strCol _ cells _ => some (.col (colVal .string cells))
  | .arr .create ty cells _ => some (.col (colVal ty cells))
  | .builtin _ =>
    (match fn with
     | .str key =>
       (match upperX R up key P ix with
        | some p => some (.col (toL { name := [], col := p.1, strict := p.2 }))
        | none => some .other)
     | _ => some .other)
  | _ => some .other

/-- the column `Apply2` hands back to `apply2` -/
def a2Val (P : PCol) : LOutcome Int → Option LCol
  | .arr .slice ty cells _ => some (colVal ((Gen.apply1WrapAst.slices.lookup ty).getD ty) cells)
  | .arr .ownCol _ cells _ => some (colVal P.ty cells)
  | .arr .strCol _ cells _ => some (colVal .string cells)
  | .arr .create ty cells _ => some (colVal ty cells)
  | _ => none

def run1 (P : PCol) (ix : List Nat) (fn : LVal Int) (s0 : Int) : LOutcome Int :=
  (apply1Of P.ty).run { recv := P, other := P, ix := ix, firstColLen := P.cells.length, fn := fn, s0 := s0 }
def run2 (P Q : PCol) (ix : List Nat) (fn : LVal Int) (s0 : Int) : LOutcome Int :=
  (apply2Of P.ty).run { recv := P, other := Q, ix := ix, firstColLen := P.cells.length, fn := fn, s0 := s0 }

/-- the callees of `apply1` / `apply2` as `helperX` has them -/
def prims (R : Reps) (up : UpperOracle) : SG.APrims FnArg where
  apply1 c f ix := a1Val R up (ofL c).col f.1 ix (run1 (ofL c).col ix f.1 f.2)
  apply2 c f d ix := a2Val (ofL c).col (run2 (ofL c).col (ofL d).col ix f.1 f.2)
  newCol ty v := colVal ty (cellsOf v)
  setColumn F dst r :=
    if legalName dst then { F with cols := (setX (F.cols.map ofL) { ofL r with name := dst }).map toL } else { F with err := true }

/-- the part of `helperX 1` after the column was found and its `Apply1` ran -/
def tail1 (R : Reps) (up : UpperOracle) (cols : List XCol) (ix : List Nat) (dst : Bytes) (c : XCol) (fn : LVal Int) :
    LOutcome Int → Option (Option (List XCol))
  | .builtin _ =>
    match fn with
    | .str key =>
      (upperX R up key c.col ix).map (fun p =>
        if Gen.apply1WrapAst.passesColumn && Gen.apply1WrapAst.setsDst && legalName dst then
          some (setX cols { name := dst, col := p.1, strict := p.2 })
        else none)
    | _ => none
  | out => placeX cols dst c.col.ty out

theorem helperX_one (R : Reps) (up : UpperOracle) (cols : List XCol) (ix : List Nat) (dst s1 s2 : Bytes) (fn : LVal Int) (s0 : Int) :
    helperX R up cols ix 1 dst s1 s2 fn s0 =
      match findX cols s1 with
      | none => some none
      | some c => tail1 R up cols ix dst c fn (run1 c.col ix fn s0) := by
  simp only [helperX, run1]
  cases findX cols s1 with
  | none => rfl
  | some c =>
    simp only []
    cases (apply1Of c.col.ty).run { recv := c.col, other := c.col, ix := ix, firstColLen := c.col.cells.length, fn := fn, s0 := s0 } <;>
      first | rfl | (cases fn <;> rfl)

theorem helperX_two (R : Reps) (up : UpperOracle) (cols : List XCol) (ix : List Nat) (dst s1 s2 : Bytes) (fn : LVal Int) (s0 : Int) :
    helperX R up cols ix 2 dst s1 s2 fn s0 =
      match findX cols s1, findX cols s2 with
      | some c, some d => placeX cols dst c.col.ty (run2 c.col d.col ix fn s0)
      | _, _ => some none := by
  simp only [helperX, run2]
  cases findX cols s1 <;> cases findX cols s2 <;> rfl

theorem find_frameOf (cols : List XCol) (ix : List Nat) (n : Bytes) :
    (frameOf cols ix).find? n = (findX cols n).map toL := by
  unfold frameOf GG.Frame.find? findX
  simp only
  rw [List.find?_map]
  rfl

theorem wrap_flags : Gen.apply1WrapAst.passesColumn = true ∧ Gen.apply1WrapAst.setsDst = true ∧ apply2Sets = true ∧
    Gen.apply1WrapAst.slices = [(.int, .int), (.float, .float), (.bool, .bool), (.string, .string)] := by decide

theorem slices_lookup (ty : CType) : Gen.apply1WrapAst.slices.lookup ty =
    (match ty with | .int => some .int | .float => some .float | .bool => some .bool | .string => some .string | _ => none) := by
  cases ty <;> decide

theorem setColumn_frameOf (R : Reps) (up : UpperOracle) (cols : List XCol) (ix : List Nat) (dst : Bytes) (c : XCol) :
    (prims R up).setColumn (frameOf cols ix) dst (toL c) =
      frameRes cols ix (if legalName dst then some (setX cols { c with name := dst }) else none) := by
  simp only [prims, frameOf, map_ofL_toL, ofL_toL]
  split <;> rfl

theorem tail1_link (R : Reps) (up : UpperOracle) (cols : List XCol) (ix : List Nat) (dst : Bytes) (c : XCol) (fn : LVal Int)
    (out : LOutcome Int) (r : Option (List XCol)) (h : tail1 R up cols ix dst c fn out = some r) :
    (match a1Val R up c.col fn ix out with
     | none => { frameOf cols ix with err := true }
     | some v =>
       match wrapSpec (prims R up) v with
       | none => { frameOf cols ix with err := true }
       | some w => (prims R up).setColumn (frameOf cols ix) dst w) = frameRes cols ix r := by
  obtain ⟨hpass, hsets, h2sets, hslices⟩ := wrap_flags
  cases out with
  | err => simp only [tail1, placeX] at h; cases h; rfl
  | arr ret ty cells s =>
    simp only [tail1, placeX, slices_lookup, hsets, h2sets, Bool.true_and] at h
    cases ret with
    | slice =>
      cases ty <;> simp at h <;> subst h <;>
        simp only [a1Val, sliceVal, wrapSpec] <;> exact setColumn_frameOf R up cols ix dst _
    | ownCol => simp at h; subst h; simp only [a1Val, wrapSpec]; exact setColumn_frameOf R up cols ix dst _
    | strCol => simp at h; subst h; simp only [a1Val, wrapSpec]; exact setColumn_frameOf R up cols ix dst _
    | create => simp at h; subst h; simp only [a1Val, wrapSpec]; exact setColumn_frameOf R up cols ix dst _
    | «opaque» t => simp at h
  | builtin hash =>
    simp only [tail1, hpass, hsets, Bool.true_and] at h
    cases fn with
    | str key =>
      simp only at h
      cases hu : upperX R up key c.col ix with
      | none => rw [hu] at h; cases h
      | some p =>
        rw [hu] at h
        simp only [Option.map_some, Option.some.injEq] at h
        subst h
        simp only [a1Val, hu, wrapSpec]
        exact setColumn_frameOf R up cols ix dst _
    | _ => cases h
  | copy n => simp only [tail1, placeX] at h; cases h
  | panic => simp only [tail1, placeX] at h; cases h
  | stuck => simp only [tail1, placeX] at h; cases h

theorem tail2_link (R : Reps) (up : UpperOracle) (cols : List XCol) (ix : List Nat) (dst : Bytes) (c : XCol)
    (out : LOutcome Int) (r : Option (List XCol)) (h : placeX cols dst c.col.ty out = some r) :
    (match a2Val c.col out with
     | none => { frameOf cols ix with err := true }
     | some w => (prims R up).setColumn (frameOf cols ix) dst w) = frameRes cols ix r := by
  obtain ⟨hpass, hsets, h2sets, hslices⟩ := wrap_flags
  cases out with
  | err => simp only [placeX] at h; cases h; rfl
  | arr ret ty cells s =>
    simp only [placeX, slices_lookup, hsets, h2sets, Bool.true_and] at h
    cases ret with
    | slice =>
      cases ty <;> simp at h <;> subst h <;>
        simp only [a2Val, slices_lookup, Option.getD_some] <;> exact setColumn_frameOf R up cols ix dst _
    | ownCol => simp at h; subst h; simp only [a2Val]; exact setColumn_frameOf R up cols ix dst _
    | strCol => simp at h; subst h; simp only [a2Val]; exact setColumn_frameOf R up cols ix dst _
    | create => simp at h; subst h; simp only [a2Val]; exact setColumn_frameOf R up cols ix dst _
    | «opaque» t => simp at h
  | builtin hash => simp only [placeX] at h; cases h
  | copy n => simp only [placeX] at h; cases h
  | panic => simp only [placeX] at h; cases h
  | stuck => simp only [placeX] at h; cases h

/-- **`helperX` is the regenerated glue.** For every stored frame `(cols, ix)`, names, function value and closure state:
whenever the helper `apply1` (resp. `apply2`) of `helperX` has a meaning `r` — new columns, or an error —, `apply1` (resp.
`apply2`) AS REGENERATED from today's qframe.go (`C03SortGlueGen.genApply1` / `genApply2`: `Gen.sortGlue…`, statement by
statement), run on that frame with the callees `prims` (today's `Column.Apply1` / `Apply2` loop terms, `upperX`, `setX`), returns
the frame `frameRes cols ix r`: the columns `r`, the SAME index, no error — or the receiver with an error. -/
theorem helperX_eq_genApply12 (R : Reps) (up : UpperOracle) (cols : List XCol) (ix : List Nat) (dst s1 s2 : Bytes)
    (fn : LVal Int) (s0 : Int) :
    (∀ r, helperX R up cols ix 1 dst s1 s2 fn s0 = some r →
      genApply1 (prims R up) (frameOf cols ix) (fn, s0) dst s1 = some (frameRes cols ix r)) ∧
    (∀ r, helperX R up cols ix 2 dst s1 s2 fn s0 = some r →
      genApply2 (prims R up) (frameOf cols ix) (fn, s0) dst s1 s2 = some (frameRes cols ix r)) := by
  obtain ⟨g1, g2⟩ := gen_apply12_semantics (prims R up) (frameOf cols ix) (fn, s0) dst s1 s2
  have herr : (frameOf cols ix).err = false := rfl
  have hix : (frameOf cols ix).index = ix := rfl
  refine ⟨fun r h => ?_, fun r h => ?_⟩
  · rw [g1]
    congr 1
    rw [helperX_one] at h
    unfold specApply1
    rw [find_frameOf]
    simp only [herr, Bool.false_eq_true, if_false, hix]
    cases hf : findX cols s1 with
    | none => rw [hf] at h; cases h; rfl
    | some c =>
      rw [hf] at h
      simp only [Option.map_some]
      exact tail1_link R up cols ix dst c fn _ r h
  · rw [g2]
    congr 1
    rw [helperX_two] at h
    unfold specApply2
    rw [find_frameOf, find_frameOf]
    simp only [herr, Bool.false_eq_true, if_false, hix]
    cases hf : findX cols s1 with
    | none => rw [hf] at h; cases h; rfl
    | some c =>
      cases hf2 : findX cols s2 with
      | none => rw [hf, hf2] at h; cases h; rfl
      | some d =>
        rw [hf, hf2] at h
        simp only [Option.map_some]
        exact tail2_link R up cols ix dst c _ r h

/-- the meaning of `helperX` is a frame the regenerated glue returns: packaged for a helper call on a frame value
(`helperFr` with `k = 1, 2` on a frame without error): columns and error flag of the result are those of the regenerated
`apply1` / `apply2`, the index is the receiver's -/
theorem helperFr_glue (R : Reps) (up : UpperOracle) (X : PFr) (hX : X.err = false) (dst s1 s2 : Bytes) (fn : LVal Int) (s0 : Int)
    (k : Nat) (hk : k = 1 ∨ k = 2) (r : Option (List XCol)) (h : helperX R up X.cols X.index k dst s1 s2 fn s0 = some r) :
    (if k = 1 then genApply1 (prims R up) (frameOf X.cols X.index) (fn, s0) dst s1
     else genApply2 (prims R up) (frameOf X.cols X.index) (fn, s0) dst s1 s2) = some (frameRes X.cols X.index r) := by
  obtain ⟨h1, h2⟩ := helperX_eq_genApply12 R up X.cols X.index dst s1 s2 fn s0
  rcases hk with rfl | rfl
  · simpa using h1 r h
  · simpa using h2 r h

/-! ## Example: the hypotheses are met — a helper call that has a meaning -/

/-- `b := f(a)` with `f = (· + 1)` on the stored column `a = [10, 20, 30, 40]` read through the index [3, 1] -/
def exCols : List XCol := [{ name := [97], col := { ty := .int, cells := [.int 10, .int 20, .int 30, .int 40] } }]
def exFn : LVal Int := .fn1 .int .int (fun c => match c with | .int i => .int (i + 1) | c => c)

/-- names and cells of a helper result -/
def shape (r : Option (Option (List XCol))) : Option (Option (List (Bytes × List Cell))) :=
  r.map (·.map (·.map (fun c => (c.name, c.col.cells))))

def R0 : Reps := { s := fun _ => default, e := fun _ => default }

example : shape (helperX R0 (fun b => b) exCols [3, 1] 1 [98] [97] [] exFn 0) =
    some (some [([97], [.int 10, .int 20, .int 30, .int 40]), ([98], [.int 0, .int 21, .int 0, .int 41])]) := by
  decide +kernel

/-- … so the regenerated `apply1` returns a frame on it (`helperX_eq_genApply12` applies) -/
example : ∃ r, helperX R0 (fun b => b) exCols [3, 1] 1 [98] [97] [] exFn 0 = some r ∧
    genApply1 (prims R0 (fun b => b)) (frameOf exCols [3, 1]) (exFn, 0) [98] [97] = some (frameRes exCols [3, 1] r) := by
  cases h : helperX R0 (fun b => b) exCols [3, 1] 1 [98] [97] [] exFn 0 with
  | none => exact absurd (congrArg shape h) (by decide +kernel)
  | some r => exact ⟨r, rfl, (helperX_eq_genApply12 R0 _ exCols [3, 1] [98] [97] [] exFn 0).1 r h⟩

end QF.Props.C06GlueLink

#print axioms QF.Props.C06GlueLink.helperX_eq_genApply12
#print axioms QF.Props.C06GlueLink.helperFr_glue
