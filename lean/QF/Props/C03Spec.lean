import QF.Core.Compare
/-!
# C03 — the user-level statement of "Sort", formalised directly

User-level property: *consecutive rows never decrease under the lexicographic comparison of the
order keys; per key the natural order with null smaller than every value (larger with NullLast),
Reverse inverting that key's complete order including the null placement; the result is a
permutation.*

* `keyOrd`   : the order of two rows under one key, exactly as the sentence says.
* `lexLess`  : lexicographic strict "less" over the list of keys (first key that is not `.eq` decides).
* `lessKeys_eq_lexLess` : the mirror's comparison (`Cmp.lessKeys (Cmp.mkKeys ks)`, built from the
  `Comparable(reverse, equalNull, nullLast)` tables) *is* the documented one.
* `sort_user_level` : the result of the mirror sorter is a permutation with no consecutive descent.
* `no_descent_all_pairs` / `sort_user_level_all_pairs` : no consecutive descent implies no descent
  between any earlier/later pair (uses that `lexLess` is a strict weak order).
-/
namespace QF.Props.C03

/-- Order of rows `i`, `j` under one key: nulls first (last with `nullLast`), two nulls are equal,
    otherwise the ranks are compared; `reverse` swaps the complete order, null placement included. -/
def keyOrd (reverse nullLast : Bool) (k : Cmp.Key) (i j : Nat) : Ordering :=
  let base : Ordering :=
    match k i, k j with
    | none, none => .eq
    | none, some _ => if nullLast then .gt else .lt
    | some _, none => if nullLast then .lt else .gt
    | some x, some y => compare x y
  if reverse then base.swap else base

/-- Lexicographic strict "less" of rows `i`, `j`: the first key whose `keyOrd` is not `.eq` decides. -/
def lexLess : List (Bool × Bool × Cmp.Key) → Nat → Nat → Bool
  | [], _, _ => false
  | (r, n, k) :: ks, i, j =>
    match keyOrd r n k i j with
    | .lt => true
    | .gt => false
    | .eq => lexLess ks i j

/-- collapse of the four-valued table result onto `Ordering` (`eq` and `neq` both mean "tie") -/
def resOrd : Cmp.Res → Ordering
  | .lt => .lt
  | .gt => .gt
  | _ => .eq

private theorem int_cmp (x y : Int) :
    compare x y = if x < y then Ordering.lt else if x > y then Ordering.gt else Ordering.eq := by
  by_cases h1 : x < y
  · simp only [h1, if_true]; exact Int.compare_eq_lt.mpr h1
  · by_cases h2 : y < x
    · have h2' : x > y := h2
      simp only [h1, h2', if_false, if_true]; exact Int.compare_eq_gt.mpr h2
    · have h2' : ¬ x > y := h2
      simp only [h1, h2', if_false]
      exact Int.compare_eq_eq.mpr (by omega)

/-- the comparison table built for an order `(reverse, nullLast)` realises exactly `keyOrd` -/
theorem compare_eq_keyOrd (reverse nullLast : Bool) (k : Cmp.Key) (i j : Nat) :
    resOrd (Cmp.compare (Cmp.mkTbl reverse false nullLast) k i j) = keyOrd reverse nullLast k i j := by
  unfold Cmp.compare keyOrd Cmp.mkTbl
  cases reverse <;> cases nullLast <;> cases hi : k i <;> cases hj : k j <;>
    simp [resOrd, Ordering.swap] <;>
    (rename_i x y; rw [int_cmp]; by_cases h1 : x < y <;> by_cases h2 : y < x <;>
      simp [h1, h2] <;> omega)

/-- Step 3: the mirror's `Less` is the documented lexicographic comparison. -/
theorem lessKeys_eq_lexLess (ks : List (Bool × Bool × Cmp.Key)) (i j : Nat) :
    Cmp.lessKeys (Cmp.mkKeys ks) i j = lexLess ks i j := by
  induction ks with
  | nil => rfl
  | cons x ks ih =>
    obtain ⟨r, n, k⟩ := x
    have h := compare_eq_keyOrd r n k i j
    have ih' : Cmp.lessKeys (List.map (fun x : Bool × Bool × Cmp.Key =>
        (Cmp.mkTbl x.1 false x.2.1, x.2.2)) ks) i j = lexLess ks i j := ih
    simp only [Cmp.mkKeys, List.map_cons, Cmp.lessKeys, lexLess]
    rw [← h]
    cases hc : Cmp.compare (Cmp.mkTbl r false n) k i j <;> simp only [resOrd] <;> exact ih'

theorem lessKeys_eq_lexLess_fun (ks : List (Bool × Bool × Cmp.Key)) :
    Cmp.lessKeys (Cmp.mkKeys ks) = lexLess ks := by
  funext i j; exact lessKeys_eq_lexLess ks i j

/-- `lexLess` is a strict weak order (asymmetric, complement transitive). -/
theorem lexLess_swo (ks : List (Bool × Bool × Cmp.Key)) : Sorter.SWO (lexLess ks) := by
  rw [← lessKeys_eq_lexLess_fun]; exact Cmp.lessKeys_swo ks

theorem at'_eq_getElem! (a : Sorter.Ix) (p : Nat) : Sorter.at' a p = a[p]! := rfl

/-- Step 4: the user-level theorem — a permutation of the input with no consecutive descent. -/
theorem sort_user_level (ks : List (Bool × Bool × Cmp.Key)) (ix : Sorter.Ix) :
    let out := Sorter.sort (Cmp.lessKeys (Cmp.mkKeys ks)) ix
    out.Perm ix ∧ ∀ p, p + 1 < out.size → lexLess ks out[p+1]! out[p]! = false := by
  intro out
  obtain ⟨hs, hp⟩ := Cmp.sort_by_orders ks ix
  refine ⟨hp, ?_⟩
  intro p hlt
  have hsz : out.size = ix.size := hp.size_eq
  have := hs p (p + 1) (Nat.zero_le _) (Nat.lt_succ_self _) (by omega)
  rw [lessKeys_eq_lexLess] at this
  exact this

/-- Step 5 (general form): for a strict weak order, no descent between consecutive positions
    implies no descent between any earlier/later pair of positions. -/
theorem no_descent_all_pairs_of_swo (less : Nat → Nat → Bool) (sw0 : Sorter.SWO less) (out : Sorter.Ix)
    (h : ∀ p, p + 1 < out.size → less out[p+1]! out[p]! = false) :
    ∀ p q, p < q → q < out.size → less out[q]! out[p]! = false := by
  intro p q hpq
  -- induction on the distance d = q - (p+1)
  obtain ⟨d, rfl⟩ : ∃ d, q = p + 1 + d := ⟨q - (p + 1), by omega⟩
  clear hpq
  induction d with
  | zero => intro hq; exact h p hq
  | succ d ih =>
    intro hq
    have h1 : less out[p + 1 + d]! out[p]! = false := ih (by omega)
    have h2 : less out[p + 1 + d + 1]! out[p + 1 + d]! = false := h (p + 1 + d) hq
    exact sw0.le_trans _ _ _ h1 h2

/-- Step 5: for `lexLess`, no consecutive descent implies no descent between any pair. -/
theorem no_descent_all_pairs (ks : List (Bool × Bool × Cmp.Key)) (out : Sorter.Ix)
    (h : ∀ p, p + 1 < out.size → lexLess ks out[p+1]! out[p]! = false) :
    ∀ p q, p < q → q < out.size → lexLess ks out[q]! out[p]! = false :=
  no_descent_all_pairs_of_swo (lexLess ks) (lexLess_swo ks) out h

/-- Steps 4 + 5 combined: the sorted result has no descent between any earlier/later pair. -/
theorem sort_user_level_all_pairs (ks : List (Bool × Bool × Cmp.Key)) (ix : Sorter.Ix) :
    let out := Sorter.sort (Cmp.lessKeys (Cmp.mkKeys ks)) ix
    out.Perm ix ∧ ∀ p q, p < q → q < out.size → lexLess ks out[q]! out[p]! = false := by
  intro out
  obtain ⟨hp, hc⟩ := sort_user_level ks ix
  exact ⟨hp, no_descent_all_pairs ks out hc⟩

/-! ## Concrete instance: two keys (first reversed, second nullLast), five rows -/

/-- first key: ranks 2,1,2,null,1 (sorted in reverse, so null — normally first — comes last) -/
def exK1 : Cmp.Key := fun i => match i with | 0 => some 2 | 1 => some 1 | 2 => some 2 | 3 => none | 4 => some 1 | _ => none
/-- second key: ranks 5,null,3,7,4 (nullLast) -/
def exK2 : Cmp.Key := fun i => match i with | 0 => some 5 | 1 => none | 2 => some 3 | 3 => some 7 | 4 => some 4 | _ => none
def exKs : List (Bool × Bool × Cmp.Key) := [(true, false, exK1), (false, true, exK2)]

/-- key 1 descending: rows {0,2} (rank 2), then {1,4} (rank 1), then 3 (null, placed last by Reverse);
    ties broken by key 2 ascending with null last: 2 (3) before 0 (5); 4 (4) before 1 (null). -/
example : Sorter.sort (Cmp.lessKeys (Cmp.mkKeys exKs)) #[0, 1, 2, 3, 4] = #[2, 0, 4, 1, 3] := by decide

example : (List.range 5).map (fun i => (List.range 5).map (fun j => keyOrd true false exK1 i j)) =
    [[.eq, .lt, .eq, .lt, .lt], [.gt, .eq, .gt, .lt, .eq], [.eq, .lt, .eq, .lt, .lt],
     [.gt, .gt, .gt, .eq, .gt], [.gt, .eq, .gt, .lt, .eq]] := by decide

/-- the hypotheses of `no_descent_all_pairs` are satisfiable on the non-trivial instance, and the
    conclusion of `sort_user_level` holds there by evaluation too -/
example : ∀ p, p + 1 < (#[2, 0, 4, 1, 3] : Sorter.Ix).size →
    lexLess exKs (#[2, 0, 4, 1, 3] : Sorter.Ix)[p+1]! (#[2, 0, 4, 1, 3] : Sorter.Ix)[p]! = false := by
  intro p hp
  have : p < 4 := by
    have h5 : (#[2, 0, 4, 1, 3] : Sorter.Ix).size = 5 := rfl
    omega
  match p, this with
  | 0, _ => decide
  | 1, _ => decide
  | 2, _ => decide
  | 3, _ => decide

/-- and the order is strict on this instance (not the trivial all-ties case) -/
example : lexLess exKs 2 0 = true ∧ lexLess exKs 0 4 = true ∧ lexLess exKs 4 1 = true ∧ lexLess exKs 1 3 = true := by
  decide

/-- instance of the main theorem -/
example :
    let out := Sorter.sort (Cmp.lessKeys (Cmp.mkKeys exKs)) #[0, 1, 2, 3, 4]
    out.Perm #[0, 1, 2, 3, 4] ∧ ∀ p q, p < q → q < out.size → lexLess exKs out[q]! out[p]! = false :=
  sort_user_level_all_pairs exKs #[0, 1, 2, 3, 4]

#print axioms compare_eq_keyOrd
#print axioms lessKeys_eq_lexLess
#print axioms lexLess_swo
#print axioms sort_user_level
#print axioms no_descent_all_pairs_of_swo
#print axioms no_descent_all_pairs
#print axioms sort_user_level_all_pairs

end QF.Props.C03
