import QF.Props.Tie
import QF.Core.Small
/-!
# C19 — ReadSQL: the `Column.Scan` state machine

`scan_text`: for every sequence of text values and NULLs containing at least one text value,
scanning yields a string column that reproduces the sequence, leading NULLs back-filled.
-/
namespace QF.Props.C19

theorem scan_text (vs : List Small.Sql.V) (h : ∀ v, v ∈ vs → Small.Sql.isStrOrNull v = true)
    (hne : ∃ v, v ∈ vs ∧ v ≠ Small.Sql.V.null) :
    ∃ c, Small.Sql.scanAll vs = some c ∧ c.kind = Small.Sql.Kind.str ∧ c.strs = List.map Small.Sql.toStrCell vs :=
  Small.Sql.scan_text vs h hne

/-- T1: the functions this property's mirror model follows have today the source text the model was written against. -/
theorem tie : Tie.sameAll ["sql.Column.Scan", "sql.Column.Null", "sql.Column.String", "sql.Column.Float", "sql.Column.Int", "sql.Column.Bool", "sql.Column.Data", "sql.Insert", "sql.escape", "sql.ReadSQL", "sql.NewArgBuilder", "sql.StringToFloat", "sql.Int64ToBool", "qframe.QFrame.ToSQL"] = true := by decide

end QF.Props.C19
