import QF.Core.Small
/-!
# C19 — ReadSQL: the `Column.Scan` state machine

`scan_text`: for every sequence of text values and NULLs containing at least one text value,
scanning yields a string column that reproduces the sequence, leading NULLs back-filled.
-/
namespace QF.Props.C19

theorem scan_text (vs : List Small.Sql.V) (h : ∀ v, v ∈ vs → Small.Sql.isStrOrNull v = true)
    (hne : ∃ v, v ∈ vs ∧ v ≠ Small.Sql.V.null) :
    ∃ c, Small.Sql.scanAll vs = some c ∧ c.kind = Small.Sql.Kind.str ∧ c.strs = List.map Small.Sql.toStrCell vs :=
  Small.Sql.scan_text vs h hne

end QF.Props.C19
