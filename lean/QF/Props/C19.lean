import QF.Props.Tie
import QF.Core.Small
/-!
# C19 — ReadSQL: the `Column.Scan` state machine

`scan_text`: for every sequence of text values and NULLs containing at least one text value,
scanning yields a string column that reproduces the sequence, leading NULLs back-filled.
-/
namespace QF.Props.C19

theorem scan_text (vs : List Small.Sql.V) (h : ∀ v, v ∈ vs → Small.Sql.isStrOrNull v = true)
    (hne : ∃ v, v ∈ vs ∧ v ≠ Small.Sql.V.null) :
    ∃ c, Small.Sql.scanAll vs = some c ∧ c.kind = Small.Sql.Kind.str ∧ c.strs = List.map Small.Sql.toStrCell vs :=
  Small.Sql.scan_text vs h hne

/-- T1: the functions this property's mirror model follows have today the source text the model was written against. -/
-- Tie audit (bin/selftest-ties): the following functions are not compared as text any more; every behaviour-changing edit of
-- them makes a `gen_*_canon` theorem of this property's modules fail, renaming their locals or reformatting them changes nothing:
-- `Column.Scan`, `Null`, `String`, `Float`, `Int`, `Bool`, `Data`, `StringToFloat`, `Int64ToBool`: `Gen.scanAst` / `Gen.scanMethods` / `Gen.dataAst` / `Gen.coerceAsts` (sast.go),
-- `C19ScanGen.gen_scan_canon` + `gen_scan_semantics` / `gen_data_semantics`.
-- Insert, escape, NewArgBuilder and ToSQL are regenerated in `Gen.insertAst` / `escapeAst` / `argBuilderClauses` / `toSqlAst` (C19SqlWriteGen), ReadSQL in `Gen.readSqlAst` (C19ReadSqlGen); nothing of C19 is compared as text any more.
theorem tie : Tie.sameAll [] = true := by decide

end QF.Props.C19
