import QF.Props.Tie
/-! # C07 -/
namespace QF.Props.C07

/-- T1: the functions this property's mirror model follows have today the source text the model was written against. -/
theorem tie : Tie.sameAll ["qframe.Eval", "qframe.tempColName", "qframe.newColConstExpr", "qframe.colConstExpr.execute", "qframe.exprExpr1.execute", "qframe.exprExpr2.execute", "qframe.colColExpr.execute", "qframe.unaryExpr.execute", "qframe.constExpr.execute", "qframe.getFunc", "qframe.Expr"] = true := by decide

/-- The default evaluation context (operand type, arity, name ↦ function) is the one the spec's `evalUnary` /
`evalBinary` were written against. -/
theorem gen_eval_context_same : Gen.evalCtxHash = Expected.evalCtxHash := by decide

end QF.Props.C07
