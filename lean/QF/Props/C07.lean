import QF.Props.Tie
/-! # C07 -/
namespace QF.Props.C07

/-- T1: the functions this property's mirror model follows have today the source text the model was written against.
The decoder (`newExpr` and the constructors it calls, among them `newColConstExpr`) and `Expr` are no longer compared as
text: their meaning is regenerated as `Gen.newExprAst` / `Gen.exprFoldAst` and proved equal to the spec's reading in
`QF.Props.C07Decode.gen_expr_decode_semantics` / `gen_expr_fold`. The execution (`Eval`, `tempColName`, `getFunc` and the
`execute` methods of all expression structs) is regenerated as `Gen.evalFns` / `Gen.tempColNameAst` and proved equal to the
hand mirror in `QF.Props.C07EvalGen.gen_eval_semantics` / `gen_eval_bookkeeping`; `missingCol` (the check of the column
references `Eval` makes before it executes anything) is regenerated as `Gen.missingColAst`: `gen_missingcol_semantics`. The link
to the denotational spec is `QF.Props.C07EndToEnd.gen_eval_end_to_end_partial`. Nothing of C07 is compared as text any more. -/
theorem tie : Tie.sameAll [] = true := by decide

/-- The default evaluation context (operand type, arity, name ↦ function) is the one the spec's `evalUnary` /
`evalBinary` were written against. -/
theorem gen_eval_context_same : Gen.evalCtxHash = Expected.evalCtxHash := by decide

end QF.Props.C07
