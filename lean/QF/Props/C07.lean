import QF.Props.Tie
/-! # C07 -/
namespace QF.Props.C07

/-- T1: the functions this property's mirror model follows have today the source text the model was written against.
The decoder (`newExpr` and the constructors it calls, among them `newColConstExpr`) and `Expr` are no longer compared as
text: their meaning is regenerated as `Gen.newExprAst` / `Gen.exprFoldAst` and proved equal to the spec's reading in
`QF.Props.C07Decode.gen_expr_decode_semantics` / `gen_expr_fold`. -/
theorem tie : Tie.sameAll ["qframe.Eval", "qframe.tempColName", "qframe.colConstExpr.execute", "qframe.exprExpr1.execute", "qframe.exprExpr2.execute", "qframe.colColExpr.execute", "qframe.unaryExpr.execute", "qframe.constExpr.execute", "qframe.getFunc"] = true := by decide

/-- The default evaluation context (operand type, arity, name ↦ function) is the one the spec's `evalUnary` /
`evalBinary` were written against. -/
theorem gen_eval_context_same : Gen.evalCtxHash = Expected.evalCtxHash := by decide

end QF.Props.C07
