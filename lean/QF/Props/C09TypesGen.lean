import QF.Gen.SqlWrite
import QF.Gen.Writers
import QF.Props.C03Compare
/-!
# C09 — `QFrame.ColumnTypes()` regenerated (tie T1)

`QF.Gen.columnTypesAst` (QF/Gen/SqlWrite.lean, rewritten on every run by go/cmd/extract/sqlwast.go from /repo/qframe.go) is
`func (qf QFrame) ColumnTypes() []types.DataType` statement by statement as a term of `QF.SqCT` (QF/Core/SqExpr.lean):
`types := make([]types.DataType, len(qf.columns))`, the loop over `qf.columns`, `types[i] = col.DataType()`, `return types`.

* `gen_columntypes_no_opaque` / `gen_columntypes_canon` — nothing untranslated; today's term is the canonical one (`decide`);
* `gen_columntypes_semantics` — for EVERY frame (any number of columns), whatever its columns answer to `DataType()`
  (`ts`), `ColumnTypes()` returns exactly these answers, one per column, in column order; if some column's `DataType()` has no
  meaning, neither has the call (`gen_columntypes_none`);
* `gen_columntypes_today` — with `DataType()` of today's column packages (`Gen.dataTypeNames`, C09StringGen) the result for columns
  of the types `tys` is the list of the type names `typeName`.
* witnesses: writing the type at a constant position, forgetting the write, returning before the loop are different terms and
  give other results.
-/
namespace QF.Props.C09TypesGen
open QF
open QF.Props.C03Compare (pkgOf tys)

def canonSetType : SqCT := .setType .done
def canonColumnTypes : SqCT := .alloc (.forCols canonSetType .ret)

theorem gen_columntypes_no_opaque : Gen.columnTypesAst.hasOpaque = false := by decide
theorem gen_columntypes_canon : Gen.columnTypesAst = canonColumnTypes := by decide

theorem canon_types_loop : ∀ (rest pre : List Bytes) (dts : List (Option Bytes)),
    loopIdx (fun i n σ => canonSetType.run dts (some (i, n)) σ) (fun σ => σ.ret) pre.length (rest.map some)
        { res := some (pre ++ List.replicate rest.length []), ret := false } =
      some { res := some (pre ++ rest), ret := false } := by
  intro rest
  induction rest with
  | nil => intro pre dts; simp [loopIdx]
  | cons n ns ih =>
    intro pre dts
    have hset : (pre ++ List.replicate (ns.length + 1) ([] : Bytes)).set pre.length n
        = (pre ++ [n]) ++ List.replicate ns.length [] := by
      simp [List.replicate_succ]
    have hlt : pre.length < (pre ++ List.replicate (ns.length + 1) ([] : Bytes)).length := by simp
    have hstep : canonSetType.run dts (some (pre.length, some n))
          { res := some (pre ++ List.replicate (ns.length + 1) []), ret := false } =
        some { res := some ((pre ++ [n]) ++ List.replicate ns.length []), ret := false } := by
      simp only [canonSetType, SqCT.run, hlt, if_true, hset]
    rw [List.map_cons, loopIdx]
    simp only [Bool.false_eq_true, if_false, List.length_cons, hstep, Option.bind_some]
    have := ih (pre ++ [n]) dts
    simp only [List.length_append, List.length_cons, List.length_nil, Nat.zero_add] at this
    rw [this]
    simp

/-- the canonical `ColumnTypes`: the answers in order -/
theorem canon_columntypes (ts : List Bytes) : canonColumnTypes.result (ts.map some) = some ts := by
  have := canon_types_loop ts [] (ts.map some)
  simp only [List.length_nil, List.nil_append] at this
  simp [SqCT.result, canonColumnTypes, SqCT.run, this]

/-- `qf.ColumnTypes()` of today's source on a frame whose columns answer `dts` to `DataType()` -/
def genColumnTypes (dts : List (Option Bytes)) : Option (List Bytes) := Gen.columnTypesAst.result dts

/-- **`ColumnTypes()` of today's source is the list of the columns' `DataType()` in column order**, for every frame. -/
theorem gen_columntypes_semantics (ts : List Bytes) : genColumnTypes (ts.map some) = some ts := by
  rw [genColumnTypes, gen_columntypes_canon]
  exact canon_columntypes ts

/-- per column type, what `DataType()` of today's column package returns -/
def typeName : CType → Bytes
  | .int => [105, 110, 116]
  | .float => [102, 108, 111, 97, 116]
  | .bool => [98, 111, 111, 108]
  | .string => [115, 116, 114, 105, 110, 103]
  | .enum => [101, 110, 117, 109]
  | .undef => []

theorem gen_typenames : ∀ ty ∈ tys, Gen.dataTypeNames.lookup (pkgOf ty) = some (typeName ty) := by decide

/-- **`ColumnTypes()` with today's `DataType()` methods**: for columns of the types `ctys` (each one of the five column types), the
names of these types in order -/
theorem gen_columntypes_today (ctys : List CType) (h : ∀ ty ∈ ctys, ty ∈ tys) :
    genColumnTypes (ctys.map (fun ty => Gen.dataTypeNames.lookup (pkgOf ty))) = some (ctys.map typeName) := by
  have : ctys.map (fun ty => Gen.dataTypeNames.lookup (pkgOf ty)) = (ctys.map typeName).map some := by
    rw [List.map_map]
    apply List.map_congr_left
    intro ty hty
    exact gen_typenames ty (h ty hty)
  rw [this, gen_columntypes_semantics]

/-! ## Example and witnesses -/

/-- the hypotheses are met: an int, a string and an enum column -/
example : genColumnTypes ([CType.int, .string, .enum].map (fun ty => Gen.dataTypeNames.lookup (pkgOf ty))) =
    some [[105, 110, 116], [115, 116, 114, 105, 110, 103], [101, 110, 117, 109]] := by decide +kernel
example : ∀ ty ∈ [CType.int, .string, .enum], ty ∈ tys := by decide

/-- a loop that forgets the write returns empty strings; a return before the loop too -/
example : (SqCT.alloc (.forCols .done .ret)).result [some [105], some [102]] = some [[], []] := by decide +kernel
example : (SqCT.alloc .ret).result [some [105], some [102]] = some [[], []] := by decide +kernel
example : SqCT.alloc (.forCols .done .ret) ≠ canonColumnTypes ∧ SqCT.alloc .ret ≠ canonColumnTypes := by decide
/-- a column whose `DataType()` has no meaning: no result -/
example : canonColumnTypes.result [some [105], none] = none := by decide +kernel

end QF.Props.C09TypesGen

#print axioms QF.Props.C09TypesGen.gen_columntypes_no_opaque
#print axioms QF.Props.C09TypesGen.gen_columntypes_canon
#print axioms QF.Props.C09TypesGen.gen_columntypes_semantics
#print axioms QF.Props.C09TypesGen.gen_columntypes_today
