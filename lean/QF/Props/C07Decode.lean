import QF.Props.C07DecodeCanon
/-!
# C07 — the expression DECODER of today's expression.go reads raw trees as the spec does (tie T1, by semantics)

`QF.Gen.newExprAst` (regenerated on every run by go/cmd/extract/xast.go) is the body of the function `Val` delegates to
(`newExpr`) with every constructor it calls inlined (`newColExpr`, `newConstExpr`, `newUnaryExpr`, `newColConstExpr`,
`newColColExpr`, `newExprExpr`, `opIdentifier`, `colIdentifier`), as ONE decision tree `QF.XT` (QF/Core/XExpr.lean) over
the raw argument; `QF.Gen.exprFoldAst` is `Expr(name, args...)` as a term of `QF.XF`. `XT.decode` / `XF.run` are the Go
meaning of such terms on raw values `RawExpr` (strings, column names, int / float64 / bool / string / *string constants,
nil, `[]interface{}` lists, `Expression` values built earlier, anything else). Proved here, over the terms generated TODAY:

* `gen_decoder_canon_atom/_len/2/3` (QF/Props/C07DecodeCanon.lean) — finite `decide`: for every SHAPE of the argument
  (its kind; for a list its length 0, 1, 2, 3, ≥ 4 and, for 2 and 3 elements, per element (kind, "its decoding is an
  error")) the tree reaches the leaf the hand-written `canonNode` names. Insensitive to names, to the order of harmless
  tests, to how the constructors are split into functions; sensitive to the order of the attempts where it matters
  (col-const before col-col before nested), to the lengths accepted, to every type test and every field.
* `gen_expr_fold_canon` — `Expr` is `canonFold` (tests on `len(args)`, fresh slice, tail call).
* `gen_expr_decode_semantics` — on EVERY raw tree the decoder terminates with a struct value `d`; `d.Err() != nil`
  exactly when the spec's reading `read x : EArg` (QF/Spec/Ops.lean) contains a malformed part, otherwise `d` stands for
  exactly `read x` (`XDec.toEArg`: `unaryExpr{op, c}` ↦ `.x op [.col c]`, `colConstExpr{op, c, v, constFirst}` ↦
  `.x op [.col c, .val v]` or `.x op [.val v, .col c]`, …). `den_hasBad`: a malformed part makes `EArg.den` `none` on
  every frame; `gen_expr_decode_den`: so `d` and `read x` have the same denotation.
* `gen_expr_fold` — `Expr(name, a₀, a₁, a₂, …)` returns the LEFT fold `((a₀ name a₁) name a₂) …` (`foldE`), an error
  exactly when an argument is malformed or there is none, and the contents of the caller's slice afterwards are what
  they were (the extracted body copies; `inPlaceFold` below: a variant that writes into `args` builds the same
  expression and leaves the slice changed). `den_foldE`: the left fold denotes what the spec's n-ary `EArg.x op args`
  denotes; `gen_expr_fold_den` puts the two together.

`wf x`: every `Expression` value inside the raw tree is one the decoder can have built (`XDec.proper`: no operand of a
nested expression is the error struct) — what `Val` / `Expr` return, by the `proper` conjunct of the theorems.
Not modelled: user types implementing `Expression` (the interface has an unexported method, so there are none outside
the package), `[]string` or other slice types as list (they are `other`: rejected, as in the code).
-/
namespace QF.Props.C07Decode
open QF

/-! ## 2. the spec's reading of a raw tree -/

/-- the expression a decoded struct stands for (`nm`: the operation name as the spec's `String`) -/
def _root_.QF.XDec.toEArg (nm : Bytes → String) : XDec → EArg
  | .col n => .col n
  | .const c => .val c
  | .unary op s => .x (nm op) [.col s]
  | .colConst op s c false => .x (nm op) [.col s, .val c]
  | .colConst op s c true => .x (nm op) [.val c, .col s]
  | .colCol op a b => .x (nm op) [.col a, .col b]
  | .ex1 op e => .x (nm op) [e.toEArg nm]
  | .ex2 op l r => .x (nm op) [l.toEArg nm, r.toEArg nm]
  | .error => .bad

/-- no operand of a nested expression is the error struct (`newExprExpr` never builds such a value) -/
def _root_.QF.XDec.proper : XDec → Bool
  | .ex1 _ e => !e.isErr && e.proper
  | .ex2 _ l r => !l.isErr && l.proper && (!r.isErr && r.proper)
  | _ => true

mutual
/-- The spec's reading of a raw Go value as an expression (QF/Spec/Ops.lean `EArg`): a column name is a column, a
constant of type int / float64 / bool / string / *string a value, nil the null string, a two- or three-element list whose
head is a string an application, an `Expression` built earlier what it was built from; everything else is `.bad`. -/
def read (nm : Bytes → String) : RawExpr → EArg
  | .expr d => d.toEArg nm
  | .col n => .col n
  | .str s => .val (.str (some s))
  | .int v => .val (.int v)
  | .float b => .val (.float b)
  | .bool b => .val (.bool b)
  | .pstr p => .val (.str p)
  | .nil => .val (.str none)
  | .other => .bad
  | .list l =>
    match l.head?, readL nm l with
    | some (.str op), [_, a] => .x (nm op) [a]
    | some (.str op), [_, a, b] => .x (nm op) [a, b]
    | _, _ => .bad
def readL (nm : Bytes → String) : List RawExpr → List EArg
  | [] => []
  | a :: r => read nm a :: readL nm r
end

mutual
/-- does the expression contain a malformed part? (the spec's `EArg.den` is `none` then, whatever the frame) -/
def hasBad : EArg → Bool
  | .bad => true
  | .x _ args => hasBadL args
  | _ => false
def hasBadL : List EArg → Bool
  | [] => false
  | a :: r => hasBad a || hasBadL r
end

mutual
/-- every `Expression` value inside the raw tree is one the decoder can have built -/
def wf : RawExpr → Bool
  | .expr d => d.proper
  | .list l => wfL l
  | _ => true
def wfL : List RawExpr → Bool
  | [] => true
  | a :: r => wf a && wfL r
end

/-- the decoder's answer `d` for the raw tree `x` is the spec's reading -/
def Good (nm : Bytes → String) (x : RawExpr) (d : XDec) : Prop :=
  d.proper = true ∧ d.isErr = hasBad (read nm x) ∧ (d.isErr = false → d.toEArg nm = read nm x)

theorem proper_noBad (nm : Bytes → String) (d : XDec) (hp : d.proper = true) (he : d.isErr = false) :
    hasBad (d.toEArg nm) = false := by
  induction d with
  | ex1 op e ih =>
    simp only [XDec.proper, Bool.and_eq_true, Bool.not_eq_true'] at hp
    simp [XDec.toEArg, hasBad, hasBadL, ih hp.2 hp.1]
  | ex2 op l r ihl ihr =>
    simp only [XDec.proper, Bool.and_eq_true, Bool.not_eq_true'] at hp
    simp [XDec.toEArg, hasBad, hasBadL, ihl hp.1.2 hp.1.1, ihr hp.2.2 hp.2.1]
  | colConst op s c cf => cases cf <;> simp [XDec.toEArg, hasBad, hasBadL]
  | error => simp [XDec.isErr] at he
  | _ => simp [XDec.toEArg, hasBad, hasBadL]

theorem good_expr (nm : Bytes → String) (d : XDec) (hp : d.proper = true) : Good nm (.expr d) d := by
  refine ⟨hp, ?_, fun _ => by simp [read]⟩
  simp only [read]
  cases he : d.isErr
  · exact (proper_noBad nm d hp he).symm
  · cases d <;> simp [XDec.isErr] at he
    simp [XDec.toEArg, hasBad]

/-! ## 3. today's tree on an argument: the canonical leaf of its shape -/

theorem run_canon (x : RawExpr) (subs : List XDec) (hs : ∀ l, x = .list l → subs.length = l.length)
    (hc : ∀ p ∈ (shapeOf x subs).elems, consistent p = true) :
    Gen.newExprAst.run x subs = (canonNode (shapeOf x subs)).build x subs := by
  apply XT.run_flatten x subs hs
  cases x with
  | list l =>
    have hl := hs l rfl
    match l, subs, hl, hc with
    | [], [], _, _ => exact gen_decoder_canon_len 0 (by decide)
    | [a], [da], _, _ => exact gen_decoder_canon_len 1 (by decide)
    | [a, b], [da, db], _, _ => exact gen_decoder_canon2 _ _
    | [a, b, c], [da, db, dc], _, hc =>
      have e : (shapeOf (.list [a, b, c]) [da, db, dc]).elems =
          [(a.kind, da.isErr), (b.kind, db.isErr), (c.kind, dc.isErr)] := rfl
      rw [e] at hc
      exact gen_decoder_canon3 _ (mem_goodPairs _ (hc _ (by simp))) _ (mem_goodPairs _ (hc _ (by simp)))
        _ (mem_goodPairs _ (hc _ (by simp)))
    | a :: b :: c :: d :: r, subs, h, _ =>
      have : min (a :: b :: c :: d :: r).length 4 = 4 := by simp
      simp only [shapeOf, this]
      have h2 : ¬ ((a :: b :: c :: d :: r).length = 2 ∨ (a :: b :: c :: d :: r).length = 3) := by simp
      simp only [h2, if_false]
      exact gen_decoder_canon_len 4 (by decide)
  | expr d => exact gen_decoder_canon_atom .expr (by decide)
  | col n => exact gen_decoder_canon_atom .col (by decide)
  | str s => exact gen_decoder_canon_atom .str (by decide)
  | int v => exact gen_decoder_canon_atom .int (by decide)
  | float b => exact gen_decoder_canon_atom .float (by decide)
  | bool b => exact gen_decoder_canon_atom .bool (by decide)
  | pstr p => exact gen_decoder_canon_atom .pstr (by decide)
  | nil => exact gen_decoder_canon_atom .nil (by decide)
  | other => exact gen_decoder_canon_atom .other (by decide)

/-- on an argument that is not a list -/
theorem run_canon_atom (x : RawExpr) (h : ∀ l, x ≠ .list l) :
    Gen.newExprAst.run x [] = (canonNode (shapeOf x [])).build x [] :=
  run_canon x [] (fun l e => absurd e (h l)) (by cases x <;> first | (intro p hp; simp [shapeOf] at hp) | exact absurd rfl (h _))

/-! ## 4. lists -/

def GoodL (nm : Bytes → String) : List RawExpr → List XDec → Prop
  | [], [] => True
  | a :: r, d :: ds => Good nm a d ∧ GoodL nm r ds
  | _, _ => False

theorem good_consistent {nm : Bytes → String} {a : RawExpr} {d : XDec} (h : Good nm a d) :
    consistent (a.kind, d.isErr) = true := by
  obtain ⟨_, he, _⟩ := h
  cases a <;> simp [read, hasBad] at he <;> simp [RawExpr.kind, consistent, he]

theorem goodL_consistent {nm : Bytes → String} : ∀ {l : List RawExpr} {subs : List XDec}, GoodL nm l subs →
    ∀ p ∈ (l.zip subs).map (fun q => (q.1.kind, q.2.isErr)), consistent p = true
  | [], [], _ => by simp
  | a :: r, d :: ds, h => by
    intro p hp
    simp only [List.zip_cons_cons, List.map_cons, List.mem_cons] at hp
    rcases hp with rfl | hp
    · exact good_consistent h.1
    · exact goodL_consistent h.2 p hp
  | [], _ :: _, h => h.elim
  | _ :: _, [], h => h.elim

theorem GoodL.length {nm : Bytes → String} : ∀ {l : List RawExpr} {subs : List XDec}, GoodL nm l subs → subs.length = l.length
  | [], [], _ => rfl
  | a :: r, d :: ds, h => by simp [GoodL.length h.2]
  | [], _ :: _, h => h.elim
  | _ :: _, [], h => h.elim

theorem kind_str {a : RawExpr} (h : a.kind = .str) : ∃ s, a = .str s := by
  cases a <;> simp [RawExpr.kind] at h
  exact ⟨_, rfl⟩

theorem kind_col {a : RawExpr} (h : a.kind = .col) : ∃ s, a = .col s := by
  cases a <;> simp [RawExpr.kind] at h
  exact ⟨_, rfl⟩

theorem read_head_not_str (nm : Bytes → String) (a : RawExpr) (r : List RawExpr) (h : a.kind ≠ .str) :
    read nm (.list (a :: r)) = .bad := by
  cases a <;> simp [RawExpr.kind] at h <;> simp [read]

/-- a constant: the cell it denotes -/
def cellOf : RawExpr → Option Cell
  | .int v => some (.int v)
  | .float b => some (.float b)
  | .bool b => some (.bool b)
  | .str s => some (.str (some s))
  | .pstr p => some (.str p)
  | .nil => some (.str none)
  | _ => none

theorem const_cell {c : RawExpr} (h : isConstKind c.kind = true) : ∃ v, cellOf c = some v := by
  cases c <;> simp [RawExpr.kind, isConstKind] at h <;> exact ⟨_, rfl⟩

theorem canon2_eq (k0 k1 : XKind) (e0 e1 : Bool) :
    canonNode { kind := .list, len := 2, elems := [(k0, e0), (k1, e1)] } =
      (if k0 ≠ .str then .error else if k1 = .col then .unary (.elem 0) (.elem 1)
       else if e1 then .error else .ex1 (.elem 0) 1) := rfl

theorem canon3_eq (k0 k1 k2 : XKind) (e0 e1 e2 : Bool) :
    canonNode { kind := .list, len := 3, elems := [(k0, e0), (k1, e1), (k2, e2)] } =
      (if k0 ≠ .str then .error
       else if k1 = .col ∧ isConstKind k2 then .colConst (.elem 0) (.elem 1) (kOf k2 (.elem 2)) false
       else if k2 = .col ∧ isConstKind k1 then .colConst (.elem 0) (.elem 2) (kOf k1 (.elem 1)) true
       else if k1 = .col ∧ k2 = .col then .colCol (.elem 0) (.elem 1) (.elem 2)
       else if e1 then .error
       else if e2 then .error
       else .ex2 (.elem 0) 1 2) := rfl

theorem isErr_error : XDec.error.isErr = true := rfl

theorem good_error (nm : Bytes → String) (x : RawExpr) (h : hasBad (read nm x) = true) : Good nm x .error :=
  ⟨rfl, by rw [h]; rfl, fun h => by simp [XDec.isErr] at h⟩

theorem good2 (nm : Bytes → String) (a b : RawExpr) (da db : XDec) (hb : Good nm b db) :
    ∃ d, (canonNode (shapeOf (.list [a, b]) [da, db])).build (.list [a, b]) [da, db] = some d ∧
      Good nm (.list [a, b]) d := by
  have hs : shapeOf (.list [a, b]) [da, db] =
      { kind := .list, len := 2, elems := [(a.kind, da.isErr), (b.kind, db.isErr)] } := rfl
  rw [hs, canon2_eq]
  obtain ⟨hp, he, ht⟩ := hb
  by_cases ha : a.kind = .str
  · obtain ⟨op, rfl⟩ := kind_str ha
    simp only [ha, ne_eq, not_true_eq_false, if_false]
    by_cases hbk : b.kind = .col
    · obtain ⟨n, rfl⟩ := kind_col hbk
      simp only [hbk, if_true]
      refine ⟨.unary op n, by simp [XN.build, XV.str, XV.col, XV.get], ?_⟩
      simp [Good, XDec.proper, XDec.isErr, read, readL, hasBad, hasBadL, XDec.toEArg]
    · simp only [hbk, if_false]
      have hr : read nm (.list [.str op, b]) = .x (nm op) [read nm b] := by simp [read, readL]
      cases hdb : db.isErr
      · simp only [Bool.false_eq_true, if_false]
        refine ⟨.ex1 op db, by simp [XN.build, XV.str, XV.get], ?_⟩
        rw [hdb] at he
        refine ⟨by simp [XDec.proper, hp, hdb], ?_, fun _ => ?_⟩
        · rw [hr]; simp [hasBad, hasBadL, ← he]; rfl
        · rw [hr]; simp [XDec.toEArg, ht hdb]
      · simp only [if_true]
        refine ⟨.error, by simp [XN.build], ?_⟩
        rw [hdb] at he
        exact good_error nm _ (by rw [hr]; simp [hasBad, hasBadL, ← he])
  · simp only [ne_eq, ha, not_false_eq_true, if_true]
    exact ⟨.error, by simp [XN.build], good_error nm _ (by rw [read_head_not_str nm a [b] ha]; rfl)⟩


theorem read_const (nm : Bytes → String) {c : RawExpr} {v : Cell} (h : cellOf c = some v) : read nm c = .val v := by
  cases c <;> simp [cellOf] at h <;> subst h <;> simp [read]

theorem kOf_cell {c : RawExpr} (h : isConstKind c.kind = true) (x : RawExpr) (w : XV) (hw : w.get x = some c) :
    (kOf c.kind w).cell x = cellOf c := by
  cases c <;> simp [RawExpr.kind, isConstKind] at h <;> simp [kOf, RawExpr.kind, XK.cell, hw, cellOf]

theorem good3 (nm : Bytes → String) (a b c : RawExpr) (da db dc : XDec) (hb : Good nm b db) (hc : Good nm c dc) :
    ∃ d, (canonNode (shapeOf (.list [a, b, c]) [da, db, dc])).build (.list [a, b, c]) [da, db, dc] = some d ∧
      Good nm (.list [a, b, c]) d := by
  have hs : shapeOf (.list [a, b, c]) [da, db, dc] =
      { kind := .list, len := 3, elems := [(a.kind, da.isErr), (b.kind, db.isErr), (c.kind, dc.isErr)] } := rfl
  rw [hs, canon3_eq]
  obtain ⟨hpb, heb, htb⟩ := hb
  obtain ⟨hpc, hec, htc⟩ := hc
  by_cases ha : a.kind = .str
  · obtain ⟨op, rfl⟩ := kind_str ha
    simp only [ha, ne_eq, not_true_eq_false, if_false]
    have hr : read nm (.list [.str op, b, c]) = .x (nm op) [read nm b, read nm c] := by simp [read, readL]
    by_cases h1 : b.kind = .col ∧ isConstKind c.kind = true
    · simp only [h1, and_self, if_true]
      obtain ⟨n, rfl⟩ := kind_col h1.1
      obtain ⟨v, hv⟩ := const_cell h1.2
      have hk := kOf_cell h1.2 (.list [.str op, .col n, c]) (.elem 2) rfl
      refine ⟨.colConst op n v false, by simp [XN.build, XV.str, XV.col, XV.get, hk, hv], ?_⟩
      refine ⟨rfl, ?_, fun _ => ?_⟩
      · rw [hr, read_const nm hv]; simp [read, hasBad, hasBadL, XDec.isErr]
      · rw [hr, read_const nm hv]; simp [read, XDec.toEArg]
    · simp only [h1, if_false]
      by_cases h2 : c.kind = .col ∧ isConstKind b.kind = true
      · simp only [h2, and_self, if_true]
        obtain ⟨n, rfl⟩ := kind_col h2.1
        obtain ⟨v, hv⟩ := const_cell h2.2
        have hk := kOf_cell h2.2 (.list [.str op, b, .col n]) (.elem 1) rfl
        refine ⟨.colConst op n v true, by simp [XN.build, XV.str, XV.col, XV.get, hk, hv], ?_⟩
        refine ⟨rfl, ?_, fun _ => ?_⟩
        · rw [hr, read_const nm hv]; simp [read, hasBad, hasBadL, XDec.isErr]
        · rw [hr, read_const nm hv]; simp [read, XDec.toEArg]
      · simp only [h2, if_false]
        by_cases h3 : b.kind = .col ∧ c.kind = .col
        · simp only [h3, and_self, if_true]
          obtain ⟨n, rfl⟩ := kind_col h3.1
          obtain ⟨m, rfl⟩ := kind_col h3.2
          refine ⟨.colCol op n m, by simp [XN.build, XV.str, XV.col, XV.get], ?_⟩
          refine ⟨rfl, ?_, fun _ => ?_⟩
          · rw [hr]; simp [read, hasBad, hasBadL, XDec.isErr]
          · rw [hr]; simp [read, XDec.toEArg]
        · simp only [h3, if_false]
          cases hdb : db.isErr
          · simp only [Bool.false_eq_true, if_false]
            rw [hdb] at heb
            cases hdc : dc.isErr
            · simp only [Bool.false_eq_true, if_false]
              rw [hdc] at hec
              refine ⟨.ex2 op db dc, by simp [XN.build, XV.str, XV.get], ?_⟩
              refine ⟨by simp [XDec.proper, hpb, hpc, hdb, hdc], ?_, fun _ => ?_⟩
              · rw [hr]; simp [hasBad, hasBadL, ← heb, ← hec]; rfl
              · rw [hr]; simp [XDec.toEArg, htb hdb, htc hdc]
            · simp only [if_true]
              rw [hdc] at hec
              exact ⟨.error, by simp [XN.build], good_error nm _ (by rw [hr]; simp [hasBad, hasBadL, ← hec])⟩
          · simp only [if_true]
            rw [hdb] at heb
            exact ⟨.error, by simp [XN.build], good_error nm _ (by rw [hr]; simp [hasBad, hasBadL, ← heb])⟩
  · simp only [ne_eq, ha, not_false_eq_true, if_true]
    exact ⟨.error, by simp [XN.build], good_error nm _ (by rw [read_head_not_str nm a [b, c] ha]; rfl)⟩

/-- a list: from the elements to the list -/
theorem list_good (nm : Bytes → String) : ∀ (l : List RawExpr) (subs : List XDec), GoodL nm l subs →
    ∃ d, (canonNode (shapeOf (.list l) subs)).build (.list l) subs = some d ∧ Good nm (.list l) d
  | [], [], _ => ⟨.error, rfl, good_error nm _ rfl⟩
  | [a], [da], _ => ⟨.error, rfl, good_error nm _ (by simp [read, readL, hasBad])⟩
  | [a, b], [da, db], h => good2 nm a b da db h.2.1
  | [a, b, c], [da, db, dc], h => good3 nm a b c da db dc h.2.1 h.2.2.1
  | a :: b :: c :: d :: r, subs, h => by
    have h1 : min (a :: b :: c :: d :: r).length 4 = 4 := by simp
    have h2 : ¬ ((a :: b :: c :: d :: r).length = 2 ∨ (a :: b :: c :: d :: r).length = 3) := by simp
    refine ⟨.error, ?_, good_error nm _ (by simp [read, readL, hasBad])⟩
    simp only [shapeOf, h1, h2, if_false]
    rfl
  | [], _ :: _, h => h.elim
  | [_], [], h => h.elim
  | [_], _ :: _ :: _, h => h.2.elim
  | [_, _], [], h => h.elim
  | [_, _], [_], h => h.2.elim
  | [_, _], _ :: _ :: _ :: _, h => h.2.2.elim
  | [_, _, _], [], h => h.elim
  | [_, _, _], [_], h => h.2.elim
  | [_, _, _], [_, _], h => h.2.2.elim
  | [_, _, _], _ :: _ :: _ :: _ :: _, h => h.2.2.2.elim


/-! ## 5. the statement -/

theorem shape_atom (x : RawExpr) (h : x.kind ≠ .list) : shapeOf x [] = { kind := x.kind } := by
  cases x <;> first | rfl | exact absurd rfl h

mutual
/-- Today's decoder accepts exactly the raw trees the spec's reading accepts and classifies them to the same
expression. -/
theorem decode_good (nm : Bytes → String) : ∀ (x : RawExpr), wf x = true →
    ∃ d, Gen.newExprAst.decode x = some d ∧ Good nm x d
  | .list l, h => by
    obtain ⟨subs, hsubs, hg⟩ := decodeL_good nm l (by simpa [wf] using h)
    obtain ⟨d, hd, hgood⟩ := list_good nm l subs hg
    refine ⟨d, ?_, hgood⟩
    rw [XT.decode, hsubs]
    simp only
    rw [run_canon _ _ (fun l' e => by cases e; exact hg.length) (fun p hp => by
      simp only [shapeOf] at hp
      split at hp
      · exact goodL_consistent hg p hp
      · simp at hp), hd]
  | .expr d, h => by
    refine ⟨d, ?_, good_expr nm d (by simpa [wf] using h)⟩
    rw [XT.decode, run_canon_atom _ (fun l e => by cases e)]; rfl
  | .col n, _ => by
    refine ⟨.col n, ?_, rfl, rfl, fun _ => rfl⟩
    rw [XT.decode, run_canon_atom _ (fun l e => by cases e)]; rfl
  | .str s, _ => by
    refine ⟨.const (.str (some s)), ?_, rfl, rfl, fun _ => rfl⟩
    rw [XT.decode, run_canon_atom _ (fun l e => by cases e)]; rfl
  | .int v, _ => by
    refine ⟨.const (.int v), ?_, rfl, rfl, fun _ => rfl⟩
    rw [XT.decode, run_canon_atom _ (fun l e => by cases e)]; rfl
  | .float b, _ => by
    refine ⟨.const (.float b), ?_, rfl, rfl, fun _ => rfl⟩
    rw [XT.decode, run_canon_atom _ (fun l e => by cases e)]; rfl
  | .bool b, _ => by
    refine ⟨.const (.bool b), ?_, rfl, rfl, fun _ => rfl⟩
    rw [XT.decode, run_canon_atom _ (fun l e => by cases e)]; rfl
  | .pstr p, _ => by
    refine ⟨.const (.str p), ?_, rfl, rfl, fun _ => rfl⟩
    rw [XT.decode, run_canon_atom _ (fun l e => by cases e)]; rfl
  | .nil, _ => by
    refine ⟨.const (.str none), ?_, rfl, rfl, fun _ => rfl⟩
    rw [XT.decode, run_canon_atom _ (fun l e => by cases e)]; rfl
  | .other, _ => by
    refine ⟨.error, ?_, good_error nm _ rfl⟩
    rw [XT.decode, run_canon_atom _ (fun l e => by cases e)]; rfl
theorem decodeL_good (nm : Bytes → String) : ∀ (l : List RawExpr), wfL l = true →
    ∃ subs, Gen.newExprAst.decodeL l = some subs ∧ GoodL nm l subs
  | [], _ => ⟨[], by rw [XT.decodeL], trivial⟩
  | a :: r, h => by
    have h' : wf a = true ∧ wfL r = true := by simpa [wfL] using h
    obtain ⟨d, hd, hg⟩ := decode_good nm a h'.1
    obtain ⟨ds, hds, hgs⟩ := decodeL_good nm r h'.2
    exact ⟨d :: ds, by rw [XT.decodeL, hd, hds], hg, hgs⟩
end

/-- **`gen_expr_decode_semantics`.** On every raw expression tree `x` (a Go value handed to `Val` / `Expr` / `newExpr`:
strings, column names, int / float64 / bool / string / *string constants, nil, `[]interface{}` lists of any length and
nesting, `Expression` values built earlier, anything else) the decoder extracted from today's expression.go
* terminates with a struct value `d` (no panic, nothing untranslated),
* reports an error (`d.Err() != nil`) exactly when the spec's reading `read x` of the tree contains a malformed part
  (on which `EArg.den` is `none` for every frame: `den_hasBad`),
* and otherwise `d` stands for exactly the expression `read x`. -/
theorem gen_expr_decode_semantics (nm : Bytes → String) (x : RawExpr) (h : wf x = true) :
    ∃ d, Gen.newExprAst.decode x = some d ∧
      d.isErr = hasBad (read nm x) ∧ (d.isErr = false → d.toEArg nm = read nm x) ∧ d.proper = true := by
  obtain ⟨d, hd, hp, he, ht⟩ := decode_good nm x h
  exact ⟨d, hd, he, ht, hp⟩


/-! ## 6. `Expr(name, args...)`: the left fold, on a copy -/

/-- `d` stands for the expression `e` -/
def GoodE (nm : Bytes → String) (e : EArg) (d : XDec) : Prop :=
  d.proper = true ∧ d.isErr = hasBad e ∧ (d.isErr = false → d.toEArg nm = e)

/-- the spec's reading of `Expr(op, a₀, a₁, a₂, …)`: `((a₀ op a₁) op a₂) …`; no argument is malformed -/
def foldE (op : String) : List EArg → EArg
  | [] => .bad
  | [a] => .x op [a]
  | a :: b :: rest => rest.foldl (fun acc c => .x op [acc, c]) (.x op [a, b])

/-- the rest of the fold: the expression built so far is the left operand -/
def foldFrom (t : XT) (name : Bytes) : XDec → List RawExpr → Option XDec
  | e, [] => some e
  | e, c :: r =>
    match t.decode (.list [.str name, .expr e, c]) with
    | some e' => foldFrom t name e' r
    | none => none

/-- `Expr(name, args...)` as a left fold -/
def foldDec (t : XT) (name : Bytes) : List RawExpr → Option XDec
  | [] => some .error
  | [a] => t.decode (.list [.str name, a])
  | a :: b :: rest =>
    match t.decode (.list [.str name, a, b]) with
    | some e => foldFrom t name e rest
    | none => none

theorem foldDec_cons3 (t : XT) (name : Bytes) (a b c : RawExpr) (rest : List RawExpr) :
    foldDec t name (a :: b :: c :: rest) =
      (match t.decode (.list [.str name, a, b]) with
       | some e => foldDec t name (.expr e :: c :: rest)
       | none => none) := by
  simp only [foldDec, foldFrom]

theorem step_canon3 (t : XT) (name : Bytes) (self : List RawExpr → Option (XDec × List RawExpr))
    (a b c : RawExpr) (rest : List RawExpr) :
    XF.step t name self (a :: b :: c :: rest) canonFold =
      (match t.decode (.list [.str name, a, b]) with
       | some e => (self (.expr e :: c :: rest)).map (fun r => (r.1, a :: b :: c :: rest))
       | none => none) := by
  simp only [XF.step, canonFold, List.length_cons, XFR.eval, XFV.getAll, XFV.get, List.getElem?_cons_zero,
    List.getElem?_cons_succ]
  cases hd : t.decode (.list [.str name, a, b]) with
  | none => simp
  | some e => simp

/-- the canonical `Expr` is the left fold and returns the caller's slice untouched -/
theorem canonFold_run (t : XT) (name : Bytes) : ∀ (n : Nat) (args : List RawExpr), args.length ≤ n →
    canonFold.run t name (n + 1) args = (foldDec t name args).map (fun d => (d, args)) := by
  intro n
  induction n with
  | zero =>
    intro args h
    match args, h with
    | [], _ => simp [XF.run, XF.step, canonFold, XFR.eval, foldDec]
  | succ n ih =>
    intro args h
    match args, h with
    | [], _ => simp [XF.run, XF.step, canonFold, XFR.eval, foldDec]
    | [a], _ => simp [XF.run, XF.step, canonFold, XFR.eval, XFV.getAll, XFV.get, foldDec]
    | [a, b], _ =>
      simp only [XF.run, XF.step, canonFold, XFR.eval, XFV.getAll, XFV.get, foldDec, foldFrom]
      cases hd : t.decode (.list [.str name, a, b]) <;> simp [hd]
    | a :: b :: c :: rest, h =>
      have hlen : (a :: b :: c :: rest).length = rest.length + 3 := by simp
      have hl : (RawExpr.expr default :: c :: rest).length ≤ n := by simp; omega
      rw [foldDec_cons3, XF.run, step_canon3]
      cases hd : t.decode (.list [.str name, a, b]) with
      | none => rfl
      | some e =>
        simp only
        rw [ih (.expr e :: c :: rest) (by simpa using hl)]
        cases foldDec t name (.expr e :: c :: rest) <;> rfl

theorem goodE_error (nm : Bytes → String) (e : EArg) (h : hasBad e = true) : GoodE nm e .error :=
  ⟨rfl, by rw [h]; rfl, fun h => by simp [XDec.isErr] at h⟩

/-- one step of the fold: `[name, <expression so far>, c]` -/
theorem fold_step (nm : Bytes → String) (name : Bytes) (e : XDec) (E : EArg) (c : RawExpr) (hc : wf c = true)
    (he : GoodE nm E e) :
    ∃ e', Gen.newExprAst.decode (.list [.str name, .expr e, c]) = some e' ∧
      GoodE nm (.x (nm name) [E, read nm c]) e' := by
  obtain ⟨hp, hb, ht⟩ := he
  obtain ⟨e', hd, hp', hb', ht'⟩ := decode_good nm (.list [.str name, .expr e, c]) (by simp [wf, wfL, hp, hc])
  have hr : read nm (.list [.str name, .expr e, c]) = .x (nm name) [e.toEArg nm, read nm c] := by simp [read, readL]
  rw [hr] at hb' ht'
  refine ⟨e', hd, hp', ?_, ?_⟩
  · rw [hb']
    cases hee : e.isErr
    · rw [ht hee]
    · rw [hee] at hb
      cases e <;> simp [XDec.isErr] at hee
      simp [hasBad, hasBadL, XDec.toEArg, ← hb]
  · intro h
    have h2 := ht' h
    rw [h] at hb'
    cases hee : e.isErr
    · rw [h2, ht hee]
    · cases e <;> simp [XDec.isErr] at hee
      simp [hasBad, hasBadL, XDec.toEArg] at hb'

theorem foldFrom_good (nm : Bytes → String) (name : Bytes) : ∀ (rest : List RawExpr) (e : XDec) (E : EArg),
    wfL rest = true → GoodE nm E e →
    ∃ d, foldFrom Gen.newExprAst name e rest = some d ∧
      GoodE nm ((readL nm rest).foldl (fun acc c => .x (nm name) [acc, c]) E) d
  | [], e, E, _, he => ⟨e, rfl, he⟩
  | c :: r, e, E, h, he => by
    have h' : wf c = true ∧ wfL r = true := by simpa [wfL] using h
    obtain ⟨e', hd, hg⟩ := fold_step nm name e E c h'.1 he
    obtain ⟨d, hf, hgd⟩ := foldFrom_good nm name r e' _ h'.2 hg
    exact ⟨d, by simp only [foldFrom, hd, hf], by simpa [readL] using hgd⟩

/-- **`gen_expr_fold`.** `Expr(name, a₀, a₁, a₂, …)` of today's expression.go
* returns the expression of the LEFT fold `((a₀ name a₁) name a₂) …` of the spec's readings of its arguments (an error
  exactly when that reading contains a malformed part; `Expr(name)` without arguments is an error),
* and leaves the slice it was called with as it was (second component: the contents of the caller's slice afterwards). -/
theorem gen_expr_fold (nm : Bytes → String) (name : Bytes) (args : List RawExpr) (h : wfL args = true) :
    ∃ d, Gen.exprFoldAst.run Gen.newExprAst name (args.length + 1) args = some (d, args) ∧
      GoodE nm (foldE (nm name) (readL nm args)) d := by
  rw [gen_expr_fold_canon, canonFold_run _ _ _ _ (Nat.le_refl _)]
  match args, h with
  | [], _ => exact ⟨.error, rfl, goodE_error nm _ rfl⟩
  | [a], h =>
    have ha : wf a = true := by simpa [wfL] using h
    obtain ⟨d, hd, hg⟩ := decode_good nm (.list [.str name, a]) (by simp [wf, wfL, ha])
    refine ⟨d, by simp [foldDec, hd], ?_⟩
    have hr : read nm (.list [.str name, a]) = .x (nm name) [read nm a] := by simp [read, readL]
    simpa [Good, GoodE, hr, foldE, readL] using hg
  | a :: b :: rest, h =>
    have h' : wf a = true ∧ wf b = true ∧ wfL rest = true := by simpa [wfL, and_assoc] using h
    obtain ⟨e, hd, hg⟩ := decode_good nm (.list [.str name, a, b]) (by simp [wf, wfL, h'.1, h'.2.1])
    have hr : read nm (.list [.str name, a, b]) = .x (nm name) [read nm a, read nm b] := by simp [read, readL]
    have hg' : GoodE nm (.x (nm name) [read nm a, read nm b]) e := by simpa [Good, GoodE, hr] using hg
    obtain ⟨d, hf, hgd⟩ := foldFrom_good nm name rest e _ h'.2.2 hg'
    exact ⟨d, by simp [foldDec, hd, hf], by simpa [foldE, readL] using hgd⟩


/-! ## 7. what the two readings mean in the spec (QF/Spec/Ops.lean) -/

mutual
/-- a malformed part makes the spec's denotation an error, on every frame -/
theorem den_hasBad (ctx : String) (f : LFrame) : ∀ e : EArg, hasBad e = true → e.den ctx f = none
  | .bad, _ => by rw [EArg.den]
  | .x op args, h => by
    rw [EArg.den]
    exact denExpr_hasBad ctx f op args (by simpa [hasBad] using h)
  | .col _, h => by simp [hasBad] at h
  | .val _, h => by simp [hasBad] at h
theorem denExpr_hasBad (ctx : String) (f : LFrame) (op : String) : ∀ args : List EArg, hasBadL args = true →
    denExpr ctx f op args = none
  | [], h => by simp [hasBadL] at h
  | [a], h => by
    have ha : hasBad a = true := by simpa [hasBadL] using h
    rw [denExpr, den_hasBad ctx f a ha]
  | a :: b :: rest, h => by
    simp only [denExpr]
    cases ha : hasBad a
    · have hr : hasBadL (b :: rest) = true := by simpa [hasBadL, ha] using h
      cases a.den ctx f with
      | none => rfl
      | some v => exact denFold_hasBad ctx f op (b :: rest) v hr
    · rw [den_hasBad ctx f a ha]
theorem denFold_hasBad (ctx : String) (f : LFrame) (op : String) : ∀ (rest : List EArg) (acc : Val),
    hasBadL rest = true → denFold ctx f op acc rest = none
  | [], _, h => by simp [hasBadL] at h
  | b :: rest, acc, h => by
    rw [denFold]
    cases hb : hasBad b
    · have hr : hasBadL rest = true := by simpa [hasBadL, hb] using h
      cases b.den ctx f with
      | none => rfl
      | some w =>
        simp only
        split
        · rfl
        · cases evalBinary ctx op acc.ty with
          | none => rfl
          | some g => exact denFold_hasBad ctx f op rest _ hr
    · rw [den_hasBad ctx f b hb]
end

theorem denFold_cons (ctx : String) (f : LFrame) (op : String) (v : Val) (b : EArg) (rest : List EArg) :
    denFold ctx f op v (b :: rest) = (denFold ctx f op v [b]).bind (fun v' => denFold ctx f op v' rest) := by
  rw [denFold, denFold]
  cases b.den ctx f with
  | none => rfl
  | some w =>
    simp only
    split
    · rfl
    · cases evalBinary ctx op v.ty with
      | none => rfl
      | some g => simp [denFold]

theorem den_foldl (ctx : String) (f : LFrame) (op : String) : ∀ (rest : List EArg) (E : EArg),
    (rest.foldl (fun acc c => EArg.x op [acc, c]) E).den ctx f =
      (E.den ctx f).bind (fun v => denFold ctx f op v rest)
  | [], E => by cases h : E.den ctx f <;> simp [denFold, h]
  | c :: r, E => by
    rw [List.foldl_cons, den_foldl ctx f op r, EArg.den]
    simp only [denExpr]
    cases E.den ctx f with
    | none => rfl
    | some v => simp only [Option.bind_some]; rw [denFold_cons ctx f op v c r]

/-- The spec's n-ary `Expr(op, a₀, a₁, …)` (`EArg.x op args`, `denExpr` / `denFold`) denotes what the nested binary
applications of the left fold denote: the tree `gen_expr_fold` shows the code to build is the one the spec evaluates. -/
theorem den_foldE (ctx : String) (f : LFrame) (op : String) (args : List EArg) :
    (foldE op args).den ctx f = (EArg.x op args).den ctx f := by
  match args with
  | [] => rw [foldE, EArg.den, EArg.den, denExpr]
  | [a] => rfl
  | a :: b :: rest =>
    rw [foldE, den_foldl, EArg.den, EArg.den]
    simp only [denExpr]
    cases a.den ctx f with
    | none => rfl
    | some v => dsimp only; rw [denFold_cons ctx f op v b rest]

/-- the decoder's answer denotes, on every frame and in every evaluation context, what the spec's reading denotes
(an error for both when the tree is malformed) -/
theorem gen_expr_decode_den (nm : Bytes → String) (x : RawExpr) (h : wf x = true) (ctx : String) (f : LFrame) :
    ∃ d, Gen.newExprAst.decode x = some d ∧ (d.toEArg nm).den ctx f = (read nm x).den ctx f := by
  obtain ⟨d, hd, he, ht, _⟩ := gen_expr_decode_semantics nm x h
  refine ⟨d, hd, ?_⟩
  cases hde : d.isErr
  · rw [ht hde]
  · rw [hde] at he
    cases d <;> simp [XDec.isErr] at hde
    rw [den_hasBad ctx f _ he.symm]; rfl

/-- `Expr(name, args...)` denotes what the spec's n-ary `EArg.x name args` denotes -/
theorem gen_expr_fold_den (nm : Bytes → String) (name : Bytes) (args : List RawExpr) (h : wfL args = true)
    (ctx : String) (f : LFrame) :
    ∃ d, Gen.exprFoldAst.run Gen.newExprAst name (args.length + 1) args = some (d, args) ∧
      (d.toEArg nm).den ctx f = (EArg.x (nm name) (readL nm args)).den ctx f := by
  obtain ⟨d, hd, _, he, ht⟩ := gen_expr_fold nm name args h
  refine ⟨d, hd, ?_⟩
  rw [← den_foldE]
  cases hde : d.isErr
  · rw [ht hde]
  · rw [hde] at he
    cases d <;> simp [XDec.isErr] at hde
    rw [den_hasBad ctx f _ he.symm]; rfl

/-! ## examples -/

def nmU (b : Bytes) : String := (String.fromUTF8? (ByteArray.mk b.toArray)).getD "?"

/-- `["+", ColumnName("a"), 1]`, `["+", 1, ColumnName("a")]` (constant first), `["abs", ["+", a, b]]` -/
example : Gen.newExprAst.decode (.list [.str [43], .col [97], .int 1]) = some (.colConst [43] [97] (.int 1) false) := by
  decide +kernel
example : Gen.newExprAst.decode (.list [.str [43], .int 1, .col [97]]) = some (.colConst [43] [97] (.int 1) true) := by
  decide +kernel
example : Gen.newExprAst.decode (.list [.str [97, 98, 115], .list [.str [43], .col [97], .col [98]]]) =
    some (.ex1 [97, 98, 115] (.colCol [43] [97] [98])) := by decide +kernel
/-- a raw list of four elements is rejected (only `Expr` folds), so is a list whose head is not a string, so is a
nested malformed operand -/
example : Gen.newExprAst.decode (.list [.str [43], .int 1, .int 2, .int 3]) = some .error := by decide +kernel
example : Gen.newExprAst.decode (.list [.col [43], .int 1, .int 2]) = some .error := by decide +kernel
example : Gen.newExprAst.decode (.list [.str [43], .int 1, .list [.str [43], .other, .int 2]]) = some .error := by
  decide +kernel
/-- `Expr("+", a, b, c)` = `(a + b) + c`, the slice untouched -/
example : Gen.exprFoldAst.run Gen.newExprAst [43] 4 [.col [97], .col [98], .col [99]] =
    some (.ex2 [43] (.colCol [43] [97] [98]) (.col [99]), [.col [97], .col [98], .col [99]]) := by rfl

/-- The model tells a copying `Expr` from one that writes into its argument: the in-place variant
`args[1] = newExpr([name, args[0], args[1]]); return Expr(name, args[1:]...)` builds the same expression but leaves
the caller's slice changed — `gen_expr_fold` is false for it. -/
def inPlaceFold : XF :=
  .ifLen 0 .error (.ifLen 1 (.decode [.name, .arg 0]) (.ifLen 2 (.decode [.name, .arg 0, .arg 1])
    (.foldInPlace 1 (.decode [.name, .arg 0, .arg 1]))))

example : inPlaceFold.run Gen.newExprAst [43] 4 [.col [97], .col [98], .col [99]] =
    some (.ex2 [43] (.colCol [43] [97] [98]) (.col [99]), [.col [97], .expr (.colCol [43] [97] [98]), .col [99]]) := by
  rfl

#print axioms gen_decoder_canon_atom
#print axioms gen_decoder_canon_len
#print axioms gen_decoder_canon2
#print axioms gen_decoder_canon3
#print axioms gen_expr_fold_canon
#print axioms gen_expr_decode_semantics
#print axioms gen_expr_fold
#print axioms gen_expr_decode_den
#print axioms gen_expr_fold_den
#print axioms den_hasBad
#print axioms den_foldE

end QF.Props.C07Decode
