import QF.Gen.GrouperFns
import QF.Core.GLExpr
/-!
# C04 / C05 — the grouper hash table in today's source: canonical terms (tie T1)

`QF.Gen.grouperFns` (regenerated on every run by go/cmd/extract/grpast.go) holds the bodies of `table.grow`, `table.hash`,
`table.insertEntry`, `newTable`, `equals`, `calculateInitialSizeExp`, `groupIndex`, `GroupBy`, `Distinct` of
/repo/internal/grouper/grouper.go and of `integer.Max`, `integer.Pow2` as terms of the imperative language `QF.GL`
(QF/Core/GLExpr.lean). This file fixes the canonical terms (`canonFns`: today's translation, variables numbered by
declaration order; the loop bodies have names so that the lemmas about them can be stated) and proves by finite `decide`
that today's extraction is complete (`gen_grouper_no_opaque`) and equal to them (`gen_grouper_canon`). The meaning of
the canonical terms is computed in C04GrouperFns / C04GrouperGrow / C04GrouperInsert / C04GrouperGen.
-/
namespace QF.Props.C04GrouperGen
open QF QF.GL

/-! ## `grow` — variables: 0 `t`, 1 `newLen`, 2 `newEntries`, 3 `bitMask`, 4 `e`, 5 `pos` -/

/-- `if !newEntries[pos].occupied { newEntries[pos] = e; break }; t.stats.RelocationCollisions++` -/
abbrev relocBody : S := S.block [
  S.ite (E.not (E.field (E.at (E.var 2) (E.var 5)) Fld.occupied)) (S.block [S.setAt 2 (E.var 5) (E.var 4), S.brk]) (S.block []),
  S.incrField 0 [Fld.stats, Fld.sRelocationCollisions]]

/-- `pos := e.hash & bitMask` -/
abbrev relocInit : S := S.block [S.define 5 (E.bin AOp.band (E.field (E.var 4) Fld.hash) (E.var 3))]

/-- `pos = (pos + 1) & bitMask` -/
abbrev relocPost : S := S.block [S.assign 5 (E.bin AOp.band (E.bin AOp.add (E.var 5) (E.u32 1)) (E.var 3))]

/-- the body of `for _, e := range t.entries`: the probe loop `for pos := e.hash & bitMask; ; pos = (pos + 1) & bitMask` -/
abbrev growBody : S := S.block [S.for relocInit (E.bool true) relocPost relocBody]

def fnGrow : Fn := { params := 1, body := S.block [
  S.define 1 (E.toU32 (E.bin AOp.mul (E.int 2) (E.len (E.field (E.var 0) Fld.entries)))),
  S.define 2 (E.makeEntries (E.var 1)),
  S.define 3 (E.bin AOp.sub (E.var 1) (E.u32 1)),
  S.range (E.field (E.var 0) Fld.entries) none (some 4) growBody,
  S.incrField 0 [Fld.stats, Fld.sRelocationCount],
  S.setField 0 [Fld.entries] (E.var 2),
  S.setField 0 [Fld.loadFactor] (E.bin AOp.div (E.field (E.var 0) Fld.loadFactor) (E.flt 2 1))] }

/-! ## `hash` — 0 `t`, 1 `i`, 2 `hashVal`, 3 `c` -/

/-- `hashVal = c.Hash(i, hashVal)` -/
abbrev hashBody : S := S.block [S.assign 2 (E.cmpHash (E.var 3) (E.var 1) (E.var 2))]

def fnHash : Fn := { params := 2, body := S.block [
  S.define 2 (E.u64 0),
  S.range (E.field (E.var 0) Fld.comparables) none (some 3) hashBody,
  S.ret (E.toU32 (E.var 2))] }

/-! ## `insertEntry` — 0 `t`, 1 `i`, 2 `hashSum`, 3 `bitMask`, 4 `startPos`, 5 `dstEntry`, 6 `pos`, 7 `e` -/

/-- `!e.occupied || e.hash == hashSum && equals(t.comparables, i, e.firstPos)` -/
def probeCond : E :=
  E.or (E.not (E.field (E.deref (E.var 7)) Fld.occupied))
    (E.and (E.cmp COp.eq (E.field (E.deref (E.var 7)) Fld.hash) (E.var 2))
      (E.call3 FnId.equals (E.field (E.var 0) Fld.comparables) (E.var 1) (E.field (E.deref (E.var 7)) Fld.firstPos)))

/-- `e := &t.entries[pos]; if <probeCond> { dstEntry = e } else { t.stats.InsertCollisions++ }` -/
abbrev probeBody : S := S.block [
  S.define 7 (E.addrEntry 0 (E.var 6)),
  S.ite probeCond (S.block [S.assign 5 (E.var 7)]) (S.block [S.incrField 0 [Fld.stats, Fld.sInsertCollisions]])]

abbrev probeInit : S := S.block [S.define 6 (E.var 4)]

/-- `pos = (pos + 1) & bitMask` -/
abbrev probePost : S := S.block [S.assign 6 (E.bin AOp.band (E.bin AOp.add (E.var 6) (E.u64 1)) (E.var 3))]

/-- `for pos := startPos; dstEntry == nil; pos = (pos + 1) & bitMask { … }` -/
def probeLoop : S := S.for probeInit (E.isNil (E.var 5)) probePost probeBody

/-- the new entry: `dstEntry.hash = hashSum; dstEntry.firstPos = i; dstEntry.occupied = true; t.groupCount++;
t.loadFactor = float64(t.groupCount) / float64(len(t.entries))` -/
def edenPart : S := S.block [
  S.setPtrField 5 Fld.hash (E.var 2),
  S.setPtrField 5 Fld.firstPos (E.var 1),
  S.setPtrField 5 Fld.occupied (E.bool true),
  S.incrField 0 [Fld.groupCount],
  S.setField 0 [Fld.loadFactor] (E.bin AOp.div (E.toFloat (E.field (E.var 0) Fld.groupCount)) (E.toFloat (E.len (E.field (E.var 0) Fld.entries))))]

/-- the existing entry: `if t.collectIx { if dstEntry.ix == nil { dstEntry.ix = index.Int{dstEntry.firstPos, i} } else
{ dstEntry.ix = append(dstEntry.ix, i) } }` -/
def existingPart : S := S.block [
  S.ite (E.field (E.var 0) Fld.collectIx)
    (S.block [S.ite (E.isNil (E.field (E.deref (E.var 5)) Fld.ix))
      (S.block [S.setPtrField 5 Fld.ix (E.rows2 (E.field (E.deref (E.var 5)) Fld.firstPos) (E.var 1))])
      (S.block [S.setPtrField 5 Fld.ix (E.snoc (E.field (E.deref (E.var 5)) Fld.ix) (E.var 1))])])
    (S.block [])]

/-- `if !dstEntry.occupied { <new entry> } else { <existing entry> }` -/
def updatePart : S := S.ite (E.not (E.field (E.deref (E.var 5)) Fld.occupied)) edenPart existingPart

/-- `if t.loadFactor > maxLoadFactor { t.grow() }` -/
def growCheckPart : S :=
  S.ite (E.cmp COp.gt (E.field (E.var 0) Fld.loadFactor) (E.flt 1 2)) (S.block [S.callMut FnId.grow 0 []]) (S.block [])

def fnInsertEntry : Fn := { params := 2, body := S.block [
  growCheckPart,
  S.define 2 (E.call2 FnId.hash (E.var 0) (E.var 1)),
  S.define 3 (E.toU64 (E.bin AOp.sub (E.len (E.field (E.var 0) Fld.entries)) (E.int 1))),
  S.define 4 (E.bin AOp.band (E.toU64 (E.var 2)) (E.var 3)),
  S.define 5 E.nilPtr,
  probeLoop,
  updatePart] }

/-! ## `newTable`, `equals`, `calculateInitialSizeExp` -/

def fnNewTable : Fn := { params := 3, body := S.block [
  S.ret (E.mkTable (E.makeEntries (E.call1 FnId.pow2 (E.var 0))) (E.var 1) (E.var 2))] }

/-- `if c.Compare(i, j) != column.Equal { return false }` -/
abbrev equalsBody : S := S.block [
  S.ite (E.cmp COp.ne (E.cmpCompare (E.var 3) (E.var 1) (E.var 2)) (E.cres CRes.equal)) (S.block [S.ret (E.bool false)]) (S.block [])]

def fnEquals : Fn := { params := 3, body := S.block [S.range (E.var 0) none (some 3) equalsBody, S.ret (E.bool true)] }

def fnInitialSizeExp : Fn := { params := 1, body := S.block [
  S.define 1 (E.bin AOp.div (E.toU64 (E.var 0)) (E.u64 4)),
  S.ret (E.call2 FnId.max (E.bitLen64 (E.var 1)) (E.int 3))] }

/-! ## `groupIndex` — 0 `ix`, 1 `comparables`, 2 `collectIx`, 3 `initialSizeExp`, 4 `table`, 5 `i`, 6 `stats` -/

/-- `table.insertEntry(i)` -/
abbrev insertBody : S := S.block [S.callMut FnId.insertEntry 4 [E.var 5]]

def fnGroupIndex : Fn := { params := 3, body := S.block [
  S.define 3 (E.call1 FnId.initialSizeExp (E.len (E.var 0))),
  S.define 4 (E.call3 FnId.newTable (E.var 3) (E.var 1) (E.var 2)),
  S.range (E.var 0) none (some 5) insertBody,
  S.define 6 (E.field (E.var 4) Fld.stats),
  S.setField 6 [Fld.sLoadFactor] (E.field (E.var 4) Fld.loadFactor),
  S.setField 6 [Fld.sGroupCount] (E.toInt (E.field (E.var 4) Fld.groupCount)),
  S.ret (E.pair (E.field (E.var 4) Fld.entries) (E.var 6))] }

/-! ## `GroupBy`, `Distinct` — 0 `ix`, 1 `comparables`, 2 `entries`, 3 `stats`, 4 `result`, 5 `e` -/

/-- `if e.occupied { if e.ix == nil { result = append(result, index.Int{e.firstPos}) } else { result = append(result, e.ix) } }` -/
abbrev collectGroupsBody : S := S.block [
  S.ite (E.field (E.var 5) Fld.occupied)
    (S.block [S.ite (E.isNil (E.field (E.var 5) Fld.ix))
      (S.block [S.assign 4 (E.snoc (E.var 4) (E.rows1 (E.field (E.var 5) Fld.firstPos)))])
      (S.block [S.assign 4 (E.snoc (E.var 4) (E.field (E.var 5) Fld.ix))])])
    (S.block [])]

def fnGroupBy : Fn := { params := 2, body := S.block [
  S.define2 2 3 (E.call3 FnId.groupIndex (E.var 0) (E.var 1) (E.bool true)),
  S.define 4 (E.makeGroups (E.field (E.var 3) Fld.sGroupCount)),
  S.range (E.var 2) none (some 5) collectGroupsBody,
  S.ret (E.pair (E.var 4) (E.var 3))] }

/-- `if e.occupied { result = append(result, e.firstPos) }` -/
abbrev collectFirstBody : S := S.block [
  S.ite (E.field (E.var 5) Fld.occupied) (S.block [S.assign 4 (E.snoc (E.var 4) (E.field (E.var 5) Fld.firstPos))]) (S.block [])]

def fnDistinct : Fn := { params := 2, body := S.block [
  S.define2 2 3 (E.call3 FnId.groupIndex (E.var 0) (E.var 1) (E.bool false)),
  S.define 4 (E.makeRows (E.field (E.var 3) Fld.sGroupCount)),
  S.range (E.var 2) none (some 5) collectFirstBody,
  S.ret (E.var 4)] }

/-! ## internal/math/integer -/

def fnMax : Fn := { params := 2, body := S.block [
  S.ite (E.cmp COp.gt (E.var 0) (E.var 1)) (S.block [S.ret (E.var 0)]) (S.block []),
  S.ret (E.var 1)] }

def fnPow2 : Fn := { params := 1, body := S.block [S.ret (E.pow2 (E.var 0))] }

def canonFns : List (FnId × Fn) := [
  (FnId.grow, fnGrow),
  (FnId.hash, fnHash),
  (FnId.insertEntry, fnInsertEntry),
  (FnId.newTable, fnNewTable),
  (FnId.equals, fnEquals),
  (FnId.initialSizeExp, fnInitialSizeExp),
  (FnId.groupIndex, fnGroupIndex),
  (FnId.groupBy, fnGroupBy),
  (FnId.distinct, fnDistinct),
  (FnId.max, fnMax),
  (FnId.pow2, fnPow2)]

/-- nothing in today's grouper was left untranslated -/
theorem gen_grouper_no_opaque : ∀ p ∈ Gen.grouperFns, p.2.body.hasOpaque = false := by decide

/-- today's extraction is the canonical translation -/
theorem gen_grouper_canon : Gen.grouperFns = canonFns := by decide

end QF.Props.C04GrouperGen
