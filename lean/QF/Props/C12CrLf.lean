import QF.Props.C12Read
/-!
# C12 — rows that end with CR LF (reader model and specification on documents with mixed LF / CR LF row ends)

C12Read / C13Render render every row with LF. RFC 4180 ends rows with CR LF; the property allows both. This file extends
the two chains to documents in which every row chooses its terminator (`renderRowT`, `renderDocT`):

* reader model `Full` (§1–§3): the last field of a CR LF row — unquoted: the scanner returns the field WITH the CR and
  `Reader.Next` trims it (`fnext_unquoted_cr`, `trimCR_cr`); quoted: the CR after the closing quote is skipped
  (`qscan_close_crlf`, `quoted_field_crlf`, `…_eof`) — `rowLoop_rowT`, `readerNext_rowT`, `readAll_prefixT`,
  `readAll_loadedT`, `readAll_loaded_nfnT`
* specification `rfcParse` (§4): `step_crlf`, `foldl_rowT`, `foldl_docT`, `parse_renderT`, `parse_render_nfnT`

For rows that end with LF everything is taken from C12Read / C13Render.
-/
namespace QF.Props.C12CrLf
open Full QF.Props.C12Read
open QF.Props.C13 (renderField renderFields renderRow renderDoc mustQuote RowOkCore)
set_option linter.unusedSimpArgs false
set_option linter.unusedVariables false

/-- the row terminator: CR LF or LF -/
def term (crlf : Bool) : List Byte := if crlf then [CR, LF] else [LF]

/-- one row with its terminator -/
def renderRowT (delim : Byte) (r : List (Bool × List Byte) × Bool) : List Byte := renderFields delim r.1 ++ term r.2

/-- a document in which every row chooses its terminator -/
def renderDocT (delim : Byte) (rows : List (List (Bool × List Byte) × Bool)) : List Byte := rows.flatMap (renderRowT delim)

theorem renderRowT_lf (delim : Byte) (r : List (Bool × List Byte)) : renderRowT delim (r, false) = renderRow delim r := rfl

theorem renderDocT_lf (delim : Byte) (rows : List (List (Bool × List Byte))) :
    renderDocT delim (rows.map (fun r => (r, false))) = renderDoc delim rows := by
  simp [renderDocT, renderDoc, List.flatMap_map, renderRowT_lf]

theorem renderDocT_cons (delim : Byte) (r : List (Bool × List Byte) × Bool) (rs : List (List (Bool × List Byte) × Bool)) :
    renderDocT delim (r :: rs) = renderRowT delim r ++ renderDocT delim rs := by
  simp [renderDocT]

/-! ## §1 the last field of a CR LF row -/

/-- an unquoted field followed by CR LF: the field comes back WITH the CR (the row loop's caller trims it) -/
theorem fnext_unquoted_cr (delim : Byte) (hd1 : delim ≠ 34) (hd2 : delim ≠ 10) (hd3 : delim ≠ 13) (fuel : Nat) (fs : FS)
    (f : List Byte) (rest : List Byte) (hr : Ready fs (f ++ CR :: LF :: rest))
    (hm : mustQuote delim f = false) (hfu : (f ++ CR :: LF :: rest).length ≤ fuel) :
    ∃ fs', fnext delim fuel fs = some (fs', true) ∧ fs'.field = f ++ [CR] ∧ Done fs' rest := by
  have hall := QF.Props.C13.not_mustQuote hm
  have hall' : ∀ c ∈ f ++ [CR], c ≠ delim ∧ c ≠ LF := by
    intro c hc
    rcases List.mem_append.mp hc with h | h
    · exact ⟨(hall c h).1, (hall c h).2.2.1⟩
    · simp only [List.mem_singleton] at h
      subst h
      exact ⟨fun h => hd3 (by rw [← h]; rfl), by decide⟩
  have hdrop : fs.st.data.drop fs.st.cursor = (f ++ [CR]) ++ LF :: rest := by rw [hr.drop]; simp
  obtain ⟨x, xs, hx⟩ : ∃ x xs, f ++ CR :: LF :: rest = x :: xs := by
    cases h : f ++ CR :: LF :: rest with
    | nil => simp at h
    | cons x xs => exact ⟨x, xs, rfl⟩
  have hxq : (x == QUOTE) = false := by
    cases f with
    | nil =>
      simp only [List.nil_append, List.cons.injEq] at hx
      rw [← hx.1]; decide
    | cons b bs =>
      simp only [List.cons_append, List.cons.injEq] at hx
      rw [← hx.1]
      simpa [QUOTE] using (hall b (by simp)).2.1
  have hdx := hr.drop
  rw [hx] at hdx
  obtain ⟨hlt, hget, _⟩ := drop_cons_inv hdx
  unfold fnext
  simp only [hr.eol, Bool.false_eq_true, ↓reduceIte]
  rw [ens1_at _ hr.fut hlt]
  simp only [hget, hxq, Bool.false_eq_true, ↓reduceIte]
  obtain ⟨fs', h1, h2, h3, h4, h5, h6, h7, h8⟩ :=
    unq_field delim (f ++ [CR]) fuel { fs with st := fs.st, hitEOL := false } LF rest hr.fut hall' (Or.inr rfl) hdrop
      (by simp at hfu ⊢; omega)
  have hlen : fs.st.cursor + (f ++ [CR]).length + 1 ≤ fs.st.data.length := by
    have := ready_len hr
    simp at this ⊢; omega
  have hdrop' : fs'.st.data.drop fs'.st.cursor = rest := by
    rw [h2, h4]
    have : fs.st.data.drop fs.st.cursor = ((f ++ [CR]) ++ [LF]) ++ rest := by rw [hdrop]; simp
    have := drop_add_of_append this
    simpa [Nat.add_assoc] using this
  have hlfd : ¬ LF = delim := fun h => hd2 (by rw [← h]; rfl)
  refine ⟨fs', h1, ?_, ?_, Or.inl ⟨by rw [h6, hr.err], h3, hdrop', by rw [h2, h4]; exact hlen⟩⟩
  · rw [h5, hr.fstart]
    exact slice_of_drop hdrop
  · rw [h7]; simp [hlfd]

/-- the closing quote, CR LF, and at least one more byte -/
theorem qscan_close_crlf (delim : Byte) (hd1 : delim ≠ 34) (hd2 : delim ≠ 10) (hd3 : delim ≠ 13) (acc : List Byte) (r0 : Byte)
    (rs : List Byte) :
    qscan delim (QUOTE :: CR :: LF :: r0 :: rs) acc 0 QUOTE = (acc, true, none, (r0 :: rs).length) := by
  have h34 : ¬ (34 : UInt8) = delim := fun h => hd1 h.symm
  have h13 : ¬ (13 : UInt8) = delim := fun h => hd3 h.symm
  have h10 : ¬ (10 : UInt8) = delim := fun h => hd2 h.symm
  simp [qscan, h34, h13, h10, QUOTE, LF, CR]

/-- the closing quote and CR LF as the very last bytes of the input: the LF is never examined -/
theorem qscan_close_crlf_eof (delim : Byte) (hd1 : delim ≠ 34) (hd2 : delim ≠ 10) (hd3 : delim ≠ 13) (acc : List Byte) :
    qscan delim [QUOTE, CR, LF] acc 0 QUOTE = (acc, true, some .eof, 1) := by
  have h34 : ¬ (34 : UInt8) = delim := fun h => hd1 h.symm
  have h13 : ¬ (13 : UInt8) = delim := fun h => hd3 h.symm
  have h10 : ¬ (10 : UInt8) = delim := fun h => hd2 h.symm
  simp [qscan, h34, h13, h10, QUOTE, LF, CR]

/-- a rendered quoted field followed by CR LF and at least one more byte -/
theorem quoted_field_crlf (delim : Byte) (hd1 : delim ≠ 34) (hd2 : delim ≠ 10) (hd3 : delim ≠ 13) (fuel : Nat) (s : St)
    (f : List Byte) (r0 : Byte) (rs : List Byte)
    (hf : s.future = [])
    (hdr : s.data.drop s.cursor = QUOTE :: (esc f ++ QUOTE :: CR :: LF :: r0 :: rs))
    (hfu : s.data.length - s.cursor ≤ fuel) :
    ∃ s', quoted delim fuel { s with cursor := s.cursor + 1 } (s.cursor + 1) (s.cursor + 1) 0
        = some (⟨f, true, none⟩, s') ∧
      s'.future = [] ∧ s'.cursor ≤ s'.data.length ∧ s'.data.drop s'.cursor = r0 :: rs ∧ s.cursor < s'.cursor := by
  have := quoted_field_scan delim hd1 fuel s f (CR :: LF :: r0 :: rs) hf hdr hfu
  rw [qscan_close_crlf delim hd1 hd2 hd3 f r0 rs] at this
  obtain ⟨s', a1, a2, a3, a4, a5, a6⟩ := this
  simp only at a1 a3
  refine ⟨s', a1, a2, by omega, ?_, by omega⟩
  have hd' : s.data.drop s.cursor = (QUOTE :: (esc f ++ [QUOTE, CR, LF])) ++ (r0 :: rs) := by
    rw [hdr]; simp
  have hc : s.cursor ≤ s.data.length := by have := (drop_cons_inv hdr).1; omega
  have hk := cursor_of_len hd' hc a3
  rw [a6, hk]
  exact drop_add_of_append hd'

/-- a rendered quoted field followed by CR LF at the end of the input -/
theorem quoted_field_crlf_eof (delim : Byte) (hd1 : delim ≠ 34) (hd2 : delim ≠ 10) (hd3 : delim ≠ 13) (fuel : Nat) (s : St)
    (f : List Byte)
    (hf : s.future = [])
    (hdr : s.data.drop s.cursor = QUOTE :: (esc f ++ [QUOTE, CR, LF]))
    (hfu : s.data.length - s.cursor ≤ fuel) :
    ∃ s', quoted delim fuel { s with cursor := s.cursor + 1 } (s.cursor + 1) (s.cursor + 1) 0
        = some (⟨f, true, some .eof⟩, s') ∧ s'.future = [] ∧ s'.cursor ≤ s'.data.length := by
  have := quoted_field_scan delim hd1 fuel s f [CR, LF] hf hdr hfu
  rw [qscan_close_crlf_eof delim hd1 hd2 hd3 f] at this
  obtain ⟨s', a1, a2, a3, a4, a5, a6⟩ := this
  exact ⟨s', a1, a2, by simp only at a3; omega⟩

/-- a quoted field followed by CR LF, whatever follows -/
theorem fnext_quoted_crlf (delim : Byte) (hd1 : delim ≠ 34) (hd2 : delim ≠ 10) (hd3 : delim ≠ 13) (fuel : Nat) (fs : FS)
    (f : List Byte) (rest : List Byte)
    (hr : Ready fs (renderField true f ++ CR :: LF :: rest))
    (hfu : (renderField true f ++ CR :: LF :: rest).length ≤ fuel) :
    ∃ fs', fnext delim fuel fs = some (fs', true) ∧ fs'.field = f ∧ Done fs' rest := by
  cases rest with
  | nil =>
    have hdx : fs.st.data.drop fs.st.cursor = QUOTE :: (esc f ++ [QUOTE, CR, LF]) := by
      rw [hr.drop, renderField_true]; simp
    obtain ⟨hlt, hget, _⟩ := drop_cons_inv hdx
    obtain ⟨s', q1, q2, q3⟩ := quoted_field_crlf_eof delim hd1 hd2 hd3 fuel fs.st f hr.fut hdx
      (by rw [ready_len hr]; exact hfu)
    unfold fnext
    simp only [hr.eol, Bool.false_eq_true, ↓reduceIte]
    rw [ens1_at _ hr.fut hlt]
    simp only [hget, beq_self_eq_true, ↓reduceIte, q1]
    exact ⟨_, rfl, rfl, rfl, Or.inr ⟨rfl, rfl⟩⟩
  | cons r0 rs =>
    have hdx : fs.st.data.drop fs.st.cursor = QUOTE :: (esc f ++ QUOTE :: CR :: LF :: r0 :: rs) := by
      rw [hr.drop, renderField_true]; simp
    obtain ⟨hlt, hget, _⟩ := drop_cons_inv hdx
    obtain ⟨s', q1, q2, q3, q4, q5⟩ := quoted_field_crlf delim hd1 hd2 hd3 fuel fs.st f r0 rs hr.fut hdx
      (by rw [ready_len hr]; exact hfu)
    unfold fnext
    simp only [hr.eol, Bool.false_eq_true, ↓reduceIte]
    rw [ens1_at _ hr.fut hlt]
    simp only [hget, beq_self_eq_true, ↓reduceIte, q1]
    exact ⟨_, rfl, rfl, rfl, Or.inl ⟨rfl, q2, q4, q3⟩⟩

/-- what the row loop collects for the last field of a CR LF row -/
def rawLast (p : Bool × List Byte) : List Byte := if p.1 then p.2 else p.2 ++ [CR]

/-- a rendered field followed by CR LF (end of the row), whatever follows -/
theorem fnext_field_last_crlf (delim : Byte) (hd1 : delim ≠ 34) (hd2 : delim ≠ 10) (hd3 : delim ≠ 13) (fuel : Nat) (fs : FS)
    (p : Bool × List Byte) (rest : List Byte) (hp : FieldOk' delim p)
    (hr : Ready fs (renderField p.1 p.2 ++ CR :: LF :: rest))
    (hfu : (renderField p.1 p.2 ++ CR :: LF :: rest).length ≤ fuel) :
    ∃ fs', fnext delim fuel fs = some (fs', true) ∧ fs'.field = rawLast p ∧ Done fs' rest := by
  obtain ⟨q, f⟩ := p
  cases q with
  | true => exact fnext_quoted_crlf delim hd1 hd2 hd3 fuel fs f rest hr hfu
  | false =>
    have hm := mustQuote_false_of hp rfl
    simp only [renderField, Bool.false_eq_true, ↓reduceIte] at hr hfu
    exact fnext_unquoted_cr delim hd1 hd2 hd3 fuel fs f rest hr hm hfu

/-! ## §2 one CR LF row through `rowLoop` and `readerNext` -/

theorem renderFields_crlf_cons2 (delim : Byte) (p q : Bool × List Byte) (xs : List (Bool × List Byte)) (rest : List Byte) :
    renderFields delim (p :: q :: xs) ++ CR :: LF :: rest =
      renderField p.1 p.2 ++ delim :: (renderFields delim (q :: xs) ++ CR :: LF :: rest) := by
  simp [renderFields]

/-- the fields the row loop collects for a CR LF row: the last one raw -/
def rawRow : List (Bool × List Byte) → List (List Byte)
  | [] => []
  | [p] => [rawLast p]
  | p :: q :: xs => p.2 :: rawRow (q :: xs)

theorem rawRow_length : ∀ r : List (Bool × List Byte), (rawRow r).length = r.length
  | [] => rfl
  | [_] => rfl
  | _ :: q :: xs => by simp [rawRow, rawRow_length (q :: xs)]

/-- one rendered CR LF row through the row loop -/
theorem rowLoop_row_crlf (delim : Byte) (hd1 : delim ≠ 34) (hd2 : delim ≠ 10) (hd3 : delim ≠ 13) (fuel : Nat) :
    ∀ (r : List (Bool × List Byte)) (n : Nat) (fs : FS) (acc : List (List Byte)) (rest : List Byte),
    r ≠ [] → (∀ p ∈ r, FieldOk' delim p) → Ready fs (renderFields delim r ++ CR :: LF :: rest) →
    (renderFields delim r ++ CR :: LF :: rest).length ≤ fuel → r.length < n →
    ∃ fs', rowLoop delim fuel n fs acc = some (fs', acc ++ rawRow r) ∧ Done fs' rest := by
  intro r
  induction r with
  | nil => intro n fs acc rest h; exact absurd rfl h
  | cons p xs ih =>
    intro n fs acc rest _ hok hr hfu hn
    have hp := hok p (by simp)
    cases xs with
    | nil =>
      rw [renderFields_single] at hr hfu
      obtain ⟨fs1, a1, a2, a3⟩ := fnext_field_last_crlf delim hd1 hd2 hd3 fuel fs p rest hp hr hfu
      obtain ⟨m, rfl⟩ : ∃ m, n = m + 2 := ⟨n - 2, by simp at hn; omega⟩
      refine ⟨fs1, ?_, a3⟩
      have hstop : fnext delim fuel fs1 = some (fs1, false) := by
        unfold fnext; simp [a3.1]
      simp only [rowLoop, a1, hstop, a2]
      simp [rawRow]
    | cons q ys =>
      rw [renderFields_crlf_cons2] at hr hfu
      obtain ⟨fs1, a1, a2, a3, _⟩ := fnext_field_delim delim hd1 hd2 fuel fs p _ hp hr hfu
      obtain ⟨m, rfl⟩ : ∃ m, n = m + 1 := ⟨n - 1, by simp at hn; omega⟩
      obtain ⟨fs', b1, b2⟩ := ih m fs1 (acc ++ [p.2]) rest (by simp)
        (fun p' hp' => hok p' (List.mem_cons_of_mem _ hp')) a3
        (by simp at hfu ⊢; omega) (by simp at hn ⊢; omega)
      refine ⟨fs', ?_, b2⟩
      simp only [rowLoop, a1, a2, b1]
      simp [rawRow]

theorem rawRow_eq : ∀ (r : List (Bool × List Byte)) (p : Bool × List Byte), r.getLast? = some p →
    rawRow r = (r.map (·.2)).dropLast ++ [rawLast p]
  | [], p, h => by simp at h
  | [x], p, h => by
    simp only [List.getLast?_singleton, Option.some.injEq] at h
    subst h; simp [rawRow]
  | x :: y :: ys, p, h => by
    have h' : (y :: ys).getLast? = some p := by simpa [List.getLast?_cons_cons] using h
    rw [rawRow, rawRow_eq (y :: ys) p h']
    simp [List.dropLast]

/-- `Reader.Next`'s trimming makes the collected fields of a CR LF row the row -/
theorem trimCR_raw {delim : Byte} (r : List (Bool × List Byte)) (hne : r ≠ []) (hok : ∀ p ∈ r, FieldOk' delim p) (hcr : LastNoCR r) :
    trimCR (rawRow r) = r.map (·.2) := by
  obtain ⟨p, hp⟩ : ∃ p, r.getLast? = some p := by
    cases h : r.getLast? with
    | none => exact absurd (List.getLast?_eq_none_iff.mp h) hne
    | some p => exact ⟨p, rfl⟩
  have hraw := rawRow_eq r p hp
  have hmapLast : (r.map (·.2)).getLast? = some p.2 := by rw [List.getLast?_map, hp]; rfl
  obtain ⟨ys, hys⟩ := List.getLast?_eq_some_iff.mp hmapLast
  have hdl : (r.map (·.2)).dropLast = ys := by rw [hys, List.dropLast_concat]
  rw [hdl] at hraw
  rw [hraw, hys]
  unfold trimCR
  rw [List.getLast?_concat]
  obtain ⟨q, f⟩ := p
  cases q with
  | true =>
    have hn : (f.getLast? == some CR) = false := by
      cases hc : f.getLast? == some CR with
      | false => rfl
      | true => exact absurd (by simpa using hc) (hcr _ hp)
    simp [rawLast, hn]
  | false =>
    simp [rawLast]

/-- one rendered row, with either terminator, through `readerNext` -/
theorem readerNext_rowT (delim : Byte) (hd1 : delim ≠ 34) (hd2 : delim ≠ 10) (hd3 : delim ≠ 13) (fuel : Nat)
    (r : List (Bool × List Byte) × Bool) (fs : FS) (rest : List Byte)
    (hok : RowOk' delim r.1)
    (he : fs.err = none) (hf : fs.st.future = []) (hdr : fs.st.data.drop fs.st.cursor = renderRowT delim r ++ rest)
    (hfu : (renderRowT delim r ++ rest).length < fuel) :
    ∃ fs', readerNext delim fuel fs = some (fs', r.1.map (·.2), true) ∧ AtRow fs' rest := by
  obtain ⟨r, crlf⟩ := r
  obtain ⟨hne, hfo, hcr⟩ := hok
  cases crlf with
  | false => exact readerNext_row delim hd1 hd2 fuel r fs rest hne hfo hcr he hf hdr hfu
  | true =>
    have hdr' : fs.st.data.drop fs.st.cursor = renderFields delim r ++ CR :: LF :: rest := by
      rw [hdr]; simp [renderRowT, term]
    have hfu' : (renderFields delim r ++ CR :: LF :: rest).length < fuel := by
      have : renderRowT delim (r, true) ++ rest = renderFields delim r ++ CR :: LF :: rest := by simp [renderRowT, term]
      rw [← this]; exact hfu
    have hready : Ready { fs with st := fs.st.reset, field := [], fieldStart := 0, hitEOL := false }
        (renderFields delim r ++ CR :: LF :: rest) :=
      ⟨hf, rfl, rfl, by simpa [St.reset] using hdr', Nat.zero_le _, he⟩
    obtain ⟨fs', a1, a2⟩ := rowLoop_row_crlf delim hd1 hd2 hd3 fuel r fuel _ [] rest hne hfo hready (by omega)
      (by have := length_le_renderFields delim r; simp at hfu'; omega)
    have htrim := trimCR_raw r hne hfo hcr
    have hnemp : (r.map (·.2)).isEmpty = false := by
      cases r with
      | nil => exact absurd rfl hne
      | cons _ _ => rfl
    refine ⟨fs', ?_, a2.2⟩
    have hsome : fs.err.isSome = false := by rw [he]; rfl
    unfold readerNext
    simp only [hsome, Bool.false_eq_true, ↓reduceIte]
    simp only [List.nil_append] at a1
    rw [a1]
    simp only [htrim, hnemp, Bool.false_eq_true, ↓reduceIte]

/-! ## §3 the whole document on the loaded buffer -/

theorem renderRowT_ne_nil (delim : Byte) (r : List (Bool × List Byte) × Bool) : renderRowT delim r ≠ [] := by
  obtain ⟨r, c⟩ := r
  cases c <;> simp [renderRowT, term]

theorem renderDocT_eq_nil (delim : Byte) (rows : List (List (Bool × List Byte) × Bool)) (h : renderDocT delim rows = []) :
    rows = [] := by
  cases rows with
  | nil => rfl
  | cons r rs =>
    rw [renderDocT_cons] at h
    simp at h
    exact absurd h.1 (renderRowT_ne_nil _ _)

theorem rowsT_length_le (delim : Byte) : ∀ rows : List (List (Bool × List Byte) × Bool), rows.length ≤ (renderDocT delim rows).length
  | [] => Nat.zero_le _
  | r :: rs => by
    rw [renderDocT_cons, List.length_append, List.length_cons]
    have := rowsT_length_le delim rs
    have : 1 ≤ (renderRowT delim r).length := List.length_pos_iff.mpr (renderRowT_ne_nil delim r)
    omega

/-- compositional form of the loaded reading: a rendered table (rows with either terminator) followed by `tail` -/
theorem readAll_prefixT (delim : Byte) (hd1 : delim ≠ 34) (hd2 : delim ≠ 10) (hd3 : delim ≠ 13) (fuel : Nat) (tail : List Byte) :
    ∀ (rows : List (List (Bool × List Byte) × Bool)) (fs : FS) (acc : List (List (List Byte))),
    (∀ r ∈ rows, RowOk' delim r.1) →
    fs.err = none → fs.st.future = [] → fs.st.data.drop fs.st.cursor = renderDocT delim rows ++ tail →
    fs.st.cursor ≤ fs.st.data.length →
    (renderDocT delim rows ++ tail).length < fuel →
    ∃ fs', AtRow fs' tail ∧ ∀ m, readAll delim fuel (rows.length + m) fs acc
      = readAll delim fuel m fs' (acc ++ rows.map (·.1.map (·.2))) := by
  intro rows
  induction rows with
  | nil =>
    intro fs acc _ he hf hdr hin _
    exact ⟨fs, Or.inl ⟨he, hf, by simpa [renderDocT] using hdr, hin⟩, fun m => by simp⟩
  | cons r rs ih =>
    intro fs acc hok he hf hdr hin hfu
    rw [renderDocT_cons, List.append_assoc] at hdr hfu
    obtain ⟨fs1, a1, a2⟩ := readerNext_rowT delim hd1 hd2 hd3 fuel r fs (renderDocT delim rs ++ tail) (hok r (by simp)) he hf hdr hfu
    have hok' : ∀ r' ∈ rs, RowOk' delim r'.1 := fun r' hr' => hok r' (List.mem_cons_of_mem _ hr')
    have hstep : ∀ m, readAll delim fuel ((r :: rs).length + m) fs acc
        = readAll delim fuel (rs.length + m) fs1 (acc ++ [r.1.map (·.2)]) := by
      intro m
      have : (r :: rs).length + m = (rs.length + m) + 1 := by simp; omega
      rw [this]
      simp only [readAll, a1]
    rcases a2 with ⟨he1, hf1, hdr1, hin1⟩ | ⟨hnil, he1⟩
    · obtain ⟨fs', b1, b2⟩ := ih fs1 (acc ++ [r.1.map (·.2)]) hok' he1 hf1 hdr1 hin1 (by simp at hfu ⊢; omega)
      refine ⟨fs', b1, fun m => ?_⟩
      rw [hstep, b2]
      simp
    · have hrs : rs = [] := by
        apply renderDocT_eq_nil delim
        cases hx : renderDocT delim rs with
        | nil => rfl
        | cons _ _ => rw [hx] at hnil; simp at hnil
      have htl : tail = [] := by
        cases tail with
        | nil => rfl
        | cons _ _ => simp at hnil
      subst hrs; subst htl
      refine ⟨fs1, Or.inr ⟨rfl, he1⟩, fun m => ?_⟩
      rw [hstep]
      simp

/-- a table rendered with either terminator per row, from the loaded buffer -/
theorem readAll_loadedT (delim : Byte) (hd1 : delim ≠ 34) (hd2 : delim ≠ 10) (hd3 : delim ≠ 13)
    (rows : List (List (Bool × List Byte) × Bool)) (hok : ∀ r ∈ rows, RowOk' delim r.1)
    (fuel n : Nat) (hfu : (renderDocT delim rows).length < fuel) (hn : rows.length < n) :
    readAll delim fuel n (loadedFS (renderDocT delim rows)) [] = some (rows.map (·.1.map (·.2)), some .eof) := by
  obtain ⟨fs1, a1, a2⟩ := readAll_prefixT delim hd1 hd2 hd3 fuel [] rows (loadedFS (renderDocT delim rows)) [] hok rfl rfl
    (by simp [loadedFS]) (Nat.zero_le _) (by simpa using hfu)
  obtain ⟨m, rfl⟩ : ∃ m, n = rows.length + (m + 1) := ⟨n - rows.length - 1, by omega⟩
  rw [a2, readAll_end delim fuel (m + 1) fs1 _ a1 (by omega) (by omega)]
  simp

/-- … followed by a last row without line break -/
theorem readAll_loaded_nfnT (delim : Byte) (hd1 : delim ≠ 34) (hd2 : delim ≠ 10) (hd3 : delim ≠ 13)
    (rows : List (List (Bool × List Byte) × Bool)) (last : List (Bool × List Byte))
    (hok : ∀ r ∈ rows, RowOk' delim r.1) (hlast : RowOk' delim last) (hl : last ≠ [(false, [])])
    (fuel n : Nat) (hfu : (renderDocT delim rows ++ renderFields delim last).length + 1 < fuel)
    (hn : rows.length + 1 < n) :
    readAll delim fuel n (loadedFS (renderDocT delim rows ++ renderFields delim last)) []
      = some (rows.map (·.1.map (·.2)) ++ [last.map (·.2)], some .eof) := by
  obtain ⟨hne, hfo, hcr⟩ := hlast
  obtain ⟨fs1, a1, a2⟩ := readAll_prefixT delim hd1 hd2 hd3 fuel (renderFields delim last) rows
    (loadedFS (renderDocT delim rows ++ renderFields delim last)) [] hok rfl rfl rfl (Nat.zero_le _) (by omega)
  obtain ⟨m, rfl⟩ : ∃ m, n = rows.length + (m + 2) := ⟨n - rows.length - 2, by omega⟩
  rw [a2]
  rcases a1 with ⟨he, hf, hdr, hin⟩ | ⟨hnil, he⟩
  · obtain ⟨fs2, b1, b2⟩ := readerNext_fields delim hd1 hd2 fuel last fs1 hne hfo hcr hl he hf hdr
      (by simp at hfu ⊢; omega)
    rw [readAll_step delim fuel (m + 1) fs1 fs2 _ _ b1,
      readAll_end delim fuel (m + 1) fs2 _ (Or.inr ⟨rfl, b2⟩) (by omega) (by omega)]
    simp
  · exfalso
    cases last with
    | nil => exact hne rfl
    | cons p xs =>
      cases xs with
      | nil =>
        obtain ⟨q, f⟩ := p
        cases q with
        | true => simp [renderFields, renderField] at hnil
        | false =>
          simp only [renderFields, renderField, Bool.false_eq_true, ↓reduceIte] at hnil
          subst hnil
          exact hl rfl
      | cons q ys => rw [renderFields_cons2] at hnil; simp at hnil

/-! ## §4 the specification on documents with either terminator -/

open QF.Props.C13 (start afterField flush foldl_field step_delim step_lf foldl_row flush_fields flush_start rfcParse_eq
  start_default not_mustQuote)

/-- CR LF after a rendered field closes the field and the record: after a closing quote the CR is skipped, after an unquoted
field it is stripped -/
theorem step_crlf (delim : UInt8) (hd : delim ≠ 34 ∧ delim ≠ 10 ∧ delim ≠ 13) (q : Bool) (f : Bytes) (R : List Bytes)
    (RS : List (List Bytes)) (p : Bool) :
    csvStep delim (csvStep delim (afterField q f R RS p) 13) 10 = start [] ((f :: R).reverse :: RS) false := by
  have h10 : ¬ (10 : UInt8) = delim := fun h => hd.2.1 h.symm
  have h13 : ¬ (13 : UInt8) = delim := fun h => hd.2.2 h.symm
  cases q with
  | true => simp [afterField, csvStep, h10, h13, CsvAcc.emitField, CsvAcc.endRecord, start]
  | false =>
    by_cases hf : f = []
    · simp [afterField, hf, csvStep, h10, h13, CsvAcc.emitField, CsvAcc.endRecord, start]
    · simp [afterField, hf, csvStep, h10, h13, CsvAcc.emitField, CsvAcc.endRecord, start]

/-- the fields of a record followed by CR LF -/
theorem foldl_fields_crlf (delim : UInt8) (hd : delim ≠ 34 ∧ delim ≠ 10 ∧ delim ≠ 13)
    (r : List (Bool × Bytes)) (h : RowOkCore delim r) (R : List Bytes) (RS : List (List Bytes)) (p : Bool) :
    (renderFields delim r ++ [13, 10]).foldl (csvStep delim) (start R RS p)
      = start [] ((R.reverse ++ r.map (·.2)) :: RS) false := by
  obtain ⟨hne, hq⟩ := h
  induction r generalizing R p with
  | nil => exact absurd rfl hne
  | cons x xs ih =>
    have hx := hq x (by simp)
    cases xs with
    | nil =>
      simp only [renderFields, List.foldl_append, List.foldl_cons, List.foldl_nil]
      rw [foldl_field _ _ _ _ _ _ hx, step_crlf _ hd]
      simp
    | cons y ys =>
      have hq' : ∀ p ∈ y :: ys, mustQuote delim p.2 = true → p.1 = true :=
        fun p hp => hq p (List.mem_cons_of_mem _ hp)
      have := ih (x.2 :: R) true (by simp) hq'
      simp only [List.foldl_append, List.foldl_cons, List.foldl_nil] at this
      simp only [renderFields, List.foldl_append, List.foldl_cons, List.foldl_nil]
      rw [foldl_field _ _ _ _ _ _ hx, step_delim _ hd.1, this]
      simp

/-- one rendered record with its terminator -/
theorem foldl_rowT (delim : UInt8) (hd : delim ≠ 34 ∧ delim ≠ 10 ∧ delim ≠ 13)
    (r : List (Bool × Bytes) × Bool) (h : RowOkCore delim r.1) (R : List Bytes) (RS : List (List Bytes)) (p : Bool) :
    (renderRowT delim r).foldl (csvStep delim) (start R RS p)
      = start [] ((R.reverse ++ r.1.map (·.2)) :: RS) false := by
  obtain ⟨r, c⟩ := r
  cases c with
  | false => exact foldl_row delim hd r h R RS p
  | true => exact foldl_fields_crlf delim hd r h R RS p

theorem foldl_docT (delim : UInt8) (hd : delim ≠ 34 ∧ delim ≠ 10 ∧ delim ≠ 13)
    (rows : List (List (Bool × Bytes) × Bool)) (h : ∀ r ∈ rows, RowOkCore delim r.1) (RS : List (List Bytes)) :
    (renderDocT delim rows).foldl (csvStep delim) (start [] RS false)
      = start [] ((rows.map (·.1.map (·.2))).reverse ++ RS) false := by
  unfold renderDocT
  induction rows generalizing RS with
  | nil => rfl
  | cons r rs ih =>
    have hr := h r (by simp)
    have hrs : ∀ r ∈ rs, RowOkCore delim r.1 := fun r hr => h r (List.mem_cons_of_mem _ hr)
    simp only [List.flatMap_cons, List.foldl_append]
    rw [foldl_rowT delim hd r hr, ih hrs]
    simp

/-- **`rfcParse` inverts rendering with either terminator per row.** -/
theorem parse_renderT (delim : UInt8) (hd : delim ≠ 34 ∧ delim ≠ 10 ∧ delim ≠ 13)
    (rows : List (List (Bool × Bytes) × Bool)) (h : ∀ r ∈ rows, RowOkCore delim r.1) :
    rfcParse delim (renderDocT delim rows) = rows.map (·.1.map (·.2)) := by
  rw [rfcParse_eq, start_default, foldl_docT delim hd rows h, flush_start]
  simp

/-- … and with a last row without line break -/
theorem parse_render_nfnT (delim : UInt8) (hd : delim ≠ 34 ∧ delim ≠ 10 ∧ delim ≠ 13)
    (rows : List (List (Bool × Bytes) × Bool)) (last : List (Bool × Bytes))
    (h : ∀ r ∈ rows, RowOkCore delim r.1) (hlast : RowOkCore delim last) (hl : last ≠ [(false, [])]) :
    rfcParse delim (renderDocT delim rows ++ renderFields delim last)
      = rows.map (·.1.map (·.2)) ++ [last.map (·.2)] := by
  rw [rfcParse_eq, start_default, List.foldl_append, foldl_docT delim hd rows h,
    flush_fields delim hd last hlast _ _ _ (fun hh => hl hh.1)]
  simp

/-! ## Sanity -/

/-- `a,"b␍"␍⏎` `"c",d␍⏎` `,⏎` `"x"␍⏎`: CR LF after unquoted and quoted fields, an LF row in between -/
def demoT : List (List (Bool × List Byte) × Bool) :=
  [ ([(false, [97]), (true, [98, 13, 10, 98])], true), ([(true, [99]), (false, [100])], true),
    ([(false, []), (false, [])], false), ([(true, [120])], true) ]

theorem demoT_ok : ∀ r ∈ demoT, RowOk' 44 r.1 := by
  intro r hr
  simp only [demoT, List.mem_cons, List.not_mem_nil, or_false] at hr
  rcases hr with rfl | rfl | rfl | rfl <;> exact ⟨by decide, by decide, by decide⟩

example : renderDocT 44 demoT = [97, 44, 34, 98, 13, 10, 98, 34, 13, 10, 34, 99, 34, 44, 100, 13, 10, 44, 10, 34, 120, 34, 13, 10] := by decide

example : rfcParse 44 (renderDocT 44 demoT) = demoT.map (·.1.map (·.2)) :=
  parse_renderT 44 (by decide) demoT (fun r hr => (demoT_ok r hr).core)

example : readAll 44 40 10 (loadedFS (renderDocT 44 demoT)) [] = some (demoT.map (·.1.map (·.2)), some .eof) :=
  readAll_loadedT 44 (by decide) (by decide) (by decide) demoT demoT_ok 40 10 (by decide) (by decide)

#print axioms readerNext_rowT
#print axioms readAll_prefixT
#print axioms readAll_loadedT
#print axioms readAll_loaded_nfnT
#print axioms parse_renderT
#print axioms parse_render_nfnT

end QF.Props.C12CrLf
