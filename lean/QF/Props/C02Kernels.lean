import QF.Gen.Facts
import QF.Gen.Kernels
/-!
# C02 — the filter kernels of today's source mean what the spec says (tie T1, by semantics)

`QF.Gen.kernelAst` (regenerated on every run by go/cmd/extract/kast.go) holds, for every filter kernel of the five column
packages, its loop shape and the assigned expression as a term of `QF.KE`; `KE.eval` (QF/Core/KExpr.lean) is the Go
meaning of such a term on one cell. This file proves, for the terms generated TODAY:

* `gen_no_opaque`        — every kernel a comparator table refers to was translated completely
* `gen_kernel_semantics` — for every column type, every comparator of the package's tables (`Gen.tables`) and ALL
                           cells, the kernel found through the table leaves `b || p` in a mask entry that held `b`,
                           where `p` is what the spec's `leafPred` (QF/Spec/Filter.lean) computes for that leaf on that cell:
                           `cmp6 col op x k` for the six comparators (constant and column–column), `Cell.isNull` for
                           isnull / isnotnull, the bit tests, `in`, like / ilike, and the user's predicate.

Method: `decide` shows that each generated term IS the canonical term for (type, comparator) (`gen_*_canon`: finite,
re-checked whenever the source changes), and lemmas proved once and for all (`canon*_sem`) give the meaning of the
canonical terms on every cell. `leafPred_*` connect the statement to `leafPred` itself.

"Cells of that type" (`cellOk`): an int / float / bool cell for such a column, a nullable string for a string column,
and for an enum column null or a member of the value table with rank < 255 (the representation invariant of
`ecolumn.Column`: `data[i]` is `nullValue` = 255 or an index into `values`). The constant (`constOk`) is never null
and, for an enum, is in the table (`filterBuiltIn` looks its rank up and does not run the kernel otherwise).
-/
namespace QF.Props.C02Kernels
open QF

/-! ## Finding a kernel through the comparator tables -/

def pkgOf : CType → String
  | .int => "icolumn" | .float => "fcolumn" | .bool => "bcolumn" | .string => "scolumn" | .enum => "ecolumn" | .undef => ""

abbrev KList := List (String × String × String × KE)

/-- the kernel function a comparator table of a package maps `op` to -/
def tableFn (pkg tab op : String) : Option String :=
  (Gen.tables.find? (fun t => t.1 == pkg && t.2.1 == tab)).bind (fun t => t.2.2.lookup op)
/-- (shape, term) of a function in a list of translated kernels -/
def kernelIn (l : KList) (pkg fn : String) : Option (String × KE) :=
  (l.find? (fun k => k.1 == pkg && k.2.1 == fn)).map (fun k => k.2.2)
def genKernelIn (l : KList) (pkg tab op : String) : Option (String × KE) := (tableFn pkg tab op).bind (kernelIn l pkg)
/-- today's kernels -/
def kernelOf (pkg fn : String) : Option (String × KE) := kernelIn Gen.kernelAst pkg fn
def genKernel (pkg tab op : String) : Option (String × KE) := genKernelIn Gen.kernelAst pkg tab op

/-- constant-argument table of a package -/
def tab1 : CType → String
  | .int => "filterFuncs" | .bool => "filterFuncs" | _ => "filterFuncs1"
def tab2 : String := "filterFuncs2"
def tab0 : String := "filterFuncs0"
def tabIn : String := "multiInputFilterFuncs"

def tys : List CType := [.int, .float, .bool, .string, .enum]
/-- the filter package's name of a comparator ↦ the Go operator -/
def goOp (op : String) : String := if op = "=" then "==" else op
def ops6 : List String := ["<", "<=", ">", ">=", "=", "!="]
/-- the comparison operators of a type (`leafPred`: `isOrd6`, for bool only `=` and `!=`) -/
def cmpOps : CType → List String
  | .bool => ["=", "!="] | .undef => [] | _ => ops6

/-- One mask entry under the kernel `k` = (shape, term): an entry that held `b` holds `b || p` afterwards. -/
def Computes (k : Option (String × KE)) (ty : CType) (vals : List Bytes) (P : KParams) (x y c : Cell) (p : Bool) : Prop :=
  ∃ sh ast, k = some (sh, ast) ∧ ∀ b : Bool, kstep sh (ast.eval ty vals P x y c) b = some (b || p)

theorem computes_guarded {k : Option (String × KE)} {ast : KE} {ty vals P x y c p}
    (hk : k = some ("guarded", ast)) (he : ast.eval ty vals P x y c = some p) : Computes k ty vals P x y c p :=
  ⟨"guarded", ast, hk, by intro b; cases b <;> simp [kstep, he]⟩

theorem computes_guarded_pre {k : Option (String × KE)} {ast : KE} {ty vals P x y c p}
    (hk : k = some ("guarded+pre", ast)) (he : ast.eval ty vals P x y c = some p) : Computes k ty vals P x y c p :=
  ⟨"guarded+pre", ast, hk, by intro b; cases b <;> simp [kstep, he]⟩

/-- cells of the column's type -/
def cellOk (ty : CType) (vals : List Bytes) (x : Cell) : Bool := (cellVal ty vals x).isSome
/-- constants the dispatcher hands to a kernel of the type -/
def constOk (ty : CType) (vals : List Bytes) (k : Cell) : Bool := (constVal ty vals k).isSome

/-! ## Canonical terms -/

/-- column against constant -/
def canon1 : CType → String → KE
  | .string, op => if op = "!=" then .or .isNull (.cmp "!=" .cell .const) else .and (.not .isNull) (.cmp (goOp op) .cell .const)
  | .enum, op => if op = "!=" then .or (.nullTest .cell) (.cmp "!=" (.rank .cell) (.rank .const))
                 else .and (.not (.nullTest .cell)) (.cmp (goOp op) (.rank .cell) (.rank .const))
  | .undef, _ => .skip
  | _, op => .cmp (goOp op) .cell .const

/-- column against column -/
def canon2 : CType → String → KE
  | .string, op => if op = "!=" then .or (.or .isNull .isNull2) (.cmp "!=" .cell .cell2)
                   else .and (.and (.not .isNull) (.not .isNull2)) (.cmp (goOp op) .cell .cell2)
  | .enum, op => if op = "!=" then .or (.or (.nullTest .cell) (.nullTest .cell2)) (.cmp "!=" (.rank .cell) (.rank .cell2))
                 else .and (.and (.not (.nullTest .cell)) (.not (.nullTest .cell2))) (.cmp (goOp op) (.rank .cell) (.rank .cell2))
  | .undef, _ => .skip
  | _, op => .cmp (goOp op) .cell .cell2

/-- isnull / isnotnull: (shape, term) -/
def canon0 : CType → String → String × KE
  | .int, op => if op = "isnull" then ("noop", .skip) else ("unguarded", .lit true)
  | .float, op => if op = "isnull" then ("guarded", .isNaN .cell) else ("guarded", .not (.isNaN .cell))
  | .string, op => if op = "isnull" then ("guarded", .isNull) else ("guarded", .not .isNull)
  | .enum, op => if op = "isnull" then ("guarded", .nullTest .cell) else ("guarded", .not (.nullTest .cell))
  | _, _ => ("opaque", .skip)

def nullTys : List CType := [.int, .float, .string, .enum]
def nullOps : List String := ["isnull", "isnotnull"]

/-! ## Today's terms are the canonical ones (finite checks over `QF.Gen`, redone on every run) -/

theorem gen_cmp1_canon : ∀ ty ∈ tys, ∀ op ∈ cmpOps ty, genKernel (pkgOf ty) (tab1 ty) op = some ("guarded", canon1 ty op) := by
  decide
theorem gen_cmp2_canon : ∀ ty ∈ tys, ∀ op ∈ cmpOps ty, genKernel (pkgOf ty) tab2 op = some ("guarded", canon2 ty op) := by
  decide
theorem gen_null_canon : ∀ ty ∈ nullTys, ∀ op ∈ nullOps, genKernel (pkgOf ty) tab0 op = some (canon0 ty op) := by
  decide
theorem gen_bits_canon :
    genKernel "icolumn" "filterFuncs" "any_bits" = some ("guarded", .cmp ">" (.band .cell .const) (.num 0)) ∧
    genKernel "icolumn" "filterFuncs" "all_bits" = some ("guarded", .cmp "==" (.band .cell .const) .const) := by
  decide
theorem gen_in_canon :
    genKernel "icolumn" tabIn "in" = some ("guarded", .contains .cell) ∧
    genKernel "scolumn" tabIn "in" = some ("guarded", .and (.not .isNull) (.contains .cell)) ∧
    genKernel "ecolumn" tabIn "in" = some ("bitset", .contains .cell) ∧
    kernelOf "ecolumn" "Column.filterWithBitset" = some ("guarded", .bitset .cell) := by
  decide
theorem gen_like_canon :
    genKernel "scolumn" "filterFuncs1" "like" = some ("guarded+pre", .and (.not .isNull) (.matches .const (.lit true) .cell)) ∧
    genKernel "scolumn" "filterFuncs1" "ilike" = some ("guarded+pre", .and (.not .isNull) (.matches .const (.lit false) .cell)) ∧
    genKernel "ecolumn" "multiFilterFuncs" "like" = some ("bitset+pre", .matches .const (.lit true) .cell) ∧
    genKernel "ecolumn" "multiFilterFuncs" "ilike" = some ("bitset+pre", .matches .const (.lit false) .cell) := by
  decide
theorem gen_custom_canon :
    (∀ ty ∈ [CType.int, .float, .bool], kernelOf (pkgOf ty) "Column.filterCustom1" = some ("guarded", .custom1 .cell) ∧
      kernelOf (pkgOf ty) "Column.filterCustom2" = some ("guarded+pre", .custom2 .cell .cell2)) ∧
    kernelOf "scolumn" "Column.filterCustom1" = some ("guarded", .custom1 (.ptr .cell .isNull)) ∧
    kernelOf "scolumn" "Column.filterCustom2" = some ("guarded+pre", .custom2 (.ptr .cell .isNull) (.ptr .cell2 .isNull2)) ∧
    kernelOf "ecolumn" "Column.filterCustom1" = some ("guarded", .custom1 .cellPtr) ∧
    kernelOf "ecolumn" "Column.filterCustom2" = some ("guarded+pre", .custom2 .cellPtr .cellPtr2) := by
  decide

/-- The comparators of the tables are exactly the ones treated below: a comparator added to a table without a
semantics here is noticed. -/
def tableOps (pkg tab : String) : List String :=
  ((Gen.tables.find? (fun t => t.1 == pkg && t.2.1 == tab)).map (fun t => t.2.2.map (·.1))).getD []
theorem gen_tables_covered :
    (∀ ty ∈ tys, ∀ op ∈ tableOps (pkgOf ty) (tab1 ty), op ∈ cmpOps ty ++ (if ty = .int then ["any_bits", "all_bits"] else if ty = .string then ["like", "ilike"] else [])) ∧
    (∀ ty ∈ tys, ∀ op ∈ tableOps (pkgOf ty) tab2, op ∈ cmpOps ty) ∧
    (∀ ty ∈ tys, ∀ op ∈ tableOps (pkgOf ty) tab0, op ∈ nullOps) ∧
    (∀ ty ∈ tys, ∀ op ∈ tableOps (pkgOf ty) tabIn, op = "in") ∧
    (∀ op ∈ tableOps "ecolumn" "multiFilterFuncs", op ∈ ["like", "ilike"]) ∧
    (∀ t ∈ Gen.tables, t.2.1 ∈ ["filterFuncs", "filterFuncs0", "filterFuncs1", "filterFuncs2", "multiInputFilterFuncs", "multiFilterFuncs"]) := by
  decide

/-- No kernel a comparator table refers to translates to (a term containing) `.opaque`. -/
theorem gen_no_opaque :
    ∀ t ∈ Gen.tables, ∀ e ∈ t.2.2, (kernelOf t.1 e.2).any (fun k => k.1 != "opaque" && !k.2.hasOpaque) = true := by
  decide

/-- … and neither does any other function that takes the mask (custom predicates, `regexFilter`, `filterWithBitset`). -/
theorem gen_no_opaque_all : ∀ k ∈ Gen.kernelAst, (k.2.2.1 != "opaque" && !k.2.2.2.hasOpaque) = true := by
  decide

/-! ## The meaning of the canonical terms, once and for all -/

@[simp] theorem beq_lt_lt : (Ordering.lt == Ordering.lt) = true := by decide
@[simp] theorem bne_lt_lt : (Ordering.lt != Ordering.lt) = false := by decide
@[simp] theorem beq_lt_eq : (Ordering.lt == Ordering.eq) = false := by decide
@[simp] theorem bne_lt_eq : (Ordering.lt != Ordering.eq) = true := by decide
@[simp] theorem beq_lt_gt : (Ordering.lt == Ordering.gt) = false := by decide
@[simp] theorem bne_lt_gt : (Ordering.lt != Ordering.gt) = true := by decide
@[simp] theorem beq_eq_lt : (Ordering.eq == Ordering.lt) = false := by decide
@[simp] theorem bne_eq_lt : (Ordering.eq != Ordering.lt) = true := by decide
@[simp] theorem beq_eq_eq : (Ordering.eq == Ordering.eq) = true := by decide
@[simp] theorem bne_eq_eq : (Ordering.eq != Ordering.eq) = false := by decide
@[simp] theorem beq_eq_gt : (Ordering.eq == Ordering.gt) = false := by decide
@[simp] theorem bne_eq_gt : (Ordering.eq != Ordering.gt) = true := by decide
@[simp] theorem beq_gt_lt : (Ordering.gt == Ordering.lt) = false := by decide
@[simp] theorem bne_gt_lt : (Ordering.gt != Ordering.lt) = true := by decide
@[simp] theorem beq_gt_eq : (Ordering.gt == Ordering.eq) = false := by decide
@[simp] theorem bne_gt_eq : (Ordering.gt != Ordering.eq) = true := by decide
@[simp] theorem beq_gt_gt : (Ordering.gt == Ordering.gt) = true := by decide
@[simp] theorem bne_gt_gt : (Ordering.gt != Ordering.gt) = false := by decide

theorem int_cmp (a b : Int) : (a < b ∧ compare a b = .lt) ∨ (a = b ∧ compare a b = .eq) ∨ (b < a ∧ compare a b = .gt) := by
  rcases Int.lt_trichotomy a b with h | h | h
  · left; exact ⟨h, by simp [compare, compareOfLessAndEq, h]⟩
  · right; left; exact ⟨h, by simp [compare, compareOfLessAndEq, h]⟩
  · right; right; refine ⟨h, ?_⟩
    have h1 : ¬ a < b := by omega
    have h2 : ¬ a = b := by omega
    simp [compare, compareOfLessAndEq, h1, h2]


theorem bytesCmp_eq_iff (a b : Bytes) : bytesCmp a b = .eq ↔ a = b := by
  induction a generalizing b with
  | nil => cases b <;> simp [bytesCmp]
  | cons x xs ih =>
    cases b with
    | nil => simp [bytesCmp]
    | cons y ys =>
      simp only [bytesCmp]
      split
      · rename_i h
        simp only [reduceCtorEq, false_iff, List.cons.injEq, not_and]
        intro hxy; subst hxy; exact absurd h (UInt8.lt_irrefl x)
      · split
        · rename_i h
          simp only [reduceCtorEq, false_iff, List.cons.injEq, not_and]
          intro hxy; subst hxy; exact absurd h (UInt8.lt_irrefl x)
        · rename_i h1 h2
          have : x = y := by
            apply UInt8.toNat_inj.mp
            simp only [GT.gt, UInt8.lt_iff_toNat_lt] at h1 h2
            omega
          simp [this, ih]

theorem enumRank_eq_some_iff {vals : List Bytes} {s : Bytes} {i : Nat} :
    enumRank vals s = some i ↔ ∃ h : i < vals.length, vals[i] = s ∧ ∀ j (hj : j < i), vals[j] ≠ s := by
  unfold enumRank
  rw [List.findIdx?_eq_some_iff_getElem]
  simp

theorem nat_cmp (a b : Nat) : (a < b ∧ compare a b = .lt) ∨ (a = b ∧ compare a b = .eq) ∨ (b < a ∧ compare a b = .gt) := by
  rcases Nat.lt_trichotomy a b with h | h | h
  · left; exact ⟨h, by simp [compare, compareOfLessAndEq, h]⟩
  · right; left; exact ⟨h, by simp [compare, compareOfLessAndEq, h]⟩
  · right; right; refine ⟨h, ?_⟩
    have h1 : ¬ a < b := by omega
    have h2 : ¬ a = b := by omega
    simp [compare, compareOfLessAndEq, h1, h2]

theorem mem_ops6 {op : String} (h : op ∈ ops6) : op = "<" ∨ op = "<=" ∨ op = ">" ∨ op = ">=" ∨ op = "=" ∨ op = "!=" := by
  simpa [ops6] using h

theorem canon1_sem_int (col : LCol) (op : String) (hop : op ∈ ops6) (a b : Int) (P : KParams) (y : Cell) :
    (canon1 .int op).eval .int col.vals P (.int a) y (.int b) = some (cmp6 col op (.int a) (.int b)) := by
  rcases int_cmp a b with ⟨h, hc⟩ | ⟨h, hc⟩ | ⟨h, hc⟩ <;>
  rcases mem_ops6 hop with rfl | rfl | rfl | rfl | rfl | rfl <;>
  simp [canon1, goOp, KE.eval, KE.evalV, cellVal, constVal, cmpV, cmpInt, cmp6, cellCmp, ordOp, hc] <;> omega

theorem canon1_sem_float (col : LCol) (op : String) (hop : op ∈ ops6) (a b : UInt64) (P : KParams) (y : Cell) :
    (canon1 .float op).eval .float col.vals P (.float a) y (.float b) = some (cmp6 col op (.float a) (.float b)) := by
  cases hx : F64.isNaN a <;> cases hy : F64.isNaN b <;>
  rcases int_cmp (F64.key a) (F64.key b) with ⟨h, hc⟩ | ⟨h, hc⟩ | ⟨h, hc⟩ <;>
  rcases mem_ops6 hop with rfl | rfl | rfl | rfl | rfl | rfl <;>
  simp [canon1, goOp, KE.eval, KE.evalV, cellVal, constVal, cmpV, cmpFlt, cmp6, cellCmp, ordOp, F64.lt, F64.le, F64.eq, hx, hy, hc] <;> omega

theorem canon1_sem_bool (col : LCol) (op : String) (hop : op ∈ ["=", "!="]) (a b : Bool) (P : KParams) (y : Cell) :
    (canon1 .bool op).eval .bool col.vals P (.bool a) y (.bool b) = some (cmp6 col op (.bool a) (.bool b)) := by
  simp only [List.mem_cons, List.not_mem_nil, or_false] at hop
  rcases hop with rfl | rfl <;> cases a <;> cases b <;>
  simp [canon1, goOp, KE.eval, KE.evalV, cellVal, constVal, cmpV, cmpBool, cmp6, cellCmp, ordOp, compare, compareOfLessAndEq]

theorem canon1_sem_string (col : LCol) (hty : col.ty = .string) (op : String) (hop : op ∈ ops6) (s : Option Bytes) (v : Bytes)
    (P : KParams) (y : Cell) :
    (canon1 .string op).eval .string col.vals P (.str s) y (.str (some v)) = some (cmp6 col op (.str s) (.str (some v))) := by
  cases s with
  | none =>
    rcases mem_ops6 hop with rfl | rfl | rfl | rfl | rfl | rfl <;>
    simp [canon1, goOp, KE.eval, KE.evalV, cellVal, constVal, nullFlag, cmpV, cmpStr, cmp6, cellCmp]
  | some u =>
    have he := bytesCmp_eq_iff u v
    by_cases huv : u = v <;>
    rcases mem_ops6 hop with rfl | rfl | rfl | rfl | rfl | rfl <;>
    simp [canon1, goOp, KE.eval, KE.evalV, cellVal, constVal, nullFlag, cmpV, cmpStr, cmp6, cellCmp, ordOp, hty, huv, he] <;>
    simp_all

theorem enum_ok {vals : List Bytes} {s : Bytes} (h : (cellVal .enum vals (.str (some s))).isSome = true) :
    ∃ i, enumRank vals s = some i ∧ i < 255 := by
  simp only [cellVal] at h
  split at h
  · rename_i i hi
    split at h
    · rename_i hl; exact ⟨i, hi, hl⟩
    · simp at h
  · simp at h

theorem enum_const_ok {vals : List Bytes} {s : Bytes} (h : constOk .enum vals (.str (some s)) = true) :
    ∃ i, enumRank vals s = some i ∧ i < 255 := by
  apply enum_ok
  simpa [constOk, constVal, cellVal] using h

theorem canon1_sem_enum (col : LCol) (hty : col.ty = .enum) (op : String) (hop : op ∈ ops6) (s : Option Bytes) (v : Bytes)
    (hx : cellOk .enum col.vals (.str s) = true) (hk : constOk .enum col.vals (.str (some v)) = true) (P : KParams) (y : Cell) :
    (canon1 .enum op).eval .enum col.vals P (.str s) y (.str (some v)) = some (cmp6 col op (.str s) (.str (some v))) := by
  obtain ⟨j, hj, hjl⟩ := enum_const_ok hk
  have hjn : ¬ j = 255 := by omega
  cases s with
  | none =>
    rcases mem_ops6 hop with rfl | rfl | rfl | rfl | rfl | rfl <;>
    simp [canon1, goOp, KE.eval, KE.evalV, cellVal, constVal, cmpV, cmpInt, cmp6, cellCmp, enumNull, hj, hjl, hjn]
  | some u =>
    obtain ⟨i, hi, hil⟩ := enum_ok hx
    have hin : ¬ i = 255 := by omega
    rcases nat_cmp i j with ⟨h, hc⟩ | ⟨h, hc⟩ | ⟨h, hc⟩ <;>
    rcases mem_ops6 hop with rfl | rfl | rfl | rfl | rfl | rfl <;>
    simp [canon1, goOp, KE.eval, KE.evalV, cellVal, constVal, cmpV, cmpInt, cmp6, cellCmp, ordOp, enumNull, hty, hi, hj, hil, hjl, hin, hjn, hc] <;>
    omega

/-- Column against constant: the canonical term of (type, comparator) evaluates to `cmp6`, on every cell and constant. -/
theorem canon1_sem (col : LCol) (op : String) (hop : op ∈ cmpOps col.ty) (x k : Cell)
    (hx : cellOk col.ty col.vals x = true) (hk : constOk col.ty col.vals k = true) (P : KParams) (y : Cell) :
    (canon1 col.ty op).eval col.ty col.vals P x y k = some (cmp6 col op x k) := by
  cases hty : col.ty <;> rw [hty] at hop hx hk
  · cases x <;> simp [cellOk, cellVal] at hx
    cases k <;> simp [constOk, constVal] at hk
    exact canon1_sem_int col op hop _ _ P y
  · cases x <;> simp [cellOk, cellVal] at hx
    cases k <;> simp [constOk, constVal] at hk
    exact canon1_sem_float col op hop _ _ P y
  · cases x <;> simp [cellOk, cellVal] at hx
    cases k <;> simp [constOk, constVal] at hk
    exact canon1_sem_bool col op hop _ _ P y
  · cases x <;> simp [cellOk, cellVal] at hx
    rcases k with _ | _ | _ | (_ | v) <;> simp [constOk, constVal] at hk
    exact canon1_sem_string col hty op hop _ v P y
  · rcases x with _ | _ | _ | s
    · simp [cellOk, cellVal] at hx
    · simp [cellOk, cellVal] at hx
    · simp [cellOk, cellVal] at hx
    rcases k with _ | _ | _ | (_ | v)
    · simp [constOk, constVal] at hk
    · simp [constOk, constVal] at hk
    · simp [constOk, constVal] at hk
    · simp [constOk, constVal] at hk
    exact canon1_sem_enum col hty op hop s v hx hk P y
  · simp [cmpOps] at hop

/-! ### column against column -/

theorem canon2_sem_int (col : LCol) (op : String) (hop : op ∈ ops6) (a b : Int) (P : KParams) (c : Cell) :
    (canon2 .int op).eval .int col.vals P (.int a) (.int b) c = some (cmp6 col op (.int a) (.int b)) := by
  rcases int_cmp a b with ⟨h, hc⟩ | ⟨h, hc⟩ | ⟨h, hc⟩ <;>
  rcases mem_ops6 hop with rfl | rfl | rfl | rfl | rfl | rfl <;>
  simp [canon2, goOp, KE.eval, KE.evalV, cellVal, cmpV, cmpInt, cmp6, cellCmp, ordOp, hc] <;> omega

theorem canon2_sem_float (col : LCol) (op : String) (hop : op ∈ ops6) (a b : UInt64) (P : KParams) (c : Cell) :
    (canon2 .float op).eval .float col.vals P (.float a) (.float b) c = some (cmp6 col op (.float a) (.float b)) := by
  cases hx : F64.isNaN a <;> cases hy : F64.isNaN b <;>
  rcases int_cmp (F64.key a) (F64.key b) with ⟨h, hc⟩ | ⟨h, hc⟩ | ⟨h, hc⟩ <;>
  rcases mem_ops6 hop with rfl | rfl | rfl | rfl | rfl | rfl <;>
  simp [canon2, goOp, KE.eval, KE.evalV, cellVal, cmpV, cmpFlt, cmp6, cellCmp, ordOp, F64.lt, F64.le, F64.eq, hx, hy, hc] <;> omega

theorem canon2_sem_bool (col : LCol) (op : String) (hop : op ∈ ["=", "!="]) (a b : Bool) (P : KParams) (c : Cell) :
    (canon2 .bool op).eval .bool col.vals P (.bool a) (.bool b) c = some (cmp6 col op (.bool a) (.bool b)) := by
  simp only [List.mem_cons, List.not_mem_nil, or_false] at hop
  rcases hop with rfl | rfl <;> cases a <;> cases b <;>
  simp [canon2, goOp, KE.eval, KE.evalV, cellVal, cmpV, cmpBool, cmp6, cellCmp, ordOp, compare, compareOfLessAndEq]

theorem canon2_sem_string (col : LCol) (hty : col.ty = .string) (op : String) (hop : op ∈ ops6) (s t : Option Bytes)
    (P : KParams) (c : Cell) :
    (canon2 .string op).eval .string col.vals P (.str s) (.str t) c = some (cmp6 col op (.str s) (.str t)) := by
  rcases s with _ | u <;> rcases t with _ | v
  · rcases mem_ops6 hop with rfl | rfl | rfl | rfl | rfl | rfl <;>
    simp [canon2, goOp, KE.eval, KE.evalV, cellVal, nullFlag, cmpV, cmpStr, cmp6, cellCmp, bytesCmp]
  · rcases mem_ops6 hop with rfl | rfl | rfl | rfl | rfl | rfl <;>
    simp [canon2, goOp, KE.eval, KE.evalV, cellVal, nullFlag, cmpV, cmpStr, cmp6, cellCmp]
  · rcases mem_ops6 hop with rfl | rfl | rfl | rfl | rfl | rfl <;>
    simp [canon2, goOp, KE.eval, KE.evalV, cellVal, nullFlag, cmpV, cmpStr, cmp6, cellCmp]
  · have he := bytesCmp_eq_iff u v
    by_cases huv : u = v <;>
    rcases mem_ops6 hop with rfl | rfl | rfl | rfl | rfl | rfl <;>
    simp [canon2, goOp, KE.eval, KE.evalV, cellVal, nullFlag, cmpV, cmpStr, cmp6, cellCmp, ordOp, hty, huv, he] <;>
    simp_all

theorem canon2_sem_enum (col : LCol) (hty : col.ty = .enum) (op : String) (hop : op ∈ ops6) (s t : Option Bytes)
    (hx : cellOk .enum col.vals (.str s) = true) (hy : cellOk .enum col.vals (.str t) = true) (P : KParams) (c : Cell) :
    (canon2 .enum op).eval .enum col.vals P (.str s) (.str t) c = some (cmp6 col op (.str s) (.str t)) := by
  rcases s with _ | u <;> rcases t with _ | v
  · rcases mem_ops6 hop with rfl | rfl | rfl | rfl | rfl | rfl <;>
    simp [canon2, goOp, KE.eval, KE.evalV, cellVal, cmpV, cmpInt, cmp6, cellCmp, enumNull]
  · obtain ⟨j, hj, hjl⟩ := enum_ok hy
    have hjn : ¬ j = 255 := by omega
    rcases mem_ops6 hop with rfl | rfl | rfl | rfl | rfl | rfl <;>
    simp [canon2, goOp, KE.eval, KE.evalV, cellVal, cmpV, cmpInt, cmp6, cellCmp, enumNull, hj, hjl, hjn]
  · obtain ⟨i, hi, hil⟩ := enum_ok hx
    have hin : ¬ i = 255 := by omega
    rcases mem_ops6 hop with rfl | rfl | rfl | rfl | rfl | rfl <;>
    simp [canon2, goOp, KE.eval, KE.evalV, cellVal, cmpV, cmpInt, cmp6, cellCmp, enumNull, hi, hil, hin]
  · obtain ⟨i, hi, hil⟩ := enum_ok hx
    obtain ⟨j, hj, hjl⟩ := enum_ok hy
    have hin : ¬ i = 255 := by omega
    have hjn : ¬ j = 255 := by omega
    rcases nat_cmp i j with ⟨h, hc⟩ | ⟨h, hc⟩ | ⟨h, hc⟩ <;>
    rcases mem_ops6 hop with rfl | rfl | rfl | rfl | rfl | rfl <;>
    simp [canon2, goOp, KE.eval, KE.evalV, cellVal, cmpV, cmpInt, cmp6, cellCmp, ordOp, enumNull, hty, hi, hj, hil, hjl, hin, hjn, hc] <;>
    omega

/-- Column against column: the canonical term evaluates to `cmp6`, on every pair of cells. -/
theorem canon2_sem (col : LCol) (op : String) (hop : op ∈ cmpOps col.ty) (x y : Cell)
    (hx : cellOk col.ty col.vals x = true) (hy : cellOk col.ty col.vals y = true) (P : KParams) (c : Cell) :
    (canon2 col.ty op).eval col.ty col.vals P x y c = some (cmp6 col op x y) := by
  cases hty : col.ty <;> rw [hty] at hop hx hy
  · cases x <;> simp [cellOk, cellVal] at hx
    cases y <;> simp [cellOk, cellVal] at hy
    exact canon2_sem_int col op hop _ _ P c
  · cases x <;> simp [cellOk, cellVal] at hx
    cases y <;> simp [cellOk, cellVal] at hy
    exact canon2_sem_float col op hop _ _ P c
  · cases x <;> simp [cellOk, cellVal] at hx
    cases y <;> simp [cellOk, cellVal] at hy
    exact canon2_sem_bool col op hop _ _ P c
  · cases x <;> simp [cellOk, cellVal] at hx
    cases y <;> simp [cellOk, cellVal] at hy
    exact canon2_sem_string col hty op hop _ _ P c
  · rcases x with _ | _ | _ | s
    · simp [cellOk, cellVal] at hx
    · simp [cellOk, cellVal] at hx
    · simp [cellOk, cellVal] at hx
    rcases y with _ | _ | _ | t
    · simp [cellOk, cellVal] at hy
    · simp [cellOk, cellVal] at hy
    · simp [cellOk, cellVal] at hy
    exact canon2_sem_enum col hty op hop s t hx hy P c
  · simp [cmpOps] at hop

/-! ### isnull / isnotnull -/

/-- what `leafPred` computes for `isnull` / `isnotnull` -/
def specNull (op : String) (x : Cell) : Bool := if op = "isnull" then x.isNull else !x.isNull

/-- isnull / isnotnull: shape and term together leave `b || specNull op x` (the int kernels do not look at the cell: an
int cell is never null). -/
theorem canon0_sem (col : LCol) (hty : col.ty ∈ nullTys) (op : String) (hop : op ∈ nullOps) (x : Cell)
    (hx : cellOk col.ty col.vals x = true) (P : KParams) (y c : Cell) (b : Bool) :
    kstep (canon0 col.ty op).1 ((canon0 col.ty op).2.eval col.ty col.vals P x y c) b = some (b || specNull op x) := by
  simp only [nullOps, List.mem_cons, List.not_mem_nil, or_false] at hop
  cases h : col.ty <;> rw [h] at hty hx <;> simp [nullTys] at hty
  · cases x <;> simp [cellOk, cellVal] at hx
    rcases hop with rfl | rfl <;> cases b <;> simp [canon0, kstep, specNull, Cell.isNull, KE.eval, KE.evalV]
  · cases x <;> simp [cellOk, cellVal] at hx
    rcases hop with rfl | rfl <;> cases b <;> simp [canon0, kstep, specNull, Cell.isNull, KE.eval, KE.evalV, cellVal]
  · rcases x with _ | _ | _ | (_ | s) <;> simp [cellOk, cellVal] at hx <;>
    rcases hop with rfl | rfl <;> cases b <;> simp [canon0, kstep, specNull, Cell.isNull, KE.eval, KE.evalV, nullFlag]
  · rcases x with _ | _ | _ | (_ | s)
    · simp [cellOk, cellVal] at hx
    · simp [cellOk, cellVal] at hx
    · simp [cellOk, cellVal] at hx
    · rcases hop with rfl | rfl <;> cases b <;>
      simp [canon0, kstep, specNull, Cell.isNull, KE.eval, KE.evalV, cellVal, enumNull]
    · obtain ⟨i, hi, hil⟩ := enum_ok hx
      have hin : ¬ i = 255 := by omega
      rcases hop with rfl | rfl <;> cases b <;>
      simp [canon0, kstep, specNull, Cell.isNull, KE.eval, KE.evalV, cellVal, enumNull, hi, hil, hin]

/-! ### any_bits / all_bits (int) -/

/-- what `leafPred` computes for the bit tests of an int column against the constant `v` -/
def specBits (op : String) (x : Cell) (v : Int) : Bool :=
  if op = "any_bits" then (match x with | .int a => wrap64 (Int.ofNat (intBits a &&& intBits v)) > 0 | _ => false)
  else (match x with | .int a => (intBits a &&& intBits v) == intBits v | _ => false)

def int64 (v : Int) : Prop := -9223372036854775808 ≤ v ∧ v < 9223372036854775808

theorem anyBits_sem (vals : List Bytes) (a v : Int) (P : KParams) (y : Cell) :
    (KE.cmp ">" (.band .cell .const) (.num 0)).eval .int vals P (.int a) y (.int v) = some (specBits "any_bits" (.int a) v) := by
  simp [KE.eval, KE.evalV, cellVal, constVal, cmpV, cmpInt, specBits]

theorem allBits_arith (a v : Int) (hv : int64 v) :
    decide (wrap64 ((intBits a &&& intBits v : Nat) : Int) = v) = ((intBits a &&& intBits v) == intBits v) := by
  have hle : intBits a &&& intBits v ≤ intBits v := Nat.and_le_right
  generalize intBits a &&& intBits v = n at *
  have hm : intBits v < 18446744073709551616 := by unfold intBits; omega
  have : wrap64 (n : Int) = v ↔ n = intBits v := by
    unfold wrap64 intBits int64 at *
    simp only
    split <;> omega
  rw [Bool.eq_iff_iff]; simp [this]

/-- `column[index[i]]&comp == comp` in Go's 64-bit arithmetic is the spec's test on the bit patterns, for every
constant that is a Go `int`. -/
theorem allBits_sem (vals : List Bytes) (a v : Int) (hv : int64 v) (P : KParams) (y : Cell) :
    (KE.cmp "==" (.band .cell .const) .const).eval .int vals P (.int a) y (.int v) = some (specBits "all_bits" (.int a) v) := by
  simp [KE.eval, KE.evalV, cellVal, constVal, cmpV, cmpInt, specBits, allBits_arith a v hv]

/-! ### in -/

theorem inInt_sem (vals : List Bytes) (a : Int) (P : KParams) (y c : Cell) :
    (KE.contains .cell).eval .int vals P (.int a) y c = some (P.ints.contains a) := by
  simp [KE.eval, KE.evalV, cellVal]

/-- what `leafPred` computes for `in` on a string / enum column -/
def specInStr (vs : List Bytes) (x : Cell) : Bool := match x with | .str (some u) => vs.contains u | _ => false

theorem inStr_sem (vals : List Bytes) (s : Option Bytes) (P : KParams) (y c : Cell) :
    (KE.and (.not .isNull) (.contains .cell)).eval .string vals P (.str s) y c = some (specInStr P.strs (.str s)) := by
  cases s <;> simp [KE.eval, KE.evalV, cellVal, nullFlag, specInStr]

/-! ### like / ilike -/

/-- what `leafPred` computes for like / ilike with pattern `v` -/
def specLike (lo : LikeOracle) (op : String) (v : Bytes) (x : Cell) : Bool :=
  match x with | .str (some u) => lo.isMatch v (op == "ilike") u | _ => false

theorem likeStr_sem (vals : List Bytes) (cs : Bool) (s : Option Bytes) (v : Bytes) (P : KParams) (y : Cell) :
    (KE.and (.not .isNull) (.matches .const (.lit cs) .cell)).eval .string vals P (.str s) y (.str (some v)) =
      some (match s with | some u => P.lo.isMatch v (!cs) u | none => false) := by
  cases s <;> simp [KE.eval, KE.evalV, cellVal, constVal, nullFlag]

/-! ### enum columns: `in`, like, ilike go through a bitset over the value table -/

/-- The bitset the builder `for i, v := range values { if e(v) { bset.set(enumVal(i)) } }` returns, read with `isSet`:
position `i` is set iff `i` is a position of the table and the builder's condition holds for the string there. -/
def bsetOf (vals : List Bytes) (P : KParams) (c : Cell) (builder : KE) : Nat → Bool := fun i =>
  match vals[i]? with
  | some v => (builder.eval .string [] P (.str (some v)) (.str none) c).getD false
  | none => false

theorem bitset_sem (vals : List Bytes) (hlen : vals.length ≤ 255) (P : KParams) (builder : KE) (q : Bytes → Bool) (k : Cell)
    (hb : ∀ v, builder.eval .string [] P (.str (some v)) (.str none) k = some (q v))
    (s : Option Bytes) (hx : cellOk .enum vals (.str s) = true) (y : Cell) :
    (KE.bitset .cell).eval .enum vals { P with bset := bsetOf vals P k builder } (.str s) y k =
      some (match s with | some u => q u | none => false) := by
  cases s with
  | none =>
    have : vals[255]? = none := by simp; omega
    simp [KE.eval, KE.evalV, cellVal, enumNull, bsetOf, this]
  | some u =>
    obtain ⟨i, hi, hil⟩ := enum_ok hx
    obtain ⟨hlt, hget, _⟩ := enumRank_eq_some_iff.1 hi
    have : vals[i]? = some u := by simp [hlt, hget]
    have hb' : bsetOf vals P k builder i = q u := by simp only [bsetOf, this, hb, Option.getD_some]
    simp [KE.eval, KE.evalV, cellVal, enumNull, hi, hil, hb']

/-! ### custom predicates -/

theorem custom1_sem (ty : CType) (hty : ty ∈ [CType.int, .float, .bool]) (vals : List Bytes) (x : Cell)
    (hx : cellOk ty vals x = true) (P : KParams) (y c : Cell) :
    (KE.custom1 .cell).eval ty vals P x y c = some (P.fn1 x) := by
  simp only [List.mem_cons, List.not_mem_nil, or_false] at hty
  rcases hty with rfl | rfl | rfl <;> cases x <;> simp [cellOk, cellVal] at hx <;>
  simp [KE.eval, KE.evalV, cellVal, KV.toCell]

theorem custom2_sem (ty : CType) (hty : ty ∈ [CType.int, .float, .bool]) (vals : List Bytes) (x y : Cell)
    (hx : cellOk ty vals x = true) (hy : cellOk ty vals y = true) (P : KParams) (c : Cell) :
    (KE.custom2 .cell .cell2).eval ty vals P x y c = some (P.fn2 x y) := by
  simp only [List.mem_cons, List.not_mem_nil, or_false] at hty
  rcases hty with rfl | rfl | rfl <;> cases x <;> simp [cellOk, cellVal] at hx <;>
  cases y <;> simp [cellOk, cellVal] at hy <;>
  simp [KE.eval, KE.evalV, cellVal, KV.toCell]

theorem custom1Str_sem (vals : List Bytes) (s : Option Bytes) (P : KParams) (y c : Cell) :
    (KE.custom1 (.ptr .cell .isNull)).eval .string vals P (.str s) y c = some (P.fn1 (.str s)) := by
  cases s <;> simp [KE.eval, KE.evalV, cellVal, nullFlag, KV.toCell]

theorem custom2Str_sem (vals : List Bytes) (s t : Option Bytes) (P : KParams) (c : Cell) :
    (KE.custom2 (.ptr .cell .isNull) (.ptr .cell2 .isNull2)).eval .string vals P (.str s) (.str t) c = some (P.fn2 (.str s) (.str t)) := by
  cases s <;> cases t <;> simp [KE.eval, KE.evalV, cellVal, nullFlag, KV.toCell]

theorem ptr_enum (vals : List Bytes) (s : Option Bytes) (hx : cellOk .enum vals (.str s) = true) :
    cellPtrVal .enum vals (.str s) = some (.ptr s) := by
  cases s with
  | none => simp [cellPtrVal]
  | some u => simp only [cellOk] at hx; simp [cellPtrVal, hx]

theorem custom1Enum_sem (vals : List Bytes) (s : Option Bytes) (hx : cellOk .enum vals (.str s) = true) (P : KParams) (y c : Cell) :
    (KE.custom1 .cellPtr).eval .enum vals P (.str s) y c = some (P.fn1 (.str s)) := by
  simp [KE.eval, KE.evalV, ptr_enum vals s hx, KV.toCell]

theorem custom2Enum_sem (vals : List Bytes) (s t : Option Bytes) (hx : cellOk .enum vals (.str s) = true)
    (hy : cellOk .enum vals (.str t) = true) (P : KParams) (c : Cell) :
    (KE.custom2 .cellPtr .cellPtr2).eval .enum vals P (.str s) (.str t) c = some (P.fn2 (.str s) (.str t)) := by
  simp [KE.eval, KE.evalV, ptr_enum vals s hx, ptr_enum vals t hy, KV.toCell]

/-! ## Today's kernels compute the spec's leaf predicates -/

theorem cmpOps_ty {ty : CType} {op : String} (h : op ∈ cmpOps ty) : ty ∈ tys := by
  cases ty <;> simp [tys, cmpOps] at h ⊢

/-- The six comparators, column against constant (tables `filterFuncs` / `filterFuncs1`): every type, every comparator of
the type, ALL cells and constants of the type. -/
theorem gen_kernel_semantics_cmp1 (col : LCol) (op : String) (hop : op ∈ cmpOps col.ty) (x k : Cell)
    (hx : cellOk col.ty col.vals x = true) (hk : constOk col.ty col.vals k = true) (P : KParams) (y : Cell) :
    Computes (genKernel (pkgOf col.ty) (tab1 col.ty) op) col.ty col.vals P x y k (cmp6 col op x k) :=
  computes_guarded (gen_cmp1_canon _ (cmpOps_ty hop) op hop) (canon1_sem col op hop x k hx hk P y)

/-- The six comparators, column against column (tables `filterFuncs2`). -/
theorem gen_kernel_semantics_cmp2 (col : LCol) (op : String) (hop : op ∈ cmpOps col.ty) (x y : Cell)
    (hx : cellOk col.ty col.vals x = true) (hy : cellOk col.ty col.vals y = true) (P : KParams) (c : Cell) :
    Computes (genKernel (pkgOf col.ty) tab2 op) col.ty col.vals P x y c (cmp6 col op x y) :=
  computes_guarded (gen_cmp2_canon _ (cmpOps_ty hop) op hop) (canon2_sem col op hop x y hx hy P c)

/-- isnull / isnotnull (tables `filterFuncs0`). -/
theorem gen_kernel_semantics_null (col : LCol) (hty : col.ty ∈ nullTys) (op : String) (hop : op ∈ nullOps) (x : Cell)
    (hx : cellOk col.ty col.vals x = true) (P : KParams) (y c : Cell) :
    Computes (genKernel (pkgOf col.ty) tab0 op) col.ty col.vals P x y c (specNull op x) :=
  ⟨(canon0 col.ty op).1, (canon0 col.ty op).2, gen_null_canon _ hty op hop, fun b => canon0_sem col hty op hop x hx P y c b⟩

/-- any_bits / all_bits (int table `filterFuncs`); for all_bits the constant must be a Go `int` (64 bit). -/
theorem gen_kernel_semantics_bits (vals : List Bytes) (op : String) (a v : Int)
    (hop : op = "any_bits" ∨ (op = "all_bits" ∧ int64 v)) (P : KParams) (y : Cell) :
    Computes (genKernel "icolumn" "filterFuncs" op) .int vals P (.int a) y (.int v) (specBits op (.int a) v) := by
  rcases hop with rfl | ⟨rfl, hv⟩
  · exact computes_guarded gen_bits_canon.1 (anyBits_sem vals a v P y)
  · exact computes_guarded gen_bits_canon.2 (allBits_sem vals a v hv P y)

/-- `in` on int and string columns (tables `multiInputFilterFuncs`). -/
theorem gen_kernel_semantics_in_int (vals : List Bytes) (a : Int) (P : KParams) (y c : Cell) :
    Computes (genKernel "icolumn" tabIn "in") .int vals P (.int a) y c (P.ints.contains a) :=
  computes_guarded gen_in_canon.1 (inInt_sem vals a P y c)

theorem gen_kernel_semantics_in_string (vals : List Bytes) (s : Option Bytes) (P : KParams) (y c : Cell) :
    Computes (genKernel "scolumn" tabIn "in") .string vals P (.str s) y c (specInStr P.strs (.str s)) :=
  computes_guarded gen_in_canon.2.1 (inStr_sem vals s P y c)

/-- `in` on an enum column: the bitset built by `in` of the table `multiInputFilterFuncs`, read by `filterWithBitset`. -/
theorem gen_kernel_semantics_in_enum (vals : List Bytes) (hlen : vals.length ≤ 255) (s : Option Bytes)
    (hx : cellOk .enum vals (.str s) = true) (P : KParams) (y c : Cell) :
    ∃ B, genKernel "ecolumn" tabIn "in" = some ("bitset", B) ∧
      Computes (kernelOf "ecolumn" "Column.filterWithBitset") .enum vals { P with bset := bsetOf vals P c B } (.str s) y c
        (specInStr P.strs (.str s)) := by
  refine ⟨_, gen_in_canon.2.2.1, computes_guarded gen_in_canon.2.2.2 ?_⟩
  rw [bitset_sem vals hlen P _ (fun u => P.strs.contains u) c (fun v => by simp [KE.eval, KE.evalV, cellVal]) s hx y]
  cases s <;> rfl

/-- like / ilike on a string column (table `filterFuncs1`; both forward to `regexFilter`, whose term is used with the
caller's arguments). -/
theorem gen_kernel_semantics_like_string (vals : List Bytes) (op : String) (hop : op ∈ ["like", "ilike"]) (s : Option Bytes)
    (v : Bytes) (P : KParams) (y : Cell) :
    Computes (genKernel "scolumn" "filterFuncs1" op) .string vals P (.str s) y (.str (some v)) (specLike P.lo op v (.str s)) := by
  simp only [List.mem_cons, List.not_mem_nil, or_false] at hop
  rcases hop with rfl | rfl
  · refine computes_guarded_pre gen_like_canon.1 ?_
    rw [likeStr_sem]; cases s <;> simp [specLike]
  · refine computes_guarded_pre gen_like_canon.2.1 ?_
    rw [likeStr_sem]; cases s <;> simp [specLike]

/-- like / ilike on an enum column: the bitset built by `like` / `ilike` of `multiFilterFuncs` (both forward to
`filterLike`), read by `filterWithBitset`. -/
theorem gen_kernel_semantics_like_enum (vals : List Bytes) (hlen : vals.length ≤ 255) (op : String) (hop : op ∈ ["like", "ilike"])
    (s : Option Bytes) (hx : cellOk .enum vals (.str s) = true) (v : Bytes) (P : KParams) (y : Cell) :
    ∃ B, genKernel "ecolumn" "multiFilterFuncs" op = some ("bitset+pre", B) ∧
      Computes (kernelOf "ecolumn" "Column.filterWithBitset") .enum vals { P with bset := bsetOf vals P (.str (some v)) B }
        (.str s) y (.str (some v)) (specLike P.lo op v (.str s)) := by
  simp only [List.mem_cons, List.not_mem_nil, or_false] at hop
  rcases hop with rfl | rfl
  · refine ⟨_, gen_like_canon.2.2.1, computes_guarded gen_in_canon.2.2.2 ?_⟩
    rw [bitset_sem vals hlen P _ (fun u => P.lo.isMatch v false u) _ (fun w => by simp [KE.eval, KE.evalV, cellVal, constVal]) s hx y]
    cases s <;> simp [specLike]
  · refine ⟨_, gen_like_canon.2.2.2, computes_guarded gen_in_canon.2.2.2 ?_⟩
    rw [bitset_sem vals hlen P _ (fun u => P.lo.isMatch v true u) _ (fun w => by simp [KE.eval, KE.evalV, cellVal, constVal]) s hx y]
    cases s <;> simp [specLike]

/-- The user's one-argument predicate is applied to the cell as the user sees it (`filterCustom1` of every package). -/
theorem gen_kernel_semantics_custom1 (ty : CType) (hty : ty ∈ tys) (vals : List Bytes) (x : Cell) (hx : cellOk ty vals x = true)
    (P : KParams) (y c : Cell) :
    Computes (kernelOf (pkgOf ty) "Column.filterCustom1") ty vals P x y c (P.fn1 x) := by
  simp only [tys, List.mem_cons, List.not_mem_nil, or_false] at hty
  rcases hty with rfl | rfl | rfl | rfl | rfl
  · exact computes_guarded (gen_custom_canon.1 _ (by simp)).1 (custom1_sem _ (by simp) vals x hx P y c)
  · exact computes_guarded (gen_custom_canon.1 _ (by simp)).1 (custom1_sem _ (by simp) vals x hx P y c)
  · exact computes_guarded (gen_custom_canon.1 _ (by simp)).1 (custom1_sem _ (by simp) vals x hx P y c)
  · cases x <;> simp [cellOk, cellVal] at hx
    exact computes_guarded gen_custom_canon.2.1 (custom1Str_sem vals _ P y c)
  · rcases x with _ | _ | _ | s
    · simp [cellOk, cellVal] at hx
    · simp [cellOk, cellVal] at hx
    · simp [cellOk, cellVal] at hx
    exact computes_guarded gen_custom_canon.2.2.2.1 (custom1Enum_sem vals s hx P y c)

/-- The user's two-argument predicate is applied to the two cells (`filterCustom2` of every package). -/
theorem gen_kernel_semantics_custom2 (ty : CType) (hty : ty ∈ tys) (vals : List Bytes) (x y : Cell) (hx : cellOk ty vals x = true)
    (hy : cellOk ty vals y = true) (P : KParams) (c : Cell) :
    Computes (kernelOf (pkgOf ty) "Column.filterCustom2") ty vals P x y c (P.fn2 x y) := by
  simp only [tys, List.mem_cons, List.not_mem_nil, or_false] at hty
  rcases hty with rfl | rfl | rfl | rfl | rfl
  · exact computes_guarded_pre (gen_custom_canon.1 _ (by simp)).2 (custom2_sem _ (by simp) vals x y hx hy P c)
  · exact computes_guarded_pre (gen_custom_canon.1 _ (by simp)).2 (custom2_sem _ (by simp) vals x y hx hy P c)
  · exact computes_guarded_pre (gen_custom_canon.1 _ (by simp)).2 (custom2_sem _ (by simp) vals x y hx hy P c)
  · cases x <;> simp [cellOk, cellVal] at hx
    cases y <;> simp [cellOk, cellVal] at hy
    exact computes_guarded_pre gen_custom_canon.2.2.1 (custom2Str_sem vals _ _ P c)
  · rcases x with _ | _ | _ | s
    · simp [cellOk, cellVal] at hx
    · simp [cellOk, cellVal] at hx
    · simp [cellOk, cellVal] at hx
    rcases y with _ | _ | _ | t
    · simp [cellOk, cellVal] at hy
    · simp [cellOk, cellVal] at hy
    · simp [cellOk, cellVal] at hy
    exact computes_guarded_pre gen_custom_canon.2.2.2.2 (custom2Enum_sem vals s t hx hy P c)

/-- **The kernels of today's source compute the spec's predicates.** For every column type, every built-in comparator
of the package's constant-argument and column-argument tables, and ALL cells of the type: the kernel the table names,
with the shape and the expression extracted from the source, turns a mask entry `b` into `b || p`, `p` being the
value `leafPred` uses for that leaf (`cmp6 col op …`; `specNull`, `specBits`, `specLike` are the other right-hand sides
of `leafPred`, see `leafPred_*` below). -/
theorem gen_kernel_semantics :
    -- column against constant, the six comparators (`=`, `!=` only for bool)
    (∀ (col : LCol) (op : String), op ∈ cmpOps col.ty → ∀ x k : Cell, cellOk col.ty col.vals x = true →
      constOk col.ty col.vals k = true → ∀ (P : KParams) (y : Cell),
      Computes (genKernel (pkgOf col.ty) (tab1 col.ty) op) col.ty col.vals P x y k (cmp6 col op x k)) ∧
    -- column against column
    (∀ (col : LCol) (op : String), op ∈ cmpOps col.ty → ∀ x y : Cell, cellOk col.ty col.vals x = true →
      cellOk col.ty col.vals y = true → ∀ (P : KParams) (c : Cell),
      Computes (genKernel (pkgOf col.ty) tab2 op) col.ty col.vals P x y c (cmp6 col op x y)) ∧
    -- isnull / isnotnull
    (∀ (col : LCol), col.ty ∈ nullTys → ∀ op ∈ nullOps, ∀ x : Cell, cellOk col.ty col.vals x = true →
      ∀ (P : KParams) (y c : Cell), Computes (genKernel (pkgOf col.ty) tab0 op) col.ty col.vals P x y c (specNull op x)) ∧
    -- the remaining entries of the constant-argument tables: bit tests (int), like / ilike (string)
    (∀ (vals : List Bytes) (op : String) (a v : Int), (op = "any_bits" ∨ (op = "all_bits" ∧ int64 v)) → ∀ (P : KParams) (y : Cell),
      Computes (genKernel "icolumn" "filterFuncs" op) .int vals P (.int a) y (.int v) (specBits op (.int a) v)) ∧
    (∀ (vals : List Bytes), ∀ op ∈ ["like", "ilike"], ∀ (s : Option Bytes) (v : Bytes) (P : KParams) (y : Cell),
      Computes (genKernel "scolumn" "filterFuncs1" op) .string vals P (.str s) y (.str (some v)) (specLike P.lo op v (.str s))) :=
  ⟨gen_kernel_semantics_cmp1, gen_kernel_semantics_cmp2, gen_kernel_semantics_null, gen_kernel_semantics_bits,
   gen_kernel_semantics_like_string⟩

/-! ## The right-hand sides above are `leafPred`'s

`leafPred lo f l` (QF/Spec/Filter.lean) is the spec of one filter leaf. The lemmas `leafPred_*` unfold it for each kind
of argument; `leaf_kernel_*` combine them with `gen_kernel_semantics`: whenever the spec accepts the leaf, the kernel
today's source runs for it computes the spec's row predicate on every row. -/

theorem isOrd6_mem {op : String} (h : isOrd6 op = true) : op ∈ ops6 := by
  simpa [isOrd6, ops6] using h

/-- `leafPred` for a comparison against a constant: whenever the leaf is accepted (and, for an enum column, the
constant is in the value table — otherwise Go does not run a kernel at all) the row predicate is `cmp6` on the row's
cell, and the comparator is one of the type's. -/
theorem leafPred_cell_cmp {lo : LikeOracle} {f : LFrame} {l : Leaf} {c : LCol} {op : String} {k : Cell} {p : Nat → Bool}
    (hc : f.find? l.col = some c) (hcmp : l.cmp = .builtin op) (harg : l.arg = .cell k) (hop : isOrd6 op = true)
    (hk : constOk c.ty c.vals k = true) (hp : leafPred lo f l = some p) :
    op ∈ cmpOps c.ty ∧ ∀ r, p r = cmp6 c op c.cells[r]! k := by
  have hm := isOrd6_mem hop
  unfold leafPred at hp
  simp only [hc, hcmp, harg] at hp
  split at hp
  · rename_i hty; simp [hop] at hp; rw [← hp, hty]; exact ⟨hm, fun _ => rfl⟩
  · rename_i hty
    split at hp
    · simp at hp
    · simp at hp; rw [← hp, hty]; exact ⟨hm, fun _ => rfl⟩
  · rename_i hty; simp at hp; rw [← hp.2, hty]; exact ⟨by simpa [cmpOps] using hp.1, fun _ => rfl⟩
  · rename_i hty; simp [hop] at hp; rw [← hp, hty]; exact ⟨hm, fun _ => rfl⟩
  · rename_i v hty
    obtain ⟨i, hi, _⟩ := enum_const_ok (by rw [hty] at hk; exact hk)
    simp [hop, hi] at hp; rw [← hp, hty]; exact ⟨hm, fun _ => rfl⟩
  · simp at hp

/-- … and therefore the kernel today's source runs for that leaf computes exactly the leaf's row predicate. -/
theorem leaf_kernel_cell {lo : LikeOracle} {f : LFrame} {l : Leaf} {c : LCol} {op : String} {k : Cell} {p : Nat → Bool}
    (hc : f.find? l.col = some c) (hcmp : l.cmp = .builtin op) (harg : l.arg = .cell k) (hop : isOrd6 op = true)
    (hk : constOk c.ty c.vals k = true) (hp : leafPred lo f l = some p)
    (r : Nat) (hx : cellOk c.ty c.vals c.cells[r]! = true) (P : KParams) (y : Cell) :
    Computes (genKernel (pkgOf c.ty) (tab1 c.ty) op) c.ty c.vals P c.cells[r]! y k (p r) := by
  obtain ⟨h1, h2⟩ := leafPred_cell_cmp hc hcmp harg hop hk hp
  rw [h2 r]
  exact gen_kernel_semantics_cmp1 c op h1 _ k hx hk P y

/-- `leafPred` for a comparison against a column of the same type (int against float is promoted by the dispatcher
and then handled by the float kernels). -/
theorem leafPred_col_cmp {lo : LikeOracle} {f : LFrame} {l : Leaf} {c ac : LCol} {op : String} {an : Bytes} {p : Nat → Bool}
    (hc : f.find? l.col = some c) (hcmp : l.cmp = .builtin op) (harg : l.arg = .col an) (hac : f.find? an = some ac)
    (hty : c.ty = ac.ty) (hdef : c.ty ∈ tys) (hp : leafPred lo f l = some p) :
    op ∈ cmpOps c.ty ∧ (c.ty = .enum → c.vals = ac.vals) ∧ ∀ r, p r = cmp6 c op c.cells[r]! ac.cells[r]! := by
  unfold leafPred at hp
  simp only [hc, hcmp, harg, hac] at hp
  have hty' : ac.ty = c.ty := hty.symm
  cases h : c.ty <;> simp [h, hty'] at hp <;> simp [h, tys] at hdef
  · exact ⟨isOrd6_mem hp.1, by simp, fun r => by rw [← hp.2]⟩
  · exact ⟨isOrd6_mem hp.1, by simp, fun r => by rw [← hp.2]⟩
  · exact ⟨by simpa [cmpOps] using hp.1, by simp, fun r => by rw [← hp.2]⟩
  · exact ⟨isOrd6_mem hp.1, by simp, fun r => by rw [← hp.2]⟩
  · exact ⟨isOrd6_mem hp.2.1, fun _ => hp.1, fun r => by rw [← hp.2.2]⟩

theorem cellOk_vals {ty : CType} (h : ty ≠ .enum) (v1 v2 : List Bytes) (x : Cell) : cellOk ty v1 x = cellOk ty v2 x := by
  cases ty <;> cases x <;> simp [cellOk, cellVal] at h ⊢

theorem leaf_kernel_col {lo : LikeOracle} {f : LFrame} {l : Leaf} {c ac : LCol} {op : String} {an : Bytes} {p : Nat → Bool}
    (hc : f.find? l.col = some c) (hcmp : l.cmp = .builtin op) (harg : l.arg = .col an) (hac : f.find? an = some ac)
    (hty : c.ty = ac.ty) (hdef : c.ty ∈ tys) (hp : leafPred lo f l = some p)
    (r : Nat) (hx : cellOk c.ty c.vals c.cells[r]! = true) (hy : cellOk ac.ty ac.vals ac.cells[r]! = true) (P : KParams) (k : Cell) :
    Computes (genKernel (pkgOf c.ty) tab2 op) c.ty c.vals P c.cells[r]! ac.cells[r]! k (p r) := by
  obtain ⟨h1, h2, h3⟩ := leafPred_col_cmp hc hcmp harg hac hty hdef hp
  rw [h3 r]
  refine gen_kernel_semantics_cmp2 c op h1 _ _ hx ?_ P k
  rw [← hty] at hy
  by_cases h : c.ty = .enum
  · rw [h2 h]; exact hy
  · rw [cellOk_vals h c.vals ac.vals]; exact hy

/-- `leafPred` for isnull / isnotnull. -/
theorem leafPred_nil {lo : LikeOracle} {f : LFrame} {l : Leaf} {c : LCol} {op : String} {p : Nat → Bool}
    (hc : f.find? l.col = some c) (hcmp : l.cmp = .builtin op) (harg : l.arg = .nil) (hdef : c.ty ∈ tys)
    (hp : leafPred lo f l = some p) :
    c.ty ∈ nullTys ∧ op ∈ nullOps ∧ ∀ r, p r = specNull op c.cells[r]! := by
  unfold leafPred at hp
  simp only [hc, hcmp, harg] at hp
  have hb : c.ty ∈ nullTys := by
    cases h : c.ty <;> simp [h] at hp <;> simp [h, tys, nullTys] at hdef ⊢
  refine ⟨hb, ?_⟩
  split at hp
  · simp at hp
  · split at hp
    · rename_i h; simp at h hp; subst h; rw [← hp]; simp [nullOps, specNull]
    · split at hp
      · rename_i h1 h; simp at h h1 hp; subst h; rw [← hp]; simp [nullOps, specNull]
      · simp at hp

theorem leaf_kernel_nil {lo : LikeOracle} {f : LFrame} {l : Leaf} {c : LCol} {op : String} {p : Nat → Bool}
    (hc : f.find? l.col = some c) (hcmp : l.cmp = .builtin op) (harg : l.arg = .nil) (hdef : c.ty ∈ tys)
    (hp : leafPred lo f l = some p) (r : Nat) (hx : cellOk c.ty c.vals c.cells[r]! = true) (P : KParams) (y k : Cell) :
    Computes (genKernel (pkgOf c.ty) tab0 op) c.ty c.vals P c.cells[r]! y k (p r) := by
  obtain ⟨h1, h2, h3⟩ := leafPred_nil hc hcmp harg hdef hp
  rw [h3 r]
  exact gen_kernel_semantics_null c h1 op h2 _ hx P y k

/-- `leafPred` for the bit tests of an int column. -/
theorem leafPred_cell_bits {lo : LikeOracle} {f : LFrame} {l : Leaf} {c : LCol} {op : String} {v : Int} {p : Nat → Bool}
    (hc : f.find? l.col = some c) (hcmp : l.cmp = .builtin op) (harg : l.arg = .cell (.int v)) (hty : c.ty = .int)
    (hop : op = "any_bits" ∨ op = "all_bits") (hp : leafPred lo f l = some p) (r : Nat) :
    p r = specBits op c.cells[r]! v := by
  unfold leafPred at hp
  simp only [hc, hcmp, harg, hty] at hp
  rcases hop with rfl | rfl <;> simp [isOrd6] at hp <;> rw [← hp] <;> simp [specBits] <;>
  generalize c.cells[r]! = x <;> cases x <;> rfl

theorem leaf_kernel_bits {lo : LikeOracle} {f : LFrame} {l : Leaf} {c : LCol} {op : String} {v : Int} {p : Nat → Bool}
    (hc : f.find? l.col = some c) (hcmp : l.cmp = .builtin op) (harg : l.arg = .cell (.int v)) (hty : c.ty = .int)
    (hop : op = "any_bits" ∨ op = "all_bits") (hv : int64 v) (hp : leafPred lo f l = some p)
    (r : Nat) (hx : cellOk c.ty c.vals c.cells[r]! = true) (P : KParams) (y : Cell) :
    Computes (genKernel "icolumn" "filterFuncs" op) .int c.vals P c.cells[r]! y (.int v) (p r) := by
  rw [leafPred_cell_bits hc hcmp harg hty hop hp r]
  rw [hty] at hx
  cases hcell : c.cells[r]! <;> rw [hcell] at hx <;> simp [cellOk, cellVal] at hx
  exact gen_kernel_semantics_bits c.vals op _ v (hop.imp id (fun h => ⟨h, hv⟩)) P y

/-- `leafPred` for like / ilike on a string or enum column. -/
theorem leafPred_cell_like {lo : LikeOracle} {f : LFrame} {l : Leaf} {c : LCol} {op : String} {v : Bytes} {p : Nat → Bool}
    (hc : f.find? l.col = some c) (hcmp : l.cmp = .builtin op) (harg : l.arg = .cell (.str (some v)))
    (hty : c.ty = .string ∨ c.ty = .enum) (hop : op = "like" ∨ op = "ilike") (hp : leafPred lo f l = some p) (r : Nat) :
    p r = specLike lo op v c.cells[r]! := by
  unfold leafPred at hp
  simp only [hc, hcmp, harg] at hp
  rcases hty with hty | hty <;> simp only [hty] at hp <;>
  rcases hop with rfl | rfl <;> simp [isOrd6] at hp <;> rw [← hp.2] <;> simp [specLike] <;>
  generalize c.cells[r]! = x <;> rcases x with _ | _ | _ | (_ | _) <;> rfl

/-- `leafPred` for `in` with a list of ints / strings. -/
theorem leafPred_ints {lo : LikeOracle} {f : LFrame} {l : Leaf} {c : LCol} {op : String} {vs : List Int} {p : Nat → Bool}
    (hc : f.find? l.col = some c) (hcmp : l.cmp = .builtin op) (harg : l.arg = .ints vs) (hp : leafPred lo f l = some p) :
    c.ty = .int ∧ op = "in" ∧ ∀ r, p r = (match c.cells[r]! with | .int x => vs.contains x | _ => false) := by
  unfold leafPred at hp
  simp only [hc, hcmp, harg] at hp
  split at hp
  · rename_i h; simp at h hp; exact ⟨h.1, h.2, fun r => by rw [← hp]; simp only; generalize c.cells[r]! = x; cases x <;> simp⟩
  · simp at hp

theorem leafPred_strs {lo : LikeOracle} {f : LFrame} {l : Leaf} {c : LCol} {op : String} {vs : List Bytes} {p : Nat → Bool}
    (hc : f.find? l.col = some c) (hcmp : l.cmp = .builtin op) (harg : l.arg = .strs vs) (hp : leafPred lo f l = some p) :
    (c.ty = .string ∨ c.ty = .enum) ∧ op = "in" ∧ ∀ r, p r = specInStr vs c.cells[r]! := by
  unfold leafPred at hp
  simp only [hc, hcmp, harg] at hp
  split at hp
  · rename_i h; simp at h hp; exact ⟨h.1, h.2, fun r => by
      rw [← hp]; simp only [specInStr]; generalize c.cells[r]! = x; rcases x with _ | _ | _ | (_ | _) <;> simp⟩
  · simp at hp


/-! ## The statement is not vacuous -/

section Examples

/-- today's list with `<` replaced by `<=` in `lt` of icolumn (what the extractor produces for that change, see the
self-test in the report) -/
def mutatedLt : KList :=
  Gen.kernelAst.map (fun k => if k.1 = "icolumn" ∧ k.2.1 = "lt" then (k.1, k.2.1, k.2.2.1, KE.cmp "<=" .cell .const) else k)

/-- the finite check fails on the mutated list … -/
example : genKernelIn mutatedLt "icolumn" "filterFuncs" "<" ≠ some ("guarded", canon1 .int "<") := by decide

def intCol : LCol := { name := [], ty := .int, cells := #[] }

/-- … and so does the statement itself: on the cell 0 and the constant 0 the mutated kernel sets the entry, the spec
does not. -/
example : ¬ ∀ (x k : Cell), cellOk .int [] x = true → constOk .int [] k = true →
    Computes (genKernelIn mutatedLt "icolumn" "filterFuncs" "<") .int [] {} x (.int 0) k (cmp6 intCol "<" x k) := by
  intro h
  obtain ⟨sh, ast, hk, hb⟩ := h (.int 0) (.int 0) rfl rfl
  have hm : genKernelIn mutatedLt "icolumn" "filterFuncs" "<" = some ("guarded", KE.cmp "<=" .cell .const) := by decide
  rw [hm] at hk
  simp only [Option.some.injEq, Prod.mk.injEq] at hk
  obtain ⟨rfl, rfl⟩ := hk
  exact absurd (hb false) (by decide)

def strCol : LCol := { name := [], ty := .string, cells := #[] }

/-- dropping the null test of the string `lt`: a null cell reads as `""`, which is smaller than `"a"` -/
example : (KE.cmp "<" .cell .const).eval .string [] {} (.str none) (.str none) (.str (some [97]))
    ≠ some (cmp6 strCol "<" (.str none) (.str (some [97]))) := by decide

/-- swapping the operands of the float `lt` -/
example : (KE.cmp "<" .const .cell).eval .float [] {} (.float 0) (.float 0) (.float 0x3ff0000000000000)
    ≠ some (cmp6 { strCol with ty := .float } "<" (.float 0) (.float 0x3ff0000000000000)) := by decide

/-- comparing the raw `enumVal`s instead of `compVal()` without the null test: null (255) is above every rank -/
example : (KE.cmp ">" .cell .const).eval .enum [[97]] {} (.str none) (.str none) (.str (some [97]))
    ≠ some (cmp6 { strCol with ty := .enum, vals := [[97]] } ">" (.str none) (.str (some [97]))) := by decide

/-- an untranslated kernel has no meaning: nothing is `Computes`d -/
example : ¬ Computes (some ("guarded", KE.opaque "f(x)")) .int [] {} (.int 0) (.int 0) (.int 0) true := by
  rintro ⟨sh, ast, hk, hb⟩
  simp only [Option.some.injEq, Prod.mk.injEq] at hk
  obtain ⟨rfl, rfl⟩ := hk
  exact absurd (hb false) (by decide)

/-- the overwriting int `isnull` of the original source (`for i := range bIndex { bIndex[i] = false }`) would not pass:
it clears entries set by earlier filters of an OR group -/
example : kstep "unguarded" ((KE.lit false).eval .int [] {} (.int 0) (.int 0) (.int 0)) true ≠ some (true || specNull "isnull" (.int 0)) := by
  decide

end Examples

end QF.Props.C02Kernels
