import QF.Gen.EvalFns
import QF.Gen.ExprDecode
import QF.Props.C07Eval
/-!
# C07 — the expression EXECUTION of today's expression.go and `QFrame.Eval` are the mirror's (tie T1, by semantics)

`QF.Gen.evalFns` (regenerated on every run by go/cmd/extract/evalast.go) holds the `execute` methods of the eight expression
structs of /repo/expression.go (`getFunc` and the constructors they call on the spot inlined) and `QFrame.Eval` as decision
trees of the language `QF.EV` (QF/Core/EVExpr.lean); `QF.Gen.tempColNameAst` is `tempColName`. `EV.interp` / `EV.interpEval`
are the Go meaning of such terms: calls on frames (`Apply(Instruction{…})`, `Drop`, `Copy`, `Contains`, `functionType`,
`withErr`), `ctx.GetFunc` and the temp-name function are primitives whose meaning is the frame mirror's (`Fr.applyConst` /
`apply1` / `apply2`, `C08.drop`, `C08.copy`, `Fr.contains`, the name map, `Fr.Ctx`). Proved here, over the terms generated TODAY:

* `gen_missingcol_semantics` — today's `missingCol` (regenerated as `Gen.missingColAst`, language `EV.EMiss`: the type switch
  by struct role, the column fields by type and declaration order, the recursion into the `Expression` fields, the final
  loop) returns, for every expression tree and frame, the FIRST column reference of the tree, in left-to-right order, that is
  not a column of the frame, and `("", false)` when every reference is a column. `Eval` calls it right after the `qf.Err`
  guard and answers with an error when a column is missing: column references are resolved against the frame `Eval` is
  called on, never against temporaries (the repair of the temp-name capture found in C07EndToEnd).
* `gen_eval_no_opaque` — everything was understood.
* `gen_eval_canon` — finite `decide`: today's terms are the canonical terms `canonFns` / `canonTemp` written out below.
  Insensitive to names of locals, fields, methods and helper functions and to how the helpers are split; sensitive to
  every test, to the order of the calls, to every argument of `Instruction`, `Drop`, `Copy`, `GetFunc`, to the prefixes, the
  bounds and the pieces of the temp name.
* `gen_temp_semantics` / `gen_temp_no_panic` — `tempColName` tries `prefix-temp-0 … prefix-temp-9999` in order and returns
  the first that is not a column; it panics only if all 10000 are columns, which a well-formed frame with fewer than 10000
  columns excludes. (`ETmp.name` writes "PANIC" for the panic, as the hand mirror `Fr.tempColName` does.)
* `gen_eval_semantics` — for EVERY expression tree, frame and context the interpretation of today's `execute` methods
  returns exactly what the hand mirror `C07Eval.execute'` returns: the frame (columns, order, cells, index, error) and the
  column name; `gen_eval_semantics_eval`: the same for `QFrame.Eval` and `C07Eval.eval'`; `gen_eval_semantics_decoded`: in
  particular for every tree the regenerated decoder `Gen.newExprAst` returns.
* `gen_eval_bookkeeping` — `C07Eval.eval'_bookkeeping` for the regenerated code: a successful `Eval(dst, e)` leaves the
  columns of the original frame in place (name, position, type, cells), `dst` holds the computed column (in its old position
  or appended last), no other column exists afterwards — every temp column created on the way has been dropped — and
  the row index is unchanged. `gen_eval_error_propagates`: a failed frame is returned as it is by every method, and the
  error of a sub-expression's result is the error of the enclosing expression's result and of `Eval`'s.
* witnesses: four mutations of the code (the `Drop` of the constant's temp column removed; `result.Contains` for
  `qf.Contains` in `exprExpr2`; the operands of the `colColExpr` built by `exprExpr2` swapped; `constFirst` ignored) as
  terms: each differs from the canonical term and returns a different result on a concrete expression and frame.

Modelling notes. (1) `Apply` of one instruction chooses the mirror's form by the kind of `Fn` (`EV.applyI`), the Go code by
the emptiness of `SrcCol1` / `SrcCol2`; the two coincide unless a column is named `""`, which `CheckName` excludes.
(2) The panic of `tempColName` is the string "PANIC", as in the mirror. (3) errors are `Fr.Err` kinds: `functionType`'s is
`.unknownCol` (kept by `Propagate`), errors built with `qerrors.New` and the error field of `errorExpr` are `.other`.
-/
namespace QF.Props.C07EvalGen
open QF.EV Fr QF.Props.C08 QF.Props.C07Eval

/-! ## 1. canonical terms -/

/-- `if f.Err != nil { return f, "" }; k` -/
def failedElse (f : ET) (k : EP) : EP := EP.ite (EC.notNil (ET.errOf f)) (EP.ret f (ET.str "")) k

/-- `colName := tempColName(f, pre); return f.Apply(Instruction{Fn: fn, DstCol: colName, SrcCol1: s1, SrcCol2: s2}), colName` -/
def applyTemp (f fn : ET) (pre : String) (s1 s2 : ET) : EP :=
  EP.ret (ET.apply f fn (ET.temp f (ET.str pre)) s1 s2) (ET.temp f (ET.str pre))

/-- `qf.withErr(qerrors.Propagate(…, err))` for the error of `qf.functionType(<first column field>)` -/
def noCol : ET := ET.withErr ET.qf (ET.propagate (ET.fnTypeErr ET.qf (ET.srcF 0)))
/-- `qf.withErr(qerrors.New(…))` -/
def noFn : ET := ET.withErr ET.qf ET.newErr

/-- `qf, fn := getFunc(ctx, ar, qf, <first column field>, <operation>)` inlined, `if qf.Err != nil { return qf, "" }`, then the
temp column and `Apply` -/
def funcLeaf (ar : Arity) (pre : String) (s2 : ET) : EP :=
  failedElse ET.qf
    (EP.ite (EC.notNil (ET.fnTypeErr ET.qf (ET.srcF 0)))
      (failedElse noCol (applyTemp noCol ET.nilV pre (ET.srcF 0) s2))
      (EP.ite (EC.gotFn ar ET.qf (ET.srcF 0) ET.opF)
        (applyTemp ET.qf (ET.getFn ar ET.qf (ET.srcF 0) ET.opF) pre (ET.srcF 0) s2)
        (failedElse noFn (applyTemp noFn ET.nilV pre (ET.srcF 0) s2))))

def canonCol : EP := EP.ret ET.qf (ET.srcF 0)
def canonConst : EP := failedElse ET.qf (applyTemp ET.qf ET.valueF "const" (ET.str "") (ET.str ""))
def canonUnary : EP := funcLeaf .one "unary" (ET.str "")
def canonColCol : EP := funcLeaf .two "colcol" (ET.srcF 1)

/-- `ccE, _ := newColColExpr([]interface{}{op, a, b}); result, colName := ccE.execute(result, ctx);
result = result.Drop(constColName); return result, colName` -/
def colColThenDrop (a b : ET) : EP :=
  EP.exec (ET.mkColCol ET.opF a b) (ET.outF 0) (EP.ret (ET.drop1 (ET.outF 1) (ET.outN 0)) (ET.outN 1))

def canonColConst : EP :=
  failedElse ET.qf
    (EP.exec (ET.mkConst (ET.orNull ET.valueF)) ET.qf
      (EP.ite (EC.flag ET.flagF) (colColThenDrop (ET.outN 0) (ET.srcF 0)) (colColThenDrop (ET.srcF 0) (ET.outN 0))))

def canonEx1 : EP :=
  EP.exec (ET.subF 0) ET.qf
    (EP.exec (ET.mkUnary ET.opF (ET.outN 0)) (ET.outF 0)
      (EP.ite (EC.contains ET.qf (ET.outN 0)) (EP.ret (ET.outF 1) (ET.outN 1))
        (EP.ret (ET.drop1 (ET.outF 1) (ET.outN 0)) (ET.outN 1))))

def canonEx2 : EP :=
  EP.exec (ET.subF 0) ET.qf
    (EP.exec (ET.subF 1) (ET.outF 0)
      (EP.exec (ET.mkColCol ET.opF (ET.outN 0) (ET.outN 1)) (ET.outF 1)
        (EP.ite (EC.contains ET.qf (ET.outN 0))
          (EP.ite (EC.contains ET.qf (ET.outN 1)) (EP.ret (ET.drop0 (ET.outF 2)) (ET.outN 2))
            (EP.ret (ET.drop1 (ET.outF 2) (ET.outN 1)) (ET.outN 2)))
          (EP.ite (EC.contains ET.qf (ET.outN 1)) (EP.ret (ET.drop1 (ET.outF 2) (ET.outN 0)) (ET.outN 2))
            (EP.ret (ET.drop2 (ET.outF 2) (ET.outN 0) (ET.outN 1)) (ET.outN 2))))))

def canonError : EP := failedElse ET.qf (EP.ret (ET.withErr ET.qf ET.errF) (ET.str ""))

/-- `result, col := expr.execute(qf, conf.Ctx); result = result.Copy(dstCol, colName);
if !qf.Contains(colName) && colName != dstCol { result = result.Drop(colName) }; return result` -/
def evalTail : EP :=
  EP.exec ET.exprP ET.qf
    (EP.ite (EC.and (EC.not (EC.contains ET.qf (ET.outN 0))) (EC.not (EC.strEq (ET.outN 0) ET.dstP)))
      (EP.retF (ET.drop1 (ET.copy (ET.outF 0) ET.dstP (ET.outN 0)) (ET.outN 0)))
      (EP.retF (ET.copy (ET.outF 0) ET.dstP (ET.outN 0))))

/-- `if qf.Err != nil { return qf }; if col, missing := missingCol(expr, qf); missing { return qf.withErr(qerrors.New(…)) }; …` -/
def canonEval : EP :=
  EP.ite (EC.notNil (ET.errOf ET.qf)) (EP.retF ET.qf)
    (EP.ite (EC.missing ET.exprP ET.qf) (EP.retF (ET.withErr ET.qf ET.newErr)) evalTail)

/-- `Eval` as it was before the repair: no check of the column references -/
def oldEval : EP := EP.ite (EC.notNil (ET.errOf ET.qf)) (EP.retF ET.qf) evalTail

def canonFns : Progs := [
  (.exec .col, canonCol), (.exec .const, canonConst), (.exec .unary, canonUnary), (.exec .colConst, canonColConst),
  (.exec .colCol, canonColCol), (.exec .ex1, canonEx1), (.exec .ex2, canonEx2), (.exec .error, canonError),
  (.eval, canonEval)]

def canonTemp : ETmp := .search 0 10000 [.pre, .lit "-temp-", .itoa]

/-- `missingCol`: the column fields of `colExpr`, `unaryExpr`, `colConstExpr`, `colColExpr` (both, in declaration order);
`exprExpr1` / `exprExpr2` recurse into their operands, left before right; `constExpr`, `errorExpr`: no clause -/
def canonClauses : List (Role × EMClause) :=
  [(.col, .cols [0]), (.unary, .cols [0]), (.colConst, .cols [0]), (.colCol, .cols [0, 1]),
   (.ex1, .recur [0]), (.ex2, .recur [0, 1])]
def canonMiss : EMiss := .scan canonClauses

/-- **`gen_eval_no_opaque`.** -/
theorem gen_eval_no_opaque :
    (Gen.evalFns.all (fun p => !p.2.hasOpaque) && !Gen.tempColNameAst.hasOpaque && !Gen.missingColAst.hasOpaque) = true := by
  decide

/-- **`gen_eval_canon`.** -/
theorem gen_eval_canon : Gen.evalFns = canonFns ∧ Gen.tempColNameAst = canonTemp ∧ Gen.missingColAst = canonMiss := by
  decide

/-! ## 2. the temp-name function -/

theorem joinPieces_canon (pre : String) (i : Nat) :
    joinPieces pre i [.pre, .lit "-temp-", .itoa] = tempName pre i := rfl

theorem canonTemp_run (f : Frame) (pre : String) :
    canonTemp.run f pre =
      ((List.range 10000).find? (fun i => (f.byName (tempName pre i)).isNone)).map (tempName pre) := by
  simp only [canonTemp, ETmp.run, joinPieces_canon, Nat.sub_zero, Nat.zero_add, Fr.contains, Option.not_isSome]

theorem canonTemp_name (f : Frame) (pre : String) : canonTemp.name f pre = Fr.tempColName f pre := by
  unfold ETmp.name
  rw [canonTemp_run]
  unfold Fr.tempColName tempName
  cases (List.range 10000).find? (fun i => (f.byName (pre ++ "-temp-" ++ natStr i)).isNone) <;> rfl

/-- **`gen_temp_semantics`.** Today's `tempColName(f, pre)` returns `pre-temp-k` for the first `k` in `0 … 9999` that is not a
column of `f`, and panics (`none`) exactly when there is no such `k`. -/
theorem gen_temp_semantics (f : Frame) (pre : String) :
    Gen.tempColNameAst.run f pre =
      ((List.range 10000).find? (fun i => (f.byName (tempName pre i)).isNone)).map (tempName pre) := by
  rw [gen_eval_canon.2.1]; exact canonTemp_run f pre

/-- **`gen_temp_no_panic`.** On a well-formed frame with fewer than 10000 columns today's `tempColName` returns a name that is
not a column. -/
theorem gen_temp_no_panic (f : Frame) (L : Nat) (wf : WF f L) (pre : String) (hlt : f.cols.length < 10000) :
    ∃ k, k < 10000 ∧ Gen.tempColNameAst.run f pre = some (tempName pre k) ∧ f.byName (tempName pre k) = none ∧
      (∀ j, j < k → (f.byName (tempName pre j)).isSome = true) := by
  obtain ⟨k, hk, hf, _, hn, hj, _⟩ := tempColName_fresh f L wf pre hlt
  refine ⟨k, hk, ?_, ?_, hj⟩
  · rw [gen_temp_semantics, hf]; rfl
  · have := tempColName_of_find f pre k hf
    rw [← this]; exact hn

/-! ## 3. the meaning of the canonical terms -/

/-- `Drop` and `Copy` as QF/Props/C08Project.lean mirrors them -/
def prims : Prims := { drop := C08.drop, copy := C08.copy }

/-- `Ex'` as a receiver value -/
def toNode : Ex' → Node
  | .col n => .col n
  | .const v => .const v
  | .unary op s => .unary op s
  | .colConst op s v cf => .colConst op s v cf
  | .colCol op a b => .colCol op a b
  | .ex1 op e => .ex1 op (toNode e)
  | .ex2 op l r => .ex2 op (toNode l) (toNode r)
  | .error => .error

abbrev call (ctx : Ctx) (subs : List (Frame → Option EV.Res)) : Nat → Node → Frame → Option EV.Res :=
  callAt prims canonFns Fr.tempColName ctx subs

theorem callAt_succ (pr : Prims) (P : Progs) (tmp : Frame → String → String) (ctx : Ctx)
    (subs : List (Frame → Option EV.Res)) (n : Nat) (node : Node) (f : Frame) :
    callAt pr P tmp ctx subs (n + 1) node f =
      match P.lookup (.exec node.role) with
      | some p =>
        p.run { prims := pr, ctx := ctx, temp := tmp, recv := node, qf := f, dst := "",
                exec := callAt pr P tmp ctx subs n, subs := subs } []
      | none => none := rfl

theorem prims_drop : prims.drop = drop := rfl
theorem prims_copy : prims.copy = copy := rfl

theorem lookup_col : canonFns.lookup (.exec .col) = some canonCol := by decide
theorem lookup_const : canonFns.lookup (.exec .const) = some canonConst := by decide
theorem lookup_unary : canonFns.lookup (.exec .unary) = some canonUnary := by decide
theorem lookup_colConst : canonFns.lookup (.exec .colConst) = some canonColConst := by decide
theorem lookup_colCol : canonFns.lookup (.exec .colCol) = some canonColCol := by decide
theorem lookup_ex1 : canonFns.lookup (.exec .ex1) = some canonEx1 := by decide
theorem lookup_ex2 : canonFns.lookup (.exec .ex2) = some canonEx2 := by decide
theorem lookup_error : canonFns.lookup (.exec .error) = some canonError := by decide
theorem lookup_eval : canonFns.lookup .eval = some canonEval := by decide

theorem call_col (ctx : Ctx) (subs) (n : Nat) (c : String) (f : Frame) :
    call ctx subs (n + 1) (.col c) f = some (f, c) := by
  simp only [call, callAt, Node.role, lookup_col, canonCol, EP.run, ET.eval]

theorem call_const (ctx : Ctx) (subs) (n : Nat) (v : Fr.Val) (f : Frame) :
    call ctx subs (n + 1) (.const v) f = some (execConst v f) := by
  simp only [call, callAt, Node.role, lookup_const, canonConst, failedElse, applyTemp, EP.run, EC.eval, ET.eval, applyI,
    execConst]
  cases f.err.isSome <;> simp

theorem call_error (ctx : Ctx) (subs) (n : Nat) (f : Frame) :
    call ctx subs (n + 1) .error f = some (execute' ctx .error f) := by
  simp only [call, callAt, Node.role, lookup_error, canonError, failedElse, EP.run, EC.eval, ET.eval, execute']
  cases f.err.isSome <;> simp

theorem call_unary (ctx : Ctx) (subs) (n : Nat) (op src : String) (f : Frame) :
    call ctx subs (n + 1) (.unary op src) f = some (execUnary ctx op src f) := by
  simp only [call, callAt, Node.role, lookup_unary, canonUnary, funcLeaf, failedElse, applyTemp, noCol, noFn, EP.run,
    EC.eval, ET.eval, applyI, execUnary]
  cases f.err.isSome
  · cases hs : f.byName src with
    | none => simp
    | some s =>
      cases hf : ctx.fn1 s.col.ty op with
      | none => simp [hf]
      | some p => obtain ⟨rty, fn⟩ := p; simp [hf]
  · simp

theorem call_colCol (ctx : Ctx) (subs) (n : Nat) (op a b : String) (f : Frame) :
    call ctx subs (n + 1) (.colCol op a b) f = some (execColCol ctx op a b f) := by
  simp only [call, callAt, Node.role, lookup_colCol, canonColCol, funcLeaf, failedElse, applyTemp, noCol, noFn, EP.run,
    EC.eval, ET.eval, applyI, execColCol]
  cases f.err.isSome
  · cases hs : f.byName a with
    | none => simp
    | some s =>
      cases hf : ctx.fn2 s.col.ty op with
      | none => simp [hf]
      | some fn => simp [hf]
  · simp

theorem call_colConst (ctx : Ctx) (subs) (n : Nat) (op src : String) (v : Fr.Val) (cf : Bool) (f : Frame) :
    call ctx subs (n + 2) (.colConst op src v cf) f = some (execColConst ctx op src v cf f) := by
  have hc := call_const ctx subs n
  have hcc := call_colCol ctx subs n
  simp only [call] at hc hcc
  simp only [call]
  rw [callAt_succ]
  simp only [Node.role, lookup_colConst, canonColConst, colColThenDrop, failedElse, EP.run, EC.eval,
    ET.eval, execColConst, prims_drop]
  cases f.err.isSome
  · cases cf <;> simp [hc, hcc]
  · simp

theorem call_ex1 (ctx : Ctx) (n : Nat) (op : String) (e : Node) (h : Frame → Option EV.Res) (E : Frame → EV.Res)
    (hh : ∀ g, h g = some (E g)) (f : Frame) :
    call ctx [h] (n + 2) (.ex1 op e) f =
      some (drop (execUnary ctx op (E f).2 (E f).1).1 (dropList f [(E f).2]), (execUnary ctx op (E f).2 (E f).1).2) := by
  have hu := call_unary ctx [h] n
  simp only [call] at hu
  simp only [call]
  rw [callAt_succ]
  simp only [Node.role, lookup_ex1, canonEx1, EP.run, EC.eval, ET.eval, prims_drop]
  simp only [List.getElem?_cons_zero, List.nil_append, List.cons_append, hu, List.getElem?_cons_succ, Option.map_some, hh]
  rw [drop_dropList_single]
  cases hc : contains f (E f).2 <;> simp

theorem call_ex2 (ctx : Ctx) (n : Nat) (op : String) (l r : Node) (h1 h2 : Frame → Option EV.Res) (E1 E2 : Frame → EV.Res)
    (hh1 : ∀ g, h1 g = some (E1 g)) (hh2 : ∀ g, h2 g = some (E2 g)) (f : Frame) :
    call ctx [h1, h2] (n + 2) (.ex2 op l r) f =
      some (drop (execColCol ctx op (E1 f).2 (E2 (E1 f).1).2 (E2 (E1 f).1).1).1
              (dropList f [(E1 f).2, (E2 (E1 f).1).2]),
            (execColCol ctx op (E1 f).2 (E2 (E1 f).1).2 (E2 (E1 f).1).1).2) := by
  have hcc := call_colCol ctx [h1, h2] n
  simp only [call] at hcc
  simp only [call]
  rw [callAt_succ]
  simp only [Node.role, lookup_ex2, canonEx2, EP.run, EC.eval, ET.eval, prims_drop]
  simp only [List.getElem?_cons_zero, List.nil_append, List.cons_append, hcc, List.getElem?_cons_succ, Option.map_some,
    hh1, hh2]
  cases h1c : contains f (E1 f).2 <;> cases h2c : contains f (E2 (E1 f).1).2 <;> simp [dropList, h1c, h2c, drop_nil]

/-- the interpretation of the canonical methods is the mirror, for every expression tree -/
theorem canon_execute (ctx : Ctx) (e : Ex') :
    ∀ f : Frame, interp prims canonFns Fr.tempColName ctx (toNode e) f = some (execute' ctx e f) := by
  induction e with
  | col n => intro f; exact call_col ctx [] 2 n f
  | const v => intro f; exact call_const ctx [] 2 v f
  | unary op s => intro f; exact call_unary ctx [] 2 op s f
  | colConst op s v cf => intro f; exact call_colConst ctx [] 1 op s v cf f
  | colCol op a b => intro f; exact call_colCol ctx [] 2 op a b f
  | error => intro f; exact call_error ctx [] 2 f
  | ex1 op e ih =>
    intro f
    exact call_ex1 ctx 1 op (toNode e) _ (fun g => execute' ctx e g) ih f
  | ex2 op l r ihl ihr =>
    intro f
    exact call_ex2 ctx 1 op (toNode l) (toNode r) _ _ (fun g => execute' ctx l g) (fun g => execute' ctx r g) ihl ihr f

theorem step_ex1 (op : String) (n : Node) (h : Frame → Option (Option String)) (f : Frame) :
    EMiss.step canonClauses (.ex1 op n) [h] f = h f := by
  have hl : canonClauses.lookup Role.ex1 = some (.recur [0]) := by decide
  simp [EMiss.step, Node.role, hl, Node.subCount, firstFound]

theorem step_ex2 (op : String) (l r : Node) (h1 h2 : Frame → Option (Option String)) (f : Frame) :
    EMiss.step canonClauses (.ex2 op l r) [h1, h2] f =
      (match h1 f with
       | none => none
       | some (some c) => some (some c)
       | some none => h2 f) := by
  have hl : canonClauses.lookup Role.ex2 = some (.recur [0, 1]) := by decide
  simp [EMiss.step, Node.role, hl, Node.subCount, firstFound]
  cases h1 f with
  | none => rfl
  | some o => cases o <;> rfl

/-- the canonical `missingCol` is the mirror's `missing`, for every expression tree -/
theorem canon_miss (e : Ex') : ∀ f : Frame, canonMiss.run (toNode e) f = some (missing e f) := by
  induction e with
  | ex1 op e ih =>
    intro f
    simp only [toNode, canonMiss, EMiss.run, EMiss.scanRun] at ih ⊢
    rw [step_ex1, ih]; rfl
  | ex2 op l r ihl ihr =>
    intro f
    simp only [toNode, canonMiss, EMiss.run, EMiss.scanRun] at ihl ihr ⊢
    rw [step_ex2, ihl, ihr]
    simp only [missing]
    cases missing l f <;> rfl
  | col n => intro f; rfl
  | const v => intro f; rfl
  | unary op s => intro f; rfl
  | colConst op s v cf => intro f; rfl
  | colCol op a b => intro f; rfl
  | error => intro f; rfl

theorem canon_eval (ctx : Ctx) (f : Frame) (dst : String) (e : Ex') :
    interpEval prims canonFns Fr.tempColName canonMiss.run ctx f dst (toNode e) = some (eval' ctx f dst e) := by
  simp only [interpEval, lookup_eval, canonEval, evalTail, EP.run, EC.eval, ET.eval, prims_drop, prims_copy, eval',
    evalEpilogue, List.getElem?_cons_zero, Option.bind_some, canon_miss, Option.map_some]
  cases f.err.isSome
  · cases (missing e f).isSome
    · simp only [canon_execute, List.nil_append, Option.map_some, Bool.false_eq_true, ↓reduceIte, List.getElem?_cons_zero]
      cases contains f (execute' ctx e f).2 <;> cases h : ((execute' ctx e f).2 == dst) <;> simp [bne, h]
    · simp [withErr]
  · simp

theorem temp_eq : Gen.tempColNameAst.name = Fr.tempColName := by
  funext f pre; rw [gen_eval_canon.2.1]; exact canonTemp_name f pre

/-! ## 4. today's code -/

/-- `e.execute(f, ctx)` by today's regenerated methods -/
def genExecute (ctx : Ctx) (e : Ex') (f : Frame) : Option EV.Res :=
  interp prims Gen.evalFns Gen.tempColNameAst.name ctx (toNode e) f

/-- `f.Eval(dst, e)` with the context `ctx`, by today's regenerated code -/
def genEval (ctx : Ctx) (f : Frame) (dst : String) (e : Ex') : Option Frame :=
  interpEval prims Gen.evalFns Gen.tempColNameAst.name Gen.missingColAst.run ctx f dst (toNode e)

/-- **`gen_eval_semantics`.** For every expression tree, frame and evaluation context, interpreting today's `execute`
methods (with today's `getFunc`, `tempColName` and constructors) yields exactly the hand mirror's result: the result frame
(columns, order, cells, row index, error) and the returned column name. -/
theorem gen_eval_semantics (ctx : Ctx) (e : Ex') (f : Frame) : genExecute ctx e f = some (execute' ctx e f) := by
  unfold genExecute
  rw [gen_eval_canon.1, temp_eq]
  exact canon_execute ctx e f

/-- **`gen_eval_semantics_eval`.** The same for `QFrame.Eval`: today's code returns exactly the mirror's `eval'`. -/
theorem gen_eval_semantics_eval (ctx : Ctx) (f : Frame) (dst : String) (e : Ex') :
    genEval ctx f dst e = some (eval' ctx f dst e) := by
  unfold genEval
  rw [gen_eval_canon.1, temp_eq, gen_eval_canon.2.2]
  exact canon_eval ctx f dst e

/-- **`gen_missingcol_semantics`.** Today's regenerated `missingCol`, on every expression tree and frame, returns the first
column reference of the tree, in left-to-right order (`refs`), that is not a column of the frame — `(c, true)` — and
`("", false)` when every reference is a column (`none`). It always has a meaning: nothing untranslated, no panic. -/
theorem gen_missingcol_semantics (e : Ex') (f : Frame) :
    Gen.missingColAst.run (toNode e) f = some ((refs e).find? fun n => !Fr.contains f n) := by
  rw [gen_eval_canon.2.2, canon_miss, missing_eq_find]

/-- what `Eval` does with the answer: a missing column reference is an error of the frame `Eval` was called on, and nothing
is executed; otherwise (every reference is a column of the frame) `Eval` executes the expression and renames the result -/
theorem gen_eval_guard (ctx : Ctx) (f : Frame) (dst : String) (e : Ex') (he : f.err = none) :
    (∀ c, (refs e).find? (fun n => !Fr.contains f n) = some c → genEval ctx f dst e = some (withErr f .other)) ∧
    ((refs e).find? (fun n => !Fr.contains f n) = none →
      genEval ctx f dst e = some (evalEpilogue f dst (execute' ctx e f).1 (execute' ctx e f).2)) := by
  rw [gen_eval_semantics_eval, ← missing_eq_find]
  constructor
  · intro c hc; simp [eval', he, hc]
  · intro hc; simp [eval', he, hc]

/-- a constant of the spec as a value of the frame mirror -/
def cellVal : QF.Cell → Fr.Val
  | .int v => .int v
  | .float b => .float b
  | .bool b => .bool b
  | .str s => .str s

/-- a decoded struct (QF/Core/XExpr.lean) as the mirror's expression; `nm`: byte strings as the mirror's `String`s -/
def ofXDec (nm : QF.Bytes → String) : QF.XDec → Ex'
  | .col n => .col (nm n)
  | .const c => .const (cellVal c)
  | .unary op s => .unary (nm op) (nm s)
  | .colConst op s c cf => .colConst (nm op) (nm s) (cellVal c) cf
  | .colCol op a b => .colCol (nm op) (nm a) (nm b)
  | .ex1 op e => .ex1 (nm op) (ofXDec nm e)
  | .ex2 op l r => .ex2 (nm op) (ofXDec nm l) (ofXDec nm r)
  | .error => .error

/-- **`gen_eval_semantics_decoded`.** For every raw Go value `x` and the struct `d` today's decoder returns for it
(`Gen.newExprAst`, see C07Decode), executing `d` and evaluating it with `Eval` by today's code is the mirror. -/
theorem gen_eval_semantics_decoded (nm : QF.Bytes → String) (x : QF.RawExpr) (d : QF.XDec)
    (_hd : Gen.newExprAst.decode x = some d) (ctx : Ctx) (f : Frame) (dst : String) :
    genExecute ctx (ofXDec nm d) f = some (execute' ctx (ofXDec nm d) f) ∧
    genEval ctx f dst (ofXDec nm d) = some (eval' ctx f dst (ofXDec nm d)) :=
  ⟨gen_eval_semantics ctx _ f, gen_eval_semantics_eval ctx f dst _⟩

/-! ## 5. bookkeeping of the regenerated code -/

/-- **`gen_eval_bookkeeping`.** `Eval(dst, e)` by today's code, on a well-formed frame with unique names and room for the
temporaries: the call has a result `g` (no panic), and if `g` carries no error then

* `g`'s logical content is `f`'s with one entry `(dst, x)` written at `dst`'s old position, or appended last if `dst` is new;
* hence every other column of `f` is where it was with its name, type and cells, and `dst` holds `x`;
* a name that was not a column of `f` can only be `dst`: every temp column created on the way is gone;
* the row index is unchanged, `g` is well-formed with unique names. -/
theorem gen_eval_bookkeeping (ctx : Ctx) (f : Frame) (L : Nat) (wf : WF f L) (u : UniqueNames f) (hL : physLen f = L)
    (dst : String) (e : Ex') (hlt : f.cols.length + need e ≤ 10000) (hn : checkName dst = true) :
    ∃ g, genEval ctx f dst e = some g ∧
      (g.err = none →
        ∃ x, g.abs = absSet f.abs (f.abs.findIdx? (·.1 == dst)) (dst, x) ∧
          (∀ (i : Nat) (y : Entry), f.abs[i]? = some y → y.1 ≠ dst → g.abs[i]? = some y) ∧
          absLookup g.abs dst = some (dst, x) ∧
          (∀ t, t ∈ g.abs.map (·.1) → t ∉ f.abs.map (·.1) → t = dst) ∧
          g.index = f.index ∧ WF g L ∧ UniqueNames g) := by
  refine ⟨eval' ctx f dst e, gen_eval_semantics_eval ctx f dst e, ?_⟩
  intro h
  obtain ⟨x, ha, hi, hw, hu⟩ := eval'_bookkeeping ctx f L wf u hL dst e hlt hn h
  refine ⟨x, ha, ?_, ?_, ?_, hi, hw, hu⟩
  · intro i y hy hne; rw [ha]; exact absSet_other f.abs dst x i y hy hne
  · rw [ha]; exact absSet_dst f.abs dst x
  · intro t ht hnt; rw [ha] at ht; exact absSet_no_trace f.abs dst t x hnt ht

theorem execUnary_of_err (ctx : Ctx) (op src : String) (g : Frame) (h : g.err.isSome = true) :
    (execUnary ctx op src g).1 = g := by simp [execUnary, h]

theorem execColCol_of_err (ctx : Ctx) (op a b : String) (g : Frame) (h : g.err.isSome = true) :
    (execColCol ctx op a b g).1 = g := by simp [execColCol, h]

theorem isSome_of_eq {α : Type} {o : Option α} {x : α} (h : o = some x) : o.isSome = true := by simp [h]

/-- **`gen_eval_error_propagates`.** Errors in today's code: (1) every `execute` returns a failed frame as it is;
(2), (3) the error of the result of an operand of a nested expression is the error of the nested expression's result
(for the right operand: of its result on the frame the left operand returned); (4) when the expression's result carries an
error, so does `Eval`'s — the same error when every column reference is a column of the frame, the error of the
missing-column check otherwise (`Eval` does not execute the expression then). -/
theorem gen_eval_error_propagates (ctx : Ctx) :
    (∀ e f, f.err.isSome = true → ∃ n, genExecute ctx e f = some (f, n)) ∧
    (∀ op e f r x, genExecute ctx e f = some r → r.1.err = some x →
      ∃ r', genExecute ctx (.ex1 op e) f = some r' ∧ r'.1.err = some x) ∧
    (∀ op l r f rl rr x, genExecute ctx l f = some rl → genExecute ctx r rl.1 = some rr →
      (rl.1.err = some x ∨ rr.1.err = some x) →
      ∃ r', genExecute ctx (.ex2 op l r) f = some r' ∧ r'.1.err = some x) ∧
    (∀ e f dst r x, f.err = none → genExecute ctx e f = some r → r.1.err = some x →
      ∃ g, genEval ctx f dst e = some g ∧ g.err.isSome = true ∧ (missing e f = none → g.err = some x)) := by
  refine ⟨?_, ?_, ?_, ?_⟩
  · intro e f h
    refine ⟨(execute' ctx e f).2, ?_⟩
    rw [gen_eval_semantics]
    have := execute'_of_err ctx e f h
    exact congrArg some (Prod.ext this rfl)
  · intro op e f r x hr hx
    rw [gen_eval_semantics] at hr
    cases hr
    refine ⟨_, gen_eval_semantics ctx _ f, ?_⟩
    have hs := isSome_of_eq hx
    simp only [execute']
    rw [execUnary_of_err ctx op _ _ hs, drop_of_err _ _ hs]
    exact hx
  · intro op l r f rl rr x hl hr hx
    rw [gen_eval_semantics] at hl hr
    cases hl
    cases hr
    refine ⟨_, gen_eval_semantics ctx _ f, ?_⟩
    have hx' : (execute' ctx r (execute' ctx l f).1).1.err = some x := by
      rcases hx with h | h
      · rw [execute'_of_err ctx r _ (isSome_of_eq h)]; exact h
      · exact h
    have hs := isSome_of_eq hx'
    simp only [execute']
    rw [execColCol_of_err ctx op _ _ _ hs, drop_of_err _ _ hs]
    exact hx'
  · intro e f dst r x hf hr hx
    rw [gen_eval_semantics] at hr
    cases hr
    refine ⟨_, gen_eval_semantics_eval ctx f dst e, ?_⟩
    have hs := isSome_of_eq hx
    have hep : (evalEpilogue f dst (execute' ctx e f).1 (execute' ctx e f).2).err = some x := by
      simp only [evalEpilogue]
      rw [copy_of_err _ _ _ hs, drop_of_err _ _ hs]
      simp [hx]
    cases hm : missing e f with
    | some c => simp [eval', hf, hm, withErr]
    | none => simp [eval', hf, hm, hep]

/-! ## 6. witnesses: four mutations of the code, as the terms the extractor writes for them

Each mutated table differs from the canonical one (so `gen_eval_canon` fails on it) and its interpretation differs from
the canonical one on a concrete expression over `C08.exF` (columns `a` = 10, 11, 12 and `b`, rows in the order 2, 0, 1)
with the context `Fr.intCtx` (`+`, `-` on int columns). -/

def setFn (P : Progs) (id : FnId) (p : EP) : Progs := P.map fun q => if q.1 = id then (id, p) else q

/-- the result of `execute` by the table `P`: the column names of the frame and the returned name -/
def observe (P : Progs) (e : Ex') : Option (List String × String) :=
  (interp prims P Gen.tempColNameAst.name intCtx (toNode e) exF).map fun r => (r.1.abs.map (·.1), r.2)

/-- … and the returned column: name, type, cells in row order -/
def observeCol (P : Progs) (e : Ex') : Option (Option Entry) :=
  (interp prims P Gen.tempColNameAst.name intCtx (toNode e) exF).map fun r => absLookup r.1.abs r.2

/-- (a) `result = result.Drop(string(constColName))` removed from `colConstExpr.execute` -/
def colColNoDrop (a b : ET) : EP :=
  EP.exec (ET.mkColCol ET.opF a b) (ET.outF 0) (EP.ret (ET.outF 1) (ET.outN 1))
def mutNoDrop : Progs := setFn canonFns (.exec .colConst)
  (failedElse ET.qf (EP.exec (ET.mkConst (ET.orNull ET.valueF)) ET.qf
    (EP.ite (EC.flag ET.flagF) (colColNoDrop (ET.outN 0) (ET.srcF 0)) (colColNoDrop (ET.srcF 0) (ET.outN 0)))))

example : mutNoDrop ≠ canonFns := by decide
example : observe canonFns (.colConst "-" "a" (.int 10) true) = some (["a", "b", "colcol-temp-0"], "colcol-temp-0") := by
  decide +kernel
example : observeCol canonFns (.colConst "-" "a" (.int 10) true) =
    some (some ("colcol-temp-0", .int, [some (.int (-2)), some (.int 0), some (.int (-1))])) := by decide +kernel
/-- the constant's temp column stays in the frame -/
example : observe mutNoDrop (.colConst "-" "a" (.int 10) true) =
    some (["a", "b", "const-temp-0", "colcol-temp-0"], "colcol-temp-0") := by decide +kernel

/-- (b) `result.Contains(s)` instead of `qf.Contains(s)` in `exprExpr2.execute` -/
def mutResultContains : Progs := setFn canonFns (.exec .ex2)
  (EP.exec (ET.subF 0) ET.qf
    (EP.exec (ET.subF 1) (ET.outF 0)
      (EP.exec (ET.mkColCol ET.opF (ET.outN 0) (ET.outN 1)) (ET.outF 1)
        (EP.ite (EC.contains (ET.outF 2) (ET.outN 0))
          (EP.ite (EC.contains (ET.outF 2) (ET.outN 1)) (EP.ret (ET.drop0 (ET.outF 2)) (ET.outN 2))
            (EP.ret (ET.drop1 (ET.outF 2) (ET.outN 1)) (ET.outN 2)))
          (EP.ite (EC.contains (ET.outF 2) (ET.outN 1)) (EP.ret (ET.drop1 (ET.outF 2) (ET.outN 0)) (ET.outN 2))
            (EP.ret (ET.drop2 (ET.outF 2) (ET.outN 0) (ET.outN 1)) (ET.outN 2)))))))

/-- `(a + 10) + (a - a)` -/
def witNested : Ex' := .ex2 "+" (.colConst "+" "a" (.int 10) false) (.colCol "-" "a" "a")

example : mutResultContains ≠ canonFns := by decide
example : (observe canonFns witNested).map (·.1) = some ["a", "b", "colcol-temp-2"] := by decide +kernel
/-- both intermediate results stay in the frame -/
example : (observe mutResultContains witNested).map (·.1) =
    some ["a", "b", "colcol-temp-0", "colcol-temp-1", "colcol-temp-2"] := by decide +kernel

/-- (c) the operands swapped in the `colColExpr` that `exprExpr2.execute` builds -/
def mutSwapped : Progs := setFn canonFns (.exec .ex2)
  (EP.exec (ET.subF 0) ET.qf
    (EP.exec (ET.subF 1) (ET.outF 0)
      (EP.exec (ET.mkColCol ET.opF (ET.outN 1) (ET.outN 0)) (ET.outF 1)
        (EP.ite (EC.contains ET.qf (ET.outN 0))
          (EP.ite (EC.contains ET.qf (ET.outN 1)) (EP.ret (ET.drop0 (ET.outF 2)) (ET.outN 2))
            (EP.ret (ET.drop1 (ET.outF 2) (ET.outN 1)) (ET.outN 2)))
          (EP.ite (EC.contains ET.qf (ET.outN 1)) (EP.ret (ET.drop1 (ET.outF 2) (ET.outN 0)) (ET.outN 2))
            (EP.ret (ET.drop2 (ET.outF 2) (ET.outN 0) (ET.outN 1)) (ET.outN 2)))))))

/-- `a - (a + a)` -/
def witMinus : Ex' := .ex2 "-" (.col "a") (.colCol "+" "a" "a")

example : mutSwapped ≠ canonFns := by decide
example : observeCol canonFns witMinus =
    some (some ("colcol-temp-1", .int, [some (.int (-12)), some (.int (-10)), some (.int (-11))])) := by decide +kernel
/-- `(a + a) - a` instead -/
example : observeCol mutSwapped witMinus =
    some (some ("colcol-temp-1", .int, [some (.int 12), some (.int 10), some (.int 11)])) := by decide +kernel

/-- (d) `constFirst` ignored: `colConstExpr.execute` always passes (column, constant) -/
def mutNoFlip : Progs := setFn canonFns (.exec .colConst)
  (failedElse ET.qf (EP.exec (ET.mkConst (ET.orNull ET.valueF)) ET.qf (colColThenDrop (ET.srcF 0) (ET.outN 0))))

example : mutNoFlip ≠ canonFns := by decide
/-- `a - 10` where `10 - a` was asked for -/
example : observeCol mutNoFlip (.colConst "-" "a" (.int 10) true) =
    some (some ("colcol-temp-0", .int, [some (.int 2), some (.int 0), some (.int 1)])) := by decide +kernel

/-- (e) `Eval` without its check of the column references — the code as it was before the repair -/
def mutNoCheck : Progs := setFn canonFns .eval oldEval

/-- `(a + a) + Col("colcol-temp-0")` on a frame without such a column -/
def witCapture : Ex' := .ex2 "+" (.colCol "+" "a" "a") (.col "colcol-temp-0")

/-- `Eval` by the table `P`: error and column names of the result -/
def observeEval (P : Progs) (M : EMiss) (dst : String) (e : Ex') : Option (Option Err × List String) :=
  (interpEval prims P Gen.tempColNameAst.name M.run intCtx exF dst (toNode e)).map fun g => (g.err, g.abs.map (·.1))

example : mutNoCheck ≠ canonFns := by decide
/-- the old term accepts the expression: the reference is satisfied by the temp column of the left operand … -/
example : observeEval mutNoCheck canonMiss "y" witCapture = some (none, ["a", "b", "y"]) := by decide +kernel
/-- … today's term rejects it, and leaves the frame as it was -/
example : observeEval canonFns canonMiss "y" witCapture = some (some .other, ["a", "b"]) := by decide +kernel
example : Gen.missingColAst.run (toNode witCapture) exF = some (some "colcol-temp-0") := by decide +kernel

/-- (f) `missingCol` searching the right operand of `exprExpr2` first: another column is reported -/
def mutMissOrder : EMiss :=
  .scan [(.col, .cols [0]), (.unary, .cols [0]), (.colConst, .cols [0]), (.colCol, .cols [0, 1]),
         (.ex1, .recur [0]), (.ex2, .recur [1, 0])]
example : mutMissOrder ≠ canonMiss := by decide
example : canonMiss.run (toNode (.ex2 "+" (.col "x") (.col "y"))) exF = some (some "x") ∧
    mutMissOrder.run (toNode (.ex2 "+" (.col "x") (.col "y"))) exF = some (some "y") := by decide +kernel
/-- (g) `missingCol` without the clause for `colConstExpr`: `zz + 1` passes the check -/
def mutMissNoColConst : EMiss :=
  .scan [(.col, .cols [0]), (.unary, .cols [0]), (.colCol, .cols [0, 1]), (.ex1, .recur [0]), (.ex2, .recur [0, 1])]
example : canonMiss.run (toNode (.colConst "+" "zz" (.int 1) false)) exF = some (some "zz") ∧
    mutMissNoColConst.run (toNode (.colConst "+" "zz" (.int 1) false)) exF = some none := by decide +kernel

/-- and the hypotheses of `gen_eval_bookkeeping` are satisfiable; today's code computes what it says -/
example : WF exF 3 ∧ UniqueNames exF ∧ physLen exF = 3 ∧ exF.cols.length + need witNested ≤ 10000 ∧ checkName "y" = true :=
  ⟨exF_wf, exF_unique, by decide +kernel, by decide +kernel, by decide +kernel⟩
example : (genEval intCtx exF "y" witNested).map (fun g => (g.err, g.abs.map (·.1))) = some (none, ["a", "b", "y"]) := by
  decide +kernel
example : (genEval intCtx exF "a" (.colConst "-" "a" (.int 10) true)).map (fun g => g.abs) =
    some [("a", .int, [some (.int (-2)), some (.int 0), some (.int (-1))]),
          ("b", .bool, [some (.bool true), some (.bool true), some (.bool false)])] := by decide +kernel

#print axioms gen_eval_no_opaque
#print axioms gen_eval_canon
#print axioms gen_temp_semantics
#print axioms gen_temp_no_panic
#print axioms gen_eval_semantics
#print axioms gen_eval_semantics_eval
#print axioms gen_missingcol_semantics
#print axioms gen_eval_guard
#print axioms gen_eval_semantics_decoded
#print axioms gen_eval_bookkeeping
#print axioms gen_eval_error_propagates

end QF.Props.C07EvalGen
