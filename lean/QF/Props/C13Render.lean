import QF.Spec.Csv
/-!
# C13 (render side): `rfcParse ∘ render = id`

Rendering any table with ANY admissible quoting choice and parsing it back with the RFC 4180
scanner `rfcParse` of `QF.Spec.Csv` reproduces the table.
-/
namespace QF.Props.C13

/-- A field that cannot be written bare: it contains the delimiter, a quote, LF or CR. -/
def mustQuote (delim : UInt8) (f : Bytes) : Bool :=
  f.any (fun c => c == delim || c == 34 || c == 10 || c == 13)

/-- `q`: write the field quoted (inner quotes doubled). -/
def renderField (q : Bool) (f : Bytes) : Bytes :=
  if q then [34] ++ f.flatMap (fun c => if c == 34 then [34, 34] else [c]) ++ [34] else f

/-- The fields of one record separated by `delim`, without a line terminator. -/
def renderFields (delim : UInt8) : List (Bool × Bytes) → Bytes
  | [] => []
  | [p] => renderField p.1 p.2
  | p :: q :: rest => renderField p.1 p.2 ++ [delim] ++ renderFields delim (q :: rest)

/-- Fields separated by `delim`, terminated by LF. -/
def renderRow (delim : UInt8) (r : List (Bool × Bytes)) : Bytes := renderFields delim r ++ [10]

def renderDoc (delim : UInt8) (rows : List (List (Bool × Bytes))) : Bytes :=
  rows.flatMap (renderRow delim)

/-- What the proof actually needs of a row: it has a field, and every field that must be quoted is. -/
structure RowOkCore (delim : UInt8) (r : List (Bool × Bytes)) : Prop where
  nonempty : r ≠ []
  quoted : ∀ p ∈ r, mustQuote delim p.2 = true → p.1 = true

/-- Admissible row, as the property states it. -/
structure RowOk (delim : UInt8) (r : List (Bool × Bytes)) : Prop where
  /-- at least one field -/
  nonempty : r ≠ []
  /-- every field that `mustQuote` is quoted -/
  quoted : ∀ p ∈ r, mustQuote delim p.2 = true → p.1 = true
  /-- an unquoted field is not empty when it is the only field of its row -/
  single : ∀ f, r = [(false, f)] → f ≠ []
  /-- an unquoted field does not start with a quote character -/
  noLeadQuote : ∀ p ∈ r, p.1 = false → p.2.head? ≠ some 34
  /-- no field contains CR -/
  noCR : ∀ p ∈ r, (13 : UInt8) ∉ p.2

theorem RowOk.core {delim : UInt8} {r : List (Bool × Bytes)} (h : RowOk delim r) : RowOkCore delim r :=
  ⟨h.nonempty, h.quoted⟩

/-! ## The scanner's accumulator along a rendered document -/

/-- At the start of a field: `R` = reversed fields so far of the current record,
`RS` = reversed completed records. -/
def start (R : List Bytes) (RS : List (List Bytes)) (p : Bool) : CsvAcc :=
  { st := .fieldStart, field := [], row := R, rows := RS, pending := p }

/-- The accumulator after the bytes of a rendered field, started from `start R RS p`. -/
def afterField (q : Bool) (f : Bytes) (R : List Bytes) (RS : List (List Bytes)) (p : Bool) : CsvAcc :=
  if q then { st := .quoteSeen, field := f.reverse, row := R, rows := RS, pending := false }
  else if f = [] then start R RS p
  else { st := .unquoted, field := f.reverse, row := R, rows := RS, pending := false }

/-- The end-of-input flush of `rfcParse`. -/
def flush (a : CsvAcc) : List (List Bytes) :=
  let a := match a.st with
    | .fieldStart => if a.pending then (a.emitField false).endRecord else if a.row.isEmpty then a else a.endRecord
    | .unquoted => (a.emitField true).endRecord
    | .quoted | .quoteSeen => (a.emitField false).endRecord
  a.rows.reverse

theorem rfcParse_eq (delim : UInt8) (doc : Bytes) :
    rfcParse delim doc = flush (doc.foldl (csvStep delim) {}) := rfl

theorem start_default : ({} : CsvAcc) = start [] [] false := rfl

/-- (b) inside quotes: the escaped bytes of `f` push `f` onto the field. -/
theorem foldl_quoted (delim : UInt8) (f : Bytes) (acc : List UInt8) (R : List Bytes)
    (RS : List (List Bytes)) (p : Bool) :
    (f.flatMap (fun c => if c == 34 then [34, 34] else [c])).foldl (csvStep delim)
        { st := .quoted, field := acc, row := R, rows := RS, pending := p }
      = { st := .quoted, field := f.reverse ++ acc, row := R, rows := RS, pending := p } := by
  induction f generalizing acc with
  | nil => rfl
  | cons c cs ih =>
    simp only [List.flatMap_cons, List.foldl_append]
    by_cases hc : c = 34
    · subst hc
      simpa [csvStep] using ih (34 :: acc)
    · simpa [csvStep, hc] using ih (c :: acc)

/-- (a) in an unquoted field: bytes other than delimiter and LF are pushed onto the field. -/
theorem foldl_unquoted (delim : UInt8) (f : Bytes) (acc : List UInt8) (R : List Bytes)
    (RS : List (List Bytes)) (p : Bool) (hf : ∀ c ∈ f, c ≠ delim ∧ c ≠ 10) :
    f.foldl (csvStep delim) { st := .unquoted, field := acc, row := R, rows := RS, pending := p }
      = { st := .unquoted, field := f.reverse ++ acc, row := R, rows := RS, pending := p } := by
  induction f generalizing acc with
  | nil => rfl
  | cons c cs ih =>
    have h1 := hf c (by simp)
    have h2 : ∀ c ∈ cs, c ≠ delim ∧ c ≠ 10 := fun c hc => hf c (by simp [hc])
    simp [csvStep, h1.1, h1.2, ih _ h2]

theorem not_mustQuote {delim : UInt8} {f : Bytes} (h : mustQuote delim f = false) :
    ∀ c ∈ f, c ≠ delim ∧ c ≠ 34 ∧ c ≠ 10 ∧ c ≠ 13 := by
  intro c hc
  simp only [mustQuote, List.any_eq_false] at h
  have := h c hc
  simpa [and_assoc] using this

/-- The bytes of one rendered field. -/
theorem foldl_field (delim : UInt8) (q : Bool) (f : Bytes) (R : List Bytes) (RS : List (List Bytes))
    (p : Bool) (hq : mustQuote delim f = true → q = true) :
    (renderField q f).foldl (csvStep delim) (start R RS p) = afterField q f R RS p := by
  cases q with
  | true =>
    simp only [renderField, if_true, List.foldl_append, afterField]
    have : csvStep delim (start R RS p) 34
        = { st := .quoted, field := [], row := R, rows := RS, pending := false } := by
      simp [csvStep, start]
    simp only [List.foldl_cons, List.foldl_nil]
    rw [this, foldl_quoted]
    simp [csvStep]
  | false =>
    have hm : mustQuote delim f = false := by
      cases h : mustQuote delim f with
      | false => rfl
      | true => exact absurd (hq h) (by simp)
    have hall := not_mustQuote hm
    cases f with
    | nil => simp [renderField, afterField]
    | cons c cs =>
      have h1 := hall c (by simp)
      have h2 : ∀ c ∈ cs, c ≠ delim ∧ c ≠ 10 := fun c hc =>
        ⟨(hall c (by simp [hc])).1, (hall c (by simp [hc])).2.2.1⟩
      have : csvStep delim (start R RS p) c
          = { st := .unquoted, field := [c], row := R, rows := RS, pending := false } := by
        simp [csvStep, start, h1.1, h1.2.1, h1.2.2.1]
      simp [renderField, afterField, this, foldl_unquoted _ _ _ _ _ _ h2]


theorem getLast?_ne_cr {delim : UInt8} {f : Bytes} (h : mustQuote delim f = false) :
    f.getLast? ≠ some 13 := by
  intro hl
  have hm : (13 : UInt8) ∈ f := List.mem_of_getLast? hl
  exact (not_mustQuote h 13 hm).2.2.2 rfl

/-- (c) the delimiter after a rendered field closes the field. -/
theorem step_delim (delim : UInt8) (hd : delim ≠ 34) (q : Bool) (f : Bytes) (R : List Bytes)
    (RS : List (List Bytes)) (p : Bool) :
    csvStep delim (afterField q f R RS p) delim = start (f :: R) RS true := by
  cases q with
  | true => simp [afterField, csvStep, hd, CsvAcc.emitField, start]
  | false =>
    by_cases hf : f = []
    · simp [afterField, hf, csvStep, hd, CsvAcc.emitField, start]
    · simp [afterField, hf, csvStep, CsvAcc.emitField, start]

/-- (d) the LF after a rendered field closes the field and the record. -/
theorem step_lf (delim : UInt8) (hd : delim ≠ 10) (q : Bool) (f : Bytes) (R : List Bytes)
    (RS : List (List Bytes)) (p : Bool) (hq : mustQuote delim f = true → q = true) :
    csvStep delim (afterField q f R RS p) 10 = start [] ((f :: R).reverse :: RS) false := by
  have hd' : ¬ (10 : UInt8) = delim := fun h => hd h.symm
  cases q with
  | true => simp [afterField, csvStep, hd', CsvAcc.emitField, CsvAcc.endRecord, start]
  | false =>
    have hm : mustQuote delim f = false := by
      cases h : mustQuote delim f with
      | false => rfl
      | true => exact absurd (hq h) (by simp)
    have hcr := getLast?_ne_cr hm
    by_cases hf : f = []
    · simp [afterField, hf, csvStep, hd', CsvAcc.emitField, CsvAcc.endRecord, start]
    · simp [afterField, hf, csvStep, hd', CsvAcc.emitField, CsvAcc.endRecord, start, hcr]

/-- End of input right after a rendered field closes the field and the record, unless nothing at
all has been read since the last record end (a bare unquoted empty field not preceded by a delimiter). -/
theorem flush_afterField (delim : UInt8) (q : Bool) (f : Bytes) (R : List Bytes)
    (RS : List (List Bytes)) (p : Bool) (hq : mustQuote delim f = true → q = true)
    (hne : ¬ (q = false ∧ f = [] ∧ p = false)) :
    flush (afterField q f R RS p) = ((f :: R).reverse :: RS).reverse := by
  cases q with
  | true => simp [afterField, flush, CsvAcc.emitField, CsvAcc.endRecord]
  | false =>
    have hm : mustQuote delim f = false := by
      cases h : mustQuote delim f with
      | false => rfl
      | true => exact absurd (hq h) (by simp)
    have hcr := getLast?_ne_cr hm
    by_cases hf : f = []
    · subst hf
      cases p with
      | true => simp [afterField, flush, CsvAcc.emitField, CsvAcc.endRecord, start]
      | false => exact absurd ⟨rfl, rfl, rfl⟩ hne
    · simp [afterField, hf, flush, CsvAcc.emitField, CsvAcc.endRecord, hcr]

/-- One rendered record with its LF. -/
theorem foldl_row (delim : UInt8) (hd : delim ≠ 34 ∧ delim ≠ 10 ∧ delim ≠ 13)
    (r : List (Bool × Bytes)) (h : RowOkCore delim r) (R : List Bytes) (RS : List (List Bytes)) (p : Bool) :
    (renderRow delim r).foldl (csvStep delim) (start R RS p)
      = start [] ((R.reverse ++ r.map (·.2)) :: RS) false := by
  obtain ⟨hne, hq⟩ := h
  unfold renderRow
  induction r generalizing R p with
  | nil => exact absurd rfl hne
  | cons x xs ih =>
    have hx := hq x (by simp)
    cases xs with
    | nil =>
      simp only [renderFields, List.foldl_append, List.foldl_cons, List.foldl_nil]
      rw [foldl_field _ _ _ _ _ _ hx, step_lf _ hd.2.1 _ _ _ _ _ hx]
      simp
    | cons y ys =>
      have hq' : ∀ p ∈ y :: ys, mustQuote delim p.2 = true → p.1 = true :=
        fun p hp => hq p (List.mem_cons_of_mem _ hp)
      have := ih (x.2 :: R) true (by simp) hq'
      simp only [List.foldl_append, List.foldl_cons, List.foldl_nil] at this
      simp only [renderFields, List.foldl_append, List.foldl_cons, List.foldl_nil]
      rw [foldl_field _ _ _ _ _ _ hx, step_delim _ hd.1, this]
      simp

/-- One rendered record without line terminator, then end of input. -/
theorem flush_fields (delim : UInt8) (hd : delim ≠ 34 ∧ delim ≠ 10 ∧ delim ≠ 13)
    (r : List (Bool × Bytes)) (h : RowOkCore delim r) (R : List Bytes) (RS : List (List Bytes)) (p : Bool)
    (hl : ¬ (r = [(false, [])] ∧ p = false)) :
    flush ((renderFields delim r).foldl (csvStep delim) (start R RS p))
      = ((R.reverse ++ r.map (·.2)) :: RS).reverse := by
  obtain ⟨hne, hq⟩ := h
  induction r generalizing R p with
  | nil => exact absurd rfl hne
  | cons x xs ih =>
    have hx := hq x (by simp)
    cases xs with
    | nil =>
      simp only [renderFields]
      rw [foldl_field _ _ _ _ _ _ hx, flush_afterField delim _ _ _ _ _ hx]
      · simp
      · rintro ⟨h1, h2, h3⟩
        apply hl
        refine ⟨?_, h3⟩
        cases x with
        | mk a b => simp at h1 h2; simp [h1, h2]
    | cons y ys =>
      have hq' : ∀ p ∈ y :: ys, mustQuote delim p.2 = true → p.1 = true :=
        fun p hp => hq p (List.mem_cons_of_mem _ hp)
      have := ih (x.2 :: R) true (by simp) (by simp) hq'
      simp only [renderFields, List.foldl_append, List.foldl_cons, List.foldl_nil]
      rw [foldl_field _ _ _ _ _ _ hx, step_delim _ hd.1, this]
      simp

/-- A whole rendered document: every record is completed, the scanner is back at a record start. -/
theorem foldl_doc (delim : UInt8) (hd : delim ≠ 34 ∧ delim ≠ 10 ∧ delim ≠ 13)
    (rows : List (List (Bool × Bytes))) (h : ∀ r ∈ rows, RowOkCore delim r) (RS : List (List Bytes)) :
    (renderDoc delim rows).foldl (csvStep delim) (start [] RS false)
      = start [] ((rows.map (·.map (·.2))).reverse ++ RS) false := by
  unfold renderDoc
  induction rows generalizing RS with
  | nil => rfl
  | cons r rs ih =>
    have hr := h r (by simp)
    have hrs : ∀ r ∈ rs, RowOkCore delim r := fun r hr => h r (List.mem_cons_of_mem _ hr)
    simp only [List.flatMap_cons, List.foldl_append]
    rw [foldl_row delim hd r hr, ih hrs]
    simp

theorem flush_start (RS : List (List Bytes)) : flush (start [] RS false) = RS.reverse := by
  simp [flush, start]

/-! ## Main theorems -/

/-- Round trip with the minimal hypotheses: every row has a field and every field that must be
quoted is quoted. (CR inside a quoted field, a bare empty line for `[[]]`: all fine for `rfcParse`.) -/
theorem parse_render_core (delim : UInt8) (hd : delim ≠ 34 ∧ delim ≠ 10 ∧ delim ≠ 13)
    (rows : List (List (Bool × Bytes))) (h : ∀ r ∈ rows, RowOkCore delim r) :
    rfcParse delim (renderDoc delim rows) = rows.map (·.map (·.2)) := by
  rw [rfcParse_eq, start_default, foldl_doc delim hd rows h, flush_start]
  simp

/-- ToCSV then ReadCSV: rendering any table with any admissible quoting choice and parsing it back
gives the table. -/
theorem parse_render (delim : UInt8) (hd : delim ≠ 34 ∧ delim ≠ 10 ∧ delim ≠ 13)
    (rows : List (List (Bool × Bytes))) (h : ∀ r ∈ rows, RowOk delim r) :
    rfcParse delim (renderDoc delim rows) = rows.map (·.map (·.2)) :=
  parse_render_core delim hd rows (fun r hr => (h r hr).core)

/-- The variant where the last row has no terminating LF, minimal hypotheses: the last row must not
be the single bare empty field (it renders to nothing). -/
theorem parse_render_no_final_newline_core (delim : UInt8) (hd : delim ≠ 34 ∧ delim ≠ 10 ∧ delim ≠ 13)
    (rows : List (List (Bool × Bytes))) (last : List (Bool × Bytes))
    (h : ∀ r ∈ rows ++ [last], RowOkCore delim r) (hl : last ≠ [(false, [])]) :
    rfcParse delim (renderDoc delim rows ++ renderFields delim last)
      = (rows ++ [last]).map (·.map (·.2)) := by
  have hrows : ∀ r ∈ rows, RowOkCore delim r := fun r hr => h r (by simp [hr])
  have hlast : RowOkCore delim last := h last (by simp)
  rw [rfcParse_eq, start_default, List.foldl_append, foldl_doc delim hd rows hrows,
    flush_fields delim hd last hlast _ _ _ (fun hh => hl hh.1)]
  simp

/-- No terminating LF after the last row, with `RowOk`: no extra condition is needed, because
`RowOk.single` already excludes the single bare empty field. -/
theorem parse_render_no_final_newline' (delim : UInt8) (hd : delim ≠ 34 ∧ delim ≠ 10 ∧ delim ≠ 13)
    (rows : List (List (Bool × Bytes))) (last : List (Bool × Bytes))
    (h : ∀ r ∈ rows ++ [last], RowOk delim r) :
    rfcParse delim (renderDoc delim rows ++ renderFields delim last)
      = (rows ++ [last]).map (·.map (·.2)) :=
  parse_render_no_final_newline_core delim hd rows last (fun r hr => (h r hr).core)
    (fun hh => (h last (by simp)).single [] hh rfl)

/-- No terminating LF after the last row, as specified: the last field of the last row is quoted or
non-empty. -/
theorem parse_render_no_final_newline (delim : UInt8) (hd : delim ≠ 34 ∧ delim ≠ 10 ∧ delim ≠ 13)
    (rows : List (List (Bool × Bytes))) (last : List (Bool × Bytes))
    (h : ∀ r ∈ rows ++ [last], RowOk delim r)
    (_hl : ∀ p, last.getLast? = some p → p.1 = true ∨ p.2 ≠ []) :
    rfcParse delim (renderDoc delim rows ++ renderFields delim last)
      = (rows ++ [last]).map (·.map (·.2)) :=
  parse_render_no_final_newline' delim hd rows last h


/-! ## The hypotheses are satisfiable, and needed -/

/-- A table with bare, quoted-by-choice, quoted-by-need (delimiter, quote, LF inside) and empty fields. -/
def demo : List (List (Bool × Bytes)) :=
  [ [(false, [97, 98]), (true, [99, 44, 34, 100, 10]), (false, [])],
    [(true, [])],
    [(false, []), (true, [120]), (false, [121, 33])] ]

theorem demo_ok : ∀ r ∈ demo, RowOk 44 r := by
  intro r hr
  simp only [demo, List.mem_cons, List.not_mem_nil, or_false] at hr
  rcases hr with rfl | rfl | rfl
  · exact ⟨by decide, by decide, (by intro f h; cases h), by decide, by decide⟩
  · exact ⟨by decide, by decide, (by intro f h; cases h), by decide, by decide⟩
  · exact ⟨by decide, by decide, (by intro f h; cases h), by decide, by decide⟩

/-- What is written: `ab,"c,""d⏎",⏎""⏎,"x",y!⏎`. -/
example : renderDoc 44 demo =
    [97, 98, 44, 34, 99, 44, 34, 34, 100, 10, 34, 44, 10, 34, 34, 10, 44, 34, 120, 34, 44, 121, 33, 10] := by
  decide

example : rfcParse 44 (renderDoc 44 demo) = demo.map (·.map (·.2)) :=
  parse_render 44 (by decide) demo demo_ok

/-- The same table with the last line break left out. -/
example : rfcParse 44 (renderDoc 44 (demo.take 2) ++ renderFields 44 (demo.getLast (by decide)))
    = demo.map (·.map (·.2)) :=
  parse_render_no_final_newline 44 (by decide) (demo.take 2) (demo.getLast (by decide))
    (fun r hr => demo_ok r (by
      simp only [demo, List.take, List.getLast, List.mem_append, List.mem_cons, List.not_mem_nil, or_false] at hr ⊢
      rcases hr with (h | h) | h <;> simp [h]))
    (by decide)

/-- Needed: a field with a delimiter written bare does not come back. -/
example : rfcParse 44 (renderDoc 44 [[(false, [97, 44, 98])]]) ≠ [[[97, 44, 98]]] := by decide

/-- Needed for the variant without final line break: a last row that is one bare empty field is lost. -/
example : rfcParse 44 (renderDoc 44 [[(false, [97])]] ++ renderFields 44 [(false, [])]) = [[[97]]] := by
  decide

/-- Not needed with the final line break: the bare empty line denotes the row of one empty field,
and a CR inside a quoted field is kept. -/
example : rfcParse 44 (renderDoc 44 [[(false, [])], [(true, [97, 13, 10, 98])]]) = [[[]], [[97, 13, 10, 98]]] :=
  parse_render_core 44 (by decide) _ (by
    intro r hr
    simp only [List.mem_cons, List.not_mem_nil, or_false] at hr
    rcases hr with rfl | rfl <;> exact ⟨by decide, by decide⟩)

#print axioms parse_render_core
#print axioms parse_render
#print axioms parse_render_no_final_newline_core
#print axioms parse_render_no_final_newline'
#print axioms parse_render_no_final_newline

end QF.Props.C13
