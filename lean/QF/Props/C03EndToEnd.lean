import QF.Props.C03SortGlueGen
import QF.Props.C03SorterLink
import QF.Props.C03Compare
import QF.Props.C03RowOrder
import QF.Props.C03SortRows
import QF.Props.C04GlueLink
/-!
# C03 — `Sort` of today's source, with everything it calls regenerated, returns what the spec calls sorted (tie T1)

`C03SortGlueGen.gen_sort_glue_semantics` gives `QFrame.Sort` for ANY meaning of `Comparable` and `Sorter.Sort()`. Here the
callees are the regenerated ones:

* `Sorter.Sort()`        — the programs `Gen.sorterFns` run by `C03SorterGen.interp` (gen_sorter_semantics: = the mirror
                            `Sorter.sort` of the comparison function `Less` computes, for EVERY comparison function),
* `Comparable(…).Compare` — `C03Compare.genCompare` (= the spec's `keyCmp`: gen_compare_semantics; `Sorter.Less` over these
                            comparators = the spec's `rowLess`: sorter_less_eq_rowLess),

and the conclusion is about the SPEC (QF/Spec/Ops.lean): `gen_sort_end_to_end` — for every well-formed physical frame
(`C04GlueLink.WFrame`: a duplicate-free index of rows below `L` into columns of `L` cells of their types) and every list of
orders:

* a failed receiver comes back as it is, an order that names a column the frame does not have gives the receiver with an
  error — for every budget of the interpreter, nothing is sorted;
* otherwise (all columns known), for every budget that suffices (and some budget does; with less the interpreter runs out
  of fuel and there is no value — never another one): the result has the receiver's columns and no error, its index is a
  permutation of the receiver's index (so it is well-formed again), the receiver's own index array holds what it held, and
  the LOGICAL frame of the result (cell `i` of a column = the physical cell at row `index[i]`) is an acceptable result of
  sorting the logical frame of the receiver by these orders: `isSortedResult` of QF/Spec/Ops.lean — the same number of
  rows, the same column names, the same multiset of rows, and no consecutive pair of rows descends under the spec's `rowLess`
  for the keys (the columns the orders name, each with its Reverse / NullLast).

`isSortedResult` says "the same multiset of rows" as `sortRows f.rows == sortRows out.rows`, where `sortRows` is
`Array.qsort` of the Lean core library under the row order `rowCmp`. `SortedResult` below says it directly — `out.rows` is
a permutation of `f.rows` —, and `C03SortRows.sortRows_perm_invariant` (a proof that `Array.qsort` returns a sorted
permutation for every strict weak order, and that `rowCmp` is a linear order) turns that into `isSortedResult … = true`
(`isSortedResult_of_SortedResult`).

A row outside the columns (no row of a well-formed frame) is a run-time panic in Go; the comparators here
(`genSortComparable`) place such a row after every row of the column — some total answer is needed because the theorems
about the sorter quantify over all row numbers, and this one keeps the comparison a strict weak order.
-/
namespace QF.Props.C03EndToEnd
open QF QF.SG QF.Props.C03Compare QF.Props.C03SorterGen QF.Props.C03SortGlueGen QF.Props.C03RowOrder
open QF.GG (Frame)
open QF.Props.C04GlueLink (WFrame KeyOk logical)
set_option linter.unusedSimpArgs false

/-! ## The regenerated callees -/

/-- `<column>.Comparable(reverse, equalNull, nullLast)` of today's source as the sorter sees it: `Compare(i, j)` is the
regenerated comparator on the cells at the two rows. A row outside the column is a run-time panic in Go; here it compares
after every row of the column and equal to every other such row. -/
def genSortComparable (c : LCol) (rev eqNull nullLast : Bool) : Nat → Nat → Option CRes := fun i j =>
  if i < c.cells.size then
    if j < c.cells.size then genCompare c.ty c.vals ⟨rev, eqNull, nullLast⟩ c.cells[i]! c.cells[j]!
    else some .lessThan
  else if j < c.cells.size then some .greaterThan else some .equal

/-- `Sorter.Sort()` of today's source (`Gen.sorterFns`, interpreted with `fuel` levels) on an index array with the
comparators; `none`: the interpreter ran out of fuel (or the program has no value) -/
def genSorterSort (fuel : Nat) (rows : List Nat) (cols : SL.Cols) : Option (List Nat) :=
  match interp Gen.sorterFns cols fuel rows.toArray with
  | .ok r => some r.toList
  | _ => none

/-- what `Sort` calls, as regenerated -/
def genPrims (fuel : Nat) : Prims (Nat → Nat → Option CRes) :=
  { comparable := genSortComparable, sort := genSorterSort fuel }

/-- the comparators `Sort` builds of the keys -/
def colsOfKeys (keys : List (LCol × Order)) : SL.Cols := cmpsOfKeys genSortComparable keys

/-! ## `Less` over the regenerated comparators is `physLess` -/

theorem keyTyped_of_keyOk {L : Nat} {c : LCol} (h : KeyOk L c) : KeyTyped L c := ⟨h.ty, h.typed⟩

theorem lessOf_in_in (L : Nat) (keys : List (LCol × Order)) (hk : ∀ k ∈ keys, KeyOk L k.1) (i j : Nat) (hi : i < L) (hj : j < L) :
    lessOf (colsOfKeys keys) i j = sorterLess (keys.map (sortComparator false)) i j := by
  rw [lessOf_eq_sorterLess]
  unfold colsOfKeys cmpsOfKeys
  induction keys with
  | nil => rfl
  | cons k ks ih =>
    have hs := (hk k (by simp)).size
    have e : genSortComparable k.1 k.2.reverse false k.2.nullLast i j = sortComparator false k i j := by
      simp [genSortComparable, sortComparator, hs, hi, hj]
    simp only [List.map_cons, sorterLess, e, ih (fun k' hk' => hk k' (by simp [hk']))]

theorem lessOf_in_out (L : Nat) (keys : List (LCol × Order)) (hk : ∀ k ∈ keys, KeyOk L k.1) (hne : keys ≠ []) (i j : Nat)
    (hi : i < L) (hj : ¬ j < L) : lessOf (colsOfKeys keys) i j = some true := by
  cases keys with
  | nil => exact absurd rfl hne
  | cons k ks =>
    have hs := (hk k (by simp)).size
    simp [colsOfKeys, cmpsOfKeys, lessOf, genSortComparable, hs, hi, hj]

theorem lessOf_out_in (L : Nat) (keys : List (LCol × Order)) (hk : ∀ k ∈ keys, KeyOk L k.1) (hne : keys ≠ []) (i j : Nat)
    (hi : ¬ i < L) (hj : j < L) : lessOf (colsOfKeys keys) i j = some false := by
  cases keys with
  | nil => exact absurd rfl hne
  | cons k ks =>
    have hs := (hk k (by simp)).size
    simp [colsOfKeys, cmpsOfKeys, lessOf, genSortComparable, hs, hi, hj]

theorem lessOf_out_out (L : Nat) (keys : List (LCol × Order)) (hk : ∀ k ∈ keys, KeyOk L k.1) (i j : Nat)
    (hi : ¬ i < L) (hj : ¬ j < L) : lessOf (colsOfKeys keys) i j = some false := by
  unfold colsOfKeys cmpsOfKeys
  induction keys with
  | nil => rfl
  | cons k ks ih =>
    have hs := (hk k (by simp)).size
    have e : genSortComparable k.1 k.2.reverse false k.2.nullLast i j = some .equal := by
      simp [genSortComparable, hs, hi, hj]
    simp only [List.map_cons, lessOf, e]
    exact ih (fun k' hk' => hk k' (by simp [hk']))

/-- **`Sorter.Less` over the comparators today's `Sort` builds is `physLess`** (for at least one key): on two rows of the
columns the spec's `rowLess` on the keys (`sorter_less_eq_rowLess`, `physLess_eq_rowLess`). -/
theorem lessIs_physLess (L : Nat) (keys : List (LCol × Order)) (hk : ∀ k ∈ keys, KeyOk L k.1) (hne : keys ≠ []) :
    LessIs (colsOfKeys keys) (physLess L keys) := by
  intro i j
  by_cases hi : i < L
  · by_cases hj : j < L
    · rw [lessOf_in_in L keys hk i j hi hj,
        sorter_less_eq_rowLess LFrame.empty keys false i j (fun k hk' => ⟨(hk k hk').ty, (hk k hk').typed i hi, (hk k hk').typed j hj⟩),
        physLess_eq_rowLess LFrame.empty L keys (fun k hk' => keyTyped_of_keyOk (hk k hk')) i j hi hj]
    · rw [lessOf_in_out L keys hk hne i j hi hj, physLess_in_out L keys i j hi hj]
  · by_cases hj : j < L
    · rw [lessOf_out_in L keys hk hne i j hi hj, physLess_out_in L keys i j hi hj]
    · rw [lessOf_out_out L keys hk i j hi hj, physLess_out_out L keys i j hi hj]

/-! ## The regenerated sorter on these comparators -/

/-- what the regenerated `Sorter.Sort()` leaves in the index array -/
def sortedRows (L : Nat) (keys : List (LCol × Order)) (rows : List Nat) : List Nat :=
  (Sorter.sort (physLess L keys) rows.toArray).toList

theorem genSorterSort_cases (L : Nat) (keys : List (LCol × Order)) (hk : ∀ k ∈ keys, KeyOk L k.1) (hne : keys ≠ []) (rows : List Nat) :
    (∃ N, ∀ fuel, N ≤ fuel → genSorterSort fuel rows (colsOfKeys keys) = some (sortedRows L keys rows)) ∧
    (∀ fuel, genSorterSort fuel rows (colsOfKeys keys) = none ∨ genSorterSort fuel rows (colsOfKeys keys) = some (sortedRows L keys rows)) := by
  obtain ⟨⟨N, hN⟩, hall⟩ := gen_sorter_semantics (colsOfKeys keys) (physLess L keys) (lessIs_physLess L keys hk hne) rows.toArray
  refine ⟨⟨N, fun fuel hf => ?_⟩, fun fuel => ?_⟩
  · simp only [genSorterSort, hN fuel hf, sortedRows]
  · rcases hall fuel with h | h
    · left; simp only [genSorterSort, h]
    · right; simp only [genSorterSort, h, sortedRows]

theorem sortedRows_perm (L : Nat) (keys : List (LCol × Order)) (rows : List Nat) : (sortedRows L keys rows).Perm rows := by
  have := (Sorter.sort_perm (physLess L keys) rows.toArray).toList
  simpa [sortedRows] using this

/-- no row of the sorted index is less than an earlier one -/
theorem sortedRows_sorted (L : Nat) (keys : List (LCol × Order)) (rows : List Nat) (i j : Nat) (hij : i < j)
    (hj : j < (sortedRows L keys rows).length) :
    physLess L keys (sortedRows L keys rows)[j]! (sortedRows L keys rows)[i]! = false := by
  have hs := Sorter.sort_sorted_full (physLess L keys) (physLess_swo L keys) rows.toArray
  have hlen : (sortedRows L keys rows).length = rows.length := (sortedRows_perm L keys rows).length_eq
  have := hs i j (Nat.zero_le _) hij (by simpa [hlen] using hj)
  have e : ∀ (a : Array Nat) (k : Nat), (a.toList)[k]! = a[k]! := fun a k => by
    simp [Array.getElem!_eq_getD, Array.getD_eq_getD_getElem?]
  unfold sortedRows
  rw [e, e]
  exact this

/-! ## Physical frames and logical frames -/

/-- the logical frame of a physical frame: cell `i` of a column is the physical cell at row `index[i]` -/
def absF (F : Frame) : LFrame := { cols := F.cols.map (logical F.index), n := F.index.length }

/-- the physical row `p` as the list of its cells in column order -/
def physRow (F : Frame) (p : Nat) : List Cell := F.cols.map fun c => c.cells[p]!

theorem absF_rows (F : Frame) : (absF F).rows = F.index.map (physRow F) := by
  unfold LFrame.rows absF
  apply List.ext_getElem
  · simp
  · intro r h1 h2
    simp only [List.length_map, List.length_range] at h1
    simp only [List.getElem_map, List.getElem_range, LFrame.row, physRow, List.map_map]
    apply List.map_congr_left
    intro c _
    simp [logical, h1]

theorem absF_names (F : Frame) (ix : List Nat) : (absF { F with index := ix }).names = (absF F).names := by
  simp [absF, LFrame.names, logical, Function.comp_def]

theorem absF_find (F : Frame) (n : Bytes) : (absF F).find? n = (F.find? n).map (logical F.index) := by
  unfold LFrame.find? Frame.find? absF
  rw [List.find?_map]
  rfl

/-- the keys of the logical frame: the physical keys seen through the index -/
theorem sortKeys_abs (F : Frame) : ∀ (os : List Order) (keys : List (LCol × Order)), keysOf F os = some keys →
    sortKeys (absF F) os = some (keys.map fun k => (logical F.index k.1, k.2))
  | [], keys, h => by
    simp only [keysOf, Option.some.injEq] at h
    subst h
    rfl
  | o :: os, keys, h => by
    simp only [keysOf] at h
    cases hf : F.find? o.col with
    | none => rw [hf] at h; cases h
    | some c =>
      rw [hf] at h
      cases hr : keysOf F os with
      | none => rw [hr] at h; cases h
      | some rest =>
        rw [hr] at h
        simp only [Option.some.injEq] at h
        subst h
        have ih := sortKeys_abs F os rest hr
        unfold sortKeys at ih ⊢
        simp [absF_find] at ih
        simp [List.mapM_cons, absF_find, hf, ih]

theorem keyCmp_logical (ix : List Nat) (c : LCol) (o : Order) (x y : Cell) : keyCmp (logical ix c) o x y = keyCmp c o x y := rfl

theorem rowLess_logical (f g : LFrame) (ix : List Nat) (keys : List (LCol × Order)) (a b : Nat) (ha : a < ix.length) (hb : b < ix.length) :
    rowLess f (keys.map fun k => (logical ix k.1, k.2)) a b = rowLess g keys ix[a]! ix[b]! := by
  induction keys with
  | nil => rfl
  | cons k ks ih =>
    obtain ⟨c, o⟩ := k
    simp only [List.map_cons, rowLess, keyCmp_logical, C04GlueLink.logical_cell ix c a ha, C04GlueLink.logical_cell ix c b hb, ih]

/-! ## What the spec calls a sorted result -/

/-- `isSortedResult f out os` (QF/Spec/Ops.lean) with "the same multiset of rows" said directly: the rows of `out` are a
permutation of the rows of `f`. -/
def SortedResult (f out : LFrame) (os : List Order) : Prop :=
  ∃ keys, sortKeys out os = some keys ∧ out.n = f.n ∧ out.names = f.names ∧ out.rows.Perm f.rows ∧
    ∀ r, r + 1 < out.n → rowLess out keys (r + 1) r = false

theorem isSortedResult_of_SortedResult (f out : LFrame) (os : List Order) (h : SortedResult f out os) : isSortedResult f out os = true := by
  obtain ⟨keys, h1, h2, h3, h4, h5⟩ := h
  unfold isSortedResult
  rw [h1]
  simp only [h2, h3, beq_self_eq_true, Bool.true_and, Bool.and_eq_true, List.all_eq_true, List.mem_range, Bool.not_eq_true']
  exact ⟨C03SortRows.sameRowMultiset_of_perm _ _ h4.symm, fun r hr => h5 r (by omega)⟩

/-- what `Sort` returns for orders that all name known columns -/
structure Good (F : Frame) (L : Nat) (os : List Order) (r : SRes (Nat → Nat → Option CRes)) : Prop where
  cols : r.frame.cols = F.cols
  noErr : r.frame.err = false
  recvKept : r.recvIndex = F.index
  perm : r.frame.index.Perm F.index
  wf : WFrame r.frame L
  sorted : SortedResult (absF F) (absF r.frame) os
  spec : isSortedResult (absF F) (absF r.frame) os = true

theorem wframe_of_perm {F : Frame} {L : Nat} (wf : WFrame F L) {ix : List Nat} (hp : ix.Perm F.index) : WFrame { F with index := ix } L where
  nodup := hp.nodup_iff.mpr wf.nodup
  small := by rw [hp.length_eq]; exact wf.small
  inRange := fun r hr => wf.inRange r (hp.mem_iff.mp hr)
  cols := wf.cols

theorem keysOf_mem {F : Frame} {os : List Order} {keys : List (LCol × Order)} (h : keysOf F os = some keys) :
    ∀ k ∈ keys, k.1 ∈ F.cols := by
  intro k hk
  have := ((keysOf_spec F os keys).1 h).2 k hk
  exact List.mem_of_find?_eq_some this

theorem keysOf_congr (F G : Frame) (h : G.cols = F.cols) : ∀ os, keysOf G os = keysOf F os
  | [] => rfl
  | o :: os => by
    simp only [keysOf, keysOf_congr F G h os]
    have : G.find? o.col = F.find? o.col := by simp [Frame.find?, h]
    rw [this]

/-- the frame with the sorted index is what the spec calls a sorted result -/
theorem sorted_good (F : Frame) (L : Nat) (wf : WFrame F L) (he : F.err = false) (os : List Order) (keys : List (LCol × Order))
    (hkeys : keysOf F os = some keys) :
    Good F L os { frame := { F with index := sortedRows L keys F.index }, recvIndex := F.index,
                  call := some (F.index, colsOfKeys keys) } := by
  have hperm := sortedRows_perm L keys F.index
  have hkok : ∀ k ∈ keys, KeyOk L k.1 := fun k hk => wf.cols k.1 (keysOf_mem hkeys k hk)
  suffices hs : SortedResult (absF F) (absF { F with index := sortedRows L keys F.index }) os from
    ⟨rfl, he, rfl, hperm, wframe_of_perm wf hperm, hs, isSortedResult_of_SortedResult _ _ os hs⟩
  let out : Frame := { F with index := sortedRows L keys F.index }
  have hkeys' : keysOf out os = some keys := by rw [keysOf_congr F out rfl]; exact hkeys
  refine ⟨_, sortKeys_abs out os keys hkeys', ?_, absF_names F _, ?_, ?_⟩
  · show (sortedRows L keys F.index).length = F.index.length
    exact hperm.length_eq
  · rw [absF_rows, absF_rows]
    exact hperm.map _
  · intro r hr
    have hr' : r + 1 < (sortedRows L keys F.index).length := hr
    rw [rowLess_logical (absF out) LFrame.empty (sortedRows L keys F.index) keys (r + 1) r hr' (by omega)]
    have hs := sortedRows_sorted L keys F.index r (r + 1) (Nat.lt_succ_self r) hr'
    have hin : ∀ p, p < (sortedRows L keys F.index).length → (sortedRows L keys F.index)[p]! < L := by
      intro p hp
      apply wf.inRange
      apply hperm.mem_iff.mp
      rw [getElem!_pos _ p hp]
      exact List.getElem_mem hp
    rw [physLess_eq_rowLess LFrame.empty L keys (fun k hk => keyTyped_of_keyOk (hkok k hk)) _ _ (hin _ hr') (hin _ (by omega))] at hs
    exact hs

/-! ## The main statement -/

/-- **`gen_sort_end_to_end`: `QFrame.Sort` of today's source, everything it calls regenerated, sorts as the spec says.** For
every well-formed physical frame `F` (`WFrame F L`) and every list of orders `os`:
1. `F` has failed: for every budget the receiver comes back unchanged, nothing is sorted.
2. `F` has not failed and an order names a column `F` does not have: for every budget the receiver comes back with an
   error (same columns, same index), nothing is sorted.
3. `F` has not failed and every order names a column of `F`: there is a budget from which on `Sort` has a value, with ANY
   budget it has that value or none (the interpreter out of fuel), and every value `r` is `Good`: the columns of `F`, no
   error, an index that is a permutation of `F`'s (hence a well-formed frame again), the receiver's own index array as it
   was, and the logical frame of `r` is a sorted result of the logical frame of `F` for `os`:
   `isSortedResult (absF F) (absF r.frame) os = true` (QF/Spec/Ops.lean) — the same number of rows, the same names, the same
   multiset of rows (`SortedResult`: a permutation of the rows), no consecutive descent under the spec's `rowLess` for the
   keys `sortKeys` finds. -/
theorem gen_sort_end_to_end (F : Frame) (L : Nat) (wf : WFrame F L) (os : List Order) :
    (F.err = true → ∀ fuel, genSort (genPrims fuel) F os = some { frame := F, recvIndex := F.index, call := none }) ∧
    (F.err = false → (∃ o ∈ os, F.find? o.col = none) →
      ∀ fuel, genSort (genPrims fuel) F os = some { frame := { F with err := true }, recvIndex := F.index, call := none }) ∧
    (F.err = false → (∀ o ∈ os, (F.find? o.col).isSome = true) →
      (∃ N, ∀ fuel, N ≤ fuel → ∃ r, genSort (genPrims fuel) F os = some r ∧ Good F L os r) ∧
      (∀ fuel, genSort (genPrims fuel) F os = none ∨ ∃ r, genSort (genPrims fuel) F os = some r ∧ Good F L os r)) := by
  refine ⟨fun he fuel => ?_, fun he hunk fuel => ?_, fun he hknown => ?_⟩
  · rw [gen_sort_glue_semantics]; simp [specSort, he]
  · obtain ⟨o, ho, hf⟩ := hunk
    have hemp : os.isEmpty = false := by cases os with | nil => simp at ho | cons _ _ => rfl
    have hk : keysOf F os = none := by
      cases hk : keysOf F os with
      | none => rfl
      | some keys =>
        obtain ⟨h1, h2⟩ := (keysOf_spec F os keys).1 hk
        rw [← h1] at ho
        obtain ⟨k, hk', rfl⟩ := List.mem_map.mp ho
        rw [h2 k hk'] at hf
        cases hf
    rw [gen_sort_glue_semantics]
    simp [specSort, he, hemp, hk]
  · -- all columns known
    have hkeys : ∃ keys, keysOf F os = some keys := by
      clear wf
      induction os with
      | nil => exact ⟨[], rfl⟩
      | cons o os ih =>
        obtain ⟨rest, hr⟩ := ih (fun o' ho' => hknown o' (by simp [ho']))
        have := hknown o (by simp)
        cases hf : F.find? o.col with
        | none => rw [hf] at this; cases this
        | some c => exact ⟨(c, o) :: rest, by simp [keysOf, hf, hr]⟩
    obtain ⟨keys, hkeys⟩ := hkeys
    cases os with
    | nil =>
      -- no orders: the receiver itself, which is trivially sorted
      have hgood : Good F L [] { frame := F, recvIndex := F.index, call := none } := by
        have hs : SortedResult (absF F) (absF F) [] := ⟨[], rfl, rfl, rfl, List.Perm.refl _, fun r _ => rfl⟩
        exact ⟨rfl, he, rfl, List.Perm.refl _, wf, hs, isSortedResult_of_SortedResult _ _ [] hs⟩
      have hrun : ∀ fuel, genSort (genPrims fuel) F [] = some { frame := F, recvIndex := F.index, call := none } := by
        intro fuel; rw [gen_sort_glue_semantics]; simp [specSort, he]
      exact ⟨⟨0, fun fuel _ => ⟨_, hrun fuel, hgood⟩⟩, fun fuel => Or.inr ⟨_, hrun fuel, hgood⟩⟩
    | cons o os' =>
      have hne : keys ≠ [] := by
        intro e
        have := keysOf_length hkeys
        rw [e] at this
        simp at this
      have hkok : ∀ k ∈ keys, KeyOk L k.1 := fun k hk => wf.cols k.1 (keysOf_mem hkeys k hk)
      obtain ⟨⟨N, hN⟩, hall⟩ := genSorterSort_cases L keys hkok hne F.index
      have hrun : ∀ fuel, genSort (genPrims fuel) F (o :: os') =
          (genSorterSort fuel F.index (colsOfKeys keys)).map fun sorted =>
            { frame := { F with index := sorted }, recvIndex := F.index, call := some (F.index, colsOfKeys keys) } := by
        intro fuel
        exact (gen_sort_cmps_semantics (genPrims fuel) F (o :: os') he (by simp)).1 keys hkeys
      have hgood := sorted_good F L wf he (o :: os') keys hkeys
      refine ⟨⟨N, fun fuel hf => ⟨_, ?_, hgood⟩⟩, fun fuel => ?_⟩
      · rw [hrun fuel, hN fuel hf]; rfl
      · rcases hall fuel with h | h
        · left; rw [hrun fuel, h]; rfl
        · right; exact ⟨_, by rw [hrun fuel, h]; rfl, hgood⟩

/-- … read for one value: whatever today's `Sort` returns on a well-formed frame without error for orders naming known
columns — with whatever budget — satisfies `isSortedResult`, has the receiver's columns, no error, a permutation of the
receiver's index, and has left the receiver's index array alone. -/
theorem gen_sort_isSortedResult (F : Frame) (L : Nat) (wf : WFrame F L) (he : F.err = false) (os : List Order)
    (hknown : ∀ o ∈ os, (F.find? o.col).isSome = true) (fuel : Nat) (r : SRes (Nat → Nat → Option CRes))
    (hr : genSort (genPrims fuel) F os = some r) :
    isSortedResult (absF F) (absF r.frame) os = true ∧ r.frame.cols = F.cols ∧ r.frame.err = false ∧
      r.frame.index.Perm F.index ∧ r.recvIndex = F.index := by
  rcases ((gen_sort_end_to_end F L wf os).2.2 he hknown).2 fuel with h | ⟨r', h, hg⟩
  · rw [h] at hr; cases hr
  · rw [h] at hr
    cases hr
    exact ⟨hg.spec, hg.cols, hg.noErr, hg.perm, hg.recvKept⟩

/-! ## A concrete instance -/

section Example

/-- an int column `a` = 3, 1, 3, 2 and a string column `b` = "x", null, "a", "m"; the index reads the rows 3, 0, 2, 1 -/
def exF : Frame :=
  { cols := [{ name := [97], ty := .int, cells := #[.int 3, .int 1, .int 3, .int 2] },
             { name := [98], ty := .string, cells := #[.str (some [120]), .str none, .str (some [97]), .str (some [109])] }],
    index := [3, 0, 2, 1] }

/-- `a` descending, then `b` with nulls last -/
def exOs : List Order := [⟨[97], true, false⟩, ⟨[98], false, true⟩]

/-- the hypotheses of `gen_sort_end_to_end` hold for the instance: the frame is well-formed … -/
example : WFrame exF 4 where
  nodup := by decide
  small := by decide
  inRange := by decide
  cols := by
    intro c hc
    simp only [exF, List.mem_cons, List.mem_nil_iff, or_false] at hc
    rcases hc with rfl | rfl
    · exact ⟨by decide, rfl, by decide⟩
    · exact ⟨by decide, rfl, by decide⟩

/-- … has not failed, and every order names a column of it -/
example : exF.err = false ∧ ∀ o ∈ exOs, (exF.find? o.col).isSome = true := by decide

/-- today's `Sort` on it, everything regenerated, run by the kernel: the rows with `a` = 3 first (`b` = "a" before "x"),
then `a` = 2, then `a` = 1; the receiver's index untouched -/
example : (genSort (genPrims 40) exF exOs).map (fun r => (r.frame.index, r.recvIndex, r.frame.err)) =
    some ([2, 0, 3, 1], [3, 0, 2, 1], false) := by decide +kernel

end Example

end QF.Props.C03EndToEnd

#print axioms QF.Props.C03EndToEnd.lessIs_physLess
#print axioms QF.Props.C03EndToEnd.gen_sort_end_to_end
#print axioms QF.Props.C03EndToEnd.gen_sort_isSortedResult
