import QF.Props.C12CsvFns
import QF.Props.C12Read
/-!
# C12 — the array-level mirror `Csv` (L0) against the list-level proof model `Full` (bridge)

`Csv.readAll` (QF/Core/Csv.lean) is the mirror the regenerated reader is proved equal to (`C12CsvGen`) and the replay driver
compares with the real reader: a byte ARRAY with capacity and stale bytes beyond `len`, growth `cap := 2·len+1`, `reset`
shifting the unread bytes to the front, an underlying reader that delivers `min (k, room, rest)` bytes per call.
`Full.readAll` (QF/Core/CsvFull.lean) is the model the theorems of C12Read are about: the loaded bytes as a LIST, `reset` =
drop the consumed prefix, no capacity. Nothing related the two so far. This file does:

* §1  the underlying reader and `more` / `reset` / one-byte writes on the abstraction `view b = b.data.toList.take b.len`
* §2  unfolding lemmas for `Full.quoted`, `Full.unq`, `Full.fnext` on a LOADED state (`future = []`)
* §3  lock-step simulation, function by function: whenever the loaded `Full` machine returns, the `Csv` machine — on ANY
      schedule of reads ≥ 1, ANY capacity, either EOF mode — returns the same field / row / rows / error, with the state
      relation `Rel`: "`Full`'s data = `Csv`'s loaded bytes ++ the bytes not yet delivered, same cursor". A refill (`more`)
      of `Csv` is a stutter step; the budget of `Csv` covers the stutter steps (`F + rest.length ≤ fuel`).
* §4  `readAll_bridge`: `Full.readAll … (loadedFS doc) = some res → Csv.readAll doc sched … = .ok res`.

The totality of `Full` (`C12Read.readAll_total`) then gives `C12EndToEnd.csv_eq_full_total`: `Csv.readAll` always returns, and
returns what `Full.readAll` returns. (That it never gives up for lack of fuel also with a failing underlying reader is
`C12NoFuel.readAll_no_fuel`.)
-/
namespace QF.Props.C12Bridge
open Csv QF.Props.C12CsvGen
set_option linter.unusedSimpArgs false
set_option linter.unusedVariables false

/-! ## §1 the underlying reader, `more`, `reset` -/

/-- the loaded bytes -/
def view (b : Buf) : List Byte := b.data.toList.take b.len

/-- A fault-free underlying reader whose reads deliver at least one byte: no failure position, every scheduled size ≥ 1,
and once the wrapper has seen EOF together with data nothing is left. -/
structure SrcOK (s : Src) : Prop where
  nofail : s.failAt = none
  sched : ∀ k ∈ s.sched, 1 ≤ k
  wrap : s.wrapEof = true → s.rest = []

structure BufOK (b : Buf) : Prop where
  cur : b.cursor ≤ b.len
  len : b.len ≤ b.data.size
  src : SrcOK b.src

theorem view_length (b : Buf) (h : b.len ≤ b.data.size) : (view b).length = b.len := by
  simp [view, List.length_take]; omega

/-- the size the schedule asks for -/
def want (s : Src) : Nat := match s.sched with | [] => s.rest.length | k :: _ => k
/-- the number of bytes one `Read` delivers -/
def nRead (s : Src) (room : Nat) : Nat := min (min (want s) room) s.rest.length

theorem read_eq (s : Src) (room : Nat) (h1 : s.failAt = none) (hw : s.wrapEof = false) (hne : s.rest ≠ []) :
    s.read room = (s.rest.take (nRead s room), none,
      { s with rest := s.rest.drop (nRead s room), sched := s.sched.drop 1, calls := s.calls + 1,
               wrapEof := s.eofWithData && nRead s room == s.rest.length && decide (nRead s room > 0) }) := by
  have he : s.rest.isEmpty = false := by cases h : s.rest with | nil => exact absurd h hne | cons => rfl
  unfold Src.read
  simp only [hw, h1, he, Bool.false_eq_true, ↓reduceIte]
  unfold nRead want
  cases s.sched <;> simp

theorem read_nil (s : Src) (room : Nat) (h1 : s.failAt = none) (hr : s.rest = []) :
    (s.read room).1 = [] ∧ (s.read room).2.1 = some .eof ∧ (s.read room).2.2.rest = [] ∧
    (s.read room).2.2.failAt = none ∧ (s.read room).2.2.sched = s.sched := by
  unfold Src.read
  by_cases hw : s.wrapEof = true
  · simp [hw, hr, h1]
  · simp [hw, hr, h1]

/-- What one `Read` of a fault-free reader does. -/
theorem read_ok (s : Src) (hs : SrcOK s) (room : Nat) (hroom : 1 ≤ room) :
    SrcOK (s.read room).2.2 ∧ (s.read room).1 ++ (s.read room).2.2.rest = s.rest ∧ (s.read room).1.length ≤ room ∧
    ((s.rest = [] ∧ (s.read room).1 = [] ∧ (s.read room).2.1 = some .eof) ∨
     (s.rest ≠ [] ∧ 1 ≤ (s.read room).1.length ∧ (s.read room).2.1 = none)) := by
  obtain ⟨h1, h2, h3⟩ := hs
  have hb := C15Faults.read_bytes s room
  by_cases hr : s.rest = []
  · obtain ⟨a1, a2, a3, a4, a5⟩ := read_nil s room h1 hr
    exact ⟨⟨a4, by rw [a5]; exact h2, fun _ => a3⟩, hb.1, hb.2, Or.inl ⟨hr, a1, a2⟩⟩
  · have hw : s.wrapEof = false := by
      cases h : s.wrapEof with
      | false => rfl
      | true => exact absurd (h3 h) hr
    have hpos : 1 ≤ s.rest.length := List.length_pos_iff.mpr hr
    have hwant : 1 ≤ want s := by
      unfold want
      cases hsch : s.sched with
      | nil => exact hpos
      | cons k ks => exact h2 k (by simp [hsch])
    have hn : 1 ≤ nRead s room ∧ nRead s room ≤ s.rest.length := by unfold nRead; omega
    rw [read_eq s room h1 hw hr] at hb ⊢
    refine ⟨⟨h1, fun k hk => h2 k (List.mem_of_mem_drop hk), ?_⟩, hb.1, hb.2, Or.inr ⟨hr, ?_, rfl⟩⟩
    · intro hwe
      simp only [Bool.and_eq_true, beq_iff_eq, decide_eq_true_eq] at hwe
      apply List.length_eq_zero_iff.mp
      show (s.rest.drop (nRead s room)).length = 0
      rw [List.length_drop]; omega
    · show 1 ≤ (s.rest.take (nRead s room)).length
      rw [List.length_take]; omega

/-- the buffer after the growth step of `more()` -/
theorem grow_facts (b : Buf) (h2 : b.len ≤ b.data.size) :
    (C15Faults.growBuf b).len = b.len ∧ (C15Faults.growBuf b).cursor = b.cursor ∧ (C15Faults.growBuf b).src = b.src ∧
    (C15Faults.growBuf b).data.toList.take b.len = view b ∧ b.len + 1 ≤ (C15Faults.growBuf b).data.size := by
  unfold C15Faults.growBuf view
  split
  · rename_i he
    have : b.len = b.data.size := by simpa using he
    refine ⟨rfl, rfl, rfl, ?_, ?_⟩
    · simp only [Array.toList_append]
      rw [List.take_append_of_le_length (by simpa using h2)]
    · simp only [Array.size_append, Array.size_replicate]; omega
  · rename_i he
    have : b.len ≠ b.data.size := by simpa using he
    exact ⟨rfl, rfl, rfl, rfl, by omega⟩

/-- What `more()` does to the buffer of a fault-free reader: the loaded bytes grow by what was read, the unread document
shrinks by it, cursor untouched; either EOF (nothing was left, nothing changes) or at least one byte more. -/
theorem more_ok (b : Buf) (hb : BufOK b) :
    BufOK b.more.1 ∧ b.more.1.cursor = b.cursor ∧
    (∃ bytes, view b.more.1 = view b ++ bytes ∧ bytes ++ b.more.1.src.rest = b.src.rest ∧
      b.more.1.len = b.len + bytes.length ∧
      ((b.src.rest = [] ∧ bytes = [] ∧ b.more.2 = some .eof) ∨ (b.src.rest ≠ [] ∧ 1 ≤ bytes.length ∧ b.more.2 = none))) := by
  obtain ⟨h1, h2, h3⟩ := hb
  obtain ⟨g1, g2, g3, g4, g5⟩ := grow_facts b h2
  have hroom : 1 ≤ C15Faults.roomOf b := by unfold C15Faults.roomOf; omega
  obtain ⟨r1, r2, r3, r4⟩ := read_ok b.src h3 (C15Faults.roomOf b) hroom
  have hgsz : b.len + (b.src.read (C15Faults.roomOf b)).1.length ≤ (C15Faults.growBuf b).data.size := by
    have : C15Faults.roomOf b = (C15Faults.growBuf b).data.size - b.len := rfl
    omega
  rw [C15Faults.more_eq]
  generalize b.src.read (C15Faults.roomOf b) = rd at r1 r2 r3 r4 hgsz
  obtain ⟨bytes, e, s'⟩ := rd
  simp only at r1 r2 r3 r4 hgsz ⊢
  refine ⟨⟨?_, by rw [size_writeAll]; exact hgsz, r1⟩, g2, bytes, ?_, r2, rfl, r4⟩
  · show (C15Faults.growBuf b).cursor ≤ b.len + bytes.length
    omega
  · show (writeAll _ _ _).toList.take (b.len + bytes.length) = _
    rw [toList_writeAll _ _ _ hgsz, g4,
      List.take_append_of_le_length (by rw [List.length_append, view_length b h2]; omega),
      List.take_of_length_le (by rw [List.length_append, view_length b h2]; omega)]

/-- `reset()` drops the consumed prefix of the loaded bytes. -/
theorem reset_ok (b : Buf) (hb : BufOK b) :
    BufOK b.reset ∧ view b.reset = (view b).drop b.cursor ∧ b.reset.src = b.src ∧ b.reset.cursor = 0 := by
  obtain ⟨h1, h2, h3⟩ := hb
  have hlen : ((b.data.toList.take b.len).drop b.cursor).length = b.len - b.cursor := by
    simp [List.length_drop, List.length_take]; omega
  refine ⟨⟨Nat.zero_le _, ?_, h3⟩, ?_, rfl, rfl⟩
  · show b.len - b.cursor ≤ (writeAll _ _ _).size
    rw [size_writeAll]; omega
  · show (writeAll _ _ _).toList.take (b.len - b.cursor) = _
    rw [toList_writeAll _ _ _ (by rw [hlen]; omega)]
    simp only [List.take_zero, List.nil_append, view]
    rw [List.take_append_of_le_length (by rw [hlen]; exact Nat.le_refl _), List.take_of_length_le (by rw [hlen]; exact Nat.le_refl _)]

/-- a loaded byte, read from the array -/
theorem view_get (b : Buf) (h : b.len ≤ b.data.size) (i : Nat) (hi : i < b.len) : (view b)[i]? = some b.data[i]! := by
  have hs : i < b.data.size := by omega
  simp only [view, List.getElem?_take, hi, ↓reduceIte]
  rw [getElem!_pos b.data i hs, List.getElem?_eq_getElem (by simpa using hs)]
  simp

/-- overwriting a loaded byte -/
theorem view_set (b : Buf) (w : Nat) (x : Byte) :
    view { b with data := b.data.setIfInBounds w x } = (view b).set w x := by
  simp [view, List.take_set]

/-- a slice of the buffer below `len` is a slice of the loaded bytes -/
theorem slice_view (b : Buf) (i j : Nat) (hj : j ≤ b.len) : b.slice i j = ((view b).take j).drop i := by
  simp only [Buf.slice, view, List.take_take]
  rw [Nat.min_eq_left hj]

/-! ### The state relation -/

/-- `t` is the loaded twin of `b`: all bytes, delivered or not, same cursor. -/
structure Rel (b : Buf) (t : Full.St) : Prop where
  data : t.data = view b ++ b.src.rest
  fut : t.future = []
  cur : t.cursor = b.cursor

/-- errors: the fault-free reader knows only EOF -/
def cv (e : Option Full.RErr) : Option RErr := e.map (fun _ => RErr.eof)

@[simp] theorem cv_none : cv none = none := rfl
@[simp] theorem cv_eof : cv (some .eof) = some .eof := rfl
theorem cv_some (e : Full.RErr) : cv (some e) = some .eof := rfl

theorem Rel.len {b : Buf} {t : Full.St} (r : Rel b t) (h : b.len ≤ b.data.size) :
    t.data.length = b.len + b.src.rest.length := by
  rw [r.data, List.length_append, view_length b h]

theorem Rel.get {b : Buf} {t : Full.St} (r : Rel b t) (h : b.len ≤ b.data.size) (i : Nat) (hi : i < b.len) :
    t.data[i]? = some b.data[i]! := by
  rw [r.data, List.getElem?_append_left (by rw [view_length b h]; exact hi)]
  exact view_get b h i hi

theorem Rel.slice {b : Buf} {t : Full.St} (r : Rel b t) (h : b.len ≤ b.data.size) (i j : Nat) (hj : j ≤ b.len) :
    t.slice i j = b.slice i j := by
  rw [slice_view b i j hj, Full.St.slice, r.data, List.take_append_of_le_length (by rw [view_length b h]; exact hj)]

theorem Rel.more {b : Buf} {t : Full.St} (r : Rel b t) (hb : BufOK b) : Rel b.more.1 t := by
  obtain ⟨_, hc, bytes, hv, hr, _, _⟩ := more_ok b hb
  exact ⟨by rw [r.data, hv, List.append_assoc, hr], r.fut, by rw [r.cur, hc]⟩

theorem Rel.reset {b : Buf} {t : Full.St} (r : Rel b t) (hb : BufOK b) : Rel b.reset t.reset := by
  obtain ⟨_, hv, hs, hc⟩ := reset_ok b hb
  refine ⟨?_, r.fut, by rw [hc]; rfl⟩
  show t.data.drop t.cursor = _
  rw [r.data, r.cur, hv, hs, List.drop_append_of_le_length (by rw [view_length b hb.len]; exact hb.cur)]

theorem Rel.cursor {b : Buf} {t : Full.St} (r : Rel b t) (c : Nat) :
    Rel { b with cursor := c } { t with cursor := c } := ⟨r.data, r.fut, rfl⟩


/-! ## §2 `Full` on a loaded state, one round at a time -/

/-- the `keep` continuation of `Full.quoted` -/
def fKeep (delim : Byte) (F : Nat) (s : Full.St) (start w : Nat) : Option (Full.Res × Full.St) :=
  if w + 1 != s.cursor then
    match s.data[s.cursor]? with
    | none => none
    | some nb => Full.quoted delim F { s with data := s.data.set (w + 1) nb } start (w + 1) 0
  else Full.quoted delim F s start (w + 1) 0

/-- the byte switch of `Full.quoted` -/
def fBody (delim : Byte) (F : Nat) (s : Full.St) (start w qc : Nat) (ch : Byte) : Option (Full.Res × Full.St) :=
  if ch == delim then (if qc % 2 != 0 then some (⟨s.slice start w, false, none⟩, s) else fKeep delim F s start w)
  else if ch == LF then (if qc % 2 != 0 then some (⟨s.slice start w, true, none⟩, s) else fKeep delim F s start w)
  else if ch == CR then (if qc % 2 != 0 then Full.quoted delim F s start w qc else fKeep delim F s start w)
  else if ch == QUOTE then (if (qc + 1) % 2 == 1 then Full.quoted delim F s start w (qc + 1) else fKeep delim F s start w)
  else fKeep delim F s start w

theorem quoted_loaded (delim : Byte) (F : Nat) (t : Full.St) (start w qc : Nat) (hf : t.future = []) :
    Full.quoted delim (F + 1) t start w qc =
      if t.cursor + 1 ≥ t.data.length then
        (if qc % 2 != 0 && decide (t.cursor < t.data.length) && t.data[t.cursor]? == some delim then
          some (⟨t.slice start w, false, none⟩, { t with cursor := t.cursor + 1 })
        else some (⟨t.slice start w, true, some .eof⟩, t))
      else match t.data[t.cursor]? with
        | none => none
        | some ch => fBody delim F { t with cursor := t.cursor + 1 } start w qc ch := by
  unfold Full.quoted
  rw [Full.ensure2_loaded _ t hf (by omega)]
  by_cases hc : t.cursor + 1 ≥ t.data.length
  · simp only [hc, ↓reduceIte]
  · simp only [hc, ↓reduceIte]
    rfl

/-! ## §3 the simulation -/

/-- outcome of the quoted loop of `Csv` started from `b`, against the outcome `(r, t')` of `Full` -/
def QRes (b : Buf) (r : Full.Res) (t' : Full.St) (o : Out (List Byte × Bool × Option RErr × Buf)) : Prop :=
  ∃ b', o = .ok (r.field, r.hitEOL, cv r.err, b') ∧ BufOK b' ∧ Rel b' t' ∧ b'.src.rest.length ≤ b.src.rest.length

theorem QRes.mono {b1 b : Buf} {r t' o} (h : QRes b1 r t' o) (hl : b1.src.rest.length ≤ b.src.rest.length) : QRes b r t' o := by
  obtain ⟨b', h1, h2, h3, h4⟩ := h
  exact ⟨b', h1, h2, h3, Nat.le_trans h4 hl⟩

theorem quotedLoop_sim (delim : Byte) : ∀ (fuel : Nat) (b : Buf) (t : Full.St) (start w qc F : Nat) (r : Full.Res) (t' : Full.St),
    BufOK b → Rel b t → w ≤ b.cursor →
    Full.quoted delim F t start w qc = some (r, t') → F + b.src.rest.length ≤ fuel →
    QRes b r t' (quotedLoop fuel b delim start w qc) := by
  intro fuel
  induction fuel with
  | zero =>
    intro b t start w qc F r t' _ _ _ h hF
    have : F = 0 := by omega
    subst this
    simp [Full.quoted] at h
  | succ fuel ih =>
    intro b t start w qc F r t' hb rel hw h hF
    rw [C15Faults.quotedLoop_succ]
    have hT := rel.len hb.len
    by_cases hc : b.cursor + 1 ≥ b.len
    · simp only [hc, ↓reduceIte]
      obtain ⟨hb', hcur, bytes, hv, hr, hl, hcase⟩ := more_ok b hb
      have rel' := rel.more hb
      rcases hcase with ⟨hrest, hbytes, he⟩ | ⟨hrest, hbl, he⟩
      · -- EOF
        rw [he]
        simp only
        obtain ⟨F, rfl⟩ : ∃ F', F = F' + 1 := by
          cases F with
          | zero => simp [Full.quoted] at h
          | succ F' => exact ⟨F', rfl⟩
        rw [quoted_loaded _ _ _ _ _ _ rel.fut] at h
        have hT' : t.data.length = b.len := by rw [hT, hrest]; rfl
        have hl' : b.more.1.len = b.len := by rw [hl, hbytes]; rfl
        have hge : t.cursor + 1 ≥ t.data.length := by rw [rel.cur, hT']; exact hc
        simp only [hge, ↓reduceIte] at h
        have hrest' : b.more.1.src.rest.length ≤ b.src.rest.length := by
          have := congrArg List.length hr; simp at this; omega
        have hsl : ∀ c, ({ b.more.1 with cursor := c } : Buf).slice start w = t.slice start w := by
          intro c
          exact (Rel.slice (rel'.cursor c) hb'.len start w (by show w ≤ b.more.1.len; rw [hl']; have := hb.cur; omega)).symm
        have hcond : (RErr.eof == RErr.eof && qc % 2 != 0 && decide (b.more.1.cursor < b.more.1.len)
              && b.more.1.data[b.more.1.cursor]! == delim) =
            (qc % 2 != 0 && decide (t.cursor < t.data.length) && t.data[t.cursor]? == some delim) := by
          rw [hcur, hl', rel.cur, hT']
          by_cases hlt : b.cursor < b.len
          · have hg := rel'.get hb'.len b.cursor (by rw [hl']; exact hlt)
            rw [hg]
            simp [hlt]
          · simp [hlt]
        rw [hcond]
        by_cases hcd : (qc % 2 != 0 && decide (t.cursor < t.data.length) && t.data[t.cursor]? == some delim) = true
        · simp only [hcd, ↓reduceIte, Option.some.injEq, Prod.mk.injEq] at h ⊢
          obtain ⟨h1, h2⟩ := h
          subst h1; subst h2
          refine ⟨{ b.more.1 with cursor := b.more.1.cursor + 1 }, ?_, ⟨?_, hb'.len, hb'.src⟩, ?_, hrest'⟩
          · rw [hsl]; rfl
          · show b.more.1.cursor + 1 ≤ b.more.1.len
            simp only [Bool.and_eq_true, decide_eq_true_eq] at hcd
            rw [hcur, hl']; have := hcd.1.2; rw [rel.cur, hT'] at this; omega
          · exact ⟨rel'.data, rel'.fut, by show t.cursor + 1 = b.more.1.cursor + 1; rw [hcur, rel.cur]⟩
        · simp only [hcd, Bool.false_eq_true, ↓reduceIte, Option.some.injEq, Prod.mk.injEq] at h ⊢
          obtain ⟨h1, h2⟩ := h
          subst h1; subst h2
          refine ⟨_, ?_, hb', rel', hrest'⟩
          have := hsl b.more.1.cursor
          rw [← this]; rfl
      · -- a refill: stutter step
        rw [he]
        simp only
        have hlt : b.more.1.src.rest.length < b.src.rest.length := by
          have := congrArg List.length hr; simp at this; omega
        exact (ih b.more.1 t start w qc F r t' hb' rel' (by rw [hcur]; exact hw) h (by omega)).mono (Nat.le_of_lt hlt)
    · -- a byte
      simp only [hc, ↓reduceIte]
      obtain ⟨F, rfl⟩ : ∃ F', F = F' + 1 := by
        cases F with
        | zero => simp [Full.quoted] at h
        | succ F' => exact ⟨F', rfl⟩
      rw [quoted_loaded _ _ _ _ _ _ rel.fut] at h
      have hlt : b.cursor + 1 < b.len := by omega
      have hge : ¬ t.cursor + 1 ≥ t.data.length := by rw [rel.cur, hT]; omega
      simp only [hge, ↓reduceIte] at h
      rw [rel.cur, rel.get hb.len b.cursor (by omega)] at h
      simp only at h
      unfold C15Faults.qBody
      have hcl : b.cursor < b.len := by omega
      simp only [hcl, ↓reduceIte]
      generalize b.data[b.cursor]! = ch at h ⊢
      -- the successor states
      have hb1 : BufOK { b with cursor := b.cursor + 1 } := ⟨by show b.cursor + 1 ≤ b.len; omega, hb.len, hb.src⟩
      have rel1 : Rel { b with cursor := b.cursor + 1 } { t with cursor := b.cursor + 1 } := rel.cursor _
      have hret : ∀ eol : Bool, some (Full.Res.mk (Full.St.slice { t with cursor := b.cursor + 1 } start w) eol none,
            ({ t with cursor := b.cursor + 1 } : Full.St)) = some (r, t') →
          QRes b r t' (.ok (({ b with cursor := b.cursor + 1 } : Buf).slice start w, eol, none, { b with cursor := b.cursor + 1 })) := by
        intro eol hh
        simp only [Option.some.injEq, Prod.mk.injEq] at hh
        obtain ⟨h1, h2⟩ := hh
        subst h1; subst h2
        refine ⟨_, ?_, hb1, rel1, Nat.le_refl _⟩
        rw [← Rel.slice rel1 hb.len start w (by show w ≤ b.len; omega)]; rfl
      have hrec : ∀ qc', Full.quoted delim F { t with cursor := b.cursor + 1 } start w qc' = some (r, t') →
          QRes b r t' (quotedLoop fuel { b with cursor := b.cursor + 1 } delim start w qc') := by
        intro qc' hh
        exact (ih _ _ start w qc' F r t' hb1 rel1 (by show w ≤ b.cursor + 1; omega) hh (by show F + b.src.rest.length ≤ fuel; omega)).mono (Nat.le_refl _)
      have hkeep : fKeep delim F { t with cursor := b.cursor + 1 } start w = some (r, t') →
          QRes b r t' (C15Faults.qKeep fuel delim start w { b with cursor := b.cursor + 1 }) := by
        intro hh
        unfold fKeep at hh
        unfold C15Faults.qKeep
        simp only at hh ⊢
        by_cases hne : (w + 1 != b.cursor + 1) = true
        · simp only [hne, ↓reduceIte] at hh ⊢
          rw [rel.get hb.len (b.cursor + 1) hlt] at hh
          simp only at hh
          have hbd : b.cursor + 1 + 1 ≤ b.data.size ∧ w + 1 + 1 ≤ b.data.size := by have := hb.len; omega
          simp only [hbd, and_self, ↓reduceIte]
          have hwlt : w + 1 < b.len := by
            have : w + 1 ≠ b.cursor + 1 := by simpa using hne
            omega
          have hb2 : BufOK { b with cursor := b.cursor + 1, data := b.data.setIfInBounds (w + 1) b.data[b.cursor + 1]! } :=
            ⟨by show b.cursor + 1 ≤ b.len; omega, by show b.len ≤ (b.data.setIfInBounds _ _).size; simpa using hb.len, hb.src⟩
          have rel2 : Rel { b with cursor := b.cursor + 1, data := b.data.setIfInBounds (w + 1) b.data[b.cursor + 1]! }
              { t with cursor := b.cursor + 1, data := t.data.set (w + 1) b.data[b.cursor + 1]! } := by
            refine ⟨?_, rel.fut, rfl⟩
            show t.data.set (w + 1) _ = view _ ++ b.src.rest
            have : view { b with cursor := b.cursor + 1, data := b.data.setIfInBounds (w + 1) b.data[b.cursor + 1]! }
                = (view b).set (w + 1) b.data[b.cursor + 1]! := by simp [view, List.take_set]
            rw [this, rel.data]
            exact Full.set_append _ _ _ _ (by rw [view_length b hb.len]; exact hwlt)
          exact (ih _ _ start (w + 1) 0 F r t' hb2 rel2 (by show w + 1 ≤ b.cursor + 1; omega) hh
            (by show F + b.src.rest.length ≤ fuel; omega)).mono (Nat.le_refl _)
        · simp only [hne, Bool.false_eq_true, ↓reduceIte] at hh ⊢
          exact (ih _ _ start (w + 1) 0 F r t' hb1 rel1 (by show w + 1 ≤ b.cursor + 1; omega) hh
            (by show F + b.src.rest.length ≤ fuel; omega)).mono (Nat.le_refl _)
      unfold fBody at h
      by_cases c1 : (ch == delim) = true
      · simp only [c1, ↓reduceIte] at h ⊢
        by_cases c2 : (qc % 2 != 0) = true
        · simp only [c2, ↓reduceIte] at h ⊢; exact hret _ h
        · simp only [c2, Bool.false_eq_true, ↓reduceIte] at h ⊢; exact hkeep h
      · simp only [c1, Bool.false_eq_true, ↓reduceIte] at h ⊢
        by_cases c3 : (ch == LF) = true
        · simp only [c3, ↓reduceIte] at h ⊢
          by_cases c2 : (qc % 2 != 0) = true
          · simp only [c2, ↓reduceIte] at h ⊢; exact hret _ h
          · simp only [c2, Bool.false_eq_true, ↓reduceIte] at h ⊢; exact hkeep h
        · simp only [c3, Bool.false_eq_true, ↓reduceIte] at h ⊢
          by_cases c4 : (ch == CR) = true
          · simp only [c4, ↓reduceIte] at h ⊢
            by_cases c2 : (qc % 2 != 0) = true
            · simp only [c2, ↓reduceIte] at h ⊢; exact hrec _ h
            · simp only [c2, Bool.false_eq_true, ↓reduceIte] at h ⊢; exact hkeep h
          · simp only [c4, Bool.false_eq_true, ↓reduceIte] at h ⊢
            by_cases c5 : (ch == QUOTE) = true
            · simp only [c5, ↓reduceIte] at h ⊢
              by_cases c6 : ((qc + 1) % 2 == 1) = true
              · simp only [c6, ↓reduceIte] at h ⊢; exact hrec _ h
              · simp only [c6, Bool.false_eq_true, ↓reduceIte] at h ⊢; exact hkeep h
            · simp only [c5, Bool.false_eq_true, ↓reduceIte] at h ⊢; exact hkeep h


/-! ### the unquoted field -/

theorem unq_loaded (delim : Byte) (F : Nat) (fs : Full.FS) (hf : fs.st.future = []) :
    Full.unq delim (F + 1) fs =
      if fs.st.cursor ≥ fs.st.data.length then
        some ({ fs with field := fs.st.slice fs.fieldStart fs.st.cursor, hitEOL := true, err := some .eof }, true)
      else match fs.st.data[fs.st.cursor]? with
        | none => none
        | some ch =>
          if ch == delim then
            some ({ fs with st := { fs.st with cursor := fs.st.cursor + 1 }, field := fs.st.slice fs.fieldStart fs.st.cursor,
                            fieldStart := fs.st.cursor + 1 }, true)
          else if ch == LF then
            some ({ fs with st := { fs.st with cursor := fs.st.cursor + 1 }, field := fs.st.slice fs.fieldStart fs.st.cursor,
                            hitEOL := true }, true)
          else Full.unq delim F { fs with st := { fs.st with cursor := fs.st.cursor + 1 } } := by
  conv => lhs; unfold Full.unq
  rw [Full.ens1_loaded _ hf]
  by_cases hc : fs.st.cursor ≥ fs.st.data.length
  · simp only [hc, ↓reduceIte]
  · simp only [hc, ↓reduceIte]
    rfl

structure RelF (fs : Fields) (a : Full.FS) : Prop where
  st : Rel fs.buf a.st
  start : a.fieldStart = fs.fieldStart
  eol : a.hitEOL = fs.hitEOL
  fld : a.field = fs.field
  err : cv a.err = fs.err

structure FOK (fs : Fields) : Prop where
  start : fs.fieldStart ≤ fs.buf.cursor
  buf : BufOK fs.buf

/-- outcome of a field function of `Csv` started from `fs`, against the outcome `(a', ok)` of `Full` -/
def FRes (fs : Fields) (a' : Full.FS) (ok : Bool) (o : Out (Fields × Bool)) : Prop :=
  ∃ fs', o = .ok (fs', ok) ∧ FOK fs' ∧ RelF fs' a' ∧ fs'.delim = fs.delim ∧
    fs'.buf.src.rest.length ≤ fs.buf.src.rest.length

theorem FRes.mono {f1 fs : Fields} {a' ok o} (h : FRes f1 a' ok o) (hd : f1.delim = fs.delim)
    (hl : f1.buf.src.rest.length ≤ fs.buf.src.rest.length) : FRes fs a' ok o := by
  obtain ⟨fs', h1, h2, h3, h4, h5⟩ := h
  exact ⟨fs', h1, h2, h3, h4.trans hd, Nat.le_trans h5 hl⟩

theorem nextUnquoted_sim (delim : Byte) : ∀ (fuel : Nat) (fs : Fields) (a : Full.FS) (F : Nat) (a' : Full.FS) (ok : Bool),
    FOK fs → RelF fs a → fs.delim = delim → Full.unq delim F a = some (a', ok) → F ≤ fuel →
    FRes fs a' ok (nextUnquoted fuel fs fs.buf.cursor) := by
  intro fuel
  induction fuel with
  | zero =>
    intro fs a F a' ok _ _ _ h hF
    have : F = 0 := by omega
    subst this
    simp [Full.unq] at h
  | succ fuel ih =>
    intro fs a F a' ok hok rel hd h hF
    obtain ⟨F, rfl⟩ : ∃ F', F = F' + 1 := by
      cases F with
      | zero => simp [Full.unq] at h
      | succ F' => exact ⟨F', rfl⟩
    rw [unq_loaded _ _ _ rel.st.fut] at h
    rw [C15Faults.nextUnquoted_succ]
    -- one byte, on a buffer that has it
    have step : ∀ (fs0 : Fields), FOK fs0 → RelF fs0 a → fs0.delim = delim → fs0.buf.cursor < fs0.buf.len →
        fs0.buf.src.rest.length ≤ fs.buf.src.rest.length →
        FRes fs a' ok (C15Faults.unqStep fuel fs0.buf.cursor fs0) := by
      intro fs0 hok0 rel0 hd0 hlt0 hrest0
      have hT := rel0.st.len hok0.buf.len
      have hge : ¬ a.st.cursor ≥ a.st.data.length := by rw [rel0.st.cur, hT]; omega
      simp only [hge, ↓reduceIte] at h
      rw [rel0.st.cur, rel0.st.get hok0.buf.len _ hlt0] at h
      simp only at h
      have hsz : fs0.buf.cursor < fs0.buf.data.size := by have := hok0.buf.len; omega
      unfold C15Faults.unqStep
      simp only [hsz, hlt0, ↓reduceDIte, ↓reduceIte]
      rw [← getElem!_pos fs0.buf.data fs0.buf.cursor hsz, hd0]
      generalize fs0.buf.data[fs0.buf.cursor]! = ch at h ⊢
      have hb1 : BufOK { fs0.buf with cursor := fs0.buf.cursor + 1 } :=
        ⟨by show fs0.buf.cursor + 1 ≤ fs0.buf.len; omega, hok0.buf.len, hok0.buf.src⟩
      have rel1 : Rel { fs0.buf with cursor := fs0.buf.cursor + 1 } { a.st with cursor := fs0.buf.cursor + 1 } :=
        rel0.st.cursor _
      have hsl : a.st.slice a.fieldStart fs0.buf.cursor =
          ({ fs0.buf with cursor := fs0.buf.cursor + 1 } : Buf).slice fs0.fieldStart fs0.buf.cursor := by
        rw [rel0.start]
        exact Rel.slice rel1 hok0.buf.len _ _ (by show fs0.buf.cursor ≤ fs0.buf.len; omega)
      by_cases c1 : (ch == delim) = true
      · simp only [c1, ↓reduceIte, Option.some.injEq, Prod.mk.injEq] at h ⊢
        obtain ⟨h1, h2⟩ := h
        subst h1; subst h2
        exact ⟨_, rfl, ⟨Nat.le_refl _, hb1⟩, ⟨rel1, rfl, rel0.eol, hsl, rel0.err⟩, hd.symm, hrest0⟩
      · simp only [c1, Bool.false_eq_true, ↓reduceIte] at h ⊢
        by_cases c2 : (ch == LF) = true
        · simp only [c2, ↓reduceIte, Option.some.injEq, Prod.mk.injEq] at h ⊢
          obtain ⟨h1, h2⟩ := h
          subst h1; subst h2
          exact ⟨_, rfl, ⟨by show fs0.fieldStart ≤ fs0.buf.cursor + 1; have := hok0.start; omega, hb1⟩,
            ⟨rel1, rel0.start, rfl, hsl, rel0.err⟩, hd.symm, hrest0⟩
        · simp only [c2, Bool.false_eq_true, ↓reduceIte] at h ⊢
          have := ih { fs0 with buf := { fs0.buf with cursor := fs0.buf.cursor + 1 }, delim := delim }
            { a with st := { a.st with cursor := fs0.buf.cursor + 1 } } F a' ok
            ⟨by show fs0.fieldStart ≤ fs0.buf.cursor + 1; have := hok0.start; omega, hb1⟩
            ⟨rel1, rel0.start, rel0.eol, rel0.fld, rel0.err⟩ rfl h (by omega)
          exact this.mono hd.symm hrest0
    by_cases hc : fs.buf.cursor ≥ fs.buf.len
    · simp only [hc, ↓reduceIte]
      obtain ⟨hb', hcur, bytes, hv, hr, hl, hcase⟩ := more_ok fs.buf hok.buf
      have rel' := rel.st.more hok.buf
      have hT := rel.st.len hok.buf.len
      have hrest' : fs.buf.more.1.src.rest.length ≤ fs.buf.src.rest.length := by
        have := congrArg List.length hr; simp at this; omega
      rcases hcase with ⟨hrest, hbytes, he⟩ | ⟨hrest, hbl, he⟩
      · rw [he]
        simp only
        have hge : a.st.cursor ≥ a.st.data.length := by rw [rel.st.cur, hT, hrest]; simpa using hc
        simp only [hge, ↓reduceIte, Option.some.injEq, Prod.mk.injEq] at h
        obtain ⟨h1, h2⟩ := h
        subst h1; subst h2
        have hl' : fs.buf.more.1.len = fs.buf.len := by rw [hl, hbytes]; rfl
        refine ⟨_, rfl, ⟨by show fs.fieldStart ≤ fs.buf.more.1.cursor; rw [hcur]; exact hok.start, hb'⟩,
          ⟨rel', rel.start, rfl, ?_, rfl⟩, rfl, hrest'⟩
        show a.st.slice a.fieldStart a.st.cursor = fs.buf.more.1.slice fs.fieldStart fs.buf.cursor
        rw [rel.start, rel.st.cur]
        exact Rel.slice rel' hb'.len _ _ (by rw [hl']; exact hok.buf.cur)
      · rw [he]
        simp only
        have := step { fs with buf := fs.buf.more.1 } ⟨by show fs.fieldStart ≤ fs.buf.more.1.cursor; rw [hcur]; exact hok.start, hb'⟩
          ⟨rel', rel.start, rel.eol, rel.fld, rel.err⟩ hd (by show fs.buf.more.1.cursor < fs.buf.more.1.len; rw [hcur, hl]; have := hok.buf.cur; omega) hrest'
        simp only [hcur] at this
        exact this
    · simp only [hc, ↓reduceIte]
      exact step fs hok rel hd (by omega) (Nat.le_refl _)


/-! ### `fields.next` -/

theorem fnext_loaded (delim : Byte) (F : Nat) (fs : Full.FS) (hf : fs.st.future = []) :
    Full.fnext delim F fs =
      if fs.hitEOL then some (fs, false) else
      if fs.st.cursor ≥ fs.st.data.length then
        (if fs.fieldStart > 0 then
          some ({ fs with err := some .eof, field := fs.st.slice fs.fieldStart fs.fieldStart, hitEOL := true }, true)
        else some ({ fs with err := some .eof }, false))
      else match fs.st.data[fs.st.cursor]? with
        | none => none
        | some first =>
          if first == QUOTE then
            match Full.quoted delim F { fs.st with cursor := fs.st.cursor + 1 } (fs.st.cursor + 1) (fs.st.cursor + 1) 0 with
            | none => none
            | some (r, st') =>
              some ({ fs with st := st', field := r.field, hitEOL := r.hitEOL, err := r.err, fieldStart := st'.cursor }, true)
          else Full.unq delim F fs := by
  unfold Full.fnext
  rw [Full.ens1_loaded _ hf]
  by_cases he : fs.hitEOL = true
  · rw [if_pos he, if_pos he]
  · rw [if_neg he, if_neg he]
    by_cases hc : fs.st.cursor ≥ fs.st.data.length
    · rw [if_pos hc, if_pos hc]
    · rw [if_neg hc, if_neg hc]
      rfl

theorem fnext_sim (delim : Byte) (fuel : Nat) (fs : Fields) (a : Full.FS) (F : Nat) (a' : Full.FS) (ok : Bool)
    (hok : FOK fs) (rel : RelF fs a) (hd : fs.delim = delim) (h : Full.fnext delim F a = some (a', ok))
    (hF : F + fs.buf.src.rest.length ≤ fuel) :
    FRes fs a' ok (fs.next fuel) := by
  rw [fnext_loaded _ _ _ rel.st.fut] at h
  rw [C15Faults.Fields_next_eq]
  rw [rel.eol] at h
  by_cases heol : fs.hitEOL = true
  · rw [if_pos heol] at h ⊢
    simp only [Option.some.injEq, Prod.mk.injEq] at h
    obtain ⟨h1, h2⟩ := h
    subst h1; subst h2
    exact ⟨fs, rfl, hok, rel, rfl, Nat.le_refl _⟩
  · rw [if_neg heol] at h ⊢
    -- the first byte of a field, on a buffer that has it
    have go : ∀ (fs0 : Fields), FOK fs0 → RelF fs0 a → fs0.delim = delim → fs0.buf.cursor < fs0.buf.len →
        fs0.buf.src.rest.length ≤ fs.buf.src.rest.length →
        FRes fs a' ok (C15Faults.nextGo fuel fs0) := by
      intro fs0 hok0 rel0 hd0 hlt0 hrest0
      have hT := rel0.st.len hok0.buf.len
      have hge : ¬ a.st.cursor ≥ a.st.data.length := by rw [rel0.st.cur, hT]; omega
      simp only [hge, ↓reduceIte] at h
      rw [rel0.st.cur, rel0.st.get hok0.buf.len _ hlt0] at h
      simp only at h
      unfold C15Faults.nextGo
      simp only [hlt0, ↓reduceIte]
      by_cases cq : (fs0.buf.data[fs0.buf.cursor]! == QUOTE) = true
      · simp only [cq, ↓reduceIte] at h ⊢
        cases hq : Full.quoted delim F { a.st with cursor := fs0.buf.cursor + 1 } (fs0.buf.cursor + 1) (fs0.buf.cursor + 1) 0 with
        | none => rw [hq] at h; simp at h
        | some rs =>
          obtain ⟨r, st'⟩ := rs
          rw [hq] at h
          simp only [Option.some.injEq, Prod.mk.injEq] at h
          obtain ⟨h1, h2⟩ := h
          subst h1; subst h2
          have hb1 : BufOK { fs0.buf with cursor := fs0.buf.cursor + 1 } :=
            ⟨by show fs0.buf.cursor + 1 ≤ fs0.buf.len; omega, hok0.buf.len, hok0.buf.src⟩
          obtain ⟨b', q1, q2, q3, q4⟩ := quotedLoop_sim delim fuel { fs0.buf with cursor := fs0.buf.cursor + 1 }
            { a.st with cursor := fs0.buf.cursor + 1 } (fs0.buf.cursor + 1) (fs0.buf.cursor + 1) 0 F r st' hb1
            (rel0.st.cursor _) (Nat.le_refl _) hq (by show F + fs0.buf.src.rest.length ≤ fuel; omega)
          unfold nextQuoted
          simp only
          rw [hd0, q1]
          simp only
          refine ⟨{ fs0 with field := r.field, hitEOL := r.hitEOL, err := cv r.err, buf := b', fieldStart := b'.cursor,
                             delim := delim }, ?_,
            ⟨Nat.le_refl _, q2⟩, ⟨q3, q3.cur, rfl, rfl, rfl⟩, hd.symm,
            Nat.le_trans (show b'.src.rest.length ≤ fs0.buf.src.rest.length from q4) hrest0⟩
          cases r.err with
          | none => rfl
          | some e => rfl
      · simp only [cq, Bool.false_eq_true, ↓reduceIte] at h ⊢
        exact (nextUnquoted_sim delim fuel fs0 a F a' ok hok0 rel0 hd0 h (by omega)).mono (hd0.trans hd.symm) hrest0
    by_cases hc : fs.buf.cursor ≥ fs.buf.len
    · simp only [hc, ↓reduceIte]
      obtain ⟨hb', hcur, bytes, hv, hr, hl, hcase⟩ := more_ok fs.buf hok.buf
      have rel' := rel.st.more hok.buf
      have hT := rel.st.len hok.buf.len
      have hrest' : fs.buf.more.1.src.rest.length ≤ fs.buf.src.rest.length := by
        have := congrArg List.length hr; simp at this; omega
      rcases hcase with ⟨hrest, hbytes, he⟩ | ⟨hrest, hbl, he⟩
      · rw [he]
        simp only
        have hge : a.st.cursor ≥ a.st.data.length := by rw [rel.st.cur, hT, hrest]; simpa using hc
        simp only [hge, ↓reduceIte] at h
        rw [rel.start] at h
        have hok' : FOK { fs with buf := fs.buf.more.1 } :=
          ⟨by show fs.fieldStart ≤ fs.buf.more.1.cursor; rw [hcur]; exact hok.start, hb'⟩
        by_cases hfs0 : fs.fieldStart > 0
        · simp only [hfs0, ↓reduceIte, Option.some.injEq, Prod.mk.injEq] at h
          obtain ⟨h1, h2⟩ := h
          subst h1; subst h2
          have : (RErr.eof == RErr.eof && decide (fs.fieldStart > 0)) = true := by simp [hfs0]
          simp only [this, ↓reduceIte]
          refine ⟨_, rfl, ⟨hok'.start, hb'⟩, ⟨rel', rfl, rfl, ?_, rfl⟩, rfl, hrest'⟩
          show a.st.slice fs.fieldStart fs.fieldStart = fs.buf.more.1.slice fs.fieldStart fs.fieldStart
          simp [Full.St.slice, Buf.slice]
        · simp only [hfs0, ↓reduceIte, Option.some.injEq, Prod.mk.injEq] at h
          obtain ⟨h1, h2⟩ := h
          subst h1; subst h2
          have : (RErr.eof == RErr.eof && decide (fs.fieldStart > 0)) = false := by simp [hfs0]
          simp only [this, Bool.false_eq_true, ↓reduceIte]
          exact ⟨_, rfl, ⟨hok'.start, hb'⟩, ⟨rel', rfl, rfl, rel.fld, rfl⟩, rfl, hrest'⟩
      · rw [he]
        simp only
        exact go { fs with buf := fs.buf.more.1 } ⟨by show fs.fieldStart ≤ fs.buf.more.1.cursor; rw [hcur]; exact hok.start, hb'⟩
          ⟨rel', rel.start, rel.eol, rel.fld, rel.err⟩ hd
          (by show fs.buf.more.1.cursor < fs.buf.more.1.len; rw [hcur, hl]; have := hok.buf.cur; omega) hrest'
    · simp only [hc, ↓reduceIte]
      exact go fs hok rel hd (by omega) (Nat.le_refl _)

/-! ### the row loop, `Reader.Next`, the whole document -/

theorem rowLoop_sim (delim : Byte) (fuel F : Nat) : ∀ (n n' : Nat) (fs : Fields) (a : Full.FS) (acc : List (List Byte))
    (a' : Full.FS) (row : List (List Byte)),
    FOK fs → RelF fs a → fs.delim = delim → Full.rowLoop delim F n a acc = some (a', row) → n ≤ n' →
    F + fs.buf.src.rest.length ≤ fuel →
    ∃ fs', rowLoop fuel n' fs acc = .ok (fs', row) ∧ FOK fs' ∧ RelF fs' a' ∧ fs'.delim = delim ∧
      fs'.buf.src.rest.length ≤ fs.buf.src.rest.length := by
  intro n
  induction n with
  | zero => intro n' fs a acc a' row _ _ _ h; simp [Full.rowLoop] at h
  | succ n ih =>
    intro n' fs a acc a' row hok rel hd h hn hF
    obtain ⟨m, rfl⟩ : ∃ m, n' = m + 1 := ⟨n' - 1, by omega⟩
    unfold Full.rowLoop at h
    unfold rowLoop
    cases hf : Full.fnext delim F a with
    | none => rw [hf] at h; simp at h
    | some p =>
      obtain ⟨a1, ok⟩ := p
      rw [hf] at h
      obtain ⟨fs1, q1, q2, q3, q4, q5⟩ := fnext_sim delim fuel fs a F a1 ok hok rel hd hf hF
      rw [q1]
      cases ok with
      | true =>
        simp only at h ⊢
        rw [← q3.fld]
        obtain ⟨fs', r1, r2, r3, r4, r5⟩ := ih m fs1 a1 _ a' row q2 q3 (q4.trans hd) h (by omega) (by omega)
        exact ⟨fs', r1, r2, r3, r4, Nat.le_trans r5 q5⟩
      | false =>
        simp only [Option.some.injEq, Prod.mk.injEq] at h ⊢
        obtain ⟨h1, h2⟩ := h
        subst h1; subst h2
        exact ⟨fs1, rfl, q2, q3, q4.trans hd, q5⟩

theorem Reader_next_eq (fuel : Nat) (r : Reader) :
    r.next fuel =
      if r.fs.err != none then .ok (r, false) else
      match rowLoop fuel fuel { r.fs with buf := r.fs.buf.reset, field := [], fieldStart := 0, hitEOL := false } [] with
      | .panic w => .panic w
      | .ok (fs, row) =>
        if (Full.trimCR row).isEmpty then
          .ok ({ fs := if fs.err == none then { fs with err := some .eof } else fs, row := [] }, false)
        else .ok ({ fs := fs, row := Full.trimCR row }, true) := rfl

theorem readerNext_sim (delim : Byte) (fuel F : Nat) (r : Reader) (a a' : Full.FS) (row : List (List Byte)) (ok : Bool)
    (hok : FOK r.fs) (rel : RelF r.fs a) (hd : r.fs.delim = delim)
    (h : Full.readerNext delim F a = some (a', row, ok)) (hF : F + r.fs.buf.src.rest.length ≤ fuel) :
    ∃ r', r.next fuel = .ok (r', ok) ∧ (ok = true → r'.row = row) ∧ FOK r'.fs ∧ RelF r'.fs a' ∧ r'.fs.delim = delim ∧
      r'.fs.buf.src.rest.length ≤ r.fs.buf.src.rest.length := by
  unfold Full.readerNext at h
  rw [Reader_next_eq]
  by_cases he : a.err.isSome = true
  · have he' : (r.fs.err != none) = true := by
      rw [← rel.err]
      cases hx : a.err with
      | none => rw [hx] at he; simp at he
      | some e => simp [cv]
    simp only [he, ↓reduceIte, Option.some.injEq, Prod.mk.injEq] at h
    obtain ⟨h1, h2, h3⟩ := h
    subst h1; subst h2; subst h3
    simp only [he', ↓reduceIte]
    exact ⟨r, rfl, by simp, hok, rel, hd, Nat.le_refl _⟩
  · have he' : (r.fs.err != none) = false := by
      rw [← rel.err]
      cases hx : a.err with
      | none => simp [cv]
      | some e => rw [hx] at he; simp at he
    simp only [he, Bool.false_eq_true, ↓reduceIte] at h
    simp only [he', Bool.false_eq_true, ↓reduceIte]
    obtain ⟨hbr, hv, hs, hc0⟩ := reset_ok r.fs.buf hok.buf
    cases hr : Full.rowLoop delim F F { a with st := a.st.reset, field := [], fieldStart := 0, hitEOL := false } [] with
    | none => rw [hr] at h; simp at h
    | some p =>
      obtain ⟨a1, row1⟩ := p
      rw [hr] at h
      obtain ⟨fs1, q1, q2, q3, q4, q5⟩ := rowLoop_sim delim fuel F F fuel
        { r.fs with buf := r.fs.buf.reset, field := [], fieldStart := 0, hitEOL := false }
        { a with st := a.st.reset, field := [], fieldStart := 0, hitEOL := false } [] a1 row1
        ⟨Nat.zero_le _, hbr⟩ ⟨rel.st.reset hok.buf, rfl, rfl, rfl, rel.err⟩ hd hr (by omega)
        (by show F + r.fs.buf.reset.src.rest.length ≤ fuel; rw [hs]; exact hF)
      have q5' : fs1.buf.src.rest.length ≤ r.fs.buf.src.rest.length := by
        have : ({ r.fs with buf := r.fs.buf.reset, field := [], fieldStart := 0, hitEOL := false } : Fields).buf.src = r.fs.buf.src := hs
        rw [this] at q5; exact q5
      rw [q1]
      simp only at h ⊢
      by_cases hemp : (Full.trimCR row1).isEmpty = true
      · simp only [hemp, ↓reduceIte, Option.some.injEq, Prod.mk.injEq] at h ⊢
        obtain ⟨h1, h2, h3⟩ := h
        subst h1; subst h2; subst h3
        have herr : fs1.err = cv a1.err := q3.err.symm
        cases hx : a1.err with
        | none =>
          have h0 : fs1.err = none := by rw [herr, hx]; rfl
          have hc : (fs1.err == none) = true := by rw [h0]; rfl
          exact ⟨{ fs := { fs1 with err := some .eof }, row := [] }, by rw [if_pos hc], by simp, ⟨q2.start, q2.buf⟩,
            ⟨q3.st, q3.start, q3.eol, q3.fld, rfl⟩, q4, q5'⟩
        | some e =>
          have h0 : fs1.err = some .eof := by rw [herr, hx]; rfl
          have hc : ¬ (fs1.err == none) = true := by rw [h0]; simp
          exact ⟨{ fs := fs1, row := [] }, by rw [if_neg hc], by simp, q2,
            ⟨q3.st, q3.start, q3.eol, q3.fld, h0.symm⟩, q4, q5'⟩
      · simp only [hemp, Bool.false_eq_true, ↓reduceIte, Option.some.injEq, Prod.mk.injEq] at h ⊢
        obtain ⟨h1, h2, h3⟩ := h
        subst h1; subst h2; subst h3
        exact ⟨_, rfl, fun _ => rfl, q2, q3, q4, q5'⟩

theorem readAllLoop_sim (delim : Byte) (fuel F : Nat) : ∀ (n n' : Nat) (r : Reader) (a : Full.FS) (acc : List (List (List Byte)))
    (res : List (List (List Byte)) × Option Full.RErr),
    FOK r.fs → RelF r.fs a → r.fs.delim = delim → Full.readAll delim F n a acc = some res → n ≤ n' →
    F + r.fs.buf.src.rest.length ≤ fuel →
    readAllLoop fuel n' r acc = .ok (res.1, cv res.2) := by
  intro n
  induction n with
  | zero => intro n' r a acc res _ _ _ h; simp [Full.readAll] at h
  | succ n ih =>
    intro n' r a acc res hok rel hd h hn hF
    obtain ⟨m, rfl⟩ : ∃ m, n' = m + 1 := ⟨n' - 1, by omega⟩
    unfold Full.readAll at h
    unfold readAllLoop
    cases hr : Full.readerNext delim F a with
    | none => rw [hr] at h; simp at h
    | some p =>
      obtain ⟨a1, row, ok⟩ := p
      rw [hr] at h
      obtain ⟨r1, q1, q2, q3, q4, q5, q6⟩ := readerNext_sim delim fuel F r a a1 row ok hok rel hd hr hF
      rw [q1]
      cases ok with
      | true =>
        simp only at h ⊢
        rw [q2 rfl]
        exact ih m r1 a1 _ res q3 q4 q5 h (by omega) (by omega)
      | false =>
        simp only [Option.some.injEq] at h ⊢
        subst h
        simp only [q4.err]

/-! ## §4 the bridge -/

/-- **`Csv.readAll` against `Full.readAll`.** Whenever the list-level model, started with the whole document in its
buffer, returns (budgets `F`, `n` within what `Csv.readAll` gives itself), the array-level mirror returns the same rows and
the same final error — for every read schedule with reads ≥ 1, every initial capacity, either way of reporting EOF. -/
theorem readAll_bridge (doc : List Byte) (sched : List Nat) (delim : Byte) (cap : Nat) (eofWD fwd : Bool)
    (hs : ∀ k ∈ sched, 1 ≤ k) (F n : Nat) (res : List (List (List Byte)) × Option Full.RErr)
    (hF : F + doc.length ≤ 8 * doc.length + 64) (hn : n ≤ 8 * doc.length + 64)
    (h : Full.readAll delim F n (Full.loadedFS doc) [] = some res) :
    Csv.readAll doc sched delim cap none eofWD fwd = .ok (res.1, cv res.2) := by
  unfold Csv.readAll
  refine readAllLoop_sim delim _ F n _ _ (Full.loadedFS doc) [] res ?_ ?_ rfl h hn hF
  · exact ⟨Nat.le_refl _, ⟨Nat.le_refl _, Nat.zero_le _, ⟨rfl, hs, fun h => by cases h⟩⟩⟩
  · exact ⟨⟨by simp [view, Full.loadedFS], rfl, rfl⟩, rfl, rfl, rfl, rfl⟩

#print axioms readAll_bridge

end QF.Props.C12Bridge
