import QF.Props.C16CoreFlags
/-!
# C16 — the hypothesis of `ryu_shortest_partial`, decided float by float

`floorsHold mant exp` evaluates the three hypotheses of `ryu_shortest_partial` — the `mulShift64` results for `mv`, `mp`, `mm`
are the exact floors of the scaled quantities — with exact natural-number arithmetic. `ryu_shortest_of_check`: where it
answers `true`, the mirror's decimal is proved to be in the rounding interval, shortest and closest. The replay driver runs
the check on every generated float that takes the general algorithm, so on the explored floats the theorem applies
unconditionally; for all 2^64 floats the hypothesis (Ryu's precision lemma) remains to be proved.
-/
namespace QF.Props.C16Core
open QF.Ryu64

/-- decides the three hypotheses of `ryu_shortest_partial` for one float (run by the replay driver on every generated float) -/
def floorsHold (mant exp : Nat) : Bool :=
  let m2 := decodeM2 mant exp
  let s := mmShiftOf mant exp
  let N := scaleNum exp
  let D := scaleDen exp
  mulShift64 (mvOf m2) (mulOf exp) (shiftOf exp) == mvOf m2 * N / D &&
  mulShift64 (mpOf m2) (mulOf exp) (shiftOf exp) == mpOf m2 * N / D &&
  mulShift64 (mmOf m2 s) (mulOf exp) (shiftOf exp) == mmOf m2 s * N / D

/-- For a float on which the check succeeds, `ryu_shortest_partial` applies without hypotheses: the decimal computed by the
mirror of `float64ToDecimal` is in the rounding interval, shortest, and closest. -/
theorem ryu_shortest_of_check (mant exp : Nat) (hm : mant < 2 ^ 52) (he : exp < 2047) (hnz : mant ≠ 0 ∨ exp ≠ 0)
    (hc : floorsHold mant exp = true) :
    ∃ k : Nat, (float64ToDecimal mant exp).e = e10Of exp + (k : Int) ∧
      Spec (mmOf (decodeM2 mant exp) (mmShiftOf mant exp) * scaleNum exp) (mvOf (decodeM2 mant exp) * scaleNum exp)
        (mpOf (decodeM2 mant exp) * scaleNum exp) (scaleDen exp) (acceptBoundsOf mant exp)
        (float64ToDecimal mant exp).m k := by
  unfold floorsHold at hc
  dsimp only at hc
  simp only [Bool.and_eq_true, beq_iff_eq] at hc
  exact ryu_shortest_partial mant exp hm he hnz hc.1.1 hc.1.2 hc.2

end QF.Props.C16Core
