import QF.Props.C18Like
import QF.Props.Tie
import QF.Gen.Matcher
/-!
# C18 — `NewMatcher` and the `Matches` methods of today's source are the mirror of C18Like (tie T1, by semantics)

`QF.Gen.newMatcher` (regenerated on every run by go/cmd/extract/mast.go) is the body of
`func NewMatcher(comparatee string, caseSensitive bool) (Matcher, error)` of /repo/internal/strings/match.go as a decision
tree `QF.MT` (QF/Core/MExpr.lean) whose leaves carry the translated `Matches` method of the matcher type they return.
`MT.run` / `MB.eval` are the Go meaning of such terms. Proved here, over the term generated TODAY:

* `gen_newmatcher_canon`       — finite `decide`: for each of the 16 answers of the four tests `NewMatcher` can make on
                                 its parameters (starts with %, ends with %, has metacharacters, caseSensitive) the tree
                                 reaches the canonical leaf `canonLeaf` (matcher body + match-string term, or the
                                 regular-expression source term). Insensitive to names and to a harmless re-ordering of
                                 the tests; sensitive to the order where it matters (e.g. `fuzzyEnd` tested before
                                 `fuzzyStart && fuzzyEnd`), to the operands and functions of the `Matches` bodies, to
                                 the order of upper-casing and trimming (see the note below).
* `gen_newmatcher_semantics`   — every pattern, every cell, every case mapping and buffer size:
                                 no metacharacters, case-sensitive: `Matches` of the matcher returned =
                                 `runMatcher (matcherKind pat) (trimPercent pat) cell`; case-insensitive: `= ciMatch …`
                                 (both the hand mirror of C18Like); metacharacters: the matcher returned is the one of the
                                 regular expression `regexSource pat cs` (or `regexp.Compile`'s error for it), the source
                                 `Drv.likeRule` looks up (`likeRule_regex`): `^`/`$` unless %, % dropped, `(?i)` for ilike.
* `gen_like_correct`, `gen_ilike_correct` — hence (with `like_correct` / `ilike_correct`) the declarative `Matches`.
* `gen_newmatcher_likeRule`    — the rule the replay driver executes (`Drv.likeRule`) gives the same answers.
* `gen_matcher_upper`          — the function the CI `Matches` bodies call on (&buffer, cell) has the body of the
                                 `ToUpper` mirrored by `U.toUpper` (hash of the text; QF/Props/C18.lean `tie`).

Note on "trimming before upper-casing": `strings.ToUpper(trimPercent(p))` instead of `trimPercent(strings.ToUpper(p))`
gives the same bytes whenever the case mapping is `PctStable` (Unicode's is), so it would NOT be a behaviour change; the
canonical leaf nevertheless fixes the order of today's source (`trimSuffix (trimPrefix (upper param))`), i.e. such an
edit makes `gen_newmatcher_canon` fail although no cell would be matched differently: a conservative alarm, not a
violation of `Matches`. Testing `fuzzyEnd` before `fuzzyStart && fuzzyEnd` IS a behaviour change ("%a%" would become a
prefix matcher) and `gen_newmatcher_canon` fails on it for the flags `fs = fe = true`.
-/
namespace QF.Props.C18Matcher
open QF QF.Drv QF.Props.C18Like

/-- the library functions of a call today: `strings.ToUpper` = the specification `upper up`, the package's `ToUpper` =
its mirror `U.toUpper` with a buffer of `bufLen` bytes, `regexp.QuoteMeta(s) != s` = `s` has one of `\.+*?()|[]{}^$`. -/
def today (up : Char → Char) (bufLen : Nat) : MEnv :=
  { toUpperStd := upper up, toUpperBuf := fun c => U.toUpper up bufLen (decodeAll c), quoteMetaNe := hasMeta }

/-! ## 1. the canonical leaves -/

def trimS (x : SE) : SE := .trimSuffix (.trimPrefix x pct) pct

def kindOf (fs fe : Bool) : Kind :=
  if fs && fe then .contains else if fs then .suffix else if fe then .prefix else .exact

def bodyOf (x : MO) : Kind → MB
  | .exact => .eq x .matchString
  | .prefix => .hasPrefix x .matchString
  | .suffix => .hasSuffix x .matchString
  | .contains => .contains x .matchString

/-- `(?i)` -/
def ciFlag : Bytes := [40, 63, 105, 41]

def reSrc (F : MFlags) : SE :=
  let a : SE := if F.fs then .dropFirst .param else .cat (.lit [94]) .param
  let b : SE := if F.fe then .dropLast a else .cat a (.lit [36])
  if F.cs then b else .cat (.lit ciFlag) b

def msTerm (F : MFlags) : SE :=
  let p : SE := if F.cs then .param else .upper .param
  if kindOf F.fs F.fe = .exact then p else trimS p

def canonLeaf (F : MFlags) : MT :=
  if F.hasMeta then .regexp (reSrc F) (.regexpMatch .cell)
  else .mk (bodyOf (if F.cs then .cell else .upperCell) (kindOf F.fs F.fe)) (msTerm F)

theorem gen_newmatcher_canon : ∀ F ∈ MFlags.all, Gen.newMatcher.flatten F = some (canonLeaf F) := by decide

/-- the CI bodies call the `ToUpper` whose text the mirror `U.toUpper` follows -/
theorem gen_matcher_upper : ∀ h ∈ Gen.matcherUpper, some h = Gen.hashes.lookup "strings.ToUpper" := by decide

/-! ## 2. the primitives -/

theorem pct_isPrefixOf (p : Bytes) : pct.isPrefixOf p = (p.head? == some 37) := by
  cases p with
  | nil => rfl
  | cons a t =>
    simp only [pct, List.isPrefixOf, List.head?_cons, Bool.and_true]
    rw [Bool.eq_iff_iff, beq_iff_eq, beq_iff_eq, Option.some.injEq]; exact eq_comm

theorem pct_isSuffixOf (p : Bytes) : pct.isSuffixOf p = (p.getLast? == some 37) := by
  unfold List.isSuffixOf
  rw [List.getLast?_eq_head?_reverse]
  cases p.reverse with
  | nil => rfl
  | cons a t =>
    simp only [pct, List.reverse_cons, List.reverse_nil, List.nil_append, List.isPrefixOf, List.head?_cons, Bool.and_true]
    rw [Bool.eq_iff_iff, beq_iff_eq, beq_iff_eq, Option.some.injEq]; exact eq_comm

theorem trimPrefix_pct (p : Bytes) : trimPrefixB p pct = (match p with | 37 :: r => r | r => r) := by
  unfold trimPrefixB
  rw [pct_isPrefixOf]
  cases p with
  | nil => rfl
  | cons a t =>
    by_cases h : a = 37
    · subst h; simp [pct]
    · simp only [List.head?_cons, beq_iff_eq, Option.some.injEq, h, if_false]
      split
      · rename_i r e; simp only [List.cons.injEq] at e; exact absurd e.1 h
      · rfl

theorem trimSuffix_pct (p : Bytes) : trimSuffixB p pct = (if p.getLast? == some 37 then p.dropLast else p) := by
  unfold trimSuffixB
  rw [pct_isSuffixOf]
  split
  · simp [pct, List.dropLast_eq_take]
  · rfl

theorem trim_eq (p : Bytes) : trimSuffixB (trimPrefixB p pct) pct = trimPercent p := by
  rw [trimSuffix_pct, trimPrefix_pct]; rfl

theorem infixB_eq (p s : Bytes) : infixB p s = isInfix p s := by
  unfold isInfix
  suffices H : ∀ (s : Bytes) (fuel : Nat), s.length < fuel → infixB p s = isInfix.go p fuel s from H s _ (Nat.lt_succ_self _)
  intro s
  induction s with
  | nil =>
    intro fuel h
    cases fuel with
    | zero => omega
    | succ n => simp [infixB, isInfix.go]
  | cons a t ih =>
    intro fuel h
    cases fuel with
    | zero => omega
    | succ n =>
      simp only [infixB, isInfix.go]
      rw [ih n (by simp at h; omega)]

theorem kindOf_eq (pat : Bytes) : kindOf (pct.isPrefixOf pat) (pct.isSuffixOf pat) = matcherKind pat := by
  rw [pct_isPrefixOf, pct_isSuffixOf]; rfl

/-! ## 3. the string matchers -/

theorem bodyOf_cell (E : MEnv) (k : Kind) (ms cell : Bytes) :
    (bodyOf .cell k).eval E ms cell = some (runMatcher k ms cell) := by
  cases k <;> simp [bodyOf, MB.eval, MO.eval, runMatcher, infixB_eq]

theorem bodyOf_upperCell (E : MEnv) (k : Kind) (ms cell : Bytes) :
    (bodyOf .upperCell k).eval E ms cell = some (runMatcher k ms (E.toUpperBuf cell)) := by
  cases k <;> simp [bodyOf, MB.eval, MO.eval, runMatcher, infixB_eq]

theorem msTerm_eval (up : Char → Char) (bufLen : Nat) (pat : Bytes) (cs : Bool) :
    (msTerm (MFlags.of (today up bufLen) pat cs)).eval (today up bufLen) pat =
      some (matchString (matcherKind pat) (if cs then pat else upper up pat)) := by
  unfold msTerm
  simp only [MFlags.of, kindOf_eq]
  cases cs <;> cases h : matcherKind pat <;>
    simp [SE.eval, matchString, trimS, trim_eq, today]

theorem flags_hasMeta (up : Char → Char) (bufLen : Nat) (pat : Bytes) (cs : Bool) :
    (MFlags.of (today up bufLen) pat cs).hasMeta = hasMeta pat := rfl

/-- the tree runs to its canonical leaf -/
theorem run_canon (up : Char → Char) (bufLen : Nat) (pat : Bytes) (cs : Bool) :
    Gen.newMatcher.run (today up bufLen) pat cs =
      (canonLeaf (MFlags.of (today up bufLen) pat cs)).run (today up bufLen) pat cs :=
  MT.run_flatten _ pat cs _ _ (gen_newmatcher_canon _ (MFlags.of_mem _ pat cs))

theorem run_noMeta (up : Char → Char) (bufLen : Nat) (pat : Bytes) (cs : Bool) (hm : hasMeta pat = false) :
    Gen.newMatcher.run (today up bufLen) pat cs =
      .mk (bodyOf (if cs then .cell else .upperCell) (matcherKind pat))
        (matchString (matcherKind pat) (if cs then pat else upper up pat)) := by
  rw [run_canon]
  unfold canonLeaf
  rw [flags_hasMeta, hm]
  simp only [Bool.false_eq_true, if_false, MT.run, msTerm_eval]
  simp only [MFlags.of, kindOf_eq]
  rfl

/-! ## 4. the regular-expression source -/

/-- the source `Drv.likeRule` looks up for a pattern with metacharacters -/
def regexSource (pat : Bytes) (cs : Bool) : Bytes :=
  let fuzzyStart := pat.head? == some 37
  let fuzzyEnd := pat.getLast? == some 37
  let re := if fuzzyStart then pat.drop 1 else 94 :: pat
  let re := if fuzzyEnd then re.dropLast else re ++ [36]
  if cs then re else strBytes "(?i)" ++ re

theorem ciFlag_eq : strBytes "(?i)" = ciFlag := by decide +kernel

theorem likeRule_regex (st : LState) (pat : Bytes) (cs : Bool) (hm : hasMeta pat = true) :
    likeRule st pat cs =
      (match st.regex.find? (·.1 == regexSource pat cs) with
       | some (_, none) => ("ERR", fun _ => none)
       | some (_, some tbl) => ("Regexp", fun c => (tbl.find? (·.1 == c)).map (·.2))
       | none => ("?missing-regexp-oracle", fun _ => none)) := by
  unfold hasMeta at hm
  unfold likeRule regexSource
  simp only [hm, if_true]
  rfl

/-- "%" is not a metacharacter: a pattern with metacharacters that starts and ends with % has at least two bytes -/
theorem hasMeta_two (pat : Bytes) (hm : hasMeta pat = true) (hs : pat.head? = some 37) : pat.drop 1 ≠ [] := by
  cases pat with
  | nil => simp at hs
  | cons a t =>
    cases t with
    | nil =>
      simp only [List.head?_cons, Option.some.injEq] at hs
      subst hs
      exact absurd hm (by decide +kernel)
    | cons b u => simp

theorem eval_dropLast {E : MEnv} {pat x : Bytes} {a : SE} (h : a.eval E pat = some x) (hx : x ≠ []) :
    (SE.dropLast a).eval E pat = some x.dropLast := by
  cases x with
  | nil => exact absurd rfl hx
  | cons b u => simp only [SE.eval, h]

theorem eval_cat {E : MEnv} {pat x y : Bytes} {a b : SE} (ha : a.eval E pat = some x) (hb : b.eval E pat = some y) :
    (SE.cat a b).eval E pat = some (x ++ y) := by
  simp only [SE.eval, ha, hb]

theorem reSrc_eval (up : Char → Char) (bufLen : Nat) (pat : Bytes) (cs : Bool) (hm : hasMeta pat = true) :
    (reSrc (MFlags.of (today up bufLen) pat cs)).eval (today up bufLen) pat = some (regexSource pat cs) := by
  -- first step: `^` or the leading % dropped; the result is not empty
  have h1 : ∃ (a : SE) (x : Bytes), a.eval (today up bufLen) pat = some x ∧ x ≠ [] ∧
      a = (if pct.isPrefixOf pat then SE.dropFirst .param else SE.cat (.lit [94]) .param) ∧
      x = (if pat.head? == some 37 then pat.drop 1 else 94 :: pat) := by
    rw [pct_isPrefixOf]
    by_cases hs : pat.head? = some 37
    · refine ⟨_, _, ?_, ?_, rfl, rfl⟩
      · cases pat with
        | nil => simp at hs
        | cons a t => simp [hs, SE.eval]
      · simp only [hs, beq_self_eq_true, if_true]
        exact hasMeta_two pat hm hs
    · refine ⟨_, _, ?_, ?_, rfl, rfl⟩
      · simp [hs, SE.eval]
      · simp [hs]
  obtain ⟨a, x, hax, hxne, ea, ex⟩ := h1
  -- second step: `$` or the trailing % dropped
  have h2 : ∃ (b : SE) (y : Bytes), b.eval (today up bufLen) pat = some y ∧
      b = (if pct.isSuffixOf pat then SE.dropLast a else SE.cat a (.lit [36])) ∧
      y = (if pat.getLast? == some 37 then x.dropLast else x ++ [36]) := by
    rw [pct_isSuffixOf]
    by_cases he : pat.getLast? = some 37
    · refine ⟨_, _, ?_, rfl, rfl⟩
      simp only [he, beq_self_eq_true, if_true]
      exact eval_dropLast hax hxne
    · refine ⟨_, _, ?_, rfl, rfl⟩
      have : (pat.getLast? == some 37) = false := by simpa using he
      simp only [this, Bool.false_eq_true, if_false]
      exact eval_cat hax rfl
  obtain ⟨b, y, hby, eb, ey⟩ := h2
  have hr : reSrc (MFlags.of (today up bufLen) pat cs) = (if cs then b else SE.cat (.lit ciFlag) b) := by
    rw [eb, ea]; rfl
  have hs : regexSource pat cs = (if cs then y else ciFlag ++ y) := by
    rw [ey, ex, ← ciFlag_eq]; rfl
  rw [hr, hs]
  cases cs
  · simp only [Bool.false_eq_true, if_false]
    exact eval_cat rfl hby
  · simpa using hby

theorem run_hasMeta (up : Char → Char) (bufLen : Nat) (pat : Bytes) (cs : Bool) (hm : hasMeta pat = true) :
    Gen.newMatcher.run (today up bufLen) pat cs = .regexp (regexSource pat cs) (.regexpMatch .cell) := by
  rw [run_canon]
  unfold canonLeaf
  rw [flags_hasMeta, hm]
  simp only [if_true, MT.run, reSrc_eval up bufLen pat cs hm]

/-! ## 5. the statement -/

/-- Today's `NewMatcher` + `Matches` methods are the mirror of C18Like, for every pattern, cell, case mapping and size
of the scratch buffer; for patterns with metacharacters they build the regular expression `Drv.likeRule` expects. -/
theorem gen_newmatcher_semantics (up : Char → Char) (bufLen : Nat) (pat : Bytes) :
    (hasMeta pat = false →
      (∀ s, Gen.newMatcher.matches (today up bufLen) pat true s = some (runMatcher (matcherKind pat) (trimPercent pat) s)) ∧
      (∀ s, Gen.newMatcher.matches (today up bufLen) pat false s = some (ciMatch up bufLen pat s))) ∧
    (hasMeta pat = true → ∀ cs,
      Gen.newMatcher.run (today up bufLen) pat cs = .regexp (regexSource pat cs) (.regexpMatch .cell)) := by
  refine ⟨fun hm => ⟨fun s => ?_, fun s => ?_⟩, fun hm cs => run_hasMeta up bufLen pat cs hm⟩
  · unfold MT.matches
    rw [run_noMeta up bufLen pat true hm]
    simp only [if_true, bodyOf_cell, matchString_eq]
  · unfold MT.matches
    rw [run_noMeta up bufLen pat false hm]
    simp only [Bool.false_eq_true, if_false, bodyOf_upperCell]
    rfl

/-- like: today's code decides the declarative `Matches pat s` -/
theorem gen_like_correct (up : Char → Char) (bufLen : Nat) (pat s : Bytes) (hm : hasMeta pat = false) :
    Gen.newMatcher.matches (today up bufLen) pat true s = some true ↔ Matches pat s := by
  rw [((gen_newmatcher_semantics up bufLen pat).1 hm).1 s, ← like_correct]
  simp

/-- ilike: today's code decides `Matches (upper pat) (upper s)` (for a case mapping that fixes % and maps nothing else
to it, as Unicode's does; `C18Like.notStable_counterexample` shows the hypothesis is needed) -/
theorem gen_ilike_correct {up : Char → Char} (hup : PctStable up) (bufLen : Nat) (pat s : Bytes) (hm : hasMeta pat = false) :
    Gen.newMatcher.matches (today up bufLen) pat false s = some true ↔ Matches (upper up pat) (upper up s) := by
  rw [((gen_newmatcher_semantics up bufLen pat).1 hm).2 s, ← ilike_correct hup bufLen]
  simp

/-- the rule the replay driver executes answers what today's code answers -/
theorem gen_newmatcher_likeRule (st : LState) (bufLen : Nat) (pat c : Bytes) (cs : Bool) (hm : hasMeta pat = false) :
    (likeRule st pat cs).2 c = Gen.newMatcher.matches (today (upOf st) bufLen) pat cs c := by
  cases cs
  · rw [((gen_newmatcher_semantics (upOf st) bufLen pat).1 hm).2 c, (likeRule_ilike st bufLen pat c hm).2]
  · rw [((gen_newmatcher_semantics (upOf st) bufLen pat).1 hm).1 c, (likeRule_like st pat c hm).2]

/-! ## examples -/

example : Gen.newMatcher.matches (today id 10) [37, 97, 98] true [120, 97, 98] = some true := by decide +kernel
example : Gen.newMatcher.matches (today id 10) [97, 98, 37] true [120, 97, 98] = some false := by decide +kernel
example : Gen.newMatcher.run (today id 10) [37, 97, 46, 98] false = .regexp (strBytes "(?i)a.b$") (.regexpMatch .cell) := by
  decide +kernel
example : regexSource (strBytes "a.b%") true = strBytes "^a.b" := by decide +kernel

#print axioms gen_newmatcher_canon
#print axioms gen_matcher_upper
#print axioms gen_newmatcher_semantics
#print axioms gen_like_correct
#print axioms gen_ilike_correct
#print axioms gen_newmatcher_likeRule
#print axioms likeRule_regex

end QF.Props.C18Matcher
