import QF.Gen.Clauses
import QF.Core.CLExpr
/-!
# C02 — the clause evaluation of Filter in today's source: canonical terms (tie T1)

`QF.Gen.clauseFns` (regenerated on every run by go/cmd/extract/clast.go) holds the bodies of `QFrame.Filter`,
`QFrame.filter`, the `filter` / `Err` methods and constructors of the five clause types, `anyFilterErr`, `orFrames`,
`withErr`, `withIndex`, `index.NewBool`, `Int.Len`, `Bool.Len`, `Int.Filter` and `integer.Max` as terms of the imperative
language `QF.CL` (QF/Core/CLExpr.lean). This file fixes the canonical terms (`canonFns`: today's translation, variables
numbered by declaration order; loop bodies and the two cursor tests have names so that the lemmas about them can be
stated) and proves by finite `decide` that today's extraction is complete (`gen_clauses_no_opaque`) and equal to them
(`gen_clauses_canon`). The meaning of the canonical terms is computed in C02ClausesFns / C02ClausesGen.
-/
namespace QF.Props.C02ClausesGen
open QF QF.CL F

/-! ## `QFrame.Filter`, `QFrame.filter` -/

/-- `if qf.Err != nil { return qf }` for the frame variable `v` -/
def retIfFailed (v : Var) : S := S.ite (E.notNil (E.frameErr (E.var v))) (S.block [S.ret (E.var v)]) (S.block [])

/-- `return qf.withErr(<a new error>)` -/
def retNewErr : S := S.ret (E.call2 FnId.withErr (E.var 0) E.newErr)

def fnPublicFilter : Fn := { params := 2, body := S.block [retIfFailed 0, S.ret (E.callFilter (E.var 1) (E.var 0))] }

/-- `for i, x := range bIndex { if !x { bIndex[i] = !invBIndex[i] } }` -/
abbrev fallbackBody : S :=
  S.block [S.ite (E.not (E.var 15)) (S.block [S.setAt 2 (E.var 14) (E.not (E.at (E.var 13) (E.var 14)))]) (S.block [])]

/-- the look-ups in front of the kernel call: the column, and the column a `types.ColumnName` argument names -/
def leafPrefix : List S := [
  S.lookupColumn 4 5 (E.var 0) (E.var 3),
  S.ite (E.not (E.var 5)) (S.block [retNewErr]) (S.block []),
  S.ifArgIsColumn 3 6 (S.block [
    S.lookupArgColumn 7 8 (E.var 0) 6,
    S.ite (E.not (E.var 8)) (S.block [retNewErr]) (S.block []),
    S.promote [PRule.mk PTy.int PTy.float PSide.column PTy.float, PRule.mk PTy.float PTy.int PSide.arg PTy.float] 4 7,
    S.setArg 3 7])]

/-- the shortcut: `if sComp, ok := f.Comparator.(string); ok { if inverse, ok := filter.Inverse[sComp]; ok { err = s.Filter(qf.index,
inverse, f.Arg, bIndex); if err == nil { done = true } } }` -/
def shortcutPart : S :=
  S.ifCmpIsString 3 11 (S.block [
    S.ifInverseEntry 11 12 (S.block [
      S.kernel 9 4 (E.frameIndex (E.var 0)) (KCmp.inverseVia 12) 3 2,
      S.ite (E.isNil (E.var 9)) (S.block [S.assign 10 (E.bool true)]) (S.block [])])])

/-- the fallback: `if !done { invBIndex := index.NewBool(bIndex.Len()); err = s.Filter(qf.index, f.Comparator, f.Arg, invBIndex);
if err == nil { <complement into the entries of bIndex that are still false> } }` -/
def fallbackPart : S :=
  S.ite (E.not (E.var 10))
    (S.block [
      S.define 13 (E.call1 FnId.newBool (E.call1 FnId.maskLen (E.var 2))),
      S.kernel 9 4 (E.frameIndex (E.var 0)) KCmp.own 3 13,
      S.ite (E.isNil (E.var 9)) (S.block [S.rangeLive 2 (some 14) (some 15) fallbackBody]) (S.block [])])
    (S.block [])

/-- `if f.Inverse { done := false; <shortcut>; <fallback> } else { err = s.Filter(qf.index, f.Comparator, f.Arg, bIndex) }` -/
def leafKernel : S :=
  S.ite (E.inverseFlag (E.var 3))
    (S.block [S.define 10 (E.bool false), shortcutPart, fallbackPart])
    (S.block [S.kernel 9 4 (E.frameIndex (E.var 0)) KCmp.own 3 2])

/-- `var err error; <the kernel calls>; if err != nil { return qf.withErr(…) }` -/
def leafTail : List S := [
  S.define 9 E.nilErr,
  leafKernel,
  S.ite (E.notNil (E.var 9)) (S.block [retNewErr]) (S.block [])]

/-- the body of `for _, f := range filters` -/
abbrev leafBody : S := S.block (leafPrefix ++ leafTail)

def fnLeaves : Fn := { params := 2, body := S.block [
  retIfFailed 0,
  S.define 2 (E.call1 FnId.newBool (E.call1 FnId.ixLen (E.frameIndex (E.var 0)))),
  S.range (E.var 1) none (some 3) leafBody,
  S.ret (E.call2 FnId.withIndex (E.var 0) (E.call2 FnId.ixFilter (E.frameIndex (E.var 0)) (E.var 2)))] }

/-! ## the `filter` methods -/

/-- `if c.Err() != nil { return qf.withErr(c.Err()) }` in a method of the clause type -/
def retIfClauseErr (ty : DynTy) : S :=
  S.ite (E.notNil (E.call1 (FnId.errM ty) (E.var 0)))
    (S.block [S.ret (E.call2 FnId.withErr (E.var 1) (E.call1 (FnId.errM ty) (E.var 0)))]) (S.block [])

def fnFilterLeaf : Fn := { params := 2, body := S.block [S.ret (E.call2 FnId.leaves (E.var 1) (E.single (E.var 0)))] }

/-- `newQf := c.filter(*filteredQf); filteredQf = &newQf` -/
abbrev andBody : S := S.block [S.define 4 (E.callFilter (E.var 3) (E.deref (E.var 2))), S.assign 2 (E.addr (E.var 4))]

def fnFilterAnd : Fn := { params := 2, body := S.block [
  retIfFailed 1,
  retIfClauseErr .and,
  S.define 2 (E.addr (E.var 1)),
  S.range (E.subClauses (E.var 0)) none (some 3) andBody,
  S.ret (E.deref (E.var 2))] }

/-- `newQf := qf.filter(filters...); filteredQf = orFrames(&qf, filteredQf, &newQf)` with the new frame in variable `v` -/
def flush (v : Var) : List S := [
  S.define v (E.call2 FnId.leaves (E.var 1) (E.var 2)),
  S.assign 3 (E.call3 FnId.orFrames (E.addr (E.var 1)) (E.var 3) (E.addr (E.var v)))]

abbrev orClauseBody : S :=
  S.block [S.ifIs (E.var 4) DynTy.filter 5
    (S.block [S.assign 2 (E.snoc (E.var 2) (E.var 5))])
    (S.block [
      S.ite (E.cmp COp.gt (E.len (E.var 2)) (E.int 0)) (S.block (flush 6 ++ [S.assign 2 (E.truncate (E.var 2) (E.int 0))])) (S.block []),
      S.define 7 (E.callFilter (E.var 4) (E.var 1)),
      S.assign 3 (E.call3 FnId.orFrames (E.addr (E.var 1)) (E.var 3) (E.addr (E.var 7)))])]

def fnFilterOr : Fn := { params := 2, body := S.block [
  retIfFailed 1,
  retIfClauseErr .or,
  S.define 2 E.emptyLeaves,
  S.define 3 E.nilPtr,
  S.range (E.subClauses (E.var 0)) none (some 4) orClauseBody,
  S.ite (E.cmp COp.gt (E.len (E.var 2)) (E.int 0)) (S.block (flush 8)) (S.block []),
  S.ret (E.deref (E.var 3))] }

/-- `newQfI < newQf.index.Len() && newQf.index[newQfI] == ix` -/
def notCond : E :=
  E.and (E.cmp COp.lt (E.var 6) (E.call1 FnId.ixLen (E.frameIndex (E.var 4))))
    (E.cmp COp.eq (E.at (E.frameIndex (E.var 4)) (E.var 6)) (E.var 7))

abbrev notBody : S := S.block [S.ite notCond (S.block [S.incr 6]) (S.block [S.assign 5 (E.snoc (E.var 5) (E.var 7))])]

def fnFilterNot : Fn := { params := 2, body := S.block [
  retIfFailed 1,
  retIfClauseErr .not,
  S.ifIs (E.subClause (E.var 0)) DynTy.filter 2
    (S.block [
      S.define 3 (E.var 2),
      S.setInverse 3 (E.not (E.inverseFlag (E.var 3))),
      S.ret (E.call2 FnId.leaves (E.var 1) (E.single (E.var 3)))])
    (S.block []),
  S.define 4 (E.callFilter (E.subClause (E.var 0)) (E.var 1)),
  retIfFailed 4,
  S.define 5 (E.makeIx (E.sub (E.call1 FnId.ixLen (E.frameIndex (E.var 1))) (E.call1 FnId.ixLen (E.frameIndex (E.var 4))))),
  S.define 6 (E.int 0),
  S.range (E.frameIndex (E.var 1)) none (some 7) notBody,
  S.ret (E.call2 FnId.withIndex (E.var 1) (E.var 5))] }

def fnFilterNull : Fn := { params := 2, body := S.block [S.ret (E.var 1)] }

/-! ## `Err()`, the constructors, `anyFilterErr` -/

def fnErrLeaf : Fn := { params := 1, body := S.block [S.ret E.nilErr] }
def fnErrCombo : Fn := { params := 1, body := S.block [S.ret (E.errField (E.var 0))] }
def fnErrNot : Fn := { params := 1, body := S.block [S.ret (E.callErr (E.subClause (E.var 0)))] }
def fnErrNull : Fn := { params := 1, body := S.block [S.ret E.nilErr] }

def fnCtorCombo (ty : DynTy) : Fn := { params := 1, body := S.block [
  S.ite (E.cmp COp.eq (E.len (E.var 0)) (E.int 0)) (S.block [S.ret (E.mkCombo ty E.noSubs E.newErr)]) (S.block []),
  S.ret (E.mkCombo ty (E.var 0) (E.call1 FnId.anyErr (E.var 0)))] }
def fnCtorNot : Fn := { params := 1, body := S.block [S.ret (E.mkNot (E.var 0))] }
def fnCtorNull : Fn := { params := 0, body := S.block [S.ret E.mkNull] }

abbrev anyErrBody : S := S.block [S.ite (E.notNil (E.callErr (E.var 1))) (S.block [S.ret (E.callErr (E.var 1))]) (S.block [])]
def fnAnyErr : Fn := { params := 1, body := S.block [S.range (E.var 0) none (some 1) anyErrBody, S.ret E.nilErr] }

/-! ## `orFrames` -/

/-- `cursor < len(p.index) && p.index[cursor] == x` for a frame pointer `p` -/
def hitCond (c p x : Var) : E :=
  E.and (E.cmp COp.lt (E.var c) (E.len (E.frameIndex (E.deref (E.var p)))))
    (E.cmp COp.eq (E.at (E.frameIndex (E.deref (E.var p))) (E.var c)) (E.var x))

abbrev orBody : S := S.block [
  S.define 7 (E.bool false),
  S.ite (hitCond 4 1 6) (S.block [S.assign 7 (E.bool true), S.incr 4]) (S.block []),
  S.ite (hitCond 5 2 6) (S.block [S.assign 7 (E.bool true), S.incr 5]) (S.block []),
  S.ite (E.var 7) (S.block [S.assign 3 (E.snoc (E.var 3) (E.var 6))]) (S.block [])]

def fnOrFrames : Fn := { params := 3, body := S.block [
  S.ite (E.isNil (E.var 1)) (S.block [S.ret (E.var 2)]) (S.block []),
  S.ite (E.notNil (E.frameErr (E.deref (E.var 1)))) (S.block [S.ret (E.var 1)]) (S.block []),
  S.ite (E.notNil (E.frameErr (E.deref (E.var 2)))) (S.block [S.ret (E.var 2)]) (S.block []),
  S.define 3 (E.makeIx (E.call2 FnId.max (E.len (E.frameIndex (E.deref (E.var 1)))) (E.len (E.frameIndex (E.deref (E.var 2)))))),
  S.define 4 (E.int 0),
  S.define 5 (E.int 0),
  S.range (E.frameIndex (E.deref (E.var 0))) none (some 6) orBody,
  S.define 8 (E.call2 FnId.withIndex (E.deref (E.var 0)) (E.var 3)),
  S.ret (E.addr (E.var 8))] }

/-! ## `withErr`, `withIndex`, internal/index, `integer.Max` -/

def fnWithErr : Fn := { params := 2, body := S.block [S.ret (E.mkFrame (E.var 1) (E.frameIndex (E.var 0)))] }
def fnWithIndex : Fn := { params := 2, body := S.block [S.ret (E.mkFrame (E.frameErr (E.var 0)) (E.var 1))] }
def fnNewBool : Fn := { params := 1, body := S.block [S.ret (E.makeMask (E.var 0))] }
def fnIxLen : Fn := { params := 1, body := S.block [S.ret (E.len (E.var 0))] }
def fnMaskLen : Fn := { params := 1, body := S.block [S.ret (E.len (E.var 0))] }

abbrev ixCountBody : S := S.block [S.ite (E.var 3) (S.block [S.incr 2]) (S.block [])]
abbrev ixCollectBody : S :=
  S.block [S.ite (E.var 6) (S.block [S.assign 4 (E.snoc (E.var 4) (E.at (E.var 0) (E.var 5)))]) (S.block [])]

def fnIxFilter : Fn := { params := 2, body := S.block [
  S.define 2 (E.int 0),
  S.range (E.var 1) none (some 3) ixCountBody,
  S.define 4 (E.makeIx (E.var 2)),
  S.range (E.var 1) (some 5) (some 6) ixCollectBody,
  S.ret (E.var 4)] }

def fnMax : Fn := { params := 2, body := S.block [
  S.ite (E.cmp COp.gt (E.var 0) (E.var 1)) (S.block [S.ret (E.var 0)]) (S.block []),
  S.ret (E.var 1)] }

def canonFns : List (FnId × Fn) := [
  (FnId.publicFilter, fnPublicFilter),
  (FnId.leaves, fnLeaves),
  (FnId.filter DynTy.filter, fnFilterLeaf),
  (FnId.filter DynTy.and, fnFilterAnd),
  (FnId.filter DynTy.or, fnFilterOr),
  (FnId.filter DynTy.not, fnFilterNot),
  (FnId.filter DynTy.null, fnFilterNull),
  (FnId.errM DynTy.filter, fnErrLeaf),
  (FnId.errM DynTy.and, fnErrCombo),
  (FnId.errM DynTy.or, fnErrCombo),
  (FnId.errM DynTy.not, fnErrNot),
  (FnId.errM DynTy.null, fnErrNull),
  (FnId.ctor DynTy.and, fnCtorCombo .and),
  (FnId.ctor DynTy.or, fnCtorCombo .or),
  (FnId.ctor DynTy.not, fnCtorNot),
  (FnId.ctor DynTy.null, fnCtorNull),
  (FnId.anyErr, fnAnyErr),
  (FnId.orFrames, fnOrFrames),
  (FnId.withErr, fnWithErr),
  (FnId.withIndex, fnWithIndex),
  (FnId.newBool, fnNewBool),
  (FnId.ixLen, fnIxLen),
  (FnId.maskLen, fnMaskLen),
  (FnId.ixFilter, fnIxFilter),
  (FnId.max, fnMax)]

theorem gen_clauses_no_opaque : ∀ p ∈ Gen.clauseFns, p.2.body.hasOpaque = false := by decide

theorem gen_clauses_canon : Gen.clauseFns = canonFns := by decide

/-- The preamble of `QFrame.filter` as extracted today replaces exactly: an int column compared with a float column by its
float image, and the int argument column of a float column by its float image — the two promotions the hand-written
`C02Dispatch.prep` models (and `Drv.mirrorLeaf` follows when it picks the kernel). -/
theorem gen_promote_rules : (Gen.clauseFns.lookup .leaves).map (fun fn => fn.body.promoteRules) =
    some [⟨.int, .float, .column, .float⟩, ⟨.float, .int, .arg, .float⟩] := by decide

end QF.Props.C02ClausesGen
