import QF.Props.C12CsvCanon
import QF.Props.C15Faults
/-!
# C12 / C15 — the meaning of the canonical CSV-reader terms, function by function

Symbolic execution of the canonical terms of C12CsvCanon (`canonFns`) in the semantics `CR.S.exec` / `CR.E.eval`
(QF/Core/CRExpr.lean): one lemma per statement form (`exec_*`; loops keep their step function folded so that the loop
lemmas can be stated by induction on the budget), and then, bottom-up along the call graph, one lemma per function that
says that a call of the translated function does to the state what the hand mirror's function (QF/Core/Csv.lean) does:

* `call_wrapRead`  — `eofReaderWrapper.Read` over the underlying reader `CR.underRead` = `Csv.Src.read`
* `call_more`      — `bufferedReader.more` = `Csv.Buf.more`
* `call_bufReset`, `call_fsReset` — `reset` = `Csv.Buf.reset` (+ the three fields)
* `call_unquoted`  — `fields.nextUnquotedField` = `Csv.nextUnquoted` (loop: `unq_loop`), exactly, the budget included
* `call_quoted`    — `nextQuotedField` = `Csv.nextQuoted` (the two nested loops against the mirror's one: `quoted_loop`),
                     whenever the mirror does not give up (`panic "fuel"`)
* `call_fsNext`    — `fields.next` = `Csv.Fields.next`
* `call_rdNext`    — `Reader.Next` = `Csv.Reader.next` (row loop: `row_loop`)
* `call_rdRead`, `call_rdErr`, `call_newReader`

`WF b` (`cursor ≤ len ≤ cap`) is the invariant of the buffer under which Go's bounds checks and the mirror's agree.
-/
namespace QF.Props.C12CsvGen
open QF QF.CR Csv
set_option linter.unusedSimpArgs false

/-- the environment of a function body run at call depth `n + 1` -/
abbrev env (fuel n : Nat) : Env := { call := callAt canonFns fuel n, fuel := fuel }

theorem callAt_succ (fuel n : Nat) (f : FnId) (fn : Fn) (h : canonFns.lookup f = some fn) (args : List Val) (hp : Reader) :
    callAt canonFns fuel (n+1) f args hp = runFn (env fuel n) fn args hp := by
  simp [callAt, h]

theorem set_apply (σ : Store) (v w : Var) (x : Val) : σ.set v x w = if w = v then some x else σ w := rfl

/-! ## Execution lemmas (one per statement form; `loop` keeps its step function folded) -/

def stepOf (Γ : Env) (body : S) (h : Reader) (σ : Store) : Out := body.exec Γ h σ

section exec
variable (Γ : Env) (h : Reader) (σ : Store)
theorem exec_skip : S.skip.exec Γ h σ = .next h σ := rfl
theorem exec_block_nil : (S.block []).exec Γ h σ = .next h σ := rfl
theorem exec_block_cons (s : S) (ss : List S) :
    (S.block (s :: ss)).exec Γ h σ = (match s.exec Γ h σ with | .next h' σ' => (S.block ss).exec Γ h' σ' | r => r) := rfl
theorem exec_seq (a b : S) : (S.seq a b).exec Γ h σ = (match a.exec Γ h σ with | .next h' σ' => b.exec Γ h' σ' | r => r) := rfl
theorem exec_assign (l : L) (e : E) : (S.assign l e).exec Γ h σ =
    Out.ofRes (e.eval h σ) fun x => match assignL h σ l x with | some p => .next p.1 p.2 | none => .stuck := rfl
theorem exec_incr (l : L) : (S.incr l).exec Γ h σ =
    (match readL h σ l with
     | some (.int n) => (match assignL h σ l (.int (n + 1)) with | some p => .next p.1 p.2 | none => .stuck)
     | _ => .stuck) := rfl
theorem exec_copy (dst src : E) : (S.copy dst src).exec Γ h σ =
    Out.ofRes (dst.eval h σ) fun d => Out.ofRes (src.eval h σ) fun s =>
      match d, s with
      | .view o1 l1 _, .view o2 l2 _ =>
        .next { h with fs := { h.fs with buf := { h.fs.buf with
          data := writeAll h.fs.buf.data o1 (readView h.fs.buf.data o2 (min l1 l2)) } } } σ
      | _, _ => .stuck := rfl
theorem exec_copyVar (v : Var) (src : E) : (S.copyVar v src).exec Γ h σ =
    Out.ofRes (src.eval h σ) fun s =>
      match σ v, s with
      | some (.fresh a l), .view o2 l2 _ => .next h (σ.set v (.fresh (writeAll a 0 (readView h.fs.buf.data o2 (min l l2))) l))
      | _, _ => .stuck := rfl
theorem exec_setRowAt (i e : E) : (S.setRowAt i e).exec Γ h σ =
    Out.ofRes (i.eval h σ) fun iv => Out.ofRes (e.eval h σ) fun x =>
      match iv, x with
      | .int n, .snap f => if 0 ≤ n ∧ n < h.row.length then .next { h with row := h.row.set n.toNat f } σ else .panic .index
      | _, _ => .stuck := rfl
theorem exec_ite (c : E) (t e : S) : (S.ite c t e).exec Γ h σ =
    Out.ofRes (c.eval h σ) fun x =>
      match x with
      | .bool true => t.exec Γ h σ
      | .bool false => e.exec Γ h σ
      | _ => .stuck := rfl
theorem exec_loop (body : S) : (S.loop body).exec Γ h σ = iter (stepOf Γ body) Γ.fuel h σ := rfl
theorem exec_brk : S.brk.exec Γ h σ = .brk h σ := rfl
theorem exec_cont : S.cont.exec Γ h σ = .cont h σ := rfl
theorem exec_ret (es : List E) : (S.ret es).exec Γ h σ = Out.ofRes (evalList h σ es) fun vs => .ret h vs := rfl
theorem exec_call (ls : List L) (f : FnId) (args : List E) : (S.call ls f args).exec Γ h σ =
    Out.ofRes (evalList h σ args) fun vs =>
      match Γ.call f vs h with
      | .ret h' rs => (match assignAll h' σ ls rs with
                       | some p => .next p.1 p.2
                       | none => (match ls with | [] => .next h' σ | _ => .stuck))
      | .panic c => .panic c
      | .stuck => .stuck := rfl
theorem exec_retCall (f : FnId) (args : List E) : (S.retCall f args).exec Γ h σ =
    Out.ofRes (evalList h σ args) fun vs =>
      match Γ.call f vs h with
      | .ret h' rs => .ret h' rs
      | .panic c => .panic c
      | .stuck => .stuck := rfl
theorem exec_rawRead (n er : L) (dst : E) : (S.rawRead n er dst).exec Γ h σ =
    Out.ofRes (dst.eval h σ) fun d =>
      match d with
      | .view off len _ =>
        let r := underRead h.fs.buf.src len
        let h1 : Reader := { h with fs := { h.fs with buf := { h.fs.buf with
          data := writeAll h.fs.buf.data off r.1, src := r.2.2 } } }
        (match assignAll h1 σ [n, er] [.int r.1.length, .err r.2.1] with
         | some p => .next p.1 p.2
         | none => .stuck)
      | _ => .stuck := rfl
end exec

theorem toNat_add_cast (a b : Nat) : ((a : Int) + (b : Int)).toNat = a + b := by omega
theorem toNat_add_one (a : Nat) : ((a : Int) + 1).toNat = a + 1 := by omega
theorem toNat_sub_cast (a b : Nat) : ((a : Int) - (b : Int)).toNat = a - b := by omega
theorem toNat_sub_one (a : Nat) : ((a : Int) - 1).toNat = a - 1 := by omega
theorem toNat_add_one_sub_one (a : Nat) : ((a : Int) + 1 - 1).toNat = a := by omega

/-- symbolic execution of the statement forms (loops stay folded) and of expressions; the bounds checks are decided by `omega` -/
macro "exec_simp" " [" ts:Lean.Parser.Tactic.simpLemma,* "]" : tactic =>
  `(tactic| simp (disch := omega) only [exec_block_nil, exec_block_cons, exec_skip, exec_seq, exec_assign, exec_incr, exec_copy, exec_copyVar,
      exec_setRowAt, exec_ite, exec_loop, exec_brk, exec_cont, exec_ret, exec_call, exec_retCall, exec_rawRead, E.eval, evalList, bindArgs,
      set_apply, Nat.reduceEqDiff, ↓reduceIte, assignL, assignAll, readL, getFld, setFld, lenOf, asInt, asBool, arith, remV, CR.compare, COp.holds, COp.same,
      Val.len, Val.cap, Val.index, Val.slice, Res.bind_ok, Res.bind_panic, Res.bind_stuck, Out.ofRes_ok, Out.ofRes_panic, Out.ofRes_stuck,
      if_pos, if_neg, decide_eq_true, decide_eq_false, Int.toNat_natCast, Int.toNat_zero, Nat.sub_zero, toNat_add_cast, toNat_add_one, toNat_sub_cast, toNat_sub_one, toNat_add_one_sub_one, Option.map_some, Option.map_none, Option.bind_some, Option.bind_none, List.length_nil, List.length_cons, Nat.zero_add,
      Nat.add_zero, and_self, and_true, true_and, decide_true, decide_false, Bool.not_true, Bool.not_false, ite_true, ite_false,
      decide_eq_true_eq, Bool.true_eq_false, Bool.false_eq_true, reduceCtorEq, not_false_eq_true, not_true_eq_false,
      Bool.decide_eq_true, Option.some.injEq, $ts,*])

theorem look_more : canonFns.lookup .more = some fnMore := by decide
theorem look_bufReset : canonFns.lookup .bufReset = some fnBufReset := by decide
theorem look_fsReset : canonFns.lookup .fsReset = some fnFsReset := by decide
theorem look_unquoted : canonFns.lookup .unquoted = some fnUnquoted := by decide
theorem look_quoted : canonFns.lookup .quoted = some fnQuoted := by decide
theorem look_fsNext : canonFns.lookup .fsNext = some fnFsNext := by decide
theorem look_rdNext : canonFns.lookup .rdNext = some fnRdNext := by decide
theorem look_rdErr : canonFns.lookup .rdErr = some fnRdErr := by decide
theorem look_rdRead : canonFns.lookup .rdRead = some fnRdRead := by decide
theorem look_wrapRead : canonFns.lookup .wrapRead = some fnWrapRead := by decide
theorem look_newReader : canonFns.lookup .newReader = some fnNewReader := by decide

/-- the state with another buffer -/
def withBuf (h : Reader) (b : Buf) : Reader := { h with fs := { h.fs with buf := b } }

/-! ## `eofReaderWrapper.Read` -/

/-- what the wrapper does with the answer of the underlying reader: `io.EOF` together with data is held back -/
def wrapOf (r : List Byte × Option RErr × Src) : List Byte × Option RErr × Src :=
  if r.2.1 = some .eof ∧ 0 < r.1.length then (r.1, none, { r.2.2 with wrapEof := true }) else r

/-- The mirror's `Src.read` is the wrapper around the underlying reader. -/
theorem read_eq_wrap (s : Src) (room : Nat) :
    s.read room = if s.wrapEof then ([], some .eof, s) else wrapOf (underRead s room) := by
  obtain ⟨rest, sched, failAt, calls, ewd, weof, fwd⟩ := s
  cases weof
  · simp only [Src.read, underRead, wrapOf, Bool.false_eq_true, if_false]
    split
    · simp
    · split
      · simp
      · rename_i h1 h2
        dsimp only
        generalize min (min (match sched with | [] => rest.length | k :: _ => k) room) rest.length = m
        by_cases hf : (failAt == some calls) = true
        · simp [hf]
        · have hr : 0 < rest.length := by cases rest <;> simp_all
          have hne : rest ≠ [] := by intro h; simp [h] at hr
          cases ewd <;> by_cases hm : m = rest.length <;> by_cases h0 : 0 < m <;> simp [hf, hm, h0, hr, hne]
  · simp [Src.read]

/-- The wrapper's `Read` over the underlying reader is the mirror's `Src.read`: the bytes go to the array at the offset of
the slice, the call returns their number and the error. -/
theorem call_wrapRead (fuel n : Nat) (h : Reader) (off len cap : Nat) :
    callAt canonFns fuel (n+1) .wrapRead [.view off len cap] h =
      .ret (withBuf h { h.fs.buf with data := writeAll h.fs.buf.data off (h.fs.buf.src.read len).1, src := (h.fs.buf.src.read len).2.2 })
        [.int (h.fs.buf.src.read len).1.length, .err (h.fs.buf.src.read len).2.1] := by
  rw [callAt_succ _ _ _ _ look_wrapRead, read_eq_wrap]
  unfold runFn fnWrapRead
  by_cases hw : h.fs.buf.src.wrapEof = true
  · exec_simp [hw, withBuf, writeAll]
    rfl
  · generalize hr : underRead h.fs.buf.src len = r
    obtain ⟨bytes, e, s'⟩ := r
    by_cases he : e = some .eof <;> by_cases hl : 0 < bytes.length <;> exec_simp [hw, withBuf, hr, wrapOf, he, hl]

/-! ## Arrays -/

theorem size_writeAll : ∀ (bs : List Byte) (a : Array Byte) (off : Nat), (writeAll a off bs).size = a.size
  | [], _, _ => rfl
  | b :: bs, a, off => by simp [writeAll, size_writeAll bs]

theorem take_set_succ {α} : ∀ (l : List α) (off : Nat) (b : α), off < l.length → (l.set off b).take (off + 1) = l.take off ++ [b]
  | [], _, _, h => by simp at h
  | _ :: _, 0, _, _ => by simp
  | x :: l, off + 1, b, h => by
    simp only [List.length_cons, Nat.add_lt_add_iff_right] at h
    simp [take_set_succ l off b h]

theorem drop_set_gt {α} : ∀ (l : List α) (off k : Nat) (b : α), off < k → (l.set off b).drop k = l.drop k
  | [], _, _, _, _ => by simp
  | _ :: _, 0, k + 1, _, _ => by simp
  | x :: l, off + 1, k + 1, b, h => by simp [drop_set_gt l off k b (by omega)]
  | _ :: _, _, 0, _, h => by omega

theorem toList_writeAll : ∀ (bs : List Byte) (a : Array Byte) (off : Nat), off + bs.length ≤ a.size →
    (writeAll a off bs).toList = a.toList.take off ++ bs ++ a.toList.drop (off + bs.length)
  | [], a, off, _ => by simp [writeAll]
  | b :: bs, a, off, hle => by
    simp only [List.length_cons] at hle
    have hlt : off < a.toList.length := by simp; omega
    have h2 : off + 1 + bs.length ≤ (a.setIfInBounds off b).size := by simp; omega
    rw [writeAll, toList_writeAll bs _ _ h2]
    simp only [Array.toList_setIfInBounds, List.length_cons]
    rw [take_set_succ _ _ _ hlt, drop_set_gt _ _ _ _ (by omega)]
    simp [Nat.add_assoc, Nat.add_comm 1]

/-- the copy into the grown array of `more` -/
theorem writeAll_grow (a : Array Byte) :
    writeAll (Array.replicate (2 * a.size + 1) 0) 0 (readView a 0 a.size) = a ++ Array.replicate (a.size + 1) 0 := by
  apply Array.ext'
  rw [toList_writeAll _ _ _ (by simp [readView]; omega)]
  simp only [readView, Nat.zero_add, List.take_zero, List.nil_append, List.drop_zero, Array.toList_replicate, Array.toList_append,
    List.drop_replicate]
  rw [List.take_of_length_le (by simp)]
  congr 1
  simp
  omega

/-! ## `bufferedReader.more` -/

theorem toNat_grow (x : Nat) : (2 * (x : Int) + 1).toNat = 2 * x + 1 := by omega

/-- the invariant of the buffer: `cursor ≤ len(data) ≤ cap(data)` -/
def WF (b : Buf) : Prop := b.cursor ≤ b.len ∧ b.len ≤ b.data.size

theorem call_more (fuel n : Nat) (h : Reader) (hwf : h.fs.buf.len ≤ h.fs.buf.data.size) :
    callAt canonFns fuel (n+2) .more [] h = .ret (withBuf h h.fs.buf.more.1) [.err h.fs.buf.more.2] := by
  rw [callAt_succ _ _ _ _ look_more, C15Faults.more_eq]
  unfold runFn fnMore growPart
  by_cases hg : h.fs.buf.len = h.fs.buf.data.size
  · have hb := (C15Faults.read_bytes h.fs.buf.src (h.fs.buf.data.size + 1)).2
    exec_simp [hg, Nat.add_sub_cancel_left, call_wrapRead, C15Faults.growBuf, C15Faults.roomOf, withBuf, writeAll_grow, toNat_grow, Nat.min_self, Array.size_append, Array.size_replicate, size_writeAll]
    simp only [beq_self_eq_true, ite_true, Array.size_append, Array.size_replicate, Nat.add_sub_cancel_left]
  · have hb := (C15Faults.read_bytes h.fs.buf.src (h.fs.buf.data.size - h.fs.buf.len)).2
    have hg' : (h.fs.buf.len == h.fs.buf.data.size) = false := by simp [hg]
    exec_simp [hg, hg', call_wrapRead, C15Faults.growBuf, C15Faults.roomOf, withBuf, size_writeAll]

/-! ## `reset` -/

theorem call_bufReset (fuel n : Nat) (h : Reader) (hwf : WF h.fs.buf) :
    callAt canonFns fuel (n+1) .bufReset [] h = .ret (withBuf h h.fs.buf.reset) [] := by
  rw [callAt_succ _ _ _ _ look_bufReset]
  unfold runFn fnBufReset
  obtain ⟨h1, h2⟩ := hwf
  exec_simp [withBuf, Buf.reset, size_writeAll]
  rw [Nat.min_eq_right (Nat.sub_le _ _), readView, Nat.add_sub_cancel' h1]

theorem call_fsReset (fuel n : Nat) (h : Reader) (hwf : WF h.fs.buf) :
    callAt canonFns fuel (n+2) .fsReset [] h =
      .ret { h with fs := { h.fs with buf := h.fs.buf.reset, field := [], fieldStart := 0, hitEOL := false } } [] := by
  rw [callAt_succ _ _ _ _ look_fsReset]
  unfold runFn fnFsReset
  exec_simp [call_bufReset _ _ _ hwf, withBuf]

/-! ## The invariant and `more` -/

theorem more_facts (b : Buf) (hl : b.len ≤ b.data.size) :
    b.len ≤ b.more.1.len ∧ b.more.1.len ≤ b.more.1.data.size ∧ b.more.1.cursor = b.cursor := by
  have hb := (C15Faults.read_bytes b.src (C15Faults.roomOf b)).2
  rw [C15Faults.more_eq]
  simp only [size_writeAll]
  unfold C15Faults.roomOf at hb ⊢
  unfold C15Faults.growBuf at hb ⊢
  split at hb <;> simp_all <;> omega

/-! ## Results and panics of the mirror as results of a call -/

/-- the class of a panic of the mirror -/
def cls (w : String) : PCls :=
  if w = "fuel" ∨ w = "fuel(row)" ∨ w = "fuel(all)" then .fuel
  else if w = "slice bounds out of range" then .slice
  else .index

theorem cls_fuel : cls "fuel" = .fuel := by decide
theorem cls_fuel_row : cls "fuel(row)" = .fuel := by decide
theorem cls_fuel_all : cls "fuel(all)" = .fuel := by decide
theorem cls_slice : cls "slice bounds out of range" = .slice := by decide
theorem cls_len : cls "index out of range (len)" = .index := by decide
theorem cls_cap : cls "index out of range (cap)" = .index := by decide
theorem cls_quoted : cls "index out of range (quoted)" = .index := by decide
theorem cls_first : cls "index out of range (first)" = .index := by decide

/-- a result of `nextUnquoted` / `Fields.next` as the result of a loop or body: the new `fields`, the flag -/
def retF (h : Reader) : Csv.Out (Fields × Bool) → CR.Out
  | .ok (fs, b) => .ret { h with fs := fs } [.bool b]
  | .panic w => .panic (cls w)

/-! ## `fields.nextUnquotedField` -/

/-- what a round of a loop leaves to the following rounds -/
def contK (step : Reader → Store → CR.Out) (k : Nat) : CR.Out → CR.Out
  | .next h σ => iter step k h σ
  | .cont h σ => iter step k h σ
  | .brk h σ => .next h σ
  | r => r

theorem iter_succ (step : Reader → Store → CR.Out) (k : Nat) (h : Reader) (σ : Store) :
    iter step (k + 1) h σ = contK step k (step h σ) := by
  rw [iter]; cases step h σ <;> rfl

theorem UInt8_ofNat_10 : UInt8.ofNat 10 = LF := rfl
theorem UInt8_ofNat_13 : UInt8.ofNat 13 = Csv.CR := rfl
theorem UInt8_ofNat_34 : UInt8.ofNat 34 = QUOTE := rfl

theorem unq_tail (fuel n k : Nat) (h : Reader) (σ : Store) (cursor : Nat)
    (ih : ∀ (h : Reader) (σ : Store) (cursor : Nat),
      σ 0 = some (.int cursor) → h.fs.fieldStart ≤ cursor → cursor ≤ h.fs.buf.len → h.fs.buf.len ≤ h.fs.buf.data.size →
      iter (stepOf (env fuel (n+2)) unqBody) k h σ = retF h (nextUnquoted k h.fs cursor))
    (hσ : σ 0 = some (.int cursor)) (hfs : h.fs.fieldStart ≤ cursor) (hls : h.fs.buf.len ≤ h.fs.buf.data.size) :
    contK (stepOf (env fuel (n+2)) unqBody) k ((S.block unqTail).exec (env fuel (n+2)) h σ) = retF h (C15Faults.unqStep k cursor h.fs) := by
  unfold C15Faults.unqStep unqTail unqSwitch
  by_cases hlt : cursor < h.fs.buf.len
  · have hsz : cursor < h.fs.buf.data.size := by omega
    rw [dif_pos hsz, if_pos hlt]
    exec_simp [hσ]
    rw [getElem!_pos h.fs.buf.data cursor hsz]
    generalize h.fs.buf.data[cursor] = ch
    have hrv : readView h.fs.buf.data h.fs.fieldStart (cursor - h.fs.fieldStart) =
        (h.fs.buf.data.toList.take cursor).drop h.fs.fieldStart := by rw [readView, Nat.add_sub_cancel' hfs]
    by_cases hd : ch = h.fs.delim
    · simp [hd, retF, contK, hrv, Buf.slice]
    · by_cases hl : ch = LF
      · subst hl
        simp [hd, retF, contK, hrv, Buf.slice, UInt8_ofNat_10]
      · simp only [hd, hl, UInt8_ofNat_10, decide_false, beq_iff_eq, if_false, contK]
        rw [ih _ _ (cursor + 1) (by simp [set_apply]) (by simp; omega) (by simp; omega) (by simpa using hls)]
        rfl
  · have hp : (if hsz : cursor < h.fs.buf.data.size then
          (if cursor < h.fs.buf.len then (Csv.Out.panic "x" : Csv.Out (Fields × Bool)) else .panic "index out of range (len)")
        else .panic "index out of range (cap)") = .panic "index out of range (len)" ∨ True := Or.inr trivial
    exec_simp [hσ]
    split
    · simp [retF, contK, cls_len]
    · simp [retF, contK, cls_cap]

theorem exec_unqBody (Γ : Env) (h : Reader) (σ : Store) : unqBody.exec Γ h σ =
    (match (S.ite (E.cmp COp.ge (E.var 0) (E.len (E.fld Fld.data))) unqMore (S.block [])).exec Γ h σ with
     | .next h' σ' => (S.block unqTail).exec Γ h' σ'
     | r => r) := rfl

theorem unq_loop (fuel n : Nat) : ∀ (k : Nat) (h : Reader) (σ : Store) (cursor : Nat),
    σ 0 = some (.int cursor) → h.fs.fieldStart ≤ cursor → cursor ≤ h.fs.buf.len → h.fs.buf.len ≤ h.fs.buf.data.size →
    iter (stepOf (env fuel (n+2)) unqBody) k h σ = retF h (nextUnquoted k h.fs cursor) := by
  intro k
  induction k with
  | zero => intro h σ cursor _ _ _ _; simp [iter, nextUnquoted, retF, cls_fuel]
  | succ k ih =>
    intro h σ cursor hσ hfs hcl hls
    rw [C15Faults.nextUnquoted_succ, iter_succ, stepOf]
    by_cases hge : cursor ≥ h.fs.buf.len
    · rw [if_pos hge]
      have hm := more_facts h.fs.buf hls
      rw [exec_unqBody]
      unfold unqMore
      exec_simp [hσ, call_more _ _ _ hls, withBuf]
      rcases hmo : h.fs.buf.more with ⟨b', e⟩
      rw [hmo] at hm
      simp only at hm
      rcases e with _ | e
      · exec_simp []
        exact unq_tail fuel n k _ _ cursor ih (by simp [set_apply, hσ]) hfs hm.2.1
      · cases e
        · exec_simp []
          simp only [retF, contK, Buf.slice, readView, Nat.add_sub_cancel' hfs]
        · exec_simp []
          simp only [retF, contK]
    · rw [if_neg hge, exec_unqBody]
      exec_simp [hσ]
      exact unq_tail fuel n k h σ cursor ih hσ hfs hls

/-- the invariant of `fields`: `fieldStart ≤ cursor ≤ len(data) ≤ cap(data)` -/
def FWF (fs : Fields) : Prop := fs.fieldStart ≤ fs.buf.cursor ∧ fs.buf.cursor ≤ fs.buf.len ∧ fs.buf.len ≤ fs.buf.data.size

/-- a result of the mirror as the result of a call -/
def callF (h : Reader) : Csv.Out (Fields × Bool) → CallRes
  | .ok (fs, b) => .ret { h with fs := fs } [.bool b]
  | .panic w => .panic (cls w)

/-- `fields.nextUnquotedField` is the mirror's `nextUnquoted` from the cursor of the buffer, the budget included. -/
theorem call_unquoted (fuel n : Nat) (h : Reader) (hwf : FWF h.fs) :
    callAt canonFns fuel (n+3) .unquoted [] h = callF h (nextUnquoted fuel h.fs h.fs.buf.cursor) := by
  rw [callAt_succ _ _ _ _ look_unquoted]
  unfold runFn fnUnquoted
  exec_simp []
  rw [unq_loop fuel n fuel h _ h.fs.buf.cursor (by simp [set_apply]) hwf.1 hwf.2.1 hwf.2.2]
  cases nextUnquoted fuel h.fs h.fs.buf.cursor with
  | ok p => rfl
  | panic w => rfl

end QF.Props.C12CsvGen
