import QF.Props.C02ClausesLink
import QF.Props.C02Dispatch
/-!
# C02 — Filter end to end: the regenerated clause evaluation WITH the regenerated leaves = the spec's `keptRows`

`C02ClausesGen.gen_clause_filter_semantics` proves the clause evaluation extracted today (`Gen.clauseFns`) equal to the
hand mirror for every behaviour `O : F.Leaf → LeafCalls` of the calls made for a leaf that `F.Leaf` abstracts.
`C02Dispatch.gen_leaf_semantics_filter_partial` / `gen_custom1_semantics` / `gen_custom2_semantics_partial` prove the
extracted `Column.Filter` → `filterBuiltIn` / `filterCustom1` / `filterCustom2` → kernel of a leaf equal to the spec's
`leafPred`. Here the two are composed:

* `genLeafCalls`            — what the calls `QFrame.filter` makes for ONE `filter.Filter` return, computed from today's
                              source: the look-ups in the frame, the preamble with the promotion rules regenerated into
                              `Gen.clauseFns` (`prepGen`, `prepGen_eq`), `filter.Inverse` (`Gen.inverse`), and
                              `Column.Filter` run through the extracted dispatcher, tables and kernels (`genRes`).
* `genLeaf` / `genClause`   — the `F.Leaf` / `F.Clause` these calls define (no spec inside).
* `genLeafCalls_abstracts`  — `(genLeafCalls … l).Abstracts (genLeaf … l)`, in the scope `LeafScope`.
* `genO`, `genO_abstracts`  — an instance `F.Leaf → LeafCalls` that answers with regenerated calls on every leaf of a
                              `genClause` and satisfies `∀ fl, (genO fl).Abstracts fl`.
* `gen_leaf_end_to_end`     — per leaf: the regenerated calls fail iff `leafPred` is `none`, the kernel is the guarded
                              accumulate of `leafPred`'s predicate on every row of the frame, the inverse shortcut (where
                              taken) is its pointwise negation; no call is stuck (`gen_leaf_not_stuck`).
* `gen_filter_end_to_end_partial` — for every well-typed frame, every clause tree in scope and every `O` abstracting the
                              leaves: the regenerated `Filter` on the regenerated leaves returns an error exactly when
                              the spec's clause is not well formed and otherwise exactly `keptRows`.
* `gen_filter_inv_end_to_end_partial` — the same for one `Filter{Inverse: true}`: the rows where the predicate is false.
* `gen_kernel_loop`          — the RAW per-entry loop of a regenerated `.upd u` over any index inside the frame (`rawLoop`) is
                              `F.runKernel .guarded` of the predicate `kernelOf` reads off `u`, whatever the completion `out`
                              (`gen_kernel_loop_out`); `gen_kernel_loop_agrees`: for every call that `Agrees` with a predicate.
* `c02_9_swapped_promotion_keeps_wrong_rows` — the concrete witness of seeded defect C02-9 (F = [1.5], I = [2], `F < I`).
* two findings (spec and code disagree; both confirmed on the real code), excluded from the scope:
  `Not(Filter{"not in"})` and a one-argument custom predicate with a `ColumnName` argument.
-/
namespace QF.Props.C02EndToEnd
open QF QF.CL QF.Props.C02Kernels QF.Props.C02Dispatch
set_option linter.unusedSimpArgs false
set_option linter.unusedVariables false
set_option linter.unusedSectionVars false

/-! ## The preamble of `QFrame.filter`, from the regenerated promotion rules -/

def ctyOf : PTy → CType
  | .int => .int | .float => .float | .bool => .bool | .string => .string | .enum => .enum | .other => .undef

/-- `<to>.New(<column>.FloatSlice())` -/
def promoteTo (to : PTy) (c : LCol) : LCol := if to = .float then promote c else c

/-- the `if … else if …` chain on the dynamic type of the filtered column, each arm testing the argument column -/
def applyRules (rules : List PRule) (c ac : LCol) : LCol × LCol :=
  match rules.find? (fun r => decide (ctyOf r.recv = c.ty)) with
  | none => (c, ac)
  | some r =>
    if ctyOf r.arg = ac.ty then
      (match r.side with
       | .column => (promoteTo r.to c, ac)
       | .arg => (c, promoteTo r.to ac))
    else (c, ac)

/-- `C02Dispatch.prep` with the promotion as a parameter -/
def prepWith (prom : LCol → LCol → LCol × LCol) (f : LFrame) (c : LCol) : Arg → Option (LCol × DArg × LCol)
  | .col an =>
    match f.find? an with
    | none => none
    | some ac => some ((prom c ac).1, .col (prom c ac).2.ty (prom c ac).2.vals (prom c ac).2.cells.size, (prom c ac).2)
  | a => prep f c a

/-- the rules found in today's `QFrame.filter` -/
def todayRules : List PRule := ((Gen.clauseFns.lookup .leaves).map (fun fn => fn.body.promoteRules)).getD []

def promGen : LCol → LCol → LCol × LCol := applyRules todayRules

theorem todayRules_eq : todayRules = [⟨.int, .float, .column, .float⟩, ⟨.float, .int, .arg, .float⟩] := by
  simp only [todayRules, C02ClausesGen.gen_promote_rules, Option.getD_some]

theorem promGen_eq (c ac : LCol) :
    promGen c ac = (if c.ty == .int && ac.ty == .float then promote c else c, if c.ty == .float && ac.ty == .int then promote ac else ac) := by
  simp only [promGen, todayRules_eq, applyRules]
  cases hc : c.ty <;> cases ha : ac.ty <;> simp [List.find?, ctyOf, promoteTo]

/-- **The hand-written preamble `C02Dispatch.prep` is what today's promotion rules do.** -/
theorem prepGen_eq (f : LFrame) (c : LCol) (a : Arg) : prepWith promGen f c a = prep f c a := by
  cases a with
  | col an =>
    simp only [prepWith, prep]
    cases f.find? an with
    | none => rfl
    | some ac => simp only [promGen_eq]
  | _ => rfl

/-! ## The calls made for one leaf, from the regenerated dispatcher and kernels -/

/-- the comparator as the Go value the harness passes: a string, or a predicate on the element type -/
def dcmpOf (c : LCol) : Cmp → DCmp
  | .builtin op => .str op
  | .p1 id => (match p1Ty id with | some t => .fn1 t | none => .other)
  | .p2 => .fn2 (fnTy c.ty)
  | .bad => .other

def paramsOf : Cmp → KParams
  | .p1 id => { fn1 := fun x => (userP1 id x).getD false }
  | .p2 => { fn2 := fun x y => (userP2 x y).getD false }
  | _ => {}

section calls
variable (prom : LCol → LCol → LCol × LCol) (lo : LikeOracle) (f2i : UInt64 → Int) (i2f : Int → UInt64)

/-- `s.Filter(qf.index, cmp, f.Arg, ·)` as `QFrame.filter` calls it for the leaf `l` with the comparator `cmp`: the result
of the extracted `Column.Filter`, the receiver and the column that supplies the second operand -/
def genRes (f : LFrame) (l : Leaf) (cmp : Cmp) : DRes × LCol × LCol :=
  match f.find? l.col with
  | none => (.err, default, default)
  | some c =>
    match prepWith prom f c l.arg with
    | none => (.err, c, c)
    | some (c', arg, ac') => ((today lo f2i i2f (paramsOf cmp) c' (dcmpOf c cmp) arg).runFilter, c', ac')

/-- The per-entry update of a kernel as the pair `LeafCalls` wants: every extracted kernel in scope accumulates, so it is
the guarded kernel of "the entry `false` becomes `true`". Positions outside the frame (never in an index) are completed
by `out`; `gen_kernel_loop` shows that no run can see the completion. -/
def kernelOf (n : Nat) (out : Bool) : DRes × LCol × LCol → Option (F.KShape × (Nat → Bool))
  | (.upd u, c', ac') => some (.guarded, fun r => if r < n then u c'.cells[r]! ac'.cells[r]! false == some true else out)
  | _ => none

def genLeafCalls (f : LFrame) (l : Leaf) : LeafCalls :=
  { colKnown := (f.find? l.col).isSome
    argIsCol := (match l.arg with | .col _ => true | _ => false)
    argColKnown := (match l.arg with | .col an => (f.find? an).isSome | _ => false)
    cmpIsString := (match l.cmp with | .builtin _ => true | _ => false)
    hasInverse := (match l.cmp with | .builtin op => (Gen.inverse.lookup op).isSome | _ => false)
    direct := kernelOf f.n false (genRes prom lo f2i i2f f l l.cmp)
    inverse := (match l.cmp with
      | .builtin op =>
        (match Gen.inverse.lookup op with
         | some iop => kernelOf f.n true (genRes prom lo f2i i2f f l (.builtin iop))
         | none => none)
      | _ => none) }

/-- the shortcut through `filter.Inverse` as `QFrame.filter` can take it -/
def shortcutOf (k : LeafCalls) : Option (F.KShape × (Nat → Bool)) :=
  if k.cmpIsString && k.hasInverse then k.inverse else none

/-- the `F.Leaf` the calls define -/
def genLeaf (f : LFrame) (l : Leaf) : F.Leaf :=
  match (genLeafCalls prom lo f2i i2f f l).direct with
  | none => { shape := .guarded, pred := fun _ => false, err := true, inverse := l.inv }
  | some (sh, p) => { shape := sh, pred := p, inv := shortcutOf (genLeafCalls prom lo f2i i2f f l), inverse := l.inv }

mutual
def genClause (f : LFrame) : Clause → F.Clause
  | .leaf l => .leaf (genLeaf prom lo f2i i2f f l)
  | .null => .null
  | .not c => .not (genClause f c)
  | .and cs => .and (genClauses f cs)
  | .or cs => .or (genClauses f cs)
def genClauses (f : LFrame) : List Clause → List F.Clause
  | [] => []
  | c :: cs => genClause f c :: genClauses f cs
end

/-- "a failing `Column.Filter` is not rescued by the entry of `filter.Inverse`" — what `LeafCalls.Abstracts` demands of a
leaf with `err`; false for the comparator "not in" (finding 1) -/
def NoRescue (f : LFrame) (l : Leaf) : Prop :=
  (genLeafCalls prom lo f2i i2f f l).direct = none → shortcutOf (genLeafCalls prom lo f2i i2f f l) = none

theorem genRes_unknown_col (f : LFrame) (l : Leaf) (cmp : Cmp) (h : f.find? l.col = none) :
    kernelOf f.n b (genRes prom lo f2i i2f f l cmp) = none := by
  simp [genRes, h, kernelOf]

theorem genRes_unknown_arg (f : LFrame) (l : Leaf) (cmp : Cmp) (an : Bytes) (ha : l.arg = .col an) (h : f.find? an = none) :
    kernelOf f.n b (genRes prom lo f2i i2f f l cmp) = none := by
  unfold genRes
  cases f.find? l.col with
  | none => rfl
  | some c => simp [ha, prepWith, h, kernelOf]

/-- **The regenerated calls are abstracted by the leaf they define** (whenever a failing call is not rescued). -/
theorem genLeafCalls_abstracts_of (f : LFrame) (l : Leaf) (h : NoRescue prom lo f2i i2f f l) :
    (genLeafCalls prom lo f2i i2f f l).Abstracts (genLeaf prom lo f2i i2f f l) := by
  refine ⟨?_, ?_, ?_, ?_⟩
  · intro hk
    have : f.find? l.col = none := by simpa [genLeafCalls] using hk
    have hd : (genLeafCalls prom lo f2i i2f f l).direct = none := genRes_unknown_col prom lo f2i i2f f l l.cmp this
    simp [genLeaf, hd]
  · intro h1 h2
    have hd : (genLeafCalls prom lo f2i i2f f l).direct = none := by
      cases ha : l.arg with
      | col an =>
        have : f.find? an = none := by simpa [genLeafCalls, ha] using h2
        exact genRes_unknown_arg prom lo f2i i2f f l l.cmp an ha this
      | _ => simp [genLeafCalls, ha] at h1
    simp [genLeaf, hd]
  · unfold genLeaf
    cases hd : (genLeafCalls prom lo f2i i2f f l).direct with
    | none => simp
    | some sp => obtain ⟨sh, p⟩ := sp; simp
  · unfold genLeaf
    cases hd : (genLeafCalls prom lo f2i i2f f l).direct with
    | none => simpa [shortcutOf] using h hd
    | some sp => obtain ⟨sh, p⟩ := sp; simp [shortcutOf]

end calls

/-! ## Scope -/

/-- the logical frame is well typed: every column has one of the five types, `f.n` cells of that type, an enum column at
most 255 values (in particular an int column holds no null: `C02Mirror.IntColsNonNull` on the rows of the frame) -/
structure FrameWT (f : LFrame) : Prop where
  ty : ∀ c ∈ f.cols, c.ty ∈ tys
  enumLen : ∀ c ∈ f.cols, c.ty = .enum → c.vals.length ≤ 255
  size : ∀ c ∈ f.cols, c.cells.size = f.n
  cells : ∀ c ∈ f.cols, ∀ r, r < f.n → cellOk c.ty c.vals c.cells[r]! = true

/-- the scope of the leaf theorems of C02Dispatch, plus finding 2 -/
structure LeafScope (f : LFrame) (l : Leaf) : Prop where
  /-- an int constant is a Go `int` -/
  goInt : ∀ v, l.arg = .cell (.int v) → int64 v
  /-- excluded by `gen_leaf_semantics_partial`: a `float64` constant for an int column (the code truncates it, the spec rejects it) -/
  noFloatOnInt : ∀ c, f.find? l.col = some c → ¬ (c.ty = .int ∧ ∃ b, l.arg = .cell (.float b))
  /-- excluded by `gen_custom2_semantics_partial`: a two-argument predicate on two enum columns with different value tables -/
  enum2 : l.cmp = .p2 → ∀ c an ac, f.find? l.col = some c → l.arg = .col an → f.find? an = some ac → c.ty = .enum → ac.ty = .enum → ac.vals = c.vals
  /-- finding 2: a one-argument predicate with a `ColumnName` argument (the code looks the column up and promotes, the spec ignores it) -/
  p1NoCol : ∀ id, l.cmp = .p1 id → ∀ an, l.arg ≠ .col an

section leaf
variable (lo : LikeOracle) (f2i : UInt64 → Int) (i2f : Int → UInt64)

theorem runFilter_other {P : KParams} {c : LCol} {arg : DArg} (hdef : c.ty ∈ tys) :
    (today lo f2i i2f P c .other arg).runFilter = .err := by
  obtain ⟨h1, _, _, _⟩ := gen_entries_canon c.ty hdef
  unfold DEnv.runFilter
  rw [entry_today]
  cases hf : entryOf c.ty "filter" with
  | none => rw [hf] at h1; simp at h1
  | some d =>
    rw [hf] at h1
    simp only [Option.map_some, Option.some.injEq] at h1
    simp only []
    rw [← run_untag, h1]
    simp [canonFilter, DE.run, E0]

theorem prep_noncol (f : LFrame) (c : LCol) (a : Arg) (h : ∀ an, a ≠ .col an) : ∃ d, prep f c a = some (c, d, c) := by
  cases a with
  | col an => exact absurd rfl (h an)
  | cell k => rcases k with v | b | b | (_ | s) <;> exact ⟨_, rfl⟩
  | nil => exact ⟨_, rfl⟩
  | ints l => exact ⟨_, rfl⟩
  | strs l => exact ⟨_, rfl⟩
  | bad => exact ⟨_, rfl⟩

theorem leafPred_p1_unknown (f : LFrame) (l : Leaf) (c : LCol) (id : String) (hc : f.find? l.col = some c) (hcmp : l.cmp = .p1 id)
    (hid : p1Ty id = none) : leafPred lo f l = none := by
  unfold leafPred
  simp only [hc, hcmp]
  unfold p1Ty at hid
  split at hid <;> simp at hid
  split <;> simp_all

/-- the three leaf theorems of C02Dispatch as one statement about `genRes` -/
theorem genRes_agrees (f : LFrame) (hf : FrameWT f) (l : Leaf) (hs : LeafScope f l) :
    Agrees (genRes promGen lo f2i i2f f l l.cmp).1 (genRes promGen lo f2i i2f f l l.cmp).2.1
      (genRes promGen lo f2i i2f f l l.cmp).2.2 (leafPred lo f l) := by
  cases hc : f.find? l.col with
  | none =>
    have : leafPred lo f l = none := by unfold leafPred; simp [hc]
    simp [genRes, hc, this, Agrees]
  | some c =>
    have hmem : c ∈ f.cols := List.mem_of_find?_eq_some hc
    have hdef := hf.ty c hmem
    cases hcmp : l.cmp with
    | builtin op =>
      have hwt : LeafWT f l c := ⟨hdef, hf.enumLen c hmem, hs.goInt, fun an ac ha hac => by
        rw [hf.size ac (List.mem_of_find?_eq_some hac), hf.size c hmem]⟩
      have := gen_leaf_semantics_filter_partial lo f2i i2f {} f l c op hc hcmp hwt (hs.noFloatOnInt c hc)
      have e : genRes promGen lo f2i i2f f l (.builtin op) = goLeafFilter lo f2i i2f {} f c op l.arg := by
        simp only [genRes, hc, prepGen_eq, goLeafFilter, paramsOf, dcmpOf]
        cases prep f c l.arg <;> rfl
      rw [e]; exact this
    | p2 =>
      have := gen_custom2_semantics_partial lo f2i i2f f l c hc hcmp hdef (fun an ac ha hac => hs.enum2 hcmp c an ac hc ha hac)
      have e : genRes promGen lo f2i i2f f l .p2 = goCustom2 lo f2i i2f f c l.arg := by
        simp only [genRes, hc, prepGen_eq, goCustom2, paramsOf, dcmpOf]
        cases prep f c l.arg <;> rfl
      rw [e]; exact this
    | p1 id =>
      obtain ⟨d, hd⟩ := prep_noncol f c l.arg (hs.p1NoCol id hcmp)
      cases hid : p1Ty id with
      | some tyF =>
        have := gen_custom1_semantics lo f2i i2f f l c id tyF d hc hcmp hdef hid
        simpa only [genRes, hc, prepGen_eq, hd, paramsOf, dcmpOf, hid] using this
      | none =>
        rw [leafPred_p1_unknown lo f l c id hc hcmp hid]
        simp only [genRes, hc, prepGen_eq, hd, paramsOf, dcmpOf, hid, runFilter_other lo f2i i2f hdef]
        exact agrees_err
    | bad =>
      have : leafPred lo f l = none := by unfold leafPred; simp [hc, hcmp]
      rw [this]
      simp only [genRes, hc, prepGen_eq, paramsOf, dcmpOf]
      cases hp : prep f c l.arg with
      | none => exact agrees_err
      | some x =>
        obtain ⟨c', d, ac'⟩ := x
        simp only [runFilter_other lo f2i i2f (prep_ty hp hdef)]
        exact agrees_err

/-! ### the rows of the prepared columns are typed -/

theorem promote_rows (c : LCol) (n : Nat) (hsz : c.cells.size = n) (h : ∀ r, r < n → cellOk c.ty c.vals c.cells[r]! = true) :
    ∀ r, r < n → cellOk (promote c).ty (promote c).vals (promote c).cells[r]! = true := by
  intro r hr
  unfold promote
  by_cases hty : c.ty = .int
  · have h0 := h r hr
    have hlt : r < c.cells.size := by omega
    simp only [hty, beq_self_eq_true, if_true]
    have e1 : ∀ (a : Array Cell) (h : r < a.size), a[r]! = a[r] := fun a h => getElem!_pos a r h
    rw [e1 _ (by simpa using hlt)]
    rw [e1 _ hlt, hty] at h0
    simp only [Array.getElem_map]
    cases hx : c.cells[r] <;> rw [hx] at h0 <;> simp [cellOk, cellVal] at h0 ⊢
  · have : (c.ty == CType.int) = false := by simpa using hty
    simp only [this, Bool.false_eq_true, if_false]
    exact h r hr

theorem prep_rows (f : LFrame) (hf : FrameWT f) (c : LCol) (hmem : c ∈ f.cols) (a : Arg) (c' ac' : LCol) (d : DArg)
    (h : prep f c a = some (c', d, ac')) :
    ∀ r, r < f.n → cellOk c'.ty c'.vals c'.cells[r]! = true ∧ cellOk ac'.ty ac'.vals ac'.cells[r]! = true := by
  have hcr := hf.cells c hmem
  have same : ∀ d', some (c, d', c) = some (c', d, ac') →
      ∀ r, r < f.n → cellOk c'.ty c'.vals c'.cells[r]! = true ∧ cellOk ac'.ty ac'.vals ac'.cells[r]! = true := by
    intro d' e r hr
    simp only [Option.some.injEq, Prod.mk.injEq] at e
    obtain ⟨rfl, _, rfl⟩ := e
    exact ⟨hcr r hr, hcr r hr⟩
  cases a with
  | col an =>
    simp only [prep] at h
    cases hac : f.find? an with
    | none => simp [hac] at h
    | some ac =>
      have hmem2 : ac ∈ f.cols := List.mem_of_find?_eq_some hac
      simp only [hac, Option.some.injEq, Prod.mk.injEq] at h
      obtain ⟨rfl, _, rfl⟩ := h
      intro r hr
      constructor
      · split
        · exact promote_rows c f.n (hf.size c hmem) hcr r hr
        · exact hcr r hr
      · split
        · exact promote_rows ac f.n (hf.size ac hmem2) (hf.cells ac hmem2) r hr
        · exact hf.cells ac hmem2 r hr
  | cell k => rcases k with v | b | b | (_ | s) <;> exact same _ h
  | nil => exact same _ h
  | ints l => exact same _ h
  | strs l => exact same _ h
  | bad => exact same _ h

theorem kernelOf_none {n : Nat} {out : Bool} {r : DRes} {c' ac' : LCol} (h : Agrees r c' ac' none) :
    kernelOf n out (r, c', ac') = none := by
  rw [agrees_none h]; rfl

theorem kernelOf_some {n : Nat} {out : Bool} {r : DRes} {c' ac' : LCol} {p : Nat → Bool} (h : Agrees r c' ac' (some p))
    (hv : ∀ i, i < n → cellOk c'.ty c'.vals c'.cells[i]! = true ∧ cellOk ac'.ty ac'.vals ac'.cells[i]! = true) :
    ∃ q, kernelOf n out (r, c', ac') = some (.guarded, q) ∧ (∀ i, i < n → q i = p i) ∧ (∀ i, ¬ i < n → q i = out) := by
  obtain ⟨u, rfl, hu⟩ := agrees_some h
  refine ⟨_, rfl, ?_, ?_⟩
  · intro i hi
    have := hu i false (hv i hi).1 (hv i hi).2
    simp only [hi, if_true, this]
    cases p i <;> simp
  · intro i hi
    simp only [hi, if_false]

/-! ### the raw loop of a call is `F.runKernel` of `kernelOf` -/

/-- the RAW loop of a column's `Filter` over an index: `for i, x := range index { bIndex[i] = <update of entry i> }` with the
per-entry update `u` of a regenerated `.upd u` (cell of the receiver, cell of the operand column, the entry before); `none`:
some update has no meaning -/
def rawLoop (u : Cell → Cell → Bool → Option Bool) (c' ac' : LCol) : List Nat → List Bool → Option (List Bool)
  | i :: ix, b :: bs =>
    match u c'.cells[i]! ac'.cells[i]! b, rawLoop u c' ac' ix bs with
    | some q, some r => some (q :: r)
    | _, _ => none
  | _, _ => some []

/-- **`gen_kernel_loop`**: the raw per-entry loop of a regenerated `.upd u` over ANY index whose rows are inside the frame and
any mask is `F.runKernel .guarded` of the predicate `kernelOf` reads off `u` — provided `u` accumulates on these rows
(`u x y b = b || u x y false`, what `Agrees` gives for every kernel in scope: `gen_kernel_loop_agrees`). The completion
`out` of `kernelOf` for positions outside the frame is never looked at: the statement holds for both values. -/
theorem gen_kernel_loop (u : Cell → Cell → Bool → Option Bool) (c' ac' : LCol) (n : Nat) (out : Bool) :
    ∃ p, kernelOf n out (.upd u, c', ac') = some (.guarded, p) ∧
      ∀ (ix : List Nat) (mask : List Bool), (∀ i ∈ ix, i < n) →
        (∀ i ∈ ix, ∀ b, ∃ q, u c'.cells[i]! ac'.cells[i]! false = some q ∧ u c'.cells[i]! ac'.cells[i]! b = some (b || q)) →
        rawLoop u c' ac' ix mask = some (F.runKernel .guarded p ix mask) := by
  refine ⟨_, rfl, ?_⟩
  intro ix
  induction ix with
  | nil => intro mask _ _; cases mask <;> rfl
  | cons i ix ih =>
    intro mask hin hacc
    cases mask with
    | nil => rfl
    | cons b bs =>
      have hi : i < n := hin i (List.mem_cons_self ..)
      obtain ⟨q, hq0, hqb⟩ := hacc i (List.mem_cons_self ..) b
      have ih' := ih bs (fun j hj => hin j (List.mem_cons_of_mem _ hj)) (fun j hj => hacc j (List.mem_cons_of_mem _ hj))
      simp only [rawLoop, hqb, ih', F.runKernel, hi, if_true, hq0]
      cases b <;> cases q <;> rfl

/-- … and `out` plays no role on an index inside the frame -/
theorem gen_kernel_loop_out (u : Cell → Cell → Bool → Option Bool) (c' ac' : LCol) (n : Nat) (ix : List Nat) (mask : List Bool)
    (hin : ∀ i ∈ ix, i < n) (p q : Nat → Bool)
    (hp : kernelOf n false (.upd u, c', ac') = some (.guarded, p)) (hq : kernelOf n true (.upd u, c', ac') = some (.guarded, q)) :
    F.runKernel .guarded p ix mask = F.runKernel .guarded q ix mask := by
  simp only [kernelOf, Option.some.injEq, Prod.mk.injEq, true_and] at hp hq
  subst hp; subst hq
  induction ix generalizing mask with
  | nil => cases mask <;> rfl
  | cons i ix ih =>
    cases mask with
    | nil => rfl
    | cons b bs =>
      have hi : i < n := hin i (List.mem_cons_self ..)
      simp only [F.runKernel, hi, if_true]
      rw [ih bs (fun j hj => hin j (List.mem_cons_of_mem _ hj))]

/-- the hypothesis of `gen_kernel_loop` for a call that `Agrees` with a predicate (every leaf in scope, `genRes_agrees`) on
rows whose cells are well formed -/
theorem gen_kernel_loop_agrees {r : DRes} {c' ac' : LCol} {p : Nat → Bool} (h : Agrees r c' ac' (some p)) (n : Nat) (out : Bool)
    (hv : ∀ i, i < n → cellOk c'.ty c'.vals c'.cells[i]! = true ∧ cellOk ac'.ty ac'.vals ac'.cells[i]! = true) :
    ∃ u q, r = .upd u ∧ kernelOf n out (r, c', ac') = some (.guarded, q) ∧
      ∀ (ix : List Nat) (mask : List Bool), (∀ i ∈ ix, i < n) →
        rawLoop u c' ac' ix mask = some (F.runKernel .guarded q ix mask) ∧
        F.runKernel .guarded q ix mask = F.runKernel .guarded p ix mask := by
  obtain ⟨u, rfl, hu⟩ := agrees_some h
  obtain ⟨q, hq, hloop⟩ := gen_kernel_loop u c' ac' n out
  obtain ⟨q', hq', hin', _⟩ := kernelOf_some (n := n) (out := out) h hv
  rw [hq] at hq'
  simp only [Option.some.injEq, Prod.mk.injEq, true_and] at hq'
  subst hq'
  refine ⟨u, q, rfl, hq, fun ix mask hin => ⟨?_, ?_⟩⟩
  · refine hloop ix mask hin (fun i hi b => ⟨p i, ?_, ?_⟩)
    · have := hu i false (hv i (hin i hi)).1 (hv i (hin i hi)).2
      simpa using this
    · exact hu i b (hv i (hin i hi)).1 (hv i (hin i hi)).2
  · induction ix generalizing mask with
    | nil => cases mask <;> rfl
    | cons i ix ih =>
      cases mask with
      | nil => rfl
      | cons b bs =>
        simp only [F.runKernel]
        rw [hin' i (hin i (List.mem_cons_self ..)), ih bs (fun j hj => hin j (List.mem_cons_of_mem _ hj))]

/-- the hypotheses of `gen_kernel_loop` on a concrete update ("the entry becomes true where the two cells are equal") over the
permuted index [1, 0] of a two-row column, and the loop it describes, run by the kernel -/
example : let u : Cell → Cell → Bool → Option Bool := fun x y b => some (b || x == y)
    let c : LCol := { name := [97], ty := .int, cells := #[.int 1, .int 2] }
    let d : LCol := { name := [98], ty := .int, cells := #[.int 1, .int 3] }
    (∀ i ∈ [1, 0], i < 2) ∧
    (∀ i ∈ [1, 0], ∀ b, ∃ q, u c.cells[i]! d.cells[i]! false = some q ∧ u c.cells[i]! d.cells[i]! b = some (b || q)) ∧
    rawLoop u c d [1, 0] [false, false] = some [false, true] := by
  refine ⟨by decide, fun i _ b => ⟨_, rfl, by simp⟩, by decide⟩

/-- **One call of `Column.Filter` as `QFrame.filter` makes it, end to end**: it fails exactly when `leafPred` rejects the
leaf, otherwise it is (on the rows of the frame) the guarded accumulate of `leafPred`'s predicate. -/
theorem genCall_spec (f : LFrame) (hf : FrameWT f) (l : Leaf) (hs : LeafScope f l) (out : Bool) :
    match leafPred lo f l with
    | none => kernelOf f.n out (genRes promGen lo f2i i2f f l l.cmp) = none
    | some p => ∃ q, kernelOf f.n out (genRes promGen lo f2i i2f f l l.cmp) = some (.guarded, q) ∧
        (∀ i, i < f.n → q i = p i) ∧ (∀ i, ¬ i < f.n → q i = out) := by
  have hA := genRes_agrees lo f2i i2f f hf l hs
  cases hp : leafPred lo f l with
  | none => rw [hp] at hA; exact kernelOf_none hA
  | some p =>
    rw [hp] at hA
    simp only []
    cases hc : f.find? l.col with
    | none => unfold leafPred at hp; simp [hc] at hp
    | some c =>
      have hmem : c ∈ f.cols := List.mem_of_find?_eq_some hc
      cases hpr : prep f c l.arg with
      | none => simp [genRes, hc, prepGen_eq, hpr, Agrees] at hA
      | some x =>
        obtain ⟨c', d, ac'⟩ := x
        have hv := prep_rows f hf c hmem l.arg c' ac' d hpr
        have e : genRes promGen lo f2i i2f f l l.cmp =
            ((today lo f2i i2f (paramsOf l.cmp) c' (dcmpOf c l.cmp) d).runFilter, c', ac') := by
          simp only [genRes, hc, prepGen_eq, hpr]
        rw [e] at hA ⊢
        exact kernelOf_some hA hv

/-- no call made for a leaf in scope is stuck (no panic, nothing the translator did not understand) -/
theorem gen_leaf_not_stuck (f : LFrame) (hf : FrameWT f) (l : Leaf) (hs : LeafScope f l) :
    (match (genRes promGen lo f2i i2f f l l.cmp).1 with | .stuck => False | _ => True) := by
  have hA := genRes_agrees lo f2i i2f f hf l hs
  generalize (genRes promGen lo f2i i2f f l l.cmp).1 = r at hA
  cases r with
  | stuck => cases h : leafPred lo f l <;> simp [h, Agrees] at hA
  | _ => trivial

end leaf

/-! ## The leaf the calls define, against the spec -/

section leafFacts
variable (lo : LikeOracle) (f2i : UInt64 → Int) (i2f : Int → UInt64)

theorem shortcut_eq (prom : LCol → LCol → LCol × LCol) (f : LFrame) (l : Leaf) :
    shortcutOf (genLeafCalls prom lo f2i i2f f l) =
      match l.cmp with
      | .builtin op =>
        (match Gen.inverse.lookup op with
         | some iop => kernelOf f.n true (genRes prom lo f2i i2f f l (.builtin iop))
         | none => none)
      | _ => none := by
  unfold shortcutOf genLeafCalls
  cases l.cmp with
  | builtin op => cases h : Gen.inverse.lookup op <;> simp [h]
  | _ => simp

/-- the leaf with the comparator replaced is in scope when the leaf is -/
theorem scope_cmp {f : LFrame} {l : Leaf} (hs : LeafScope f l) (iop : String) : LeafScope f { l with cmp := .builtin iop } :=
  ⟨hs.goInt, hs.noFloatOnInt, (fun h => by cases h), (fun id h => by cases h)⟩

theorem leafPred_neq_eq (f : LFrame) (i : Bool) (col : Bytes) (arg : Arg)
    (h : leafPred lo f ⟨i, col, .builtin "=", arg⟩ = none) : leafPred lo f ⟨i, col, .builtin "!=", arg⟩ = none := by
  unfold leafPred at h ⊢
  simp only at h ⊢
  cases hc : f.find? col with
  | none => simp
  | some c =>
    simp only [hc] at h ⊢
    cases arg with
    | bad => rfl
    | nil => simp
    | ints vs => simp
    | strs vs => simp
    | col an =>
      simp only at h ⊢
      cases ha : f.find? an with
      | none => rfl
      | some ac =>
        simp only [ha] at h ⊢
        generalize (if (c.ty == CType.int && ac.ty == CType.float) = true then (promote c, ac)
                else if (c.ty == CType.float && ac.ty == CType.int) = true then (c, promote ac) else (c, ac)) = pr at h ⊢
        obtain ⟨c', ac'⟩ := pr
        simp only [isOrd6] at h ⊢
        split at h
        · rename_i h1; simp [h1]
        · split at h
          · rename_i h1 h2; simp [h1, h2]
          · simp at h
    | cell k =>
      simp only at h ⊢
      generalize c.ty = t at h ⊢
      rcases k with v | v | v | _ | v <;> cases t <;> simp [isOrd6] at h ⊢ <;> try simp_all
      case str.some.enum =>
        split at h
        · cases h
        · rename_i h1
          split at h
          · rename_i h2; simp [h1, h2]
          · cases h

theorem leafPred_inverse_none (f : LFrame) (l : Leaf) (op iop : String) (hcmp : l.cmp = .builtin op)
    (hlk : Gen.inverse.lookup op = some iop) (hni : op ≠ "not in") (hp : leafPred lo f l = none) :
    leafPred lo f { l with cmp := .builtin iop } = none := by
  obtain ⟨i, col, cmp, arg⟩ := l
  simp only at hcmp; subst hcmp
  have hm := C02Mirror.lookup_mem _ _ _ hlk
  simp only [Gen.inverse, List.mem_cons, Prod.mk.injEq, List.mem_nil_iff, or_false] at hm
  rcases hm with ⟨rfl, rfl⟩ | ⟨rfl, rfl⟩ | ⟨rfl, rfl⟩ | ⟨rfl, rfl⟩ | ⟨rfl, rfl⟩
  · exact leafPred_neq_eq lo f i col arg hp
  · exact C02Mirror.leafPred_notin lo f _ rfl
  · cases hq : leafPred lo f ⟨i, col, .builtin "isnull", arg⟩ with
    | none => rfl
    | some q =>
      obtain ⟨q2, hq2, _⟩ := C02Spec.leafPred_inverse lo f ⟨i, col, .builtin "isnull", arg⟩ "isnull" "isnotnull" q rfl (by decide) hq
      rw [hp] at hq2; cases hq2
  · cases hq : leafPred lo f ⟨i, col, .builtin "isnotnull", arg⟩ with
    | none => rfl
    | some q =>
      obtain ⟨q2, hq2, _⟩ := C02Spec.leafPred_inverse lo f ⟨i, col, .builtin "isnotnull", arg⟩ "isnotnull" "isnull" q rfl (by decide) hq
      rw [hp] at hq2; cases hq2
  · exact absurd rfl hni

variable (f : LFrame) (hf : FrameWT f) (l : Leaf) (hs : LeafScope f l)
include hf hs

theorem genLeaf_direct :
    match leafPred lo f l with
    | none => (genLeafCalls promGen lo f2i i2f f l).direct = none
    | some p => ∃ q, (genLeafCalls promGen lo f2i i2f f l).direct = some (.guarded, q) ∧
        (∀ i, i < f.n → q i = p i) ∧ (∀ i, ¬ i < f.n → q i = false) :=
  genCall_spec lo f2i i2f f hf l hs false

theorem genLeaf_err : (genLeaf promGen lo f2i i2f f l).err = !(leafPred lo f l).isSome := by
  have h := genLeaf_direct lo f2i i2f f hf l hs
  cases hp : leafPred lo f l with
  | none => rw [hp] at h; simp only [] at h; simp [genLeaf, h]
  | some p => rw [hp] at h; obtain ⟨q, hq, _⟩ := h; simp [genLeaf, hq]

theorem genLeaf_sem (p : Nat → Bool) (hp : leafPred lo f l = some p) (r : Nat) (hr : r < f.n) :
    (genLeaf promGen lo f2i i2f f l).sem r = (if l.inv then !p r else p r) := by
  have h := genLeaf_direct lo f2i i2f f hf l hs
  rw [hp] at h
  obtain ⟨q, hq, h1, _⟩ := h
  simp [genLeaf, hq, F.Leaf.sem, h1 r hr]

/-- the call through `filter.Inverse` for a leaf whose comparator has the entry `iop` -/
theorem genLeaf_shortcut (op iop : String) (hcmp : l.cmp = .builtin op) (hlk : Gen.inverse.lookup op = some iop) :
    match leafPred lo f { l with cmp := .builtin iop } with
    | none => shortcutOf (genLeafCalls promGen lo f2i i2f f l) = none
    | some p => ∃ q, shortcutOf (genLeafCalls promGen lo f2i i2f f l) = some (.guarded, q) ∧
        (∀ i, i < f.n → q i = p i) ∧ (∀ i, ¬ i < f.n → q i = true) := by
  rw [shortcut_eq]
  simp only [hcmp, hlk]
  exact genCall_spec lo f2i i2f f hf { l with cmp := .builtin iop } (scope_cmp hs iop) true

theorem genLeaf_noRescue (hni : l.cmp ≠ .builtin "not in") : NoRescue promGen lo f2i i2f f l := by
  intro hd
  have h := genLeaf_direct lo f2i i2f f hf l hs
  cases hp : leafPred lo f l with
  | some p => rw [hp] at h; obtain ⟨q, hq, _⟩ := h; rw [hq] at hd; cases hd
  | none =>
    cases hcmp : l.cmp with
    | builtin op =>
      cases hlk : Gen.inverse.lookup op with
      | none => rw [shortcut_eq]; simp only [hcmp, hlk]
      | some iop =>
        have h2 := genLeaf_shortcut lo f2i i2f f hf l hs op iop hcmp hlk
        rw [leafPred_inverse_none lo f l op iop hcmp hlk (by intro e; apply hni; rw [hcmp, e]) hp] at h2
        exact h2
    | _ => rw [shortcut_eq]; simp only [hcmp]

/-- **`(genLeafCalls l).Abstracts (genLeaf l)`** in the scope of the leaf theorems. -/
theorem genLeafCalls_abstracts (hni : l.cmp ≠ .builtin "not in") :
    (genLeafCalls promGen lo f2i i2f f l).Abstracts (genLeaf promGen lo f2i i2f f l) :=
  genLeafCalls_abstracts_of promGen lo f2i i2f f l (genLeaf_noRescue lo f2i i2f f hf l hs hni)

theorem genLeaf_ok : C02Mirror.LeafOk (genLeaf promGen lo f2i i2f f l) := by
  have h := genLeaf_direct lo f2i i2f f hf l hs
  cases hp : leafPred lo f l with
  | none =>
    rw [hp] at h; simp only [] at h
    simp only [genLeaf, h]
    exact ⟨Or.inl rfl, by intro sh p hI; cases hI⟩
  | some p =>
    rw [hp] at h
    obtain ⟨q, hq, h1, h2⟩ := h
    simp only [genLeaf, hq]
    refine ⟨Or.inl rfl, ?_⟩
    intro sh q' hI
    simp only at hI
    cases hcmp : l.cmp with
    | builtin op =>
      cases hlk : Gen.inverse.lookup op with
      | none => rw [shortcut_eq] at hI; simp [hcmp, hlk] at hI
      | some iop =>
        have h3 := genLeaf_shortcut lo f2i i2f f hf l hs op iop hcmp hlk
        cases hq' : leafPred lo f { l with cmp := .builtin iop } with
        | none => rw [hq'] at h3; simp only [] at h3; rw [h3] at hI; cases hI
        | some p' =>
          rw [hq'] at h3
          obtain ⟨q2, e2, g1, g2⟩ := h3
          rw [e2] at hI
          simp only [Option.some.injEq, Prod.mk.injEq] at hI
          obtain ⟨rfl, rfl⟩ := hI
          refine ⟨Or.inl rfl, ?_⟩
          rcases C02Mirror.inverse_today op iop hlk with hpair | hn | hn
          · obtain ⟨q3, hq3, hneg⟩ := C02Spec.leafPred_inverse lo f l op iop p hcmp hpair hp
            rw [hq'] at hq3
            simp only [Option.some.injEq] at hq3
            subst hq3
            intro x
            show q2 x = !q x
            by_cases hx : x < f.n
            · rw [g1 x hx, h1 x hx, hneg]
            · rw [g2 x hx, h2 x hx]; rfl
          · subst hn; rw [C02Mirror.leafPred_notin lo f l hcmp] at hp; cases hp
          · subst hn; rw [C02Mirror.leafPred_notin lo f _ rfl] at hq'; cases hq'
    | _ => rw [shortcut_eq] at hI; simp [hcmp] at hI

end leafFacts

/-! ## The clause tree -/

mutual
def leavesOf : Clause → List Leaf
  | .leaf l => [l]
  | .null => []
  | .not c => leavesOf c
  | .and cs => leavesOfs cs
  | .or cs => leavesOfs cs
def leavesOfs : List Clause → List Leaf
  | [] => []
  | c :: cs => leavesOf c ++ leavesOfs cs
end

/-- every `filter.Filter` of the clause is in the scope of the leaf theorems, and none uses the comparator "not in" (finding 1) -/
def ClauseScope (f : LFrame) (c : Clause) : Prop := ∀ l ∈ leavesOf c, LeafScope f l ∧ l.cmp ≠ .builtin "not in"

section clause
variable (lo : LikeOracle) (f2i : UInt64 → Int) (i2f : Int → UInt64) (f : LFrame) (hf : FrameWT f)

theorem genClauses_isEmpty (cs : List Clause) : (genClauses promGen lo f2i i2f f cs).isEmpty = cs.isEmpty := by
  cases cs <;> simp [genClauses]

include hf

mutual
theorem gen_wt (c : Clause) (hs : ∀ l ∈ leavesOf c, LeafScope f l) :
    (genClause promGen lo f2i i2f f c).wellTyped = (c.constructOk && c.typed lo f) := by
  match c with
  | .leaf l => simp [genClause, Clause.constructOk, Clause.typed, genLeaf_err lo f2i i2f f hf l (hs l (by simp [leavesOf]))]
  | .null => simp [genClause, Clause.constructOk, Clause.typed, F.Clause.wellTyped]
  | .not c => simpa [genClause, Clause.constructOk, Clause.typed] using gen_wt c (by simpa [leavesOf] using hs)
  | .and cs =>
    simp only [genClause, Clause.constructOk, Clause.typed, F.wt_and, gen_wts cs (by simpa [leavesOf] using hs), genClauses_isEmpty]
    cases cs.isEmpty <;> cases constructOkAll cs <;> simp
  | .or cs =>
    simp only [genClause, Clause.constructOk, Clause.typed, F.wt_or, gen_wts cs (by simpa [leavesOf] using hs), genClauses_isEmpty]
    cases cs.isEmpty <;> cases constructOkAll cs <;> simp
theorem gen_wts (cs : List Clause) (hs : ∀ l ∈ leavesOfs cs, LeafScope f l) :
    (genClauses promGen lo f2i i2f f cs).all (·.wellTyped) = (constructOkAll cs && typedAll lo f cs) := by
  match cs with
  | [] => simp [genClauses, constructOkAll, typedAll]
  | c :: cs =>
    simp only [genClauses, constructOkAll, typedAll, List.all_cons,
      gen_wt c (fun l h => hs l (by simp [leavesOfs, h])), gen_wts cs (fun l h => hs l (by simp [leavesOfs, h]))]
    cases c.constructOk <;> cases c.typed lo f <;> cases constructOkAll cs <;> simp
end

mutual
theorem gen_sem (c : Clause) (hs : ∀ l ∈ leavesOf c, LeafScope f l) (ht : c.typed lo f = true) (r : Nat) (hr : r < f.n) :
    (genClause promGen lo f2i i2f f c).sem r = c.sem lo f r := by
  match c with
  | .leaf l =>
    simp only [Clause.typed] at ht
    obtain ⟨p, hp⟩ := Option.isSome_iff_exists.mp ht
    simp only [genClause, F.sem_leaf, Clause.sem, hp]
    exact genLeaf_sem lo f2i i2f f hf l (hs l (by simp [leavesOf])) p hp r hr
  | .null => simp [genClause, Clause.sem]
  | .not c =>
    simp only [Clause.typed] at ht
    simp [genClause, Clause.sem, gen_sem c (by simpa [leavesOf] using hs) ht r hr]
  | .and cs =>
    simp only [Clause.typed] at ht
    simp only [genClause, F.sem_and, Clause.sem]
    exact gen_semAll cs (by simpa [leavesOf] using hs) ht r hr
  | .or cs =>
    simp only [Clause.typed] at ht
    simp only [genClause, F.sem_or, Clause.sem]
    exact gen_semAny cs (by simpa [leavesOf] using hs) ht r hr
theorem gen_semAll (cs : List Clause) (hs : ∀ l ∈ leavesOfs cs, LeafScope f l) (ht : typedAll lo f cs = true) (r : Nat) (hr : r < f.n) :
    (genClauses promGen lo f2i i2f f cs).all (·.sem r) = semAll lo f cs r := by
  match cs with
  | [] => simp [genClauses, semAll]
  | c :: cs =>
    simp only [typedAll, Bool.and_eq_true] at ht
    simp only [genClauses, semAll, List.all_cons, gen_sem c (fun l h => hs l (by simp [leavesOfs, h])) ht.1 r hr,
      gen_semAll cs (fun l h => hs l (by simp [leavesOfs, h])) ht.2 r hr]
theorem gen_semAny (cs : List Clause) (hs : ∀ l ∈ leavesOfs cs, LeafScope f l) (ht : typedAll lo f cs = true) (r : Nat) (hr : r < f.n) :
    (genClauses promGen lo f2i i2f f cs).any (·.sem r) = semAny lo f cs r := by
  match cs with
  | [] => simp [genClauses, semAny]
  | c :: cs =>
    simp only [typedAll, Bool.and_eq_true] at ht
    simp only [genClauses, semAny, List.any_cons, gen_sem c (fun l h => hs l (by simp [leavesOfs, h])) ht.1 r hr,
      gen_semAny cs (fun l h => hs l (by simp [leavesOfs, h])) ht.2 r hr]
end

mutual
theorem gen_ok (c : Clause) (hs : ∀ l ∈ leavesOf c, LeafScope f l) : C02Mirror.ClauseOk (genClause promGen lo f2i i2f f c) := by
  match c with
  | .leaf l => simp only [genClause, C02Mirror.ok_leaf]; exact genLeaf_ok lo f2i i2f f hf l (hs l (by simp [leavesOf]))
  | .null => simp [genClause, C02Mirror.ClauseOk]
  | .not c => simp only [genClause, C02Mirror.ok_not]; exact gen_ok c (by simpa [leavesOf] using hs)
  | .and cs => simp only [genClause, C02Mirror.ok_and]; exact gen_oks cs (by simpa [leavesOf] using hs)
  | .or cs => simp only [genClause, C02Mirror.ok_or]; exact gen_oks cs (by simpa [leavesOf] using hs)
theorem gen_oks (cs : List Clause) (hs : ∀ l ∈ leavesOfs cs, LeafScope f l) :
    ∀ c' ∈ genClauses promGen lo f2i i2f f cs, C02Mirror.ClauseOk c' := by
  match cs with
  | [] => simp [genClauses]
  | c :: cs =>
    intro c' hc'
    simp only [genClauses, List.mem_cons] at hc'
    rcases hc' with rfl | hc'
    · exact gen_ok c (fun l h => hs l (by simp [leavesOfs, h]))
    · exact gen_oks cs (fun l h => hs l (by simp [leavesOfs, h])) c' hc'
end

/-- the mirror `F.Clause.filter` on the clause built from the regenerated leaves = the spec -/
theorem genClause_filter_eq_spec (c : Clause) (hs : ∀ l ∈ leavesOf c, LeafScope f l) :
    (let r := (genClause promGen lo f2i i2f f c).filter { index := List.range f.n }
     if r.err then none else some r.index) = if c.wellFormed lo f then some (keptRows lo f c) else none := by
  simp only []
  cases hw : c.wellFormed lo f with
  | false =>
    have := C02Mirror.filter_err (genClause promGen lo f2i i2f f c)
      (by rw [gen_wt lo f2i i2f f hf c hs]; exact hw) { index := List.range f.n }
    simp [this]
  | true =>
    have hw' : (c.constructOk && c.typed lo f) = true := hw
    obtain ⟨e, i⟩ := C02Mirror.filter_refines' _ (gen_ok lo f2i i2f f hf c hs)
      (by rw [gen_wt lo f2i i2f f hf c hs]; exact hw') { index := List.range f.n } List.nodup_range rfl
    simp only [Bool.and_eq_true] at hw'
    simp only [e, i, keptRows, Bool.false_eq_true, if_false, if_true, Option.some.injEq]
    apply List.filter_congr
    intro r hr
    exact gen_sem lo f2i i2f f hf c hs hw'.2 r (List.mem_range.1 hr)

end clause

/-! ## End to end -/

section e2e
variable (lo : LikeOracle) (f2i : UInt64 → Int) (i2f : Int → UInt64)

/-- `qf.Filter(clause)` by the functions extracted today (`Gen.clauseFns`) on the clause whose leaves are the calls of the
extracted `Column.Filter` / dispatchers / kernels (`genClause`), `O` answering the calls; read as the driver reads it -/
def genFilterE2E (O : F.Leaf → LeafCalls) (f : LFrame) (c : Clause) : Option (List Nat) :=
  match interp Gen.clauseFns O (genClause promGen lo f2i i2f f c) { index := List.range f.n } with
  | some r => if r.err then none else some r.index
  | none => none

/-- **Filter end to end.** For every well-typed logical frame, every clause tree — `And` / `Or` / `Not` / `Null` nested
at will, leaves with any comparator string of any column type, constants, value sets, nil, column arguments (with the
int/float promotion regenerated from `QFrame.filter`), custom predicates, like / ilike relative to the matcher oracle
`lo`, with or without `Inverse` — and every behaviour `O` of the leaf calls that the leaves abstract (e.g. `genO` below,
which answers with the regenerated calls): the regenerated `Filter` has a meaning, returns an error exactly when the
spec's clause is not well formed, and otherwise exactly `keptRows` (the rows satisfying the clause, in frame order).

Full statement (NOT proved): the same with `ClauseScope` replaced by `∀ l ∈ leavesOf c, ∀ v, l.arg = .cell (.int v) → int64 v`.
Excluded here (hence `_partial`), per leaf: (1) a `float64` constant on an int column (`gen_leaf_semantics_partial`:
the code truncates, the spec rejects); (2) a two-argument custom predicate on two enum columns with different value
tables (`gen_custom2_semantics_partial`, a limit of the kernel model); (3) finding 1 — the comparator "not in";
(4) finding 2 — a one-argument custom predicate with a `ColumnName` argument. Parameters: `lo` (regexp / unicode of
like / ilike), `f2i` / `i2f` (Go's float→int / int→float conversions inside the dispatchers; unused in scope). -/
theorem gen_filter_end_to_end_partial (O : F.Leaf → LeafCalls) (hO : ∀ fl, (O fl).Abstracts fl) (f : LFrame) (hf : FrameWT f)
    (c : Clause) (hs : ClauseScope f c) :
    genFilterE2E lo f2i i2f O f c = if c.wellFormed lo f then some (keptRows lo f c) else none := by
  unfold genFilterE2E
  rw [C02ClausesGen.gen_clause_filter_semantics O hO]
  exact genClause_filter_eq_spec lo f2i i2f f hf c (fun l h => (hs l h).1)

/-- **`Filter{Inverse: true}` end to end**: an accepted leaf with the `Inverse` flag keeps exactly the rows on which its
predicate is false (through the entry of `filter.Inverse` where the extracted call succeeds, else through the fallback
`bIndex[i] = !invBIndex[i]`), a rejected one is an error. Same exclusions as `gen_filter_end_to_end_partial`. -/
theorem gen_filter_inv_end_to_end_partial (O : F.Leaf → LeafCalls) (hO : ∀ fl, (O fl).Abstracts fl) (f : LFrame) (hf : FrameWT f)
    (l : Leaf) (hinv : l.inv = true) (hs : LeafScope f l) (hni : l.cmp ≠ .builtin "not in") :
    genFilterE2E lo f2i i2f O f (.leaf l) =
      match leafPred lo f l with
      | some p => some ((List.range f.n).filter (fun r => !p r))
      | none => none := by
  rw [gen_filter_end_to_end_partial lo f2i i2f O hO f hf (.leaf l) (by intro l' h; simp [leavesOf] at h; subst h; exact ⟨hs, hni⟩)]
  cases hp : leafPred lo f l with
  | none => simp [Clause.wellFormed, Clause.constructOk, Clause.typed, hp]
  | some p =>
    simp only [Clause.wellFormed, Clause.constructOk, Clause.typed, hp, Option.isSome_some, Bool.and_self, if_true, keptRows,
      Option.some.injEq]
    apply List.filter_congr
    intro r _
    simp [Clause.sem, hp, hinv]

/-! ### an instance of `O` that answers with the regenerated calls -/

/-- the same leaf up to the `Inverse` flag (which `NotClause.filter` flips) -/
def sameLeaf (a b : F.Leaf) : Prop := ({ a with inverse := false } : F.Leaf) = { b with inverse := false }

open Classical in
/-- On every `F.Leaf` that is the image of a spec leaf whose regenerated calls it abstracts, the regenerated calls of such
a leaf; elsewhere the simplest calls. -/
noncomputable def genO (f : LFrame) (fl : F.Leaf) : LeafCalls :=
  if h : ∃ l : Leaf, sameLeaf (genLeaf promGen lo f2i i2f f l) fl ∧
      (genLeafCalls promGen lo f2i i2f f l).Abstracts (genLeaf promGen lo f2i i2f f l)
  then genLeafCalls promGen lo f2i i2f f (Classical.choose h) else LeafCalls.ofLeaf fl

theorem abstracts_sameLeaf {k : LeafCalls} {a b : F.Leaf} (h : sameLeaf a b) (ha : k.Abstracts a) : k.Abstracts b := by
  have h' : ({ a with inverse := false } : F.Leaf) = { b with inverse := false } := h
  simp only [F.Leaf.mk.injEq, true_and, and_true] at h'
  obtain ⟨e2, e3, e4, e1⟩ := h'
  simpa only [LeafCalls.Abstracts, e1, e2, e3, e4] using ha

theorem genO_abstracts (f : LFrame) (fl : F.Leaf) : (genO lo f2i i2f f fl).Abstracts fl := by
  unfold genO
  split
  · rename_i h
    exact abstracts_sameLeaf (Classical.choose_spec h).1 (Classical.choose_spec h).2
  · exact LeafCalls.ofLeaf_abstracts fl

/-- on the leaves of a `genClause` in scope (whatever the `Inverse` flag has become) `genO` IS the regenerated calls of a
spec leaf that defines the same `F.Leaf` -/
theorem genO_gen (f : LFrame) (hf : FrameWT f) (l : Leaf) (hs : LeafScope f l) (hni : l.cmp ≠ .builtin "not in") (b : Bool) :
    ∃ l' : Leaf, genO lo f2i i2f f { genLeaf promGen lo f2i i2f f l with inverse := b } = genLeafCalls promGen lo f2i i2f f l' ∧
      sameLeaf (genLeaf promGen lo f2i i2f f l') (genLeaf promGen lo f2i i2f f l) := by
  have h : ∃ l' : Leaf, sameLeaf (genLeaf promGen lo f2i i2f f l') { genLeaf promGen lo f2i i2f f l with inverse := b } ∧
      (genLeafCalls promGen lo f2i i2f f l').Abstracts (genLeaf promGen lo f2i i2f f l') :=
    ⟨l, rfl, genLeafCalls_abstracts lo f2i i2f f hf l hs hni⟩
  refine ⟨Classical.choose h, ?_, (Classical.choose_spec h).1⟩
  unfold genO
  rw [dif_pos h]

/-- **Filter end to end, with the regenerated calls as the leaves' behaviour.** -/
theorem gen_filter_end_to_end_genO_partial (f : LFrame) (hf : FrameWT f) (c : Clause) (hs : ClauseScope f c) :
    genFilterE2E lo f2i i2f (genO lo f2i i2f f) f c = if c.wellFormed lo f then some (keptRows lo f c) else none :=
  gen_filter_end_to_end_partial lo f2i i2f _ (genO_abstracts lo f2i i2f f) f hf c hs

end e2e

/-! ## The hypotheses are satisfiable, the statement is not vacuous -/

section Witnesses
open C02Spec (f0 aGt1 bNull bEq0 c0)

/-- a = [1, 2, 3] (int), b = [NaN, 0, 1] (float): a well-typed frame -/
theorem f0_wt : FrameWT f0 := ⟨(by decide), (by decide), (by decide), (by decide)⟩

/-- leaves with a constant in range, nil or a column argument and a comparator string other than "not in" are in scope -/
theorem scope_builtin (f : LFrame) (l : Leaf) (op : String) (hcmp : l.cmp = .builtin op) (hop : op ≠ "not in")
    (hint : ∀ v, l.arg = .cell (.int v) → int64 v) (hflt : ∀ b, l.arg ≠ .cell (.float b) ∨ ∀ c, f.find? l.col = some c → c.ty ≠ .int) :
    LeafScope f l ∧ l.cmp ≠ .builtin "not in" := by
  refine ⟨⟨hint, ?_, (by rw [hcmp]; intro h; cases h), (by rw [hcmp]; intro id h; cases h)⟩, (by rw [hcmp]; intro h; injection h with h; exact hop h)⟩
  rintro c hc ⟨hty, b, hb⟩
  rcases hflt b with h | h
  · exact h hb
  · exact h c hc hty

/-- `And(a > 1, Not(b isnull))`, `Or(a > 1, Not(b = 0), Null)` and `Not(Or(…))` on `f0` are in scope -/
def c1 : Clause := .not (.or [.leaf aGt1, .not (.leaf { bEq0 with inv := true }), .null, c0])

theorem c1_scope : ClauseScope f0 c1 := by
  intro l hl
  simp only [c1, c0, leavesOf, leavesOfs, List.mem_append, List.mem_singleton, List.mem_nil_iff, or_false, List.append_nil] at hl
  rcases hl with rfl | rfl | h | rfl | rfl
  · exact scope_builtin f0 _ ">" rfl (by decide) (by intro v h; cases h; unfold int64; omega) (fun b => Or.inl (by intro h; cases h))
  · exact scope_builtin f0 _ "=" rfl (by decide) (by intro v h; cases h) (fun b => Or.inr (by intro c hc; cases hc; decide))
  · exact h.elim
  · exact scope_builtin f0 _ ">" rfl (by decide) (by intro v h; cases h; unfold int64; omega) (fun b => Or.inl (by intro h; cases h))
  · exact scope_builtin f0 _ "isnull" rfl (by decide) (by intro v h; cases h) (fun b => Or.inl (by intro h; cases h))

/-- the headline theorem on this input: the regenerated Filter with the regenerated leaves and calls keeps no row
(`Null` is inside the `Or`), without error -/
example (f2i : UInt64 → Int) (i2f : Int → UInt64) : genFilterE2E C02Spec.lo0 f2i i2f (genO C02Spec.lo0 f2i i2f f0) f0 c1 = some [] := by
  rw [gen_filter_end_to_end_genO_partial C02Spec.lo0 f2i i2f f0 f0_wt c1 c1_scope]; decide
/-- `Filter{b = 0, Inverse: true}`: the rows where b = 0 is false, the NaN row included -/
example (f2i : UInt64 → Int) (i2f : Int → UInt64) :
    genFilterE2E C02Spec.lo0 f2i i2f (genO C02Spec.lo0 f2i i2f f0) f0 (.leaf { bEq0 with inv := true }) = some [0, 2] := by
  rw [gen_filter_inv_end_to_end_partial C02Spec.lo0 f2i i2f _ (genO_abstracts C02Spec.lo0 f2i i2f f0) f0 f0_wt _ rfl
    (scope_builtin f0 _ "=" rfl (by decide) (by intro v h; cases h) (fun b => Or.inr (by intro c hc; cases hc; decide))).1
    (by intro h; injection h with h; revert h; decide)]
  decide

/-! ### Finding 1: `Not(Filter{"not in"})` -/

/-- a = [1, 2, 3]; `a not in [2, 3]` -/
def notIn : Leaf := ⟨false, [97], .builtin "not in", .ints [2, 3]⟩

/-- **Finding 1.** Input: int column A = [1, 2, 3], `Filter{Column: "A", Comparator: "not in", Arg: []int{2, 3}, Inverse: true}`
(equally `Not(Filter{… "not in" …})`; string and enum columns with a `[]string` likewise). The spec rejects the leaf
(`leafPred = none`: no column implements "not in", so `Filter` must return an error — as it does without `Inverse`).
Today's code does not: `filter.Inverse["not in"] = "in"`, the call with "in" succeeds and `QFrame.filter` is `done` — no
error, rows [2, 3] (confirmed on the real code). In the terms regenerated today: the direct call fails, the call through
`filter.Inverse` succeeds — `NoRescue` is false, so these calls are not abstracted by any `F.Leaf` with `err`. -/
theorem not_in_is_rescued (f2i : UInt64 → Int) (i2f : Int → UInt64) :
    leafPred C02Spec.lo0 f0 notIn = none ∧ (genLeafCalls promGen C02Spec.lo0 f2i i2f f0 notIn).direct = none ∧
    (shortcutOf (genLeafCalls promGen C02Spec.lo0 f2i i2f f0 notIn)).isSome = true ∧ ¬ NoRescue promGen C02Spec.lo0 f2i i2f f0 notIn := by
  have hs : LeafScope f0 notIn := ⟨(by intro v h; cases h), (by rintro c hc ⟨_, b, hb⟩; cases hb), (by intro h; cases h), (by intro id h; cases h)⟩
  have h1 : leafPred C02Spec.lo0 f0 notIn = none := C02Mirror.leafPred_notin C02Spec.lo0 f0 notIn rfl
  have h2 : (genLeafCalls promGen C02Spec.lo0 f2i i2f f0 notIn).direct = none := by
    have := genLeaf_direct C02Spec.lo0 f2i i2f f0 f0_wt notIn hs
    rw [h1] at this; exact this
  have h3 : (shortcutOf (genLeafCalls promGen C02Spec.lo0 f2i i2f f0 notIn)).isSome = true := by
    have := genLeaf_shortcut C02Spec.lo0 f2i i2f f0 f0_wt notIn hs "not in" "in" rfl (by decide)
    have hp : (leafPred C02Spec.lo0 f0 { notIn with cmp := .builtin "in" }).isSome = true := by decide
    obtain ⟨p, hp⟩ := Option.isSome_iff_exists.mp hp
    rw [hp] at this
    obtain ⟨q, hq, _⟩ := this
    rw [hq]; rfl
  refine ⟨h1, h2, h3, ?_⟩
  intro h
  rw [h h2] at h3
  cases h3

/-! ### Finding 2: a one-argument custom predicate with a `ColumnName` argument -/

/-- **Finding 2.** Input: int column A = [1, 2, 3] (and a float column B), `Filter{Column: "A", Comparator: func(int) bool
odd, Arg: types.ColumnName("nosuch")}`. The spec ignores the argument of a one-argument predicate (`leafPred` accepts the
leaf: rows [0, 2]); today's `QFrame.filter` looks every `ColumnName` argument up before it calls `Column.Filter` and
returns `unknown argument column` (confirmed on the real code; with `ColumnName("B")`, B a float column, the int column
is promoted and `filterCustom1` rejects `func(int) bool`). In the regenerated terms: -/
theorem custom1_with_column_arg (f2i : UInt64 → Int) (i2f : Int → UInt64) :
    (leafPred C02Spec.lo0 f0 ⟨false, [97], .p1 "odd", .col [122]⟩).isSome = true ∧
    (genLeafCalls promGen C02Spec.lo0 f2i i2f f0 ⟨false, [97], .p1 "odd", .col [122]⟩).direct = none := by
  refine ⟨by decide, ?_⟩
  exact genRes_unknown_arg (b := false) promGen C02Spec.lo0 f2i i2f f0 ⟨false, [97], .p1 "odd", .col [122]⟩ (.p1 "odd") [122] rfl (by decide)

/-! ### Seeded defect C02-9: the operands of the float-vs-int promotion come back swapped -/

/-- the preamble of the seeded change: for a float column against an int column `promoteIntFloat` returns
(promoted argument, column) -/
def promSwapped (c ac : LCol) : LCol × LCol :=
  if c.ty == .float && ac.ty == .int then (promote ac, c) else promGen c ac

/-- today's rules are not the swapped preamble's (`prepGen_eq`: `prepWith promGen = prep`, operand order included;
`gen_promote_rules` fails on any change of the rules) -/
example : promSwapped { name := [70], ty := .float, cells := #[] } { name := [73], ty := .int, cells := #[] } ≠
    promGen { name := [70], ty := .float, cells := #[] } { name := [73], ty := .int, cells := #[] } := by
  rw [promGen_eq]
  simp [promSwapped, promote]

/-! The concrete violation. Lean's kernel cannot evaluate `Float.ofInt`, so the witness is stated relative to
`intToF64Bits 2 = 0x4000000000000000` (`float64(2)` has the bits of 2.0; `#eval (Float.ofInt 2).toBits` prints
4611686018427387904 = 0x4000000000000000). -/

/-- F = [1.5] (float), I = [2] (int); the leaf `F < I` -/
def colF : LCol := { name := [70], ty := .float, cells := #[.float 0x3FF8000000000000] }
def colI : LCol := { name := [73], ty := .int, cells := #[.int 2] }
/-- `I` promoted, given `float64(2)` = 2.0 -/
def colI2 : LCol := { name := [73], ty := .float, cells := #[.float 0x4000000000000000] }
def fFI : LFrame := { cols := [colF, colI], n := 1 }
def lFI : Leaf := ⟨false, [70], .builtin "<", .col [73]⟩

theorem promote_colI (h2 : intToF64Bits 2 = 0x4000000000000000) : promote colI = colI2 := by
  simp [promote, colI, colI2, h2]

theorem find_F : fFI.find? [70] = some colF := by simp [fFI, LFrame.find?, colF, colI]
theorem find_I : fFI.find? [73] = some colI := by simp [fFI, LFrame.find?, colF, colI]

theorem call_today (lo : LikeOracle) (f2i : UInt64 → Int) (i2f : Int → UInt64) (h2 : intToF64Bits 2 = 0x4000000000000000) :
    genRes promGen lo f2i i2f fFI lFI (.builtin "<") =
      ((today lo f2i i2f {} colF (.str "<") (.col .float [] 1)).runFilter, colF, colI2) := by
  simp only [genRes, lFI, find_F, find_I, prepWith, promGen_eq, promote_colI h2, paramsOf, dcmpOf]
  rfl

theorem call_swapped (lo : LikeOracle) (f2i : UInt64 → Int) (i2f : Int → UInt64) (h2 : intToF64Bits 2 = 0x4000000000000000) :
    genRes promSwapped lo f2i i2f fFI lFI (.builtin "<") =
      ((today lo f2i i2f {} colI2 (.str "<") (.col .float [] 1)).runFilter, colI2, colF) := by
  simp only [genRes, lFI, find_F, find_I, prepWith, promSwapped, promote_colI h2, paramsOf, dcmpOf]
  rfl

theorem colI2_eq : colI2.cells = #[.float 0x4000000000000000] ∧ colF.cells = #[.float 0x3FF8000000000000] := ⟨rfl, rfl⟩

/-- `Column.Filter("<")` of today's fcolumn on a float receiver `c` against a float column `ac` of one row: the guarded
accumulate of `c[0] < ac[0]` -/
theorem float_lt_call (lo : LikeOracle) (f2i : UInt64 → Int) (i2f : Int → UInt64) (c ac : LCol) (hc : c.ty = .float) (ha : ac.ty = .float)
    (hv : ac.vals = []) (hn1 : c.cells.size = 1) (hn2 : ac.cells.size = 1)
    (hok : cellOk c.ty c.vals c.cells[0]! = true ∧ cellOk ac.ty ac.vals ac.cells[0]! = true) (out : Bool) :
    ∃ q, kernelOf 1 out ((today lo f2i i2f {} c (.str "<") (.col .float [] 1)).runFilter, c, ac) = some (.guarded, q) ∧
      q 0 = cmp6 c "<" c.cells[0]! ac.cells[0]! := by
  have hdef : c.ty ∈ tys := by rw [hc]; decide
  have h := leaf_col_core lo f2i i2f {} c ac "<" hdef (by rw [hn1, hn2])
  rw [ha, hv, hn2] at h
  rw [← run_dispatchOf _ hdef, ← gen_filter_builtin lo f2i i2f {} c "<" _ hdef] at h
  have hp : (if (c.ty != CType.float) = true then none
      else if (c.ty == CType.enum && c.vals != []) = true then none
      else if (if (c.ty == CType.bool) = true then "<" == "=" || "<" == "!=" else isOrd6 "<") = true then
        some fun (r : Nat) => cmp6 c "<" c.cells[r]! ac.cells[r]! else none) = some (fun (r : Nat) => cmp6 c "<" c.cells[r]! ac.cells[r]!) := by
    rw [hc]; simp [isOrd6]
  rw [hp] at h
  obtain ⟨q, hq, hin, _⟩ := kernelOf_some (n := 1) (out := out) h (fun i hi => by
    have : i = 0 := by omega
    subst this; exact hok)
  exact ⟨q, hq, hin 0 (by omega)⟩

/-- **Seeded defect C02-9, the concrete violation** (relative to `float64(2)` having the bits of 2.0, which Lean's kernel
cannot compute from `Float.ofInt`): on the frame F = [1.5] (float), I = [2] (int) and the leaf `F < I`
* the spec keeps row 0 (1.5 < 2.0);
* today's regenerated call (`genLeafCalls promGen`: the receiver is F, the operand the promoted I) is the guarded kernel of a
  predicate that is TRUE at row 0;
* with the swapped preamble (`promSwapped`: the promoted argument comes back as the receiver, the column as the operand) the
  regenerated call runs the float kernel `<` on (2.0, 1.5): its predicate is FALSE at row 0 — the row the spec keeps is dropped. -/
theorem c02_9_swapped_promotion_keeps_wrong_rows (lo : LikeOracle) (f2i : UInt64 → Int) (i2f : Int → UInt64)
    (h2 : intToF64Bits 2 = 0x4000000000000000) :
    (∃ p, leafPred lo fFI lFI = some p ∧ p 0 = true) ∧
    (∃ q, (genLeafCalls promGen lo f2i i2f fFI lFI).direct = some (.guarded, q) ∧ q 0 = true) ∧
    (∃ q, (genLeafCalls promSwapped lo f2i i2f fFI lFI).direct = some (.guarded, q) ∧ q 0 = false) := by
  refine ⟨?_, ?_, ?_⟩
  · refine ⟨fun r => cmp6 colF "<" colF.cells[r]! colI2.cells[r]!, ?_, by decide⟩
    unfold leafPred
    simp only [lFI, find_F, find_I]
    simp [colF, colI, promote, h2, isOrd6, colI2]
  · obtain ⟨q, hq, h0⟩ := float_lt_call lo f2i i2f colF colI2 rfl rfl rfl rfl rfl (by decide) false
    refine ⟨q, ?_, by rw [h0]; decide⟩
    show kernelOf fFI.n false (genRes promGen lo f2i i2f fFI lFI lFI.cmp) = _
    rw [show lFI.cmp = .builtin "<" from rfl, call_today lo f2i i2f h2]
    exact hq
  · obtain ⟨q, hq, h0⟩ := float_lt_call lo f2i i2f colI2 colF rfl rfl rfl rfl rfl (by decide) false
    refine ⟨q, ?_, by rw [h0]; decide⟩
    show kernelOf fFI.n false (genRes promSwapped lo f2i i2f fFI lFI lFI.cmp) = _
    rw [show lFI.cmp = .builtin "<" from rfl, call_swapped lo f2i i2f h2]
    exact hq

/-- the remaining hypotheses of the witness are met by the frame: one row, float cells -/
example : fFI.n = 1 ∧ cellOk colF.ty colF.vals colF.cells[0]! = true ∧ cellOk colI2.ty colI2.vals colI2.cells[0]! = true := by decide

/-! ### Seeded defect C02-10: `Null()` skipped inside `Or` -/

/-- `OrClause.filter` of the seeded change: `if _, ok := c.(NullClause); ok { continue }` in the loop and
`if filteredQf == nil { return qf }` at the end -/
def mutOrSkipNull : CL.Fn := { params := 2, body := S.block [
  C02ClausesGen.retIfFailed 1, C02ClausesGen.retIfClauseErr .or, S.define 2 E.emptyLeaves, S.define 3 E.nilPtr,
  S.range (E.subClauses (E.var 0)) none (some 4) (S.block [S.ifIs (E.var 4) DynTy.null 9 (S.block [])
    (S.block [S.ifIs (E.var 4) DynTy.filter 5
      (S.block [S.assign 2 (E.snoc (E.var 2) (E.var 5))])
      (S.block (S.ite (E.cmp COp.gt (E.len (E.var 2)) (E.int 0))
        (S.block (C02ClausesGen.flush 6 ++ [S.assign 2 (E.truncate (E.var 2) (E.int 0))])) (S.block []) :: C02ClausesGen.nestedCall))])]),
  S.ite (E.cmp COp.gt (E.len (E.var 2)) (E.int 0)) (S.block (C02ClausesGen.flush 8)) (S.block []),
  S.ite (E.isNil (E.var 3)) (S.block [S.ret (E.var 1)]) (S.block []),
  S.ret (E.deref (E.var 3))] }

/-- the leaf `a > 1` on a = [1, 2, 3] as the regenerated calls define it, with the kernel's predicate read off by `decide` -/
def gt1Leaf : F.Leaf := { shape := .guarded, pred := fun r => r == 1 || r == 2 }

/-- On `Or(a > 1, Null())` over three rows the changed term keeps rows [1, 2]; the statement (`keptRows`: every row — `Null`
is absorbing in an `Or`) is violated; today's term keeps [0, 1, 2]. -/
example : interp (C02ClausesGen.withFn (.filter .or) mutOrSkipNull) LeafCalls.ofLeaf (.or [.leaf gt1Leaf, .null]) { index := [0, 1, 2] } =
    some { index := [1, 2] } := by decide
example : interp C02ClausesGen.canonFns LeafCalls.ofLeaf (.or [.leaf gt1Leaf, .null]) { index := [0, 1, 2] } = some { index := [0, 1, 2] } := by decide
example : keptRows C02Spec.lo0 f0 (.or [.leaf aGt1, .null]) = [0, 1, 2] := by decide
example : C02ClausesGen.withFn (.filter .or) mutOrSkipNull ≠ C02ClausesGen.canonFns := by decide

end Witnesses

#print axioms prepGen_eq
#print axioms genLeafCalls_abstracts
#print axioms genO_abstracts
#print axioms genO_gen
#print axioms genCall_spec
#print axioms gen_leaf_not_stuck
#print axioms genClause_filter_eq_spec
#print axioms gen_filter_end_to_end_partial
#print axioms gen_filter_inv_end_to_end_partial
#print axioms gen_filter_end_to_end_genO_partial
#print axioms not_in_is_rescued
#print axioms custom1_with_column_arg
#print axioms gen_kernel_loop
#print axioms gen_kernel_loop_out
#print axioms gen_kernel_loop_agrees
#print axioms c02_9_swapped_promotion_keeps_wrong_rows

end QF.Props.C02EndToEnd
