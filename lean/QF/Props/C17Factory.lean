import QF.Props.C17Enum
import QF.Gen.Construct
/-!
# C17 / C12 — the enum factory of today's source builds exactly the table `mkEnum` specifies (tie T1, by semantics)

`QF.Gen.factoryInit`, `factoryMethods`, `factoryNew`, `factoryNewConst` (regenerated on every run by
go/cmd/extract/east.go) hold `NewFactory`, the methods of `*Factory` (calls of other methods inlined) and the two
constructors `ecolumn.New(data, values)` / `ecolumn.NewConst(val, count, values)` of /repo/internal/ecolumn/column.go as
terms of `QF.FI` / `QF.FT` / `QF.FL` (QF/Core/Factory.lean: the Go meaning of the terms over a state of value list,
strict flag, cells and look-up map). This file proves, for the terms generated TODAY:

* `gen_factory_no_opaque`   — everything was found and translated completely
* `gen_factory_canon`       — the terms are the canonical ones (finite `decide`, redone on every run)
* `gen_factory_init`        — `NewFactory(values, _)`: an error beyond 255 declared values, else the declaration as value
                              list, strict iff something is declared, no cells, a map that finds every declared value
* `gen_factory_step`        — the per-cell step: null → the null code 255; a string the map knows → its code; a new
                              string → error if strict, error if 255 values are there, else the next code, appended
* `gen_factory_semantics`   — folding the step over ANY list of cells from the initial state gives exactly
                              `mkEnum declared cells`: the same error cases, the same value list, the same strictness;
                              every code decodes to its cell (`CodeOk`: null ↔ 255, else a position < 255 of the value
                              list that holds the string), and for a duplicate-free declaration the codes are the ranks
                              (`enumRank`)
* `gen_factory_const_semantics` — the same for `NewConst(val, count, values)` against `mkEnum declared (val :: count × val)`
* `gen_factory_bytes_step`  — `AppendByteString` (the CSV reader's entry) is the same step as `AppendString`
* `gen_factory_is_ctor`     — … so today's `ecolumn.New` / `ecolumn.NewConst` meet the assumption `Ctors.Spec` under which
                              `C08Construct.gen_new_semantics_partial` is stated (value table, strictness, observed cells)

Method: as in C08Guards / C02Dispatch.

OBSERVATION (outside the property's quantifier, which ranges over declared value SETS): a declaration with a duplicate,
e.g. `Enums{"e": {"a", "a", "b"}}`. The look-up map keeps the LAST position of a value (`valToEnum[v] = enumVal(i)`
overwrites), so cells get the code 1 for "a", while `enumRank` — and the filter's search of the value list for the
constant — answers the FIRST position 0. The cells still decode to the right string (`CodeOk` holds), but
`Filter{e = "a"}` on such a column selects nothing (observed on the real code). The rank statement therefore carries
`declared.Nodup` (`dup_declared_witness`).
-/
namespace QF.Props.C17Factory
open QF QF.Props.C17Enum

/-- the two lists have the same length and corresponding entries are related -/
inductive Forall2 {α β : Type} (R : α → β → Prop) : List α → List β → Prop
  | nil : Forall2 R [] []
  | cons {a : α} {b : β} {l₁ : List α} {l₂ : List β} : R a b → Forall2 R l₁ l₂ → Forall2 R (a :: l₁) (b :: l₂)

/-! ## Canonical terms -/

def canonInit : List FI := [.rejectIfLen .gt 255, .nilToEmpty, .mapFromValues 256, .build .gt 0]

/-- a string the map does not know -/
def canonFresh (k : FT) : FT :=
  .ifStrict .retErr (.ifCard .ge 255 .retErr (.letLen 256 (.appendValue (.mapPut .fresh k))))

def canonAppendNil : FT := .push (.lit 255) .retNil
def canonAppendEnum : FT := .push .param .retNil
def canonAppendString : FT := .ifSeen (.push .seen .retNil) (canonFresh (.push .fresh .retNil))
def canonEnumVal : FT := .ifNil (.retCode (.lit 255)) (.ifSeen (.retCode .seen) (canonFresh (.retCode .fresh)))

def canonNew : FL := .init (.forEachCell canonAppendNil canonAppendString .retColumn)
def canonNewConst : FL := .init (.codeOf canonEnumVal (.repeatPush canonAppendEnum .retColumn))

def canonMethods : List (String × FT) := [
  ("() → ()", canonAppendNil),
  ("(bytes) → (error)", canonAppendString),
  ("(code) → ()", canonAppendEnum),
  ("(ptr) → (code, error)", canonEnumVal),
  ("(str) → (code)", .letLen 256 (.appendValue (.mapPut .fresh (.retCode .fresh)))),
  ("(str) → (error)", canonAppendString),
  ("(str) → (error)", canonFresh (.push .fresh .retNil))]

/-! ## Today's terms are the canonical ones -/

theorem gen_factory_canon :
    Gen.factoryInit = canonInit ∧ Gen.factoryNew = canonNew ∧ Gen.factoryNewConst = canonNewConst ∧
    Gen.factoryMethods = canonMethods := by decide

theorem gen_factory_no_opaque :
    (∀ s ∈ Gen.factoryInit, s.hasOpaque = false) ∧ (∀ m ∈ Gen.factoryMethods, m.2.hasOpaque = false) ∧
    Gen.factoryNew.hasOpaque = false ∧ Gen.factoryNewConst.hasOpaque = false := by decide

/-- `ecolumn.New(cells, declared)` of today's source -/
def genNew (declared : List Bytes) (cells : List (Option Bytes)) : FOut :=
  Gen.factoryNew.run Gen.factoryInit { declared := declared, cells := cells } none none

/-- `ecolumn.NewConst(val, count, declared)` of today's source -/
def genNewConst (declared : List Bytes) (val : Option Bytes) (count : Nat) : FOut :=
  Gen.factoryNewConst.run Gen.factoryInit { declared := declared, val := val, count := count } none none

/-- `NewFactory(declared, _)` of today's source -/
def genInit (declared : List Bytes) : FOut := runInit declared Gen.factoryInit none

/-- the method of today's source `New` runs on a non-null cell / on a null cell -/
def genStepStr : FT := match Gen.factoryNew with | .init (.forEachCell _ s _) => s | _ => .opaque ""
def genStepNil : FT := match Gen.factoryNew with | .init (.forEachCell n _ _) => n | _ => .opaque ""

/-! ## The look-up map -/

/-- The map knows exactly the strings of the value list, and an entry is a position that holds its key. -/
structure MapOk (vals : List Bytes) (m : List (Bytes × Nat)) : Prop where
  sound : ∀ s c, m.lookup s = some c → vals[c]? = some s
  complete : ∀ s, s ∈ vals → ∃ c, m.lookup s = some c

theorem lookup_cons_self (s : Bytes) (c : Nat) (m : List (Bytes × Nat)) : ((s, c) :: m).lookup s = some c := by
  simp [List.lookup]

theorem lookup_cons_ne {s v : Bytes} (h : s ≠ v) (c : Nat) (m : List (Bytes × Nat)) :
    ((v, c) :: m).lookup s = m.lookup s := by
  have : (s == v) = false := beq_false_of_ne h
  simp [List.lookup, this]

theorem MapOk.extend {vals : List Bytes} {m : List (Bytes × Nat)} (h : MapOk vals m) (v : Bytes) :
    MapOk (vals ++ [v]) ((v, vals.length) :: m) := by
  constructor
  · intro s c hl
    by_cases hs : s = v
    · subst hs
      rw [lookup_cons_self] at hl
      cases hl
      simp
    · rw [lookup_cons_ne hs] at hl
      have := h.sound s c hl
      have hc : c < vals.length := by
        rcases Nat.lt_or_ge c vals.length with h' | h'
        · exact h'
        · rw [List.getElem?_eq_none h'] at this; cases this
      rw [List.getElem?_append_left hc]; exact this
  · intro s hs
    by_cases hsv : s = v
    · subst hsv; exact ⟨_, lookup_cons_self _ _ _⟩
    · rw [lookup_cons_ne hsv]
      apply h.complete
      rcases List.mem_append.1 hs with h' | h'
      · exact h'
      · simp at h'; exact absurd h' hsv

theorem MapOk.lt {vals : List Bytes} {m : List (Bytes × Nat)} (h : MapOk vals m) {s : Bytes} {c : Nat}
    (hl : m.lookup s = some c) : c < vals.length := by
  have := h.sound s c hl
  rcases Nat.lt_or_ge c vals.length with h' | h'
  · exact h'
  · rw [List.getElem?_eq_none h'] at this; cases this

theorem MapOk.mem {vals : List Bytes} {m : List (Bytes × Nat)} (h : MapOk vals m) {s : Bytes} {c : Nat}
    (hl : m.lookup s = some c) : s ∈ vals :=
  List.mem_of_getElem? (h.sound s c hl)

theorem MapOk.none {vals : List Bytes} {m : List (Bytes × Nat)} (h : MapOk vals m) {s : Bytes}
    (hl : m.lookup s = none) : s ∉ vals := by
  intro hs
  obtain ⟨c, hc⟩ := h.complete s hs
  rw [hl] at hc; cases hc

theorem mapFrom_ok (P R : List Bytes) (m : List (Bytes × Nat)) (h : MapOk P m) (hlen : P.length + R.length ≤ 256) :
    MapOk (P ++ R) (mapFrom 256 R P.length m) := by
  induction R generalizing P m with
  | nil => simpa [mapFrom] using h
  | cons v vs ih =>
    have hl : P.length < 256 := by simp at hlen; omega
    have e : P ++ v :: vs = (P ++ [v]) ++ vs := by simp
    have hm : mapFrom 256 (v :: vs) P.length m = mapFrom 256 vs (P ++ [v]).length ((v, P.length) :: m) := by
      simp [mapFrom, Nat.mod_eq_of_lt hl]
    rw [e, hm]
    apply ih (P ++ [v]) _ (h.extend v)
    simp at hlen ⊢; omega

/-! ## `NewFactory` -/

/-- what `NewFactory(declared, _)` returns when it does not fail -/
def initState (declared : List Bytes) : FState :=
  { values := declared, strict := decide (declared.length > 0), data := [], map := mapFrom 256 declared 0 [] }

theorem canon_init (declared : List Bytes) :
    runInit declared canonInit none = if declared.length > 255 then .err else .ok (initState declared) := by
  simp only [canonInit, runInit, FCmp.eval, initState]
  by_cases h : declared.length > 255 <;> simp [h]

theorem initState_ok (declared : List Bytes) (h : declared.length ≤ 255) : MapOk (initState declared).values (initState declared).map := by
  have := mapFrom_ok [] declared [] ⟨by intro s c hl; simp [List.lookup] at hl, by intro s hs; simp at hs⟩ (by simp; omega)
  simpa [initState] using this

/-- **`NewFactory` of today's source**: more than 255 declared values are an error; otherwise the value list is the
declaration, the column is strict iff something is declared, there are no cells yet and the map finds exactly the
declared values, each at a position that holds it. -/
theorem gen_factory_init (declared : List Bytes) :
    (declared.length > 255 → genInit declared = .err) ∧
    (declared.length ≤ 255 → ∃ σ, genInit declared = .ok σ ∧ σ.values = declared ∧ σ.strict = !declared.isEmpty ∧
      σ.data = [] ∧ MapOk declared σ.map) := by
  unfold genInit
  rw [gen_factory_canon.1, canon_init]
  constructor
  · intro h; rw [if_pos h]
  · intro h
    rw [if_neg (by omega)]
    refine ⟨_, rfl, rfl, ?_, rfl, initState_ok declared h⟩
    cases declared <;> simp [initState]

/-! ## The step -/

/-- the state after a string the map does not know has been registered -/
def _root_.QF.FState.register (σ : FState) (s : Bytes) : FState :=
  { σ with values := σ.values ++ [s], map := (s, σ.values.length % 256) :: σ.map }

def _root_.QF.FState.pushCode (σ : FState) (c : Nat) : FState := { σ with data := σ.data ++ [c] }

theorem canon_appendNil_run (E : FEnv) (σ : FState) : canonAppendNil.run E σ = .ok (σ.pushCode 255) := rfl

theorem canon_appendEnum_run (E : FEnv) (σ : FState) : canonAppendEnum.run E σ = .ok (σ.pushCode E.param) := rfl

theorem canon_appendString_run (σ : FState) (s : Bytes) :
    canonAppendString.run { arg := some s } σ =
      match σ.map.lookup s with
      | some c => .ok (σ.pushCode c)
      | none =>
        if σ.strict then .err
        else if σ.values.length ≥ 255 then .err
        else .ok ((σ.register s).pushCode (σ.values.length % 256)) := by
  simp only [canonAppendString, canonFresh, FT.run, FCmp.eval, FCode.val]
  cases σ.map.lookup s with
  | some c => rfl
  | none =>
    simp only
    cases hst : σ.strict
    · by_cases h : σ.values.length ≥ 255
      · simp [h]
      · simp [h, FState.register, FState.pushCode, hst]
    · simp

theorem canon_enumVal_run (σ : FState) (v : Option Bytes) :
    canonEnumVal.run { arg := v } σ =
      match v with
      | none => .code σ 255
      | some s =>
        match σ.map.lookup s with
        | some c => .code σ c
        | none =>
          if σ.strict then .err
          else if σ.values.length ≥ 255 then .err
          else .code (σ.register s) (σ.values.length % 256) := by
  cases v with
  | none => rfl
  | some s =>
    simp only [canonEnumVal, canonFresh, FT.run, FCmp.eval, FCode.val]
    cases σ.map.lookup s with
    | some c => rfl
    | none =>
      simp only
      cases hst : σ.strict
      · by_cases h : σ.values.length ≥ 255
        · simp [h]
        · simp [h, FState.register, hst]
      · simp

/-- **The per-cell step of today's source.** A null cell appends the null code 255. A string the look-up map knows
appends its entry. A string it does not know is an error if the column is strict, an error if the value list has
reached 255 entries, and otherwise it is appended to the value list, entered into the map with the old length of the list
as its code, and that code is appended to the cells. -/
theorem gen_factory_step (σ : FState) :
    genStepNil.run {} σ = .ok (σ.pushCode 255) ∧
    ∀ s, genStepStr.run { arg := some s } σ =
      match σ.map.lookup s with
      | some c => .ok (σ.pushCode c)
      | none =>
        if σ.strict then .err
        else if σ.values.length ≥ 255 then .err
        else .ok ((σ.register s).pushCode (σ.values.length % 256)) := by
  have e1 : genStepNil = canonAppendNil := by unfold genStepNil; rw [gen_factory_canon.2.1]; rfl
  have e2 : genStepStr = canonAppendString := by unfold genStepStr; rw [gen_factory_canon.2.1]; rfl
  rw [e1, e2]
  exact ⟨rfl, canon_appendString_run σ⟩

/-- `AppendByteString` (the entry point of the CSV reader) and `AppendString` are the same step. -/
theorem gen_factory_bytes_step :
    Gen.factoryMethods.lookup "(bytes) → (error)" = some genStepStr := by decide

/-! ## The abstract fold: what the step does to the value list -/

/-- one cell, on the value list alone; `none`: error -/
def absStep (strict : Bool) (vals : List Bytes) : Option Bytes → Option (List Bytes)
  | none => some vals
  | some s =>
    if vals.contains s then some vals
    else if strict then none
    else if vals.length ≥ 255 then none
    else some (vals ++ [s])

def absFold (strict : Bool) : List Bytes → List (Option Bytes) → Option (List Bytes)
  | vals, [] => some vals
  | vals, c :: cs =>
    match absStep strict vals c with
    | none => none
    | some v => absFold strict v cs

/-- A code decodes to its cell: the null code 255 for a null cell, else a position below 255 of the value list that holds
the string (so no value is ever reported as a different string or as null). -/
def CodeOk (vals : List Bytes) (cell : Option Bytes) (code : Nat) : Prop :=
  match cell with
  | none => code = 255
  | some s => code < 255 ∧ vals[code]? = some s

theorem CodeOk.mono {vals : List Bytes} {cell : Option Bytes} {code : Nat} (h : CodeOk vals cell code) (e : List Bytes) :
    CodeOk (vals ++ e) cell code := by
  cases cell with
  | none => exact h
  | some s =>
    obtain ⟨h1, h2⟩ := h
    refine ⟨h1, ?_⟩
    have hc : code < vals.length := by
      rcases Nat.lt_or_ge code vals.length with h' | h'
      · exact h'
      · rw [List.getElem?_eq_none h'] at h2; cases h2
    rw [List.getElem?_append_left hc]; exact h2

theorem forall₂_mono {vals : List Bytes} {cells : List (Option Bytes)} {codes : List Nat}
    (h : Forall2 (CodeOk vals) cells codes) (e : List Bytes) : Forall2 (CodeOk (vals ++ e)) cells codes := by
  induction h with
  | nil => exact .nil
  | cons h _ ih => exact .cons (h.mono e) ih

theorem absFold_prefix (strict : Bool) (vals : List Bytes) (cells : List (Option Bytes)) (V : List Bytes)
    (h : absFold strict vals cells = some V) : ∃ e, V = vals ++ e := by
  induction cells generalizing vals with
  | nil => simp only [absFold, Option.some.injEq] at h; exact ⟨[], by simp [h]⟩
  | cons c cs ih =>
    simp only [absFold] at h
    cases hs : absStep strict vals c with
    | none => rw [hs] at h; cases h
    | some v =>
      rw [hs] at h
      obtain ⟨e, he⟩ := ih v h
      cases c with
      | none => simp only [absStep, Option.some.injEq] at hs; subst hs; exact ⟨e, he⟩
      | some s =>
        simp only [absStep] at hs
        split at hs
        · cases hs; exact ⟨e, he⟩
        · split at hs
          · cases hs
          · split at hs
            · cases hs
            · cases hs; exact ⟨s :: e, by simp [he]⟩

/-- **The loop of today's `New` refines the abstract fold**, from any state whose map is right and whose value list has
at most 255 entries: it fails exactly when the abstract fold does, and otherwise ends with the value list the abstract
fold computes, the strict flag unchanged, a map that is right again, and one code per cell appended, each decoding to its
cell. -/
theorem fold_refines (cells : List (Option Bytes)) :
    ∀ σ : FState, MapOk σ.values σ.map → σ.values.length ≤ 255 →
      (absFold σ.strict σ.values cells = none → foldCells canonAppendNil canonAppendString σ cells = .err) ∧
      (∀ V, absFold σ.strict σ.values cells = some V →
        ∃ σ', foldCells canonAppendNil canonAppendString σ cells = .ok σ' ∧ σ'.values = V ∧ σ'.strict = σ.strict ∧
          MapOk V σ'.map ∧ V.length ≤ 255 ∧ ∃ codes, σ'.data = σ.data ++ codes ∧ Forall2 (CodeOk V) cells codes) := by
  induction cells with
  | nil =>
    intro σ hm hl
    refine ⟨by simp [absFold], ?_⟩
    intro V hV
    simp only [absFold, Option.some.injEq] at hV
    subst hV
    exact ⟨σ, rfl, rfl, rfl, hm, hl, [], by simp, .nil⟩
  | cons c cs ih =>
    intro σ hm hl
    cases c with
    | none =>
      -- a null cell
      have hf : foldCells canonAppendNil canonAppendString σ (none :: cs) =
          foldCells canonAppendNil canonAppendString (σ.pushCode 255) cs := by
        simp only [foldCells, canon_appendNil_run]
      have ha : absFold σ.strict σ.values (none :: cs) = absFold σ.strict σ.values cs := by simp [absFold, absStep]
      obtain ⟨i1, i2⟩ := ih (σ.pushCode 255) hm hl
      rw [hf, ha]
      refine ⟨i1, ?_⟩
      intro V hV
      obtain ⟨σ', h1, h2, h3, h4, h5, codes, h6, h7⟩ := i2 V hV
      refine ⟨σ', h1, h2, h3, h4, h5, 255 :: codes, ?_, .cons rfl h7⟩
      rw [h6]; simp [FState.pushCode]
    | some s =>
      have hrun := canon_appendString_run σ s
      cases hlk : σ.map.lookup s with
      | some code =>
        -- a string the map knows
        rw [hlk] at hrun
        have hmem : s ∈ σ.values := hm.mem hlk
        have hf : foldCells canonAppendNil canonAppendString σ (some s :: cs) =
            foldCells canonAppendNil canonAppendString (σ.pushCode code) cs := by
          simp only [foldCells, hrun]
        have ha : absFold σ.strict σ.values (some s :: cs) = absFold σ.strict σ.values cs := by
          simp [absFold, absStep, hmem]
        obtain ⟨i1, i2⟩ := ih (σ.pushCode code) hm hl
        rw [hf, ha]
        refine ⟨i1, ?_⟩
        intro V hV
        obtain ⟨σ', h1, h2, h3, h4, h5, codes, h6, h7⟩ := i2 V hV
        obtain ⟨e, he⟩ := absFold_prefix _ _ _ _ hV
        have hc : CodeOk σ.values (some s) code := ⟨by have := hm.lt hlk; omega, hm.sound s code hlk⟩
        refine ⟨σ', h1, h2, h3, h4, h5, code :: codes, ?_, .cons (he ▸ hc.mono e) h7⟩
        rw [h6]; simp [FState.pushCode]
      | none =>
        rw [hlk] at hrun
        have hnm : s ∉ σ.values := hm.none hlk
        have hcont : σ.values.contains s = false := by simpa using hnm
        cases hst : σ.strict with
        | true =>
          have hf : foldCells canonAppendNil canonAppendString σ (some s :: cs) = .err := by
            simp only [foldCells, hrun, hst, if_true]
          have ha : absFold σ.strict σ.values (some s :: cs) = none := by simp [absFold, absStep, hnm, hst]
          rw [hst] at ha
          rw [hf, ha]
          exact ⟨fun _ => rfl, fun V hV => by cases hV⟩
        | false =>
          by_cases hfull : σ.values.length ≥ 255
          · have hf : foldCells canonAppendNil canonAppendString σ (some s :: cs) = .err := by
              simp only [foldCells, hrun, hst, hfull, if_true]; simp
            have ha : absFold false σ.values (some s :: cs) = none := by simp [absFold, absStep, hnm, hfull]
            rw [hf, ha]
            exact ⟨fun _ => rfl, fun V hV => by cases hV⟩
          · -- a new value
            have hlt : σ.values.length < 255 := by omega
            have hmod : σ.values.length % 256 = σ.values.length := Nat.mod_eq_of_lt (by omega)
            let σ1 := (σ.register s).pushCode (σ.values.length % 256)
            have hf : foldCells canonAppendNil canonAppendString σ (some s :: cs) =
                foldCells canonAppendNil canonAppendString σ1 cs := by
              simp only [foldCells, hrun, hst, hfull, if_false]; simp [σ1]
            have ha : absFold false σ.values (some s :: cs) = absFold false (σ.values ++ [s]) cs := by
              simp [absFold, absStep, hnm, hfull]
            have hm1 : MapOk σ1.values σ1.map := by
              have := hm.extend s
              simpa [σ1, FState.register, FState.pushCode, hmod] using this
            have hl1 : σ1.values.length ≤ 255 := by simp [σ1, FState.register, FState.pushCode]; omega
            have hs1 : σ1.strict = false := by simp [σ1, FState.register, FState.pushCode, hst]
            have hv1 : σ1.values = σ.values ++ [s] := rfl
            obtain ⟨i1, i2⟩ := ih σ1 hm1 hl1
            rw [hs1, hv1] at i1 i2
            rw [hf, ha]
            refine ⟨i1, ?_⟩
            intro V hV
            obtain ⟨σ', h1, h2, h3, h4, h5, codes, h6, h7⟩ := i2 V hV
            obtain ⟨e, he⟩ := absFold_prefix _ _ _ _ hV
            have hc : CodeOk (σ.values ++ [s]) (some s) σ.values.length := ⟨hlt, by simp⟩
            refine ⟨σ', h1, h2, h3, h4, h5, σ.values.length :: codes, ?_, .cons (he ▸ hc.mono e) h7⟩
            rw [h6]; simp [σ1, FState.register, FState.pushCode, hmod]

/-! ## The abstract fold against `mkEnum` -/

def cellOf (c : Option Bytes) : Cell := .str c

theorem absFold_strict (vals : List Bytes) (cells : List (Option Bytes)) :
    absFold true vals cells = if (cells.map cellOf).all (declOk vals) then some vals else none := by
  induction cells with
  | nil => rfl
  | cons c cs ih =>
    cases c with
    | none => simp only [absFold, absStep, ih, List.map_cons, List.all_cons, cellOf, declOk, Bool.true_and]
    | some s =>
      simp only [absFold, absStep, List.map_cons, List.all_cons, cellOf, declOk]
      cases hc : vals.contains s
      · simp
      · simp [ih, cellOf]

theorem absFold_derive (cells : List (Option Bytes)) :
    ∀ vals : List Bytes, vals.length ≤ 255 →
      absFold false vals cells =
        if (deriveFrom vals (cells.map cellOf)).length > 255 then none else some (deriveFrom vals (cells.map cellOf)) := by
  induction cells with
  | nil => intro vals h; simp [absFold, Nat.not_lt.2 h]
  | cons c cs ih =>
    intro vals h
    cases c with
    | none =>
      have : step vals (cellOf none) = vals := rfl
      simp only [absFold, absStep, List.map_cons, deriveFrom_cons, this]
      exact ih vals h
    | some s =>
      simp only [absFold, absStep, List.map_cons, deriveFrom_cons]
      cases hc : vals.contains s
      · have hnm : s ∉ vals := by simpa using hc
        have hs : step vals (cellOf (some s)) = vals ++ [s] := by simp [step, cellOf, hnm]
        rw [hs]
        by_cases hfull : vals.length ≥ 255
        · obtain ⟨e, he⟩ := deriveFrom_prefix (vals ++ [s]) (cs.map cellOf)
          have : (deriveFrom (vals ++ [s]) (cs.map cellOf)).length > 255 := by rw [he]; simp; omega
          simp [hfull, this]
        · simp only [hfull, if_false, Bool.false_eq_true]
          exact ih (vals ++ [s]) (by simp; omega)
      · have hmm : s ∈ vals := by simpa using hc
        have hs : step vals (cellOf (some s)) = vals := by simp [step, cellOf, hmm]
        rw [hs]
        simp only [if_true]
        exact ih vals h

/-! ## `New` -/

theorem canonNew_run (declared : List Bytes) (cells : List (Option Bytes)) :
    canonNew.run canonInit { declared := declared, cells := cells } none none =
      if declared.length > 255 then .err
      else match foldCells canonAppendNil canonAppendString (initState declared) cells with
        | .ok σ => .ok σ
        | .code _ _ => .stuck
        | .err => .err
        | .stuck => .stuck := by
  simp only [canonNew, FL.run, canon_init]
  by_cases h : declared.length > 255
  · simp [h]
  · simp only [h, if_false]
    cases foldCells canonAppendNil canonAppendString (initState declared) cells <;> rfl

theorem codeOk_rank {vals : List Bytes} (hnd : vals.Nodup) {s : Bytes} {code : Nat} (h : CodeOk vals (some s) code) :
    enumRank vals s = some code := by
  obtain ⟨_, h2⟩ := h
  have hc : code < vals.length := by
    rcases Nat.lt_or_ge code vals.length with h' | h'
    · exact h'
    · rw [List.getElem?_eq_none h'] at h2; cases h2
  have he : vals[code] = s := by
    rw [List.getElem?_eq_getElem hc] at h2; exact Option.some.inj h2
  rw [← he]; exact enumRank_nodup hnd code hc

/-- the codes are the ranks -/
def RankOk (vals : List Bytes) (cell : Option Bytes) (code : Nat) : Prop :=
  match cell with
  | none => code = 255
  | some s => enumRank vals s = some code

theorem rankOk_of_codeOk {vals : List Bytes} (hnd : vals.Nodup) {cells : List (Option Bytes)} {codes : List Nat}
    (h : Forall2 (CodeOk vals) cells codes) : Forall2 (RankOk vals) cells codes := by
  induction h with
  | nil => exact .nil
  | @cons c _ _ _ h _ ih =>
    refine .cons ?_ ih
    cases c with
    | none => exact h
    | some s => exact codeOk_rank hnd h

/-- the closed form of what today's `New` does -/
theorem canonNew_sem (declared : List Bytes) (cells : List (Option Bytes)) :
    (mkEnum declared (cells.map cellOf) = none →
      canonNew.run canonInit { declared := declared, cells := cells } none none = .err) ∧
    (∀ vals strict, mkEnum declared (cells.map cellOf) = some (vals, strict) →
      ∃ σ, canonNew.run canonInit { declared := declared, cells := cells } none none = .ok σ ∧
        σ.values = vals ∧ σ.strict = strict ∧ Forall2 (CodeOk vals) cells σ.data ∧
        (declared.Nodup → Forall2 (RankOk vals) cells σ.data)) := by
  rw [canonNew_run, mkEnum_eq]
  by_cases hlen : declared.length > 255
  · simp [hlen]
  · simp only [hlen, if_false]
    have hl : declared.length ≤ 255 := by omega
    obtain ⟨r1, r2⟩ := fold_refines cells (initState declared) (initState_ok declared hl) hl
    have hv : (initState declared).values = declared := rfl
    have hd : (initState declared).data = [] := rfl
    rw [hv] at r1 r2
    cases hE : declared.isEmpty with
    | false =>
      -- declared values: strict
      have hs : (initState declared).strict = true := by
        cases declared with
        | nil => cases hE
        | cons _ _ => simp [initState]
      rw [hs, absFold_strict] at r1 r2
      simp only [Bool.not_false, if_true]
      by_cases hall : (cells.map cellOf).all (declOk declared) = true
      · simp only [hall, if_true] at r1 r2 ⊢
        obtain ⟨σ', h1, h2, h3, _, _, codes, h6, h7⟩ := r2 declared rfl
        refine ⟨(by intro h; cases h), ?_⟩
        intro vals strict hvs
        simp only [Option.some.injEq, Prod.mk.injEq] at hvs
        obtain ⟨rfl, rfl⟩ := hvs
        rw [hd, List.nil_append] at h6
        rw [h1]
        exact ⟨σ', rfl, h2, h3, h6 ▸ h7, fun hnd => h6 ▸ rankOk_of_codeOk hnd h7⟩
      · simp only [hall, if_false, Bool.false_eq_true] at r1 r2 ⊢
        rw [r1 trivial]
        exact ⟨fun _ => rfl, fun _ _ h => by cases h⟩
    | true =>
      -- nothing declared: derived
      have hnil : declared = [] := by cases declared with | nil => rfl | cons _ _ => cases hE
      subst hnil
      have hs : (initState []).strict = false := by simp [initState]
      rw [hs, absFold_derive cells [] (by simp)] at r1 r2
      simp only [Bool.not_true, Bool.false_eq_true, if_false]
      have hder : derive (cells.map cellOf) = deriveFrom [] (cells.map cellOf) := rfl
      rw [hder]
      by_cases hbig : (deriveFrom [] (cells.map cellOf)).length > 255
      · simp only [hbig, if_true] at r1 r2 ⊢
        rw [r1 trivial]
        exact ⟨fun _ => rfl, fun _ _ h => by cases h⟩
      · simp only [hbig, if_false] at r1 r2 ⊢
        obtain ⟨σ', h1, h2, h3, _, _, codes, h6, h7⟩ := r2 _ rfl
        refine ⟨(by intro h; cases h), ?_⟩
        intro vals strict hvs
        simp only [Option.some.injEq, Prod.mk.injEq] at hvs
        obtain ⟨rfl, rfl⟩ := hvs
        rw [hd, List.nil_append] at h6
        rw [h1]
        have hnd : (deriveFrom [] (cells.map cellOf)).Nodup := deriveFrom_nodup [] _ (by simp)
        exact ⟨σ', rfl, h2, h3, h6 ▸ h7, fun _ => h6 ▸ rankOk_of_codeOk hnd h7⟩

/-- **The enum factory of today's source builds exactly what `mkEnum` specifies.** For every declaration and ANY list of
cells (`none`: a nil pointer), `ecolumn.New(cells, declared)` as extracted from the source — `NewFactory`, then the step
folded over the cells — fails iff `mkEnum declared cells` is `none` (more than 255 declared values; an undeclared value
under a declaration; a 256th distinct value without one), and otherwise returns the column whose value list and strict
flag are `mkEnum`'s, with one code per cell that decodes to the cell (`CodeOk`: 255 ↔ null; otherwise a position below
255 of the value list holding the string). For a duplicate-free declaration (and always without a declaration) the codes
are the ranks: `enumRank vals s = some code`. -/
theorem gen_factory_semantics (declared : List Bytes) (cells : List (Option Bytes)) :
    (mkEnum declared (cells.map cellOf) = none → genNew declared cells = .err) ∧
    (∀ vals strict, mkEnum declared (cells.map cellOf) = some (vals, strict) →
      ∃ σ, genNew declared cells = .ok σ ∧ σ.values = vals ∧ σ.strict = strict ∧
        Forall2 (CodeOk vals) cells σ.data ∧ (declared.Nodup → Forall2 (RankOk vals) cells σ.data)) := by
  unfold genNew
  rw [gen_factory_canon.1, gen_factory_canon.2.1]
  exact canonNew_sem declared cells

/-- … read from the side of the code: the outcome of `New` determines `mkEnum`. -/
theorem gen_factory_reject_iff (declared : List Bytes) (cells : List (Option Bytes)) :
    (genNew declared cells = .err ↔ mkEnum declared (cells.map cellOf) = none) ∧
    (∀ σ, genNew declared cells = .ok σ → mkEnum declared (cells.map cellOf) = some (σ.values, σ.strict)) ∧
    genNew declared cells ≠ .stuck := by
  obtain ⟨h1, h2⟩ := gen_factory_semantics declared cells
  cases hm : mkEnum declared (cells.map cellOf) with
  | none =>
    have := h1 hm
    rw [this]
    exact ⟨⟨fun _ => rfl, fun _ => rfl⟩, (fun σ h => by cases h), (fun h => by cases h)⟩
  | some p =>
    obtain ⟨vals, strict⟩ := p
    obtain ⟨σ, h, hv, hs, _⟩ := h2 vals strict hm
    rw [h]
    refine ⟨⟨(fun h => by cases h), (fun h => by cases h)⟩, ?_, (fun h => by cases h)⟩
    intro σ' e
    cases e
    rw [hv, hs]

/-! ## `NewConst` -/

theorem repeat_push (c : Nat) (n : Nat) (σ : FState) :
    repeatRun canonAppendEnum c n σ = .ok { σ with data := σ.data ++ List.replicate n c } := by
  induction n generalizing σ with
  | zero => simp [repeatRun]
  | succ n ih =>
    simp only [repeatRun, canon_appendEnum_run, ih, FState.pushCode]
    simp [List.replicate_succ]

theorem deriveFrom_replicate (acc : List Bytes) (c : Cell) (n : Nat) (h : step acc c = acc) :
    deriveFrom acc (List.replicate n c) = acc := by
  induction n with
  | zero => rfl
  | succ n ih => rw [List.replicate_succ, deriveFrom_cons, h, ih]

theorem all_replicate (p : Cell → Bool) (c : Cell) (n : Nat) (h : p c = true) : (List.replicate n c).all p = true := by
  induction n with
  | zero => rfl
  | succ n ih => simp [List.replicate_succ, h]

/-- **`NewConst` of today's source** against `mkEnum declared (val :: count × val)` (the constant registers its value even
when the column has no rows): the same error cases, value list and strictness; every cell gets the one code of the
value, which decodes to it. -/
theorem gen_factory_const_semantics (declared : List Bytes) (val : Option Bytes) (count : Nat) :
    (mkEnum declared (cellOf val :: List.replicate count (cellOf val)) = none → genNewConst declared val count = .err) ∧
    (∀ vals strict, mkEnum declared (cellOf val :: List.replicate count (cellOf val)) = some (vals, strict) →
      ∃ σ code, genNewConst declared val count = .ok σ ∧ σ.values = vals ∧ σ.strict = strict ∧
        σ.data = List.replicate count code ∧ CodeOk vals val code ∧ (declared.Nodup → RankOk vals val code)) := by
  unfold genNewConst
  rw [gen_factory_canon.1, gen_factory_canon.2.2.1, mkEnum_eq]
  simp only [canonNewConst, FL.run, canon_init]
  by_cases hlen : declared.length > 255
  · simp [hlen]
  · simp only [hlen, if_false]
    have hl : declared.length ≤ 255 := by omega
    have hm := initState_ok declared hl
    have hv : (initState declared).values = declared := rfl
    rw [canon_enumVal_run]
    cases val with
    | none =>
      -- the null constant: nothing is registered
      simp only [repeat_push]
      have hall : (cellOf none :: List.replicate count (cellOf none)).all (declOk declared) = true :=
        all_replicate _ _ (count + 1) rfl
      have hder : derive (cellOf none :: List.replicate count (cellOf none)) = [] :=
        deriveFrom_replicate [] _ (count + 1) rfl
      rw [hall, hder]
      cases hE : declared.isEmpty with
      | false =>
        simp only [Bool.not_false, if_true]
        refine ⟨(by intro h; cases h), ?_⟩
        intro vals strict hvs
        simp only [Option.some.injEq, Prod.mk.injEq] at hvs
        obtain ⟨rfl, rfl⟩ := hvs
        refine ⟨_, 255, rfl, rfl, ?_, by simp [initState], rfl, fun _ => rfl⟩
        cases declared with
        | nil => cases hE
        | cons _ _ => simp [initState]
      | true =>
        have hnil : declared = [] := by cases declared with | nil => rfl | cons _ _ => cases hE
        subst hnil
        simp only [Bool.not_true, Bool.false_eq_true, if_false, List.length_nil]
        refine ⟨(by intro h; simp at h), ?_⟩
        intro vals strict hvs
        simp at hvs
        obtain ⟨rfl, rfl⟩ := hvs
        exact ⟨_, 255, rfl, rfl, by simp [initState], by simp [initState], rfl, fun _ => rfl⟩
    | some s =>
      simp only
      cases hlk : (initState declared).map.lookup s with
      | some code =>
        simp only [repeat_push]
        have hmem : s ∈ declared := hm.mem hlk
        have hcode : CodeOk declared (some s) code := ⟨by have := hm.lt hlk; rw [hv] at this; omega, hm.sound s code hlk⟩
        have hE : declared.isEmpty = false := by cases declared with | nil => simp at hmem | cons _ _ => rfl
        have hall : (cellOf (some s) :: List.replicate count (cellOf (some s))).all (declOk declared) = true :=
          all_replicate _ _ (count + 1) (by simp [declOk, cellOf, hmem])
        simp only [hE, Bool.not_false, if_true, hall]
        refine ⟨(by intro h; cases h), ?_⟩
        intro vals strict hvs
        simp only [Option.some.injEq, Prod.mk.injEq] at hvs
        obtain ⟨rfl, rfl⟩ := hvs
        refine ⟨_, code, rfl, rfl, ?_, by simp [initState], hcode, fun hnd => codeOk_rank hnd hcode⟩
        cases declared with
        | nil => cases hE
        | cons _ _ => simp [initState]
      | none =>
        have hnm : s ∉ declared := hm.none hlk
        cases hE : declared.isEmpty with
        | false =>
          have hs : (initState declared).strict = true := by
            cases declared with
            | nil => cases hE
            | cons _ _ => simp [initState]
          have hall : (cellOf (some s) :: List.replicate count (cellOf (some s))).all (declOk declared) = false := by
            simp [List.all_cons, declOk, cellOf, hnm]
          simp only [hs, if_true, Bool.not_false, hall, Bool.false_eq_true, if_false]
          simp
        | true =>
          have hnil : declared = [] := by cases declared with | nil => rfl | cons _ _ => cases hE
          subst hnil
          have hs : (initState []).strict = false := by simp [initState]
          have h0 : ¬ (initState []).values.length ≥ 255 := by simp [initState]
          simp only [hs, h0, if_false, Bool.false_eq_true, repeat_push, Bool.not_true]
          have hder : derive (cellOf (some s) :: List.replicate count (cellOf (some s))) = [s] := by
            have h1 : step [] (cellOf (some s)) = [s] := by simp [step, cellOf]
            have h2 : step [s] (cellOf (some s)) = [s] := by simp [step, cellOf]
            show deriveFrom [] _ = _
            rw [deriveFrom_cons, h1, deriveFrom_replicate _ _ _ h2]
          rw [hder]
          refine ⟨(by intro h; simp at h), ?_⟩
          intro vals strict hvs
          simp at hvs
          obtain ⟨rfl, rfl⟩ := hvs
          have hcode : CodeOk [s] (some s) 0 := ⟨by omega, rfl⟩
          exact ⟨_, 0, rfl, by simp [FState.register, initState], by simp [FState.register, initState],
            by simp [FState.register, initState], hcode, fun _ => codeOk_rank (by simp) hcode⟩

/-! ## The factory as the enum constructor `New` (qframe.go) is parametrised by -/

/-- what a code of a column with value list `vals` is observed as: null for 255, else the string at that position -/
def decode (vals : List Bytes) (code : Nat) : Cell := if code = 255 then .str none else .str vals[code]?

theorem decode_codes {vals : List Bytes} {cells : List (Option Bytes)} {codes : List Nat}
    (h : Forall2 (CodeOk vals) cells codes) : codes.map (decode vals) = cells.map cellOf := by
  induction h with
  | nil => rfl
  | @cons c code _ _ h _ ih =>
    simp only [List.map_cons, ih, List.cons.injEq, and_true]
    cases c with
    | none => simp [CodeOk] at h; simp [decode, h, cellOf]
    | some s =>
      obtain ⟨h1, h2⟩ := h
      have : code ≠ 255 := by omega
      simp [decode, this, h2, cellOf]

/-- `ecolumn.New(cells, declared)` of today's source as (value table, strict flag, observed cells) -/
def factoryEnumCells (declared : List Bytes) (cells : List (Option Bytes)) : Option (List Bytes × Bool × Array Cell) :=
  match genNew declared cells with
  | .ok σ => some (σ.values, σ.strict, (σ.data.map (decode σ.values)).toArray)
  | _ => none

/-- `ecolumn.NewConst(val, count, declared)` of today's source, likewise -/
def factoryEnumConst (declared : List Bytes) (val : Option Bytes) (count : Nat) : Option (List Bytes × Bool × Array Cell) :=
  match genNewConst declared val count with
  | .ok σ => some (σ.values, σ.strict, (σ.data.map (decode σ.values)).toArray)
  | _ => none

/-- **Today's enum constructors meet the assumption `Ctors.Spec` that `C08Construct.gen_new_semantics_partial` makes
about them** (on string cells): value table and strictness are `mkEnum`'s, and the cells are observed as they were given. -/
theorem gen_factory_is_ctor (declared : List Bytes) :
    (∀ cells : List (Option Bytes), factoryEnumCells declared cells =
      (mkEnum declared (cells.map cellOf)).map (fun p => (p.1, p.2, (cells.map cellOf).toArray))) ∧
    (∀ (val : Option Bytes) (count : Nat), factoryEnumConst declared val count =
      (mkEnum declared (cellOf val :: List.replicate count (cellOf val))).map
        (fun p => (p.1, p.2, (List.replicate count (cellOf val)).toArray))) := by
  constructor
  · intro cells
    obtain ⟨h1, h2⟩ := gen_factory_semantics declared cells
    unfold factoryEnumCells
    cases hm : mkEnum declared (cells.map cellOf) with
    | none => rw [h1 hm]; rfl
    | some p =>
      obtain ⟨vals, strict⟩ := p
      obtain ⟨σ, h, hv, hs, hc, _⟩ := h2 vals strict hm
      rw [h]
      simp only [Option.map_some, hv, hs, decode_codes hc]
  · intro val count
    obtain ⟨h1, h2⟩ := gen_factory_const_semantics declared val count
    unfold factoryEnumConst
    cases hm : mkEnum declared (cellOf val :: List.replicate count (cellOf val)) with
    | none => rw [h1 hm]; rfl
    | some p =>
      obtain ⟨vals, strict⟩ := p
      obtain ⟨σ, code, h, hv, hs, hd, hc, _⟩ := h2 vals strict hm
      rw [h]
      have hdec : decode vals code = cellOf val := by
        cases val with
        | none => simp [CodeOk] at hc; simp [decode, hc, cellOf]
        | some s =>
          obtain ⟨c1, c2⟩ := hc
          have : code ≠ 255 := by omega
          simp [decode, this, c2, cellOf]
      simp only [Option.map_some, hv, hs, hd, List.map_replicate, hdec]

/-! ## Witnesses: the statement tells wrong factories apart -/

section Witnesses

/-- the step with the cardinality guard weakened to `>` -/
def appendStringGt : FT :=
  .ifSeen (.push .seen .retNil)
    (.ifStrict .retErr (.ifCard .gt 255 .retErr (.letLen 256 (.appendValue (.mapPut .fresh (.push .fresh .retNil))))))

private def bytesOf (i : Nat) : Bytes := [UInt8.ofNat (i / 16), UInt8.ofNat (i % 16)]
private def full : FState :=
  { values := (List.range 255).map bytesOf, strict := false, data := [],
    map := ((List.range 255).map fun i => (bytesOf i, i)).reverse }

set_option maxRecDepth 20000 in
/-- … accepts a 256th value and gives it the code 255 — the code of null: -/
example : (match appendStringGt.run { arg := some [255, 255] } full with | .ok σ => σ.data | _ => []) = [255] ∧
    (match canonAppendString.run { arg := some [255, 255] } full with | .err => true | _ => false) = true := by
  decide

/-- OBSERVATION (outside the property's quantifier): a declaration with a duplicate. The cell "a" gets the code 1 (the last position of "a"), the rank of "a" is 0. -/
theorem dup_declared_witness :
    (match genNew [[97], [97], [98]] [some [97]] with | .ok σ => σ.data | _ => []) = [1] ∧
    enumRank [[97], [97], [98]] [97] = some 0 := by
  rw [show genNew [[97], [97], [98]] [some [97]] =
      canonNew.run canonInit { declared := [[97], [97], [98]], cells := [some [97]] } none none from by
    unfold genNew; rw [gen_factory_canon.1, gen_factory_canon.2.1]]
  decide

end Witnesses

#print axioms gen_factory_canon
#print axioms gen_factory_no_opaque
#print axioms gen_factory_init
#print axioms gen_factory_step
#print axioms gen_factory_bytes_step
#print axioms gen_factory_semantics
#print axioms gen_factory_reject_iff
#print axioms gen_factory_const_semantics
#print axioms gen_factory_is_ctor
#print axioms dup_declared_witness

end QF.Props.C17Factory
