import QF.Props.C16LinkInterval
/-!
# C16 — link (second part): from `C16Core.Spec` (units of `10^e10`, scale `N/D = 2^e2/10^e10`) to statements about the
decimal `m·10^e` and the float's exact value

`Shortest b dy m e` says in the property's own terms what `Spec` says in Ryu's scaled integers: the decimal `m·10^e`
(`m > 0`, no trailing zero) lies in the rounding interval of `b`, no decimal `n·10^(e+1)` (one digit fewer) does, and no
`n·10^e` in the interval is closer to the exact value `dy.m·2^dy.e`.  `shortest_of_spec` is the translation.
-/
namespace QF.Props.C16Link
open QF.Num QF.Ryu64 QF.Props.C16Round QF.Props.C16Core

/-! ## decimal powers as fractions -/

/-- numerator of `10^e` -/
def P10 (e : Int) : Nat := 10 ^ e.toNat
/-- denominator of `10^e` -/
def Q10 (e : Int) : Nat := 10 ^ (-e).toNat

theorem P10_pos (e : Int) : 0 < P10 e := Nat.pow_pos (by decide)
theorem Q10_pos (e : Int) : 0 < Q10 e := Nat.pow_pos (by decide)

theorem decNum_eq (m : Nat) (d : Int) : decNum m d = m * P10 d := by
  unfold decNum P10; split
  · rfl
  · have : d.toNat = 0 := by omega
    rw [this, Nat.pow_zero, Nat.mul_one]
theorem decDen_eq (d : Int) : decDen d = Q10 d := by
  unfold decDen Q10; split
  · have : (-d).toNat = 0 := by omega
    rw [this, Nat.pow_zero]
  · rfl

/-- `10^e = 10^j · 10^e1` when `e = e1 + j`, as fractions -/
theorem p10_shift (e1 e : Int) (j : Nat) (h : e = e1 + j) : P10 e * Q10 e1 = 10 ^ j * (P10 e1 * Q10 e) := by
  unfold P10 Q10
  rw [← Nat.pow_add, ← Nat.pow_add, ← Nat.pow_add]
  congr 1; omega

/-! ## comparing fractions after a change of units -/

theorem cmp_scale {a b a' b' G1 G2 : Nat} (hG1 : 0 < G1) (hG2 : 0 < G2) (ha : a * G1 = a' * G2) (hb : b * G1 = b' * G2) :
    (a ≤ b ↔ a' ≤ b') ∧ (a < b ↔ a' < b') := by
  have h1 : a ≤ b ↔ a' ≤ b' := by
    constructor
    · intro h
      have := Nat.mul_le_mul_right G1 h
      rw [ha, hb] at this
      exact Nat.le_of_mul_le_mul_right this hG2
    · intro h
      have := Nat.mul_le_mul_right G2 h
      rw [← ha, ← hb] at this
      exact Nat.le_of_mul_le_mul_right this hG1
  have h2 : b ≤ a ↔ b' ≤ a' := by
    constructor
    · intro h
      have := Nat.mul_le_mul_right G1 h
      rw [ha, hb] at this
      exact Nat.le_of_mul_le_mul_right this hG2
    · intro h
      have := Nat.mul_le_mul_right G2 h
      rw [← ha, ← hb] at this
      exact Nat.le_of_mul_le_mul_right this hG1
  exact ⟨h1, by omega⟩

theorem absDiff_scale' {a b a' b' G1 G2 : Nat} (ha : a * G1 = a' * G2) (hb : b * G1 = b' * G2) :
    absDiff a b * G1 = absDiff a' b' * G2 := by
  unfold absDiff
  rw [Nat.add_mul, Nat.add_mul, Nat.sub_mul, Nat.sub_mul, Nat.sub_mul, Nat.sub_mul, ha, hb]

theorem dist_eq_absDiff (x y : Nat) : C16Core.dist x y = absDiff x y := rfl

/-- the scale identity in the units of a decimal exponent `e = e10 + K`: `N/(D·10^K) = (p/q)/(s'/t')` -/
theorem key1 {N D p q s t s' t' K : Nat} (R1 : N * q * s = D * p * t) (R3 : s' * t = K * (s * t')) (hs : 0 < s)
    (ht : 0 < t) : N * s' * q = p * t' * D * K := by
  apply Nat.eq_of_mul_eq_mul_right (Nat.mul_pos hs ht)
  calc N * s' * q * (s * t) = (N * q * s) * (s' * t) := by ac_rfl
    _ = (D * p * t) * (K * (s * t')) := by rw [R1, R3]
    _ = p * t' * D * K * (s * t) := by ac_rfl

/-- the same at the binary exponent `E = e2 + 2` -/
theorem key2 {N D p q pE qE s' t' K : Nat} (k1 : N * s' * q = p * t' * D * K) (R2 : pE * q = 4 * (p * qE)) (hq : 0 < q) :
    4 * N * s' * qE = pE * t' * D * K := by
  apply Nat.eq_of_mul_eq_mul_right hq
  calc 4 * N * s' * qE * q = 4 * qE * (N * s' * q) := by ac_rfl
    _ = 4 * qE * (p * t' * D * K) := by rw [k1]
    _ = (4 * (p * qE)) * (t' * D * K) := by ac_rfl
    _ = pE * q * (t' * D * K) := by rw [R2]
    _ = pE * t' * D * K * q := by ac_rfl

/-- comparisons of an interval end `X·N` (units `1/D` of `10^e10`) with `n·10^K`, read as comparisons of `X·2^e2` with
`n·10^e` -/
theorem end_cmp {N D p q s' t' K : Nat} (k1 : N * s' * q = p * t' * D * K) (hs' : 0 < s') (hq : 0 < q) (hD : 0 < D)
    (hK : 0 < K) (X n : Nat) :
    (X * N ≤ n * (D * K) ↔ X * (t' * p) ≤ n * s' * q) ∧ (X * N < n * (D * K) ↔ X * (t' * p) < n * s' * q) ∧
    (n * (D * K) ≤ X * N ↔ n * s' * q ≤ X * (t' * p)) ∧ (n * (D * K) < X * N ↔ n * s' * q < X * (t' * p)) := by
  have hG1 : 0 < s' * q := Nat.mul_pos hs' hq
  have hG2 : 0 < D * K := Nat.mul_pos hD hK
  have ha : X * N * (s' * q) = X * (t' * p) * (D * K) := by
    calc X * N * (s' * q) = X * (N * s' * q) := by ac_rfl
      _ = X * (p * t' * D * K) := by rw [k1]
      _ = X * (t' * p) * (D * K) := by ac_rfl
  have hb : n * (D * K) * (s' * q) = n * s' * q * (D * K) := by ac_rfl
  obtain ⟨c1, c2⟩ := cmp_scale hG1 hG2 ha hb
  obtain ⟨c3, c4⟩ := cmp_scale hG1 hG2 hb ha
  exact ⟨c1, c2, c3, c4⟩

/-! ## the scale of a float -/

/-- `scale_meaning` as one identity: `N/D = 2^e2 / 10^e10` -/
theorem scale_identity (exp : Nat) (he : exp < 2047) :
    scaleNum exp * Q (decodeE2 exp) * P10 (e10Of exp) = scaleDen exp * P (decodeE2 exp) * Q10 (e10Of exp) := by
  obtain ⟨h1, h2⟩ := scale_meaning exp he
  by_cases h : decodeE2 exp ≥ 0
  · obtain ⟨a, b, c⟩ := h1 h
    have hq : Q (decodeE2 exp) = 1 := Q_of_nonneg h
    have hq10 : Q10 (e10Of exp) = 1 := by
      unfold Q10; have : (-e10Of exp).toNat = 0 := by omega
      rw [this, Nat.pow_zero]
    rw [hq, hq10, b, c]
    unfold P P10
    rw [Nat.mul_one, Nat.mul_one, Nat.mul_comm]
  · obtain ⟨a, b⟩ := h2 (by omega)
    have hp : P (decodeE2 exp) = 1 := P_of_neg (by omega)
    have hp10 : P10 (e10Of exp) = 1 := by
      unfold P10; have : (e10Of exp).toNat = 0 := by omega
      rw [this, Nat.pow_zero]
    rw [hp, hp10, Nat.mul_one, Nat.mul_one]
    exact b

/-! ## `Shortest` -/

/-- numerator of `|c·10^e − dy.m·2^dy.e|` over the denominator `decDen e · dyDen dy.e` (the distance `isShortestRoundTrip`
computes) -/
def distNum (dy : Num.Dyadic) (c : Nat) (e : Int) : Nat :=
  absDiff (decNum c e * dyDen dy.e) (dyNum dy.m dy.e * decDen e)

/-- `m·10^e` is a shortest decimal that parses back to the float `b` (exact value `dy.m·2^dy.e`), and a closest one of
that length: the three clauses of C16 in the property's own words -/
structure Shortest (b : UInt64) (dy : Num.Dyadic) (m : Nat) (e : Int) : Prop where
  pos : 0 < m
  /-- no trailing zero -/
  nz : m % 10 ≠ 0
  lt : m < 2 ^ 57
  /-- in the rounding interval -/
  inI : InInterval b m e
  /-- no decimal with one digit fewer (a multiple of `10^(e+1)`) lies in the rounding interval -/
  none_shorter : ∀ n, ¬ InInterval b n (e + 1)
  /-- no decimal of the same length in the rounding interval is closer to the exact value -/
  closest : ∀ n, InInterval b n e → distNum dy m e ≤ distNum dy n e

theorem adm_iff_inInterval (b : UInt64) (dy : Num.Dyadic) (F : Fields b dy) (n j : Nat) :
    Adm (mmOf (decodeM2 (mantOf b) (expOf b)) (mmShiftOf (mantOf b) (expOf b)) * scaleNum (expOf b))
      (mpOf (decodeM2 (mantOf b) (expOf b)) * scaleNum (expOf b)) (scaleDen (expOf b))
      (acceptBoundsOf (mantOf b) (expOf b)) n j ↔ InInterval b n (e10Of (expOf b) + (j : Int)) := by
  obtain ⟨hD, hDN, _, _⟩ := scale_facts (expOf b) F.exp_lt
  have R1 := scale_identity (expOf b) F.exp_lt
  have R3 := p10_shift (e10Of (expOf b)) (e10Of (expOf b) + (j : Int)) j rfl
  have k1 := key1 R1 R3 (P10_pos _) (Q10_pos _)
  have hK : 0 < 10 ^ j := Nat.pow_pos (by decide)
  have hCpos : 0 < mpOf (decodeM2 (mantOf b) (expOf b)) * scaleNum (expOf b) := by
    rw [F.mp]; exact Nat.mul_pos (by omega) (by omega)
  obtain ⟨a1, a2, _, _⟩ := end_cmp k1 (P10_pos _) (Q_pos _) hD hK
    (mmOf (decodeM2 (mantOf b) (expOf b)) (mmShiftOf (mantOf b) (expOf b))) n
  obtain ⟨_, _, b3, b4⟩ := end_cmp k1 (P10_pos _) (Q_pos _) hD hK (mpOf (decodeM2 (mantOf b) (expOf b))) n
  unfold Adm InInterval loEnd hiEnd
  rw [decNum_eq, decDen_eq]
  by_cases hacc : acceptBoundsOf (mantOf b) (expOf b) = true
  · rw [if_pos hacc, hacc]
    simp only [if_true, Nat.add_zero, Nat.sub_zero]
    rw [a1, b3]
  · rw [if_neg hacc]
    have : acceptBoundsOf (mantOf b) (expOf b) = false := by
      cases h : acceptBoundsOf (mantOf b) (expOf b) with
      | true => exact absurd h hacc
      | false => rfl
    rw [this]
    simp only [Bool.false_eq_true, if_false]
    rw [← a2, ← b4]
    omega

theorem distNum_scale (b : UInt64) (dy : Num.Dyadic) (F : Fields b dy) (k : Nat) :
    ∃ G1 G2 : Nat, 0 < G1 ∧ 0 < G2 ∧ ∀ c : Nat,
      C16Core.dist (c * (scaleDen (expOf b) * 10 ^ k)) (mvOf (decodeM2 (mantOf b) (expOf b)) * scaleNum (expOf b)) * G1 =
        distNum dy c (e10Of (expOf b) + (k : Int)) * G2 := by
  obtain ⟨hD, _, _, _⟩ := scale_facts (expOf b) F.exp_lt
  have R1 := scale_identity (expOf b) F.exp_lt
  have R3 := p10_shift (e10Of (expOf b)) (e10Of (expOf b) + (k : Int)) k rfl
  have k1 := key1 R1 R3 (P10_pos _) (Q10_pos _)
  have R2 := pq_shift (decodeE2 (expOf b)) dy.e 2 (by rw [F.e2]; omega)
  rw [show (2 : Nat) ^ 2 = 4 from rfl] at R2
  have k2 := key2 k1 R2 (Q_pos _)
  refine ⟨P10 (e10Of (expOf b) + (k : Int)) * Q dy.e, scaleDen (expOf b) * 10 ^ k,
    Nat.mul_pos (P10_pos _) (Q_pos _), Nat.mul_pos hD (Nat.pow_pos (by decide)), fun c => ?_⟩
  unfold distNum
  rw [dist_eq_absDiff, F.mv, dyNum_eq, dyDen_eq, decNum_eq, decDen_eq]
  apply absDiff_scale'
  · ac_rfl
  · generalize scaleNum (expOf b) = N at *
    generalize scaleDen (expOf b) = D at *
    generalize P10 (e10Of (expOf b) + (k : Int)) = s' at *
    generalize Q10 (e10Of (expOf b) + (k : Int)) = t' at *
    generalize P dy.e = pE at *
    generalize Q dy.e = qE at *
    calc 4 * dy.m * N * (s' * qE) = dy.m * (4 * N * s' * qE) := by ac_rfl
      _ = dy.m * (pE * t' * D * 10 ^ k) := by rw [k2]
      _ = dy.m * pE * t' * (D * 10 ^ k) := by ac_rfl

/-- **`Spec` in the property's own words.** What `ryu_shortest_partial` concludes about `out·10^k` in units of `10^e10`
is `Shortest` for the decimal `out·10^(e10+k)`. -/
theorem shortest_of_spec (b : UInt64) (dy : Num.Dyadic) (hd : decode b = some dy) (h0 : dy.m ≠ 0) (out k : Nat)
    (hS : Spec (mmOf (decodeM2 (mantOf b) (expOf b)) (mmShiftOf (mantOf b) (expOf b)) * scaleNum (expOf b))
      (mvOf (decodeM2 (mantOf b) (expOf b)) * scaleNum (expOf b))
      (mpOf (decodeM2 (mantOf b) (expOf b)) * scaleNum (expOf b)) (scaleDen (expOf b))
      (acceptBoundsOf (mantOf b) (expOf b)) out k) :
    Shortest b dy out (e10Of (expOf b) + (k : Int)) := by
  have F := fields_of_decode b dy hd h0
  obtain ⟨hD, hDN, hN, hq⟩ := scale_facts (expOf b) F.exp_lt
  have hmp : mpOf (decodeM2 (mantOf b) (expOf b)) < 2 ^ 55 := by rw [F.mp]; have := F.m_lt; omega
  have hM1 := F.m_pos
  have hs := F.s_le
  have a1 : scaleDen (expOf b) ≤
      mmOf (decodeM2 (mantOf b) (expOf b)) (mmShiftOf (mantOf b) (expOf b)) * scaleNum (expOf b) := by
    rw [F.mm]
    exact Nat.le_trans hDN (Nat.le_mul_of_pos_left _ (by omega))
  have a2 : mmOf (decodeM2 (mantOf b) (expOf b)) (mmShiftOf (mantOf b) (expOf b)) * scaleNum (expOf b) +
      3 * scaleNum (expOf b) ≤ mpOf (decodeM2 (mantOf b) (expOf b)) * scaleNum (expOf b) := by
    rw [F.mm, F.mp, ← Nat.add_mul]
    exact Nat.mul_le_mul_right _ (by omega)
  obtain ⟨s1, s2, s3⟩ := hS
  have adm := adm_iff_inInterval b dy F
  generalize hA : mmOf (decodeM2 (mantOf b) (expOf b)) (mmShiftOf (mantOf b) (expOf b)) * scaleNum (expOf b) = A at *
  generalize hC : mpOf (decodeM2 (mantOf b) (expOf b)) * scaleNum (expOf b) = C at *
  generalize hacc : acceptBoundsOf (mantOf b) (expOf b) = incl at *
  generalize hDD : scaleDen (expOf b) = D at *
  have hX : 0 < D * 10 ^ k := Nat.mul_pos hD (Nat.pow_pos (by decide))
  have hlo : A ≤ loEnd A incl ∧ loEnd A incl ≤ A + 1 := by unfold loEnd; split <;> omega
  have hhi : C - 1 ≤ hiEnd C incl ∧ hiEnd C incl ≤ C := by unfold hiEnd; split <;> omega
  have e10 : D * 10 ^ (k + 1) = 10 * (D * 10 ^ k) := by rw [Nat.pow_succ]; ac_rfl
  have hpos : 0 < out := by
    apply Nat.pos_of_ne_zero; intro hz
    unfold Adm at s1; rw [hz, Nat.zero_mul] at s1; omega
  have hnz : out % 10 ≠ 0 := by
    intro hz
    apply s2 (out / 10)
    unfold Adm at s1 ⊢
    have : out / 10 * (D * 10 ^ (k + 1)) = out * (D * 10 ^ k) := by
      rw [e10, ← Nat.mul_assoc, Nat.div_mul_cancel (Nat.dvd_of_mod_eq_zero hz)]
    rw [this]; exact s1
  have hlt : out < 2 ^ 57 := by
    apply Nat.lt_of_not_le; intro hge
    have h1 : 2 ^ 57 * (D * 10 ^ k) ≤ out * (D * 10 ^ k) := Nat.mul_le_mul_right _ hge
    have h2 : out * (D * 10 ^ k) ≤ C := Nat.le_trans s1.2 hhi.2
    have h3 : C < 2 ^ 55 * scaleNum (expOf b) := by rw [← hC]; exact Nat.mul_lt_mul_of_pos_right hmp (by omega)
    -- a multiple of `D·10^(k+1)` strictly inside the interval
    have hY : 0 < D * 10 ^ (k + 1) := by rw [e10]; omega
    have hdm := div_bounds A (D * 10 ^ (k + 1)) hY
    apply s2 (A / (D * 10 ^ (k + 1)) + 1)
    unfold Adm
    rw [Nat.add_mul, Nat.one_mul, Nat.mul_comm (A / _)]
    generalize D * 10 ^ (k + 1) * (A / (D * 10 ^ (k + 1))) = Z at *
    generalize D * 10 ^ (k + 1) = Y at *
    generalize D * 10 ^ k = X at *
    generalize out * X = oX at *
    generalize scaleNum (expOf b) = N at *
    omega
  exact
    { pos := hpos, nz := hnz, lt := hlt
      inI := (adm out k).mp s1
      none_shorter := fun n h => by
        have e : e10Of (expOf b) + (k : Int) + 1 = e10Of (expOf b) + ((k + 1 : Nat) : Int) := by omega
        rw [e] at h
        exact s2 n ((adm n (k + 1)).mpr h)
      closest := fun n h => by
        have := s3 n ((adm n k).mpr h)
        obtain ⟨G1, G2, g1, g2, hG⟩ := distNum_scale b dy F k
        rw [hDD] at hG
        have := Nat.mul_le_mul_right G1 this
        rw [hG out, hG n] at this
        exact Nat.le_of_mul_le_mul_right this g2 }

#print axioms shortest_of_spec

end QF.Props.C16Link
