import QF.Props.C04GlueGen
import QF.Props.C04GrouperGen
import QF.Props.C05Distinct
import QF.Props.C05DistinctGen
import QF.Props.C03Compare
import QF.Props.C04Hash
import QF.Props.C04Spec
/-!
# C04 — `GroupBy` of today's source, with everything it calls regenerated, partitions the rows as `groupsS` says (tie T1)

`C04GlueGen.gen_groupby_semantics` gives `QFrame.GroupBy` for ANY meaning of `Comparable` and `grouper.GroupBy`. Here the
callees are the regenerated ones:

* `grouper.GroupBy`  — the programs `Gen.grouperFns` run by `interpGroupBy` (C04GrouperGen.gen_grouper_semantics: = the mirror `G`),
* `Comparable(…).Compare` — `C03Compare.genCompare` (= the spec's `keyCmp` / `keyEq`: gen_compare_keyEq),
* `Comparable(…).Hash`    — `C04Hash.genHash` (rows that compare Equal hash equal: gen_hash_respects_keyEq),

and the conclusion is about the SPEC: `gen_groupby_partition` — for every well-formed frame (`WFrame`), every list of
known column names and either Null setting, `GroupBy` returns a `Grouper` whose groups are, up to the ORDER of the groups,
the groups of the spec — `[]` for a frame without rows, all rows for no columns, else `groupsS gbNull keys n` over the
frame's LOGICAL key columns (cell `i` = the physical cell at row `index[i]`) — with every logical row number `a` replaced
by the physical row `index[a]` (the rows inside a group are in frame order). That is the `gs` of `groupAggS`
(QF/Spec/Ops.lean) — `specGroups`.
-/
namespace QF.Props.C04GlueLink
open QF QF.GG QF.GL QF.Props.C03Compare QF.Props.C04Hash QF.Props.C04GrouperGen QF.Props.C04Spec QF.Props.C04GlueGen

/-! ## Lists -/

theorem perm_of_nodup {α : Type} [DecidableEq α] : ∀ (l1 l2 : List α), l1.Nodup → l2.Nodup → (∀ x, x ∈ l1 ↔ x ∈ l2) → l1.Perm l2
  | [], l2, _, _, h => by
    have : l2 = [] := List.eq_nil_iff_forall_not_mem.2 (fun x hx => by have := (h x).2 hx; simp at this)
    subst this; exact List.Perm.refl _
  | a :: t, l2, h1, h2, h => by
    have ha : a ∈ l2 := (h a).1 (by simp)
    have hp := List.perm_cons_erase ha
    refine List.Perm.trans (List.Perm.cons a ?_) hp.symm
    obtain ⟨hat, ht⟩ := List.nodup_cons.1 h1
    apply perm_of_nodup t (l2.erase a) ht (h2.erase a)
    intro x
    rw [h2.mem_erase_iff]
    constructor
    · intro hx
      exact ⟨fun e => hat (e ▸ hx), (h x).1 (List.mem_cons_of_mem _ hx)⟩
    · rintro ⟨hne, hx⟩
      rcases List.mem_cons.1 ((h x).2 hx) with e | e
      · exact absurd e hne
      · exact e

/-- two strictly increasing lists with the same members are the same list -/
theorem eq_of_sorted_of_mem_iff (l1 l2 : List Nat) (h1 : l1.Pairwise (· < ·)) (h2 : l2.Pairwise (· < ·))
    (h : ∀ x, x ∈ l1 ↔ x ∈ l2) : l1 = l2 := by
  have n1 : l1.Nodup := h1.imp (fun hab => Nat.ne_of_lt hab)
  have n2 : l2.Nodup := h2.imp (fun hab => Nat.ne_of_lt hab)
  exact List.Perm.eq_of_pairwise (le := (· < ·)) (fun a b _ _ hab hba => by omega) h1 h2 (perm_of_nodup l1 l2 n1 n2 h)

theorem range_map_get (ix : List Nat) : (List.range ix.length).map (fun a => ix[a]!) = ix := by
  apply List.ext_getElem
  · simp
  · intro i h1 h2
    simp only [List.length_map, List.length_range] at h1
    simp [h1]

theorem get_inj {ix : List Nat} (hnd : ix.Nodup) {a b : Nat} (ha : a < ix.length) (hb : b < ix.length) (h : ix[a]! = ix[b]!) :
    a = b := by
  have hp := List.pairwise_iff_getElem.mp hnd
  simp only [getElem!_pos, ha, hb] at h
  rcases Nat.lt_trichotomy a b with hlt | heq | hgt
  · exact absurd h (hp a b ha hb hlt)
  · exact heq
  · exact absurd h.symm (hp b a hb ha hgt)

/-- a list of non-empty lists whose concatenation has no duplicates has no duplicates itself -/
theorem nodup_of_flatten {L : List (List Nat)} (hf : L.flatten.Nodup) (hne : ∀ g ∈ L, g ≠ []) : L.Nodup := by
  rw [List.Nodup, List.pairwise_iff_getElem]
  intro i j hi hj hij heq
  have hgi : L[i] ≠ [] := hne _ (List.getElem_mem hi)
  cases hg : L[i] with
  | nil => exact hgi hg
  | cons x t =>
    have h1 : x ∈ L[i] := by rw [hg]; simp
    have h2 : x ∈ L[j] := by rw [← heq]; exact h1
    have := unique_idx_of_nodup_flatten hf hi hj h1 h2
    omega

/-! ## Partitions into key classes are unique up to the order of the classes -/

section Classes
variable (eqv : Nat → Nat → Bool)

theorem cls_filter_eq (hs : ∀ a b, eqv a b = true → eqv b a = true) (ht : ∀ a b c, eqv a b = true → eqv b c = true → eqv a c = true)
    (ix : List Nat) (f f' : Nat) (h : G.cls eqv f' f = true) : ix.filter (G.cls eqv f) = ix.filter (G.cls eqv f') := by
  apply List.filter_congr
  intro j _
  unfold G.cls at h ⊢
  rcases Bool.or_eq_true_iff.mp h with h | h
  · have : f = f' := by simpa using h
    subst this; rfl
  · rw [Bool.eq_iff_iff]
    simp only [Bool.or_eq_true, beq_iff_eq]
    constructor
    · rintro (rfl | hj)
      · exact Or.inr h
      · exact Or.inr (ht _ _ _ hj h)
    · rintro (rfl | hj)
      · exact Or.inr (hs _ _ h)
      · exact Or.inr (ht _ _ _ hj (hs _ _ h))

theorem classes_sub (hs : ∀ a b, eqv a b = true → eqv b a = true) (ht : ∀ a b c, eqv a b = true → eqv b c = true → eqv a c = true)
    (ix : List Nat) (A B : List (List Nat))
    (hA : ∀ g ∈ A, ∃ f ∈ ix, g = ix.filter (G.cls eqv f)) (hB : ∀ g ∈ B, ∃ f ∈ ix, g = ix.filter (G.cls eqv f))
    (hBcov : ∀ j ∈ ix, ∃ g ∈ B, j ∈ g) : ∀ g ∈ A, g ∈ B := by
  intro g hg
  obtain ⟨f, hf, rfl⟩ := hA g hg
  obtain ⟨g', hg', hfg'⟩ := hBcov f hf
  obtain ⟨f', _, rfl⟩ := hB g' hg'
  have hc : G.cls eqv f' f = true := (List.mem_filter.mp hfg').2
  rw [cls_filter_eq eqv hs ht ix f f' hc]
  exact hg'

/-- Two duplicate-free lists of key classes of `ix` that both cover `ix` are permutations of each other. -/
theorem classes_perm (hs : ∀ a b, eqv a b = true → eqv b a = true) (ht : ∀ a b c, eqv a b = true → eqv b c = true → eqv a c = true)
    (ix : List Nat) (A B : List (List Nat)) (hAn : A.Nodup) (hBn : B.Nodup)
    (hA : ∀ g ∈ A, ∃ f ∈ ix, g = ix.filter (G.cls eqv f)) (hB : ∀ g ∈ B, ∃ f ∈ ix, g = ix.filter (G.cls eqv f))
    (hAcov : ∀ j ∈ ix, ∃ g ∈ A, j ∈ g) (hBcov : ∀ j ∈ ix, ∃ g ∈ B, j ∈ g) : A.Perm B :=
  perm_of_nodup A B hAn hBn fun g =>
    ⟨classes_sub eqv hs ht ix A B hA hB hBcov g, classes_sub eqv hs ht ix B A hB hA hAcov g⟩

end Classes

/-! ## The groups of `groupsS` are the key classes -/

section Spec
variable (gbNull : Bool) (keys : List LCol) (n : Nat)

/-- the key class of row `h` among the rows `0 … n-1` -/
def clsL (h x : Nat) : Bool := x == h || rowKeyEq gbNull keys x h

theorem groupsS_class {g : List Nat} (hg : g ∈ groupsS gbNull keys n) {h : Nat} (hh : g.head? = some h) :
    g = (List.range n).filter (clsL gbNull keys h) := by
  apply eq_of_sorted_of_mem_iff
  · exact (groupsS_sorted gbNull keys n g hg).2
  · exact List.Pairwise.filter _ List.pairwise_lt_range
  intro x
  rw [List.mem_filter, List.mem_range]
  constructor
  · intro hx
    refine ⟨groupsS_bound gbNull keys n g hg x hx, ?_⟩
    unfold clsL
    rcases groupsS_same_key gbNull keys n hg hh hx with h1 | h1
    · simp [rowKeyEq_symm' h1]
    · simp [h1]
  · rintro ⟨hxn, hc⟩
    unfold clsL at hc
    rcases Bool.or_eq_true_iff.mp hc with h1 | h1
    · have : x = h := by simpa using h1
      subst this
      cases g with
      | nil => simp at hh
      | cons a t => simp at hh; subst hh; simp
    · -- x has the key of h: it is in some group, which must be g
      obtain ⟨g', hg', hxg'⟩ := groupsS_cover gbNull keys n x hxn
      obtain ⟨i, hi, rfl⟩ := List.mem_iff_getElem.mp hg
      obtain ⟨j, hj, rfl⟩ := List.mem_iff_getElem.mp hg'
      by_cases hij : i = j
      · subst hij; exact hxg'
      · exfalso
        have hne := (groupsS_sorted gbNull keys n _ hg').1
        cases hgj : (groupsS gbNull keys n)[j] with
        | nil => exact hne hgj
        | cons h' t =>
          have hh' : (groupsS gbNull keys n)[j].head? = some h' := by rw [hgj]; rfl
          have hd := groupsS_heads_differ gbNull keys n hi hj hij hh hh'
          have hk : rowKeyEq gbNull keys h h' = true := by
            rcases groupsS_same_key gbNull keys n hg' hh' hxg' with h2 | h2
            · exact rowKeyEq_trans (rowKeyEq_symm' h1) (rowKeyEq_symm' h2)
            · subst h2; exact rowKeyEq_symm' h1
          rw [hk] at hd; cases hd

end Spec

/-! ## The regenerated comparables -/

/-- the four values of `column.CompareResult`, as the grouper's language names them -/
def toGL : QF.CRes → GL.CRes
  | .lessThan => .lessThan
  | .greaterThan => .greaterThan
  | .equal => .equal
  | .notEqual => .notEqual

theorem toGL_equal (r : QF.CRes) : (toGL r == GL.CRes.equal) = (r == QF.CRes.equal) := by cases r <;> rfl

/-- `<column>.Comparable(reverse, equalNull, nullLast)` of today's source as the grouper sees it: `Compare(i, j)` is the
regenerated comparator on the cells at the two rows, `Hash(i, seed)` the regenerated hash function on the cell at the row
(`rnd i`: what `rand.Uint64()` returns when the row is hashed). A row outside the column is a run-time panic in Go; here it
compares NotEqual and hashes to 0 (no row of a well-formed frame is outside its columns). -/
def genComparable (H : HashFn) (rnd : Nat → UInt64) (c : LCol) (rev eqNull nullLast : Bool) : GL.Cmp :=
  { compare := fun i j =>
      if i < c.cells.size ∧ j < c.cells.size then
        toGL ((genCompare c.ty c.vals ⟨rev, eqNull, nullLast⟩ c.cells[i]! c.cells[j]!).getD .notEqual)
      else .notEqual
    hash := fun i s =>
      if i < c.cells.size then ((genHash H (rnd i) c.ty c.vals ⟨rev, eqNull, nullLast⟩ c.cells[i]! (UInt64.ofNat s)).getD 0).toNat
      else 0 }

/-- what `GroupBy` calls, as regenerated: `H` is `hash.HashBytes`, `rnd name row` the random value drawn when that row of
that column is hashed, `fuel` the loop budget of the interpreter of the grouper -/
def genPrims (H : HashFn) (rnd : Bytes → Nat → UInt64) (fuel : Nat) : Prims GL.Cmp GL.Stats :=
  { comparable := fun c r e n => genComparable H (rnd c.name) c r e n
    groupBy := fun ix cs => interpGroupBy Gen.grouperFns fuel cs ix }

/-- the comparables of the key columns, as `GroupBy` builds them -/
def cmpsOf (H : HashFn) (rnd : Bytes → Nat → UInt64) (gbNull : Bool) (keys : List LCol) : List GL.Cmp :=
  keys.map fun c => genComparable H (rnd c.name) c false gbNull false

/-- a key column of a well-formed frame: a Go column type, `L` cells, all of the type -/
structure KeyOk (L : Nat) (c : LCol) : Prop where
  ty : c.ty ∈ tys
  size : c.cells.size = L
  typed : ∀ r < L, wtCell c.ty c.vals c.cells[r]! = true

theorem cmp_equal_iff (H : HashFn) (rnd : Nat → UInt64) (gbNull : Bool) (L : Nat) (c : LCol) (hc : KeyOk L c) (i j : Nat) :
    ((genComparable H rnd c false gbNull false).compare i j == GL.CRes.equal) =
      (decide (i < L ∧ j < L) && keyEq gbNull c c.cells[i]! c.cells[j]!) := by
  unfold genComparable
  simp only [hc.size]
  by_cases hr : i < L ∧ j < L
  · obtain ⟨r, h1, h2⟩ := gen_compare_keyEq c hc.ty gbNull c.cells[i]! c.cells[j]! (hc.typed i hr.1) (hc.typed j hr.2)
    simp only [hr, and_self, if_true, h1, Option.getD_some, decide_true, Bool.true_and, toGL_equal]
    rw [Bool.eq_iff_iff]
    simp only [beq_iff_eq]
    exact h2
  · simp [hr]

theorem eqvOf_spec (H : HashFn) (rnd : Bytes → Nat → UInt64) (gbNull : Bool) (L : Nat) (keys : List LCol)
    (hk : ∀ c ∈ keys, KeyOk L c) (i j : Nat) :
    eqvOf (cmpsOf H rnd gbNull keys) i j = ((keys.all fun _ => decide (i < L ∧ j < L)) && rowKeyEq gbNull keys i j) := by
  unfold eqvOf cmpsOf rowKeyEq
  induction keys with
  | nil => rfl
  | cons c cs ih =>
    have := cmp_equal_iff H (rnd c.name) gbNull L c (hk c (by simp)) i j
    simp only [List.map_cons, List.all_cons, this, ih (fun k hk' => hk k (by simp [hk']))]
    cases decide (i < L ∧ j < L) <;> cases keyEq gbNull c c.cells[i]! c.cells[j]! <;> simp

theorem eqvOf_true (H : HashFn) (rnd : Bytes → Nat → UInt64) (gbNull : Bool) (L : Nat) (keys : List LCol)
    (hk : ∀ c ∈ keys, KeyOk L c) (hne : keys ≠ []) (i j : Nat) (h : eqvOf (cmpsOf H rnd gbNull keys) i j = true) :
    i < L ∧ j < L ∧ rowKeyEq gbNull keys i j = true := by
  rw [eqvOf_spec H rnd gbNull L keys hk] at h
  cases keys with
  | nil => exact absurd rfl hne
  | cons c cs =>
    simp only [List.all_cons, Bool.and_eq_true, decide_eq_true_eq] at h
    exact ⟨h.1.1.1, h.1.1.2, h.2⟩

theorem eqvOf_inRange (H : HashFn) (rnd : Bytes → Nat → UInt64) (gbNull : Bool) (L : Nat) (keys : List LCol)
    (hk : ∀ c ∈ keys, KeyOk L c) (i j : Nat) (hi : i < L) (hj : j < L) :
    eqvOf (cmpsOf H rnd gbNull keys) i j = rowKeyEq gbNull keys i j := by
  rw [eqvOf_spec H rnd gbNull L keys hk]
  have : (keys.all fun _ => decide (i < L ∧ j < L)) = true := by simp [hi, hj]
  rw [this, Bool.true_and]

/-- rows with equal keys hash equal, column by column, from any seed -/
theorem hash_fold_eq (H : HashFn) (rnd : Bytes → Nat → UInt64) (gbNull : Bool) (L : Nat) (keys : List LCol)
    (hk : ∀ c ∈ keys, KeyOk L c) (a b : Nat) (ha : a < L) (hb : b < L) (he : rowKeyEq gbNull keys a b = true) (s : Nat) :
    (cmpsOf H rnd gbNull keys).foldl (fun h c => c.hash a h % M64) s = (cmpsOf H rnd gbNull keys).foldl (fun h c => c.hash b h % M64) s := by
  induction keys generalizing s with
  | nil => rfl
  | cons c cs ih =>
    have hc := hk c (by simp)
    simp only [rowKeyEq, List.all_cons, Bool.and_eq_true] at he
    obtain ⟨h, h1, h2⟩ := gen_hash_respects_keyEq c hc.ty gbNull H (UInt64.ofNat s) (rnd c.name a) (rnd c.name b) _ _
      (hc.typed a ha) (hc.typed b hb) he.1
    have e : (genComparable H (rnd c.name) c false gbNull false).hash a s = (genComparable H (rnd c.name) c false gbNull false).hash b s := by
      simp only [genComparable, hc.size, ha, hb, if_true, h1, h2]
    simp only [cmpsOf, List.map_cons, List.foldl_cons, e]
    exact ih (fun k hk' => hk k (by simp [hk'])) (by simpa [rowKeyEq] using he.2) _

theorem keyRel (H : HashFn) (rnd : Bytes → Nat → UInt64) (gbNull : Bool) (L : Nat) (keys : List LCol)
    (hk : ∀ c ∈ keys, KeyOk L c) (hne : keys ≠ []) :
    G.KeyRel (hashOf (cmpsOf H rnd gbNull keys)) (eqvOf (cmpsOf H rnd gbNull keys)) where
  symm := by
    intro a b h
    obtain ⟨ha, hb, he⟩ := eqvOf_true H rnd gbNull L keys hk hne a b h
    rw [eqvOf_inRange H rnd gbNull L keys hk b a hb ha]
    exact rowKeyEq_symm' he
  trans := by
    intro a b c h1 h2
    obtain ⟨ha, hb, he1⟩ := eqvOf_true H rnd gbNull L keys hk hne a b h1
    obtain ⟨_, hc, he2⟩ := eqvOf_true H rnd gbNull L keys hk hne b c h2
    rw [eqvOf_inRange H rnd gbNull L keys hk a c ha hc]
    exact rowKeyEq_trans he1 he2
  hashOk := by
    intro a b h
    obtain ⟨ha, hb, he⟩ := eqvOf_true H rnd gbNull L keys hk hne a b h
    unfold hashOf
    rw [hash_fold_eq H rnd gbNull L keys hk a b ha hb he 0]

/-! ## Physical rows and logical rows -/

/-- the column as the frame shows it: cell `i` is the physical cell at row `ix[i]` -/
def logical (ix : List Nat) (c : LCol) : LCol := { c with cells := (ix.map fun r => c.cells[r]!).toArray }

theorem logical_cell (ix : List Nat) (c : LCol) (a : Nat) (ha : a < ix.length) : (logical ix c).cells[a]! = c.cells[ix[a]!]! := by
  simp [logical, ha]

theorem rowKeyEq_logical (gbNull : Bool) (ix : List Nat) (keys : List LCol) (a b : Nat) (ha : a < ix.length) (hb : b < ix.length) :
    rowKeyEq gbNull (keys.map (logical ix)) a b = rowKeyEq gbNull keys ix[a]! ix[b]! := by
  unfold rowKeyEq
  induction keys with
  | nil => rfl
  | cons c cs ih =>
    simp only [List.map_cons, List.all_cons, ih, logical_cell ix c a ha, logical_cell ix c b hb]
    rfl

/-- the groups the spec forms (`gs` of `groupAggS`, QF/Spec/Ops.lean) -/
def specGroups (gbNull : Bool) (keys : List LCol) (n : Nat) : List (List Nat) :=
  if n == 0 then [] else if keys.isEmpty then [List.range n] else groupsS gbNull keys n

/-- A frame the operations of the library produce: no row twice in the index, at most 2^30 rows, all columns of one
length `L` that every row of the index is below, every column of a Go column type with cells of that type. -/
structure WFrame (F : Frame) (L : Nat) : Prop where
  nodup : F.index.Nodup
  small : F.index.length ≤ 2 ^ 30
  inRange : ∀ r ∈ F.index, r < L
  cols : ∀ c ∈ F.cols, KeyOk L c

theorem mapM_find_mem {F : Frame} : ∀ {names : List Bytes} {keys : List LCol}, names.mapM F.find? = some keys → ∀ c ∈ keys, c ∈ F.cols := by
  intro names
  induction names with
  | nil => intro keys h c hc; simp at h; subst h; simp at hc
  | cons n ns ih =>
    intro keys h c hc
    simp only [List.mapM_cons, Option.bind_eq_bind] at h
    cases hf : F.find? n with
    | none => rw [hf] at h; simp at h
    | some k =>
      rw [hf] at h
      cases hr : ns.mapM F.find? with
      | none => rw [hr] at h; simp at h
      | some rest =>
        rw [hr] at h
        simp at h
        subst h
        rcases List.mem_cons.mp hc with rfl | hc
        · exact List.mem_of_find?_eq_some hf
        · exact ih hr c hc

theorem mapM_find_length {F : Frame} : ∀ {names : List Bytes} {keys : List LCol}, names.mapM F.find? = some keys → keys.length = names.length := by
  intro names
  induction names with
  | nil => intro keys h; simp at h; subst h; rfl
  | cons n ns ih =>
    intro keys h
    simp only [List.mapM_cons, Option.bind_eq_bind] at h
    cases hf : F.find? n with
    | none => rw [hf] at h; simp at h
    | some k =>
      rw [hf] at h
      cases hr : ns.mapM F.find? with
      | none => rw [hr] at h; simp at h
      | some rest =>
        rw [hr] at h
        simp at h
        subst h
        simp [ih hr]

theorem mapM_find_some {F : Frame} : ∀ {names : List Bytes}, names.all (fun n => (F.find? n).isSome) = true → ∃ keys, names.mapM F.find? = some keys := by
  intro names
  induction names with
  | nil => intro _; exact ⟨[], rfl⟩
  | cons n ns ih =>
    intro h
    simp only [List.all_cons, Bool.and_eq_true] at h
    obtain ⟨rest, hr⟩ := ih h.2
    cases hf : F.find? n with
    | none => rw [hf] at h; simp at h
    | some k => exact ⟨k :: rest, by simp [List.mapM_cons, hf, hr]⟩

/-! ## The main statement -/

/-- the physical groups the regenerated grouper returns are the spec's groups with the rows looked up in the index, up to
the order of the groups -/
theorem grouper_groups_perm (H : HashFn) (rnd : Bytes → Nat → UInt64) (gbNull : Bool) (L : Nat) (keys : List LCol)
    (hk : ∀ c ∈ keys, KeyOk L c) (hne : keys ≠ []) (ix : List Nat) (hnd : ix.Nodup) (hlen : ix.length ≤ 2 ^ 30)
    (hr : ∀ r ∈ ix, r < L) (fuel : Nat) (hF : 2 ^ 32 ≤ fuel) :
    ∃ gs st, interpGroupBy Gen.grouperFns fuel (cmpsOf H rnd gbNull keys) ix = some (gs, st) ∧
      gs.Perm ((groupsS gbNull (keys.map (logical ix)) ix.length).map fun g => g.map fun a => ix[a]!) := by
  let cs := cmpsOf H rnd gbNull keys
  have kr := keyRel H rnd gbNull L keys hk hne
  obtain ⟨gs, h1, h2, h3, h4⟩ := C04.groupBy_partition (hashOf cs) (eqvOf cs) kr ix hnd
  obtain ⟨gs', h1', hnod⟩ := C05.groupBy_nodup (hashOf cs) (eqvOf cs) kr ix hnd
  have : gs' = gs := by rw [h1] at h1'; exact (Option.some.inj h1').symm
  subst this
  have hsem := (gen_grouper_semantics cs ix hlen fuel hF).2.2.1
  rw [h1] at hsem
  cases hi : interpGroupBy Gen.grouperFns fuel cs ix with
  | none => rw [hi] at hsem; cases hsem
  | some r =>
    obtain ⟨gs0, st⟩ := r
    rw [hi] at hsem
    simp only [Option.map_some, Option.some.injEq] at hsem
    subst hsem
    refine ⟨gs0, st, rfl, ?_⟩
    -- the spec's groups, mapped to physical rows
    let n := ix.length
    let keysL := keys.map (logical ix)
    let get : Nat → Nat := fun a => ix[a]!
    have hget_mem : ∀ a, a < n → get a ∈ ix := fun a ha => by
      show ix[a]! ∈ ix
      rw [getElem!_pos ix a ha]; exact List.getElem_mem ha
    have hEL : ∀ a b, a < n → b < n → rowKeyEq gbNull keysL a b = eqvOf cs (get a) (get b) := by
      intro a b ha hb
      rw [rowKeyEq_logical gbNull ix keys a b ha hb,
        eqvOf_inRange H rnd gbNull L keys hk _ _ (hr _ (hget_mem a ha)) (hr _ (hget_mem b hb))]
    -- every group of the spec, mapped, is a key class of ix
    have hclass : ∀ g ∈ groupsS gbNull keysL n, ∃ f ∈ ix, g.map get = ix.filter (G.cls (eqvOf cs) f) := by
      intro g hg
      have hgne := (groupsS_sorted gbNull keysL n g hg).1
      cases hgc : g with
      | nil => exact absurd hgc hgne
      | cons h t =>
        have hh : g.head? = some h := by rw [hgc]; rfl
        have hhn : h < n := groupsS_bound gbNull keysL n g hg h (by rw [hgc]; simp)
        refine ⟨get h, hget_mem h hhn, ?_⟩
        rw [← hgc, groupsS_class gbNull keysL n hg hh]
        conv => rhs; rw [← range_map_get ix]
        rw [List.filter_map]
        congr 1
        apply List.filter_congr
        intro x hx
        have hxn : x < n := List.mem_range.mp hx
        simp only [Function.comp, clsL, G.cls, hEL x h hxn hhn]
        congr 1
        rw [Bool.eq_iff_iff]
        simp only [beq_iff_eq]
        exact ⟨fun e => by rw [e], fun e => get_inj hnd hxn hhn e⟩
    apply classes_perm (eqvOf cs) kr.symm kr.trans ix
    · exact hnod
    · -- the mapped groups are pairwise different
      have hS : (groupsS gbNull keysL n).Nodup :=
        nodup_of_flatten (groupsS_nodup gbNull keysL n) (fun g hg => (groupsS_sorted gbNull keysL n g hg).1)
      rw [List.Nodup, List.pairwise_map]
      refine List.Pairwise.imp_of_mem ?_ hS
      intro g1 g2 hg1 hg2 hne12 heq
      apply hne12
      apply List.ext_getElem
      · have := congrArg List.length heq; simpa using this
      · intro i hi1 hi2
        have e : (g1.map get)[i]? = (g2.map get)[i]? := by rw [heq]
        simp only [List.getElem?_map, List.getElem?_eq_getElem hi1, List.getElem?_eq_getElem hi2, Option.map_some, Option.some.injEq] at e
        exact get_inj hnd (groupsS_bound gbNull keysL n g1 hg1 _ (List.getElem_mem hi1))
          (groupsS_bound gbNull keysL n g2 hg2 _ (List.getElem_mem hi2)) e
    · exact h2
    · intro g hg
      obtain ⟨g0, hg0, rfl⟩ := List.mem_map.mp hg
      exact hclass g0 hg0
    · exact h3
    · intro j hj
      obtain ⟨a, ha, rfl⟩ := List.mem_iff_getElem.mp hj
      obtain ⟨g, hg, hag⟩ := groupsS_cover gbNull keysL n a ha
      refine ⟨g.map get, List.mem_map.mpr ⟨g, hg, rfl⟩, List.mem_map.mpr ⟨a, hag, ?_⟩⟩
      show ix[a]! = ix[a]
      exact getElem!_pos ix a ha

/-- **`QFrame.GroupBy` of today's source, everything it calls regenerated, forms the spec's groups.** For every
`hash.HashBytes` `H`, whatever `rand.Uint64()` returns (`rnd`), every loop budget ≥ 2^32, every well-formed frame `F`
(`WFrame`: a duplicate-free index of at most 2^30 rows into columns of one length, cells of the columns' types) that has
not failed, every list of configured column names the frame has and either Null setting: `GroupBy` returns a `Grouper`
without error that shares the frame's columns, remembers the configured columns, and whose groups are — up to the order of
the groups (`List.Perm`) — the groups `specGroups` the spec forms over the frame's logical key columns
(`[]` without rows, all rows without columns, else `groupsS`), every logical row `a` written as the physical row
`F.index[a]`, the rows of a group in frame order.
(The other cases — a failed frame, an unknown column — are `C04GlueGen.gen_groupby_err_iff`.) -/
theorem gen_groupby_partition (H : HashFn) (rnd : Bytes → Nat → UInt64) (fuel : Nat) (hF : 2 ^ 32 ≤ fuel)
    (F : Frame) (L : Nat) (wf : WFrame F L) (he : F.err = false) (C : Cfg)
    (hknown : C.columns.all (fun n => (F.find? n).isSome) = true) :
    ∃ g keys, genGroupBy (genPrims H rnd fuel) F C = some g ∧ g.err = false ∧ g.cols = F.cols ∧ g.grouped = C.columns ∧
      C.columns.mapM F.find? = some keys ∧
      g.indices.Perm ((specGroups C.gbNull (keys.map (logical F.index)) F.index.length).map fun grp => grp.map fun a => F.index[a]!) := by
  obtain ⟨keys, hkeys⟩ := mapM_find_some hknown
  rw [gen_groupby_semantics]
  unfold specGroupBy specGroups
  simp only [he, hknown, Bool.false_eq_true, if_false, Bool.true_eq_false]
  by_cases hlen : F.index.length = 0
  · exact ⟨{ cols := F.cols, grouped := C.columns }, keys, by simp [hlen], rfl, rfl, rfl, hkeys, by simp [hlen]⟩
  · simp only [hlen, if_false]
    by_cases hnil : C.columns = []
    · have hk0 : keys = [] := by
        have := mapM_find_length hkeys; rw [hnil] at this; exact List.eq_nil_of_length_eq_zero (by simpa using this)
      refine ⟨{ cols := F.cols, grouped := C.columns, indices := [F.index] }, keys, by simp [hnil], rfl, rfl, rfl, hkeys, ?_⟩
      have hb : (F.index.length == 0) = false := by simpa using hlen
      simp only [hk0, List.map_nil, List.isEmpty_nil, hb, if_true, Bool.false_eq_true, if_false, List.map_cons, range_map_get]
      exact List.Perm.refl _
    · have hkne : keys ≠ [] := by
        intro e; have := mapM_find_length hkeys; rw [e] at this
        exact hnil (List.eq_nil_of_length_eq_zero (by simpa using this.symm))
      have hkok : ∀ c ∈ keys, KeyOk L c := fun c hc => wf.cols c (mapM_find_mem hkeys c hc)
      obtain ⟨gs, st, hrun, hperm⟩ := grouper_groups_perm H rnd C.gbNull L keys hkok hkne F.index wf.nodup wf.small wf.inRange fuel hF
      have hcs : (keys.map fun c => (genPrims H rnd fuel).comparable c false C.gbNull false) = cmpsOf H rnd C.gbNull keys := rfl
      have hb : (F.index.length == 0) = false := by simpa using hlen
      have hke : (keys.map (logical F.index)).isEmpty = false := by
        cases keys with
        | nil => exact absurd rfl hkne
        | cons _ _ => rfl
      refine ⟨({ cols := F.cols, grouped := C.columns, indices := gs, stats := some st } : Grouper GL.Stats), keys, ?_, rfl, rfl, rfl, hkeys, ?_⟩
      · have hrun' : (genPrims H rnd fuel).groupBy F.index (cmpsOf H rnd C.gbNull keys) = some (gs, st) := hrun
        simp only [hnil, if_false, hkeys, hcs, hrun']
      · simp only [hb, hke, Bool.false_eq_true, if_false]
        exact hperm

/-! ## `Distinct` (C05) -/

theorem keyRel_nil (H : HashFn) (rnd : Bytes → Nat → UInt64) (gbNull : Bool) :
    G.KeyRel (hashOf (cmpsOf H rnd gbNull [])) (eqvOf (cmpsOf H rnd gbNull [])) :=
  ⟨fun _ _ _ => rfl, fun _ _ _ _ _ => rfl, fun _ _ _ => rfl⟩

/-- **`QFrame.Distinct` of today's source, everything it calls regenerated, keeps the first row of every key.** For a
well-formed frame and configured columns the frame has (or none: then all columns), the index `grouper.Distinct` returns
for the comparables `Distinct` builds has no row twice, only rows of the frame, a representative with the same key
(`rowKeyEq` on the key columns, physical rows) for every row, no two representatives with the same key, and every
representative is the first row of its key in frame order. -/
theorem gen_distinct_rows (H : HashFn) (rnd : Bytes → Nat → UInt64) (fuel : Nat) (hF : 2 ^ 32 ≤ fuel)
    (F : Frame) (L : Nat) (wf : WFrame F L) (C : Cfg) (keys : List LCol)
    (hkeys : (if C.columns.isEmpty then F.cols.map LCol.name else C.columns).mapM F.find? = some keys) :
    ∃ d, genDistinctIx (genPrims H rnd fuel).comparable (fun ix cs => interpDistinct Gen.grouperFns fuel cs ix) F C = some d ∧
      d.Nodup ∧ (∀ r ∈ d, r ∈ F.index) ∧
      (∀ j ∈ F.index, ∃ r ∈ d, r = j ∨ rowKeyEq C.gbNull keys r j = true) ∧
      (∀ r1 ∈ d, ∀ r2 ∈ d, r1 ≠ r2 → rowKeyEq C.gbNull keys r1 r2 = false) ∧
      (∀ r ∈ d, ∀ j ∈ F.index, rowKeyEq C.gbNull keys r j = true → F.index.idxOf r ≤ F.index.idxOf j) := by
  have hkok : ∀ c ∈ keys, KeyOk L c := fun c hc => wf.cols c (mapM_find_mem hkeys c hc)
  let cs := cmpsOf H rnd C.gbNull keys
  have kr : G.KeyRel (hashOf cs) (eqvOf cs) := by
    by_cases hne : keys = []
    · subst hne; exact keyRel_nil H rnd C.gbNull
    · exact keyRel H rnd C.gbNull L keys hkok hne
  obtain ⟨gs, hgs, h1, h2, h3, h4, h5⟩ := C05.distinct_spec_core (hashOf cs) (eqvOf cs) kr F.index wf.nodup
  have hsem := (gen_grouper_semantics cs F.index wf.small fuel hF).2.2.2
  rw [distinct_eq_distinctOf, hgs] at hsem
  have heq : ∀ a b, a ∈ F.index → b ∈ F.index → eqvOf cs a b = rowKeyEq C.gbNull keys a b := fun a b ha hb =>
    eqvOf_inRange H rnd C.gbNull L keys hkok a b (wf.inRange a ha) (wf.inRange b hb)
  refine ⟨C05.distinctOf gs, ?_, h1, h2, ?_, ?_, ?_⟩
  · rw [gen_distinct_cmps_semantics, hkeys]
    exact hsem
  · intro j hj
    obtain ⟨r, hr, h⟩ := h3 j hj
    exact ⟨r, hr, h.imp id (fun e => by rw [← heq r j (h2 r hr) hj]; exact e)⟩
  · intro r1 hr1 r2 hr2 hne
    rw [← heq r1 r2 (h2 r1 hr1) (h2 r2 hr2)]
    exact h4 r1 hr1 r2 hr2 hne
  · intro r hr j hj he
    exact h5 r hr j hj (by rw [heq r j (h2 r hr) hj]; exact he)

end QF.Props.C04GlueLink

#print axioms QF.Props.C04GlueLink.gen_distinct_rows
#print axioms QF.Props.C04GlueLink.classes_perm
#print axioms QF.Props.C04GlueLink.groupsS_class
#print axioms QF.Props.C04GlueLink.keyRel
#print axioms QF.Props.C04GlueLink.grouper_groups_perm
#print axioms QF.Props.C04GlueLink.gen_groupby_partition
