import QF.Core.JRExpr
import QF.Gen.ReadJson
/-!
# C14 — the JSON reading glue of today's source IS the spec's `jsonDataS` / `readJsonS` (tie T1, by semantics)

`QF.Gen.fillAsts`, `QF.Gen.recordsToDataAst`, `QF.Gen.unmarshalJsonAst`, `QF.Gen.readJsonAst` (regenerated on every run by
go/cmd/extract/jrast.go) hold `fillInts` / `fillFloats` / `fillBools` / `fillStrings`, `jsonRecordsToData`, `UnmarshalJSON`
of /repo/internal/io/json.go and `ReadJSON` of /repo/qframe.go as terms of `QF.JR` / `QF.JU` (QF/Core/JRExpr.lean: their
Go meaning; the order in which `range` delivers the entries of a map is a parameter). This file proves, for the terms
generated TODAY:

* `gen_readjson_no_opaque`     — everything was found and translated completely
* `gen_readjson_canon`         — the terms are the canonical ones
* `gen_fill_semantics`         — each fill function, on ANY records (any `interface{}` values, `int` included), any column
                                 name: an error iff some record lacks the key or holds a value of another dynamic type,
                                 else the slice of the values in record order (`fillM`)
* `gen_toData_semantics`       — `jsonRecordsToData` on any records and any iteration order of `range`: the entries of
                                 record 0 in that order, each typed by its value in record 0 (`int`, `float64`, `bool`,
                                 `string`/nil; anything else: the "unknown type" error) and filled from all records
* `gen_readjson_semantics`     — for every list of JSON records (member lists of objects; values = the spec's `JVal`)
                                 whose numbers are float64s, decoded as `encoding/json` does (`decodeRec`), and EVERY
                                 iteration order of the map: today's `jsonRecordsToData` returns an error exactly when the
                                 spec's `jsonDataS` does (missing member, wrong type in a later record, array / object in
                                 record 0), and otherwise a map holding exactly the spec's columns
                                 (a permutation of them; in the order of record 0 when `range` follows it:
                                 `gen_readjson_semantics_ordered`). The `int` clauses are dead: `decoded_no_int`.
* `gen_unmarshal_semantics`    — `UnmarshalJSON`: the error of `Decode` (document no array of objects, a number that is no
                                 float64) is returned, else `jsonRecordsToData(records)`: with the above, the spec's
                                 `jsonDocS` for every document
* `gen_readjson_frame`         — `ReadJSON`: `QFrame{Err: err}` iff `UnmarshalJSON` fails, else `New(data, confFuncs...)`;
                                 with `New` = the spec's `newS` (no configuration) the frame is `readJsonS pnum doc`, whatever
                                 the iteration order (`newS_perm`: `New` sorts the names)

Witnesses at the end: plausible mutations violate the statements.
-/
namespace QF.Props.C14ReadJsonGen
open QF QF.Json

/-! ## Canonical terms -/

/-- `record := records[i]; value, ok := record[colName]; if !ok { return error }; …` -/
def fetch (k : JR) : JR := .bindRecord .loopVar (.lookup (.ifNotOk .retErr k))

/-- `x, ok := value.(T); if !ok { return error }; col[i] = x` -/
def assertStore (d : JRDyn) : JR := .assertTy d (.ifNotOk .retErr (.store .done))

/-- `switch t := value.(type) { case string: col[i] = &t; case nil: col[i] = nil; default: return error }` -/
def strSwitch : JR := .caseTy [.string] (.storeAddr .done) (.caseTy [.null] (.storeNil .done) .retErr)

def fillBody : JRElem → JR
  | .int => fetch (assertStore .int)
  | .float64 => fetch (assertStore .float64)
  | .bool => fetch (assertStore .bool)
  | .strptr => fetch strSwitch

def canonFill (e : JRElem) : JR := .rangeCol (fillBody e) .retNil

def canonFills : List (JRElem × JR) :=
  [(.int, canonFill .int), (.float64, canonFill .float64), (.bool, canonFill .bool), (.strptr, canonFill .strptr)]

/-- `col := make([]T, len(records)); if err := fill(col, records, colName); err != nil { return nil, err }; result[colName] = col` -/
def column (e : JRElem) : JR := .makeCol e (.callFill e .retCallErr (.setResult .done))

def typeSwitch : JR :=
  .caseTy [.int] (column .int) (.caseTy [.float64] (column .float64) (.caseTy [.bool] (column .bool)
    (.caseTy [.null, .string] (column .strptr) .retErr)))

def canonToData : JR :=
  .newResult (.ifNoRecords .retResult (.bindRecord (.lit 0) (.rangeRecord typeSwitch .retResult)))

def canonUnmarshal : JU := .decode (.ifErr .retErr .retToData)
def canonReadJson : JU := .unmarshal (.ifErr .retErrFrame .retNew)

theorem gen_readjson_canon :
    Gen.fillAsts = canonFills ∧ Gen.recordsToDataAst = canonToData ∧ Gen.unmarshalJsonAst = canonUnmarshal ∧
    Gen.readJsonAst = canonReadJson := by decide

theorem gen_readjson_no_opaque :
    Gen.fillAsts.map (·.1) = [.int, .float64, .bool, .strptr] ∧ (∀ p ∈ Gen.fillAsts, p.2.hasOpaque = false) ∧
    Gen.recordsToDataAst.hasOpaque = false ∧ Gen.unmarshalJsonAst.hasOpaque = false ∧ Gen.readJsonAst.hasOpaque = false := by
  decide

def canonProg : JRProg := { fills := canonFills, toData := canonToData }
def genProg : JRProg := { fills := Gen.fillAsts, toData := Gen.recordsToDataAst }

theorem gen_prog : genProg = canonProg := by
  unfold genProg canonProg
  rw [gen_readjson_canon.1, gen_readjson_canon.2.1]

/-! ## The fill functions -/

def JCol.shape : JCol → JRElem
  | .ints _ => .int
  | .floats _ => .float64
  | .bools _ => .bool
  | .strs _ => .strptr

/-- one round of a fill function: the slot of record `m` appended to the slice (`none`: an error) -/
def pushCell (e : JRElem) (name : Bytes) (m : GoMap) (c : JCol) : Option JCol :=
  match goMapGet m name with
  | none => none
  | some v =>
    match e, v, c with
    | .int, .int i, .ints a => some (.ints (a ++ [i]))
    | .float64, .float64 f, .floats a => some (.floats (a ++ [f]))
    | .bool, .bool b, .bools a => some (.bools (a ++ [b]))
    | .strptr, .str s, .strs a => some (.strs (a ++ [some s]))
    | .strptr, .null, .strs a => some (.strs (a ++ [none]))
    | _, _, _ => none

/-- all rounds -/
def fillFrom (e : JRElem) (name : Bytes) : List GoMap → JCol → Option JCol
  | [], c => some c
  | m :: ms, c =>
    match pushCell e name m c with
    | none => none
    | some c' => fillFrom e name ms c'

/-- a fill function on a fresh slice -/
def fillM (e : JRElem) (name : Bytes) (recs : List GoMap) : Option JCol := fillFrom e name recs (JCol.empty e)

theorem pushCell_size (e : JRElem) (name : Bytes) (m : GoMap) (c c' : JCol) (h : pushCell e name m c = some c') :
    c'.size = c.size + 1 ∧ JCol.shape c' = JCol.shape c := by
  unfold pushCell at h
  cases hg : goMapGet m name with
  | none => simp [hg] at h
  | some v =>
    rw [hg] at h
    cases e <;> cases v <;> cases c <;> simp at h <;> subst h <;> simp [JCol.size, JCol.shape]

theorem fillFrom_size (e : JRElem) (name : Bytes) : ∀ (ms : List GoMap) (c c' : JCol), fillFrom e name ms c = some c' →
    c'.size = c.size + ms.length := by
  intro ms
  induction ms with
  | nil => intro c c' h; simp [fillFrom] at h; subst h; simp
  | cons m ms ih =>
    intro c c' h
    unfold fillFrom at h
    cases hp : pushCell e name m c with
    | none => simp [hp] at h
    | some c1 =>
      rw [hp] at h
      have := ih c1 c' h
      rw [this, (pushCell_size e name m c c1 hp).1]
      simp only [List.length_cons]
      omega

section FillLoop
variable (E : JREnv)

/-- one round of the canonical body is `pushCell` -/
theorem fillBody_step (e : JRElem) (i : Nat) (m : GoMap) (σ : JRSt) (c : JCol) (hc : σ.col = some c) (hs : c.size = i)
    (hsh : JCol.shape c = e) (hm : E.records[i]? = some m) :
    match pushCell e σ.colName m c with
    | none => (fillBody e).run E (some i) σ = .retErr
    | some c' => ∃ σ', (fillBody e).run E (some i) σ = .next σ' ∧ σ'.col = some c' ∧ σ'.colLen = σ.colLen ∧
        σ'.colName = σ.colName := by
  unfold pushCell
  cases hg : goMapGet m σ.colName with
  | none =>
    cases e <;> simp [fillBody, fetch, JR.run, hm, hg]
  | some v =>
    cases e <;> cases v <;> cases c <;>
      simp [fillBody, fetch, assertStore, strSwitch, JR.run, hm, hg, JRDyn.bind, hc, JCol.size, JCol.push, JCol.pushPtr,
        JCol.shape] at hs hsh ⊢ <;> simp [hs]

/-- the loop of a canonical fill function over the records that are left -/
theorem fill_loop (e : JRElem) : ∀ (rest pre : List GoMap) (σ : JRSt) (c : JCol), E.records = pre ++ rest →
    σ.col = some c → c.size = pre.length → JCol.shape c = e →
    match fillFrom e σ.colName rest c with
    | none => iterIdx (fun i τ => (fillBody e).run E (some i) τ) pre.length rest.length σ = .retErr
    | some c' => ∃ σ', iterIdx (fun i τ => (fillBody e).run E (some i) τ) pre.length rest.length σ = .next σ' ∧
        σ'.col = some c' ∧ σ'.colLen = σ.colLen := by
  intro rest
  induction rest with
  | nil => intro pre σ c _ hc _ _; exact ⟨σ, rfl, hc, rfl⟩
  | cons m ms ih =>
    intro pre σ c hrec hc hs hsh
    have hm : E.records[pre.length]? = some m := by rw [hrec]; simp
    have hstep := fillBody_step E e pre.length m σ c hc hs hsh hm
    unfold fillFrom
    cases hp : pushCell e σ.colName m c with
    | none =>
      rw [hp] at hstep
      simp only [List.length_cons, iterIdx]
      rw [hstep]
    | some c1 =>
      rw [hp] at hstep
      obtain ⟨σ1, hrun, hc1, hl1, hn1⟩ := hstep
      have hsz := pushCell_size e σ.colName m c c1 hp
      have := ih (pre ++ [m]) σ1 c1 (by rw [hrec]; simp) hc1 (by rw [hsz.1, hs]; simp) (by rw [hsz.2, hsh])
      rw [hn1] at this
      simp only [List.length_cons, iterIdx]
      rw [hrun]
      simp only [List.length_append, List.length_cons, List.length_nil, Nat.zero_add] at this
      cases hf : fillFrom e σ.colName ms c1 with
      | none => rw [hf] at this; exact this
      | some c' =>
        rw [hf] at this
        obtain ⟨σ', h1, h2, h3⟩ := this
        exact ⟨σ', h1, h2, h3.trans hl1⟩

end FillLoop

theorem empty_shape (e : JRElem) : JCol.shape (JCol.empty e) = e := by cases e <;> rfl
theorem empty_size (e : JRElem) : (JCol.empty e).size = 0 := by cases e <;> rfl

theorem canon_lookup (e : JRElem) : canonFills.lookup e = some (canonFill e) := by cases e <;> decide

/-- **A canonical fill function called with a fresh slice of `len(records)` slots is `fillM`.** -/
theorem canon_fill (recs : List GoMap) (e : JRElem) (name : Bytes) :
    canonProg.fill recs e name recs.length = some (fillM e name recs) := by
  unfold JRProg.fill
  simp only [canonProg, canon_lookup, canonFill, JR.run]
  have h := fill_loop { records := recs, iter := id, fill := fun _ _ _ => none } e recs []
    { colName := name, colLen := recs.length, col := some (JCol.empty e) } (JCol.empty e) rfl rfl (empty_size e)
    (empty_shape e)
  simp only [List.length_nil] at h
  unfold fillM
  cases hf : fillFrom e name recs (JCol.empty e) with
  | none => rw [hf] at h; simp only [] at h; rw [h]
  | some c =>
    rw [hf] at h
    obtain ⟨σ', h1, h2, h3⟩ := h
    rw [h1]
    have hsz := fillFrom_size e name recs _ _ hf
    simp only [empty_size, Nat.zero_add] at hsz
    simp [JR.run, h2, hsz]

/-! ## `jsonRecordsToData` -/

/-- the element type the value of record 0 decides (`none`: the "unknown type" error) -/
def elemOf : GV → Option JRElem
  | .int _ => some .int
  | .float64 _ => some .float64
  | .bool _ => some .bool
  | .null => some .strptr
  | .str _ => some .strptr
  | .other => none

/-- the column of an entry of record 0 -/
def colOf (recs : List GoMap) (name : Bytes) (v : GV) : Option JCol := (elemOf v).bind (fun e => fillM e name recs)

/-- the rounds of the loop over the entries of record 0 -/
def dataFrom (recs : List GoMap) : List (Bytes × GV) → JData → Option JData
  | [], acc => some acc
  | e :: es, acc =>
    match colOf recs e.1 e.2 with
    | none => none
    | some c => dataFrom recs es (jdataInsert acc e.1 c)

/-- `jsonRecordsToData`, with the iteration order of `range` -/
def toDataM (iter : GoMap → GoMap) (recs : List GoMap) : Option JData :=
  match recs with
  | [] => some []
  | r0 :: _ => dataFrom recs (iter r0) []

theorem fillM_size (e : JRElem) (name : Bytes) (recs : List GoMap) (c : JCol) (h : fillM e name recs = some c) :
    c.size = recs.length := by
  have := fillFrom_size e name recs _ _ h
  simpa [empty_size] using this

section ToData
variable (E : JREnv) (hfill : E.fill = canonProg.fill E.records)
include hfill

/-- `col := make(…); if err := fill(…); err != nil { return nil, err }; result[colName] = col` -/
theorem column_run (e : JRElem) (cur : Option Nat) (σ : JRSt) (acc : JData) (hr : σ.result = some acc) :
    match fillM e σ.colName E.records with
    | none => (column e).run E cur σ = .retErr
    | some c => ∃ σ', (column e).run E cur σ = .next σ' ∧ σ'.result = some (jdataInsert acc σ.colName c) := by
  simp only [column, JR.run, hfill, canon_fill, if_true]
  cases hf : fillM e σ.colName E.records with
  | none => simp
  | some c =>
    have hsz := fillM_size e σ.colName E.records c hf
    simp [hr, hsz]

/-- one round of the loop over record 0 -/
theorem typeSwitch_run (cur : Option Nat) (σ : JRSt) (acc : JData) (v : GV) (hr : σ.result = some acc)
    (hv : σ.value = some v) :
    match colOf E.records σ.colName v with
    | none => typeSwitch.run E cur σ = .retErr
    | some c => ∃ σ', typeSwitch.run E cur σ = .next σ' ∧ σ'.result = some (jdataInsert acc σ.colName c) := by
  unfold colOf
  cases v with
  | other => simp [typeSwitch, JR.run, hv, JRDyn.bind, elemOf]
  | int i =>
    have := column_run E hfill .int cur { σ with bound := .int i } acc hr
    simpa [typeSwitch, JR.run, hv, JRDyn.bind, elemOf] using this
  | float64 f =>
    have := column_run E hfill .float64 cur { σ with bound := .float f } acc hr
    simpa [typeSwitch, JR.run, hv, JRDyn.bind, elemOf] using this
  | bool b =>
    have := column_run E hfill .bool cur { σ with bound := .bool b } acc hr
    simpa [typeSwitch, JR.run, hv, JRDyn.bind, elemOf] using this
  | null =>
    have := column_run E hfill .strptr cur { σ with bound := .none } acc hr
    simpa [typeSwitch, JR.run, hv, JRDyn.bind, elemOf] using this
  | str s =>
    have := column_run E hfill .strptr cur { σ with bound := .none } acc hr
    simpa [typeSwitch, JR.run, hv, JRDyn.bind, elemOf] using this

theorem entries_loop (cur : Option Nat) : ∀ (es : List (Bytes × GV)) (σ : JRSt) (acc : JData), σ.result = some acc →
    match dataFrom E.records es acc with
    | none => iterEntries (fun name v τ => typeSwitch.run E cur { τ with colName := name, value := some v }) es σ = .retErr
    | some d => ∃ σ', iterEntries (fun name v τ => typeSwitch.run E cur { τ with colName := name, value := some v }) es σ =
        .next σ' ∧ σ'.result = some d := by
  intro es
  induction es with
  | nil => intro σ acc hr; exact ⟨σ, rfl, hr⟩
  | cons e es ih =>
    intro σ acc hr
    have hstep := typeSwitch_run E hfill cur { σ with colName := e.1, value := some e.2 } acc e.2 hr rfl
    simp only [] at hstep
    unfold dataFrom
    cases hc : colOf E.records e.1 e.2 with
    | none =>
      rw [hc] at hstep
      simp only [iterEntries]
      rw [hstep]
    | some c =>
      rw [hc] at hstep
      obtain ⟨σ1, hrun, hr1⟩ := hstep
      simp only [iterEntries]
      rw [hrun]
      exact ih σ1 _ hr1

end ToData

theorem canonToData_run (E : JREnv) (hfill : E.fill = canonProg.fill E.records) :
    canonToData.run E none {} =
      match E.records with
      | [] => .retData []
      | r0 :: _ =>
        match dataFrom E.records (E.iter r0) [] with
        | none => .retErr
        | some d => .retData d := by
  cases hrecs : E.records with
  | nil => simp [canonToData, JR.run, hrecs]
  | cons r0 rs =>
    have h := entries_loop E hfill none (E.iter r0) { result := some [], record := some r0 } [] rfl
    rw [hrecs] at h
    simp only [canonToData, JR.run, hrecs, List.length_cons, Nat.add_one_ne_zero, if_false, List.getElem?_cons_zero]
    cases hd : dataFrom (r0 :: rs) (E.iter r0) [] with
    | none =>
      rw [hd] at h
      simp only [] at h
      rw [h]
    | some d =>
      rw [hd] at h
      obtain ⟨σ', h1, h2⟩ := h
      rw [h1]
      simp [JR.run, h2]

/-- **The canonical `jsonRecordsToData` is `toDataM`**, for all records and iteration orders. -/
theorem canon_toData (iter : GoMap → GoMap) (recs : List GoMap) :
    canonProg.run iter recs = some (toDataM iter recs) := by
  unfold JRProg.run toDataM
  have h := canonToData_run { records := recs, iter := iter, fill := canonProg.fill recs } rfl
  have e : canonProg.toData = canonToData := rfl
  rw [e, h]
  cases recs with
  | nil => rfl
  | cons r0 rs =>
    simp only []
    cases dataFrom (r0 :: rs) (iter r0) [] <;> rfl

/-! ## Today's source -/

/-- a fill function of today's source, called with a fresh slice of `len(records)` slots -/
def genFill (recs : List GoMap) (e : JRElem) (name : Bytes) : Option (Option JCol) := genProg.fill recs e name recs.length

/-- `jsonRecordsToData` of today's source -/
def genToData (iter : GoMap → GoMap) (recs : List GoMap) : Option (Option JData) := genProg.run iter recs

/-- **Each fill function of today's source is `fillM`**: on any records (whatever the `interface{}` values hold) and any
column name it has a meaning; it returns an error iff some record lacks the key or holds a value of another dynamic type
(`fillStrings`: neither a string nor nil), and otherwise leaves the values in the slice in record order. -/
theorem gen_fill_semantics (recs : List GoMap) (e : JRElem) (name : Bytes) :
    genFill recs e name = some (fillM e name recs) := by
  unfold genFill
  rw [gen_prog]
  exact canon_fill recs e name

/-- **`jsonRecordsToData` of today's source is `toDataM`**: no records, no columns; else the entries of record 0 in the
order `range` delivers them, each typed by its value there and filled from all records; the first failing column ends it
with an error. -/
theorem gen_toData_semantics (iter : GoMap → GoMap) (recs : List GoMap) :
    genToData iter recs = some (toDataM iter recs) := by
  unfold genToData
  rw [gen_prog]
  exact canon_toData iter recs

/-! ## Decoding: `decodeRec` is the object's member list as a map -/

def keysOf (m : GoMap) : List Bytes := m.map (·.1)

theorem goMapGet_insert (m : GoMap) (k k' : Bytes) (v : GV) :
    goMapGet (goMapInsert m k v) k' = if k = k' then some v else goMapGet m k' := by
  induction m with
  | nil => by_cases h : k = k' <;> simp [goMapInsert, goMapGet, h]
  | cons e rest ih =>
    unfold goMapInsert
    by_cases he : e.1 = k
    · by_cases h : k = k'
      · simp [he, h, goMapGet]
      · have : ¬ e.1 = k' := by rw [he]; exact h
        simp [he, h, goMapGet, this]
    · by_cases h' : e.1 = k'
      · have : ¬ k = k' := by intro hk; exact he (h'.trans hk.symm)
        have hne : ¬ k' = k := fun hk => this hk.symm
        simp [goMapGet, h', this, hne]
      · have ih' := ih
        simp only [goMapGet] at ih'
        simp [he, goMapGet, h', ih']

theorem keysOf_insert (m : GoMap) (k : Bytes) (v : GV) :
    keysOf (goMapInsert m k v) = if (keysOf m).contains k then keysOf m else keysOf m ++ [k] := by
  induction m with
  | nil => simp [goMapInsert, keysOf]
  | cons e rest ih =>
    unfold goMapInsert
    by_cases he : e.1 = k
    · simp [he, keysOf]
    · have hne : ¬ k = e.1 := fun h => he h.symm
      simp only [keysOf] at ih
      by_cases hc : k ∈ List.map (fun x => x.1) rest
      · simp [he, keysOf, hne, hc] at ih ⊢
        exact ih
      · simp [he, keysOf, hne, hc] at ih ⊢
        exact ih

def insStep (pnum : Bytes → Option UInt64) (m : GoMap) (kv : Bytes × JVal) : GoMap := goMapInsert m kv.1 (decodeVal pnum kv.2)

theorem keysOf_foldl (pnum : Bytes → Option UInt64) (r : JRec) : ∀ m : GoMap,
    keysOf (r.foldl (insStep pnum) m) =
      (r.map (·.1)).foldl (fun acc x => if acc.contains x then acc else acc ++ [x]) (keysOf m) := by
  induction r with
  | nil => intro m; rfl
  | cons kv r ih =>
    intro m
    simp only [List.foldl_cons, List.map_cons]
    rw [ih, insStep, keysOf_insert]

theorem keysOf_decodeRec (pnum : Bytes → Option UInt64) (r : JRec) : keysOf (decodeRec pnum r) = jrecKeys r :=
  keysOf_foldl pnum r []

theorem nodup_insert (m : GoMap) (k : Bytes) (v : GV) (h : (keysOf m).Nodup) : (keysOf (goMapInsert m k v)).Nodup := by
  rw [keysOf_insert]
  by_cases hc : k ∈ keysOf m
  · simp [hc, h]
  · simp [hc, List.nodup_append, h]
    intro a ha hk
    exact hc (hk ▸ ha)

theorem nodup_foldl (pnum : Bytes → Option UInt64) (r : JRec) : ∀ m : GoMap, (keysOf m).Nodup →
    (keysOf (r.foldl (insStep pnum) m)).Nodup := by
  induction r with
  | nil => intro m h; exact h
  | cons kv r ih => intro m h; exact ih _ (nodup_insert m _ _ h)

theorem nodup_decodeRec (pnum : Bytes → Option UInt64) (r : JRec) : (keysOf (decodeRec pnum r)).Nodup :=
  nodup_foldl pnum r [] (by simp [keysOf])

theorem get_foldl (pnum : Bytes → Option UInt64) (k : Bytes) (r : JRec) : ∀ m : GoMap,
    goMapGet (r.foldl (insStep pnum) m) k =
      match jrecGet r k with
      | some j => some (decodeVal pnum j)
      | none => goMapGet m k := by
  induction r with
  | nil => intro m; simp [jrecGet]
  | cons kv r ih =>
    intro m
    simp only [List.foldl_cons]
    rw [ih]
    have hg : jrecGet (kv :: r) k = (jrecGet r k).or (if kv.1 = k then some kv.2 else none) := by
      simp only [jrecGet, List.reverse_cons, List.find?_append]
      cases h : List.find? (fun x => x.1 == k) r.reverse with
      | some x => simp
      | none => by_cases hk : kv.1 = k <;> simp [hk]
    rw [hg]
    cases jrecGet r k with
    | some j => simp
    | none =>
      simp only [Option.none_or, insStep, goMapGet_insert]
      by_cases hk : kv.1 = k <;> simp [hk]

theorem get_decodeRec (pnum : Bytes → Option UInt64) (r : JRec) (k : Bytes) :
    goMapGet (decodeRec pnum r) k = (jrecGet r k).map (decodeVal pnum) := by
  have := get_foldl pnum k r []
  have e : decodeRec pnum r = r.foldl (insStep pnum) [] := rfl
  rw [e, this]
  cases jrecGet r k <;> rfl

/-- an entry of a map with distinct keys is what a lookup of its key returns -/
theorem get_of_mem (m : GoMap) (h : (keysOf m).Nodup) (e : Bytes × GV) (he : e ∈ m) : goMapGet m e.1 = some e.2 := by
  induction m with
  | nil => simp at he
  | cons x rest ih =>
    simp only [keysOf, List.map_cons, List.nodup_cons] at h
    rcases List.mem_cons.1 he with rfl | hr
    · simp [goMapGet]
    · have hne : ¬ x.1 = e.1 := by
        intro hx
        exact h.1 (hx ▸ List.mem_map_of_mem (f := fun y : Bytes × GV => y.1) hr)
      have := ih h.2 hr
      simp only [goMapGet] at this ⊢
      simp [hne, this]


/-- `encoding/json` never produces an `int`: the `case int` clause of `jsonRecordsToData` and `fillInts` are dead code for
decoded input. -/
theorem decoded_no_int (pnum : Bytes → Option UInt64) (j : JVal) : elemOf (decodeVal pnum j) ≠ some .int := by
  cases j <;> simp [decodeVal, elemOf]

/-! ## The columns against the spec -/

def mapOpt {α β : Type} (f : α → Option β) : List α → Option (List β)
  | [] => some []
  | a :: l =>
    match f a with
    | none => none
    | some b => (mapOpt f l).map (b :: ·)

theorem mapM_eq_mapOpt {α β : Type} (f : α → Option β) (l : List α) : l.mapM f = mapOpt f l := by
  induction l with
  | nil => rfl
  | cons a l ih =>
    rw [List.mapM_cons, ih]
    show _ = (match f a with | none => none | some b => (mapOpt f l).map (b :: ·))
    cases f a with
    | none => rfl
    | some b => cases mapOpt f l <;> rfl

def JCol.cells : JCol → List Cell
  | .ints a => a.map Cell.int
  | .floats a => a.map Cell.float
  | .bools a => a.map Cell.bool
  | .strs a => a.map Cell.str

def elemTy : JRElem → CType
  | .int => .int
  | .float64 => .float
  | .bool => .bool
  | .strptr => .string

/-- the column `createColumn` makes of a slice -/
def JCol.toLCol (name : Bytes) (c : JCol) : LCol :=
  { name := name, ty := elemTy (JCol.shape c), cells := (JCol.cells c).toArray }

/-- the map as the columns `New` receives -/
def dataView (d : JData) : List LCol := d.map (fun p => JCol.toLCol p.1 p.2)

/-- every number among the member values is a float64 -/
def RecOk (pnum : Bytes → Option UInt64) (r : JRec) : Prop := ∀ kv ∈ r, ∀ t, kv.2 = JVal.num t → (pnum t).isSome = true

theorem jrecGet_mem (r : JRec) (k : Bytes) (j : JVal) (h : jrecGet r k = some j) : (k, j) ∈ r := by
  unfold jrecGet at h
  cases hf : List.find? (fun x => x.1 == k) r.reverse with
  | none => simp [hf] at h
  | some x =>
    rw [hf] at h
    simp only [Option.map_some, Option.some.injEq] at h
    have hm := List.mem_of_find?_eq_some hf
    have hk := List.find?_some hf
    simp only [beq_iff_eq] at hk
    rw [← hk, ← h]
    exact List.mem_reverse.1 hm

theorem pushCell_spec (pnum : Bytes → Option UInt64) (e : JRElem) (k : Bytes) (r : JRec) (c : JCol) (hr : RecOk pnum r)
    (he : e ≠ .int) (hc : JCol.shape c = e) :
    (pushCell e k (decodeRec pnum r) c).map JCol.cells =
      ((jrecGet r k).bind (jsonCell pnum (elemTy e))).map (fun x => JCol.cells c ++ [x]) := by
  unfold pushCell
  rw [get_decodeRec]
  cases hj : jrecGet r k with
  | none => rfl
  | some j =>
    have hnum : ∀ t, j = JVal.num t → (pnum t).isSome = true := fun t ht => hr (k, j) (jrecGet_mem r k j hj) t ht
    cases j with
    | num t =>
      have := hnum t rfl
      cases hp : pnum t with
      | none => simp [hp] at this
      | some f =>
        cases e <;> cases c <;> simp [decodeVal, jsonCell, elemTy, JCol.cells, JCol.shape, hp] at he hc ⊢
    | _ => cases e <;> cases c <;> simp [decodeVal, jsonCell, elemTy, JCol.cells, JCol.shape] at he hc ⊢

theorem fillFrom_spec (pnum : Bytes → Option UInt64) (e : JRElem) (k : Bytes) (he : e ≠ .int) :
    ∀ (rs : List JRec) (c : JCol), (∀ r ∈ rs, RecOk pnum r) → JCol.shape c = e →
    (fillFrom e k (rs.map (decodeRec pnum)) c).map JCol.cells =
        (mapOpt (fun r => (jrecGet r k).bind (jsonCell pnum (elemTy e))) rs).map (fun cs => JCol.cells c ++ cs) ∧
      ∀ c', fillFrom e k (rs.map (decodeRec pnum)) c = some c' → JCol.shape c' = e := by
  intro rs
  induction rs with
  | nil => intro c _ hc; simp [fillFrom, mapOpt, hc]
  | cons r rs ih =>
    intro c hr hc
    have hstep := pushCell_spec pnum e k r c (hr r (List.mem_cons_self ..)) he hc
    simp only [List.map_cons, fillFrom, mapOpt]
    cases hp : pushCell e k (decodeRec pnum r) c with
    | none =>
      rw [hp] at hstep
      cases hx : (jrecGet r k).bind (jsonCell pnum (elemTy e)) with
      | none => simp
      | some x => rw [hx] at hstep; simp at hstep
    | some c1 =>
      rw [hp] at hstep
      cases hx : (jrecGet r k).bind (jsonCell pnum (elemTy e)) with
      | none => rw [hx] at hstep; simp at hstep
      | some x =>
        rw [hx] at hstep
        simp only [Option.map_some, Option.some.injEq] at hstep
        have hsh := (pushCell_size e k _ c c1 hp).2
        obtain ⟨h1, h2⟩ := ih c1 (fun r' hr' => hr r' (List.mem_cons_of_mem _ hr')) (hsh.trans hc)
        refine ⟨?_, h2⟩
        simp only []
        rw [h1, hstep]
        cases mapOpt (fun r => (jrecGet r k).bind (jsonCell pnum (elemTy e))) rs <;> simp

/-- **The column of an entry of record 0 is the spec's column.** -/
theorem colOf_spec (pnum : Bytes → Option UInt64) (r0 : JRec) (rs : List JRec) (k : Bytes) (j0 : JVal)
    (hok : ∀ r ∈ r0 :: rs, RecOk pnum r) (h0 : jrecGet r0 k = some j0) :
    (colOf ((r0 :: rs).map (decodeRec pnum)) k (decodeVal pnum j0)).map (JCol.toLCol k) = jsonColumnS pnum (r0 :: rs) k := by
  unfold colOf jsonColumnS
  simp only [h0, Option.bind_some]
  have key : ∀ e : JRElem, e ≠ .int → elemOf (decodeVal pnum j0) = some e → jsonTy j0 = some (elemTy e) →
      ((elemOf (decodeVal pnum j0)).bind (fun e => fillM e k ((r0 :: rs).map (decodeRec pnum)))).map (JCol.toLCol k) =
        match jsonTy j0 with
        | none => none
        | some ty => ((r0 :: rs).mapM (fun r => (jrecGet r k).bind (jsonCell pnum ty))).map
            (fun cs => ({ name := k, ty := ty, cells := cs.toArray } : LCol)) := by
    intro e he h1 h2
    rw [h1, h2]
    simp only [Option.bind_some, mapM_eq_mapOpt]
    obtain ⟨hc, hs⟩ := fillFrom_spec pnum e k he (r0 :: rs) (JCol.empty e) hok (empty_shape e)
    unfold fillM
    cases hf : fillFrom e k ((r0 :: rs).map (decodeRec pnum)) (JCol.empty e) with
    | none =>
      rw [hf] at hc
      cases hm : mapOpt (fun r => (jrecGet r k).bind (jsonCell pnum (elemTy e))) (r0 :: rs) with
      | none => rfl
      | some cs => rw [hm] at hc; simp at hc
    | some c' =>
      rw [hf] at hc
      cases hm : mapOpt (fun r => (jrecGet r k).bind (jsonCell pnum (elemTy e))) (r0 :: rs) with
      | none => rw [hm] at hc; simp at hc
      | some cs =>
        rw [hm] at hc
        have hce : JCol.cells c' = cs := by
          cases e <;> simpa [JCol.empty, JCol.cells] using hc
        simp [JCol.toLCol, hs c' hf, hce]
  cases j0 with
  | null => exact key .strptr (by decide) rfl rfl
  | bool b => exact key .bool (by decide) rfl rfl
  | num t => exact key .float64 (by decide) rfl rfl
  | str s => exact key .strptr (by decide) rfl rfl
  | arr l => simp [decodeVal, elemOf, jsonTy]
  | obj l => simp [decodeVal, elemOf, jsonTy]

/-! ## The result map and the iteration order -/

/-- both an error, or the same elements in some order -/
inductive SameOpt {α : Type} : Option (List α) → Option (List α) → Prop where
  | err : SameOpt none none
  | ok {a b : List α} (h : a.Perm b) : SameOpt (some a) (some b)

theorem SameOpt.refl {α : Type} (x : Option (List α)) : SameOpt x x := by
  cases x with
  | none => exact .err
  | some a => exact .ok (List.Perm.refl a)

theorem SameOpt.trans {α : Type} {x y z : Option (List α)} (h1 : SameOpt x y) (h2 : SameOpt y z) : SameOpt x z := by
  cases h1 with
  | err => exact h2
  | ok h => cases h2 with | ok h' => exact .ok (h.trans h')

theorem SameOpt.symm {α : Type} {x y : Option (List α)} (h : SameOpt x y) : SameOpt y x := by
  cases h with
  | err => exact .err
  | ok h => exact .ok h.symm

theorem SameOpt.cons {α : Type} (b : α) {x y : Option (List α)} (h : SameOpt x y) :
    SameOpt (x.map (b :: ·)) (y.map (b :: ·)) := by
  cases h with
  | err => exact .err
  | ok h => exact .ok (h.cons b)

theorem mapOpt_perm {α β : Type} (f : α → Option β) {l l' : List α} (h : l.Perm l') : SameOpt (mapOpt f l) (mapOpt f l') := by
  induction h with
  | nil => exact .refl _
  | cons x _ ih =>
    simp only [mapOpt]
    cases f x with
    | none => exact .err
    | some b => exact ih.cons b
  | swap x y l =>
    simp only [mapOpt]
    cases f x <;> cases f y <;> cases mapOpt f l <;> first | exact .err | exact .ok (List.Perm.swap ..)
  | trans _ _ ih1 ih2 => exact ih1.trans ih2

theorem mapOpt_congr {α β : Type} (f g : α → Option β) (l : List α) (h : ∀ a ∈ l, f a = g a) : mapOpt f l = mapOpt g l := by
  induction l with
  | nil => rfl
  | cons a l ih =>
    simp only [mapOpt]
    rw [h a (List.mem_cons_self ..), ih (fun b hb => h b (List.mem_cons_of_mem _ hb))]

theorem mapOpt_map {α β γ : Type} (f : α → Option β) (g : β → γ) (l : List α) :
    (mapOpt f l).map (List.map g) = mapOpt (fun a => (f a).map g) l := by
  induction l with
  | nil => rfl
  | cons a l ih =>
    simp only [mapOpt]
    cases f a with
    | none => rfl
    | some b =>
      simp only [Option.map_some]
      rw [← ih]
      cases mapOpt f l <;> rfl

theorem mapOpt_comp {α β γ : Type} (f : β → Option γ) (h : α → β) (l : List α) :
    mapOpt f (l.map h) = mapOpt (fun a => f (h a)) l := by
  induction l with
  | nil => rfl
  | cons a l ih => simp only [List.map_cons, mapOpt, ih]

theorem SameOpt.map {α β : Type} (g : α → β) {x y : Option (List α)} (h : SameOpt x y) :
    SameOpt (x.map (List.map g)) (y.map (List.map g)) := by
  cases h with
  | err => exact .err
  | ok h => exact .ok (h.map g)

theorem jdataInsert_new (acc : JData) (k : Bytes) (c : JCol) (h : k ∉ acc.map (·.1)) : jdataInsert acc k c = acc ++ [(k, c)] := by
  induction acc with
  | nil => rfl
  | cons e rest ih =>
    simp only [List.map_cons, List.mem_cons, not_or] at h
    have hne : ¬ e.1 = k := fun he => h.1 he.symm
    simp [jdataInsert, hne, ih h.2]

/-- with distinct keys the loop over the entries just appends the columns -/
theorem dataFrom_eq (recs : List GoMap) : ∀ (es : List (Bytes × GV)) (acc : JData), (acc.map (·.1) ++ es.map (·.1)).Nodup →
    dataFrom recs es acc = (mapOpt (fun e => (colOf recs e.1 e.2).map (fun c => (e.1, c))) es).map (acc ++ ·) := by
  intro es
  induction es with
  | nil => intro acc _; simp [dataFrom, mapOpt]
  | cons e es ih =>
    intro acc hnd
    simp only [dataFrom, mapOpt]
    cases hc : colOf recs e.1 e.2 with
    | none => rfl
    | some c =>
      have hk : e.1 ∉ acc.map (·.1) := by
        intro hm
        have := (List.nodup_append.1 hnd).2.2 e.1 hm e.1 (by simp)
        exact this rfl
      simp only [Option.map_some]
      rw [jdataInsert_new acc e.1 c hk, ih]
      · cases mapOpt (fun e => (colOf recs e.1 e.2).map (fun c => (e.1, c))) es <;> simp
      · have : (List.map (fun x => x.1) (acc ++ [(e.1, c)]) ++ List.map (fun x => x.1) es) =
            (List.map (fun x => x.1) acc ++ List.map (fun x => x.1) (e :: es)) := by simp
        rw [this]; exact hnd

/-- an entry of the decoded record 0 is a member of record 0, decoded -/
theorem entry_of_decoded (pnum : Bytes → Option UInt64) (r0 : JRec) (e : Bytes × GV) (he : e ∈ decodeRec pnum r0) :
    ∃ j0, jrecGet r0 e.1 = some j0 ∧ e.2 = decodeVal pnum j0 := by
  have h1 := get_of_mem _ (nodup_decodeRec pnum r0) e he
  rw [get_decodeRec] at h1
  cases hj : jrecGet r0 e.1 with
  | none => rw [hj] at h1; simp at h1
  | some j0 =>
    rw [hj] at h1
    simp only [Option.map_some, Option.some.injEq] at h1
    exact ⟨j0, rfl, h1.symm⟩

/-- **`toDataM` on decoded records against the spec**, for every iteration order. -/
theorem toDataM_spec (pnum : Bytes → Option UInt64) (iter : GoMap → GoMap) (hiter : ∀ m, (iter m).Perm m)
    (recs : List JRec) (hok : ∀ r ∈ recs, RecOk pnum r) :
    SameOpt ((toDataM iter (recs.map (decodeRec pnum))).map dataView) (jsonDataS pnum recs) := by
  cases recs with
  | nil => exact .ok (List.Perm.refl _)
  | cons r0 rs =>
    simp only [toDataM, List.map_cons, jsonDataS]
    have hp := hiter (decodeRec pnum r0)
    have hnd : (List.map (fun x => x.1) ([] : JData) ++ List.map (fun x => x.1) (iter (decodeRec pnum r0))).Nodup := by
      simp only [List.map_nil, List.nil_append]
      exact ((hp.map (fun x : Bytes × GV => x.1)).nodup_iff).2 (nodup_decodeRec pnum r0)
    have e0 : (decodeRec pnum r0 :: rs.map (decodeRec pnum)) = (r0 :: rs).map (decodeRec pnum) := rfl
    rw [e0, dataFrom_eq _ _ [] hnd]
    have hview : ∀ es : List (Bytes × GV), (∀ e ∈ es, e ∈ decodeRec pnum r0) →
        ((mapOpt (fun e => (colOf ((r0 :: rs).map (decodeRec pnum)) e.1 e.2).map (fun c => (e.1, c))) es).map
          (fun x => [] ++ x)).map dataView = mapOpt (fun e => jsonColumnS pnum (r0 :: rs) e.1) es := by
      intro es hes
      have : ∀ x : Option JData, (x.map (fun x => [] ++ x)).map dataView = x.map (List.map (fun p => JCol.toLCol p.1 p.2)) := by
        intro x; cases x <;> simp [dataView]
      rw [this, mapOpt_map]
      apply mapOpt_congr
      intro e he
      obtain ⟨j0, hj, hv⟩ := entry_of_decoded pnum r0 e (hes e he)
      rw [← colOf_spec pnum r0 rs e.1 j0 hok hj, hv]
      cases colOf ((r0 :: rs).map (decodeRec pnum)) e.1 (decodeVal pnum j0) <;> rfl
    rw [hview _ (fun e he => hp.mem_iff.1 he)]
    have h2 := mapOpt_perm (fun e : Bytes × GV => jsonColumnS pnum (r0 :: rs) e.1) hp
    have h3 : mapOpt (fun e : Bytes × GV => jsonColumnS pnum (r0 :: rs) e.1) (decodeRec pnum r0) =
        (jrecKeys r0).mapM (jsonColumnS pnum (r0 :: rs)) := by
      rw [mapM_eq_mapOpt, ← keysOf_decodeRec pnum r0, keysOf, mapOpt_comp]
    rw [h3] at h2
    exact h2

theorem toDataM_spec_ordered (pnum : Bytes → Option UInt64) (recs : List JRec) (hok : ∀ r ∈ recs, RecOk pnum r) :
    (toDataM id (recs.map (decodeRec pnum))).map dataView = jsonDataS pnum recs := by
  cases recs with
  | nil => rfl
  | cons r0 rs =>
    simp only [toDataM, List.map_cons, jsonDataS, id]
    have hnd : (List.map (fun x => x.1) ([] : JData) ++ List.map (fun x => x.1) (decodeRec pnum r0)).Nodup := by
      simp only [List.map_nil, List.nil_append]
      exact nodup_decodeRec pnum r0
    have e0 : (decodeRec pnum r0 :: rs.map (decodeRec pnum)) = (r0 :: rs).map (decodeRec pnum) := rfl
    rw [e0, dataFrom_eq _ _ [] hnd]
    have : ∀ x : Option JData, (x.map (fun x => [] ++ x)).map dataView = x.map (List.map (fun p => JCol.toLCol p.1 p.2)) := by
      intro x; cases x <;> simp [dataView]
    rw [this, mapOpt_map, mapM_eq_mapOpt, ← keysOf_decodeRec pnum r0, keysOf, mapOpt_comp]
    apply mapOpt_congr
    intro e he
    obtain ⟨j0, hj, hv⟩ := entry_of_decoded pnum r0 e he
    rw [← colOf_spec pnum r0 rs e.1 j0 hok hj, hv]
    cases colOf ((r0 :: rs).map (decodeRec pnum)) e.1 (decodeVal pnum j0) <;> rfl

/-- **`jsonRecordsToData` of today's source against the spec.** For every list of JSON records (the member lists of the
objects, values = the spec's `JVal`) whose numbers are float64s, decoded as `encoding/json` does, and EVERY order in which
`range` may deliver the entries of record 0: the function has a meaning; it returns an error exactly when `jsonDataS` is
an error (a record lacks a member of record 0; a later record holds a value of another type; record 0 holds an array or an
object), and otherwise a map whose columns are exactly the spec's columns (in the order of the iteration). -/
theorem gen_readjson_semantics (pnum : Bytes → Option UInt64) (iter : GoMap → GoMap) (hiter : ∀ m, (iter m).Perm m)
    (recs : List JRec) (hok : ∀ r ∈ recs, RecOk pnum r) :
    ∃ r, genToData iter (recs.map (decodeRec pnum)) = some r ∧ SameOpt (r.map dataView) (jsonDataS pnum recs) :=
  ⟨_, gen_toData_semantics iter _, toDataM_spec pnum iter hiter recs hok⟩

/-- … and when `range` follows the order of record 0, the columns come in the spec's order. -/
theorem gen_readjson_semantics_ordered (pnum : Bytes → Option UInt64) (recs : List JRec) (hok : ∀ r ∈ recs, RecOk pnum r) :
    (genToData id (recs.map (decodeRec pnum))).map (fun r => r.map dataView) = some (jsonDataS pnum recs) := by
  rw [gen_toData_semantics, Option.map_some, toDataM_spec_ordered pnum recs hok]

/-! ## The order of the names: `New` sorts them, so the iteration order does not show in the frame -/

theorem u8_lt_iff (x y : UInt8) : x < y ↔ x.toNat < y.toNat := UInt8.lt_iff_toNat_lt
theorem u8_eq_iff (x y : UInt8) : x = y ↔ x.toNat = y.toNat := UInt8.toNat_inj.symm

theorem bytesCmp_swap : ∀ a b : Bytes, (bytesCmp a b = .gt → bytesCmp b a = .lt) ∧ (bytesCmp a b = .lt → bytesCmp b a = .gt) ∧
    (bytesCmp a b = .eq → a = b) := by
  intro a
  induction a with
  | nil => intro b; cases b <;> simp [bytesCmp]
  | cons x xs ih =>
    intro b
    cases b with
    | nil => simp [bytesCmp]
    | cons y ys =>
      simp only [bytesCmp, gt_iff_lt]
      by_cases h1 : x < y
      · have h2 : ¬ y < x := by rw [u8_lt_iff] at *; omega
        simp [h1, h2]
      · by_cases h2 : y < x
        · simp [h1, h2]
        · have : x = y := by rw [u8_lt_iff] at h1 h2; rw [u8_eq_iff]; omega
          subst this
          simp only [h1, if_false]
          obtain ⟨i1, i2, i3⟩ := ih ys
          exact ⟨i1, i2, fun h => by rw [i3 h]⟩

theorem bytesLe_total (a b : Bytes) (h : bytesLe a b = false) : bytesLe b a = true := by
  unfold bytesLe at *
  cases hc : bytesCmp a b with
  | gt => rw [(bytesCmp_swap a b).1 hc]; rfl
  | lt => simp [hc] at h
  | eq => simp [hc] at h

theorem bytesLe_antisymm (a b : Bytes) (h1 : bytesLe a b = true) (h2 : bytesLe b a = true) : a = b := by
  unfold bytesLe at *
  cases hc : bytesCmp a b with
  | gt => simp [hc] at h1
  | lt => rw [(bytesCmp_swap a b).2.1 hc] at h2; simp at h2
  | eq => exact (bytesCmp_swap a b).2.2 hc

theorem bytesLe_trans : ∀ a b c : Bytes, bytesLe a b = true → bytesLe b c = true → bytesLe a c = true := by
  intro a
  induction a with
  | nil => intro b c _ _; cases c <;> simp [bytesLe, bytesCmp]
  | cons x xs ih =>
    intro b c h1 h2
    cases b with
    | nil => simp [bytesLe, bytesCmp] at h1
    | cons y ys =>
      cases c with
      | nil => simp [bytesLe, bytesCmp] at h2
      | cons z zs =>
        simp only [bytesLe, bytesCmp, gt_iff_lt] at h1 h2 ⊢
        by_cases hxy : x < y
        · by_cases hyz : y < z
          · have : x < z := by rw [u8_lt_iff] at *; omega
            simp [this]
          · by_cases hzy : z < y
            · simp [hyz, hzy] at h2
            · have : y = z := by rw [u8_lt_iff] at hyz hzy; rw [u8_eq_iff]; omega
              subst this
              simp [hxy]
        · by_cases hyx : y < x
          · simp [hxy, hyx] at h1
          · have : x = y := by rw [u8_lt_iff] at hxy hyx; rw [u8_eq_iff]; omega
            subst this
            simp only [hxy, if_false] at h1
            by_cases hyz : x < z
            · simp [hyz]
            · by_cases hzy : z < x
              · simp [hyz, hzy] at h2
              · simp only [hyz, hzy, if_false] at h2 ⊢
                exact ih ys zs h1 h2

def Sorted (l : List Bytes) : Prop := l.Pairwise (fun a b => bytesLe a b = true)

theorem insertSorted_mem' (x n : Bytes) (l : List Bytes) : n ∈ insertSorted x l ↔ n = x ∨ n ∈ l := by
  induction l with
  | nil => simp [insertSorted]
  | cons y ys ih =>
    unfold insertSorted
    by_cases h : bytesLe x y = true
    · simp [h]
    · rw [if_neg h]
      simp only [List.mem_cons, ih]
      constructor
      · rintro (h | h | h)
        · exact Or.inr (Or.inl h)
        · exact Or.inl h
        · exact Or.inr (Or.inr h)
      · rintro (h | h | h)
        · exact Or.inr (Or.inl h)
        · exact Or.inl h
        · exact Or.inr (Or.inr h)

theorem insertSorted_sorted (x : Bytes) (l : List Bytes) (h : Sorted l) : Sorted (insertSorted x l) := by
  induction l with
  | nil => simp [insertSorted, Sorted]
  | cons y ys ih =>
    unfold insertSorted
    have hy := List.pairwise_cons.1 h
    by_cases hle : bytesLe x y = true
    · simp only [hle, if_true]
      refine List.pairwise_cons.2 ⟨?_, h⟩
      intro z hz
      rcases List.mem_cons.1 hz with rfl | hz
      · exact hle
      · exact bytesLe_trans x y z hle (hy.1 z hz)
    · simp only [hle]
      refine List.pairwise_cons.2 ⟨?_, ih hy.2⟩
      intro z hz
      rcases (insertSorted_mem' x z ys).1 hz with rfl | hz
      · exact bytesLe_total _ _ (by simpa using hle)
      · exact hy.1 z hz

theorem sortNames_sorted (l : List Bytes) : Sorted (sortNames l) := by
  induction l with
  | nil => simp [sortNames, Sorted]
  | cons x xs ih => exact insertSorted_sorted x _ ih

theorem insertSorted_perm (x : Bytes) (l : List Bytes) : (insertSorted x l).Perm (x :: l) := by
  induction l with
  | nil => simp [insertSorted]
  | cons y ys ih =>
    unfold insertSorted
    by_cases h : bytesLe x y = true
    · simp [h]
    · simp only [h]
      exact (ih.cons y).trans (List.Perm.swap x y ys)

theorem sortNames_perm_self (l : List Bytes) : (sortNames l).Perm l := by
  induction l with
  | nil => simp [sortNames]
  | cons x xs ih => exact (insertSorted_perm x _).trans (ih.cons x)

/-- two sorted lists with the same elements are equal -/
theorem sorted_perm_eq : ∀ (l l' : List Bytes), l.Perm l' → Sorted l → Sorted l' → l = l' := by
  intro l
  induction l with
  | nil => intro l' hp _ _; exact (List.Perm.nil_eq hp)
  | cons a t ih =>
    intro l' hp hs hs'
    cases l' with
    | nil => exact absurd hp.symm (by simp)
    | cons b t' =>
      have ha := List.pairwise_cons.1 hs
      have hb := List.pairwise_cons.1 hs'
      have hab : a = b := by
        have h1 : b ∈ a :: t := hp.mem_iff.2 (List.mem_cons_self ..)
        have h2 : a ∈ b :: t' := hp.mem_iff.1 (List.mem_cons_self ..)
        rcases List.mem_cons.1 h1 with h | h
        · exact h.symm
        · rcases List.mem_cons.1 h2 with h' | h'
          · exact h'
          · exact bytesLe_antisymm a b (ha.1 b h) (hb.1 a h')
      subst hab
      rw [ih t' (List.Perm.cons_inv hp) ha.2 hb.2]

theorem sortNames_perm (l l' : List Bytes) (h : l.Perm l') : sortNames l = sortNames l' :=
  sorted_perm_eq _ _ ((sortNames_perm_self l).trans (h.trans (sortNames_perm_self l').symm)) (sortNames_sorted l)
    (sortNames_sorted l')

/-- looking a column up by name does not depend on the order when the names are distinct -/
theorem find_perm {α : Type} (name : α → Bytes) {l l' : List α} (h : l.Perm l') (hn : (l.map name).Nodup) (n : Bytes) :
    l.find? (fun c => name c == n) = l'.find? (fun c => name c == n) := by
  induction h with
  | nil => rfl
  | cons x _ ih =>
    simp only [List.map_cons, List.nodup_cons] at hn
    simp only [List.find?_cons, ih hn.2]
  | swap x y l =>
    simp only [List.map_cons, List.nodup_cons, List.mem_cons, not_or] at hn
    simp only [List.find?_cons]
    by_cases hx : name x = n <;> by_cases hy : name y = n
    · exact absurd (hy.trans hx.symm) hn.1.1
    · have hx' : (name x == n) = true := by simp [hx]
      have hy' : (name y == n) = false := by simp [hy]
      simp [hx', hy']
    · have hx' : (name x == n) = false := by simp [hx]
      have hy' : (name y == n) = true := by simp [hy]
      simp [hx', hy']
    · have hx' : (name x == n) = false := by simp [hx]
      have hy' : (name y == n) = false := by simp [hy]
      simp [hx', hy']
  | trans h1 _ ih1 ih2 => exact (ih1 hn).trans (ih2 (((h1.map name).nodup_iff).1 hn))

/-- **`New` without column order does not depend on the order of the map.** -/
theorem newS_perm {a b : List NewCol} (h : a.Perm b) (hn : (a.map (·.name)).Nodup) (enums : List (Bytes × List Bytes)) :
    newS a [] enums = newS b [] enums := by
  have h1 : a.all (fun c => legalName c.name) = b.all (fun c => legalName c.name) := h.all_eq
  have h2 : sortNames (a.map (·.name)) = sortNames (b.map (·.name)) := sortNames_perm _ _ (h.map _)
  have h3 : a.length = b.length := h.length_eq
  have h4 : ∀ n, a.any (fun c => c.name == n) = b.any (fun c => c.name == n) := fun n => h.any_eq
  have h5 : ∀ n, a.find? (fun c => c.name == n) = b.find? (fun c => c.name == n) := fun n => find_perm (·.name) h hn n
  unfold newS
  simp only [h1, h2, h3, h4, h5]

/-! ## `UnmarshalJSON` and `ReadJSON` -/

/-- `UnmarshalJSON` of today's source on a reader holding the document `doc` -/
def genUnmarshal (pnum : Bytes → Option UInt64) (iter : GoMap → GoMap) (doc : JVal) : Option (Option JData) :=
  match Gen.unmarshalJsonAst.run (δ := JData) (ρ := Unit)
      { dec := decodeDoc pnum doc, toData := genToData iter, unm := none, new := fun _ => (), errFrame := () } .start with
  | some (.data d) => some d
  | _ => none

/-- `New(data)` as the spec has it -/
def newOfData (d : JData) : Res := newS ((dataView d).map LCol.toNewCol) [] []

/-- `ReadJSON` (no configuration functions) of today's source -/
def genReadJson (pnum : Bytes → Option UInt64) (iter : GoMap → GoMap) (doc : JVal) : Option Res :=
  match Gen.readJsonAst.run (δ := JData) (ρ := Res)
      { dec := none, toData := fun _ => none, unm := genUnmarshal pnum iter doc, new := newOfData, errFrame := .err } .start with
  | some (.frame f) => some f
  | _ => none

/-- `UnmarshalJSON` returns the error of `Decode`, else what `jsonRecordsToData` returns for the decoded records. -/
theorem gen_unmarshal_run (pnum : Bytes → Option UInt64) (iter : GoMap → GoMap) (doc : JVal) :
    genUnmarshal pnum iter doc =
      match decodeDoc pnum doc with
      | none => some none
      | some recs => genToData iter recs := by
  unfold genUnmarshal
  rw [gen_readjson_canon.2.2.1]
  cases hd : decodeDoc pnum doc with
  | none => simp [canonUnmarshal, JU.run]
  | some recs =>
    simp only [canonUnmarshal, JU.run]
    cases genToData iter recs <;> rfl

/-- `ReadJSON` returns `QFrame{Err: err}` iff `UnmarshalJSON` fails, else `New(data, confFuncs...)`. -/
theorem gen_readjson_run (pnum : Bytes → Option UInt64) (iter : GoMap → GoMap) (doc : JVal) :
    genReadJson pnum iter doc =
      match genUnmarshal pnum iter doc with
      | none => none
      | some none => some .err
      | some (some d) => some (newOfData d) := by
  unfold genReadJson
  rw [gen_readjson_canon.2.2.2]
  cases hu : genUnmarshal pnum iter doc with
  | none => simp [canonReadJson, JU.run]
  | some r => cases r <;> simp [canonReadJson, JU.run]

theorem numsOkM_recOk (pnum : Bytes → Option UInt64) (r : JRec) (h : jsonNumsOkM pnum r = true) : RecOk pnum r := by
  induction r with
  | nil => intro kv hkv; simp at hkv
  | cons e r ih =>
    obtain ⟨k, v⟩ := e
    simp only [jsonNumsOkM, Bool.and_eq_true] at h
    intro kv hkv t ht
    rcases List.mem_cons.1 hkv with rfl | hm
    · simp only [] at ht
      rw [ht] at h
      simpa [jsonNumsOk] using h.1
    · exact ih h.2 kv hm t ht

theorem records_ok (pnum : Bytes → Option UInt64) (doc : JVal) (recs : List JRec) (h1 : jsonNumsOk pnum doc = true)
    (h2 : jsonRecords doc = some recs) : ∀ r ∈ recs, RecOk pnum r := by
  cases doc with
  | null => simp [jsonRecords] at h2; subst h2; intro r hr; simp at hr
  | arr l =>
    simp only [jsonNumsOk] at h1
    simp only [jsonRecords, mapM_eq_mapOpt] at h2
    induction l generalizing recs with
    | nil => simp [mapOpt] at h2; subst h2; intro r hr; simp at hr
    | cons v vs ih =>
      simp only [jsonNumsOkL, Bool.and_eq_true] at h1
      simp only [mapOpt] at h2
      cases v with
      | obj kvs =>
        simp only [jsonRecordOf] at h2
        cases hm : mapOpt jsonRecordOf vs with
        | none => rw [hm] at h2; simp at h2
        | some rest =>
          rw [hm] at h2
          simp only [Option.map_some, Option.some.injEq] at h2
          subst h2
          intro r hr
          rcases List.mem_cons.1 hr with rfl | hr
          · exact numsOkM_recOk pnum _ (by simpa [jsonNumsOk] using h1.1)
          · exact ih rest h1.2 hm r hr
      | null =>
        simp only [jsonRecordOf] at h2
        cases hm : mapOpt jsonRecordOf vs with
        | none => rw [hm] at h2; simp at h2
        | some rest =>
          rw [hm] at h2
          simp only [Option.map_some, Option.some.injEq] at h2
          subst h2
          intro r hr
          rcases List.mem_cons.1 hr with rfl | hr
          · intro kv hkv; simp at hkv
          · exact ih rest h1.2 hm r hr
      | _ => simp [jsonRecordOf] at h2
  | _ => simp [jsonRecords] at h2

/-- **`UnmarshalJSON` of today's source against the spec**, for EVERY document (any JSON value), every float64 oracle and
every iteration order of `range`: an error exactly when the spec's `jsonDocS` is one, else exactly the spec's columns. -/
theorem gen_unmarshal_semantics (pnum : Bytes → Option UInt64) (iter : GoMap → GoMap) (hiter : ∀ m, (iter m).Perm m)
    (doc : JVal) :
    ∃ r, genUnmarshal pnum iter doc = some r ∧ SameOpt (r.map dataView) (jsonDocS pnum doc) := by
  rw [gen_unmarshal_run]
  unfold decodeDoc jsonDocS
  by_cases hn : jsonNumsOk pnum doc = true
  · simp only [hn, if_true]
    cases hr : jsonRecords doc with
    | none => exact ⟨none, rfl, .err⟩
    | some recs =>
      simp only [Option.map_some, Option.bind_some]
      exact gen_readjson_semantics pnum iter hiter recs (records_ok pnum doc recs hn hr)
  · simp only [hn]
    exact ⟨none, rfl, .err⟩

theorem jsonColumnS_name (pnum : Bytes → Option UInt64) (recs : List JRec) (k : Bytes) (c : LCol)
    (h : jsonColumnS pnum recs k = some c) : c.name = k := by
  unfold jsonColumnS at h
  cases recs with
  | nil => simp at h
  | cons r0 rs =>
    simp only [] at h
    cases ht : (jrecGet r0 k).bind jsonTy with
    | none => rw [ht] at h; simp at h
    | some ty =>
      rw [ht] at h
      simp only [] at h
      cases hm : List.mapM (fun r => (jrecGet r k).bind (jsonCell pnum ty)) (r0 :: rs) with
      | none => rw [hm] at h; simp at h
      | some cs => rw [hm] at h; simp at h; rw [← h]

theorem mapOpt_names {α : Type} (f : Bytes → Option α) (name : α → Bytes) (hf : ∀ k c, f k = some c → name c = k) :
    ∀ (ks : List Bytes) (cs : List α), mapOpt f ks = some cs → cs.map name = ks := by
  intro ks
  induction ks with
  | nil => intro cs h; simp [mapOpt] at h; subst h; rfl
  | cons k ks ih =>
    intro cs h
    simp only [mapOpt] at h
    cases hk : f k with
    | none => rw [hk] at h; simp at h
    | some c =>
      rw [hk] at h
      cases hm : mapOpt f ks with
      | none => rw [hm] at h; simp at h
      | some rest =>
        rw [hm] at h
        simp only [Option.map_some, Option.some.injEq] at h
        subst h
        simp [hf k c hk, ih rest hm]

/-- the names of the spec's columns are distinct -/
theorem jsonDataS_nodup (pnum : Bytes → Option UInt64) (recs : List JRec) (cols : List LCol)
    (h : jsonDataS pnum recs = some cols) : (cols.map (·.name)).Nodup := by
  cases recs with
  | nil => simp [jsonDataS] at h; subst h; simp
  | cons r0 rs =>
    simp only [jsonDataS, mapM_eq_mapOpt] at h
    rw [mapOpt_names _ (·.name) (jsonColumnS_name pnum (r0 :: rs)) _ _ h, ← keysOf_decodeRec pnum r0]
    exact nodup_decodeRec pnum r0

/-- **`ReadJSON` of today's source is the spec's `readJsonS`**, for every document, float64 oracle and iteration order
(`New` taken from the spec: `newS` without column order and enum declarations). -/
theorem gen_readjson_frame (pnum : Bytes → Option UInt64) (iter : GoMap → GoMap) (hiter : ∀ m, (iter m).Perm m)
    (doc : JVal) : genReadJson pnum iter doc = some (readJsonS pnum doc) := by
  obtain ⟨r, hr, hs⟩ := gen_unmarshal_semantics pnum iter hiter doc
  rw [gen_readjson_run, hr]
  unfold readJsonS
  cases hs' : jsonDocS pnum doc with
  | none =>
    rw [hs'] at hs
    cases r with
    | none => rfl
    | some d => cases hs
  | some cols =>
    rw [hs'] at hs
    cases r with
    | none => cases hs
    | some d =>
      cases hs with
      | ok hp =>
        simp only [newOfData]
        have hnd : (cols.map (·.name)).Nodup := by
          unfold jsonDocS at hs'
          by_cases hn : jsonNumsOk pnum doc = true
          · simp only [hn, if_true] at hs'
            cases hrec : jsonRecords doc with
            | none => rw [hrec] at hs'; simp at hs'
            | some recs => rw [hrec] at hs'; exact jsonDataS_nodup pnum recs cols hs'
          · simp [hn] at hs'
        have hnd' : ((List.map LCol.toNewCol (dataView d)).map (·.name)).Nodup := by
          have : (List.map LCol.toNewCol (dataView d)).map (·.name) = (dataView d).map (·.name) := by
            simp [LCol.toNewCol]
          rw [this]
          exact ((hp.map (·.name)).nodup_iff).2 hnd
        rw [newS_perm (hp.map LCol.toNewCol) hnd' []]

/-! ## Witnesses: the statements tell wrong glue apart -/

section Witnesses

private def f1 : UInt64 := 0x3ff0000000000000
private def f2 : UInt64 := 0x4000000000000000
private def pnumW (t : Bytes) : Option UInt64 := if t = [49] then some f1 else if t = [50] then some f2 else none
private def ka : Bytes := [97]
private def sx : Bytes := [120]

/-- what is observed of a column -/
structure ObsCol where
  name : Bytes
  ty : CType
  cells : List Cell
  deriving DecidableEq, Repr

/-- what is observed of a run -/
inductive Obs where
  | noMeaning
  | error
  | cols (l : List ObsCol)
  deriving DecidableEq, Repr

def obsCols : Option (List LCol) → Obs
  | none => .error
  | some l => .cols (l.map (fun c => ⟨c.name, c.ty, c.cells.toList⟩))

/-- `jsonRecordsToData` made of the given terms, on decoded records, `range` in the order of record 0 -/
def runW (fills : List (JRElem × JR)) (toData : JR) (recs : List JRec) : Obs :=
  match ({ fills := fills, toData := toData } : JRProg).run id (recs.map (decodeRec pnumW)) with
  | none => .noMeaning
  | some r => obsCols (r.map dataView)

def specW (recs : List JRec) : Obs := obsCols (jsonDataS pnumW recs)

def withFill (e : JRElem) (t : JR) : List (JRElem × JR) := canonFills.map (fun p => if p.1 = e then (e, t) else p)

/-- the canonical terms agree with the spec on the inputs used below -/
example : runW canonFills canonToData [[(ka, .num [49])], [(ka, .num [50])]] = (specW [[(ka, .num [49])], [(ka, .num [50])]]) ∧
    runW canonFills canonToData [[(ka, .str sx)], []] = (specW [[(ka, .str sx)], []]) ∧
    runW canonFills canonToData [[(ka, .null)], [(ka, .str sx)]] = (specW [[(ka, .null)], [(ka, .str sx)]]) ∧
    runW canonFills canonToData [] = (specW []) ∧
    runW canonFills canonToData [[(ka, .num [49])], [(ka, .str sx)]] = (specW [[(ka, .num [49])], [(ka, .str sx)]]) := by
  decide

/-- `record := records[0]` in place of `records[i]` in `fillFloats`: every row gets the value of record 0 -/
example : runW (withFill .float64 (.rangeCol (.bindRecord (.lit 0) (.lookup (.ifNotOk .retErr (assertStore .float64)))) .retNil))
      canonToData [[(ka, .num [49])], [(ka, .num [50])]] = .cols [⟨ka, .float, [.float f1, .float f1]⟩] ∧
    specW [[(ka, .num [49])], [(ka, .num [50])]] = .cols [⟨ka, .float, [.float f1, .float f2]⟩] := by decide

/-- `fillStrings` without the test of `ok` after the lookup: a missing member becomes a null string; the spec says error -/
example : runW (withFill .strptr (.rangeCol (.bindRecord .loopVar (.lookup strSwitch)) .retNil)) canonToData
      [[(ka, .str sx)], []] = .cols [⟨ka, .string, [.str (some sx), .str none]⟩] ∧
    specW [[(ka, .str sx)], []] = .error := by decide

/-- `fillFloats` that does not return at a wrong type (`if !ok { }`): no meaning (the slot is not written) where the spec
says error -/
example : runW (withFill .float64 (.rangeCol (fetch (.assertTy .float64 (.ifNotOk .done (.store .done)))) .retNil)) canonToData
      [[(ka, .num [49])], [(ka, .str sx)]] = .noMeaning ∧
    specW [[(ka, .num [49])], [(ka, .str sx)]] = .error ∧
    runW canonFills canonToData [[(ka, .num [49])], [(ka, .str sx)]] = .error := by decide

/-- a type switch without `nil` in the string clause: a null in record 0 is the "unknown type" error; the spec has a
string column -/
example : runW canonFills (.newResult (.ifNoRecords .retResult (.bindRecord (.lit 0) (.rangeRecord
      (.caseTy [.int] (column .int) (.caseTy [.float64] (column .float64) (.caseTy [.bool] (column .bool)
        (.caseTy [.string] (column .strptr) .retErr)))) .retResult)))) [[(ka, .null)], [(ka, .str sx)]] = .error ∧
    specW [[(ka, .null)], [(ka, .str sx)]] = .cols [⟨ka, .string, [.str none, .str (some sx)]⟩] := by decide

/-- without `if len(records) == 0 { return result, nil }` the empty document has no meaning (`records[0]` panics) -/
example : runW canonFills (.newResult (.bindRecord (.lit 0) (.rangeRecord typeSwitch .retResult))) [] = .noMeaning ∧
    specW [] = .cols [] := by decide

/-- a column that is not stored in the result (`result[colName] = col` missing) -/
example : runW canonFills (.newResult (.ifNoRecords .retResult (.bindRecord (.lit 0) (.rangeRecord
      (.caseTy [.float64] (.makeCol .float64 (.callFill .float64 .retCallErr .done)) .retErr) .retResult))))
      [[(ka, .num [49])]] = .cols [] ∧
    specW [[(ka, .num [49])]] = .cols [⟨ka, .float, [.float f1]⟩] := by decide

/-- a fill error that is dropped (`if err := fill(…); err != nil { }`) leaves a partly written slice: no meaning -/
example : runW canonFills (.newResult (.ifNoRecords .retResult (.bindRecord (.lit 0) (.rangeRecord
      (.caseTy [.float64] (.makeCol .float64 (.callFill .float64 .done (.setResult .done))) .retErr) .retResult))))
      [[(ka, .num [49])], [(ka, .str sx)]] = .noMeaning := by decide

/-- `UnmarshalJSON` that ignores the error of `Decode`, `ReadJSON` that ignores the error of `UnmarshalJSON`: no meaning
on a failing document, where today's terms return the error -/
example : (JU.decode JU.retToData).run (δ := JData) (ρ := Unit)
      { dec := none, toData := fun _ => some none, unm := none, new := fun _ => (), errFrame := () } .start = none ∧
    (JU.unmarshal JU.retNew).run (δ := JData) (ρ := Bool)
      { dec := none, toData := fun _ => none, unm := some none, new := fun _ => true, errFrame := false } .start = none ∧
    genUnmarshal pnumW id (.num [49]) = some none ∧
    genUnmarshal pnumW id (.arr [.obj [(ka, .num [51])]]) = some none := by
  refine ⟨rfl, rfl, ?_, ?_⟩ <;> decide

end Witnesses

#print axioms gen_readjson_canon
#print axioms gen_readjson_no_opaque
#print axioms gen_fill_semantics
#print axioms gen_toData_semantics
#print axioms gen_readjson_semantics
#print axioms gen_readjson_semantics_ordered
#print axioms gen_unmarshal_semantics
#print axioms gen_readjson_frame
#print axioms decoded_no_int
#print axioms newS_perm

end QF.Props.C14ReadJsonGen
