import QF.Core.Conc
/-!
# C11 — concurrent use

`interleaving_deterministic`: for any number of threads whose programs write only to
arrays they allocate themselves (`OwnWrites base`, the discipline of C01) and for
**every** schedule `σ`: the shared region is never written, every write event targets a
thread-private array, and each thread is exactly where it would be after the same
number of its own steps run alone — so every operation returns what it returns alone.

Not exhibited by the model: the Go memory model, `unsafe` string views, the runtime's
map implementation. The executable tie is the race-detector run of section `conc`.
-/
namespace QF.Props.C11

theorem interleaving_deterministic {α : Type} (base : Nat) (σ : List Nat) (sh : H.Store)
    (ts : List (H.Thread α)) (h : ∀ t, t ∈ ts → t.prog.OwnWrites base) :
    (H.runSched base σ sh ts).fst = sh ∧
      (∀ (i : Nat) (t : H.Thread α), ts[i]? = some t →
          (H.runSched base σ sh ts).snd.fst[i]? = some (H.alone base sh (H.count i σ) t)) ∧
        ∀ (i : Nat) (id : H.Id), (i, H.Ev.write id) ∈ (H.runSched base σ sh ts).snd.snd → base ≤ id :=
  H.interleaving_deterministic base σ sh ts h

end QF.Props.C11
