import QF.Core.Conc
import QF.Props.C01Ops
/-!
# C11 — concurrent use

`interleaving_deterministic`: for any number of threads whose programs write only to
arrays they allocate themselves (`OwnWrites base`, the discipline of C01) and for
**every** schedule `σ`: the shared region is never written, every write event targets a
thread-private array, and each thread is exactly where it would be after the same
number of its own steps run alone — so every operation returns what it returns alone.

Not exhibited by the model: the Go memory model, `unsafe` string views, the runtime's
map implementation. The executable tie is the race-detector run of section `conc`.
-/
namespace QF.Props.C11

theorem interleaving_deterministic {α : Type} (base : Nat) (σ : List Nat) (sh : H.Store)
    (ts : List (H.Thread α)) (h : ∀ t, t ∈ ts → t.prog.OwnWrites base) :
    (H.runSched base σ sh ts).fst = sh ∧
      (∀ (i : Nat) (t : H.Thread α), ts[i]? = some t →
          (H.runSched base σ sh ts).snd.fst[i]? = some (H.alone base sh (H.count i σ) t)) ∧
        ∀ (i : Nat) (id : H.Id), (i, H.Ev.write id) ∈ (H.runSched base σ sh ts).snd.snd → base ≤ id :=
  H.interleaving_deterministic base σ sh ts h

/-- The same for the operation models of C01 (`Op`: sort, filter, slice, setColumn, copy, apply, distinct, groupBy,
aggregate — each proved to write only arrays it allocates): any multiset of them started together on the same shared
store, under every schedule, leaves the shared store untouched, performs no write to a shared array (no write/write
or read/write conflict is possible, all conflicting accesses need a write to a shared array), and each of them is in
the state it reaches alone after the same number of its own steps. -/
theorem ops_interleaving_deterministic (base : Nat) (σ : List Nat) (sh : H.Store) (ops : List QF.Props.C01.Op) :
    let ts : List (H.Thread Unit) := ops.map (fun op => { prog := op.prog })
    (H.runSched base σ sh ts).fst = sh ∧
      (∀ (i : Nat) (t : H.Thread Unit), ts[i]? = some t →
          (H.runSched base σ sh ts).snd.fst[i]? = some (H.alone base sh (H.count i σ) t)) ∧
        ∀ (i : Nat) (id : H.Id), (i, H.Ev.write id) ∈ (H.runSched base σ sh ts).snd.snd → base ≤ id := by
  intro ts
  apply H.interleaving_deterministic
  intro t ht
  obtain ⟨op, _, rfl⟩ := List.mem_map.mp ht
  exact QF.Props.C01.op_own_writes op base

/-- non-vacuity: two operations of the C01 example history as threads under an alternating schedule -/
example : (H.runSched 4 [0, 1, 0, 1, 1, 0, 0, 1] QF.Props.C01.store1
    ((QF.Props.C01.history1.take 2).map (fun op => ({ prog := op.prog } : H.Thread Unit)))).fst = QF.Props.C01.store1 :=
  (ops_interleaving_deterministic 4 _ _ _).1

end QF.Props.C11
