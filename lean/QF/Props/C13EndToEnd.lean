import QF.Props.C12EndToEnd
import QF.Props.C13WriterGen
import QF.Props.C16LinkFinal
/-!
# C13 — ToCSV ∘ ReadCSV end to end: what today's `ToCSV` writes, read back by today's `ReadCSV`, is the frame

Pieces (proved elsewhere, for the terms regenerated from today's source): `C13WriterGen.gen_tocsv_semantics` (the records
today's `QFrame.ToCSV` hands to the csv writer are `C13Write.tocsvRows` of the selected columns; the cell strings are those of
today's `StringAt`), `C13Write.csvWrite` (byte-exact mirror of `encoding/csv.Writer`), `C12EndToEnd.gen_readcsv_end_to_end`
(today's reader ∘ glue ∘ type conversion ∘ root entry = `readCsvS`, every read schedule), `C16Link.ryu_text_is_shortest`
(the shortest round-trip text parses back to the identical float64). This file adds the spec-level computation that was
missing and chains everything:

* `csvColumn_reread`  — a column of the frame's type, read from its own cell texts with its type (and enum values) declared,
                        is the column again (`rereadCol`: identical ints, bools, strings and enum values; non-NaN floats
                        bit-identical, NaN ↦ the canonical NaN; a null string ↦ `""`, or `""` ↦ null under EmptyNull)
* `csvGlueS_tocsv`, `readCsvS_tocsv` — hence `readCsvS` on the bytes of `tocsv` is the frame of the re-read columns
* `gen_csv_roundtrip_end_to_end` — the statement, for every read schedule with reads ≥ 1, capacity, EOF mode;
  `gen_csv_roundtrip_spec` — … and the frame is the spec's `csvReread` (`specRereadCol_eq`)
* `FloatText`, `floatText_roundTrip`, `ryuText_parses` — the float hypothesis of `RoundTrip` discharged from "the text
  written for a finite float parses back to it (`Num.parsesTo`) and the parser rounds correctly", which holds for the
  shortest round-trip text of C16 (`ryu_text_is_shortest`).

Hypotheses (`RoundTrip`): `Atoi ∘ FormatInt = id`, `ParseBool ∘ FormatBool = id`, `ParseFloat ∘ FormatFloat = id` on
non-NaN floats — the standard library is not modelled; the float one is reduced to correct rounding by `floatText_roundTrip`.
-/
namespace QF.Props.C13EndToEnd
open QF QF.Props.C13Write QF.Props.C12EndToEnd QF.Props.C12GlueGen
set_option linter.unusedSimpArgs false
set_option linter.unusedVariables false

/-- the name under which `ReadCSV`'s `Types` option declares a column type -/
def typeName : CType → String
  | .int => "int" | .float => "float" | .bool => "bool" | .string => "string" | .enum => "enum" | .undef => ""

structure RoundTrip (po : ParseOracle) (fmt : UInt64 → Bytes) : Prop where
  atoi : ∀ v : Int, po.atoi (intStr v) = some v
  ptrue : po.pbool [116, 114, 117, 101] = some true
  pfalse : po.pbool [102, 97, 108, 115, 101] = some false
  fne : ∀ b, F64.isNaN b = false → fmt b ≠ []
  pfloat : ∀ b, F64.isNaN b = false → po.pfloat (fmt b) = some b

/-- the same for one cell: all that the theorems below use of the standard library is parse ∘ format = id on the cells that
are actually written -/
def CellRT (po : ParseOracle) (fmt : UInt64 → Bytes) : Cell → Prop
  | .int v => po.atoi (intStr v) = some v
  | .float b => F64.isNaN b = false → fmt b ≠ [] ∧ po.pfloat (fmt b) = some b
  | .bool b => po.pbool (if b then [116, 114, 117, 101] else [102, 97, 108, 115, 101]) = some b
  | .str _ => True

theorem RoundTrip.cell {po : ParseOracle} {fmt : UInt64 → Bytes} (H : RoundTrip po fmt) : ∀ x, CellRT po fmt x
  | .int v => H.atoi v
  | .float b => fun hn => ⟨H.fne b hn, H.pfloat b hn⟩
  | .bool true => H.ptrue
  | .bool false => H.pfalse
  | .str _ => trivial

instance (po : ParseOracle) (fmt : UInt64 → Bytes) (x : Cell) : Decidable (CellRT po fmt x) := by
  cases x <;> unfold CellRT <;> infer_instance

def rrCell (emptyNull : Bool) : CType → Cell → Cell
  | .float, .float b => if F64.isNaN b then .float F64.canonNaN else .float b
  | .string, .str none => if emptyNull then .str none else .str (some [])
  | .enum, .str none => if emptyNull then .str none else .str (some [])
  | .string, .str (some s) => if s.isEmpty && emptyNull then .str none else .str (some s)
  | .enum, .str (some s) => if s.isEmpty && emptyNull then .str none else .str (some s)
  | _, x => x

def rrCells (n : Nat) (emptyNull : Bool) (c : LCol) : List Cell := (List.range n).map (fun r => rrCell emptyNull c.ty c.cells[r]!)

def rereadCol (n : Nat) (emptyNull : Bool) (c : LCol) : LCol :=
  match c.ty with
  | .enum =>
    match mkEnum c.vals (rrCells n emptyNull c) with
    | some (vals, strict) => { name := c.name, ty := .enum, vals := vals, strict := strict, cells := (rrCells n emptyNull c).toArray }
    | none => c
  | ty => { name := c.name, ty := ty, cells := (rrCells n emptyNull c).toArray }

theorem mapM_map_of {α β γ} (g : β → Option γ) (h : α → β) (rr : α → γ) : ∀ (l : List α),
    (∀ x ∈ l, g (h x) = some (rr x)) → (l.map h).mapM g = some (l.map rr)
  | [], _ => rfl
  | x :: xs, hx => by
    rw [List.map_cons, C12Infer.mapM_cons_opt, hx x (by simp), mapM_map_of g h rr xs (fun y hy => hx y (by simp [hy]))]
    rfl

/-- the cell texts of the first `n` rows of a column -/
def strsOf (fmt : UInt64 → Bytes) (n : Nat) (c : LCol) : List Bytes := (List.range n).map (fun r => cellString fmt c.cells[r]!)

theorem strsOf_eq (fmt : UInt64 → Bytes) (n : Nat) (c : LCol) :
    strsOf fmt n c = ((List.range n).map (fun r => c.cells[r]!)).map (cellString fmt) := by
  simp [strsOf]

theorem rrCells_eq (n : Nat) (emptyNull : Bool) (c : LCol) :
    rrCells n emptyNull c = ((List.range n).map (fun r => c.cells[r]!)).map (rrCell emptyNull c.ty) := by
  simp [rrCells]

theorem typed_mem {n : Nat} {c : LCol} (h : C09Observe.ColTyped n c) :
    ∀ x ∈ (List.range n).map (fun r => c.cells[r]!), wtCell c.ty c.vals x = true := by
  intro x hx
  obtain ⟨r, hr, rfl⟩ := List.mem_map.mp hx
  exact h.2 r (List.mem_range.mp hr)

theorem csvColumn_reread (po : ParseOracle) (fmt : UInt64 → Bytes) (cfg : CsvCfg) (c : LCol) (n : Nat)
    (H : ∀ r, r < n → CellRT po fmt c.cells[r]!)
    (hty : C09Observe.ColTyped n c)
    (htype : (cfg.types.find? (·.1 == c.name)).map (·.2) = some (typeName c.ty))
    (henum : c.ty = .enum → ((cfg.enums.find? (·.1 == c.name)).map (·.2)).getD [] = c.vals ∧ cfg.enums.any (·.1 == c.name) = true)
    (hmk : c.ty = .enum → (mkEnum c.vals (rrCells n cfg.emptyNull c)).isSome = true) :
    csvColumn po cfg c.name (strsOf fmt n c) = (some (rereadCol n cfg.emptyNull c), c.ty == .enum) := by
  have hmem := typed_mem hty
  have hrt : ∀ x ∈ (List.range n).map (fun r => c.cells[r]!), CellRT po fmt x := by
    intro x hx
    obtain ⟨r, hr, rfl⟩ := List.mem_map.mp hx
    exact H r (List.mem_range.mp hr)
  unfold csvColumn
  rw [htype, strsOf_eq]
  generalize hL : (List.range n).map (fun r => c.cells[r]!) = L at hmem hrt
  have hrr : rrCells n cfg.emptyNull c = L.map (rrCell cfg.emptyNull c.ty) := by rw [rrCells_eq, hL]
  have hcty : ∀ x ∈ L, wtCell c.ty c.vals x = true := hmem
  cases hc : c.ty with
  | int =>
    rw [hc] at hmem hrr
    simp only [typeName]
    rw [mapM_map_of _ (cellString fmt) (rrCell cfg.emptyNull .int) L (fun x hx => by
      have := hmem x hx
      have hx' := hrt x hx
      cases x <;> simp [wtCell, cellVal] at this
      simp only [CellRT] at hx'
      simp [cellString, rrCell, hx'])]
    simp [rereadCol, hc, hrr]
  | float =>
    rw [hc] at hmem hrr
    simp only [typeName]
    rw [mapM_map_of _ (cellString fmt) (rrCell cfg.emptyNull .float) L (fun x hx => by
      have := hmem x hx
      have hx' := hrt x hx
      cases x <;> simp [wtCell, cellVal] at this
      rename_i b
      cases hn : F64.isNaN b with
      | true => simp [cellString, rrCell, hn]
      | false =>
        have h1 := (hx' hn).1
        have h2 := (hx' hn).2
        simp [cellString, rrCell, hn, h1, h2])]
    simp [rereadCol, hc, hrr]
  | bool =>
    rw [hc] at hmem hrr
    simp only [typeName]
    rw [mapM_map_of _ (cellString fmt) (rrCell cfg.emptyNull .bool) L (fun x hx => by
      have := hmem x hx
      have hx' := hrt x hx
      cases x <;> simp [wtCell, cellVal] at this
      rename_i b
      simp only [CellRT] at hx'
      cases b <;> simp at hx' <;> simp [cellString, rrCell, hx'])]
    simp [rereadCol, hc, hrr]
  | string =>
    rw [hc] at hmem hrr
    simp only [typeName]
    have : (L.map (cellString fmt)).map (fun c => if c.isEmpty && cfg.emptyNull then Cell.str none else Cell.str (some c)) =
        L.map (rrCell cfg.emptyNull .string) := by
      rw [List.map_map]
      apply List.map_congr_left
      intro x hx
      have := hmem x hx
      cases x <;> simp [wtCell, cellVal] at this
      rename_i s
      cases s with
      | none => cases cfg.emptyNull <;> simp [cellString, rrCell]
      | some s => cases cfg.emptyNull <;> cases s <;> simp [cellString, rrCell]
    rw [this]
    simp [rereadCol, hc, hrr]
  | enum =>
    rw [hc] at hmem hrr
    simp only [typeName]
    have : (L.map (cellString fmt)).map (fun c => if c.isEmpty && cfg.emptyNull then Cell.str none else Cell.str (some c)) =
        L.map (rrCell cfg.emptyNull .enum) := by
      rw [List.map_map]
      apply List.map_congr_left
      intro x hx
      have := hmem x hx
      cases x <;> simp [wtCell, cellVal] at this
      rename_i s
      cases s with
      | none => cases cfg.emptyNull <;> simp [cellString, rrCell]
      | some s => cases cfg.emptyNull <;> cases s <;> simp [cellString, rrCell]
    rw [this, (henum hc).1, (henum hc).2]
    have hm := hmk hc
    rw [hrr] at hm
    cases hme : mkEnum c.vals (L.map (rrCell cfg.emptyNull .enum)) with
    | none => rw [hme] at hm; simp at hm
    | some p =>
      obtain ⟨vals, strict⟩ := p
      simp [rereadCol, hc, hrr, hme]
  | undef =>
    have := hty.1
    rw [hc] at this
    exact absurd this (by decide)

/-! ## the glue of the spec on records of the right width -/

theorem rows_keep (cfg : CsvCfg) (headers : List Bytes) (hig : cfg.ignoreEmpty = false) :
    ∀ (body acc : List (List Bytes)), (∀ r ∈ body, r.length = headers.length) →
      readCsvS.rows cfg headers acc body = some (acc.reverse ++ body)
  | [], acc, _ => by simp [readCsvS.rows]
  | r :: rs, acc, hw => by
    have hr : (r.length != headers.length) = false := by simp [hw r (by simp)]
    rw [readCsvS.rows]
    simp only [hr, hig, Bool.and_false, Bool.false_eq_true, ↓reduceIte]
    rw [rows_keep cfg headers hig rs (r :: acc) (fun x hx => hw x (by simp [hx]))]
    simp

theorem glue_tail (po : ParseOracle) (cfg : CsvCfg) (headers : List Bytes) (body : List (List Bytes)) (K : List (Option LCol × Bool))
    (hig : cfg.ignoreEmpty = false) (hal : cfg.«alias» = []) (hrn : cfg.rename = false)
    (hw : ∀ r ∈ body, r.length = headers.length) (hnd : headers.Nodup)
    (hK : (List.range headers.length).map (fun i => csvColumn po cfg (headers[i]!) (body.map (fun r => r[i]!))) = K)
    (hsome : K.any (fun c => c.1.isNone) = false)
    (hen : cfg.enums.all (fun e => ((List.zip headers K).filterMap (fun (h, c) => if c.2 then some h else none)).contains e.1) = true) :
    (match readCsvS.rows cfg headers [] body with
      | none => none
      | some data =>
        let headers := if cfg.«alias».isEmpty then headers else headers.map (fun h => if h.isEmpty then cfg.«alias» else h)
        let headers := if cfg.rename then renameDup headers else headers
        let cols := (List.range headers.length).map (fun i => csvColumn po cfg (headers[i]!) (data.map (fun r => r[i]!)))
        if cols.any (fun c => c.1.isNone) then none else
        let usedEnums := (List.zip headers cols).filterMap (fun (h, c) => if c.2 then some h else none)
        if !(cfg.enums.all (fun e => usedEnums.contains e.1)) then none else
        if headers.eraseDups.length != headers.length then none else
        some (headers, cols.filterMap (·.1), data.length) : Option (List Bytes × List LCol × Nat)) =
      some (headers, K.filterMap (·.1), body.length) := by
  rw [rows_keep cfg headers hig body [] hw]
  have hed : (headers.eraseDups.length != headers.length) = false := by
    cases h : (headers.eraseDups.length != headers.length) with
    | false => rfl
    | true => exact absurd hnd ((C12GlueGen.eraseDups_ne_iff' headers).mp h)
  simp only [List.reverse_nil, List.nil_append, hal, hrn, List.isEmpty_nil, ↓reduceIte, Bool.false_eq_true, hK, hsome, hen,
    Bool.not_true, hed]

/-! ## reading back the records of a frame -/

/-- the configuration with which the property reads the bytes back: the column types (and the enum values) declared, the
names supplied when no header row was written, `EmptyNull` as chosen; everything else at its default -/
def rereadCfg (cs : List LCol) (hdr emptyNull : Bool) : CsvCfg :=
  { emptyNull := emptyNull, headers := if hdr then [] else cs.map (·.name),
    types := cs.map (fun c => (c.name, typeName c.ty)),
    enums := (cs.filter (fun c => c.ty == .enum)).map (fun c => (c.name, c.vals)) }

theorem find_by_name {β : Type} (g : LCol → β) : ∀ (cs : List LCol), (cs.map (·.name)).Nodup → ∀ c ∈ cs,
    (cs.map (fun c => (c.name, g c))).find? (fun x => x.1 == c.name) = some (c.name, g c)
  | [], _, c, hc => by simp at hc
  | d :: ds, hnd, c, hc => by
    simp only [List.map_cons, List.nodup_cons] at hnd
    simp only [List.map_cons, List.find?_cons]
    by_cases hdc : d.name = c.name
    · have hcd : c = d := by
        rcases List.mem_cons.mp hc with h | h
        · exact h
        · exact absurd (List.mem_map.mpr ⟨c, h, hdc.symm⟩) hnd.1
      subst hcd
      simp
    · have : (d.name == c.name) = false := by simpa using hdc
      simp only [this]
      rcases List.mem_cons.mp hc with h | h
      · exact absurd (by rw [h]) hdc
      · exact find_by_name g ds hnd.2 c h

theorem range_map_eq {α β : Type} (cs : List α) (G : Nat → β) (F : α → β) (h : ∀ i (hi : i < cs.length), G i = F cs[i]) :
    (List.range cs.length).map G = cs.map F := by
  apply List.ext_getElem
  · simp
  · intro i h1 h2
    simp only [List.length_map, List.length_range] at h1
    simp [h i h1]

theorem csvGlueS_tocsv (po : ParseOracle) (fmt : UInt64 → Bytes) (cs : List LCol) (n : Nat) (hdr emptyNull : Bool)
    (H : ∀ c ∈ cs, ∀ r, r < n → CellRT po fmt c.cells[r]!)
    (hne : cs ≠ []) (hnd : (cs.map (·.name)).Nodup) (hty : ∀ c ∈ cs, C09Observe.ColTyped n c)
    (hmk : ∀ c ∈ cs, c.ty = .enum → (mkEnum c.vals (rrCells n emptyNull c)).isSome = true) :
    csvGlueS po (rereadCfg cs hdr emptyNull) (tocsvRows fmt hdr { cols := cs, n := n }) =
      some (cs.map (·.name), cs.map (rereadCol n emptyNull), n) := by
  -- the data records
  have hrows : tocsvRows fmt hdr { cols := cs, n := n } = (if hdr then [cs.map (·.name)] else []) ++
      (List.range n).map (fun r => cs.map (fun c => cellString fmt c.cells[r]!)) := by
    simp [tocsvRows, LFrame.names, LFrame.rows, LFrame.row, List.map_map, Function.comp_def]
  generalize hbody : (List.range n).map (fun r => cs.map (fun c => cellString fmt c.cells[r]!)) = body at hrows
  have hw : ∀ r ∈ body, r.length = (cs.map (·.name)).length := by
    intro r hr
    rw [← hbody] at hr
    obtain ⟨i, _, rfl⟩ := List.mem_map.mp hr
    simp
  have hcol : ∀ i (hi : i < cs.length), body.map (fun r => r[i]!) = strsOf fmt n cs[i] := by
    intro i hi
    rw [← hbody, List.map_map]
    apply List.map_congr_left
    intro r _
    simp [getElem!_pos, hi]
  have hK : (List.range (cs.map (·.name)).length).map (fun i => csvColumn po (rereadCfg cs hdr emptyNull) ((cs.map (·.name))[i]!)
      (body.map (fun r => r[i]!))) = cs.map (fun c => (some (rereadCol n emptyNull c), c.ty == .enum)) := by
    rw [List.length_map]
    apply range_map_eq
    intro i hi
    have hnm : (cs.map (·.name))[i]! = cs[i].name := by simp [getElem!_pos, hi]
    rw [hnm, hcol i hi]
    have hci : cs[i] ∈ cs := List.getElem_mem hi
    refine csvColumn_reread po fmt (rereadCfg cs hdr emptyNull) cs[i] n (H _ hci) (hty _ hci) ?_ ?_ (hmk _ hci)
    · show ((cs.map (fun c => (c.name, typeName c.ty))).find? (fun x => x.1 == cs[i].name)).map (·.2) = _
      rw [find_by_name _ cs hnd _ hci]; rfl
    · intro he
      have hf : cs[i] ∈ cs.filter (fun c => c.ty == .enum) := List.mem_filter.mpr ⟨hci, by simp [he]⟩
      have hnd' : ((cs.filter (fun c => c.ty == .enum)).map (·.name)).Nodup :=
        hnd.sublist ((List.filter_sublist).map _)
      constructor
      · show ((((cs.filter (fun c => c.ty == .enum)).map (fun c => (c.name, c.vals))).find? (fun x => x.1 == cs[i].name)).map (·.2)).getD [] = _
        rw [find_by_name _ _ hnd' _ hf]; rfl
      · show ((cs.filter (fun c => c.ty == .enum)).map (fun c => (c.name, c.vals))).any (fun x => x.1 == cs[i].name) = true
        rw [List.any_eq_true]
        exact ⟨(cs[i].name, cs[i].vals), List.mem_map.mpr ⟨_, hf, rfl⟩, by simp⟩
  have hsome : (cs.map (fun c => ((some (rereadCol n emptyNull c) : Option LCol), c.ty == .enum))).any (fun c => c.1.isNone) = false := by
    simp
  have hen : (rereadCfg cs hdr emptyNull).enums.all (fun e => ((List.zip (cs.map (·.name))
      (cs.map (fun c => ((some (rereadCol n emptyNull c) : Option LCol), c.ty == .enum)))).filterMap
        (fun (h, c) => if c.2 then some h else none)).contains e.1) = true := by
    rw [List.all_eq_true]
    intro e he
    obtain ⟨c, hc, rfl⟩ := List.mem_map.mp (show e ∈ (cs.filter (fun c => c.ty == .enum)).map (fun c => (c.name, c.vals)) from he)
    obtain ⟨hc1, hc2⟩ := List.mem_filter.mp hc
    rw [List.zip_map', List.filterMap_map, List.contains_iff_mem]
    exact List.mem_filterMap.mpr ⟨c, hc1, by simp [Function.comp_def, hc2]⟩
  have key := glue_tail po (rereadCfg cs hdr emptyNull) (cs.map (·.name)) body _ rfl rfl rfl hw hnd hK hsome hen
  have hlen : body.length = n := by rw [← hbody]; simp
  have hfm : (cs.map (fun c => ((some (rereadCol n emptyNull c) : Option LCol), c.ty == .enum))).filterMap (·.1) = cs.map (rereadCol n emptyNull) := by
    simp [List.filterMap_map, Function.comp_def]
  rw [hfm, hlen] at key
  unfold csvGlueS
  rw [hrows]
  cases hdr with
  | true =>
    have : (rereadCfg cs true emptyNull).headers.isEmpty = true := rfl
    simp only [this, ↓reduceIte, List.singleton_append]
    exact key
  | false =>
    have : (rereadCfg cs false emptyNull).headers.isEmpty = false := by
      show (cs.map (·.name)).isEmpty = false
      cases cs with
      | nil => exact absurd rfl hne
      | cons a b => rfl
    simp only [this, Bool.false_eq_true, ↓reduceIte, List.nil_append]
    exact key

/-- **The specification on the bytes of `tocsv`.** For columns `cs` (at least one, distinct legal names, cells of their
types) and `n` rows: `readCsvS`, with the types declared, reads from what `tocsv` writes the frame of the re-read columns. -/
theorem readCsvS_tocsv (po : ParseOracle) (fmt : UInt64 → Bytes) (cs : List LCol) (n : Nat) (hdr emptyNull : Bool)
    (H : ∀ c ∈ cs, ∀ r, r < n → CellRT po fmt c.cells[r]!)
    (hne : cs ≠ []) (hnd : (cs.map (·.name)).Nodup) (hlegal : (cs.map (·.name)).all legalName = true)
    (hty : ∀ c ∈ cs, C09Observe.ColTyped n c)
    (hmk : ∀ c ∈ cs, c.ty = .enum → (mkEnum c.vals (rrCells n emptyNull c)).isSome = true) :
    readCsvS po (rereadCfg cs hdr emptyNull) (tocsv fmt hdr { cols := cs, n := n }) =
      .ok { cols := cs.map (rereadCol n emptyNull), n := n } := by
  rw [readCsvS_eq]
  have hd : (rereadCfg cs hdr emptyNull).delim = 44 := rfl
  rw [hd, tocsv_rows fmt hdr { cols := cs, n := n } hne, csvGlueS_tocsv po fmt cs n hdr emptyNull H hne hnd hty hmk]
  simp only [hlegal, Bool.not_true, Bool.false_eq_true, ↓reduceIte]

/-! ## the bytes of the csv writer are an RFC 4180 document -/

theorem rfcDoc_csvWrite (rows : List (List Bytes)) (h : ∀ r ∈ rows, r ≠ []) (hcr : ∀ r ∈ rows, LastFieldNoCR r) :
    RfcDoc 44 (csvWrite rows) rows := by
  have := RfcDoc.lf (delim := 44) (rows.map (·.map (fun f => (needsQuotes f, f)))) (by
    intro r hr
    obtain ⟨r0, hr0, rfl⟩ := List.mem_map.mp hr
    exact rowOk'_tag (h r0 hr0) (hcr r0 hr0))
  rw [← csvWrite_eq_render, rows_tag_snd] at this
  exact this

/-! ## (c) the statement -/

/-- the columns `csvColumns` selects are columns of the frame -/
theorem csvColumns_mem (f : LFrame) (cols : List Bytes) (cs : List LCol) (h : csvColumns f cols = some cs) : ∀ c ∈ cs, c ∈ f.cols := by
  unfold csvColumns at h
  split at h
  · injection h with h; subst h; exact fun c hc => hc
  · split at h
    · cases h
    · intro c hc
      have := (C12Infer.mapM_eq_some_iff f.find? cols cs).mp h
      obtain ⟨hl, hall⟩ := C12Infer.forall₂_iff_get.mp this
      obtain ⟨i, hi, rfl⟩ := List.getElem_of_mem hc
      exact (C13WriterGen.find_spec f _ _ (hall i (by omega) hi)).1

/-- **(c) ToCSV ∘ ReadCSV, end to end.** For every frame `f` whose cells are of their columns' types and whose column names
are distinct, every column selection `cols` (`Columns(order)`; empty = the frame's order) that `csvColumns` accepts with
columns `cs` — at least one, distinct (a permutation), legal names —, with or without the header row, either `EmptyNull`
setting, every read schedule with reads ≥ 1, every buffer capacity, either EOF mode:

* today's `ToCSV` hands records `recs` to the csv writer, flushes and returns nil, and
* today's `ReadCSV`, given the bytes the writer makes of them (`csvWrite recs`) with the column types and enum values
  declared (`rereadCfg`), returns the frame whose columns are the re-read columns `rereadCol` in the same order, with the
  same number of rows: identical ints, bools, strings and enum values, non-NaN floats bit-identical, NaN ↦ NaN, null strings
  ↦ `""` (all `""` ↦ null under EmptyNull).

Hypotheses besides the quantifier: `H` — the standard library's parse ∘ format = id on the cells that are written (`CellRT`;
implied by `RoundTrip po fmt`: `RoundTrip.cell`; see `floatText_roundTrip` for the float part); `hcr`: no record ends with a field ending in CR (the property excludes CR in strings;
`tocsvRows_lastNoCR` reduces it to the last column); `hmk`: an enum column's values can be declared (`mkEnum`: ≤ 255 values
and, when values are declared, every cell text among them — what `csvRereadOk` of the spec requires). -/
theorem gen_csv_roundtrip_end_to_end (po : ParseOracle) (fmt : UInt64 → Bytes)
    (f : LFrame) (hf : C09Observe.FrameTyped f) (hnd : f.names.Nodup)
    (cols : List Bytes) (cs : List LCol) (hcs : csvColumns f cols = some cs) (hne : cs ≠ [])
    (hnd' : (cs.map (·.name)).Nodup) (hlegal : (cs.map (·.name)).all legalName = true)
    (H : ∀ c ∈ cs, ∀ r, r < f.n → CellRT po fmt c.cells[r]!)
    (hdr emptyNull hintBig : Bool) (cap : Nat) (eofWD : Bool)
    (hcr : ∀ r ∈ tocsvRows fmt hdr { cols := cs, n := f.n }, LastFieldNoCR r)
    (hmk : ∀ c ∈ cs, c.ty = .enum → (mkEnum c.vals (rrCells f.n emptyNull c)).isSome = true)
    (sched : List Nat) (hs : ∀ k ∈ sched, 1 ≤ k) :
    ∃ recs, C13WriterGen.genToCSV fmt f (if cols.isEmpty then none else some cols) hdr C13WriterGen.noFault false =
        some (recs, true, .nil) ∧
      genReadCsvFrame po (rereadCfg cs hdr emptyNull) hintBig cap eofWD (csvWrite recs) sched =
        some (.ok { cols := cs.map (rereadCol f.n emptyNull), n := f.n }) := by
  refine ⟨tocsvRows fmt hdr { cols := cs, n := f.n }, ?_, ?_⟩
  · rw [C13WriterGen.gen_tocsv_semantics fmt f hf hnd cols hdr false, hcs]
    rfl
  · have hdoc := rfcDoc_csvWrite _ (tocsvRows_nonempty fmt hdr { cols := cs, n := f.n } hne) hcr
    rw [gen_readcsv_end_to_end po (rereadCfg cs hdr emptyNull) hintBig cap eofWD (show (44 : UInt8) ≠ 34 ∧ (44 : UInt8) ≠ 10 ∧ (44 : UInt8) ≠ 13 by decide) _ _ hdoc sched hs]
    have hty : ∀ c ∈ cs, C09Observe.ColTyped f.n c := fun c hc => hf c (csvColumns_mem f cols cs hcs c hc)
    exact congrArg some (readCsvS_tocsv po fmt cs f.n hdr emptyNull H hne hnd' hlegal hty hmk)

/-- … and the result does not depend on the fragmentation of the stream. -/
theorem gen_csv_roundtrip_schedule_independent (po : ParseOracle) (cfg : CsvCfg) (hintBig : Bool) (cap1 cap2 : Nat) (e1 e2 : Bool)
    (recs : List (List Bytes)) (h : ∀ r ∈ recs, r ≠ []) (hcr : ∀ r ∈ recs, LastFieldNoCR r) (hd : cfg.delim = 44)
    (s1 s2 : List Nat) (h1 : ∀ k ∈ s1, 1 ≤ k) (h2 : ∀ k ∈ s2, 1 ≤ k) :
    genReadCsvFrame po cfg hintBig cap1 e1 (csvWrite recs) s1 = genReadCsvFrame po cfg hintBig cap2 e2 (csvWrite recs) s2 :=
  gen_readcsv_schedule_independent po cfg hintBig cap1 cap2 e1 e2 (by rw [hd]; decide) _ _ (hd ▸ rfcDoc_csvWrite recs h hcr) s1 s2 h1 h2

/-! ## when the enum values can be declared -/

theorem mkEnum_declared (vals : List Bytes) (cells : List Cell) (h255 : vals.length ≤ 255) (hne : vals ≠ [])
    (hall : ∀ x ∈ cells, match x with | .str (some s) => s ∈ vals | _ => True) : mkEnum vals cells = some (vals, true) := by
  unfold mkEnum
  have h1 : ¬ vals.length > 255 := by omega
  have h2 : (!vals.isEmpty) = true := by cases vals with | nil => exact absurd rfl hne | cons => rfl
  simp only [h1, ↓reduceIte, h2]
  split
  · rfl
  · rename_i hcon
    exfalso
    apply hcon
    rw [List.all_eq_true]
    intro x hx
    have := hall x hx
    cases x with
    | str s => cases s with
      | none => rfl
      | some s => simpa using this
    | _ => rfl

theorem enumRank_mem (vals : List Bytes) (s : Bytes) (i : Nat) (h : enumRank vals s = some i) : s ∈ vals := by
  unfold enumRank at h
  obtain ⟨hi, hp⟩ := List.findIdx?_eq_some_iff_getElem.mp h
  have := hp.1
  simp at this
  rw [← this]
  exact List.getElem_mem hi

/-- the hypothesis `hmk` of the theorems above for an enum column with declared values: at most 255 of them, and — unless
EmptyNull is set — the empty string among them if the column has a null or empty cell (what `csvRereadOk` of the spec asks) -/
theorem enum_declarable (n : Nat) (e : Bool) (c : LCol) (hty : C09Observe.ColTyped n c) (hc : c.ty = .enum)
    (hne : c.vals ≠ []) (h255 : c.vals.length ≤ 255)
    (hnull : e = false → ∀ r, r < n → c.cells[r]! = .str none → [] ∈ c.vals) :
    (mkEnum c.vals (rrCells n e c)).isSome = true := by
  rw [mkEnum_declared c.vals _ h255 hne]; · rfl
  intro x hx
  unfold rrCells at hx
  obtain ⟨r, hr, rfl⟩ := List.mem_map.mp hx
  have hr' := List.mem_range.mp hr
  have hw := hty.2 r hr'
  rw [hc] at hw ⊢
  cases hcell : c.cells[r]! with
  | str s =>
    rw [hcell] at hw
    cases s with
    | none =>
      cases e with
      | true => simp [rrCell]
      | false => simpa [rrCell] using hnull rfl r hr' hcell
    | some s =>
      have hmem : s ∈ c.vals := by
        simp only [wtCell, cellVal] at hw
        cases hrk : enumRank c.vals s with
        | none => rw [hrk] at hw; simp at hw
        | some i => exact enumRank_mem _ _ _ hrk
      by_cases hs : (s.isEmpty && e) = true
      · simp [rrCell, hs]
      · simp [rrCell, hs, hmem]
  | int v => simp [rrCell]
  | float b => simp [rrCell]
  | bool b => simp [rrCell]

/-! ## the frame the spec expects -/

/-- the column `csvReread` (QF/Spec/Render.lean: what the replay driver expects `ReadCSV` to return for the written bytes)
makes of a column of the frame -/
def specRereadCol (emptyNull : Bool) (c : LCol) : LCol :=
  match c.ty with
  | .string => { c with cells := c.cells.map (fun x => match x with
      | .str none => if emptyNull then .str none else .str (some [])
      | .str (some []) => if emptyNull then .str none else .str (some [])
      | y => y) }
  | .enum =>
    let cells := c.cells.map (fun x => match x with
      | .str none => if emptyNull then Cell.str none else .str (some [])
      | .str (some []) => if emptyNull then .str none else .str (some [])
      | y => y)
    if c.vals.isEmpty then
      match mkEnum [] cells.toList with
      | some (vals, _) => { c with cells := cells, vals := vals, strict := false }
      | none => { c with cells := cells }
    else { c with cells := cells, strict := true }
  | .float => { c with cells := c.cells.map (fun x => match x with
      | .float b => if F64.isNaN b then .float F64.canonNaN else .float b
      | y => y) }
  | _ => c

theorem csvReread_eq (f : LFrame) (cols : List Bytes) (emptyNull : Bool) :
    csvReread f cols emptyNull = (csvColumns f cols).map (fun cs => { n := f.n, cols := cs.map (specRereadCol emptyNull) }) := rfl

theorem array_map_range (a : Array Cell) (n : Nat) (h : a.size = n) (g : Cell → Cell) :
    a.map g = ((List.range n).map (fun r => g a[r]!)).toArray := by
  apply Array.ext'
  simp only [Array.toList_map, List.toList_toArray]
  apply List.ext_getElem
  · simp [h]
  · intro i h1 h2
    simp only [List.length_map, Array.length_toList] at h1
    simp [getElem!_pos, h1]

theorem rrCells_toArray_id (n : Nat) (e : Bool) (c : LCol) (h : c.cells.size = n) (hid : ∀ x, rrCell e c.ty x = x) :
    (rrCells n e c).toArray = c.cells := by
  have := array_map_range c.cells n h id
  simp only [id, Array.map_id_fun] at this
  rw [rrCells]
  simp only [hid]
  exact this.symm

/-- **`rereadCol` is what the spec's `csvReread` expects**, for a column with exactly `n` cells that carries a value table
only if it is an enum column (and whose enum values can be declared) -/
theorem specRereadCol_eq (n : Nat) (e : Bool) (c : LCol) (hsz : c.cells.size = n)
    (hplain : c.ty ≠ .enum → c.vals = [] ∧ c.strict = false)
    (hmk : c.ty = .enum → (mkEnum c.vals (rrCells n e c)).isSome = true) :
    specRereadCol e c = rereadCol n e c := by
  obtain ⟨name, ty, vals, strict, cells⟩ := c
  simp only at hsz hplain hmk
  have hstr : ∀ ty', ty' = CType.string ∨ ty' = CType.enum → (fun x : Cell => match x with
      | .str none => if e then Cell.str none else .str (some [])
      | .str (some []) => if e then .str none else .str (some [])
      | y => y) = rrCell e ty' := by
    intro ty' hty'
    funext x
    rcases hty' with rfl | rfl <;> cases x <;> try rfl
    all_goals (rename_i s; cases s with
      | none => rfl
      | some l => cases l <;> cases e <;> simp [rrCell])
  cases ty with
  | int =>
    obtain ⟨rfl, rfl⟩ := hplain (by simp)
    simp only [specRereadCol, rereadCol]
    rw [rrCells_toArray_id n e _ hsz (fun x => by cases x <;> rfl)]
  | bool =>
    obtain ⟨rfl, rfl⟩ := hplain (by simp)
    simp only [specRereadCol, rereadCol]
    rw [rrCells_toArray_id n e _ hsz (fun x => by cases x <;> rfl)]
  | undef =>
    obtain ⟨rfl, rfl⟩ := hplain (by simp)
    simp only [specRereadCol, rereadCol]
    rw [rrCells_toArray_id n e _ hsz (fun x => by cases x <;> rfl)]
  | float =>
    obtain ⟨rfl, rfl⟩ := hplain (by simp)
    simp only [specRereadCol, rereadCol]
    have : (fun x : Cell => match x with
      | .float b => if F64.isNaN b then Cell.float F64.canonNaN else .float b
      | y => y) = rrCell e .float := by
      funext x; cases x <;> rfl
    rw [this, array_map_range cells n hsz]
    rfl
  | string =>
    obtain ⟨rfl, rfl⟩ := hplain (by simp)
    simp only [specRereadCol, rereadCol]
    rw [hstr _ (.inl rfl), array_map_range cells n hsz]
    rfl
  | enum =>
    have hm := hmk rfl
    simp only [specRereadCol, rereadCol]
    rw [hstr _ (.inr rfl), array_map_range cells n hsz]
    have hcells : ((List.range n).map (fun r => rrCell e .enum cells[r]!)) = rrCells n e ⟨name, .enum, vals, strict, cells⟩ := rfl
    simp only [List.toList_toArray, hcells]
    cases hme : mkEnum vals (rrCells n e ⟨name, .enum, vals, strict, cells⟩) with
    | none => rw [hme] at hm; simp at hm
    | some p =>
      obtain ⟨vs, st⟩ := p
      by_cases hv : vals.isEmpty = true
      · have : vals = [] := List.isEmpty_iff.mp hv
        subst this
        have hst : st = false := by
          unfold mkEnum at hme
          simp at hme
          exact hme.2.2
        subst hst
        simp [hme]
      · have hne : vals ≠ [] := fun h => hv (by simp [h])
        have : vs = vals ∧ st = true := by
          unfold mkEnum at hme
          split at hme
          · cases hme
          · have : (!vals.isEmpty) = true := by simpa using hv
            simp only [this, ↓reduceIte] at hme
            split at hme
            · injection hme with hme; injection hme with h1 h2; exact ⟨h1.symm, h2.symm⟩
            · cases hme
        obtain ⟨rfl, rfl⟩ := this
        simp [hv]

/-- **(c) in the words of the spec.** … and that frame is `csvReread f cols emptyNull` — what the replay driver expects
`ReadCSV` to return for the bytes written (QF/Spec/Render.lean) — when every selected column has exactly `f.n` cells and only
enum columns carry a value table. -/
theorem gen_csv_roundtrip_spec (po : ParseOracle) (fmt : UInt64 → Bytes)
    (f : LFrame) (hf : C09Observe.FrameTyped f) (hnd : f.names.Nodup)
    (cols : List Bytes) (cs : List LCol) (hcs : csvColumns f cols = some cs) (hne : cs ≠ [])
    (hnd' : (cs.map (·.name)).Nodup) (hlegal : (cs.map (·.name)).all legalName = true)
    (H : ∀ c ∈ cs, ∀ r, r < f.n → CellRT po fmt c.cells[r]!)
    (hsz : ∀ c ∈ cs, c.cells.size = f.n) (hplain : ∀ c ∈ cs, c.ty ≠ .enum → c.vals = [] ∧ c.strict = false)
    (hdr emptyNull hintBig : Bool) (cap : Nat) (eofWD : Bool)
    (hcr : ∀ r ∈ tocsvRows fmt hdr { cols := cs, n := f.n }, LastFieldNoCR r)
    (hmk : ∀ c ∈ cs, c.ty = .enum → (mkEnum c.vals (rrCells f.n emptyNull c)).isSome = true)
    (sched : List Nat) (hs : ∀ k ∈ sched, 1 ≤ k) :
    ∃ recs g, C13WriterGen.genToCSV fmt f (if cols.isEmpty then none else some cols) hdr C13WriterGen.noFault false =
        some (recs, true, .nil) ∧
      csvReread f cols emptyNull = some g ∧
      genReadCsvFrame po (rereadCfg cs hdr emptyNull) hintBig cap eofWD (csvWrite recs) sched = some (.ok g) := by
  obtain ⟨recs, h1, h2⟩ := gen_csv_roundtrip_end_to_end po fmt f hf hnd cols cs hcs hne hnd' hlegal H hdr emptyNull hintBig cap eofWD
    hcr hmk sched hs
  refine ⟨recs, { n := f.n, cols := cs.map (specRereadCol emptyNull) }, h1, by rw [csvReread_eq, hcs]; rfl, ?_⟩
  rw [h2]
  have : cs.map (specRereadCol emptyNull) = cs.map (rereadCol f.n emptyNull) :=
    List.map_congr_left (fun c hc => specRereadCol_eq f.n emptyNull c (hsz c hc) (hplain c hc) (hmk c hc))
  rw [this]

/-! ## the float hypothesis: shortest round-trip text and a correctly rounding parser -/

/-- What the property needs of `strconv.FormatFloat(·, 'f', -1, 64)` and `strconv.ParseFloat(·, 64)`: a finite float is
written as a positional decimal that denotes it exactly under IEEE nearest-even rounding (`Num.parsesTo`, whose oracle
`Num.ofDecimal` is proved correctly rounded in C16Round); the parser rounds every positional decimal correctly; the
infinities are written as something the parser maps back to them. -/
structure FloatText (fmt : UInt64 → Bytes) (pf : Bytes → Option UInt64) : Prop where
  finite : ∀ b dy, Num.decode b = some dy → Num.parsesTo b (fmt b) = true
  parser : ∀ text neg m d, Num.parsePositional text = some (neg, m, d) → pf text = some (Num.ofDecimal neg m d)
  inf : ∀ b, Num.decode b = none → F64.isNaN b = false → fmt b ≠ [] ∧ pf (fmt b) = some b

/-- `ParseFloat ∘ FormatFloat = id` on every non-NaN float64, from `FloatText` -/
theorem floatText_roundTrip {fmt : UInt64 → Bytes} {pf : Bytes → Option UInt64} (h : FloatText fmt pf) (b : UInt64)
    (hn : F64.isNaN b = false) : fmt b ≠ [] ∧ pf (fmt b) = some b := by
  cases hd : Num.decode b with
  | none => exact h.inf b hd hn
  | some dy =>
    have hp := h.finite b dy hd
    unfold Num.parsesTo at hp
    cases hpp : Num.parsePositional (fmt b) with
    | none => rw [hpp] at hp; simp at hp
    | some t =>
      obtain ⟨neg, m, d⟩ := t
      rw [hpp] at hp
      have hb : Num.ofDecimal neg m d = b := by simpa using hp
      refine ⟨?_, by rw [h.parser _ _ _ _ hpp, hb]⟩
      intro he
      rw [he] at hpp
      simp [Num.parsePositional] at hpp

/-- `RoundTrip` from its integer and bool parts and `FloatText` -/
theorem roundTrip_of_floatText (po : ParseOracle) (fmt : UInt64 → Bytes)
    (hi : ∀ v : Int, po.atoi (intStr v) = some v) (ht : po.pbool [116, 114, 117, 101] = some true)
    (hfa : po.pbool [102, 97, 108, 115, 101] = some false) (hfl : FloatText fmt po.pfloat) : RoundTrip po fmt :=
  ⟨hi, ht, hfa, fun b hn => (floatText_roundTrip hfl b hn).1, fun b hn => (floatText_roundTrip hfl b hn).2⟩

open QF.Props.C16Link QF.Ryu64 QF.Props.C16Core in
/-- the text of C16 for a finite non-zero float64: the sign and the positional layout of the shortest decimal -/
def ryuText (b : UInt64) (neg : Bool) : Bytes :=
  (if neg then [45] else []) ++ positional (decimal (mantOf b) (expOf b)).1 (decimal (mantOf b) (expOf b)).2.1

open QF.Props.C16Link QF.Ryu64 QF.Props.C16Core in
/-- **The shortest round-trip text meets `FloatText.finite`** (`C16Link.ryu_text_is_shortest`): for every finite non-zero
float64 the text the mirror of the Ryu pipeline writes parses back to exactly that float — and is the shortest such. -/
theorem ryuText_parses (b : UInt64) (dy : Num.Dyadic) (hd : Num.decode b = some dy) (h0 : dy.m ≠ 0) :
    Num.parsesTo b (ryuText b dy.neg) = true ∧ Num.isShortestRoundTrip b (ryuText b dy.neg) = true := by
  obtain ⟨text, h1, h2, h3, _⟩ := ryu_text_is_shortest b dy hd h0 ⟨[], []⟩ [] [] []
  rw [ryu_text_eq b dy hd h0 ⟨[], []⟩ [] [] []] at h1
  have : text = ryuText b dy.neg := (List.append_cancel_left h1).symm
  rw [← this]
  exact ⟨h3, h2⟩

/-! ## The hypotheses are satisfiable -/

/-- an int, a float (with a NaN) and a string column (a null, and a cell with comma, quote and line break), three rows -/
def rtFrame : LFrame :=
  { n := 3,
    cols := [ { name := [105], ty := .int, cells := #[.int 1, .int (-20), .int 0] },
              { name := [102], ty := .float, cells := #[.float 0x3FF8000000000000, .float F64.canonNaN, .float 0x3FF8000000000000] },
              { name := [115], ty := .string, cells := #[.str (some [97, 44, 34, 10]), .str none, .str (some [98])] } ] }

/-- a toy standard library that satisfies `RoundTrip`: the formatter writes `1.5` for every float -/
def rtFmt : UInt64 → Bytes := fun _ => [49, 46, 53]
def rtOracle : ParseOracle :=
  { atoi := fun s => if s == [49] then some 1 else if s == [45, 50, 48] then some (-20) else if s == [48] then some 0 else none,
    pfloat := fun s => if s == [49, 46, 53] then some 0x3FF8000000000000 else none,
    pbool := fun s => if s == [116, 114, 117, 101] then some true else if s == [102, 97, 108, 115, 101] then some false else none }

/-- the float part of `RoundTrip` as the theorem uses it on this frame is met; 0.1 through the real pipeline: -/
example : Num.parsesTo 0x3FB999999999999A (ryuText 0x3FB999999999999A false) = true :=
  (ryuText_parses 0x3FB999999999999A ⟨false, 7205759403792794, -56⟩ (by decide) (by decide)).1

example : tocsv rtFmt true rtFrame =
    [105, 44, 102, 44, 115, 10, 49, 44, 49, 46, 53, 44, 34, 97, 44, 34, 34, 10, 34, 10, 45, 50, 48, 44, 44, 10, 48, 44, 49, 46, 53, 44, 98, 10] := by
  decide +kernel

theorem rtFrame_typed : C09Observe.FrameTyped rtFrame := by
  intro c hc
  simp only [rtFrame, List.mem_cons, List.not_mem_nil, or_false] at hc
  rcases hc with rfl | rfl | rfl <;> exact ⟨by decide, by decide⟩

theorem rtFrame_rt : ∀ c ∈ rtFrame.cols, ∀ r, r < rtFrame.n → CellRT rtOracle rtFmt c.cells[r]! := by
  intro c hc
  simp only [rtFrame, List.mem_cons, List.not_mem_nil, or_false] at hc
  rcases hc with rfl | rfl | rfl <;> decide +kernel

/-- the frame, written with its header by today's `ToCSV` and read back two bytes, one byte, three bytes … at a time into a
16-byte buffer with EmptyNull set: the int and float columns come back as they are (the NaN as NaN), the null string as null -/
example : ∃ recs, C13WriterGen.genToCSV rtFmt rtFrame none true C13WriterGen.noFault false = some (recs, true, .nil) ∧
    genReadCsvFrame rtOracle (rereadCfg rtFrame.cols true true) false 16 false (csvWrite recs) [2, 1, 3, 1, 1, 4] =
      some (.ok { cols := rtFrame.cols.map (rereadCol 3 true), n := 3 }) :=
  gen_csv_roundtrip_end_to_end rtOracle rtFmt rtFrame rtFrame_typed (by decide) [] rtFrame.cols rfl (by decide) (by decide) (by decide)
    rtFrame_rt true true false 16 false (by decide) (by decide) [2, 1, 3, 1, 1, 4] (by decide)

example : ∃ recs g, C13WriterGen.genToCSV rtFmt rtFrame none false C13WriterGen.noFault false = some (recs, true, .nil) ∧
    csvReread rtFrame [] false = some g ∧
    genReadCsvFrame rtOracle (rereadCfg rtFrame.cols false false) true 1024 true (csvWrite recs) (List.replicate 60 1) = some (.ok g) :=
  gen_csv_roundtrip_spec rtOracle rtFmt rtFrame rtFrame_typed (by decide) [] rtFrame.cols rfl (by decide) (by decide) (by decide)
    rtFrame_rt (by decide) (by decide) false false true 1024 true (by decide) (by decide) _ (by decide)

example : (rtFrame.cols.map (rereadCol 3 true)).map (·.cells.toList) =
    [[.int 1, .int (-20), .int 0], [.float 0x3FF8000000000000, .float F64.canonNaN, .float 0x3FF8000000000000],
     [.str (some [97, 44, 34, 10]), .str none, .str (some [98])]] := by decide

#print axioms csvColumn_reread
#print axioms csvGlueS_tocsv
#print axioms readCsvS_tocsv
#print axioms rfcDoc_csvWrite
#print axioms gen_csv_roundtrip_end_to_end
#print axioms gen_csv_roundtrip_schedule_independent
#print axioms enum_declarable
#print axioms specRereadCol_eq
#print axioms gen_csv_roundtrip_spec
#print axioms floatText_roundTrip
#print axioms ryuText_parses

end QF.Props.C13EndToEnd
