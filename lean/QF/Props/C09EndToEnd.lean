import QF.Props.C09Equals
import QF.Props.C09ViewsGen
import QF.Props.C09StringGen
import QF.Props.C09TypesGen
import QF.Props.C13WriterGen
import QF.Props.C14WriterGen
import QF.Props.C19SqlWriteGen
import QF.Props.C08Guards
/-!
# C09 end to end — every regenerated observer reports the logical frame (composition of the T1 pieces)

A frame AS STORED (`VFrame`, QF/Core/VwExpr.lean: per column the cells of all physical rows, and one index) has ONE logical
frame `P.logical` (logical cell `i` of a column is `data[index[i]]`). This file composes the per-function theorems about the
code regenerated from today's source into one statement per stored frame:

* `gen_observations_agree`  — `WF P → Observed P`: a field per observer, every one of them reporting `P.logical`:
    - `len`     `QFrame.Len`            (C08Guards.gen_len_semantics)        = `L.n` (−1 on a frame with an error)
    - `names`   `QFrame.ColumnNames`    (C19SqlWriteGen.gen_columnnames_semantics) = `L.names`
    - `types`   `QFrame.ColumnTypes` (C09TypesGen.gen_columntypes_semantics: the loop regenerated from qframe.go, run with
                `Column.DataType()` of today's column packages, `Gen.dataTypeNames`) = the names of `L`'s column types in order
    - `views`   `c.View(index).ItemAt(i)` / `Len()` / `Slice()` of every column (C09ViewsGen.gen_view_semantics)
                = cell `i` / `L.n` / all cells of the column of `L` at the same position
    - `tocsv`   the records `ToCSV` hands to the csv writer (C13WriterGen.gen_tocsv_semantics, with
                C09Observe.gen_stringAt_semantics) = header `L.names`, then per row of `L` the cell strings
    - `tojson`  the text `ToJSON` writes (C14WriterGen.gen_tojson_semantics, with C09Observe.gen_append_semantics) is
                `toJSON fmt L`, which parses to the array of `L`'s records, every value denoting its cell
                (C14ToJson.tojson_denotes)
    - `string`  `String()` (C09StringGen.gen_string_semantics) = the rendering of `stringPieces L`
    - `tosql`   the `Exec` calls of `ToSQL` (C19SqlWriteGen.gen_tosql_semantics with gen_argbuilder_semantics and today's
                views): one per row of `L`, the argument rows are exactly `L.rows`
    - `equals`  `P.Equals(Q)` (C09ViewsGen.gen_frame_equals_semantics) = `equalsS P.logical Q.logical`
* `gen_equal_frames_observe_cellEq`          — two stored frames with `Equals = true`: same `Len`, names, types; the views
    hand out pairwise `cellEq` items; `Equals` against any third frame answers the same (NO further hypothesis)
* `gen_equal_frames_observe_equal_partial`   — … and IDENTICAL results under every observer (`SameObs`), for frames that
    are `BitExact`: no position where one frame holds +0.0 and the other −0.0, or two NaNs of different payloads.
    EXCLUDED exactly these: `Equals` is IEEE equality on floats (−0.0 = +0.0, NaN = NaN), the texts are not
    (`zero_frames_equal_but_print_differently`: Equals = true, ToCSV writes `0` and `-0`).

The full-strength statement asked for,

    theorem gen_equal_frames_observe_equal (P Q) (hP : WF P) (hQ : WF Q)
        (h : genFrameEquals P.logical Q.logical = some true) : SameObs P Q

is FALSE as it stands (the witness above); what is proved is the statement with `BitExact` added, and the `cellEq` form
without it.

Well-formedness `WF` is `C19SqlWriteGen.FrameOK` (every column: one of the five types, all stored cells of the column's
type, the index inside the column — `C09ViewsGen.ColOK`) plus distinct column names (`columnsByName`); the bridge
`WF.typed` turns it into `C09Observe.FrameTyped P.logical`, the hypothesis of the writers' theorems.
-/
namespace QF.Props.C09EndToEnd
open QF
open QF.Props.C03Compare (pkgOf tys)
open QF.Props.C09ViewsGen (ColOK genItemAt genLen genSlice genFrameEquals)
open QF.Props.C13Write (tocsvRows cellString)
open QF.Props.C13WriterGen (genToCSV noFault)
open QF.Props.C14WriterGen (genToJSON)
open QF.Props.C14ToJson (toJSON rowBytes)
open QF.Props.C09StringGen (genString render)
open QF.Props.C19SqlWriteGen (genToSQLToday genColumnNames toSqlGo expected)

/-! ## Well-formed stored frames, and the bridge to `FrameTyped` -/

/-- a well-formed stored frame: every column is of one of the five types, holds cells of its type only, the index stays
inside the columns (`C19SqlWriteGen.FrameOK`), and the column names are distinct -/
structure WF (P : VFrame) : Prop where
  cols : C19SqlWriteGen.FrameOK P
  names : (P.cols.map (·.name)).Nodup

theorem logical_cell (c : VCol) (ix : List Nat) (r : Nat) (hr : r < ix.length) :
    (c.logical ix).cells[r]! = c.data[ix[r]]! := by
  simp [VCol.logical, VCol.pick, hr]

/-- **Bridge**: the logical frame of a well-formed stored frame has cells of its columns' types (`C09Observe.FrameTyped`) -/
theorem WF.typed {P : VFrame} (h : WF P) : C09Observe.FrameTyped P.logical := by
  intro l hl
  simp only [VFrame.logical, List.mem_map] at hl
  obtain ⟨c, hc, rfl⟩ := hl
  have ok := h.cols c hc
  refine ⟨ok.ty, fun r hr => ?_⟩
  have hr' : r < P.index.length := hr
  have hj := ok.index (P.index[r]) (List.getElem_mem hr')
  have hw := ok.cells _ hj
  rw [logical_cell c P.index r hr']
  exact hw

theorem WF.nodup {P : VFrame} (h : WF P) : P.logical.names.Nodup := by
  rw [C19SqlWriteGen.logical_names]; exact h.names

/-! ## The observers -/

/-- the string `DataType()` returns for a column of the type -/
def typeNameS : CType → Bytes
  | .int => [105, 110, 116]
  | .float => [102, 108, 111, 97, 116]
  | .bool => [98, 111, 111, 108]
  | .string => [115, 116, 114, 105, 110, 103]
  | .enum => [101, 110, 117, 109]
  | .undef => []

/-- `c.DataType()` of today's source, per stored column in order -/
def genDataTypes (P : VFrame) : List (Option Bytes) := P.cols.map (fun c => Gen.dataTypeNames.lookup (pkgOf c.ty))

/-- `qf.ColumnTypes()` of today's source (`Gen.columnTypesAst`, the loop of qframe.go) on the stored frame, every column
answering `DataType()` as today's column package does -/
def genTypes (P : VFrame) : Option (List Bytes) := C09TypesGen.genColumnTypes (genDataTypes P)

/-- the column selection the harness passes to `ToCSV` (nil for an empty list) -/
def sel (cols : List Bytes) : Option (List Bytes) := if cols.isEmpty then none else some cols

/-- what the spec says `ToCSV` hands to the csv writer: the selected columns of the frame rendered, or a rejection -/
def csvOut (fmt : UInt64 → Bytes) (f : LFrame) (cols : List Bytes) (hdr ferr : Bool) :
    Option (List (List Bytes) × Bool × CWRet) :=
  match csvColumns f cols with
  | some cs => some (tocsvRows fmt hdr { f with cols := cs }, true, if ferr then .writerErr else .nil)
  | none => some ([], false, .reject)

/-- the `Write` calls of `ToJSON` on the frame, cut at the first failing one -/
def jsonOut (fmt : UInt64 → Bytes) (f : LFrame) (fail : Nat → Bool) : Option (List Bytes × Bool) :=
  some (cutWrites fail 0 ([[91]] ++ (List.range f.n).map (rowBytes fmt f) ++ [[93]]))

/-- **What every regenerated observer reports of the stored frame `P`**: the logical frame `P.logical`. -/
structure Observed (P : VFrame) : Prop where
  /-- `Len()`: the number of rows of the logical frame; −1 on a frame that carries an error -/
  len : ∀ hasErr : Bool, C08Guards.genLen { hasErr := hasErr, rows := P.index.length } =
    some (if hasErr then -1 else (P.logical.n : Int))
  /-- `ColumnNames()`: the names of the logical frame in order -/
  names : genColumnNames (P.cols.map (·.name)) = some P.logical.names
  /-- `ColumnTypes()`: the names of the types of the logical frame's columns in order -/
  types : genTypes P = some (P.logical.cols.map (fun l => typeNameS l.ty))
  /-- the typed view of the column at every position: `ItemAt(r)` is cell `r` of the logical column at that position (no
  value — Go panics — for `r ≥ n`), `Len()` is `n`, `Slice()` all its cells in order -/
  views : ∀ (i : Nat) (c : VCol), P.cols[i]? = some c →
    ∃ l, P.logical.cols[i]? = some l ∧ l.name = c.name ∧ l.ty = c.ty ∧ l.cells.size = P.logical.n ∧
      (∀ r, genItemAt c P.index r = l.cells[r]?) ∧
      genLen c P.index = some P.logical.n ∧
      genSlice c P.index = some l.cells.toList
  /-- `ToCSV`: the records handed to the csv writer are the spec's rendering of the selected columns of the logical frame
  (`tocsvRows`: the names if `hdr`, then `L.rows` with every cell as `cellString`); a selection the spec rejects is rejected
  before any record is written -/
  tocsv : ∀ (fmt : UInt64 → Bytes) (cols : List Bytes) (hdr ferr : Bool),
    genToCSV fmt P.logical (sel cols) hdr noFault ferr = csvOut fmt P.logical cols hdr ferr
  /-- `ToJSON`: `n + 2` `Write` calls whose concatenation is `toJSON fmt L` … -/
  tojson : ∀ fmt : UInt64 → Bytes, ∃ ws, genToJSON fmt P.logical (fun _ => false) = some (ws, false) ∧
    ws.length = P.logical.n + 2 ∧ ws.flatten = toJSON fmt P.logical
  /-- … and that text denotes the logical frame (`C14ToJson.tojson_denotes`): it parses to the array of the records of
  `L`, keys = the (sanitized) names in order, every value denoting its cell — for every float formatter that writes JSON
  number tokens which round back to the float (C16 proves it of the Ryu pipeline) -/
  tojsonDenotes : ∀ fmt : UInt64 → Bytes,
    (∀ b, F64.isNaN b = false → ∀ tl, C14ToJson.numEnd tl = true → Json.parseNum (fmt b ++ tl) = some (fmt b, tl)) →
    (∀ b, F64.isNaN b = false → ∃ neg m d, Num.parseNumber (fmt b) = some (neg, m, d) ∧ Num.ofDecimal neg m d = b) →
    ∃ ws, genToJSON fmt P.logical (fun _ => false) = some (ws, false) ∧
      Json.parse ws.flatten = some (.arr ((List.range P.logical.n).map (fun r =>
        .obj (P.logical.cols.map (fun c => (Json.sanitize c.name, C14ToJson.cellVal fmt c.cells[r]!)))))) ∧
      ∀ c ∈ P.logical.cols, ∀ r, r < P.logical.n → Json.denotes (C14ToJson.cellVal fmt c.cells[r]!) c.cells[r]! = true
  /-- `String()`: the rendering of the spec's `stringPieces L` -/
  string : ∀ fmt : UInt64 → Bytes, genString fmt P.logical = some (render fmt (stringPieces P.logical))
  /-- `ToSQL`: a frame with an error makes no call; otherwise one `Exec` per row of `L`, cut after the first failing one -/
  tosql : ∀ (hasErr : Bool) (cfg : SqlCfg) (efail : Nat → Bool),
    genToSQLToday P hasErr cfg efail = some (expected hasErr efail (toSqlGo cfg P.logical))
  /-- … and the argument rows of these calls are exactly the rows of `L` -/
  tosqlArgs : ∀ cfg : SqlCfg, (toSqlGo cfg P.logical).map (·.2) = P.logical.rows
  /-- `P.Equals(Q)` is `equalsS` of the two logical frames -/
  equals : ∀ Q : VFrame, WF Q → genFrameEquals P.logical Q.logical = some (equalsS P.logical Q.logical)

theorem gen_typenames : ∀ ty ∈ tys, Gen.dataTypeNames.lookup (pkgOf ty) = some (typeNameS ty) := by decide

theorem view_fields (P : VFrame) (h : WF P) (i : Nat) (c : VCol) (hc : P.cols[i]? = some c) :
    ∃ l, P.logical.cols[i]? = some l ∧ l.name = c.name ∧ l.ty = c.ty ∧ l.cells.size = P.logical.n ∧
      (∀ r, genItemAt c P.index r = l.cells[r]?) ∧
      genLen c P.index = some P.logical.n ∧
      genSlice c P.index = some l.cells.toList := by
  have hmem : c ∈ P.cols := List.mem_of_getElem? hc
  obtain ⟨h1, h2, h3⟩ := C09ViewsGen.gen_view_semantics c P.index (h.cols c hmem)
  refine ⟨c.logical P.index, ?_, rfl, rfl, ?_, ?_, h2, ?_⟩
  · simp [VFrame.logical, hc]
  · simp [VCol.logical, VCol.pick, VFrame.logical]
  · intro r; rw [h1 r]; simp [VCol.logical]
  · rw [h3]; simp [VCol.logical]

/-- **All observations agree, end to end.** For EVERY well-formed stored frame `P` — columns of the five types, cells of
their column's type, ANY index into the columns (rows filtered, permuted, repeated), distinct names — each regenerated
observer reports the ONE logical frame `P.logical`: see the fields of `Observed`. -/
theorem gen_observations_agree (P : VFrame) (h : WF P) : Observed P where
  len := fun hasErr => C09ViewsGen.gen_frame_len_semantics P hasErr
  names := by
    rw [C19SqlWriteGen.gen_columnnames_semantics, C19SqlWriteGen.logical_names]
  types := by
    have hd : genDataTypes P = (P.logical.cols.map (fun l => typeNameS l.ty)).map some := by
      simp only [genDataTypes, VFrame.logical, List.map_map]
      apply List.map_congr_left
      intro c hc
      exact gen_typenames c.ty (h.cols c hc).ty
    rw [genTypes, hd, C09TypesGen.gen_columntypes_semantics]
  views := view_fields P h
  tocsv := fun fmt cols hdr ferr => C13WriterGen.gen_tocsv_semantics fmt P.logical h.typed h.nodup cols hdr ferr
  tojson := fun fmt => by
    obtain ⟨ws, h1, h2, h3, _⟩ := C14WriterGen.gen_tojson_semantics fmt P.logical h.typed
    exact ⟨ws, h1, h2, h3⟩
  tojsonDenotes := fun fmt hfmt hround => by
    obtain ⟨ws, h1, _, h3, _⟩ := C14WriterGen.gen_tojson_semantics fmt P.logical h.typed
    refine ⟨ws, h1, ?_⟩
    rw [h3]
    exact C14ToJson.tojson_denotes fmt hfmt hround P.logical
  string := fun fmt => C09StringGen.gen_string_semantics fmt P.logical h.typed
  tosql := fun hasErr cfg efail => C19SqlWriteGen.gen_tosql_semantics P h.cols hasErr cfg efail
  tosqlArgs := fun cfg => by
    simp [toSqlGo, LFrame.rows, List.map_map, Function.comp_def]
  equals := fun Q hQ => C09ViewsGen.gen_frame_equals_semantics P.logical Q.logical h.typed hQ.typed

/-! ## Example: a derived frame (index [2, 0, 2] into three physical rows) meets the hypotheses -/

def exP : VFrame :=
  { cols := [{ name := [97], ty := .int, data := #[.int 10, .int 11, .int 12] },
             { name := [98], ty := .float, data := #[.float 0, .float F64.canonNaN, .float 0x3ff8000000000000] },
             { name := [115], ty := .string, data := #[.str (some [120]), .str none, .str (some [])] },
             { name := [101], ty := .enum, vals := [[120], [121]],
               data := #[.str (some [121]), .str none, .str (some [120])] }],
    index := [2, 0, 2] }

theorem colOK_of_check (c : VCol) (ix : List Nat)
    (h : (decide (c.ty ∈ tys) && (List.range c.data.size).all (fun j => wtCell c.ty c.vals c.data[j]!) &&
      ix.all (fun j => decide (j < c.data.size))) = true) : ColOK c ix := by
  simp only [Bool.and_eq_true, decide_eq_true_eq, List.all_eq_true, List.mem_range] at h
  exact ⟨h.1.1, fun j hj => h.1.2 j hj, fun j hj => h.2 j hj⟩

theorem exP_wf : WF exP := by
  refine ⟨?_, by decide⟩
  intro c hc
  simp only [exP, List.mem_cons, List.not_mem_nil, or_false] at hc
  rcases hc with rfl | rfl | rfl | rfl <;> exact colOK_of_check _ _ (by decide)

/-- the logical frame of the example: rows 2, 0, 2 -/
example : exP.logical.rows =
    [[.int 12, .float 0x3ff8000000000000, .str (some []), .str (some [120])],
     [.int 10, .float 0, .str (some [120]), .str (some [121])],
     [.int 12, .float 0x3ff8000000000000, .str (some []), .str (some [120])]] := by decide

example : Observed exP := gen_observations_agree exP exP_wf

/-! ## Congruence: frames that are `Equal` are observed alike -/

/-- what the observers can see of a column: name, type, cells (not the enum value table, not the strict flag) -/
def normC (c : LCol) : LCol := { name := c.name, ty := c.ty, cells := c.cells }

def normF (f : LFrame) : LFrame := { cols := f.cols.map normC, n := f.n }

/-- no position where the two frames hold floats that are IEEE-equal (or both NaN) with different bits -/
def BitExact (a b : LFrame) : Prop :=
  ∀ (i r : Nat) (x y : UInt64), (a.cols[i]!).cells[r]! = Cell.float x → (b.cols[i]!).cells[r]! = Cell.float y →
    cellEq (Cell.float x) (Cell.float y) = true → x = y

theorem cellEq_eq (x y : Cell) (h : cellEq x y = true)
    (hf : ∀ u v, x = .float u → y = .float v → u = v) : x = y := by
  cases x <;> cases y <;> simp [cellEq] at h
  case int.int => rw [h]
  case float.float u v => rw [hf u v rfl rfl]
  case bool.bool => rw [h]
  case str.str => rw [h]

/-- the two results of an observer are the same: every field an equation between what `P` and what `Q` is seen as -/
structure SameObs (P Q : VFrame) : Prop where
  len : ∀ hasErr : Bool, C08Guards.genLen { hasErr := hasErr, rows := P.index.length } =
    C08Guards.genLen { hasErr := hasErr, rows := Q.index.length }
  names : genColumnNames (P.cols.map (·.name)) = genColumnNames (Q.cols.map (·.name))
  types : genTypes P = genTypes Q
  views : ∀ (i : Nat) (c d : VCol), P.cols[i]? = some c → Q.cols[i]? = some d →
    (∀ r, genItemAt c P.index r = genItemAt d Q.index r) ∧ genLen c P.index = genLen d Q.index ∧
      genSlice c P.index = genSlice d Q.index
  tocsv : ∀ (fmt : UInt64 → Bytes) (cols : List Bytes) (hdr ferr : Bool),
    genToCSV fmt P.logical (sel cols) hdr noFault ferr = genToCSV fmt Q.logical (sel cols) hdr noFault ferr
  tojson : ∀ (fmt : UInt64 → Bytes) (fail : Nat → Bool), genToJSON fmt P.logical fail = genToJSON fmt Q.logical fail
  string : ∀ fmt : UInt64 → Bytes, genString fmt P.logical = genString fmt Q.logical
  tosql : ∀ (hasErr : Bool) (cfg : SqlCfg) (efail : Nat → Bool),
    genToSQLToday P hasErr cfg efail = genToSQLToday Q hasErr cfg efail
  equals : ∀ R : VFrame, WF R → genFrameEquals P.logical R.logical = genFrameEquals Q.logical R.logical

/-! ### the spec-side results depend on names, types and cells only -/

theorem names_norm (f : LFrame) : (normF f).names = f.names := by
  simp [normF, LFrame.names, normC, Function.comp_def]

theorem row_norm (f : LFrame) (r : Nat) : (normF f).row r = f.row r := by
  simp [normF, LFrame.row, normC, Function.comp_def]

theorem rows_norm (f : LFrame) : (normF f).rows = f.rows := by
  show List.map (normF f).row (List.range f.n) = List.map f.row (List.range f.n)
  congr 1
  funext r
  exact row_norm f r

theorem tocsvRows_norm (fmt : UInt64 → Bytes) (hdr : Bool) (cs : List LCol) (n : Nat) :
    tocsvRows fmt hdr { cols := cs.map normC, n := n } = tocsvRows fmt hdr { cols := cs, n := n } := by
  have h1 := names_norm { cols := cs, n := n }
  have h2 := rows_norm { cols := cs, n := n }
  simp only [normF] at h1 h2
  simp only [tocsvRows, h1, h2]

theorem find_norm (f : LFrame) (nm : Bytes) : (normF f).find? nm = (f.find? nm).map normC := by
  simp only [LFrame.find?, normF, List.find?_map]
  rfl

theorem optMap_map {α β γ : Type} (g : α → Option β) (k : β → γ) :
    ∀ l : List α, optMap (fun a => (g a).map k) l = (optMap g l).map (List.map k) := by
  intro l
  induction l with
  | nil => rfl
  | cons a as ih =>
    simp only [optMap, ih]
    cases g a <;> cases optMap g as <;> rfl

theorem csvColumns_norm (f : LFrame) (cols : List Bytes) :
    csvColumns (normF f) cols = (csvColumns f cols).map (List.map normC) := by
  unfold csvColumns
  have hl : (normF f).cols.length = f.cols.length := by simp [normF]
  rw [hl]
  split
  · rfl
  · split
    · rfl
    · rw [← optMap_eq_mapM, ← optMap_eq_mapM]
      have : (normF f).find? = fun nm => (f.find? nm).map normC := funext (find_norm f)
      rw [this, optMap_map]

theorem csvOut_norm (fmt : UInt64 → Bytes) (f : LFrame) (cols : List Bytes) (hdr ferr : Bool) :
    csvOut fmt (normF f) cols hdr ferr = csvOut fmt f cols hdr ferr := by
  unfold csvOut
  rw [csvColumns_norm]
  cases csvColumns f cols with
  | none => rfl
  | some cs =>
    simp only [Option.map_some]
    have := tocsvRows_norm fmt hdr cs f.n
    simp only [normF]
    rw [this]

theorem rowBytes_norm (fmt : UInt64 → Bytes) (f : LFrame) (i : Nat) : rowBytes fmt (normF f) i = rowBytes fmt f i := by
  simp only [rowBytes, normF, List.foldl_map]
  rfl

theorem jsonOut_norm (fmt : UInt64 → Bytes) (f : LFrame) (fail : Nat → Bool) :
    jsonOut fmt (normF f) fail = jsonOut fmt f fail := by
  have : (fun i => rowBytes fmt (normF f) i) = fun i => rowBytes fmt f i := funext (rowBytes_norm fmt f)
  simp only [jsonOut]
  rw [show rowBytes fmt (normF f) = rowBytes fmt f from this]
  rfl

theorem stringPieces_norm (f : LFrame) : stringPieces (normF f) = stringPieces f := by
  simp only [stringPieces, normF, List.map_map, List.zip_map_left, List.length_map]
  rfl

theorem toSqlGo_norm (cfg : SqlCfg) (f : LFrame) : toSqlGo cfg (normF f) = toSqlGo cfg f := by
  simp only [toSqlGo, names_norm, row_norm]
  rfl

/-! ### `Equals = true` and `BitExact` make the visible parts of the logical frames the same -/

theorem logical_size (P : VFrame) (l : LCol) (hl : l ∈ P.logical.cols) : l.cells.size = P.index.length := by
  simp only [VFrame.logical, List.mem_map] at hl
  obtain ⟨c, _, rfl⟩ := hl
  simp [VCol.logical, VCol.pick]

theorem getElem!_eq_of_lt {α : Type} [Inhabited α] (l : List α) (i : Nat) (h : i < l.length) : l[i]! = l[i] := by
  simp [h]

theorem norm_eq_of_equals (P Q : VFrame) (heq : equalsS P.logical Q.logical = true)
    (hbits : BitExact P.logical Q.logical) : normF P.logical = normF Q.logical := by
  obtain ⟨hn, hnames, hcols⟩ := (C10Guards.equalsS_iff _ _).1 heq
  have hl : P.logical.cols.length = Q.logical.cols.length := by
    have := congrArg List.length hnames
    simpa [LFrame.names] using this
  have hcolsEq : P.logical.cols.map normC = Q.logical.cols.map normC := by
    apply List.ext_getElem (by simp [hl])
    intro i h1 h2
    have hi : i < P.logical.cols.length := by simpa using h1
    have hi' : i < Q.logical.cols.length := hl ▸ hi
    simp only [List.getElem_map]
    have hd := hcols i hi
    simp only [C10Guards.colDiffers, Bool.not_eq_false', Bool.and_eq_true, beq_iff_eq, List.all_eq_true,
      List.mem_range] at hd
    have ea := getElem!_eq_of_lt P.logical.cols i hi
    have eb := getElem!_eq_of_lt Q.logical.cols i hi'
    have hname : (P.logical.cols[i]).name = (Q.logical.cols[i]).name := by
      have := congrArg (fun l => l[i]?) hnames
      simpa [LFrame.names, hi, hi'] using this
    have hsa := logical_size P _ (List.getElem_mem hi)
    have hsb := logical_size Q _ (List.getElem_mem hi')
    have hnn : P.index.length = Q.index.length := hn
    have hcells : (P.logical.cols[i]).cells = (Q.logical.cols[i]).cells := by
      apply Array.ext (by rw [hsa, hsb, hnn])
      intro r hr1 hr2
      have hr : r < P.logical.n := by rw [hsa] at hr1; exact hr1
      have hc := hd.2 r hr
      have hx := cellEq_eq _ _ hc (fun u v hu hv => hbits i r u v hu hv (by rw [← hu, ← hv]; exact hc))
      rw [ea, eb] at hx
      have e1 : (P.logical.cols[i]).cells[r]! = (P.logical.cols[i]).cells[r] := by simp [hr1]
      have e2 : (Q.logical.cols[i]).cells[r]! = (Q.logical.cols[i]).cells[r] := by simp [hr2]
      rw [← e1, ← e2]; exact hx
    have hty : (P.logical.cols[i]).ty = (Q.logical.cols[i]).ty := by rw [← ea, ← eb]; exact hd.1
    simp only [normC, hname, hty, hcells]
  simp only [normF, hcolsEq, hn]

theorem norm_col {a b : LFrame} (h : normF a = normF b) (i : Nat) (x y : LCol) (hx : a.cols[i]? = some x)
    (hy : b.cols[i]? = some y) : x.name = y.name ∧ x.ty = y.ty ∧ x.cells = y.cells := by
  have hc : (normF a).cols[i]? = (normF b).cols[i]? := by rw [h]
  simp only [normF, List.getElem?_map, hx, hy, Option.map_some, Option.some.injEq, normC, LCol.mk.injEq] at hc
  exact ⟨hc.1, hc.2.1, hc.2.2.2.2⟩

/-- **Congruence (partial: `BitExact` frames).** Two well-formed stored frames — derived in any way, with different
physical rows and different indexes — for which today's `Equals` answers `true`, and which hold no pair of IEEE-equal floats
of different bits, give IDENTICAL results under every regenerated observer: `Len`, `ColumnNames`, `ColumnTypes`, every
view's `ItemAt` / `Len` / `Slice`, the records of `ToCSV` for every column selection, the `Write` calls of `ToJSON` under every
fault pattern, `String()`, the `Exec` calls of `ToSQL` under every configuration and fault pattern, and `Equals` against
every third frame. EXCLUDED: pairs of frames holding +0.0 against −0.0 or NaNs of different payloads at some position. -/
theorem gen_equal_frames_observe_equal_partial (P Q : VFrame) (hP : WF P) (hQ : WF Q)
    (heq : genFrameEquals P.logical Q.logical = some true) (hbits : BitExact P.logical Q.logical) : SameObs P Q := by
  have oP := gen_observations_agree P hP
  have oQ := gen_observations_agree Q hQ
  have he : equalsS P.logical Q.logical = true := by
    have := oP.equals Q hQ
    rw [heq] at this
    exact (Option.some.inj this).symm
  have hnorm := norm_eq_of_equals P Q he hbits
  have hn : P.logical.n = Q.logical.n := by
    show (normF P.logical).n = (normF Q.logical).n
    rw [hnorm]
  have hlen : P.index.length = Q.index.length := hn
  refine ⟨?_, ?_, ?_, ?_, ?_, ?_, ?_, ?_, ?_⟩
  · intro hasErr; rw [hlen]
  · rw [oP.names, oQ.names, ← names_norm, hnorm, names_norm]
  · rw [oP.types, oQ.types]
    congr 1
    have : (normF P.logical).cols.map (fun l => typeNameS l.ty) =
        (normF Q.logical).cols.map (fun l => typeNameS l.ty) := by rw [hnorm]
    simpa [normF, normC, List.map_map, Function.comp_def] using this
  · intro i c d hc hd
    obtain ⟨l, hl, _, _, _, h1, h2, h3⟩ := oP.views i c hc
    obtain ⟨m, hm, _, _, _, g1, g2, g3⟩ := oQ.views i d hd
    obtain ⟨_, _, hcells⟩ := norm_col hnorm i l m hl hm
    refine ⟨fun r => ?_, ?_, ?_⟩
    · rw [h1, g1, hcells]
    · rw [h2, g2, hn]
    · rw [h3, g3, hcells]
  · intro fmt cols hdr ferr
    rw [oP.tocsv, oQ.tocsv, ← csvOut_norm, hnorm, csvOut_norm]
  · intro fmt fail
    rw [C14WriterGen.gen_tojson_writes fmt _ hP.typed, C14WriterGen.gen_tojson_writes fmt _ hQ.typed]
    have := jsonOut_norm fmt P.logical fail
    have h2 := jsonOut_norm fmt Q.logical fail
    rw [hnorm] at this
    exact (this.symm.trans h2 ▸ rfl : jsonOut fmt P.logical fail = jsonOut fmt Q.logical fail)
  · intro fmt
    rw [oP.string, oQ.string, ← stringPieces_norm, hnorm, stringPieces_norm]
  · intro hasErr cfg efail
    rw [oP.tosql, oQ.tosql, ← toSqlGo_norm, hnorm, toSqlGo_norm]
  · intro R hR
    rw [oP.equals R hR, oQ.equals R hR]
    congr 1
    have h1 : equalsS Q.logical P.logical = true := by rw [C09.equalsS_symm]; exact he
    cases hx : equalsS P.logical R.logical <;> cases hy : equalsS Q.logical R.logical <;> try rfl
    · have := C09.equalsS_trans _ _ _ he hy
      rw [hx] at this; cases this
    · have := C09.equalsS_trans _ _ _ h1 hx
      rw [hy] at this; cases this

/-- **Congruence without any further hypothesis**: `Equals = true` gives the same `Len`, names and types, views that hand
out pairwise `cellEq` items (equal ints / bools / strings, null with null, NaN with NaN, floats equal as IEEE values), and
the same answer of `Equals` against every third frame. -/
theorem gen_equal_frames_observe_cellEq (P Q : VFrame) (hP : WF P) (hQ : WF Q)
    (heq : genFrameEquals P.logical Q.logical = some true) :
    (∀ hasErr : Bool, C08Guards.genLen { hasErr := hasErr, rows := P.index.length } =
      C08Guards.genLen { hasErr := hasErr, rows := Q.index.length }) ∧
    genColumnNames (P.cols.map (·.name)) = genColumnNames (Q.cols.map (·.name)) ∧
    genTypes P = genTypes Q ∧
    (∀ (i : Nat) (c d : VCol), P.cols[i]? = some c → Q.cols[i]? = some d → ∀ r, r < P.index.length →
      ∃ x y, genItemAt c P.index r = some x ∧ genItemAt d Q.index r = some y ∧ cellEq x y = true) ∧
    (∀ R : VFrame, WF R → genFrameEquals P.logical R.logical = genFrameEquals Q.logical R.logical) := by
  have oP := gen_observations_agree P hP
  have oQ := gen_observations_agree Q hQ
  have he : equalsS P.logical Q.logical = true := by
    have := oP.equals Q hQ
    rw [heq] at this
    exact (Option.some.inj this).symm
  obtain ⟨hn, hnames, hcols⟩ := (C10Guards.equalsS_iff _ _).1 he
  have hlen : P.index.length = Q.index.length := hn
  have hl : P.logical.cols.length = Q.logical.cols.length := by
    have := congrArg List.length hnames
    simpa [LFrame.names] using this
  refine ⟨fun _ => by rw [hlen], by rw [oP.names, oQ.names, hnames], ?_, ?_, ?_⟩
  · rw [oP.types, oQ.types]
    congr 1
    apply List.ext_getElem (by simp [hl])
    intro i h1 h2
    have hi : i < P.logical.cols.length := by simpa using h1
    have hi' : i < Q.logical.cols.length := hl ▸ hi
    have hd := hcols i hi
    simp only [C10Guards.colDiffers, Bool.not_eq_false', Bool.and_eq_true, beq_iff_eq] at hd
    rw [getElem!_eq_of_lt _ i hi, getElem!_eq_of_lt _ i hi'] at hd
    simp only [List.getElem_map, hd.1]
  · intro i c d hc hd r hr
    obtain ⟨l, hl1, _, _, hsz, h1, _, _⟩ := oP.views i c hc
    obtain ⟨m, hm1, _, _, hsz', g1, _, _⟩ := oQ.views i d hd
    have hi : i < P.logical.cols.length := (List.getElem?_eq_some_iff.1 hl1).1
    have hdiff := hcols i hi
    simp only [C10Guards.colDiffers, Bool.not_eq_false', Bool.and_eq_true, beq_iff_eq, List.all_eq_true,
      List.mem_range] at hdiff
    have ea : P.logical.cols[i]! = l := by
      rw [getElem!_eq_of_lt _ i hi]; exact (List.getElem?_eq_some_iff.1 hl1).2
    have hi' : i < Q.logical.cols.length := (List.getElem?_eq_some_iff.1 hm1).1
    have eb : Q.logical.cols[i]! = m := by
      rw [getElem!_eq_of_lt _ i hi']; exact (List.getElem?_eq_some_iff.1 hm1).2
    have hr1 : r < l.cells.size := by rw [hsz]; exact hr
    have hr2 : r < m.cells.size := by rw [hsz', ← hn]; exact hr
    have hc := hdiff.2 r hr
    rw [ea, eb] at hc
    refine ⟨l.cells[r]!, m.cells[r]!, ?_, ?_, hc⟩
    · rw [h1 r]; simp [hr1]
    · rw [g1 r]; simp [hr2]
  · intro R hR
    rw [oP.equals R hR, oQ.equals R hR]
    congr 1
    have h1 : equalsS Q.logical P.logical = true := by rw [C09.equalsS_symm]; exact he
    cases hx : equalsS P.logical R.logical <;> cases hy : equalsS Q.logical R.logical <;> try rfl
    · have := C09.equalsS_trans _ _ _ he hy
      rw [hx] at this; cases this
    · have := C09.equalsS_trans _ _ _ h1 hx
      rw [hy] at this; cases this

/-! ## Examples -/

/-- the same logical frame stored differently: rows in another physical order behind another index -/
def exQ : VFrame :=
  { cols := [{ name := [97], ty := .int, data := #[.int 12, .int 10] },
             { name := [98], ty := .float, data := #[.float 0x3ff8000000000000, .float 0] },
             { name := [115], ty := .string, data := #[.str (some []), .str (some [120])] },
             { name := [101], ty := .enum, vals := [[121], [120]], data := #[.str (some [120]), .str (some [121])] }],
    index := [0, 1, 0] }

theorem exQ_wf : WF exQ := by
  refine ⟨?_, by decide⟩
  intro c hc
  simp only [exQ, List.mem_cons, List.not_mem_nil, or_false] at hc
  rcases hc with rfl | rfl | rfl | rfl <;> exact colOK_of_check _ _ (by decide)

theorem ex_equal : equalsS exP.logical exQ.logical = true := by decide

theorem ex_bits : BitExact exP.logical exQ.logical := by
  have hall : ∀ i, i < 4 → ∀ r, r < 3 → (exP.logical.cols[i]!).cells[r]! = (exQ.logical.cols[i]!).cells[r]! := by decide
  intro i r x y hx hy _
  by_cases hi : i < 4
  · by_cases hr : r < 3
    · have := hall i hi r hr
      rw [hx, hy] at this
      exact Cell.float.inj this
    · have hs : (exP.logical.cols[i]!).cells.size = 3 := by
        have : ∀ i, i < 4 → (exP.logical.cols[i]!).cells.size = 3 := by decide
        exact this i hi
      have : (exP.logical.cols[i]!).cells[r]! = default := getElem!_neg _ _ (by rw [hs]; exact hr)
      rw [this] at hx
      cases hx
  · have hl : exP.logical.cols.length = 4 := by decide
    have : exP.logical.cols[i]! = default := getElem!_neg _ _ (by rw [hl]; exact hi)
    rw [this] at hx
    cases hx

/-- the hypotheses of the congruence theorem are met by two differently stored frames (different physical rows, different
indexes, different enum value tables) -/
example : SameObs exP exQ :=
  gen_equal_frames_observe_equal_partial exP exQ exP_wf exQ_wf
    (by rw [(gen_observations_agree exP exP_wf).equals exQ exQ_wf, ex_equal]) ex_bits

/-- **Why `BitExact` cannot be dropped.** The one-cell frames [+0.0] and [−0.0] are `Equal` (IEEE equality, as the
property's text and today's `fcolumn.Equals` have it), and `ToCSV` writes different records for them with any formatter that
tells the two zeros apart (Go's `strconv.FormatFloat` writes `0` and `-0`). -/
theorem zero_frames_equal_but_print_differently :
    let a : VFrame := { cols := [{ name := [97], ty := .float, data := #[.float 0] }], index := [0] }
    let b : VFrame := { cols := [{ name := [97], ty := .float, data := #[.float 0x8000000000000000] }], index := [0] }
    let fmt : UInt64 → Bytes := fun x => if x = 0x8000000000000000 then [45, 48] else [48]
    equalsS a.logical b.logical = true ∧
    tocsvRows fmt false a.logical = [[[48]]] ∧ tocsvRows fmt false b.logical = [[[45, 48]]] := by
  decide

#print axioms gen_observations_agree
#print axioms gen_equal_frames_observe_equal_partial
#print axioms gen_equal_frames_observe_cellEq
#print axioms zero_frames_equal_but_print_differently
#print axioms exP_wf

end QF.Props.C09EndToEnd
